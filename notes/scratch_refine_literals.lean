import OjgVerif.Json.Refine
namespace OjgVerif.Json
open OjgVerif

/-- a literal mode, its word and its value -/
structure LitSpec (m : Mode) (w : Bytes) (v : JV) : Prop where
  tok : ∀ (s : St) (x : UInt8), s.mode = m → ∃ k, stepToken refTables s x =
      if w.getD (s.ri + 1) 0 = x then
        (if w.length - 1 ≤ s.ri + 1 then ({ s with ri := s.ri + 1, mode := .after } : St).add v
         else .ok { s with ri := s.ri + 1 })
      else .error (s.err k)
  act : ∀ x, expected m x = .tokenOk ∨ expected m x = .charErr
  fin : expectedFin m = .absent
  nv : ∀ nm, needVal m nm = true
  notAfter : m ≠ .after

theorem litSpec_null : LitSpec .null [110, 117, 108, 108] .null where
  tok := by
    intro s x hm
    refine ⟨.expNull, ?_⟩
    unfold stepToken
    have h1 : refTables.act s.mode 114 ≠ .tokenOk := by rw [hm]; decide
    have h2 : refTables.act s.mode 97 ≠ .tokenOk := by rw [hm]; decide
    have h3 : (refTables.act s.mode 117 = .tokenOk && refTables.act s.mode 108 = .tokenOk) = true := by rw [hm]; decide
    simp only [h1, h2, h3, ↓reduceIte, List.length_cons, List.length_nil]
  act := by
    intro x
    simp only [expected]
    split <;> simp
  fin := rfl
  nv := fun _ => rfl
  notAfter := by decide

theorem litSpec_true : LitSpec .true_ [116, 114, 117, 101] (.bool true) where
  tok := by
    intro s x hm
    refine ⟨.expTrue, ?_⟩
    unfold stepToken
    have h1 : refTables.act s.mode 114 = .tokenOk := by rw [hm]; decide
    simp only [h1, ↓reduceIte, List.length_cons, List.length_nil]
  act := by
    intro x
    simp only [expected]
    split <;> simp
  fin := rfl
  nv := fun _ => rfl
  notAfter := by decide

theorem litSpec_false : LitSpec .false_ [102, 97, 108, 115, 101] (.bool false) where
  tok := by
    intro s x hm
    refine ⟨.expFalse, ?_⟩
    unfold stepToken
    have h1 : refTables.act s.mode 114 ≠ .tokenOk := by rw [hm]; decide
    have h2 : refTables.act s.mode 97 = .tokenOk := by rw [hm]; decide
    simp only [h1, h2, ↓reduceIte, List.length_cons, List.length_nil]
  act := by
    intro x
    simp only [expected]
    split <;> simp
  fin := rfl
  nv := fun _ => rfl
  notAfter := by decide


/-- the machine is inside a literal that started in value position `s0` -/
structure InLit (m : Mode) (s0 s : St) : Prop where
  mode : s.mode = m
  starts : s.starts = s0.starts
  stack : s.stack = s0.stack
  docs : s.docs = s0.docs
  next : s.nextMode = .colon ∨ s.nextMode = .after

/-- one byte inside a literal: a wrong byte is an error -/
theorem lit_step_bad {m : Mode} {w : Bytes} {v : JV} (L : LitSpec m w v) (s : St) (x : UInt8)
    (hm : s.mode = m) (hx : w.getD (s.ri + 1) 0 ≠ x) : ∃ e, step refTables cfg1 s x = .error e := by
  unfold step stepAct
  rcases L.act x with ha | ha
  · have : refTables.act s.mode x = .tokenOk := by rw [hm]; exact ha
    obtain ⟨k, htok⟩ := L.tok s x hm
    simp only [this, htok, hx, ↓reduceIte, bind, Except.bind]
    exact ⟨_, rfl⟩
  · have : refTables.act s.mode x = .charErr := by rw [hm]; exact ha
    simp only [this]
    exact ⟨_, rfl⟩

/-- one byte inside a literal: the expected letter, not the last one -/
theorem lit_step_mid {m : Mode} {w : Bytes} {v : JV} (L : LitSpec m w v) (s : St) (x : UInt8)
    (hm : s.mode = m) (hx : w.getD (s.ri + 1) 0 = x) (hact : expected m x = .tokenOk)
    (hlast : ¬ (w.length - 1 ≤ s.ri + 1)) :
    step refTables cfg1 s x = .ok { s with ri := s.ri + 1, pos := s.pos + 1, inFast := false } := by
  unfold step stepAct
  have : refTables.act s.mode x = .tokenOk := by rw [hm]; exact hact
  obtain ⟨k, htok⟩ := L.tok s x hm
  simp only [this, htok, hx, hlast, ↓reduceIte, bind, Except.bind, pure, Except.pure, Bool.false_eq_true]
  have hd : deliver refTables cfg1 { s with ri := s.ri + 1 } = { s with ri := s.ri + 1 } := by
    unfold deliver
    have : refTables.fin s.mode ≠ .a := by rw [hm]; show expectedFin m ≠ .a; rw [L.fin]; decide
    simp [this]
  rw [hd]

end OjgVerif.Json
