/-! Spike S4: print/parse round trip over a nested inductive, fuel-based recursive descent. -/
namespace S4

inductive V where
  | num (n : Nat)
  | arr (xs : List V)
deriving Repr, Inhabited

abbrev Bytes := List UInt8

/-- decimal digits, most significant first (own definition: provable) -/
def digitsAux : Nat → Nat → Bytes → Bytes
  | 0, _, acc => acc
  | fuel+1, n, acc =>
    let acc' := (UInt8.ofNat (48 + n % 10)) :: acc
    if n / 10 = 0 then acc' else digitsAux fuel (n / 10) acc'
def digits (n : Nat) : Bytes := digitsAux (n + 1) n []

mutual
def render : V → Bytes
  | .num n => digits n
  | .arr xs => 91 :: renderL xs        -- '['
def renderL : List V → Bytes
  | [] => [93]                          -- ']'
  | [x] => render x ++ [93]
  | x :: y :: r => render x ++ 44 :: renderL (y :: r)   -- ','
end

def isDigit (b : UInt8) : Bool := 48 ≤ b && b ≤ 57

def readNat : Bytes → Nat → Nat × Bytes
  | b :: r, acc => if isDigit b then readNat r (acc * 10 + (b.toNat - 48)) else (acc, b :: r)
  | [], acc => (acc, [])

/-- element loop, parametrised by the value parser (no mutual recursion) -/
def parseElems (pv : Bytes → Option (V × Bytes)) : Nat → Bytes → Option (List V × Bytes)
  | 0, _ => none
  | k+1, bs =>
    match pv bs with
    | some (x, c :: rest) =>
      if c = 44 then (parseElems pv k rest).map (fun p => (x :: p.1, p.2))
      else if c = 93 then some ([x], rest) else none
    | _ => none

def parse : Nat → Bytes → Option (V × Bytes)
  | 0, _ => none
  | f+1, bs =>
    match bs with
    | [] => none
    | b :: r =>
      if isDigit b then
        some (.num (readNat (b :: r) 0).1, (readNat (b :: r) 0).2)
      else if b = 91 then
        match r with
        | c :: rest =>
          if c = 93 then some (.arr [], rest)
          else (parseElems (parse f) r.length r).map (fun p => (.arr p.1, p.2))
        | [] => none
      else none

#eval render (.arr [.num 12, .arr [], .arr [.num 0, .num 345]])
#eval parse 100 (render (.arr [.num 12, .arr [], .arr [.num 0, .num 345]]))

/-- number lemma, assumed shape to be proved separately (spike: state and test it) -/
def NumOK : Prop := ∀ (n : Nat) (rest : Bytes), (∀ b r, rest = b :: r → isDigit b = false) →
    (∃ d ds, digits n = d :: ds ∧ isDigit d = true) ∧ readNat (digits n ++ rest) 0 = (n, rest)

mutual
def depth : V → Nat
  | .num _ => 1
  | .arr xs => 1 + depthL xs
def depthL : List V → Nat
  | [] => 1
  | x :: r => depth x + depthL r + 1
end

theorem not_digit_93 : isDigit 93 = false := by decide
theorem not_digit_44 : isDigit 44 = false := by decide
theorem not_digit_91 : isDigit 91 = false := by decide


theorem render_head (x : V) : ∃ b t, render x = b :: t ∧ b ≠ 93 := by
  cases x with
  | num n => sorry
  | arr xs => exact ⟨91, renderL xs, by simp [render], by decide⟩

theorem renderL_len (xs : List V) (h : xs ≠ []) : xs.length ≤ (renderL xs).length := by
  sorry

/-- elements: given the value parser is right on every element (with any non-digit follower) -/
theorem elems_ok (pv : Bytes → Option (V × Bytes))
    : ∀ (xs : List V) (rest : Bytes) (k : Nat), xs ≠ [] → xs.length ≤ k →
      (∀ x ∈ xs, ∀ r, (∀ b t, r = b :: t → isDigit b = false) → pv (render x ++ r) = some (x, r)) →
      parseElems pv k (renderL xs ++ rest) = some (xs, rest) := by
  intro xs
  induction xs with
  | nil => intro _ _ h; exact absurd rfl h
  | cons x t ih =>
    intro rest k _ hk hpv
    cases k with
    | zero => simp at hk
    | succ k =>
      cases t with
      | nil =>
        have hx := hpv x (by simp) (93 :: rest) (by intro b t h; cases h; exact not_digit_93)
        simp [renderL, parseElems, hx]
      | cons y r =>
        have hx := hpv x (by simp) (44 :: (renderL (y :: r) ++ rest))
          (by intro b t h; cases h; exact not_digit_44)
        have ht := ih rest k (by simp) (by simp at hk ⊢; omega)
          (fun z hz => hpv z (by simp [hz]))
        simp [renderL, parseElems, hx, ht]

theorem roundtrip (hN : NumOK) : ∀ (f : Nat) (v : V) (rest : Bytes),
    (∀ b r, rest = b :: r → isDigit b = false) → depth v ≤ f →
    parse f (render v ++ rest) = some (v, rest) := by
  intro f
  induction f with
  | zero => intro v rest _ hf; cases v <;> simp [depth] at hf
  | succ f ih =>
    intro v rest hr hf
    match v with
    | .num n =>
      obtain ⟨⟨d, ds, hd, hdd⟩, hread⟩ := hN n rest hr
      have e1 : render (.num n) ++ rest = d :: (ds ++ rest) := by simp [render, hd]
      have e2 : d :: (ds ++ rest) = digits n ++ rest := by simp [hd]
      rw [e1]
      simp only [parse, hdd, ↓reduceIte]
      rw [e2, hread]
    | .arr [] => simp [render, renderL, parse, not_digit_91]
    | .arr (x :: xs) =>
      obtain ⟨b, t, hb, hb93⟩ : ∃ b t, renderL (x :: xs) = b :: t ∧ b ≠ 93 := by
        obtain ⟨b, t, hx, h93⟩ := render_head x
        cases xs with
        | nil => exact ⟨b, t ++ [93], by simp [renderL, hx], h93⟩
        | cons y r => exact ⟨b, t ++ 44 :: renderL (y :: r), by simp [renderL, hx], h93⟩
      have hE := elems_ok (parse f) (x :: xs) rest (renderL (x :: xs) ++ rest).length (by simp)
        (by have := renderL_len (x :: xs) (by simp); simp at this ⊢; omega)
        (fun z hz r hr' => ih z r hr' (by sorry))
      simp only [render, List.cons_append, parse, not_digit_91, Bool.false_eq_true, ↓reduceIte]
      rw [hb] at hE ⊢
      simp only [List.cons_append] at hE ⊢
      simp [hb93, hE]
#print axioms elems_ok
end S4
