/-! Spike S5: table-style stack machine vs LL(1) recursive descent recogniser, proved equal
    as Boolean functions by ONE equation-style lemma (covers soundness and completeness).
    Language: value ::= 'n' | DIGIT+ | '[' ws ']' | '[' ws value ws (',' ws value ws)* ']' ;  doc ::= ws value ws -/
namespace S5
abbrev Bytes := List UInt8

def isWs (b : UInt8) : Bool := b = 32 || b = 10
def isDigit (b : UInt8) : Bool := 48 ≤ b && b ≤ 57

inductive Mode | value | comma | after | digit | space
deriving DecidableEq, Repr

/-- one step of the machine (depth = number of open arrays); none = error -/
def step (m : Mode) (d : Nat) (b : UInt8) : Option (Mode × Nat) :=
  match m with
  | .value =>
    if isWs b then some (.value, d)
    else if b = 110 then some (if d = 0 then .space else .after, d)       -- 'n'
    else if isDigit b then some (.digit, d)
    else if b = 91 then some (.value, d + 1)                                -- '['
    else if b = 93 then (if d = 0 then none else some (if d = 1 then .space else .after, d - 1))  -- ']' (legal after '[' only... see note)
    else none
  | .comma =>
    if isWs b then some (.comma, d)
    else if b = 110 then some (.after, d)
    else if isDigit b then some (.digit, d)
    else if b = 91 then some (.value, d + 1)
    else none
  | .after =>
    if isWs b then some (.after, d)
    else if b = 44 then (if d = 0 then none else some (.comma, d))        -- ','
    else if b = 93 then (if d = 0 then none else some (if d = 1 then .space else .after, d - 1))
    else none
  | .digit =>
    if isDigit b then some (.digit, d)
    else if isWs b then some (if d = 0 then .space else .after, d)
    else if b = 44 then (if d = 0 then none else some (.comma, d))
    else if b = 93 then (if d = 0 then none else some (if d = 1 then .space else .after, d - 1))
    else none
  | .space => if isWs b then some (.space, d) else none

def final (m : Mode) (d : Nat) : Bool :=
  d = 0 && (m = .space || m = .digit)

def run : Mode → Nat → Bytes → Bool
  | m, d, [] => final m d
  | m, d, b :: r => match step m d b with
    | none => false
    | some (m', d') => run m' d' r

/-! NOTE: the machine above accepts "[1,]"? No: after ',' mode is comma, which has no ']'.
    It accepts "[]" through value-mode ']' — and would accept "[ ]". -/

/-- Spec: LL(1) recursive descent recogniser; returns the rest after one value. -/
def skipWs : Bytes → Bytes
  | b :: r => if isWs b then skipWs r else b :: r
  | [] => []

def skipDigits : Bytes → Bytes
  | b :: r => if isDigit b then skipDigits r else b :: r
  | [] => []

/-- elements after the first value of an array has been read: ws (',' ws value ws)* ']' -/
def pTail (pv : Bytes → Option Bytes) : Nat → Bytes → Option Bytes
  | 0, _ => none
  | k+1, bs =>
    match skipWs bs with
    | c :: r =>
      if c = 93 then some r
      else if c = 44 then
        match pv (skipWs r) with
        | some rest => pTail pv k rest
        | none => none
      else none
    | [] => none

def pValue : Nat → Bytes → Option Bytes
  | 0, _ => none
  | f+1, bs =>
    match bs with
    | [] => none
    | b :: r =>
      if b = 110 then some r
      else if isDigit b then some (skipDigits r)
      else if b = 91 then
        match skipWs r with
        | c :: r' =>
          if c = 93 then some r'
          else match pValue f (c :: r') with
            | some rest => pTail (pValue f) rest.length.succ rest
            | none => none
        | [] => none
      else none

def specAccepts (bs : Bytes) : Bool :=
  match pValue (bs.length + 1) (skipWs bs) with
  | some rest => (skipWs rest).isEmpty
  | none => false

#eval ["[1, [n,22 ] ,[]]", "[1,]", "[", "12 ", " n", "[] ]", "1 2", "[n n]", ""].map
  (fun s => (s, run .value 0 s.toUTF8.toList, specAccepts s.toUTF8.toList))


/-! ### Proof -/

def postMode (d : Nat) : Mode := if d = 0 then .space else .after
def post (d : Nat) (rest : Bytes) : Bool := run (postMode d) d rest

theorem run_cons (m d b r) : run m d (b :: r) = (match step m d b with | none => false | some (m', d') => run m' d' r) := rfl

/-- whitespace is skipped in value, comma, after, space modes -/
theorem run_skipWs (m : Mode) (hm : m = .value ∨ m = .comma ∨ m = .after ∨ m = .space) (d : Nat) :
    ∀ bs, run m d bs = run m d (skipWs bs) := by
  intro bs
  induction bs with
  | nil => simp [skipWs]
  | cons b r ih =>
    by_cases hb : isWs b = true
    · simp only [skipWs, hb, ↓reduceIte]
      rw [← ih, run_cons]
      rcases hm with h | h | h | h <;> subst h <;> simp [step, hb]
    · simp [skipWs, hb]

theorem skipWs_head (bs : Bytes) : ∀ c r, skipWs bs = c :: r → isWs c = false := by
  induction bs with
  | nil => intro c r h; simp [skipWs] at h
  | cons b t ih =>
    intro c r h
    by_cases hb : isWs b = true
    · simp [skipWs, hb] at h; exact ih c r h
    · simp [skipWs, hb] at h; obtain ⟨rfl, _⟩ := h; simpa using hb

theorem skipWs_len (bs : Bytes) : (skipWs bs).length ≤ bs.length := by
  induction bs with
  | nil => simp [skipWs]
  | cons b t ih => by_cases hb : isWs b = true <;> simp [skipWs, hb] <;> omega

theorem skipDigits_len (bs : Bytes) : (skipDigits bs).length ≤ bs.length := by
  induction bs with
  | nil => simp [skipDigits]
  | cons b t ih => by_cases hb : isDigit b = true <;> simp [skipDigits, hb] <;> omega

/-- digit mode: consume digits, then behave like the post mode -/
theorem run_digit (d : Nat) : ∀ r, run .digit d r = post d (skipDigits r) := by
  intro r
  induction r with
  | nil => simp [skipDigits, post, postMode, run, final]; by_cases h : d = 0 <;> simp [h]
  | cons b t ih =>
    by_cases hb : isDigit b = true
    · simp only [skipDigits, hb, ↓reduceIte]; rw [← ih, run_cons]; simp [step, hb]
    · have hb' : isDigit b = false := by simpa using hb
      simp only [skipDigits, hb', Bool.false_eq_true, ↓reduceIte, post, postMode]
      rw [run_cons, run_cons]
      by_cases hd : d = 0
      · subst hd; simp [step, hb']
      · simp [step, hb', hd]


theorem pTail_len (pv : Bytes → Option Bytes) (hpv : ∀ bs rest, pv bs = some rest → rest.length < bs.length) :
    ∀ k bs rest, pTail pv k bs = some rest → rest.length < bs.length := by
  intro k
  induction k with
  | zero => intro bs rest h; simp [pTail] at h
  | succ k ih =>
    intro bs rest h
    simp only [pTail] at h
    have hl := skipWs_len bs
    match hsk : skipWs bs with
    | [] => simp [hsk] at h
    | c :: r =>
      rw [hsk] at h hl; simp at hl
      by_cases h93 : c = 93
      · simp [h93] at h; subst h; omega
      · by_cases h44 : c = 44
        · simp only [h93, h44, ↓reduceIte] at h
          have hl2 := skipWs_len r
          match hp : pv (skipWs r) with
          | none => simp [hp] at h
          | some rest' =>
            simp only [hp] at h
            have := hpv _ _ hp
            have := ih _ _ h
            omega
        · simp [h93, h44] at h

theorem pValue_len : ∀ f bs rest, pValue f bs = some rest → rest.length < bs.length := by
  intro f
  induction f with
  | zero => intro bs rest h; simp [pValue] at h
  | succ f ih =>
    intro bs rest h
    match bs with
    | [] => simp [pValue] at h
    | b :: r =>
      simp only [pValue] at h
      by_cases hn : b = 110
      · simp [hn] at h; subst h; simp
      · by_cases hd : isDigit b = true
        · simp [hn, hd] at h; subst h; have := skipDigits_len r; simp; omega
        · by_cases hb : b = 91
          · subst hb
            simp only [show ¬ ((91 : UInt8) = 110) by decide, show isDigit 91 = false by decide,
              Bool.false_eq_true, ↓reduceIte] at h
            have hl := skipWs_len r
            match hsk : skipWs r with
            | [] => simp [hsk] at h
            | c :: r' =>
              rw [hsk] at h hl; simp at hl
              by_cases h93 : c = 93
              · simp [h93] at h; subst h; simp; omega
              · simp only [h93, ↓reduceIte] at h
                match hp : pValue f (c :: r') with
                | none => simp [hp] at h
                | some rest' =>
                  simp only [hp] at h
                  have h1 := ih _ _ hp
                  have h2 := pTail_len (pValue f) ih _ _ _ h
                  simp at h1 ⊢; omega
          · simp [hn, hd, hb] at h

/-- The equation lemma: value position. `m` is value (first byte not ']') or comma. -/
theorem value_eq : ∀ (f : Nat) (m : Mode) (d : Nat) (b : UInt8) (r : Bytes),
    (m = .value ∨ m = .comma) → (m = .comma → d ≠ 0) → isWs b = false → (b ≠ 93) → (b :: r).length ≤ f →
    run m d (b :: r) = (match pValue f (b :: r) with | none => false | some rest => post d rest)
    := by
  intro f
  induction f with
  | zero => intro m d b r _ _ _ _ hf; simp at hf
  | succ f ih =>
    intro m d b r hm hmd hws h93 hf
    -- tail lemma for this fuel level
    have tail : ∀ (k : Nat) (rest : Bytes) (d : Nat), rest.length < k → rest.length ≤ f →
        run .after (d + 1) rest =
          (match pTail (pValue f) k rest with | none => false | some r' => post d r') := by
      intro k
      induction k with
      | zero => intro rest d hk; simp at hk
      | succ k ihk =>
        intro rest d hk hlf
        rw [run_skipWs .after (by simp) (d + 1) rest]
        simp only [pTail]
        have hlen := skipWs_len rest
        match hsk : skipWs rest with
        | [] => simp [run, final]
        | c :: r' =>
          have hc := skipWs_head rest c r' hsk
          rw [run_cons]
          by_cases h93' : c = 93
          · subst h93'
            simp [step, hc, post, postMode]
          · by_cases h44 : c = 44
            · subst h44
              simp only [step, hc, Bool.false_eq_true, ↓reduceIte]
              simp only [show (44 : UInt8) ≠ 93 by decide, ↓reduceIte]
              simp only [show ¬ (d + 1 = 0) by omega, ↓reduceIte]
              rw [run_skipWs .comma (by simp) (d + 1) r']
              have hlen2 := skipWs_len r'
              rw [hsk] at hlen; simp at hlen
              match hsk2 : skipWs r' with
              | [] => simp [run, final, pValue]; cases f <;> simp [pValue]
              | c2 :: r2 =>
                have hc2 := skipWs_head r' c2 r2 hsk2
                by_cases h2 : c2 = 93
                · subst h2
                  rw [run_cons]; simp [step, hc2, show isDigit 93 = false by decide]
                  cases f with
                  | zero => simp [pValue]
                  | succ f' => simp [pValue, show isDigit 93 = false by decide]
                · rw [hsk2] at hlen2; simp at hlen2
                  rw [ih .comma (d + 1) c2 r2 (by simp) (by simp) hc2 h2 (by simp; omega)]
                  match hpv : pValue f (c2 :: r2) with
                  | none => simp
                  | some rest' =>
                    simp only
                    have hl3 := pValue_len _ _ _ hpv
                    simp at hl3
                    have := ihk rest' d (by omega) (by omega)
                    simpa [post, postMode] using this
            · simp [step, hc, h93', h44]
    rw [run_cons]
    by_cases hn : b = 110
    · subst hn
      rcases hm with h | h <;> subst h
      · simp [step, hws, pValue, post, postMode]
      · have := hmd rfl
        simp [step, hws, pValue, post, postMode, this]
    · by_cases hd : isDigit b = true
      · have : run .digit d r = post d (skipDigits r) := run_digit d r
        rcases hm with h | h <;> subst h <;> simp [step, hws, hn, hd, pValue, this]
      · have hd' : isDigit b = false := by simpa using hd
        by_cases hb : b = 91
        · subst hb
          have e : step m d 91 = some (.value, d + 1) := by
            rcases hm with h | h <;> subst h <;> simp [step, hws, hd']
          rw [e]; simp only
          rw [run_skipWs .value (by simp) (d + 1) r]
          simp only [pValue, show ¬ ((91 : UInt8) = 110) by decide, hd', Bool.false_eq_true, ↓reduceIte]
          have hl := skipWs_len r
          match hsk : skipWs r with
          | [] => simp [run, final]
          | c :: r' =>
            have hc := skipWs_head r c r' hsk
            rw [hsk] at hl; simp at hl hf
            by_cases hc93 : c = 93
            · subst hc93
              rw [run_cons]
              simp [step, hc, show isDigit 93 = false by decide, post, postMode]
            · simp only [hc93, ↓reduceIte]
              rw [ih .value (d + 1) c r' (by simp) (by simp) hc hc93 (by simp; omega)]
              match hpv : pValue f (c :: r') with
              | none => simp
              | some rest =>
                simp only
                have hl3 := pValue_len _ _ _ hpv
                simp at hl3
                have := tail (rest.length.succ) rest d (by omega) (by omega)
                simpa [post, postMode] using this
        · rcases hm with h | h <;> subst h <;> simp [step, hws, hn, hd', hb, h93, pValue]
end S5

namespace S5
/-- top level: machine = spec on every input -/
theorem machine_eq_spec (bs : Bytes) : run .value 0 bs = specAccepts bs := by
  unfold specAccepts
  rw [run_skipWs .value (by simp) 0 bs]
  have hl := skipWs_len bs
  match hsk : skipWs bs with
  | [] => simp [run, final, pValue]
  | c :: r =>
    have hc := skipWs_head bs c r hsk
    rw [hsk] at hl
    by_cases h93 : c = 93
    · subst h93
      rw [run_cons]
      simp [step, hc, show isDigit 93 = false by decide, pValue]
    · rw [value_eq (bs.length + 1) .value 0 c r (by simp) (by simp) hc h93 (by omega)]
      match hpv : pValue (bs.length + 1) (c :: r) with
      | none => simp
      | some rest =>
        simp only [post, postMode, ↓reduceIte]
        rw [run_skipWs .space (by simp) 0 rest]
        match hs2 : skipWs rest with
        | [] => simp [run, final]
        | c2 :: r2 =>
          have hc2 := skipWs_head rest c2 r2 hs2
          rw [run_cons]; simp [step, hc2]
#print axioms machine_eq_spec
end S5
