/-! Spike: gen.Number integer accumulation with UInt64 wrap-around semantics. -/
namespace Spike

def BigLimit : UInt64 := 922337203685477580
def MaxInt64 : UInt64 := 9223372036854775807

structure Num where
  i : UInt64 := 0
  big : List UInt8 := []   -- BigBuf
deriving Repr

def digitsOf (n : Nat) : List UInt8 := (toString n).toUTF8.toList

def Num.fillBig (n : Num) : Num := { n with big := n.big ++ digitsOf n.i.toNat }

/-- gen/number.go AddDigit -/
def Num.addDigit (n : Num) (b : UInt8) : Num :=
  if 0 < n.big.length then { n with big := n.big ++ [b] }
  else if n.i ≤ BigLimit then
    let n' := { n with i := n.i * 10 + (b - 48).toUInt64 }
    if MaxInt64 < n'.i then n'.fillBig else n'
  else
    let n' := n.fillBig
    { n' with big := n'.big ++ [b] }

/-- tokenizer fast loop body (oj/tokenizer.go:263-267): no guard before the multiply -/
def Num.tokDigit (n : Num) (b : UInt8) : Num :=
  let n' := { n with i := n.i * 10 + (b - 48).toUInt64 }
  if MaxInt64 < n'.i then n'.fillBig else n'

def isDigit (b : UInt8) : Prop := 48 ≤ b.toNat ∧ b.toNat ≤ 57
def dval (b : UInt8) : Nat := b.toNat - 48

/-- value of a digit string -/
def natOf (ds : List UInt8) : Nat := ds.foldl (fun a b => a * 10 + dval b) 0

/-- invariant: while not big, i holds the exact value and fits int64 -/
def Inv (n : Num) (v : Nat) : Prop :=
  n.big = [] → (n.i.toNat = v ∧ v ≤ 9223372036854775807)

theorem addDigit_small (n : Num) (b : UInt8) (v : Nat) (hb : isDigit b)
    (hbig : n.big = []) (hi : n.i.toNat = v) (hv : v ≤ 9223372036854775807) :
    Inv (n.addDigit b) (v * 10 + dval b) := by
  unfold Inv Num.addDigit
  have h48 : (48 : UInt8) ≤ b := by rw [UInt8.le_iff_toNat_le]; exact hb.1
  simp only [hbig, List.length_nil, Nat.lt_irrefl, ↓reduceIte]
  by_cases hle : n.i ≤ BigLimit
  · simp only [hle, ↓reduceIte]
    have hle' : n.i.toNat ≤ 922337203685477580 := by
      rw [UInt64.le_iff_toNat_le] at hle; exact hle
    have hval : (n.i * 10 + (b - 48).toUInt64).toNat = v * 10 + dval b := by
      simp only [UInt64.toNat_add, UInt64.toNat_mul, UInt8.toNat_toUInt64, UInt8.toNat_sub_of_le _ _ h48]
      have : (10:UInt64).toNat = 10 := rfl
      have h48' : (48:UInt8).toNat = 48 := rfl
      simp only [this, h48', dval]
      have := hb.2
      omega
    split
    · intro hb'
      simp [Num.fillBig, digitsOf] at hb'
    · rename_i hlt
      intro _
      refine ⟨hval, ?_⟩
      rw [← hval]
      have : ¬ (MaxInt64 < n.i * 10 + (b - 48).toUInt64) := hlt
      rw [UInt64.lt_iff_toNat_lt] at this
      have hm : MaxInt64.toNat = 9223372036854775807 := rfl
      omega
  · simp only [hle, ↓reduceIte]
    intro hb'
    simp [Num.fillBig] at hb'

/-- the tokenizer loop wraps: concrete witness (negation of the invariant step) -/
theorem tokDigit_wraps :
    let n : Num := { i := 5000000000000000000 }
    (n.tokDigit 48).i.toNat ≠ 50000000000000000000 := by decide

#print axioms addDigit_small
#print axioms tokDigit_wraps
end Spike
