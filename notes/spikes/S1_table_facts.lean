def valueMap : Array UInt8 := #[46,46,46,46,46,46,46,46,46,97,98,46,46,97,46,46,46,46,46,46,46,46,46,46,46,46,46,46,46,46,46,46,
 97,46,105,46,46,46,46,46,46,46,46,46,46,102,46,46,103,104,104,104,104,104,104,104,104,104,46,46,46,46,46,46,
 46,46,46,46,46,46,46,46,46,46,46,46,46,46,46,46,46,46,46,46,46,46,46,46,46,46,46,107,46,109,46,46,
 46,46,46,46,46,46,101,46,46,46,46,46,46,46,99,46,46,46,46,46,100,46,46,46,46,46,46,108,46,110,46,46,
 46,46,46,46,46,46,46,46,46,46,46,46,46,46,46,46,46,46,46,46,46,46,46,46,46,46,46,46,46,46,46,46,
 46,46,46,46,46,46,46,46,46,46,46,46,46,46,46,46,46,46,46,46,46,46,46,46,46,46,46,46,46,46,46,46,
 46,46,46,46,46,46,46,46,46,46,46,46,46,46,46,46,46,46,46,46,46,46,46,46,46,46,46,46,46,46,46,46,
 46,46,46,46,46,46,46,46,46,46,46,46,46,46,46,46,46,46,46,46,46,46,46,46,46,46,46,46,46,46,46,46,118]

def cls (t : Array UInt8) (b : UInt8) : UInt8 := t.getD b.toNat 0

inductive Act | err | skip | nl | quote | other deriving DecidableEq, Repr
def act (c : UInt8) : Act := if c = 46 then .err else if c = 97 then .skip else if c = 98 then .nl else if c = 105 then .quote else .other

def isWs (b : UInt8) : Bool := b = 32 || b = 9 || b = 10 || b = 13

theorem ws_table : ∀ i : Fin 256, (act (cls valueMap (UInt8.ofNat i.val)) = .skip ∨ act (cls valueMap (UInt8.ofNat i.val)) = .nl) ↔ isWs (UInt8.ofNat i.val) = true := by
  decide +kernel

theorem ws_table' (b : UInt8) : (act (cls valueMap b) = .skip ∨ act (cls valueMap b) = .nl) ↔ isWs b = true := by
  have := ws_table ⟨b.toNat, b.toNat_lt⟩
  simpa using this
#print axioms ws_table'
