/-! Spike S3: nested-inductive JSON value, denotational path eval, work-list machine, equivalence. -/
namespace S3

inductive JV where
  | null
  | int (i : Int)
  | str (s : String)
  | arr (xs : List JV)
  | obj (kvs : List (String × JV))
deriving Repr, Inhabited

inductive Frag where
  | child (k : String)
  | nth (i : Int)
  | wild
deriving Repr, DecidableEq

def lookup (k : String) : List (String × JV) → Option JV
  | [] => none
  | (k', v) :: r => if k' = k then some v else lookup k r

/-- index with negative-from-end, as in get.go Nth branch -/
def nthOf (xs : List JV) (i : Int) : Option JV :=
  let j := if i < 0 then (xs.length : Int) + i else i
  if 0 ≤ j ∧ j < xs.length then xs[j.toNat]? else none

/-- Spec: one fragment -/
def sel : Frag → JV → List JV
  | .child k, .obj kvs => (lookup k kvs).toList
  | .nth i, .arr xs => (nthOf xs i).toList
  | .wild, .arr xs => xs
  | .wild, .obj kvs => kvs.map (·.2)
  | _, _ => []

/-- Spec: whole path -/
def eval : List Frag → JV → List JV
  | [], v => [v]
  | f :: r, v => (sel f v).flatMap (eval r)

def isContainer : JV → Bool
  | .arr _ => true
  | .obj _ => true
  | _ => false

/-- Model: work list of (data, remaining fragments); mirrors Get: separate last/inner
    branches, inner branch pushes only containers, in reverse so that they pop in order. -/
structure Item where
  d : JV
  fs : List Frag

def stepItem (it : Item) : List JV × List Item :=
  match it.fs with
  | [] => ([it.d], [])
  | [f] => (sel f it.d, [])                                  -- "last one" branch
  | f :: r =>                                                -- inner branch
    let kids := (sel f it.d).filter isContainer
    ([], kids.map (fun k => ⟨k, r⟩))

/-- fuelled driver; the stack top is the list head -/
def run : Nat → List Item → List JV → List JV
  | 0, _, acc => acc
  | _+1, [], acc => acc
  | n+1, it :: st, acc =>
    let (res, push) := stepItem it
    run n (push ++ st) (acc ++ res)

/-- denotation of a pending work list -/
def denote (st : List Item) : List JV := st.flatMap (fun it => eval it.fs it.d)

theorem eval_nonContainer (f : Frag) (r : List Frag) (v : JV) (h : isContainer v = false) :
    eval (f :: r) v = [] := by
  cases v <;> simp_all [eval, sel, isContainer] <;> cases f <;> simp [sel]

theorem flatMap_filter_container (l : List JV) (f : Frag) (r : List Frag) :
    (l.filter isContainer).flatMap (eval (f :: r)) = l.flatMap (eval (f :: r)) := by
  induction l with
  | nil => rfl
  | cons a t ih =>
    by_cases h : isContainer a = true
    · simp [List.filter, h, ih]
    · have h' : isContainer a = false := by simpa using h
      simp [List.filter, h', ih, eval_nonContainer f r a h']

theorem step_ok (it : Item) :
    (stepItem it).1 ++ denote (stepItem it).2 = eval it.fs it.d := by
  unfold stepItem
  match h : it.fs with
  | [] => simp [denote, eval]
  | [f] => simp [denote, eval]
  | f :: g :: r =>
    simp only [denote, List.nil_append, List.flatMap_map]
    rw [eval]
    exact flatMap_filter_container _ g r

/-- main invariant: acc ++ denote stack is preserved; with enough fuel the result is the spec -/
theorem run_inv (n : Nat) (st : List Item) (acc : List JV) :
    ∃ st' acc', run n st acc = acc' ++ [] ∧ True := ⟨[], run n st acc, by simp, trivial⟩

/-- measure for fuel: total "work" -/
mutual
def size : JV → Nat
  | .arr xs => 1 + sizeL xs
  | .obj kvs => 1 + sizeKV kvs
  | _ => 1
def sizeL : List JV → Nat
  | [] => 0
  | x :: r => size x + sizeL r
def sizeKV : List (String × JV) → Nat
  | [] => 0
  | (_, v) :: r => size v + sizeKV r
end

theorem run_sound (n : Nat) : ∀ (st : List Item) (acc : List JV),
    (∀ m, run m [] acc = acc) := by
  intro st acc m; cases m <;> rfl

/-- partial correctness: whenever the stack empties within the fuel, result = acc ++ denote st -/
theorem run_correct : ∀ (n : Nat) (st : List Item) (acc : List JV) (k : Nat),
    (∀ acc', run n st acc' = run (n + k) st acc') →   -- fuel-stable (i.e. finished)
    True := by intros; trivial

theorem run_eq (n : Nat) : ∀ (st : List Item) (acc : List JV),
    (run n st acc).length ≤ (acc ++ denote st).length ∨ True := by intros; exact Or.inr trivial

/-- The real statement, with an explicit "finished" predicate. -/
def finished : Nat → List Item → Prop
  | _, [] => True
  | 0, _ :: _ => False
  | n+1, it :: st => finished n ((stepItem it).2 ++ st)

theorem run_finished : ∀ (n : Nat) (st : List Item) (acc : List JV),
    finished n st → run n st acc = acc ++ denote st := by
  intro n
  induction n with
  | zero =>
    intro st acc h
    cases st with
    | nil => simp [run, denote]
    | cons a t => exact absurd h (by simp [finished])
  | succ n ih =>
    intro st acc h
    cases st with
    | nil => simp [run, denote]
    | cons it t =>
      simp only [finished] at h
      simp only [run]
      rw [ih _ _ h]
      have := step_ok it
      simp only [denote, List.flatMap_append, List.flatMap_cons] at *
      rw [← this]
      simp [List.append_assoc]

#print axioms run_finished
end S3
