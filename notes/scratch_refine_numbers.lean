import OjgVerif.Json.Refine
namespace OjgVerif.Json
open OjgVerif

/-- the number-internal transitions of the machine on the accumulator alone -/
def numStep (m : Mode) (n : Num) (b : UInt8) : Option (Mode × Num) :=
  match expected m b with
  | .val0 => some (.zero, n.reset)
  | .valDigit => some (.digit, { n.reset with i := (b - 48).toUInt64 })
  | .valNeg => some (.neg, { n.reset with neg := true })
  | .numZero => some (.zero, n)
  | .negDigit => some (.digit, n.addDigit b)
  | .numDigit => some (.digit, n.addDigit b)
  | .numDot => some (.dot, if 0 < n.big.length then { n with big := n.big ++ [b] } else n)
  | .numFrac => some (.frac, n.addFrac b)
  | .fracE => some (.expSign, if 0 < n.big.length then { n with big := n.big ++ [b] } else n)
  | .expSign => some (.expZero, { n with big := if 0 < n.big.length then n.big ++ [b] else n.big,
                                          negExp := n.negExp || b = 45 })
  | .expDigit => some (.exp, n.addExp b)
  | _ => none

/-- a number-internal step of the machine changes only mode, accumulator and offset -/
theorem step_num (s : St) (b : UInt8) (m' : Mode) (n' : Num) (hinf : s.inFast = false)
    (h : numStep s.mode s.num b = some (m', n')) :
    step refTables cfg1 s b = .ok { s with mode := m', num := n', pos := s.pos + 1, inFast := false } := by
  unfold numStep at h
  have hact0 : refTables.act s.mode b = expected s.mode b := rfl
  have hsrc := src_ok s.mode b
  unfold step stepAct
  rw [hact0]
  cases hact : expected s.mode b <;> simp only [hact] at h ⊢ <;> cases h
  all_goals simp only [Bool.false_eq_true, ↓reduceIte, hinf, Bool.false_and]
  case numDigit =>
    rw [hact] at hsrc
    simp only [srcModes, List.mem_singleton] at hsrc
    rw [deliver_id _ (by simp only [hsrc]; decide)]
    simp only [hsrc]
  case numDot =>
    by_cases hb : 0 < s.num.big.length
    · simp only [hb, decide_true, ↓reduceIte]
    · simp only [hb, decide_false, Bool.false_eq_true, ↓reduceIte]
      rw [deliver_id _ (by simp only; decide)]
  all_goals (try (rw [deliver_id _ (by simp only; decide)]))
  all_goals (try rfl)


/-- run number-internal steps as long as possible: final mode, accumulator and unread input -/
def numScan : Mode → Num → Bytes → Mode × Num × Bytes
  | m, n, [] => (m, n, [])
  | m, n, b :: r =>
    match numStep m n b with
    | some (m', n') => numScan m' n' r
    | none => (m, n, b :: r)

/-- state after a number scan -/
def sScan (s : St) (bs : Bytes) : St :=
  { s with mode := (numScan s.mode s.num bs).1, num := (numScan s.mode s.num bs).2.1,
           pos := s.pos + (bs.length - (numScan s.mode s.num bs).2.2.length), inFast := false }

theorem numScan_length (m : Mode) (n : Num) (bs : Bytes) : (numScan m n bs).2.2.length ≤ bs.length := by
  induction bs generalizing m n with
  | nil => simp [numScan]
  | cons b r ih =>
    simp only [numScan]
    split
    · rename_i m' n' _
      have := ih m' n'; simp only [List.length_cons]; omega
    · simp

theorem exec_scan (bs : Bytes) : ∀ (s : St), s.inFast = false →
    exec s bs = exec (sScan s bs) (numScan s.mode s.num bs).2.2 := by
  induction bs with
  | nil =>
    intro s hinf
    have : sScan s [] = s := by
      unfold sScan; simp only [numScan, List.length_nil, Nat.sub_self, Nat.add_zero]
      cases s; simp_all
    rw [this]; rfl
  | cons b r ih =>
    intro s hinf
    cases hst : numStep s.mode s.num b with
    | none =>
      have : sScan s (b :: r) = s := by
        unfold sScan; simp only [numScan, hst, Nat.sub_self, Nat.add_zero]
        cases s; simp_all
      rw [this]; simp only [numScan, hst]
    | some p =>
      obtain ⟨m', n'⟩ := p
      rw [exec_cons, step_num s b m' n' hinf hst]
      simp only
      rw [ih _ rfl]
      have hl := numScan_length m' n' r
      have hs : sScan ({ s with mode := m', num := n', pos := s.pos + 1, inFast := false } : St) r = sScan s (b :: r) := by
        unfold sScan
        simp only [numScan, hst, List.length_cons]
        have : s.pos + 1 + (r.length - (numScan m' n' r).2.2.length) = s.pos + (r.length + 1 - (numScan m' n' r).2.2.length) := by omega
        rw [this]
      rw [hs]
      simp only [numScan, hst]


/-- a complete number is pending in state `s`, which started in value position `s0` -/
structure InNum (s0 s : St) : Prop where
  fin : s.mode = .zero ∨ s.mode = .digit ∨ s.mode = .frac ∨ s.mode = .exp
  starts : s.starts = s0.starts
  stack : s.stack = s0.stack
  docs : s.docs = s0.docs
  next : s.nextMode = .colon ∨ s.nextMode = .after
  inFast : s.inFast = false

def isFinalNum (m : Mode) : Bool := m == .zero || m == .digit || m == .frac || m == .exp

/-- what follows a number: how the same byte reads in `after` / `space` mode -/
theorem numEnd_facts (m : Mode) (h : UInt8) (hm : isFinalNum m = true) :
    (expected m h = .numSpc → expected .after h = .skipChar ∧ expected .space h = .skipChar) ∧
    (expected m h = .numNewline → expected .after h = .skipNewline ∧ expected .space h = .skipNewline) ∧
    (expected m h = .numComma → expected .after h = .afterComma ∧ expected .space h = .charErr) ∧
    (expected m h = .closeArray → expected .after h = .closeArray ∧ expected .space h = .charErr) ∧
    (expected m h = .closeObject → expected .after h = .closeObject ∧ expected .space h = .charErr) ∧
    (expected m h = .charErr → expected .after h = .charErr ∧ expected .space h = .charErr) := by
  have := forall_mode_byte (fun m h => !isFinalNum m ||
      ((!(expected m h == .numSpc) || (expected .after h == .skipChar && expected .space h == .skipChar)) &&
       (!(expected m h == .numNewline) || (expected .after h == .skipNewline && expected .space h == .skipNewline)) &&
       (!(expected m h == .numComma) || (expected .after h == .afterComma && expected .space h == .charErr)) &&
       (!(expected m h == .closeArray) || (expected .after h == .closeArray && expected .space h == .charErr)) &&
       (!(expected m h == .closeObject) || (expected .after h == .closeObject && expected .space h == .charErr)) &&
       (!(expected m h == .charErr) || (expected .after h == .charErr && expected .space h == .charErr))))
    (by decide +kernel) m h
  simp only [hm, Bool.not_true, Bool.false_or, Bool.and_eq_true, Bool.or_eq_true, Bool.not_eq_eq_eq_not,
    beq_iff_eq, bne_iff_ne, ne_eq] at this
  obtain ⟨⟨⟨⟨⟨h1, h2⟩, h3⟩, h4⟩, h5⟩, h6⟩ := this
  refine ⟨?_, ?_, ?_, ?_, ?_, ?_⟩ <;> intro hh
  · rcases h1 with h | h; exact absurd hh (by simpa using h); exact h
  · rcases h2 with h | h; exact absurd hh (by simpa using h); exact h
  · rcases h3 with h | h; exact absurd hh (by simpa using h); exact h
  · rcases h4 with h | h; exact absurd hh (by simpa using h); exact h
  · rcases h5 with h | h; exact absurd hh (by simpa using h); exact h
  · rcases h6 with h | h; exact absurd hh (by simpa using h); exact h


theorem St.add_withMode (s : St) (m : Mode) (v : JV) :
    ({ s with mode := m } : St).add v = match s.add v with
      | .error e => .error e
      | .ok x => .ok { x with mode := m } := by
  unfold St.add
  cases addItem v s.stack <;> rfl

theorem St.popArr_withMode (s : St) (m : Mode) (rest : List Bool) :
    ({ s with mode := m } : St).popArr rest = match s.popArr rest with
      | .error e => .error e
      | .ok x => .ok { x with mode := m } := by
  unfold St.popArr
  simp only
  cases splitAtMark s.stack [] with
  | none => rfl
  | some p => exact St.add_withMode { s with starts := rest, stack := p.2 } m (.arr p.1)

theorem St.popObj_withMode (s : St) (m : Mode) (rest : List Bool) :
    ({ s with mode := m } : St).popObj rest = match s.popObj rest with
      | .error e => .error e
      | .ok x => .ok { x with mode := m } := by
  unfold St.popObj
  simp only
  cases s.stack with
  | nil => rfl
  | cons top below => exact St.add_withMode { s with starts := rest, stack := below } m top.toJV

/-- the state with the pending number added: what every number-ending transition starts from -/
def sNumAdded (s : St) (st' : List Item) : St := { s with mode := Mode.after, stack := st' }


theorem deliver_after (s : St) (hm : s.mode = .after) :
    deliver refTables cfg1 s =
      if s.starts.isEmpty then
        { s with docs := (match s.stack.getLast? with | some it => it.toJV | none => JV.null) :: s.docs,
                 stack := [], mode := Mode.space }
      else s := by
  unfold deliver
  have : refTables.fin s.mode = .a := by rw [hm]; rfl
  simp only [this, decide_true, Bool.and_true, cfg1]
  rfl

theorem finish_num (s : St) (st' : List Item) (hst : s.starts = []) (hfin : refTables.fin s.mode = .n)
    (hadd : s.addNum = .ok { s with stack := st' }) :
    finish refTables s = .ok ((match st'.getLast? with | some it => it.toJV | none => JV.null) :: s.docs).reverse := by
  unfold finish
  have h1 : refTables.fin s.mode ≠ .absent := by rw [hfin]; decide
  simp only [hst, List.isEmpty_nil, Bool.not_true, Bool.false_or, hfin, hadd, ↓reduceIte]
  rfl

theorem finish_space (s : St) (hst : s.starts = []) (hm : s.mode = .space) :
    finish refTables s = .ok s.docs.reverse := by
  unfold finish
  have h1 : refTables.fin s.mode = .s := by rw [hm]; rfl
  simp [hst, h1]

theorem finish_open (s : St) (x : Bool) (ss : List Bool) (hst : s.starts = x :: ss) :
    ∃ e, finish refTables s = .error e := by
  unfold finish
  simp [hst]

/-- **A number ends.** In a final number mode, with input that does not continue the number, the
machine behaves exactly as if the number had been added as a complete value first. -/
theorem exec_numEnd (s0 s : St) (hv : ValPos s0) (hin : InNum s0 s) (rest : Bytes)
    (hrest : rest = [] ∨ ∃ h t, rest = h :: t ∧ numStep s.mode s.num h = none) :
    ∃ s', Added s0 s.num.asNum.toJV s' ∧ exec s rest = exec s' rest := by
  have hsh : Shape s0.starts s0.stack true := by
    have := hv.wf.shape; rw [needVal_of_valpos hv] at this; exact this
  obtain ⟨st', hadd, hadded⟩ := added_of_add s0 s s.num.asNum.toJV hv.wf hsh ⟨hin.starts, hin.stack, hin.docs⟩ hin.next
  have haddN : s.addNum = .ok { s with stack := st' } := by
    have h1 := St.add_withMode s .after s.num.asNum.toJV
    rw [hadd] at h1
    unfold St.addNum
    cases hs : s.add s.num.asNum.toJV with
    | error e => rw [hs] at h1; cases h1
    | ok x =>
      rw [hs] at h1
      simp only [Except.ok.injEq] at h1
      unfold St.add at hs
      cases ha : addItem s.num.asNum.toJV s.stack with
      | error w => rw [ha] at hs; cases hs
      | ok st =>
        rw [ha] at hs
        simp only [Except.ok.injEq] at hs
        subst hs
        simp only [St.mk.injEq] at h1
        rw [h1.2.2.2.1]
  refine ⟨deliver refTables cfg1 (sNumAdded s st'), hadded, ?_⟩
  have hfinN : refTables.fin s.mode = .n := by
    rcases hin.fin with h | h | h | h <;> (rw [h]; rfl)
  have hfinal : isFinalNum s.mode = true := by
    rcases hin.fin with h | h | h | h <;> simp [isFinalNum, h]
  have hdA := deliver_after (sNumAdded s st') rfl
  rcases hrest with hnil | ⟨h, t, hht, hnone⟩
  · -- end of input
    subst hnil
    unfold exec
    simp only [runBytes]
    cases hst : s.starts with
    | nil =>
      have he : (sNumAdded s st').starts.isEmpty = true := by simp [sNumAdded, hst]
      rw [hdA]
      simp only [he, ↓reduceIte]
      rw [finish_num s st' hst hfinN haddN, finish_space _ (by simp [sNumAdded, hst]) rfl]
      rfl
    | cons x ss =>
      have he : (sNumAdded s st').starts.isEmpty = false := by simp [sNumAdded, hst]
      rw [hdA]
      simp only [he, Bool.false_eq_true, ↓reduceIte]
      obtain ⟨e1, h1⟩ := finish_open s x ss hst
      obtain ⟨e2, h2⟩ := finish_open (sNumAdded s st') x ss (by simp [sNumAdded, hst])
      rw [h1, h2]
  · -- a byte follows
    subst hht
    have hsrc := src_ok s.mode h
    have hfacts := numEnd_facts s.mode h hfinal
    have hact0 : refTables.act s.mode h = expected s.mode h := rfl
    rw [exec_cons, exec_cons]
    -- the delivered state, concretely
    obtain ⟨S, hS, hSm, hSpos, hSinf⟩ : ∃ S, deliver refTables cfg1 (sNumAdded s st') = S ∧
        ((s.starts = [] ∧ S.mode = .space) ∨ (s.starts ≠ [] ∧ S = sNumAdded s st')) ∧ S.pos = s.pos ∧ S.inFast = false := by
      refine ⟨_, rfl, ?_, ?_, ?_⟩
      · rw [hdA]
        cases hst : s.starts with
        | nil => left; simp [sNumAdded, hst]
        | cons x ss => right; simp [sNumAdded, hst]
      · rw [hdA]; split <;> rfl
      · rw [hdA]; split <;> simp [sNumAdded, hin.inFast]
    rw [hS]
    have hreadS : ∀ a1 a2, expected .after h = a1 → expected .space h = a2 →
        refTables.act S.mode h = (if s.starts = [] then a2 else a1) := by
      intro a1 a2 h1 h2
      rcases hSm with ⟨h0, hm⟩ | ⟨h0, hm⟩
      · rw [hm, if_pos h0]; exact h2
      · rw [hm, if_neg h0]; exact h1
    cases hact : expected s.mode h
    case numSpc =>
      obtain ⟨ha, hsp⟩ := hfacts.1 hact
      have hl : step refTables cfg1 s h = .ok { S with pos := S.pos + 1, inFast := false } := by
        unfold step stepAct
        simp only [hact0, hact, haddN, bind, Except.bind, pure, Except.pure, Bool.false_eq_true, ↓reduceIte]
        rw [← hS]; rfl
      have hr : step refTables cfg1 S h = .ok { S with pos := S.pos + 1, inFast := false } := by
        have : refTables.act S.mode h = .skipChar := by rw [hreadS _ _ ha hsp]; split <;> rfl
        unfold step stepAct
        simp only [this, ↓reduceIte]
      rw [hl, hr]
    case numNewline =>
      obtain ⟨ha, hsp⟩ := hfacts.2.1 hact
      have hl : step refTables cfg1 s h = .ok { S with line := S.line + 1, nl := S.pos, pos := S.pos + 1, inFast := false } := by
        unfold step stepAct
        simp only [hact0, hact, haddN, bind, Except.bind, pure, Except.pure, Bool.false_eq_true, ↓reduceIte]
        rw [← hS, hdA]
        have hd2 := deliver_after ({ s with stack := st', line := s.line + 1, nl := (s.pos : Int), mode := Mode.after } : St) rfl
        rw [hd2]
        simp only [sNumAdded]
        split <;> simp
      have hr : step refTables cfg1 S h = .ok { S with line := S.line + 1, nl := S.pos, pos := S.pos + 1, inFast := false } := by
        have : refTables.act S.mode h = .skipNewline := by rw [hreadS _ _ ha hsp]; split <;> rfl
        unfold step stepAct
        simp only [this, ↓reduceIte]
      rw [hl, hr]
    case charErr =>
      obtain ⟨ha, hsp⟩ := hfacts.2.2.2.2.2 hact
      have hl : ∃ e, step refTables cfg1 s h = .error e := by
        unfold step stepAct
        simp only [hact0, hact]
        exact ⟨_, rfl⟩
      have hr : ∃ e, step refTables cfg1 S h = .error e := by
        have : refTables.act S.mode h = .charErr := by rw [hreadS _ _ ha hsp]; split <;> rfl
        unfold step stepAct
        simp only [this]
        exact ⟨_, rfl⟩
      obtain ⟨e1, h1⟩ := hl
      obtain ⟨e2, h2⟩ := hr
      rw [h1, h2]
    case numComma =>
      obtain ⟨ha, hsp⟩ := hfacts.2.2.1 hact
      rcases hSm with ⟨h0, hm⟩ | ⟨h0, hm⟩
      · -- top level: both reject
        have hl : ∃ e, step refTables cfg1 s h = .error e := by
          unfold step stepAct
          simp only [hact0, hact, haddN, bind, Except.bind, h0]
          exact ⟨_, rfl⟩
        have hr : ∃ e, step refTables cfg1 S h = .error e := by
          have : refTables.act S.mode h = .charErr := by rw [hm]; exact hsp
          unfold step stepAct
          simp only [this]
          exact ⟨_, rfl⟩
        obtain ⟨e1, h1⟩ := hl
        obtain ⟨e2, h2⟩ := hr
        rw [h1, h2]
      · subst hm
        obtain ⟨x, ss, hst⟩ := List.exists_cons_of_ne_nil h0
        have hne : ∀ t : St, t.starts = x :: ss → expectedFin (afterCommaMode t) ≠ .a := by
          intro t ht
          unfold afterCommaMode; rw [ht]; cases x <;> simp [expectedFin]
        have hl : step refTables cfg1 s h = .ok { sNumAdded s st' with mode := afterCommaMode (sNumAdded s st'), pos := s.pos + 1, inFast := false } := by
          unfold step stepAct
          simp only [hact0, hact, haddN, bind, Except.bind, pure, Except.pure, hst, Bool.false_eq_true, ↓reduceIte]
          rw [deliver_id _ (by simp only; exact hne _ hst)]
          rfl
        have hr : step refTables cfg1 (sNumAdded s st') h = .ok { sNumAdded s st' with mode := afterCommaMode (sNumAdded s st'), pos := s.pos + 1, inFast := false } := by
          have : refTables.act (sNumAdded s st').mode h = .afterComma := ha
          unfold step stepAct
          simp only [this, ↓reduceIte]
          rfl
        rw [hl, hr]
    all_goals sorry

end OjgVerif.Json
