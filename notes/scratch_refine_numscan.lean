import OjgVerif.Json.Refine
namespace OjgVerif.Json
open OjgVerif

/-- mode component of `numStep` -/
def modeStep (m : Mode) (b : UInt8) : Option Mode :=
  match expected m b with
  | .val0 => some .zero | .valDigit => some .digit | .valNeg => some .neg | .numZero => some .zero
  | .negDigit => some .digit | .numDigit => some .digit | .numDot => some .dot | .numFrac => some .frac
  | .fracE => some .expSign | .expSign => some .expZero | .expDigit => some .exp | _ => none

theorem numStep_mode (m : Mode) (n : Num) (b : UInt8) : (numStep m n b).map (·.1) = modeStep m b := by
  unfold numStep modeStep
  cases expected m b <;> rfl

theorem numStep_some (m : Mode) (n : Num) (b : UInt8) (m' : Mode) (h : modeStep m b = some m') :
    ∃ n', numStep m n b = some (m', n') := by
  have := numStep_mode m n b
  rw [h] at this
  cases hs : numStep m n b with
  | none => rw [hs] at this; cases this
  | some p => rw [hs] at this; simp at this; exact ⟨p.2, by rw [← this]⟩

theorem numStep_none (m : Mode) (n : Num) (b : UInt8) (h : modeStep m b = none) : numStep m n b = none := by
  have := numStep_mode m n b
  rw [h] at this
  cases hs : numStep m n b with
  | none => rfl
  | some p => rw [hs] at this; cases this

/-- the transitions of the number automaton, by byte class -/
theorem modeStep_facts (b : UInt8) :
    (modeStep .neg b = if b = 48 then some .zero else if Spec.isDigit19 b then some .digit else none) ∧
    (modeStep .zero b = if b = 46 then some .dot else if (b = 101 || b = 69) then some .expSign else none) ∧
    (modeStep .digit b = if Spec.isDigit b then some .digit else if b = 46 then some .dot
        else if (b = 101 || b = 69) then some .expSign else none) ∧
    (modeStep .dot b = if Spec.isDigit b then some .frac else none) ∧
    (modeStep .frac b = if Spec.isDigit b then some .frac else if (b = 101 || b = 69) then some .expSign else none) ∧
    (modeStep .expSign b = if (b = 43 || b = 45) then some .expZero else if Spec.isDigit b then some .exp else none) ∧
    (modeStep .expZero b = if Spec.isDigit b then some .exp else none) ∧
    (modeStep .exp b = if Spec.isDigit b then some .exp else none) ∧
    (modeStep .value b = if b = 45 then some .neg else if b = 48 then some .zero else if Spec.isDigit19 b then some .digit else none) ∧
    (modeStep .comma b = if b = 45 then some .neg else if b = 48 then some .zero else if Spec.isDigit19 b then some .digit else none) := by
  have key : ∀ i : Fin 256,
      (modeStep .neg (UInt8.ofNat i) = if (UInt8.ofNat i : UInt8) = 48 then some .zero else if Spec.isDigit19 (UInt8.ofNat i) then some .digit else none) ∧
      (modeStep .zero (UInt8.ofNat i) = if (UInt8.ofNat i : UInt8) = 46 then some .dot else if ((UInt8.ofNat i : UInt8) = 101 || (UInt8.ofNat i : UInt8) = 69) then some .expSign else none) ∧
      (modeStep .digit (UInt8.ofNat i) = if Spec.isDigit (UInt8.ofNat i) then some .digit else if (UInt8.ofNat i : UInt8) = 46 then some .dot
          else if ((UInt8.ofNat i : UInt8) = 101 || (UInt8.ofNat i : UInt8) = 69) then some .expSign else none) ∧
      (modeStep .dot (UInt8.ofNat i) = if Spec.isDigit (UInt8.ofNat i) then some .frac else none) ∧
      (modeStep .frac (UInt8.ofNat i) = if Spec.isDigit (UInt8.ofNat i) then some .frac else if ((UInt8.ofNat i : UInt8) = 101 || (UInt8.ofNat i : UInt8) = 69) then some .expSign else none) ∧
      (modeStep .expSign (UInt8.ofNat i) = if ((UInt8.ofNat i : UInt8) = 43 || (UInt8.ofNat i : UInt8) = 45) then some .expZero else if Spec.isDigit (UInt8.ofNat i) then some .exp else none) ∧
      (modeStep .expZero (UInt8.ofNat i) = if Spec.isDigit (UInt8.ofNat i) then some .exp else none) ∧
      (modeStep .exp (UInt8.ofNat i) = if Spec.isDigit (UInt8.ofNat i) then some .exp else none) ∧
      (modeStep .value (UInt8.ofNat i) = if (UInt8.ofNat i : UInt8) = 45 then some .neg else if (UInt8.ofNat i : UInt8) = 48 then some .zero else if Spec.isDigit19 (UInt8.ofNat i) then some .digit else none) ∧
      (modeStep .comma (UInt8.ofNat i) = if (UInt8.ofNat i : UInt8) = 45 then some .neg else if (UInt8.ofNat i : UInt8) = 48 then some .zero else if Spec.isDigit19 (UInt8.ofNat i) then some .digit else none) := by
    decide +kernel
  have := key ⟨b.toNat, b.toNat_lt⟩
  simpa using this


/-- the unread input does not continue a digit run -/
def NoDigitHead (r : Bytes) : Prop := r = [] ∨ ∃ h t, r = h :: t ∧ Spec.isDigit h = false

theorem td_spec (bs : Bytes) :
    bs = (Spec.takeDigits bs).1 ++ (Spec.takeDigits bs).2 ∧
    (∀ d ∈ (Spec.takeDigits bs).1, Spec.isDigit d = true) ∧ NoDigitHead (Spec.takeDigits bs).2 := by
  induction bs with
  | nil => exact ⟨rfl, (fun _ h => nomatch h), Or.inl rfl⟩
  | cons b r ih =>
    simp only [Spec.takeDigits]
    by_cases hb : Spec.isDigit b = true
    · simp only [hb, ↓reduceIte]
      refine ⟨by simp only [List.cons_append]; rw [← ih.1], ?_, ih.2.2⟩
      intro d hd
      rcases List.mem_cons.mp hd with h | h
      · rw [h]; exact hb
      · exact ih.2.1 d h
    · simp only [hb, Bool.false_eq_true, ↓reduceIte]
      exact ⟨rfl, (fun _ h => nomatch h), Or.inr ⟨b, r, rfl, by simpa using hb⟩⟩

theorem numScan_cons_some (m m' : Mode) (n : Num) (b : UInt8) (h : modeStep m b = some m') :
    ∃ n', ∀ tail, numScan m n (b :: tail) = numScan m' n' tail := by
  obtain ⟨n', hn⟩ := numStep_some m n b m' h
  exact ⟨n', fun tail => by simp only [numScan, hn]⟩

theorem numScan_stop (m : Mode) (n : Num) (r : Bytes)
    (h : r = [] ∨ ∃ x t, r = x :: t ∧ modeStep m x = none) : numScan m n r = (m, n, r) := by
  rcases h with h | ⟨x, t, h, hx⟩
  · subst h; rfl
  · subst h; simp only [numScan, numStep_none m n x hx]

/-- a digit run in a mode that loops on digits -/
theorem numScan_digits (m : Mode) (hm : ∀ d, Spec.isDigit d = true → modeStep m d = some m) :
    ∀ (ds : Bytes) (n : Num), (∀ d ∈ ds, Spec.isDigit d = true) →
      ∃ n', ∀ tail, numScan m n (ds ++ tail) = numScan m n' tail := by
  intro ds
  induction ds with
  | nil => intro n _; exact ⟨n, fun _ => rfl⟩
  | cons d r ih =>
    intro n hds
    obtain ⟨n1, h1⟩ := numScan_cons_some m m n d (hm d (hds d List.mem_cons_self))
    obtain ⟨n2, h2⟩ := ih n1 (fun x hx => hds x (List.mem_cons_of_mem _ hx))
    exact ⟨n2, fun tail => by rw [List.cons_append, h1, h2]⟩

theorem loops (b : UInt8) (hb : Spec.isDigit b = true) :
    modeStep .digit b = some .digit ∧ modeStep .frac b = some .frac ∧ modeStep .exp b = some .exp := by
  have := modeStep_facts b
  refine ⟨?_, ?_, ?_⟩
  · rw [this.2.2.1, if_pos hb]
  · rw [this.2.2.2.2.1, if_pos hb]
  · rw [this.2.2.2.2.2.2.2.1, if_pos hb]


/-- the number automaton consumes `lit` completely going from mode `m` to mode `m'` -/
def ScansM (m : Mode) (lit : Bytes) (m' : Mode) : Prop :=
  ∀ n, ∃ n', ∀ tail, numScan m n (lit ++ tail) = numScan m' n' tail

theorem ScansM.nil (m : Mode) : ScansM m [] m := fun n => ⟨n, fun _ => rfl⟩

theorem ScansM.trans {a b c : Mode} {l1 l2 : Bytes} (h1 : ScansM a l1 b) (h2 : ScansM b l2 c) :
    ScansM a (l1 ++ l2) c := by
  intro n
  obtain ⟨n1, e1⟩ := h1 n
  obtain ⟨n2, e2⟩ := h2 n1
  exact ⟨n2, fun tail => by rw [List.append_assoc, e1, e2]⟩

theorem ScansM.one {m m' : Mode} {b : UInt8} (h : modeStep m b = some m') : ScansM m [b] m' := by
  intro n
  obtain ⟨n', hn⟩ := numScan_cons_some m m' n b h
  exact ⟨n', fun tail => hn tail⟩

theorem ScansM.digits (m : Mode) (hm : ∀ d, Spec.isDigit d = true → modeStep m d = some m) (ds : Bytes)
    (hds : ∀ d ∈ ds, Spec.isDigit d = true) : ScansM m ds m :=
  fun n => numScan_digits m hm ds n hds

/-- unread input at which the automaton stops in mode `m` -/
def Stops (m : Mode) (r : Bytes) : Prop := r = [] ∨ ∃ x t, r = x :: t ∧ modeStep m x = none

theorem isDigit19_isDigit (b : UInt8) (h : Spec.isDigit19 b = true) : Spec.isDigit b = true := by
  unfold Spec.isDigit19 at h; unfold Spec.isDigit
  simp only [Bool.and_eq_true, decide_eq_true_eq] at h ⊢
  exact ⟨by have := h.1; rw [UInt8.le_iff_toNat_le] at this ⊢; simp at this ⊢; omega, h.2⟩

/-- stage 1: the integer part -/
theorem stage_int (m : Mode) (hm : m = .value ∨ m = .comma ∨ m = .neg) (bs : Bytes) :
    (∀ ip r1, Spec.pInt bs = some (ip, r1) → bs = ip ++ r1 ∧
      ((ScansM m ip .zero) ∨ (ScansM m ip .digit ∧ NoDigitHead r1))) ∧
    (Spec.pInt bs = none → m = .neg → Stops .neg bs) := by
  cases bs with
  | nil => exact ⟨(fun _ _ h => nomatch h), fun _ _ => Or.inl rfl⟩
  | cons d r =>
    have hf := modeStep_facts d
    simp only [Spec.pInt]
    by_cases h0 : d = 48
    · subst h0
      simp only [↓reduceIte]
      refine ⟨fun ip r1 h => ?_, (fun h => nomatch h)⟩
      simp only [Option.some.injEq, Prod.mk.injEq] at h
      obtain ⟨rfl, rfl⟩ := h
      refine ⟨rfl, Or.inl (ScansM.one ?_)⟩
      rcases hm with h | h | h <;> subst h
      · rw [hf.2.2.2.2.2.2.2.2.1]; rfl
      · rw [hf.2.2.2.2.2.2.2.2.2]; rfl
      · rw [hf.1]; rfl
    · simp only [h0, ↓reduceIte]
      by_cases h19 : Spec.isDigit19 d = true
      · simp only [h19, ↓reduceIte]
        refine ⟨fun ip r1 h => ?_, (fun h => nomatch h)⟩
        simp only [Option.some.injEq, Prod.mk.injEq] at h
        obtain ⟨rfl, rfl⟩ := h
        have htd := td_spec r
        refine ⟨by simp only [List.cons_append]; rw [← htd.1], Or.inr ⟨?_, htd.2.2⟩⟩
        have h1 : modeStep m d = some .digit := by
          have hne : d ≠ 45 := by
            intro h; subst h; revert h19; decide
          rcases hm with h | h | h <;> subst h
          · rw [hf.2.2.2.2.2.2.2.2.1]; simp [hne, h0, h19]
          · rw [hf.2.2.2.2.2.2.2.2.2]; simp [hne, h0, h19]
          · rw [hf.1]; simp [h0, h19]
        exact (ScansM.one h1).trans (ScansM.digits .digit (fun x hx => (loops x hx).1) _ htd.2.1)
      · simp only [h19, Bool.false_eq_true, ↓reduceIte]
        refine ⟨(fun _ _ h => nomatch h), fun _ hneg => Or.inr ⟨d, r, rfl, ?_⟩⟩
        rw [hf.1]; simp [h0, h19]


theorem noDigitHead_of_td_empty (r : Bytes) (h : (Spec.takeDigits r).1.isEmpty = true) : NoDigitHead r := by
  have := td_spec r
  have he : (Spec.takeDigits r).1 = [] := List.isEmpty_iff.mp h
  rw [he, List.nil_append] at this
  rw [this.1]; exact this.2.2

theorem stops_dot_of_noDigit (r : Bytes) (h : NoDigitHead r) : Stops .dot r := by
  rcases h with h | ⟨x, t, h, hx⟩
  · exact Or.inl h
  · refine Or.inr ⟨x, t, h, ?_⟩
    rw [(modeStep_facts x).2.2.2.1]; simp [hx]

/-- stage 2: the optional fraction, from `zero` or `digit` mode -/
theorem stage_frac (m : Mode) (hm : m = .zero ∨ m = .digit) (r1 : Bytes) :
    (∀ fp r2, Spec.pFrac r1 = some (fp, r2) → r1 = fp ++ r2 ∧
      ((fp = [] ∧ (r1 = [] ∨ ∃ x t, r1 = x :: t ∧ x ≠ 46)) ∨ (ScansM m fp .frac ∧ NoDigitHead r2))) ∧
    (Spec.pFrac r1 = none → ∃ r, ScansM m [46] .dot ∧ r1 = 46 :: r ∧ Stops .dot r) := by
  cases r1 with
  | nil =>
    refine ⟨fun fp r2 h => ?_, (fun h => nomatch h)⟩
    simp only [Spec.pFrac, Option.some.injEq, Prod.mk.injEq] at h
    obtain ⟨rfl, rfl⟩ := h
    exact ⟨rfl, Or.inl ⟨rfl, Or.inl rfl⟩⟩
  | cons c r =>
    simp only [Spec.pFrac]
    by_cases hc : c = 46
    · subst hc
      simp only [↓reduceIte]
      have hdot : modeStep m 46 = some .dot := by
        have hf := modeStep_facts 46
        rcases hm with h | h <;> subst h
        · rw [hf.2.1]; rfl
        · rw [hf.2.2.1]; rfl
      by_cases he : (Spec.takeDigits r).1.isEmpty = true
      · simp only [he, ↓reduceIte]
        exact ⟨(fun _ _ h => nomatch h), fun _ => ⟨r, ScansM.one hdot, rfl, stops_dot_of_noDigit r (noDigitHead_of_td_empty r he)⟩⟩
      · simp only [he, Bool.false_eq_true, ↓reduceIte]
        refine ⟨fun fp r2 h => ?_, (fun h => nomatch h)⟩
        simp only [Option.some.injEq, Prod.mk.injEq] at h
        obtain ⟨rfl, rfl⟩ := h
        have htd := td_spec r
        refine ⟨by simp only [List.cons_append]; rw [← htd.1], Or.inr ⟨?_, htd.2.2⟩⟩
        -- '.' then the first digit, then the rest of the digits
        cases hds : (Spec.takeDigits r).1 with
        | nil => rw [hds] at he; simp at he
        | cons d ds =>
          have hdig : ∀ x ∈ d :: ds, Spec.isDigit x = true := by rw [← hds]; exact htd.2.1
          have hfirst : modeStep .dot d = some .frac := by
            rw [(modeStep_facts d).2.2.2.1]; simp [hdig d List.mem_cons_self]
          have := ((ScansM.one hdot).trans (ScansM.one hfirst)).trans
            (ScansM.digits .frac (fun x hx => (loops x hx).2.1) ds (fun x hx => hdig x (List.mem_cons_of_mem _ hx)))
          simpa using this
    · simp only [hc, ↓reduceIte]
      refine ⟨fun fp r2 h => ?_, (fun h => nomatch h)⟩
      simp only [Option.some.injEq, Prod.mk.injEq] at h
      obtain ⟨rfl, rfl⟩ := h
      exact ⟨rfl, Or.inl ⟨rfl, Or.inr ⟨c, r, rfl, hc⟩⟩⟩

end OjgVerif.Json
