#!/bin/sh
# MANIFEST.setup_cmd: build the framework from files on disk only (offline).
set -e
cd "$(dirname "$0")"
export GOFLAGS=-mod=mod GOPROXY=off GOSUMDB=off GOTOOLCHAIN=local CGO_ENABLED=0
REPO="${VERIF_REPO:-/repo}"
mkdir -p .build evidence replays
# 1. translator and a first generation of Gen/*
(cd tools/extract && go build -o ../../.build/extract .)
.build/extract -repo "$REPO" -out lean/OjgVerif/Gen
# 2. the whole Lake project (models, proofs, drivers)
(cd lean && lake build OjgVerif $(sed -n 's/^name = "\(drv_[a-z0-9_]*\)"$/\1/p' lakefile.toml))
# 3. harness binaries
sed "s#@REPO@#$REPO#" harness/go.mod.tmpl > harness/go.mod
[ -f "$REPO/go.sum" ] && cp "$REPO/go.sum" harness/go.sum
for d in harness/cmd/*/; do
  n=$(basename "$d")
  (cd harness && go build -tags verif -o ../.build/h_$n ./cmd/$n)
done
echo "setup done"
