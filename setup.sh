#!/bin/sh
# MANIFEST.setup_cmd: build the framework from files on disk only (offline).
set -e
cd "$(dirname "$0")"
export GOFLAGS=-mod=mod GOPROXY=off GOSUMDB=off GOTOOLCHAIN=local CGO_ENABLED=0
REPO="${VERIF_REPO:-/repo}"
mkdir -p .build evidence replays
# 1. translator and a first generation of Gen/*
(cd tools/extract && go build -o ../../.build/extract .)
.build/extract -repo "$REPO" -out lean/OjgVerif/Gen
# 2. proof modules and drivers of every claimed property (registry entries marked ready)
TARGETS=$(python3 - <<'PY'
import json,glob
t=set()
for f in glob.glob('registry/*.json'):
    r=json.load(open(f))
    if r.get('ready') and r.get('property') in open('registry/_ready.txt').read().split():
        t.update(r.get('lean_modules',[]))
        if r.get('driver'): t.add(r['driver'])
print(' '.join(sorted(t)))
PY
)
(cd lean && lake build $TARGETS)
# 3. harness binaries of the claimed properties
sed "s#@REPO@#$REPO#" harness/go.mod.tmpl > harness/go.mod
[ -f "$REPO/go.sum" ] && cp "$REPO/go.sum" harness/go.sum
for n in $(python3 -c "
import json,glob
print(' '.join(sorted({json.load(open(f)).get('harness','') for f in glob.glob('registry/*.json') if json.load(open(f)).get('ready') and json.load(open(f)).get('property') in open('registry/_ready.txt').read().split()}-{''})))"); do
  (cd harness && go build -tags verif -o ../.build/h_$n ./cmd/$n)
done
echo "setup done"
