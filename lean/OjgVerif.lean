import OjgVerif.Common.Bytes
import OjgVerif.Json.Spec
import OjgVerif.Json.Number
import OjgVerif.Json.Machine
