import OjgVerif.Writer.Driver
def main : IO Unit := OjgVerif.driverMain OjgVerif.Writer.handle
