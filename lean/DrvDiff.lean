import OjgVerif.Diff.Driver
def main : IO Unit := OjgVerif.driverMain OjgVerif.Diff.handle
