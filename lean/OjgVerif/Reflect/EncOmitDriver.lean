import OjgVerif.Reflect.Driver
import OjgVerif.Reflect.EncOmit
import OjgVerif.Reflect.EncOmitAlt
/-! Driver op of the omit model (C15), layered over `Reflect/Driver.lean` so that the shared driver
file stays untouched:

* `enco <oj|sen|alt|pretty> <dev> <flags> <bytesAs> <createKey> <type> <value>` — the tree `oj` / `sen` describe
  under ALL options, `OmitNil` and `OmitEmpty` included (`encodeO`; `alt`: alt.Decompose, `encodeA`); arguments as for `enc`.
  Answers `panic`, `outside` or the canonical tree. Every other op goes to `handle`. -/
namespace OjgVerif.Reflect
open OjgVerif

def handleEncO (which dev flags bytesAs ck ty val : String) : String :=
  match readDev dev, readOpts flags bytesAs ck, readType ty, readVal val with
  | some d, some o, some t, some v =>
    if !typeInFragment t || !valInFragment v then "outside"
    else if which = "oj" then outcome (encodeO .oj d o fuelT 256 t v)
    else if which = "sen" then outcome (encodeO .sen d o fuelT 256 t v)
    else if which = "alt" then outcome (encodeA d o fuelT 256 t v)
    else if which = "pretty" then outcome (encodeP d o fuelT 256 t v)
    else "bad-op"
  | _, _, _, _ => "bad-op"

def handleAll : List String → String
  | ["enco", which, dev, flags, bytesAs, ck, ty, val] => handleEncO which dev flags bytesAs ck ty val
  | args => handle args

end OjgVerif.Reflect
