/-! # The unwrap loop of `registerComposer` over a type GRAPH (C06rec)

`registerComposer` (alt/recomposer.go) walks from the type of a field down to the element type:

```go
ft := f.Type
var seen []reflect.Type
unwrap:
for {
	switch ft.Kind() {
	case reflect.Array, reflect.Slice, reflect.Map, reflect.Ptr:
		if ft.Name() != "" {
			for _, st := range seen { if st == ft { break unwrap } }
			seen = append(seen, ft)
		}
		ft = ft.Elem()
	default:
		break unwrap
	}
}
```

Go types form a graph: a NAMED container type may contain itself (`type Tree map[string]Tree`,
`type A []B; type B []A`, `type P *P`); an unnamed type is a finite term over named types. The model:
a table of named types (`tbl[i]` is the shape of named type `i`) and shapes `WT` that refer to named
types by number. `walk guard` is the loop with (`true`, the code since /repo 041b92d) or without
(`false`, the code before) the seen-list; `none` = the fuel ran out.

`walk_terminates`: with the seen-list the loop ends on EVERY table and start type, within
`(tbl.length + 1) * (maxBody tbl + 2) + size ft` steps (unbounded tables, by a lexicographic measure:
named types not yet seen, then the size of the current unnamed term). `walk_unguarded_spins`: without
it the loop never ends on `type Tree map[string]Tree`, whatever the fuel (finding
`C06-recompose-selfcontaining-container`, fixed). That the SOURCE has the seen-list is the generated
fact `Gen.Reflect.altRegisterWalkSeenGuard`; that `reflect`'s `Kind/Name/Elem` behave like the table is
below the model. -/
namespace OjgVerif.Reflect.Walk

inductive WT where
  /-- not a container kind (struct, scalar, interface, func …): the loop stops -/
  | leaf
  /-- an UNNAMED container type: `[]e`, `[n]e`, `map[string]e`, `*e` -/
  | cont (e : WT)
  /-- the named type number `i` of the table -/
  | named (i : Nat)
  deriving DecidableEq, Repr

/-- `tbl[i]`: the underlying shape of named type `i` — `cont e` for a named container type with element
`e`, anything else for a named type that is not a container -/
abbrev Table := List WT

def size : WT → Nat
  | .leaf => 0
  | .cont e => size e + 1
  | .named _ => 0

def walk (guard : Bool) (tbl : Table) : Nat → WT → List Nat → Option WT
  | 0, _, _ => none
  | _ + 1, .leaf, _ => some .leaf
  | f + 1, .cont e, seen => walk guard tbl f e seen
  | f + 1, .named i, seen =>
    match tbl[i]? with
    | some (.cont e) => if guard && seen.contains i then some (.named i) else walk guard tbl f e (i :: seen)
    | _ => some (.named i)

/-- the largest element term of a named container type -/
def maxBody : Table → Nat
  | [] => 0
  | .cont e :: r => max (size e) (maxBody r)
  | _ :: r => maxBody r

theorem body_le_maxBody : ∀ (tbl : Table) (i : Nat) (e : WT), tbl[i]? = some (.cont e) → size e ≤ maxBody tbl
  | [], i, e, h => by simp at h
  | t :: r, 0, e, h => by
    simp only [List.getElem?_cons_zero, Option.some.injEq] at h
    subst h
    simp only [maxBody]
    omega
  | t :: r, i + 1, e, h => by
    have := body_le_maxBody r i e (by simpa using h)
    cases t <;> simp only [maxBody] <;> omega

/-- how many of the named types `0 … n-1` the walk has not gone through yet -/
def unseen : Nat → List Nat → Nat
  | 0, _ => 0
  | n + 1, seen => (if seen.contains n then 0 else 1) + unseen n seen

theorem contains_cons_ne (i m : Nat) (seen : List Nat) (h : m ≠ i) : (i :: seen).contains m = seen.contains m := by
  simp only [List.contains_cons]
  have : (m == i) = false := by simpa using h
  rw [this, Bool.false_or]

theorem unseen_cons_le (i : Nat) (seen : List Nat) : ∀ n, unseen n (i :: seen) ≤ unseen n seen
  | 0 => Nat.le_refl _
  | n + 1 => by
    have ih := unseen_cons_le i seen n
    simp only [unseen]
    by_cases hn : n = i
    · subst hn
      have : (n :: seen).contains n = true := by simp
      rw [this]
      simp only [↓reduceIte]
      split <;> omega
    · rw [contains_cons_ne i n seen hn]
      omega

theorem unseen_cons_lt (i : Nat) (seen : List Nat) (hs : seen.contains i = false) :
    ∀ n, i < n → unseen n (i :: seen) + 1 ≤ unseen n seen
  | 0, h => by omega
  | n + 1, h => by
    simp only [unseen]
    by_cases hn : n = i
    · subst hn
      have h1 : (n :: seen).contains n = true := by simp
      have h2 := unseen_cons_le n seen n
      rw [h1, hs]
      simp only [↓reduceIte, Bool.false_eq_true]
      omega
    · have ih := unseen_cons_lt i seen hs n (by omega)
      rw [contains_cons_ne i n seen hn]
      omega

theorem unseen_le (seen : List Nat) : ∀ n, unseen n seen ≤ n
  | 0 => Nat.le_refl _
  | n + 1 => by
    have := unseen_le seen n
    simp only [unseen]
    split <;> omega

/-- **the guarded loop terminates**: enough fuel for the lexicographic measure -/
theorem walk_some (tbl : Table) : ∀ (f : Nat) (ft : WT) (seen : List Nat),
    unseen tbl.length seen * (maxBody tbl + 2) + size ft < f → (walk true tbl f ft seen).isSome = true := by
  intro f
  induction f with
  | zero => intro ft seen h; omega
  | succ f ih =>
    intro ft seen h
    cases ft with
    | leaf => rfl
    | cont e =>
      simp only [walk]
      apply ih
      simp only [size] at h
      omega
    | named i =>
      simp only [walk]
      cases hi : tbl[i]? with
      | none => rfl
      | some t =>
        cases t with
        | leaf => rfl
        | named _ => rfl
        | cont e =>
          simp only [Bool.true_and]
          cases hs : seen.contains i with
          | true => rfl
          | false =>
            simp only [Bool.false_eq_true, ↓reduceIte]
            apply ih
            have hlt : i < tbl.length := (List.getElem?_eq_some_iff.1 hi).1
            have h1 := unseen_cons_lt i seen hs tbl.length hlt
            have h2 := body_le_maxBody tbl i e hi
            simp only [size] at h
            have h3 : (unseen tbl.length (i :: seen) + 1) * (maxBody tbl + 2) ≤ unseen tbl.length seen * (maxBody tbl + 2) :=
              Nat.mul_le_mul_right _ h1
            rw [Nat.add_mul] at h3
            omega

theorem walk_terminates (tbl : Table) (ft : WT) :
    (walk true tbl ((tbl.length + 1) * (maxBody tbl + 2) + size ft + 1) ft []).isSome = true := by
  apply walk_some
  have : unseen tbl.length [] ≤ tbl.length := unseen_le [] tbl.length
  have := Nat.mul_le_mul_right (maxBody tbl + 2) this
  rw [Nat.add_mul]
  omega

/-- `type Tree map[string]Tree` -/
def treeTbl : Table := [.cont (.named 0)]

/-- **without the seen-list the loop never ends** on a self-containing named container, whatever the fuel -/
theorem walk_unguarded_spins : ∀ (f : Nat) (seen : List Nat), walk false treeTbl f (.named 0) seen = none := by
  intro f
  induction f with
  | zero => intro seen; rfl
  | succ n ih =>
    intro seen
    simp only [walk, treeTbl, List.getElem?_cons_zero, Bool.false_and, Bool.false_eq_true, ↓reduceIte]
    exact ih _

/-- with it, it ends at the second meeting; `type A []B; type B []A` and `type P *P` likewise -/
theorem walk_guarded_examples :
    walk true treeTbl 3 (.named 0) [] = some (.named 0) ∧
    walk true [.cont (.named 1), .cont (.named 0)] 4 (.cont (.named 0)) [] = some (.named 0) ∧
    walk true [.cont (.cont (.named 0)), .leaf] 9 (.cont (.cont (.named 1))) [] = some (.named 1) := by
  decide

end OjgVerif.Reflect.Walk
