import OjgVerif.Reflect.Registry
/-! # Recompose inverts Decompose on values (C16, title clause): the statement side

`norm` is the equality the property can mean: "deeply equal, nil and empty slices or maps not
distinguished" — a nil slice, map or `[]byte` is identified with the empty one, and (as
`reflect.DeepEqual` does, `-0.0 == 0.0`) a float `-0` with `0`. Two values are *equal in the sense of
C16* when their `norm`s are equal.

`rtOK o vf t v` is the executable side condition of the round-trip theorem: `v` is a value of type `t`
(fuel `vf` suffices), integers are inside the width of their slot, and every struct type met satisfies
`structOK` (the naming plan of the encoder under `o` and the field index of the recomposer find each
other: see `fieldOKAt`). Core Lean only: the driver evaluates `rtOK` on the harness's cases. -/
namespace OjgVerif.Reflect
open OjgVerif

/-! ## equality up to nil ~ empty -/

mutual
  def norm : GoVal → GoVal
    | .flt t => if t = [45, 48] then .flt [48] else .flt t
    | .nilBytes => .bytes []
    | .nilSlice => .slice []
    | .slice xs => .slice (normL xs)
    | .arr xs => .arr (normL xs)
    | .nilMap => .map []
    | .map kvs => .map (normK kvs)
    | .ptr v => .ptr (norm v)
    | .iface t v => .iface t (norm v)
    | .struct fs => .struct (normL fs)
    | .bool b => .bool b
    | .int i => .int i
    | .str s => .str s
    | .bytes b => .bytes b
    | .nilPtr => .nilPtr
    | .nilIface => .nilIface
  def normL : List GoVal → List GoVal
    | [] => []
    | x :: r => norm x :: normL r
  def normK : List (Bytes × GoVal) → List (Bytes × GoVal)
    | [] => []
    | (k, x) :: r => (k, norm x) :: normK r
end

/-- the key under which `indexType` files a field that is not embedded (`none`: unexported, or `"-"`) -/
def idxKeyOf (h : FieldHdr) : Option Bytes :=
  if unexported h.name then none
  else if h.tag.isEmpty then some h.name else indexKey h.name h.tag

/-- what the tag says under the options: `none` = the field is not written -/
def tagView (o : Opts) (h : FieldHdr) : Option (Bytes × Bool × Bool) :=
  if o.useTags && !h.tag.isEmpty then parseTag h.tag else some ([], false, false)

/-- the key the encoders write a (not flattened) field under (`none`: not written at all) -/
def planKeyOf (o : Opts) (h : FieldHdr) : Option Bytes :=
  if unexported h.name then none
  else match tagView o h with
    | none => none
    | some r => some (refKey o h r.1)

def tagOmitOf (o : Opts) (h : FieldHdr) : Bool :=
  match tagView o h with
  | some r => r.2.1
  | none => false

def asStrOf (o : Opts) (h : FieldHdr) : Bool :=
  match tagView o h with
  | some r => r.2.2
  | none => false

/-- the member names `recomp` tries for an index entry, in this order -/
def candidates (k name : Bytes) : List Bytes := [k, name, lowerFirst name, asciiLowerAll (lowerFirst name)]

/-- `c` is the index key of some field of the struct (`im[c]` exists) -/
def isIdxKey (fs : List (FieldHdr × GoType)) (c : Bytes) : Bool := fs.any fun ht => idxKeyOf ht.1 == some c

/-- The member names `recomp` actually TRIES for a field, given what the encoder does with it, in the
ORDER of the source (`fieldDatum`: the index key — the json tag name — first, then the Go field name,
its first letter lowered, all lowered; generated fact `altRecompMemberLookups`): the walk stops at the
first name under which the tree has a member. A field that is always written (no `omitempty`) is
found under its key `pk`, so only `pk` and the names BEFORE it are tried; a field that may be absent
(`omitempty`, or never written) falls through all four. Since /repo 1029e85 a fallback spelling that is
the index key of ANOTHER field is not tried at all (`claimedName`): it is filtered out here. -/
def triedKeys (o : Opts) (fs : List (FieldHdr × GoType)) (h : FieldHdr) (k : Bytes) : List Bytes :=
  (match planKeyOf o h with
    | some pk => if tagOmitOf o h then candidates k h.name else pk :: (candidates k h.name).takeWhile (· != pk)
    | none => candidates k h.name).filter fun c => c == k || !isIdxKey fs c

/-- field `p` of `fs` is found again: the key the encoder writes it under is one of the names the
recomposer tries for it (`triedKeys`: stated over the DECODER's lookups, in their order, minus the
spellings another field's index key claims); no OTHER field's key and not the create key is among
those names; no other field is filed under the same index key; not embedded -/
def fieldOKAt (o : Opts) (fs : List (FieldHdr × GoType)) (h : FieldHdr) (p : Nat) : Bool :=
  !h.embedded &&
  match idxKeyOf h with
  | none => true
  | some k =>
    (match planKeyOf o h with
      | some pk => (candidates k h.name).contains pk && (triedKeys o fs h k).contains pk
      | none => true) &&
    (o.createKey.isEmpty || !(triedKeys o fs h k).contains o.createKey) &&
    fs.zipIdx.all fun hq =>
      hq.2 == p ||
        ((match planKeyOf o hq.1.1 with
          | some pk' => !(triedKeys o fs h k).contains pk'
          | none => true) && idxKeyOf hq.1.1 != some k)

/-- every field of the struct is found again (see `fieldOKAt`) -/
def structOK (o : Opts) (fs : List (FieldHdr × GoType)) : Bool :=
  fs.zipIdx.all fun hp => fieldOKAt o fs hp.1.1 hp.2

/-- the zero value of a scalar, container, pointer or interface type, up to nil ~ empty -/
def zeroLike : GoType → GoVal → Bool
  | .bool, .bool b => !b
  | .int _, .int i => i == 0
  | .float _, .flt t => floatIsZero t
  | .str, .str s => s.isEmpty
  | .bytes, .nilBytes => true
  | .bytes, .bytes b => b.isEmpty
  | .slice _, .nilSlice => true
  | .slice _, .slice xs => xs.isEmpty
  | .map _, .nilMap => true
  | .map _, .map kvs => kvs.isEmpty
  | .ptr _, .nilPtr => true
  | .iface, .nilIface => true
  | _, _ => false

def isFloatT : GoType → Bool
  | .float _ => true
  | _ => false

/-- a field that is both written (under `o`) and indexed must satisfy `chk`; any other field (unexported,
`"-"`) cannot come back and must hold a zero value. The `,string` option in force (tags in use) is
covered for bool and integer fields (and ignored by both sides for every non-scalar type); a float
field written as a string is NOT covered (`strconv.ParseFloat` of the text: `floatFromString`). -/
def fieldChk (o : Opts) (chk : GoType → GoVal → Bool) (h : FieldHdr) (t : GoType) (x : GoVal) : Bool :=
  match idxKeyOf h, planKeyOf o h with
  | some _, some _ => !(asStrOf o h && isFloatT t) && chk t x
  | _, _ => zeroLike t x

def fieldsRT (o : Opts) (chk : GoType → GoVal → Bool) : List (FieldHdr × GoType) → List GoVal → Bool
  | [], [] => true
  | (h, t) :: fr, x :: vr => fieldChk o chk h t x && fieldsRT o chk fr vr
  | _, _ => false

/-- `[]any`: the one type whose nil value `oj.Marshal` (strict) writes as null when it meets it as a plain
value -/
def isSliceIface : GoType → Bool
  | .slice .iface => true
  | _ => false

/-- `BytesAs` is `ojg.BytesAsArray`: the only setting under which `alt.Recompose` can read a `[]byte`
back (finding `C16-bytes-text`) -/
def bytesAsArray (o : Opts) : Bool :=
  o.bytesAs == Gen.Root.BytesAsArray_int.toNat && o.bytesAs != Gen.Root.BytesAsBase64_int.toNat

/-- `v` is a value of type `t` that the round-trip theorem speaks about (fuel `vf` suffices):
integers fit their slot, pointers point to structs, scalars or containers (not to pointers or
interfaces), arrays have their length, every struct type satisfies `structOK o`, unexported and `"-"`
fields hold zero values, a `[]byte` only under `BytesAsArray`. Not covered (the predicate is `false`):
`interface{}` slots, embedded fields, the `,string` tag option on a float field. -/
def rtOK (o : Opts) : Nat → GoType → GoVal → Bool
  | 0, _, _ => false
  | n + 1, t, v =>
    match t, v with
    | .bool, .bool _ => true
    | .int k, .int i => wrapInt k i == i
    | .float _, .flt _ => true
    | .str, .str _ => true
    | .bytes, .nilBytes => bytesAsArray o
    | .bytes, .bytes _ => bytesAsArray o
    | .ptr _, .nilPtr => true
    | .ptr e, .ptr x => !isPtrT e && !isIface e && rtOK o n e x
    | .slice _, .nilSlice => true
    | .slice e, .slice xs => !isIface e && xs.all (rtOK o n e)
    | .array k e, .arr xs => xs.length == k && !isIface e && xs.all (rtOK o n e)
    | .map _, .nilMap => true
    | .map e, .map kvs => !isIface e && kvs.all fun kv => rtOK o n e kv.2
    | .struct _ _ fs, .struct vs => structOK o fs && fieldsRT o (rtOK o n) fs vs
    | _, _ => false

def fieldsTyped (chk : GoType → GoVal → Bool) : List (FieldHdr × GoType) → List GoVal → Bool
  | [], [] => true
  | (_, t) :: fr, x :: vr => chk t x && fieldsTyped chk fr vr
  | _, _ => false

/-- `v` is a value of type `t` (fuel `vf` suffices) and nothing more: what the FULL-strength statement
of the title clause of C16 quantifies over -/
def hasType : Nat → GoType → GoVal → Bool
  | 0, _, _ => false
  | n + 1, t, v =>
    match t, v with
    | .bool, .bool _ => true
    | .int k, .int i => wrapInt k i == i
    | .float _, .flt _ => true
    | .str, .str _ => true
    | .bytes, .nilBytes => true
    | .bytes, .bytes _ => true
    | .iface, .nilIface => true
    | .iface, .iface dt dv => hasType n dt dv
    | .ptr _, .nilPtr => true
    | .ptr e, .ptr x => hasType n e x
    | .slice _, .nilSlice => true
    | .slice e, .slice xs => xs.all (hasType n e)
    | .array k e, .arr xs => xs.length == k && xs.all (hasType n e)
    | .map _, .nilMap => true
    | .map e, .map kvs => kvs.all fun kv => hasType n e kv.2
    | .struct _ _ fs, .struct vs => fieldsTyped (hasType n) fs vs
    | _, _ => false

/-- With `UseTags` the tag builder of the code as it is gives an untagged field its exact name whatever
`KeyExact` says (`Dev.tagExact`, finding `C15-usetags-keyexact`): the code behaves as under
`effOpts o`. -/
def effOpts (o : Opts) : Opts := if o.useTags then { o with keyExact := true } else o

end OjgVerif.Reflect
