import OjgVerif.Reflect.EncOmit
/-! # OmitNil / OmitEmpty in alt.Decompose (C15)

`alt/decompose.go` builds the generic tree bottom-up; every object member — of a struct
(`reflectStruct`, `reflectEmbed`), of a typed map (`reflectMap`), of a `map[string]any`
(`decompose`) — is stored through `condMapSet(obj, key, value, opt)`, which looks at the DECOMPOSED
value by its Go type: `nil` is dropped under `OmitNil || OmitEmpty`; a `string`, `[]any`,
`map[string]any` of length 0, a `bool` false and an `int64` 0 under `OmitEmpty`. Nothing else is
dropped: not a float 0, and not an integer 0 whose Go type is not `int64` — a struct field of kind
int, int8 … uint64 other than int64 (the typed value functions of `alt/f*.go` return the field's own
type and the value is not decomposed), or an unsigned integer behind a pointer (`reflectValue` returns
`rv.Uint()`, a `uint64`). Every other integer reaches `condMapSet` as `int64` (the type switch of
`decompose` converts). The create-key member is stored directly. Slices and arrays drop nothing.
An object that became empty because all its members were dropped is itself dropped by the
enclosing object (the test is made on the decomposed value).

Plan level: the plain builders hand `OmitEmpty` to every entry (`…NotEmpty` value functions), the
tag builder of alt does not (`altTagPass`): both are in `planOf` already.

`encValA` is `encVal` with this filter; pretty.JSON is `encodeP` at the end of this file. -/
namespace OjgVerif.Reflect
open OjgVerif

/-- does an integer result reach `condMapSet` with Go type `int64`. `fld`: the value is a struct
field read by a typed value function (not decomposed). -/
def int64Of (fld : Bool) : GoType → GoVal → Bool
  | .int k, _ => if fld then k == 4 else true
  | .ptr (.int k), _ => decide (k ≤ 4)
  | .iface, .iface (.ptr (.int k)) _ => decide (k ≤ 4)
  | _, _ => true

/-- `condMapSet` on the decomposed value -/
def altMemberDropped (o : Opts) (int64 : Bool) : JV → Bool
  | .null => o.omitNil || o.omitEmpty
  | .str s => o.omitEmpty && s.isEmpty
  | .arr xs => o.omitEmpty && xs.isEmpty
  | .obj kvs => o.omitEmpty && kvs.isEmpty
  | .bool b => o.omitEmpty && !b
  | .int i => o.omitEmpty && int64 && i == 0
  | _ => false

def keepA (o : Opts) (int64 : Bool) (m : Bytes × JV) : Option (Bytes × JV) :=
  if altMemberDropped o int64 m.2 then none else some m

/-- `fieldMember` followed by `condMapSet` -/
def fieldMemberA (q : Quirks) (o : Opts) (enc : Bool → GoType → GoVal → JV) (sv : GoVal) (fi : Finfo) : Option (Bytes × JV) :=
  match fieldMember q enc sv fi with
  | none => none
  | some m =>
    match fieldByIndex sv fi.index with
    | some x => keepA o (int64Of true fi.ty x) m
    | none => some m

def encValA (q : Quirks) (o : Opts) (plan : Bool → List (FieldHdr × GoType) → List Finfo) :
    Nat → Bool → Bool → Bool → GoType → GoVal → JV
  | 0, _, _, _, _, _ => panicMark
  | vf + 1, viaIface, inElem, oe, t, v =>
    match t, v with
    | .bool, .bool b => .bool b
    | .int _, .int i => .int i
    | .float _, .flt s => .flt s
    | .str, .str s => .str s
    | .bytes, .nilBytes => if q.bytesNum && !viaIface then bytesAsNumbers [] else bytesAsJV o.bytesAs []
    | .bytes, .bytes b => if q.bytesNum && !viaIface then bytesAsNumbers b else bytesAsJV o.bytesAs b
    | .iface, .nilIface => .null
    | .iface, .iface dt dv => encValA q o plan vf true false false dt dv
    | .ptr _, .nilPtr => if inElem && q.elemNilPanic then panicMark else .null
    | .ptr e, .ptr x => encValA q o plan vf false false oe e x
    | .slice e, .nilSlice =>
      match e with
      | .iface => if viaIface && o.strict then .null else .arr []
      | _ => .arr []
    | .slice e, .slice xs => .arr (xs.map (encValA q o plan vf false true (oe && (q.slicePtrPlan || !isPtrT e)) e))
    | .array _ e, .arr xs => .arr (xs.map (encValA q o plan vf false true (oe && (q.slicePtrPlan || !isPtrT e)) e))
    | .map _, .nilMap => .obj []
    | .map e, .map kvs =>
      .obj (kvs.filterMap fun kv =>
        keepA o (int64Of false e kv.2)
          (kv.1, if q.mapNilNull && isNilContainer kv.2 then .null else encValA q o plan vf false true oe e kv.2))
    | .struct name pkg fs, .struct vs =>
      .obj (createMember o name pkg ++ (plan oe fs).filterMap
        (fun fi => fieldMemberA q o (fun vi ft fv => encValA q o plan vf vi false (childOE q fi) ft fv) (.struct vs) fi))
    | _, _ => panicMark

/-- what `alt.Decompose` describes under all options, `OmitNil` and `OmitEmpty` included -/
def encodeA (d : Dev) (o : Opts) (tf vf : Nat) (t : GoType) (v : GoVal) : JV :=
  encValA (quirksOf .alt d o) o (planOf .alt d o tf) vf true false false t v

/-! ## pretty.JSON

`pretty/build.go`: `build(data)` switches on the dynamic type. A `map[string]any` and a `[]any` are
walked AS THEY ARE (`buildMapNode`, `buildArrayNode`: no `condMapSet` at that level), scalars and
`[]byte` directly, everything else goes through `alt.Decompose(data, &w.Options)` and the generic tree
is built. On top, every map node leaves out the members whose node says `skip`: null under `OmitNil`;
a string of length 0, an array or a map whose ORIGINAL length is 0 under `OmitEmpty` (a map that
became empty because its members were skipped stays, as `{}`); false and 0 are kept. -/

def prettySkip (o : Opts) : JV → Bool
  | .null => o.omitNil
  | .str s => o.omitEmpty && s.isEmpty
  | .arr xs => o.omitEmpty && xs.isEmpty
  | .obj kvs => o.omitEmpty && kvs.isEmpty
  | _ => false

mutual
  /-- the skip tests of `buildMapNode` applied throughout a tree -/
  def prettyJ (o : Opts) : JV → JV
    | .arr xs => .arr (prettyJList o xs)
    | .obj kvs => .obj (prettyJKvs o kvs)
    | j => j
  def prettyJList (o : Opts) : List JV → List JV
    | [] => []
    | x :: r => prettyJ o x :: prettyJList o r
  def prettyJKvs (o : Opts) : List (Bytes × JV) → List (Bytes × JV)
    | [] => []
    | (k, x) :: r => if prettySkip o x then prettyJKvs o r else (k, prettyJ o x) :: prettyJKvs o r
end

/-- the tree pretty's builder sees: generic containers as they are, the rest decomposed -/
def encValP (q : Quirks) (o : Opts) (plan : Bool → List (FieldHdr × GoType) → List Finfo) : Nat → GoType → GoVal → JV
  | 0, _, _ => panicMark
  | vf + 1, t, v =>
    match t, v with
    | .iface, .nilIface => .null
    | .iface, .iface dt dv => encValP q o plan vf dt dv
    | .map .iface, .nilMap => .obj []
    | .map .iface, .map kvs => .obj (kvs.map fun kv => (kv.1, encValP q o plan vf .iface kv.2))
    | .slice .iface, .nilSlice => .arr []
    | .slice .iface, .slice xs => .arr (xs.map (encValP q o plan vf .iface))
    | t, v => encValA q o plan (vf + 1) true false false t v

/-- what `pretty.JSON` describes under all options -/
def encodeP (d : Dev) (o : Opts) (tf vf : Nat) (t : GoType) (v : GoVal) : JV :=
  prettyJ o (encValP (quirksOf .alt d o) o (planOf .alt d o tf) vf t v)

end OjgVerif.Reflect
