import OjgVerif.Reflect.Registry
/-! Helper lemmas for C16: the registry map, equality of types, the simulation "a run with a registry
that satisfies the invariant = the run in which every struct type is decoded with its own field
index" (level by level: `recBody_sim`, by fuel: `recompG_sim`), and "registration keeps the invariant
and never panics on good types" (`registerT_inv`), for the code as it is and for the repair. -/
namespace OjgVerif.Reflect
open OjgVerif

/-! ### find / set -/

theorem find_kvInsert (k : Bytes) (c : Composer) : ∀ (r : Registry) (k' : Bytes),
    Registry.find (kvInsert k c r) k' = if k = k' then some c else Registry.find r k' := by
  intro r
  induction r with
  | nil => intro k'; simp [kvInsert, Registry.find]
  | cons hd rest ih =>
    intro k'
    obtain ⟨k0, c0⟩ := hd
    simp only [kvInsert]
    by_cases h0 : k0 = k
    · subst h0
      simp only [↓reduceIte, Registry.find]
      by_cases h1 : k0 = k' <;> simp [h1]
    · simp only [h0, ↓reduceIte, Registry.find, ih]
      by_cases h1 : k0 = k'
      · subst h1
        have : ¬ k = k0 := fun h => h0 h.symm
        simp [this]
      · simp [h1]

theorem find_set (r : Registry) (k : Bytes) (c : Composer) (k' : Bytes) :
    (r.set k c).find k' = if k = k' then some c else r.find k' := find_kvInsert k c r k'

/-! ### structural equality of types is equality -/

mutual
  theorem typeBeq_eq : ∀ (a b : GoType), typeBeq a b = true → a = b
    | .bool, b => by cases b <;> simp [typeBeq]
    | .int x, b => by cases b <;> simp [typeBeq]
    | .float x, b => by cases b <;> simp [typeBeq]
    | .str, b => by cases b <;> simp [typeBeq]
    | .bytes, b => by cases b <;> simp [typeBeq]
    | .iface, b => by cases b <;> simp [typeBeq]
    | .slice a, b => by
      cases b <;> simp only [typeBeq, Bool.false_eq_true, false_imp_iff, reduceCtorEq]
      intro h; rw [typeBeq_eq a _ h]
    | .array n a, b => by
      cases b <;> simp only [typeBeq, Bool.false_eq_true, false_imp_iff, reduceCtorEq, Bool.and_eq_true, beq_iff_eq]
      intro h; rw [h.1, typeBeq_eq a _ h.2]
    | .map a, b => by
      cases b <;> simp only [typeBeq, Bool.false_eq_true, false_imp_iff, reduceCtorEq]
      intro h; rw [typeBeq_eq a _ h]
    | .ptr a, b => by
      cases b <;> simp only [typeBeq, Bool.false_eq_true, false_imp_iff, reduceCtorEq]
      intro h; rw [typeBeq_eq a _ h]
    | .struct n p fs, b => by
      cases b <;> simp only [typeBeq, Bool.false_eq_true, false_imp_iff, reduceCtorEq, Bool.and_eq_true, beq_iff_eq]
      intro h; rw [h.1.1, h.1.2, fieldsBeq_eq fs _ h.2]
  theorem fieldsBeq_eq : ∀ (a b : List (FieldHdr × GoType)), fieldsBeq a b = true → a = b
    | [], b => by cases b <;> simp [fieldsBeq]
    | (h, t) :: r, b => by
      cases b with
      | nil => simp [fieldsBeq]
      | cons hd s =>
        obtain ⟨g, u⟩ := hd
        simp only [fieldsBeq, Bool.and_eq_true, beq_iff_eq]
        intro hh
        rw [hh.1.1, typeBeq_eq t u hh.1.2, fieldsBeq_eq r s hh.2]
end


/-! ### walking lists of data with two lookups that agree -/

section Sim
variable (I : Registry → Prop)

theorem stepList_sim (A : Prop) (one₁ one₂ : Registry → JV → Step)
    (h : ∀ r r₂ j, I r → I (one₁ r j).reg ∧ (A → (one₁ r j).slot = (one₂ r₂ j).slot)) :
    ∀ (xs : List JV) (r r₂ : Registry) (acc : List GoVal), I r →
      I (stepList one₁ r xs acc).2 ∧ (A → (stepList one₁ r xs acc).1 = (stepList one₂ r₂ xs acc).1) := by
  intro xs
  induction xs with
  | nil => intro r r₂ acc hr; exact ⟨hr, fun _ => rfl⟩
  | cons x rest ih =>
    intro r r₂ acc hr
    have hx := h r r₂ x hr
    simp only [stepList]
    cases h1 : one₁ r x with
    | mk s1 r1 =>
      cases h2 : one₂ r₂ x with
      | mk s2 r2 =>
        rw [h1] at hx
        rw [h2] at hx
        simp only at hx
        constructor
        · cases s1 with
          | ok v => exact (ih r1 r2 (v :: acc) hx.1).1
          | panic => exact hx.1
          | outside => exact hx.1
        · intro ha
          have hs := hx.2 ha
          subst hs
          cases s1 with
          | ok v => exact (ih r1 r2 (v :: acc) hx.1).2 ha
          | panic => rfl
          | outside => rfl

theorem stepKvs_sim (A : Prop) (one₁ one₂ : Registry → JV → Step)
    (h : ∀ r r₂ j, I r → I (one₁ r j).reg ∧ (A → (one₁ r j).slot = (one₂ r₂ j).slot)) :
    ∀ (xs : List (Bytes × JV)) (r r₂ : Registry) (acc : List (Bytes × GoVal)), I r →
      I (stepKvs one₁ r xs acc).2 ∧ (A → (stepKvs one₁ r xs acc).1 = (stepKvs one₂ r₂ xs acc).1) := by
  intro xs
  induction xs with
  | nil => intro r r₂ acc hr; exact ⟨hr, fun _ => rfl⟩
  | cons x rest ih =>
    intro r r₂ acc hr
    obtain ⟨k, x⟩ := x
    have hx := h r r₂ x hr
    simp only [stepKvs]
    cases h1 : one₁ r x with
    | mk s1 r1 =>
      cases h2 : one₂ r₂ x with
      | mk s2 r2 =>
        rw [h1] at hx
        rw [h2] at hx
        simp only at hx
        constructor
        · cases s1 with
          | ok v => exact (ih r1 r2 ((k, v) :: acc) hx.1).1
          | panic => exact hx.1
          | outside => exact hx.1
        · intro ha
          have hs := hx.2 ha
          subst hs
          cases s1 with
          | ok v => exact (ih r1 r2 ((k, v) :: acc) hx.1).2 ha
          | panic => rfl
          | outside => rfl

theorem stepFields_sim (A : Prop) (P : GoType → Prop) (im : List (Bytes × IdxEntry)) (zero : GoType → GoVal)
    (setv₁ setv₂ : Registry → JV → GoType → IdxEntry → Step)
    (t : GoType) (vm : List (Bytes × JV))
    (hT : ∀ idx ft, typeAt t idx = some ft → P ft)
    (h : ∀ r r₂ m ft e, I r → P ft → I (setv₁ r m ft e).reg ∧ (A → (setv₁ r m ft e).slot = (setv₂ r₂ m ft e).slot)) :
    ∀ (idxs : List (Bytes × IdxEntry)) (r r₂ : Registry) (cur : GoVal), I r →
      I (stepFields im zero setv₁ t vm r idxs cur).reg ∧
        (A → (stepFields im zero setv₁ t vm r idxs cur).slot = (stepFields im zero setv₂ t vm r₂ idxs cur).slot) := by
  intro idxs
  induction idxs with
  | nil => intro r r₂ cur hr; exact ⟨hr, fun _ => rfl⟩
  | cons ke rest ih =>
    intro r r₂ cur hr
    obtain ⟨k, e⟩ := ke
    simp only [stepFields]
    cases fieldDatum im vm k e with
    | none => exact ih r r₂ cur hr
    | some m =>
      simp only
      by_cases hn : isNull m = true
      · simp only [hn, ↓reduceIte]; exact ih r r₂ cur hr
      · simp only [hn, Bool.false_eq_true, ↓reduceIte]
        cases hta : typeAt t e.index with
        | none => exact ⟨hr, fun _ => rfl⟩
        | some ft =>
          simp only
          by_cases hro : readOnlyAt t e.index = true
          · simp only [hro, ↓reduceIte]; exact ⟨hr, fun _ => trivial⟩
          · simp only [hro, Bool.false_eq_true, ↓reduceIte]
            have hx := h r r₂ m ft e hr (hT _ _ hta)
            cases h1 : setv₁ r m ft e with
            | mk s1 r1 =>
              cases h2 : setv₂ r₂ m ft e with
              | mk s2 r2 =>
                rw [h1] at hx
                rw [h2] at hx
                simp only at hx
                constructor
                · cases s1 with
                  | ok v => exact (ih r1 r2 _ hx.1).1
                  | panic => exact hx.1
                  | outside => exact hx.1
                · intro ha
                  have hs := hx.2 ha
                  subst hs
                  cases s1 with
                  | ok v => exact (ih r1 r2 _ hx.1).2 ha
                  | panic => rfl
                  | outside => rfl

/-- a predicate on types that passes to the component types -/
structure Her (P : GoType → Prop) : Prop where
  slice : ∀ e, P (.slice e) → P e
  array : ∀ n e, P (.array n e) → P e
  map : ∀ e, P (.map e) → P e
  ptr : ∀ e, P (.ptr e) → P e
  field : ∀ (n p : Bytes) (fs : List (FieldHdr × GoType)) (i : Nat) (ht : FieldHdr × GoType),
    P (.struct n p fs) → fs[i]? = some ht → P ht.2

theorem typeAt_her {P : GoType → Prop} (hP : Her P) : ∀ (idx : List Nat) (t ft : GoType), P t → typeAt t idx = some ft → P ft := by
  intro idx
  induction idx with
  | nil => intro t ft ht h; simp only [typeAt, Option.some.injEq] at h; subst h; exact ht
  | cons i rest ih =>
    intro t ft ht h
    cases t with
    | struct n p fs =>
      simp only [typeAt] at h
      cases hf : fs[i]? with
      | none => simp [hf] at h
      | some x =>
        simp only [hf] at h
        have hx := hP.field n p fs i x ht hf
        cases rest with
        | nil => simp only [Option.some.injEq] at h; subst h; exact hx
        | cons j r2 =>
          simp only at h
          cases hx2 : x.2 with
          | ptr e => simp only [hx2] at h hx; exact ih _ _ (hP.ptr e hx) h
          | _ => simp only [hx2] at h hx; exact ih _ _ hx h
    | _ => simp [typeAt] at h

/-- the two runs: the registry satisfies `I`, the type `Q`; the registry stays in `I`, and on types
without interface slots the slots agree -/
def Agree (Q : GoType → Prop) (rec₁ rec₂ : Rec) : Prop :=
  ∀ (r r₂ : Registry) (mode : Nat) (j : JV) (t : GoType) (sf : Option IdxEntry), I r → (mode ≠ 0 → Q t) →
    I (rec₁ r mode j t sf).reg ∧
      (mode ≠ 0 → noIface t = true → (rec₁ r mode j t sf).slot = (rec₂ r₂ mode j t sf).slot)

theorem ptrStep_sim (Q : GoType → Prop) (rec₁ rec₂ : Rec) (hrec : Agree I Q rec₁ rec₂) (r r₂ : Registry) (x : JV)
    (pe : GoType) (hr : I r) (hq : Q pe) :
    I (ptrStep rec₁ r x pe).reg ∧ (noIface pe = true → (ptrStep rec₁ r x pe).slot = (ptrStep rec₂ r₂ x pe).slot) := by
  have h := hrec r r₂ 1 x pe none hr (fun _ => hq)
  simp only [ptrStep]
  by_cases hnull : isNull x = true
  · simp only [hnull, ↓reduceIte]; exact ⟨hr, fun _ => trivial⟩
  · simp only [hnull, Bool.false_eq_true, ↓reduceIte]
    cases h1 : rec₁ r 1 x pe none with
    | mk s1 r1 =>
      cases h2 : rec₂ r₂ 1 x pe none with
      | mk s2 r2 =>
        rw [h1, h2] at h
        simp only at h
        constructor
        · cases s1 <;> exact h.1
        · intro hn
          have hs := h.2 (by decide) hn
          subst hs
          cases s1 <;> rfl

theorem listFinish_sim (mk : List GoVal → GoVal) (A : Prop) (res₁ res₂ : (Option (List GoVal) × Slot) × Registry)
    (h : I res₁.2 ∧ (A → res₁.1 = res₂.1)) :
    I (listFinish mk res₁).reg ∧ (A → (listFinish mk res₁).slot = (listFinish mk res₂).slot) := by
  obtain ⟨⟨o1, s1⟩, r1⟩ := res₁
  obtain ⟨⟨o2, s2⟩, r2⟩ := res₂
  simp only at h
  constructor
  · cases o1 <;> exact h.1
  · intro ha
    have := h.2 ha
    simp only [Prod.mk.injEq] at this
    obtain ⟨rfl, rfl⟩ := this
    cases o1 <;> rfl

theorem kvsFinish_sim (mk : List (Bytes × GoVal) → GoVal) (A : Prop)
    (res₁ res₂ : (Option (List (Bytes × GoVal)) × Slot) × Registry)
    (h : I res₁.2 ∧ (A → res₁.1 = res₂.1)) :
    I (kvsFinish mk res₁).reg ∧ (A → (kvsFinish mk res₁).slot = (kvsFinish mk res₂).slot) := by
  obtain ⟨⟨o1, s1⟩, r1⟩ := res₁
  obtain ⟨⟨o2, s2⟩, r2⟩ := res₂
  simp only at h
  constructor
  · cases o1 <;> exact h.1
  · intro ha
    have := h.2 ha
    simp only [Prod.mk.injEq] at this
    obtain ⟨rfl, rfl⟩ := this
    cases o1 <;> rfl

theorem noIface_her : Her (fun t => noIface t = true) := by
  constructor
  · intro e h; simpa [noIface] using h
  · intro n e h; simpa [noIface] using h
  · intro e h; simpa [noIface] using h
  · intro e h; simpa [noIface] using h
  · intro n p fs i ht h hi
    simp only [noIface] at h
    induction fs generalizing i with
    | nil => simp at hi
    | cons hd rest ih =>
      obtain ⟨h0, t0⟩ := hd
      simp only [noIfaceFields, Bool.and_eq_true] at h
      cases i with
      | zero => simp only [List.getElem?_cons_zero, Option.some.injEq] at hi; subst hi; exact h.1
      | succ k => simp only [List.getElem?_cons_succ] at hi; exact ih k h.2 hi

theorem elemStep_sim (Q : GoType → Prop) (hQ : Her Q) (rec₁ rec₂ : Rec) (hrec : Agree I Q rec₁ rec₂) (e : GoType)
    (hq : Q e) (r r₂ : Registry) (x : JV) (hr : I r) :
    I (elemStep rec₁ e r x).reg ∧ (noIface e = true → (elemStep rec₁ e r x).slot = (elemStep rec₂ e r₂ x).slot) := by
  cases e with
  | ptr pe =>
    simp only [elemStep, noIface]
    exact ptrStep_sim I Q rec₁ rec₂ hrec r r₂ x pe hr (hQ.ptr pe hq)
  | _ =>
    simp only [elemStep]
    have := hrec r r₂ 2 x _ none hr (fun _ => hq)
    exact ⟨this.1, fun hn => this.2 (by decide) hn⟩

theorem mapElemStep_sim (Q : GoType → Prop) (hQ : Her Q) (rec₁ rec₂ : Rec) (hrec : Agree I Q rec₁ rec₂) (e : GoType)
    (hq : Q e) (r r₂ : Registry) (x : JV) (hr : I r) :
    I (mapElemStep rec₁ e r x).reg ∧ (noIface e = true → (mapElemStep rec₁ e r x).slot = (mapElemStep rec₂ e r₂ x).slot) := by
  cases e with
  | iface =>
    simp only [mapElemStep, noIface, Bool.false_eq_true, false_imp_iff, and_true]
    exact (hrec r r₂ 0 x .iface none hr (fun h => absurd rfl h)).1
  | ptr pe =>
    simp only [mapElemStep, noIface]
    exact ptrStep_sim I Q rec₁ rec₂ hrec r r₂ x pe hr (hQ.ptr pe hq)
  | _ =>
    simp only [mapElemStep]
    have := hrec r r₂ 1 x _ none hr (fun _ => hq)
    exact ⟨this.1, fun hn => this.2 (by decide) hn⟩

/-- one level: if the recursive calls agree, and the composer lookup returns the type's own index and
keeps `I`, then the level agrees -/
theorem recBody_sim (Q : GoType → Prop) (hQ : Her Q) (ck : Bytes) (cf₁ : ComposerFor) (rec₁ rec₂ : Rec)
    (hfind : ∀ r k c, I r → Registry.find r k = some c → Q c.rtype)
    (hcf : ∀ r r₂ n p fs, I r → Q (.struct n p fs) →
      I (cf₁ r n p fs).2 ∧ (cf₁ r n p fs).1.map (·.indexes) = (composerPure r₂ n p fs).1.map (·.indexes))
    (hrec : Agree I Q rec₁ rec₂) : Agree I Q (recBody cf₁ ck rec₁) (recBody composerPure ck rec₂) := by
  intro r r₂ mode j t sf hr hq
  have hN := noIface_her
  simp only [recBody]
  by_cases hm : mode = 0
  · -- recompAny: only the registry matters
    simp only [hm, ↓reduceIte, ne_eq, not_true_eq_false, false_imp_iff, and_true]
    simp only [recAny]
    cases j with
    | arr xs =>
      exact (listFinish_sim I _ False _ (stepList (fun r' x => rec₂ r' 0 x .iface none) r₂ xs [])
        (stepList_sim I False (fun r' x => rec₁ r' 0 x .iface none) (fun r' x => rec₂ r' 0 x .iface none)
          (fun a b x ha => ⟨(hrec a b 0 x .iface none ha (fun h => absurd rfl h)).1, fun h => h.elim⟩) xs r r₂ [] hr)).1
    | obj kvs =>
      simp only
      cases hl : createKeyComposer ck r kvs with
      | some c =>
        have hqc : Q c.rtype := by
          simp only [createKeyComposer] at hl
          cases hj : jvLookup kvs ck with
          | none => simp [hj] at hl
          | some x => cases x <;> simp only [hj] at hl <;> first | exact hfind r _ c hr hl | simp at hl
        simp only
        have := (hrec r r₂ 2 (.obj kvs) c.rtype none hr (fun _ => hqc)).1
        cases h1 : rec₁ r 2 (.obj kvs) c.rtype none with
        | mk s1 r1 => rw [h1] at this; cases s1 <;> exact this
      | none =>
        simp only
        exact (kvsFinish_sim I _ False _ (stepKvs (fun r' x => rec₂ r' 0 x .iface none) r₂ kvs [])
          (stepKvs_sim I False (fun r' x => rec₁ r' 0 x .iface none) (fun r' x => rec₂ r' 0 x .iface none)
            (fun a b x ha => ⟨(hrec a b 0 x .iface none ha (fun h => absurd rfl h)).1, fun h => h.elim⟩) kvs r r₂ [] hr)).1
    | _ => exact hr
  · have hq' := hq hm
    simp only [hm, ↓reduceIte, ne_eq, not_false_eq_true, true_imp_iff]
    by_cases hz : (mode = 1 && isNull j) = true
    · simp only [hz, ↓reduceIte]; exact ⟨hr, fun _ => trivial⟩
    · simp only [hz, Bool.false_eq_true, ↓reduceIte]
      cases t with
      | iface =>
        simp only [noIface, Bool.false_eq_true, false_imp_iff, and_true]
        by_cases hn : isNull j = true
        · simp only [hn, ↓reduceIte]; exact hr
        · simp only [hn, Bool.false_eq_true, ↓reduceIte]
          exact (hrec r r₂ 0 j .iface none hr (fun h => absurd rfl h)).1
      | ptr e =>
        simp only [noIface]
        exact ptrStep_sim I Q rec₁ rec₂ hrec r r₂ j e hr (hQ.ptr e hq')
      | bytes =>
        simp only [recBytes]
        cases j with
        | arr xs =>
          have := listFinish_sim I bytesOf True _ (stepList (fun r' x => (⟨scalarSlot (.int 6) x none, r'⟩ : Step)) r₂ xs [])
            (stepList_sim I True (fun r' x => ⟨scalarSlot (.int 6) x none, r'⟩) (fun r' x => ⟨scalarSlot (.int 6) x none, r'⟩)
              (fun a b x ha => ⟨ha, fun _ => rfl⟩) xs r r₂ [] hr)
          exact ⟨this.1, fun _ => this.2 trivial⟩
        | _ => exact ⟨hr, fun _ => rfl⟩
      | slice e =>
        simp only [noIface, recSlice]
        cases j with
        | arr xs =>
          exact listFinish_sim I _ _ _ _ (stepList_sim I (noIface e = true) (elemStep rec₁ e) (elemStep rec₂ e)
            (fun a b x ha => elemStep_sim I Q hQ rec₁ rec₂ hrec e (hQ.slice e hq') a b x ha) xs r r₂ [] hr)
        | _ => exact ⟨hr, fun _ => rfl⟩
      | array n e =>
        simp only [noIface, recArray]
        cases j with
        | arr xs =>
          exact listFinish_sim I _ _ _ _ (stepList_sim I (noIface e = true) (fun r' x => rec₁ r' 2 x e none)
            (fun r' x => rec₂ r' 2 x e none)
            (fun a b x ha => by
              have := hrec a b 2 x e none ha (fun _ => hQ.array n e hq')
              exact ⟨this.1, fun hn => this.2 (by decide) hn⟩) (xs.take n) r r₂ [] hr)
        | _ => exact ⟨hr, fun _ => rfl⟩
      | map e =>
        simp only [noIface, recMap]
        cases j with
        | null => exact ⟨hr, fun _ => rfl⟩
        | obj kvs =>
          exact kvsFinish_sim I _ _ _ _ (stepKvs_sim I (noIface e = true) (mapElemStep rec₁ e) (mapElemStep rec₂ e)
            (fun a b x ha => mapElemStep_sim I Q hQ rec₁ rec₂ hrec e (hQ.map e hq') a b x ha) kvs r r₂ [] hr)
        | _ => exact ⟨hr, fun _ => rfl⟩
      | struct name pkg fs =>
        simp only [recStruct]
        cases j with
        | obj vm =>
          simp only
          have hc := hcf r r₂ name pkg fs hr hq'
          cases h1 : cf₁ r name pkg fs with
          | mk oc r1 =>
            cases h2 : composerPure r₂ name pkg fs with
            | mk oc2 r2 =>
              rw [h1, h2] at hc
              simp only at hc
              cases oc with
              | none =>
                cases oc2 with
                | none => exact ⟨hc.1, fun _ => rfl⟩
                | some c2 => simp at hc
              | some c =>
                cases oc2 with
                | none => simp at hc
                | some c2 =>
                  simp only [Option.map_some, Option.some.injEq] at hc
                  simp only
                  rw [hc.2]
                  exact stepFields_sim I (noIface (.struct name pkg fs) = true)
                    (fun ft => Q ft ∧ (noIface (.struct name pkg fs) = true → noIface ft = true)) _ (zeroVal fuelZ)
                    (fun r'' m ft e => rec₁ r'' 2 m ft (some e)) (fun r'' m ft e => rec₂ r'' 2 m ft (some e))
                    (.struct name pkg fs) vm
                    (fun idx ft hta => ⟨typeAt_her hQ idx _ ft hq' hta, fun hn => typeAt_her hN idx _ ft hn hta⟩)
                    (fun a b m ft e ha hft => by
                      have := hrec a b 2 m ft (some e) ha (fun _ => hft.1)
                      exact ⟨this.1, fun hn => this.2 (by decide) (hft.2 hn)⟩)
                    c2.indexes r1 r2 _ hc.1
        | _ => exact ⟨hr, fun _ => rfl⟩
      | _ => exact ⟨hr, fun _ => rfl⟩

/-- the whole recursion agrees when every level's lookup does -/
theorem recompG_sim (Q : GoType → Prop) (hQ : Her Q) (ck : Bytes) (cf : Nat → ComposerFor)
    (hfind : ∀ r k c, I r → Registry.find r k = some c → Q c.rtype)
    (hcf : ∀ f r r₂ n p fs, I r → Q (.struct n p fs) →
      I (cf f r n p fs).2 ∧ (cf f r n p fs).1.map (·.indexes) = (composerPure r₂ n p fs).1.map (·.indexes)) :
    ∀ f, Agree I Q (recompG cf ck f) (recompG (fun _ => composerPure) ck f) := by
  intro f
  induction f with
  | zero => intro r r₂ mode j t sf hr _; exact ⟨hr, fun _ _ => rfl⟩
  | succ n ih => exact recBody_sim I Q hQ ck (cf n) _ _ hfind (hcf n) ih

end Sim

/-! ### the registry invariant -/

/-- every composer holds the index of the struct type it was made for, its type satisfies `Q`, and
its key is related to the type by `K` -/
def InvG (K : Bytes → GoType → Prop) (Q : GoType → Prop) (r : Registry) : Prop :=
  ∀ k c, r.find k = some c → indexType fuelI c.rtype = some c.indexes ∧ Q c.rtype ∧ K k c.rtype

theorem invG_nil (K : Bytes → GoType → Prop) (Q : GoType → Prop) : InvG K Q [] := by
  intro k c h; simp [Registry.find] at h

theorem invG_set {K : Bytes → GoType → Prop} {Q : GoType → Prop} {r : Registry} (hr : InvG K Q r) (k : Bytes) (c : Composer)
    (h1 : indexType fuelI c.rtype = some c.indexes) (h2 : Q c.rtype) (h3 : K k c.rtype) : InvG K Q (r.set k c) := by
  intro k' c' hf
  rw [find_set] at hf
  by_cases hk : k = k'
  · subst hk
    simp only [↓reduceIte, Option.some.injEq] at hf
    subst hf
    exact ⟨h1, h2, h3⟩
  · simp only [hk, ↓reduceIte] at hf
    exact hr k' c' hf

theorem goodFields_get : ∀ (fs : List (FieldHdr × GoType)) (i : Nat) (ht : FieldHdr × GoType),
    goodFields fs = true → fs[i]? = some ht → goodT ht.2 = true := by
  intro fs
  induction fs with
  | nil => intro i ht _ hi; simp at hi
  | cons hd rest ih =>
    intro i ht h hi
    obtain ⟨h0, t0⟩ := hd
    simp only [goodFields, Bool.and_eq_true] at h
    cases i with
    | zero => simp only [List.getElem?_cons_zero, Option.some.injEq] at hi; subst hi; exact h.1
    | succ k => simp only [List.getElem?_cons_succ] at hi; exact ih k ht h.2 hi

theorem goodT_her : Her (fun t => goodT t = true) := by
  constructor
  · intro e h; simpa [goodT] using h
  · intro n e h; simpa [goodT] using h
  · intro e h; simpa [goodT] using h
  · intro e h; simpa [goodT] using h
  · intro n p fs i ht h hi
    simp only [goodT, Bool.and_eq_true] at h
    exact goodFields_get fs i ht h.2 hi

/-- the struct type a field walk would register is a component -/
theorem her_elem1 {Q : GoType → Prop} (hQ : Her Q) (t : GoType) (hq : Q t) (n p : Bytes) (fs : List (FieldHdr × GoType))
    (h : derefT (elem1 t) = .struct n p fs) : Q (.struct n p fs) := by
  cases t with
  | slice e =>
    have he := hQ.slice e hq
    cases e <;> simp only [elem1, derefT] at h <;> first | (subst h; exact hQ.ptr _ he) | (cases h; exact he) | cases h
  | array k e =>
    have he := hQ.array k e hq
    cases e <;> simp only [elem1, derefT] at h <;> first | (subst h; exact hQ.ptr _ he) | (cases h; exact he) | cases h
  | map e =>
    have he := hQ.map e hq
    cases e <;> simp only [elem1, derefT] at h <;> first | (subst h; exact hQ.ptr _ he) | (cases h; exact he) | cases h
  | ptr e =>
    have he := hQ.ptr e hq
    cases e <;> simp only [elem1, derefT] at h <;> first | (subst h; exact hQ.ptr _ he) | (cases h; exact he) | cases h
  | struct a b c => simp only [elem1, derefT, GoType.struct.injEq] at h; obtain ⟨rfl, rfl, rfl⟩ := h; exact hq
  | _ => simp [elem1, derefT] at h

/-- the same for the walk that unwraps containers completely -/
theorem her_elemAll {Q : GoType → Prop} (hQ : Her Q) : ∀ (t : GoType), Q t → ∀ (n p : Bytes) (fs : List (FieldHdr × GoType)),
    derefT (elemAll t) = .struct n p fs → Q (.struct n p fs)
  | .slice e, hq, n, p, fs, h => her_elemAll hQ e (hQ.slice e hq) n p fs (by simpa [elemAll] using h)
  | .array k e, hq, n, p, fs, h => her_elemAll hQ e (hQ.array k e hq) n p fs (by simpa [elemAll] using h)
  | .map e, hq, n, p, fs, h => her_elemAll hQ e (hQ.map e hq) n p fs (by simpa [elemAll] using h)
  | .ptr e, hq, n, p, fs, h => her_elemAll hQ e (hQ.ptr e hq) n p fs (by simpa [elemAll] using h)
  | .struct a b c, hq, n, p, fs, h => by
    simp only [elemAll, derefT, GoType.struct.injEq] at h; obtain ⟨rfl, rfl, rfl⟩ := h; exact hq
  | .bytes, _, n, p, fs, h => by simp [elemAll, derefT] at h
  | .bool, _, n, p, fs, h => by simp [elemAll, derefT] at h
  | .int _, _, n, p, fs, h => by simp [elemAll, derefT] at h
  | .float _, _, n, p, fs, h => by simp [elemAll, derefT] at h
  | .str, _, n, p, fs, h => by simp [elemAll, derefT] at h
  | .iface, _, n, p, fs, h => by simp [elemAll, derefT] at h

theorem her_walkElem {Q : GoType → Prop} (hQ : Her Q) (deep : Bool) (t : GoType) (hq : Q t) (n p : Bytes)
    (fs : List (FieldHdr × GoType)) (h : derefT (walkElem deep t) = .struct n p fs) : Q (.struct n p fs) := by
  cases deep with
  | false => exact her_elem1 hQ t hq n p fs (by simpa [walkElem] using h)
  | true => exact her_elemAll hQ t hq n p fs (by simpa [walkElem] using h)

/-! ### registration keeps the invariant and never panics on good types -/

section Reg
variable (K : Bytes → GoType → Prop) (Q : GoType → Prop)

/-- a composer accepted under one of the two names of a type is the composer of that type: by the
type test of the repair, or — for the code as it is (`b = true`) — by what `K` and `Q` say -/
def LookupOK (b : Bool) : Prop :=
  ∀ (k n p : Bytes) (fs : List (FieldHdr × GoType)) (T' : GoType), (k = n ∨ k = fullName n p) →
    Q (.struct n p fs) → Q T' → K k T' → b = true → T' = .struct n p fs

theorem regFields_inv (deep : Bool) (reg1 : Registry → GoType → RegOut) (hQ : Her Q)
    (hreg1 : ∀ r t, InvG K Q r → (∀ n p fs, derefT t = .struct n p fs → Q (.struct n p fs)) →
      InvG K Q (reg1 r t).reg ∧ (reg1 r t).panicked = false) :
    ∀ (fs : List (FieldHdr × GoType)) (r : Registry), InvG K Q r → (∀ ht ∈ fs, Q ht.2) →
      InvG K Q (regFields deep reg1 r fs).1 ∧ (regFields deep reg1 r fs).2 = false := by
  intro fs
  induction fs with
  | nil => intro r hr _; exact ⟨hr, rfl⟩
  | cons hd rest ih =>
    intro r hr hfs
    obtain ⟨h, t⟩ := hd
    have hrest : ∀ ht ∈ rest, Q ht.2 := fun ht hm => hfs ht (List.mem_cons_of_mem _ hm)
    simp only [regFields]
    split
    · exact ih r hr hrest
    · split
      · exact ih r hr hrest
      · have h1 := hreg1 r (walkElem deep t) hr
          (fun n p fs hd => her_walkElem hQ deep t (hfs (h, t) List.mem_cons_self) n p fs hd)
        cases hr1 : reg1 r (walkElem deep t) with
        | mk r' c' p' =>
          rw [hr1] at h1
          simp only at h1
          rw [h1.2]
          exact ih r' h1.1 hrest

theorem accepted_is_own (b : Bool) (hL : LookupOK K Q b) (r : Registry) (hr : InvG K Q r) (k n p : Bytes)
    (fs : List (FieldHdr × GoType)) (hk : k = n ∨ k = fullName n p) (hq : Q (.struct n p fs)) (c : Composer)
    (hacc : acceptedUnder b r k (.struct n p fs) = some c) :
    indexType fuelI (.struct n p fs) = some c.indexes := by
  simp only [acceptedUnder] at hacc
  cases hf : r.find k with
  | none => simp [hf] at hacc
  | some c0 =>
    simp only [hf] at hacc
    by_cases ha : (b || typeBeq c0.rtype (.struct n p fs)) = true
    · simp only [ha, ↓reduceIte, Option.some.injEq] at hacc
      subst hacc
      obtain ⟨h1, h2, h3⟩ := hr k c0 hf
      have : c0.rtype = .struct n p fs := by
        by_cases hb : b = true
        · exact hL k n p fs c0.rtype hk hq h2 h3 hb
        · have : typeBeq c0.rtype (.struct n p fs) = true := by
            cases b with
            | true => exact absurd rfl hb
            | false => simpa using ha
          exact typeBeq_eq _ _ this
      rw [← this]; exact h1
    · simp [ha] at hacc

theorem registerT_inv (b : Bool) (hQ : Her Q) (hgood : ∀ t, Q t → goodT t = true)
    (hK : ∀ n p fs, Q (.struct n p fs) → K n (.struct n p fs) ∧ K (fullName n p) (.struct n p fs))
    (hL : LookupOK K Q b) :
    ∀ (f : Nat) (r : Registry) (t : GoType), InvG K Q r → (∀ n p fs, derefT t = .struct n p fs → Q (.struct n p fs)) →
      InvG K Q (registerT (!b) f r t).reg ∧ (registerT (!b) f r t).panicked = false ∧
        (∀ n p fs, derefT t = .struct n p fs →
          ∃ c, (registerT (!b) f r t).comp = some c ∧ indexType fuelI (.struct n p fs) = some c.indexes) := by
  -- the body, for any walk that keeps the invariant
  have core : ∀ (walk : Option (Registry → GoType → RegOut))
      (_ : ∀ w, walk = some w → ∀ r t, InvG K Q r → (∀ n p fs, derefT t = .struct n p fs → Q (.struct n p fs)) →
        InvG K Q (w r t).reg ∧ (w r t).panicked = false)
      (r : Registry) (t : GoType), InvG K Q r → (∀ n p fs, derefT t = .struct n p fs → Q (.struct n p fs)) →
      InvG K Q (registerCore (!b) walk r t).reg ∧ (registerCore (!b) walk r t).panicked = false ∧
        (∀ n p fs, derefT t = .struct n p fs →
          ∃ c, (registerCore (!b) walk r t).comp = some c ∧ indexType fuelI (.struct n p fs) = some c.indexes) := by
    intro walk hwalk r t hr ht
    simp only [registerCore]
    cases hd : derefT t with
    | struct name pkg fs =>
      have hq : Q (.struct name pkg fs) := ht name pkg fs hd
      simp only
      -- the lookup under the full name
      rw [Bool.not_not]
      cases hacc : acceptedUnder b r (fullName name pkg) (.struct name pkg fs) with
      | some c =>
        refine ⟨hr, rfl, ?_⟩
        intro n p fs' heq
        simp only [GoType.struct.injEq] at heq
        obtain ⟨rfl, rfl, rfl⟩ := heq
        exact ⟨c, rfl, accepted_is_own K Q b hL r hr _ name pkg fs (Or.inr rfl) hq c hacc⟩
      | none =>
        have hg := hgood _ hq
        simp only [goodT, Bool.and_eq_true] at hg
        cases him : indexType fuelI (.struct name pkg fs) with
        | none => simp [him] at hg
        | some im =>
          simp only
          have hk := hK name pkg fs hq
          have hr1 : InvG K Q ((r.set name ⟨name, fullName name pkg, .struct name pkg fs, im⟩).set (fullName name pkg)
              ⟨name, fullName name pkg, .struct name pkg fs, im⟩) :=
            invG_set (invG_set hr name _ him hq hk.1) (fullName name pkg) _ him hq hk.2
          cases walk with
          | none =>
            refine ⟨hr1, rfl, ?_⟩
            intro n p fs' heq
            simp only [GoType.struct.injEq] at heq
            obtain ⟨rfl, rfl, rfl⟩ := heq
            exact ⟨_, rfl, him⟩
          | some w =>
            simp only
            have hw := hwalk w rfl
            have hfs : ∀ ht ∈ fs.reverse, Q ht.2 := by
              intro ht hm
              have hm' : ht ∈ fs := List.mem_reverse.mp hm
              obtain ⟨i, hi⟩ := List.mem_iff_getElem?.mp hm'
              exact hQ.field name pkg fs i ht hq hi
            have := regFields_inv K Q (!b) w hQ hw fs.reverse _ hr1 hfs
            cases hrf : regFields (!b) w ((r.set name ⟨name, fullName name pkg, .struct name pkg fs, im⟩).set (fullName name pkg)
                ⟨name, fullName name pkg, .struct name pkg fs, im⟩) fs.reverse with
            | mk r' p' =>
              rw [hrf] at this
              simp only at this
              refine ⟨this.1, this.2, ?_⟩
              intro n p fs' heq
              simp only [GoType.struct.injEq] at heq
              obtain ⟨rfl, rfl, rfl⟩ := heq
              exact ⟨_, rfl, him⟩
    | _ =>
      refine ⟨hr, rfl, ?_⟩
      intro n p fs heq
      cases heq
  intro f
  induction f with
  | zero => intro r t hr ht; exact core none (fun w h => by cases h) r t hr ht
  | succ n ih =>
    intro r t hr ht
    exact core (some (registerT (!b) n)) (fun w h => by
      simp only [Option.some.injEq] at h
      subst h
      intro r' t' hr' ht'
      exact ⟨(ih r' t' hr' ht').1, (ih r' t' hr' ht').2.1⟩) r t hr ht

theorem composerFor_good (b : Bool) (hQ : Her Q) (hgood : ∀ t, Q t → goodT t = true)
    (hK : ∀ n p fs, Q (.struct n p fs) → K n (.struct n p fs) ∧ K (fullName n p) (.struct n p fs))
    (hL : LookupOK K Q b) (f : Nat) (r r₂ : Registry) (n p : Bytes) (fs : List (FieldHdr × GoType))
    (hr : InvG K Q r) (hq : Q (.struct n p fs)) :
    InvG K Q (composerFor b f r n p fs).2 ∧
      (composerFor b f r n p fs).1.map (·.indexes) = (composerPure r₂ n p fs).1.map (·.indexes) := by
  have hg := hgood _ hq
  simp only [goodT, Bool.and_eq_true] at hg
  cases him : indexType fuelI (.struct n p fs) with
  | none => simp [him] at hg
  | some im =>
    simp only [composerPure, him, composerFor]
    cases hacc : acceptedUnder b r n (.struct n p fs) with
    | some c =>
      have := accepted_is_own K Q b hL r hr n n p fs (Or.inl rfl) hq c hacc
      rw [him] at this
      simp only [Option.some.injEq] at this
      simp only [Option.map_some, this]
      exact ⟨hr, trivial⟩
    | none =>
      simp only
      have hreg := registerT_inv K Q b hQ hgood hK hL f r (.struct n p fs) hr (fun n' p' fs' heq => by
        simp only [derefT, GoType.struct.injEq] at heq
        obtain ⟨rfl, rfl, rfl⟩ := heq
        exact hq)
      obtain ⟨c, hc1, hc2⟩ := hreg.2.2 n p fs rfl
      cases hrt : registerT (!b) f r (.struct n p fs) with
      | mk r' oc pp =>
        rw [hrt] at hreg hc1
        simp only at hreg hc1
        rw [hreg.2.1, hc1]
        simp only [Option.map_some]
        rw [him] at hc2
        simp only [Option.some.injEq] at hc2
        rw [hc2]
        exact ⟨hreg.1, rfl⟩

/-- the run with the registry equals the run in which every struct type is decoded with its own index -/
theorem recompV_sim (b : Bool) (hQ : Her Q) (hgood : ∀ t, Q t → goodT t = true)
    (hK : ∀ n p fs, Q (.struct n p fs) → K n (.struct n p fs) ∧ K (fullName n p) (.struct n p fs))
    (hL : LookupOK K Q b) (ck : Bytes) (f : Nat) :
    Agree (InvG K Q) Q (recompV b ck f) (recompG (fun _ => composerPure) ck f) :=
  recompG_sim (InvG K Q) Q hQ ck (composerFor b) (fun _ k c hr hf => (hr k c hf).2.1)
    (fun f r r₂ n p fs hr hq => composerFor_good K Q b hQ hgood hK hL f r r₂ n p fs hr hq) f

/-- what a history may contain for the invariant to survive -/
def EventOK : Event → Prop
  | .register t => ∀ n p fs, derefT t = .struct n p fs → Q (.struct n p fs)
  | .recompose t _ => Q t

theorem regAfter_inv (b : Bool) (hQ : Her Q) (hgood : ∀ t, Q t → goodT t = true)
    (hK : ∀ n p fs, Q (.struct n p fs) → K n (.struct n p fs) ∧ K (fullName n p) (.struct n p fs))
    (hL : LookupOK K Q b) (ck : Bytes) :
    ∀ (h : List Event) (r : Registry), InvG K Q r → (∀ e ∈ h, EventOK Q e) → InvG K Q (h.foldl (playEvent b ck) r) := by
  intro h
  induction h with
  | nil => intro r hr _; exact hr
  | cons e rest ih =>
    intro r hr hev
    simp only [List.foldl_cons]
    apply ih
    · have he := hev e List.mem_cons_self
      cases e with
      | register t => exact (registerT_inv K Q b hQ hgood hK hL fuelR r t hr he).1
      | recompose t j => exact (recompV_sim K Q b hQ hgood hK hL ck 256 r [] 1 j t none hr (fun _ => he)).1
    · exact fun e' hm => hev e' (List.mem_cons_of_mem _ hm)

/-- after any admissible history, a type without interface slots is recomposed exactly as with the
ideal registry -/
theorem recompose_eq_pure (b : Bool) (hQ : Her Q) (hgood : ∀ t, Q t → goodT t = true)
    (hK : ∀ n p fs, Q (.struct n p fs) → K n (.struct n p fs) ∧ K (fullName n p) (.struct n p fs))
    (hL : LookupOK K Q b) (ck : Bytes) (h : List Event) (hev : ∀ e ∈ h, EventOK Q e) (t : GoType) (hq : Q t)
    (hn : noIface t = true) (j : JV) :
    recompose b ck (regAfter b ck h) t j = recomposePure ck t j := by
  have hinv := regAfter_inv K Q b hQ hgood hK hL ck h [] (invG_nil K Q) hev
  exact (recompV_sim K Q b hQ hgood hK hL ck 256 (regAfter b ck h) [] 1 j t none hinv (fun _ => hq)).2 (by decide) hn

end Reg

/-! ### since b19f06c every type is good -/

mutual
  /-- `indexType` succeeds for every struct type (no embedded field makes it panic any more), so the
  hypothesis `goodT` of the simulation is always true -/
  theorem goodT_true : ∀ (t : GoType), goodT t = true
    | .slice e => by simp only [goodT]; exact goodT_true e
    | .array _ e => by simp only [goodT]; exact goodT_true e
    | .map e => by simp only [goodT]; exact goodT_true e
    | .ptr e => by simp only [goodT]; exact goodT_true e
    | .struct n p fs => by simp only [goodT, indexType, Option.isSome_some, Bool.true_and]; exact goodFields_true fs
    | .bool => rfl
    | .int _ => rfl
    | .float _ => rfl
    | .str => rfl
    | .bytes => rfl
    | .iface => rfl
  theorem goodFields_true : ∀ (fs : List (FieldHdr × GoType)), goodFields fs = true
    | [] => rfl
    | (_, t) :: r => by simp only [goodFields, goodT_true t, goodFields_true r, Bool.and_self]
end

theorem eventOK_good (e : Event) : EventOK (fun t => goodT t = true) e := by
  cases e with
  | register t => intro n p fs _; exact goodT_true _
  | recompose t j => exact goodT_true t

/-! ### comparing values in witnesses -/

mutual
  def valBeq : GoVal → GoVal → Bool
    | .bool a, .bool b => a == b
    | .int a, .int b => a == b
    | .flt a, .flt b => a == b
    | .str a, .str b => a == b
    | .nilBytes, .nilBytes => true
    | .bytes a, .bytes b => a == b
    | .nilSlice, .nilSlice => true
    | .slice a, .slice b => valsBeq a b
    | .arr a, .arr b => valsBeq a b
    | .nilMap, .nilMap => true
    | .map a, .map b => kvsBeq a b
    | .nilPtr, .nilPtr => true
    | .ptr a, .ptr b => valBeq a b
    | .nilIface, .nilIface => true
    | .iface t a, .iface u b => typeBeq t u && valBeq a b
    | .struct a, .struct b => valsBeq a b
    | _, _ => false
  def valsBeq : List GoVal → List GoVal → Bool
    | [], [] => true
    | x :: r, y :: s => valBeq x y && valsBeq r s
    | _, _ => false
  def kvsBeq : List (Bytes × GoVal) → List (Bytes × GoVal) → Bool
    | [], [] => true
    | (k, x) :: r, (l, y) :: s => k == l && valBeq x y && kvsBeq r s
    | _, _ => false
end

def slotIs (s : Slot) (v : GoVal) : Bool :=
  match s with
  | .ok x => valBeq x v
  | _ => false

/-- two slots that one concrete value tells apart are different -/
theorem slot_ne_of_slotIs {a b : Slot} {v : GoVal} (ha : slotIs a v = false) (hb : slotIs b v = true) : a ≠ b := by
  intro h; rw [h, hb] at ha; cases ha

end OjgVerif.Reflect
