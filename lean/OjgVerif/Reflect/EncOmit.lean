import OjgVerif.Reflect.Model
/-! # OmitNil / OmitEmpty in the plan interpreters and reflective walkers of oj and sen (C15)

`Reflect/Model.lean` reads `Opts.omitEmpty` only in the plan builders (`planOf`: every plan entry
gets the `…NotEmpty` variant) and never reads `Opts.omitNil`. This module adds, branch by branch,
what the WRITERS of oj and sen do with the two options (`oj/writer.go`, `oj/tight.go`, and the
`sen` twins, which have the same tests):

* `appendStruct` / `tightStruct`, after the plan entry answered `aJustKey`: a nil POINTER field and a
  nil INTERFACE field are dropped (the key is taken back) when `OmitNil` is set;
* `appendMap` / `tightMap` (the reflective map walker: every map that is a struct field, an element,
  or is not exactly `map[string]any` at the type switch): a nil pointer value is dropped under
  `OmitNil`; after dereferencing a pointer value, a slice, array, `[]byte` or map of length 0 is
  dropped when `OmitNil || OmitEmpty` (an EMPTY non-nil container is dropped by `OmitNil` alone); a
  string of length 0 is dropped when `OmitEmpty` (before /repo d7a5508 the TIGHT writer tested
  `OmitNil || OmitEmpty` here: finding `C15-omitnil-tight-empty-string`, fixed; `strDropOf true`); every other value — zero numbers, false, a nil interface, a
  struct — is written;
* `appendObject` / `tightObject` (+ the sorted twins; a `map[string]any` that reaches the type
  switch: top level or held by an interface): a member whose dynamic type is nil is dropped under
  `OmitNil`; whose dynamic type is exactly `string`, `map[string]any` or `[]any` and whose length is
  0, under `OmitEmpty`;
* slices and arrays drop nothing.

`encValO` is `encVal` with these tests added (`strDrop` is the string test of the map walker, the one
place where the tight and the indented writer differ). alt.Decompose and pretty have different
rules (they also drop false, 0 and objects that became empty, and ignore the option in tag mode):
they are NOT modelled here (known finding `C15-omit-options`). -/
namespace OjgVerif.Reflect
open OjgVerif

/-- `rm.Len() == 0` for the kinds Slice, Array, Map (a `[]byte` is of kind Slice) -/
def isEmptyContainer : GoVal → Bool
  | .nilSlice => true
  | .slice xs => xs.isEmpty
  | .arr xs => xs.isEmpty
  | .nilBytes => true
  | .bytes b => b.isEmpty
  | .nilMap => true
  | .map kvs => kvs.isEmpty
  | _ => false

def isEmptyStr : GoVal → Bool
  | .str s => s.isEmpty
  | _ => false

/-- the kind switch of `appendMap` / `tightMap` on a (dereferenced) value -/
def mapKindDropped (o : Opts) (strDrop : Bool) (x : GoVal) : Bool :=
  ((o.omitNil || o.omitEmpty) && isEmptyContainer x) || (strDrop && isEmptyStr x)

/-- `appendMap` / `tightMap`: is the member of this value left out -/
def mapValDropped (o : Opts) (strDrop : Bool) : GoVal → Bool
  | .nilPtr => o.omitNil
  | .ptr x => mapKindDropped o strDrop x
  | x => mapKindDropped o strDrop x

/-- `appendObject` / `tightObject`: the type switch on the dynamic type of a member of a
`map[string]any` -/
def objMemberDropped (o : Opts) : GoVal → Bool
  | .nilIface => o.omitNil
  | .iface .str (.str s) => o.omitEmpty && s.isEmpty
  | .iface (.map .iface) .nilMap => o.omitEmpty
  | .iface (.map .iface) (.map kvs) => o.omitEmpty && kvs.isEmpty
  | .iface (.slice .iface) .nilSlice => o.omitEmpty
  | .iface (.slice .iface) (.slice xs) => o.omitEmpty && xs.isEmpty
  | _ => false

/-- the nil tests of `appendStruct` / `tightStruct` after `aJustKey` (kinds Ptr and Interface) -/
def fieldNilDropped (o : Opts) (fi : Finfo) (x : GoVal) : Bool :=
  o.omitNil &&
    match fi.ty, x with
    | .ptr _, .nilPtr => true
    | .iface, .nilIface => true
    | _, _ => false

/-- `fieldMember` with the `OmitNil` test of the struct writers -/
def fieldMemberO (q : Quirks) (o : Opts) (enc : Bool → GoType → GoVal → JV) (sv : GoVal) (fi : Finfo) : Option (Bytes × JV) :=
  match fieldByIndex sv fi.index with
  | none => if q.embNilPanic then some (fi.key, panicMark) else none
  | some x =>
    if fi.omitE && isEmptyVal x then none
    else
      match (if fi.asStr then scalarText x else none) with
      | some t => some (fi.key, .str t)
      | none =>
        if fieldNilDropped o fi x then none
        else
          match fi.ty with
          | .iface => some (fi.key, enc true fi.ty x)
          | _ => some (fi.key, enc false fi.ty x)

/-- `map[string]any` at the type switch -/
def isAnyMap (viaIface : Bool) : GoType → Bool
  | .iface => viaIface
  | _ => false

/-- `encVal` with the omit tests of the writers. `strDrop`: the string test of the reflective map
walker (`OmitEmpty` for the indented writer, `OmitNil || OmitEmpty` for the tight one). -/
def encValO (q : Quirks) (o : Opts) (strDrop : Bool) (plan : Bool → List (FieldHdr × GoType) → List Finfo) :
    Nat → Bool → Bool → Bool → GoType → GoVal → JV
  | 0, _, _, _, _, _ => panicMark
  | vf + 1, viaIface, inElem, oe, t, v =>
    match t, v with
    | .bool, .bool b => .bool b
    | .int _, .int i => .int i
    | .float _, .flt s => .flt s
    | .str, .str s => .str s
    | .bytes, .nilBytes => if q.bytesNum && !viaIface then bytesAsNumbers [] else bytesAsJV o.bytesAs []
    | .bytes, .bytes b => if q.bytesNum && !viaIface then bytesAsNumbers b else bytesAsJV o.bytesAs b
    | .iface, .nilIface => .null
    | .iface, .iface dt dv => encValO q o strDrop plan vf true false false dt dv
    | .ptr _, .nilPtr => if inElem && q.elemNilPanic then panicMark else .null
    | .ptr e, .ptr x => encValO q o strDrop plan vf false false oe e x
    | .slice e, .nilSlice =>
      match e with
      | .iface => if viaIface && o.strict then .null else .arr []
      | _ => .arr []
    | .slice e, .slice xs => .arr (xs.map (encValO q o strDrop plan vf false true (oe && (q.slicePtrPlan || !isPtrT e)) e))
    | .array _ e, .arr xs => .arr (xs.map (encValO q o strDrop plan vf false true (oe && (q.slicePtrPlan || !isPtrT e)) e))
    | .map _, .nilMap => .obj []
    | .map e, .map kvs =>
      .obj (kvs.filterMap fun kv =>
        if (if isAnyMap viaIface e then objMemberDropped o kv.2 else mapValDropped o strDrop kv.2) then none
        else some (kv.1, if q.mapNilNull && isNilContainer kv.2 then .null else encValO q o strDrop plan vf false true oe e kv.2))
    | .struct name pkg fs, .struct vs =>
      .obj (createMember o name pkg ++ (plan oe fs).filterMap
        (fun fi => fieldMemberO q o (fun vi ft fv => encValO q o strDrop plan vf vi false (childOE q fi) ft fv) (.struct vs) fi))
    | _, _ => panicMark

/-- the string test of the reflective map walker: `wr.OmitEmpty` in `appendMap` (`oj/writer.go`,
`sen/writer.go`); in `tightMap` (`oj/tight.go`, `sen/tight.go`) `wr.OmitNil || wr.OmitEmpty` when
`tightNil` (the code before /repo d7a5508: finding `C15-omitnil-tight-empty-string`), `wr.OmitEmpty` since -/
def strDropOf (tightNil : Bool) (o : Opts) : Bool :=
  if o.indent then o.omitEmpty else (tightNil && o.omitNil) || o.omitEmpty

/-- the code as it is (/repo d7a5508: the string test of `tightMap` is `wr.OmitEmpty`, like `appendMap`'s;
before, the tight map walker dropped an empty string under `OmitNil` alone: finding
`C15-omitnil-tight-empty-string`, fixed). `omit_tests_match_source` of `Props/C15Omit.lean` ties this
to the regenerated test; `encodeOWith true` is the code before d7a5508. -/
def omitTightNilCurrent : Bool := false

/-- what `oj.JSON`/`Marshal`/`Write` (`Enc.oj`) and `sen.String` (`Enc.sen`) describe under all
options, `OmitNil` and `OmitEmpty` included (`Enc.alt`: the walker of `encode` with the oj/sen omit
tests — NOT a model of alt.Decompose under the omit options) -/
def encodeOWith (tightNil : Bool) (e : Enc) (d : Dev) (o : Opts) (tf vf : Nat) (t : GoType) (v : GoVal) : JV :=
  encValO (quirksOf e d o) o (strDropOf tightNil o) (planOf e d o tf) vf true false false t v

def encodeO (e : Enc) (d : Dev) (o : Opts) (tf vf : Nat) (t : GoType) (v : GoVal) : JV :=
  encodeOWith omitTightNilCurrent e d o tf vf t v

end OjgVerif.Reflect
