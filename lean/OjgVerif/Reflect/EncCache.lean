import OjgVerif.Gen.ReflectEnc
/-! # The two-level plan cache of oj, sen and alt as state threaded through a history of calls (C15)

`oj/sinfo.go`, `sen/sinfo.go` (and, one level only, `alt/sinfo.go`) keep two process-wide maps keyed
by the type pointer: `structMap` (plans built with `omitEmpty = false`) and `structEmptyMap` (plans
built with `omitEmpty = true`). `getSinfo(v, omitEmpty)` is the lookup of the encoders at run time
(top-level value, a struct reached through an interface or `appendJSON`); `getTypeStruct(rt,
embedded, omitEmpty)` is the lookup `newFinfo` makes WHILE a plan is built, for the struct type of a
field, of the target of a pointer field, of the elements of a slice, array or map field: the plan
found (or built) then is stored in the field's plan entry (`fi.elem`) and executed for every value
of that field from then on. A plan is therefore a TREE of plans fixed at the time of its first build,
and which tree it is depends on what the maps held at that moment — the ORDER OF FIRST USE.

The model. Struct types are keys `K` (any type with decidable equality), the static type graph is
`Env.kids` (for a key the struct types its plan entries carry, with the `embedded` flag `newFinfo`
passes). A `Plan` records the key, the flag `om` it was built with (this is what selects the
`…NotEmpty` variant of every entry, i.e. what the encoder's output depends on), the `embedded` flag
of its first builder, and the plans of the carried types. `Cfg` is the cache protocol: which maps
`getTypeStruct` and `getSinfo` consult, in which order, for a given flag, and which map `buildStruct`
stores into. `Cfg.ofEvents` reads it from the REGENERATED traces of `tools/extract/reflect_enc.go`
(the three functions run symbolically with `omitEmpty` false and true).

Modelling notes. (1) `buildStruct` stores the new `sinfo` BEFORE it builds the entries (so that a
recursive type terminates); the model stores after. For the finite type trees of the family's model
(`GoType`) a type never reaches itself, and the two orders give the same maps. (2) `buildStruct`
builds 16 (alt: 8) entry lists, each calling `getTypeStruct` for the same field types; after the
first the lookups hit: one pass over `Env.kids` stands for all. (3) The `embedded` flag of a cached
plan is the one of its FIRST builder (`getSinfo` passes false, `newFinfo` true for a struct held by
value): this IS history dependent in the unchanged code. It selects the index-based instead of the
offset-based access functions, which read the same field; the family's model identifies them
(`Append` = `iAppend`), and the statements below are about the `om` flags only. (4) Recursion is by
fuel; out of fuel a plan without children is returned and nothing is stored. -/
namespace OjgVerif.Reflect.EncCache

/-- the cache protocol; a map is named by the flag of the plans it is meant to hold: `false` =
`structMap`, `true` = `structEmptyMap` -/
structure Cfg where
  /-- `getTypeStruct(rt, embedded, omitEmpty)`: the maps consulted, in order -/
  nestLookups : Bool → List Bool
  /-- `getSinfo(v, omitEmpty)`: the maps consulted, in order -/
  topLookups : Bool → List Bool
  /-- `buildStruct(…, omitEmpty)`: the map the new plan is stored into -/
  store : Bool → Bool

/-- every lookup made for flag `om` goes to map `om`, and a plan built with `om` is stored there -/
def Cfg.wellKeyed (cfg : Cfg) : Bool :=
  [false, true].all fun om =>
    (cfg.nestLookups om).all (· == om) && (cfg.topLookups om).all (· == om) && (cfg.store om == om)

inductive Plan (K : Type) where
  | mk (key : K) (om emb : Bool) (kids : List (Plan K))

structure Env (K : Type) where
  /-- the struct types the plan entries of a struct type carry (`fi.elem`), with the `embedded`
  argument of the `getTypeStruct` call -/
  kids : K → List (K × Bool)

structure Cache (K : Type) where
  plain : List (K × Plan K)
  empty : List (K × Plan K)

def Cache.none {K : Type} : Cache K := ⟨[], []⟩

section
variable {K : Type} [DecidableEq K]

def assoc (k : K) : List (K × Plan K) → Option (Plan K)
  | [] => none
  | kp :: r => if kp.1 = k then some kp.2 else assoc k r

def Cache.get (c : Cache K) (m : Bool) (k : K) : Option (Plan K) := assoc k (if m then c.empty else c.plain)

def Cache.put (c : Cache K) (m : Bool) (k : K) (p : Plan K) : Cache K :=
  if m then ⟨c.plain, (k, p) :: c.empty⟩ else ⟨(k, p) :: c.plain, c.empty⟩

/-- `if st = M[x]; st != nil { return }` for each map of the list in turn -/
def firstHit (c : Cache K) (k : K) : List Bool → Option (Plan K)
  | [] => none
  | m :: ms =>
    match c.get m k with
    | some p => some p
    | none => firstHit c k ms

/-- the `getTypeStruct` calls of one `buildStruct`, threading the maps -/
def buildKids (get : Cache K → K → Bool → Plan K × Cache K) : Cache K → List (K × Bool) → List (Plan K) × Cache K
  | c, [] => ([], c)
  | c, ke :: r =>
    let r1 := get c ke.1 ke.2
    let r2 := buildKids get r1.2 r
    (r1.1 :: r2.1, r2.2)

/-- `getTypeStruct(rt, embedded, omitEmpty)`; on a miss `buildStruct(rt, x, embedded, omitEmpty)`,
whose `newFinfo` calls hand the same `omitEmpty` (the struct-level flag, `nestOmit`) down -/
def getNested (cfg : Cfg) (env : Env K) : Nat → Bool → Cache K → K → Bool → Plan K × Cache K
  | 0, om, c, k, emb => (.mk k om emb [], c)
  | f + 1, om, c, k, emb =>
    match firstHit c k (cfg.nestLookups om) with
    | some p => (p, c)
    | none =>
      let r := buildKids (getNested cfg env f om) c (env.kids k)
      let p := Plan.mk k om emb r.1
      (p, r.2.put (cfg.store om) k p)

/-- `getSinfo(v, omitEmpty)`: the lookup of the encoders; on a miss `buildStruct(…, false, omitEmpty)` -/
def getTop (cfg : Cfg) (env : Env K) (fuel : Nat) (c : Cache K) (k : K) (om : Bool) : Plan K × Cache K :=
  match firstHit c k (cfg.topLookups om) with
  | some p => (p, c)
  | none =>
    let r := buildKids (getNested cfg env fuel om) c (env.kids k)
    let p := Plan.mk k om false r.1
    (p, r.2.put (cfg.store om) k p)

/-- the maps after a history of encoder lookups `(type, OmitEmpty)` -/
def run (cfg : Cfg) (env : Env K) (fuel : Nat) : List (K × Bool) → Cache K → Cache K
  | [], c => c
  | ko :: r, c => run cfg env fuel r (getTop cfg env fuel c ko.1 ko.2).2

end

/-- every plan of the tree was built with flag `om`: each nested struct value is written with the
`…NotEmpty` entries exactly when the caller's `OmitEmpty` says so -/
inductive AllOm {K : Type} (om : Bool) : Plan K → Prop where
  | mk (k : K) (emb : Bool) (ps : List (Plan K)) : (∀ p, p ∈ ps → AllOm om p) → AllOm om (.mk k om emb ps)

/-- executable twin of `AllOm`, by fuel (for the concrete witnesses) -/
def allOmB {K : Type} (om : Bool) : Nat → Plan K → Bool
  | 0, _ => false
  | f + 1, .mk _ o _ ps => (o == om) && ps.all (allOmB om f)

/-! ## the protocol read from the source -/

def lookupsOf (ev : List String) : List Bool :=
  ev.filterMap fun e =>
    if e = "lookup:structMap" then some false else if e = "lookup:structEmptyMap" then some true else none

def storesOf (ev : List String) : List Bool :=
  ev.filterMap fun e =>
    if e = "store:structMap" then some false else if e = "store:structEmptyMap" then some true else none

/-- the protocol three regenerated pairs of traces describe; a `buildStruct` that does not store
exactly once counts as storing into the wrong map -/
def Cfg.ofEvents (nestOff nestOn topOff topOn buildOff buildOn : List String) : Cfg where
  nestLookups := fun om => lookupsOf (if om then nestOn else nestOff)
  topLookups := fun om => lookupsOf (if om then topOn else topOff)
  store := fun om =>
    match storesOf (if om then buildOn else buildOff) with
    | [m] => m
    | _ => !om

open OjgVerif.Gen.ReflectEnc in
def Cfg.oj : Cfg := Cfg.ofEvents ojGetTypeStructOff ojGetTypeStructOn ojGetSinfoOff ojGetSinfoOn ojBuildStructOff ojBuildStructOn
open OjgVerif.Gen.ReflectEnc in
def Cfg.sen : Cfg := Cfg.ofEvents senGetTypeStructOff senGetTypeStructOn senGetSinfoOff senGetSinfoOn senBuildStructOff senBuildStructOn
open OjgVerif.Gen.ReflectEnc in
/-- alt has no nested lookup (its plan entries hold no plan; `reflectStruct` calls `getSinfo` for every struct value) -/
def Cfg.alt : Cfg := Cfg.ofEvents [] [] altGetSinfoOff altGetSinfoOn altBuildStructOff altBuildStructOn

/-- the protocol of seeded change C15-m7: `getTypeStruct` returns a hit in `structMap` before it
consults `structEmptyMap` -/
def Cfg.plainFirst : Cfg := ⟨fun om => if om then [false, true] else [false], fun om => [om], fun om => om⟩

end OjgVerif.Reflect.EncCache
