import OjgVerif.Common.Driver
import OjgVerif.Reflect.Model
import OjgVerif.Reflect.Registry
import OjgVerif.Reflect.RoundTripSpec
import OjgVerif.Reflect.Lemmas
/-! Driver ops of the `reflect` family (line protocol, see `Common/Driver.lean`).

Types and values travel as space separated tokens in prefix form (strings as hex, `-` = empty):

* type: `b` · `i0`…`i9` · `f32` `f64` · `s` · `y` ([]byte) · `I` (interface{}) · `L T` · `A n T` ·
  `M T` · `P T` · `S name pkg n (fname tag|~ e|n T)*`
* value: `t` `f` · `i n` · `d text` · `s hex` · `y hex` / `Y` (nil) · `l n v*` / `L` · `a n v*` ·
  `m n (key v)*` / `M` · `p v` / `P` · `j T v` / `J` · `r n v*`

Ops:
* `enc <oj|sen|alt|ref> <dev> <flags> <bytesAs> <createKey> <type> <value>` — the tree the encoder
  (model) / the reference describes; `<dev>` is `-` or letters of `lxyenmo` (`Dev` flags in the order
  of the structure); `<flags>` eight 0/1: tags exact nest omitnil omitempty fullpath indent strict.
  Answers `panic`, `outside` (not in the modelled fragment) or the canonical tree.
* `rtok <flags> <bytesAs> <createKey> <type> <value>` — `yes` when the hypotheses of the round-trip theorem
  (`rtOK (effOpts o)`, no interface slot, OmitNil/OmitEmpty off) hold, else `no`; with the strict flag set the
  hypotheses of `recompose_inverts_marshal_tree` (the oj.Marshal route: `untriggered .oj`, `rtOK o`).
* `recomp <b|-> <createKey> <history> <type> <tree>` — `Recompose(tree, new(type))` on a recomposer that
  has seen the history; `b`: the code as it is (lookup by bare name), `-`: with the repair.
  `<history>` is `-` or events joined by ` ; `: `R <type>` (RegisterComposer) or `C <type> | <tree>`
  (an earlier Recompose); `<tree>` is the canonical text of `JV.render` (floats: hex of the decimal
  text). Answers the value in token form, `error`, or `outside`. -/
namespace OjgVerif.Reflect
open OjgVerif

def fuelT : Nat := 64

def pFields (p : List String → Option (GoType × List String)) :
    Nat → List String → List (FieldHdr × GoType) → Option (List (FieldHdr × GoType) × List String)
  | 0, r, acc => some (acc.reverse, r)
  | n + 1, nm :: tg :: fl :: r, acc =>
    match ofHex nm, (if tg = "~" then some [] else ofHex tg), p r with
    | some name, some tag, some (t, r') =>
      if fl = "e" ∨ fl = "n" then pFields p n r' ((⟨name, tag, fl = "e"⟩, t) :: acc) else none
    | _, _, _ => none
  | _ + 1, _, _ => none

def pType : Nat → List String → Option (GoType × List String)
  | 0, _ => none
  | _ + 1, [] => none
  | n + 1, tok :: r =>
    if tok = "b" then some (.bool, r)
    else if tok = "f32" then some (.float true, r)
    else if tok = "f64" then some (.float false, r)
    else if tok = "s" then some (.str, r)
    else if tok = "y" then some (.bytes, r)
    else if tok = "I" then some (.iface, r)
    else if tok = "L" then (pType n r).map fun x => (.slice x.1, x.2)
    else if tok = "M" then (pType n r).map fun x => (.map x.1, x.2)
    else if tok = "P" then (pType n r).map fun x => (.ptr x.1, x.2)
    else if tok = "A" then
      match r with
      | k :: r1 =>
        match k.toNat? with
        | some len => (pType n r1).map fun x => (.array len x.1, x.2)
        | none => none
      | [] => none
    else if tok = "S" then
      match r with
      | nm :: pk :: cnt :: r1 =>
        match ofHex nm, ofHex pk, cnt.toNat? with
        | some name, some pkg, some c => (pFields (pType n) c r1 []).map fun x => (.struct name pkg x.1, x.2)
        | _, _, _ => none
      | _ => none
    else
      match tok.toList with
      | ['i', d] => if '0' ≤ d ∧ d ≤ '9' then some (.int (d.toNat - 48), r) else none
      | _ => none

def pVals (p : List String → Option (GoVal × List String)) :
    Nat → List String → List GoVal → Option (List GoVal × List String)
  | 0, r, acc => some (acc.reverse, r)
  | n + 1, r, acc =>
    match p r with
    | some (v, r') => pVals p n r' (v :: acc)
    | none => none

def pKVs (p : List String → Option (GoVal × List String)) :
    Nat → List String → List (Bytes × GoVal) → Option (List (Bytes × GoVal) × List String)
  | 0, r, acc => some (acc.reverse, r)
  | n + 1, k :: r, acc =>
    match ofHex k, p r with
    | some key, some (v, r') => pKVs p n r' ((key, v) :: acc)
    | _, _ => none
  | _ + 1, [], _ => none

def pVal : Nat → List String → Option (GoVal × List String)
  | 0, _ => none
  | _ + 1, [] => none
  | n + 1, tok :: r =>
    if tok = "t" then some (.bool true, r)
    else if tok = "f" then some (.bool false, r)
    else if tok = "Y" then some (.nilBytes, r)
    else if tok = "L" then some (.nilSlice, r)
    else if tok = "M" then some (.nilMap, r)
    else if tok = "P" then some (.nilPtr, r)
    else if tok = "J" then some (.nilIface, r)
    else if tok = "p" then (pVal n r).map fun x => (.ptr x.1, x.2)
    else if tok = "j" then
      match pType fuelT r with
      | some (t, r1) => (pVal n r1).map fun x => (.iface t x.1, x.2)
      | none => none
    else
      match r with
      | [] => none
      | a :: r1 =>
        if tok = "i" then a.toInt?.map fun i => (.int i, r1)
        else if tok = "d" then (ofHex a).map fun b => (.flt b, r1)
        else if tok = "s" then (ofHex a).map fun b => (.str b, r1)
        else if tok = "y" then (ofHex a).map fun b => (.bytes b, r1)
        else
          match a.toNat? with
          | none => none
          | some c =>
            if tok = "l" then (pVals (pVal n) c r1 []).map fun x => (.slice x.1, x.2)
            else if tok = "a" then (pVals (pVal n) c r1 []).map fun x => (.arr x.1, x.2)
            else if tok = "r" then (pVals (pVal n) c r1 []).map fun x => (.struct x.1, x.2)
            else if tok = "m" then (pKVs (pVal n) c r1 []).map fun x => (.map x.1, x.2)
            else none

def toks (s : String) : List String := (s.splitOn " ").filter (· ≠ "")

def readType (s : String) : Option GoType :=
  match pType fuelT (toks s) with
  | some (t, []) => some t
  | _ => none

def readVal (s : String) : Option GoVal :=
  match pVal 256 (toks s) with
  | some (v, []) => some v
  | _ => none

def readDev (s : String) : Option Dev :=
  if s.toList.all (fun c => c = 'l' || c = 'x' || c = 'y' || c = 'e' || c = 'n' || c = 'm' || c = 'o' || c = '-') then
    some ⟨s.contains 'l', s.contains 'x', s.contains 'y', s.contains 'e', s.contains 'n', s.contains 'm', s.contains 'o'⟩
  else none

def readOpts (flags bytesAs ck : String) : Option Opts :=
  match flags.toList.map (fun c => decide (c = '1')), bytesAs.toNat?, ofHex ck with
  | [a, b, c, d, e, f, g, h], some ba, some key =>
    if flags.toList.all (fun c => c = '0' || c = '1') then some ⟨a, b, c, d, e, f, g, h, ba, key⟩ else none
  | _, _, _ => none

mutual
  def hasPanic : JV → Bool
    | .num t => t == [112, 97, 110, 105, 99]
    | .arr xs => anyPanic xs
    | .obj kvs => anyPanicKv kvs
    | _ => false
  def anyPanic : List JV → Bool
    | [] => false
    | x :: r => hasPanic x || anyPanic r
  def anyPanicKv : List (Bytes × JV) → Bool
    | [] => false
    | (_, x) :: r => hasPanic x || anyPanicKv r
end

def outcome (v : JV) : String := if hasPanic v then "panic" else v.render

/-! ### the fragment -/

mutual
  def typeInFragment : GoType → Bool
    | .ptr (.ptr _) => false
    | .ptr .bytes => false
    | .ptr .iface => false
    | .ptr e => typeInFragment e
    | .slice e => typeInFragment e
    | .array _ e => typeInFragment e
    | .map e => typeInFragment e
    | .struct _ _ fs => fieldsInFragment fs
    | _ => true
  def fieldsInFragment : List (FieldHdr × GoType) → Bool
    | [] => true
    | (h, t) :: r =>
      (match h.name with
        | [] => false
        | c :: _ => (65 ≤ c && c ≤ 90) || (97 ≤ c && c ≤ 122)) &&
      (!h.embedded || (match t with
        | .struct _ _ _ => true
        | .ptr (.struct _ _ _) => true
        | _ => false)) &&
      typeInFragment t && fieldsInFragment r
end

/-- An interface stores a value of a pointer-shaped type (pointer, map, a struct with one such field,
an array of one such element) directly in its data word; the "real nil check" of the `…NotEmpty`
plan functions reads that word, so such a value with a nil word is taken for a nil interface
(known finding `C15-iface-nil-word`; like a typed nil pointer it is outside the model). -/
def wordNil : Nat → GoVal → Bool
  | 0, _ => false
  | _ + 1, .nilPtr => true
  | _ + 1, .nilMap => true
  | n + 1, .struct [x] => wordNil n x
  | n + 1, .arr [x] => wordNil n x
  | _ + 1, _ => false

mutual
  def valInFragment : GoVal → Bool
    | .iface t v => typeInFragment t && valInFragment v && !wordNil 16 v
    | .ptr v => valInFragment v
    | .slice xs => valsInFragment xs
    | .arr xs => valsInFragment xs
    | .struct xs => valsInFragment xs
    | .map kvs => kvsInFragment kvs
    | _ => true
  def valsInFragment : List GoVal → Bool
    | [] => true
    | x :: r => valInFragment x && valsInFragment r
  def kvsInFragment : List (Bytes × GoVal) → Bool
    | [] => true
    | (_, x) :: r => valInFragment x && kvsInFragment r
end

def handleEnc (which dev flags bytesAs ck ty val : String) : String :=
  match readDev dev, readOpts flags bytesAs ck, readType ty, readVal val with
  | some d, some o, some t, some v =>
    if o.omitNil || o.omitEmpty || !typeInFragment t || !valInFragment v then "outside"
    else if which = "oj" then outcome (encode .oj d o fuelT 256 t v)
    else if which = "sen" then outcome (encode .sen d o fuelT 256 t v)
    else if which = "alt" then outcome (encode .alt d o fuelT 256 t v)
    else if which = "ref" then outcome (refEncode o fuelT 256 t v)
    else "bad-op"
  | _, _, _, _ => "bad-op"

/-! ### C16: trees in, values out -/

def spanClose : List Char → List Char → Option (List Char × List Char)
  | [], _ => none
  | c :: r, acc => if c = ')' then some (acc.reverse, r) else spanClose r (c :: acc)

def readIntChars (cs : List Char) : Option Int := (String.ofList cs).toInt?

def pElems (p : List Char → Option (JV × List Char)) : Nat → List Char → List JV → Option (List JV × List Char)
  | 0, _, _ => none
  | n + 1, cs, acc =>
    match p cs with
    | none => none
    | some (v, ',' :: r) => pElems p n r (v :: acc)
    | some (v, ']' :: r) => some ((v :: acc).reverse, r)
    | some _ => none

def pMembers (p : List Char → Option (JV × List Char)) : Nat → List Char → List (Bytes × JV) → Option (List (Bytes × JV) × List Char)
  | 0, _, _ => none
  | n + 1, cs, acc =>
    match cs with
    | 'K' :: '(' :: r =>
      match spanClose r [] with
      | none => none
      | some (hx, r2) =>
        match ofHex (String.ofList hx), p r2 with
        | some k, some (v, ',' :: r3) => pMembers p n r3 ((k, v) :: acc)
        | some k, some (v, '}' :: r3) => some (((k, v) :: acc).reverse, r3)
        | _, _ => none
    | _ => none

def pJV : Nat → List Char → Option (JV × List Char)
  | 0, _ => none
  | n + 1, cs =>
    match cs with
    | 'n' :: r => some (.null, r)
    | 't' :: r => some (.bool true, r)
    | 'f' :: r => some (.bool false, r)
    | '[' :: ']' :: r => some (.arr [], r)
    | '[' :: r => (pElems (pJV n) cs.length r []).map (fun x => (.arr x.1, x.2))
    | '{' :: '}' :: r => some (.obj [], r)
    | '{' :: r => (pMembers (pJV n) cs.length r []).map (fun x => (.obj x.1, x.2))
    | c :: '(' :: r =>
      match spanClose r [] with
      | none => none
      | some (body, r2) =>
        if c = 'I' then (readIntChars body).map (fun i => (.int i, r2))
        else if c = 'F' then (ofHex (String.ofList body)).map (fun t => (.flt t, r2))
        else if c = 'B' then (ofHex (String.ofList body)).map (fun t => (.big t, r2))
        else if c = 'S' then (ofHex (String.ofList body)).map (fun t => (.str t, r2))
        else none
    | _ => none

def readJV (s : String) : Option JV :=
  match pJV (s.length + 1) s.toList with
  | some (v, []) => some v
  | _ => none

mutual
  def typeToks : GoType → String
    | .bool => "b "
    | .int k => "i" ++ toString k ++ " "
    | .float true => "f32 "
    | .float false => "f64 "
    | .str => "s "
    | .bytes => "y "
    | .iface => "I "
    | .slice e => "L " ++ typeToks e
    | .array n e => "A " ++ toString n ++ " " ++ typeToks e
    | .map e => "M " ++ typeToks e
    | .ptr e => "P " ++ typeToks e
    | .struct name pkg fs => "S " ++ toHexF name ++ " " ++ toHexF pkg ++ " " ++ toString fs.length ++ " " ++ fieldToks fs
  def fieldToks : List (FieldHdr × GoType) → String
    | [] => ""
    | (h, t) :: r =>
      toHexF h.name ++ " " ++ (if h.tag.isEmpty then "~" else toHexF h.tag) ++ " " ++ (if h.embedded then "e " else "n ") ++
        typeToks t ++ fieldToks r
end

mutual
  def valToks : GoVal → String
    | .bool true => "t "
    | .bool false => "f "
    | .int i => "i " ++ toString i ++ " "
    | .flt t => "d " ++ toHexF t ++ " "
    | .str s => "s " ++ toHexF s ++ " "
    | .nilBytes => "Y "
    | .bytes b => "y " ++ toHexF b ++ " "
    | .nilSlice => "L "
    | .slice xs => "l " ++ toString xs.length ++ " " ++ valsToks xs
    | .arr xs => "a " ++ toString xs.length ++ " " ++ valsToks xs
    | .nilMap => "M "
    | .map kvs => "m " ++ toString kvs.length ++ " " ++ kvsToks kvs
    | .nilPtr => "P "
    | .ptr v => "p " ++ valToks v
    | .nilIface => "J "
    | .iface t v => "j " ++ typeToks t ++ valToks v
    | .struct vs => "r " ++ toString vs.length ++ " " ++ valsToks vs
  def valsToks : List GoVal → String
    | [] => ""
    | x :: r => valToks x ++ valsToks r
  def kvsToks : List (Bytes × GoVal) → String
    | [] => ""
    | (k, x) :: r => toHexF k ++ " " ++ valToks x ++ kvsToks r
end

def readEvent (s : String) : Option Event :=
  match toks s with
  | "R" :: r =>
    match pType fuelT r with
    | some (t, []) => some (.register t)
    | _ => none
  | "C" :: r =>
    match pType fuelT r with
    | some (t, ["|", tree]) => (readJV tree).map fun j => .recompose t j
    | _ => none
  | _ => none

def readEvents (s : String) : Option (List Event) :=
  if s = "-" then some [] else (s.splitOn " ; ").mapM readEvent

def slotText : Slot → String
  | .ok v => (valToks v).trimAsciiEnd.toString
  | .panic => "error"
  | .outside => "outside"

def handleRecomp : List String → String
  | [dev, ck, events, ty, tree] =>
    match (if dev = "b" then some true else if dev = "-" then some false else none), ofHex ck, readEvents events,
        readType ty, readJV tree with
    | some bare, some key, some h, some t, some j =>
      if !typeInFragment t then "outside" else slotText (recompose bare key (regAfter bare key h) t j)
    | _, _, _, _, _ => "bad-op"
  | _ => "bad-op"

/-- `rtok <flags> <bytesAs> <createKey> <type> <value>`: do the hypotheses of the round-trip theorem
(`OjgVerif.C16.recompose_inverts_decompose_history`) hold for this case — `yes` / `no` -/
def handleRtok (flags bytesAs ck ty val : String) : String :=
  match readOpts flags bytesAs ck, readType ty, readVal val with
  | some o, some t, some v =>
    if o.strict then
      -- the oj.Marshal route: hypotheses of `recompose_inverts_marshal_tree`
      (if !o.omitNil && !o.omitEmpty && typeInFragment t && valInFragment v && noIface t && !isSliceIface t &&
          untriggered .oj Dev.current o fuelT (planFixed o fuelT) 256 true false t v && rtOK o 256 t v then "yes" else "no")
    else if !o.omitNil && !o.omitEmpty && typeInFragment t && valInFragment v && noIface t &&
        rtOK (effOpts o) 256 t v then "yes"
    else "no"
  | _, _, _ => "bad-op"

def handle : List String → String
  | ["enc", which, dev, flags, bytesAs, ck, ty, val] => handleEnc which dev flags bytesAs ck ty val
  | ["rtok", flags, bytesAs, ck, ty, val] => handleRtok flags bytesAs ck ty val
  | "recomp" :: args => handleRecomp args
  | _ => "bad-op"

end OjgVerif.Reflect
