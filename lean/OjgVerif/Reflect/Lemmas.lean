import OjgVerif.Reflect.Model
/-! Helper lemmas for C15: the repaired oj/sen tag builder is alt's, the mask wiring, every plan entry
has a non-empty index path, what the entries of a flattened embedded field give, and "executing the
repaired plan lists the members the documentation prescribes". -/
namespace OjgVerif.Reflect
open OjgVerif

theorem ojTagPass_fixed (te ke nest : Bool) (sub : List (FieldHdr × GoType) → Bool → List Finfo)
    (sub' : List (FieldHdr × GoType) → List Finfo) (hs : ∀ fs, sub fs false = sub' fs) :
    ∀ (fs : List (FieldHdr × GoType)) (i : Nat),
      ojTagPass false te ke nest sub false fs i = (altTagPass te ke nest sub' fs i, false) := by
  intro fs
  induction fs with
  | nil => intro i; simp [ojTagPass, altTagPass]
  | cons hd rest ih =>
    intro i
    obtain ⟨h, t⟩ := hd
    simp only [ojTagPass, altTagPass, ih (i + 1)]
    simp only [Bool.false_eq_true, if_false, Bool.false_or]
    by_cases hu : unexported h.name = true
    · simp [hu]
    · simp only [hu]
      by_cases he : (h.embedded && !nest) = true
      · simp [he, hs]
      · simp only [he]
        by_cases ht : h.tag.isEmpty = true
        · simp [ht]
        · simp only [ht]
          cases parseTag h.tag with
          | none => rfl
          | some r => rfl

theorem ojTagFields_fixed (te ke nest : Bool) :
    ∀ (tf : Nat) (fs : List (FieldHdr × GoType)), ojTagFields false te ke nest tf fs false = altTagFields te ke nest tf fs := by
  intro tf
  induction tf with
  | zero => intro fs; rfl
  | succ n ih =>
    intro fs
    simp only [ojTagFields, altTagFields]
    rw [ojTagPass_fixed te ke nest _ _ ih]

theorem ojMasks : ojMaskByTag = 1 ∧ ojMaskExact = 2 ∧ ojMaskNested = 4 ∧ ojMaskPretty = 8 ∧ ojMaskMax = 16 := by decide

theorem altMasks : altMaskByTag = 1 ∧ altMaskExact = 2 ∧ altMaskNested = 4 ∧ altMaskSet = 8 := by decide

/-- `calcFieldsIndex` + `buildStruct`/`buildFields` (oj, sen): the table entry the options select is the
plan of the builder the options name -/
theorem ojFindex_cases (o : Opts) (d : Dev) (om0 : Bool) (tf : Nat) (fs : List (FieldHdr × GoType)) :
    ojPlanForMask d o.keyExact om0 tf fs (ojFindex o) =
      if o.useTags then ojTagFields d.leak d.tagExact o.keyExact o.nestEmbed tf fs om0
      else plainFields o.keyExact o.nestEmbed om0 tf fs := by
  obtain ⟨ut, ke, ne, _, _, _, ind, _, _, _⟩ := o
  obtain ⟨h1, h2, h3, h4, _⟩ := ojMasks
  cases ut <;> cases ke <;> cases ne <;> cases ind <;>
    simp [ojPlanForMask, ojFindex, h1, h2, h3, h4]

/-- `getFields` + `buildStruct`/`buildFields` (alt) -/
theorem altFindex_cases (o : Opts) (d : Dev) (om0 : Bool) (tf : Nat) (fs : List (FieldHdr × GoType)) :
    altPlanForMask d o.keyExact om0 tf fs (altFindex o) =
      if o.useTags then altTagFields d.tagExact o.keyExact o.nestEmbed tf fs
      else plainFields o.keyExact o.nestEmbed om0 tf fs := by
  obtain ⟨ut, ke, ne, _, _, _, ind, _, _, _⟩ := o
  obtain ⟨h1, h2, h3, _⟩ := altMasks
  cases ut <;> cases ke <;> cases ne <;> cases ind <;>
    simp [altPlanForMask, altFindex, h1, h2, h3]

def qFixed : Quirks := ⟨false, false, false, false, false, false⟩

/-- every entry of a plan has a non-empty index path -/
def IdxOK (l : List Finfo) : Prop := ∀ fi ∈ l, fi.index ≠ []

theorem idxOK_under (i : Nat) (l : List Finfo) : IdxOK (l.map (Finfo.under i)) := by
  intro fi hfi
  simp only [List.mem_map] at hfi
  obtain ⟨g, _, rfl⟩ := hfi
  simp [Finfo.under]

theorem idxOK_append {a b : List Finfo} (ha : IdxOK a) (hb : IdxOK b) : IdxOK (a ++ b) := by
  intro fi hfi
  rcases List.mem_append.mp hfi with h | h
  · exact ha fi h
  · exact hb fi h

theorem altTagPass_idxOK (te ke nest : Bool) (sub : List (FieldHdr × GoType) → List Finfo) :
    ∀ (fs : List (FieldHdr × GoType)) (i : Nat), IdxOK (altTagPass te ke nest sub fs i) := by
  intro fs
  induction fs with
  | nil => intro i fi hfi; simp [altTagPass] at hfi
  | cons hd rest ih =>
    intro i
    obtain ⟨h, t⟩ := hd
    simp only [altTagPass]
    split
    · exact ih _
    · split
      · exact idxOK_append (ih _) (idxOK_under _ _)
      · split
        · exact idxOK_append (ih _) (by intro fi hfi; simp at hfi; subst hfi; simp)
        · split
          · exact ih _
          · exact idxOK_append (ih _) (by intro fi hfi; simp at hfi; subst hfi; simp)

theorem plainPass_idxOK (ex nest : Bool) (sub : List (FieldHdr × GoType) → List Finfo) (om0 : Bool) :
    ∀ (fs : List (FieldHdr × GoType)) (i : Nat), IdxOK (plainPass ex nest sub om0 fs i) := by
  intro fs
  induction fs with
  | nil => intro i fi hfi; simp [plainPass] at hfi
  | cons hd rest ih =>
    intro i
    obtain ⟨h, t⟩ := hd
    simp only [plainPass]
    split
    · exact ih _
    · split
      · exact idxOK_append (ih _) (idxOK_under _ _)
      · exact idxOK_append (ih _) (by intro fi hfi; simp at hfi; subst hfi; simp)

/-- a non-struct value has no fields -/
theorem fieldByIndex_nonstruct (y : GoVal) (hy : ∀ vs, y ≠ .struct vs) (idx : List Nat) (hi : idx ≠ []) :
    fieldByIndex y idx = none := by
  cases idx with
  | nil => exact absurd rfl hi
  | cons j r =>
    cases y <;> first | rfl | exact absurd rfl (hy _)


theorem filterMap_congr' {α β : Type} {f g : α → Option β} :
    ∀ {l : List α}, (∀ x ∈ l, f x = g x) → l.filterMap f = l.filterMap g := by
  intro l
  induction l with
  | nil => intro _; rfl
  | cons a r ih =>
    intro h
    simp only [List.filterMap_cons, h a (List.mem_cons_self), ih (fun x hx => h x (List.mem_cons_of_mem _ hx))]

theorem fieldMember_none_of_lookup (enc : Bool → GoType → GoVal → JV) (sv : GoVal) (fi : Finfo)
    (h : fieldByIndex sv fi.index = none) : fieldMember qFixed enc sv fi = none := by
  simp [fieldMember, h, qFixed]

theorem fieldMember_congr_lookup (enc : Bool → GoType → GoVal → JV) (sv sv' : GoVal) (fi fi' : Finfo)
    (hk : fi.key = fi'.key) (ht : fi.ty = fi'.ty) (ho : fi.omitE = fi'.omitE) (hs : fi.asStr = fi'.asStr)
    (h : fieldByIndex sv fi.index = fieldByIndex sv' fi'.index) :
    fieldMember qFixed enc sv fi = fieldMember qFixed enc sv' fi' := by
  simp only [fieldMember, h, hk, ht, ho, hs]

/-- what the entries of a flattened embedded field (index `i`) give on a struct value -/
theorem members_under (enc : Bool → GoType → GoVal → JV) (vs : List GoVal) (i : Nat) (l : List Finfo) (hl : IdxOK l) :
    (l.map (Finfo.under i)).filterMap (fieldMember qFixed enc (.struct vs)) =
      match vs[i]? with
      | some (.struct vs') => l.filterMap (fieldMember qFixed enc (.struct vs'))
      | some (.ptr (.struct vs')) => l.filterMap (fieldMember qFixed enc (.struct vs'))
      | _ => [] := by
  rw [List.filterMap_map]
  have none_case : ∀ (hnone : ∀ fi ∈ l, fieldByIndex (.struct vs) (i :: fi.index) = none),
      List.filterMap (fieldMember qFixed enc (.struct vs) ∘ Finfo.under i) l = [] := by
    intro hnone
    rw [List.filterMap_eq_nil_iff]
    intro fi hfi
    exact fieldMember_none_of_lookup enc _ _ (by simpa [Finfo.under] using hnone fi hfi)
  have some_case : ∀ (vs' : List GoVal)
      (hsome : ∀ fi ∈ l, fieldByIndex (.struct vs) (i :: fi.index) = fieldByIndex (.struct vs') fi.index),
      List.filterMap (fieldMember qFixed enc (.struct vs) ∘ Finfo.under i) l =
        l.filterMap (fieldMember qFixed enc (.struct vs')) := by
    intro vs' hsome
    apply filterMap_congr'
    intro fi hfi
    exact fieldMember_congr_lookup enc _ _ _ _ rfl rfl rfl rfl (by simpa [Finfo.under] using hsome fi hfi)
  -- the lookup through index i, for a non-empty rest
  have look : ∀ fi ∈ l, fieldByIndex (.struct vs) (i :: fi.index) =
      match vs[i]? with
      | none => none
      | some (.ptr y) => fieldByIndex y fi.index
      | some .nilPtr => none
      | some y => fieldByIndex y fi.index := by
    intro fi hfi
    have hne := hl fi hfi
    cases hidx : fi.index with
    | nil => exact absurd hidx hne
    | cons j r =>
      simp only [fieldByIndex]
      cases vs[i]? with
      | none => rfl
      | some x => cases x <;> rfl
  cases hv : vs[i]? with
  | none =>
    simp only
    exact none_case (fun fi hfi => by rw [look fi hfi, hv])
  | some x =>
    cases x with
    | struct vs' =>
      simp only
      exact some_case vs' (fun fi hfi => by rw [look fi hfi, hv])
    | ptr y =>
      cases y with
      | struct vs' =>
        simp only
        exact some_case vs' (fun fi hfi => by rw [look fi hfi, hv])
      | _ =>
        simp only
        exact none_case (fun fi hfi => by
          rw [look fi hfi, hv]
          exact fieldByIndex_nonstruct _ (by intro vs h; cases h) _ (hl fi hfi))
    | nilPtr =>
      simp only
      exact none_case (fun fi hfi => by rw [look fi hfi, hv])
    | _ =>
      simp only
      exact none_case (fun fi hfi => by
        rw [look fi hfi, hv]
        exact fieldByIndex_nonstruct _ (by intro vs h; cases h) _ (hl fi hfi))


/-- one plain plan entry on a struct value -/
theorem member_single (enc : Bool → GoType → GoVal → JV) (vs : List GoVal) (key : Bytes) (i : Nat) (t : GoType)
    (om asStr : Bool) :
    (fieldMember qFixed enc (.struct vs) ⟨key, [i], t, om, asStr⟩).toList =
      match vs[i]? with
      | none => []
      | some x =>
        if om && isEmptyVal x then []
        else
          match (if asStr then scalarText x else none) with
          | some s => [(key, .str s)]
          | none =>
            match t with
            | .iface => [(key, enc true t x)]
            | _ => [(key, enc false t x)] := by
  simp only [fieldMember, fieldByIndex]
  cases vs[i]? with
  | none => simp [qFixed]
  | some x =>
    simp only
    by_cases hom : (om && isEmptyVal x) = true
    · simp [hom]
    · simp only [hom]
      cases (if asStr = true then scalarText x else none) with
      | some s => simp
      | none => cases t <;> simp

theorem filterMap_snoc {α β : Type} (f : α → Option β) (l : List α) (a : α) :
    (l ++ [a]).filterMap f = l.filterMap f ++ (f a).toList := by
  rw [List.filterMap_append]
  cases h : f a <;> simp [h]

theorem altTagPass_members (o : Opts) (hu : o.useTags = true) (enc : Bool → GoType → GoVal → JV)
    (sub : List (FieldHdr × GoType) → List Finfo)
    (subRef : List (FieldHdr × GoType) → List GoVal → List (Bytes × JV)) (vs : List GoVal)
    (hidx : ∀ fs, IdxOK (sub fs))
    (hsub : ∀ fs' vs', (sub fs').filterMap (fieldMember qFixed enc (.struct vs')) = subRef fs' vs') :
    ∀ (fs : List (FieldHdr × GoType)) (i : Nat),
      (altTagPass false o.keyExact o.nestEmbed sub fs i).filterMap (fieldMember qFixed enc (.struct vs)) =
        refPass o enc subRef vs fs i := by
  intro fs
  induction fs with
  | nil => intro i; simp [altTagPass, refPass]
  | cons hd rest ih =>
    intro i
    obtain ⟨h, t⟩ := hd
    simp only [altTagPass, refPass]
    by_cases hux : unexported h.name = true
    · simp only [hux, if_true]; exact ih _
    · simp only [hux, Bool.false_eq_true, ↓reduceIte]
      by_cases he : (h.embedded && !o.nestEmbed) = true
      · simp only [he, ↓reduceIte]
        rw [List.filterMap_append, ih, members_under enc vs i _ (hidx _)]
        cases vs[i]? with
        | none => simp
        | some x =>
          cases x with
          | ptr y => cases y <;> simp [hsub]
          | _ => simp [hsub]
      · simp only [he, Bool.false_eq_true, ↓reduceIte]
        by_cases ht : h.tag.isEmpty = true
        · simp only [ht, ↓reduceIte, filterMap_snoc, ih, member_single, refField, hu, Bool.true_and, Bool.not_true,
            Bool.false_eq_true, Bool.false_or, Bool.false_and, refKey]
          cases vs[i]? with
          | none => simp
          | some x => cases t <;> simp
        · simp only [ht, refField, hu, Bool.true_and, Bool.not_false, Bool.false_eq_true, ↓reduceIte]
          cases parseTag h.tag with
          | none =>
            simp only [ih]
            cases vs[i]? <;> simp
          | some r =>
            obtain ⟨p, tagOmit, asStr⟩ := r
            simp only [filterMap_snoc, ih, member_single, Bool.false_or, refKey]
            cases vs[i]? with
            | none => simp
            | some x =>
              simp only
              by_cases hc : (tagOmit && isEmptyVal x) = true
              · simp [hc]
              · simp only [hc, Bool.false_eq_true, ↓reduceIte]
                cases hh : (if asStr = true then scalarText x else none) with
                | some s => simp
                | none => cases t <;> simp


theorem plainPass_members (o : Opts) (hu : o.useTags = false) (enc : Bool → GoType → GoVal → JV)
    (sub : List (FieldHdr × GoType) → List Finfo)
    (subRef : List (FieldHdr × GoType) → List GoVal → List (Bytes × JV)) (vs : List GoVal)
    (hidx : ∀ fs, IdxOK (sub fs))
    (hsub : ∀ fs' vs', (sub fs').filterMap (fieldMember qFixed enc (.struct vs')) = subRef fs' vs') :
    ∀ (fs : List (FieldHdr × GoType)) (i : Nat),
      (plainPass o.keyExact o.nestEmbed sub false fs i).filterMap (fieldMember qFixed enc (.struct vs)) =
        refPass o enc subRef vs fs i := by
  intro fs
  induction fs with
  | nil => intro i; simp [plainPass, refPass]
  | cons hd rest ih =>
    intro i
    obtain ⟨h, t⟩ := hd
    simp only [plainPass, refPass]
    by_cases hux : unexported h.name = true
    · simp only [hux, if_true]; exact ih _
    · simp only [hux, Bool.false_eq_true, ↓reduceIte]
      by_cases he : (h.embedded && !o.nestEmbed) = true
      · simp only [he, ↓reduceIte]
        rw [List.filterMap_append, ih, members_under enc vs i _ (hidx _)]
        cases vs[i]? with
        | none => simp
        | some x =>
          cases x with
          | ptr y => cases y <;> simp [hsub]
          | _ => simp [hsub]
      · simp only [he, Bool.false_eq_true, ↓reduceIte, filterMap_snoc, ih, member_single, refField, hu,
          Bool.false_and, refKey]
        cases vs[i]? with
        | none => simp
        | some x => cases t <;> simp

theorem altTagFields_idxOK (te ke nest : Bool) : ∀ (tf : Nat) (fs : List (FieldHdr × GoType)),
    IdxOK (altTagFields te ke nest tf fs) := by
  intro tf
  cases tf with
  | zero => intro fs fi hfi; simp [altTagFields] at hfi
  | succ n => intro fs; exact altTagPass_idxOK _ _ _ _ _ _

theorem plainFields_idxOK (ex nest om0 : Bool) : ∀ (tf : Nat) (fs : List (FieldHdr × GoType)),
    IdxOK (plainFields ex nest om0 tf fs) := by
  intro tf
  cases tf with
  | zero => intro fs fi hfi; simp [plainFields] at hfi
  | succ n => intro fs; exact plainPass_idxOK _ _ _ _ _ _

/-- the plan the options name, with all deviations repaired and `OmitEmpty` off -/
def planFixed (o : Opts) (tf : Nat) (fs : List (FieldHdr × GoType)) : List Finfo :=
  if o.useTags then altTagFields false o.keyExact o.nestEmbed tf fs
  else plainFields o.keyExact o.nestEmbed false tf fs

/-- executing the repaired plan gives the members the documentation prescribes -/
theorem planFixed_members (o : Opts) (enc : Bool → GoType → GoVal → JV) :
    ∀ (tf : Nat) (fs : List (FieldHdr × GoType)) (vs : List GoVal),
      (planFixed o tf fs).filterMap (fieldMember qFixed enc (.struct vs)) = refMembers o enc tf fs vs := by
  intro tf
  induction tf with
  | zero => intro fs vs; cases hu : o.useTags <;> simp [planFixed, hu, altTagFields, plainFields, refMembers]
  | succ n ih =>
    intro fs vs
    cases hu : o.useTags with
    | true =>
      simp only [planFixed, hu, ↓reduceIte, altTagFields, refMembers]
      apply altTagPass_members o hu enc _ _ vs (altTagFields_idxOK _ _ _ n)
      intro fs' vs'
      have := ih fs' vs'
      simpa [planFixed, hu] using this
    | false =>
      simp only [planFixed, hu, Bool.false_eq_true, ↓reduceIte, plainFields, refMembers]
      apply plainPass_members o hu enc _ _ vs (plainFields_idxOK _ _ _ n)
      intro fs' vs'
      have := ih fs' vs'
      simpa [planFixed, hu] using this


theorem qFixed_fields : qFixed.bytesNum = false ∧ qFixed.elemNilPanic = false ∧ qFixed.mapNilNull = false ∧
    qFixed.embNilPanic = false := ⟨rfl, rfl, rfl, rfl⟩

theorem childOE_qFixed (fi : Finfo) : childOE qFixed fi = false := by simp [childOE, qFixed]

/-- the walker with every deviation repaired, executing a plan that is the repaired one, is the
reference (no plan is ever handed down with `omitEmpty`: `oe` stays false) -/
theorem encVal_fixed_eq_ref (o : Opts) (tf : Nat) (plan : Bool → List (FieldHdr × GoType) → List Finfo)
    (hp : ∀ fs, plan false fs = planFixed o tf fs) :
    ∀ (vf : Nat) (vi ie : Bool) (t : GoType) (v : GoVal),
      encVal qFixed o plan vf vi ie false t v = refVal o tf vf vi t v := by
  intro vf
  induction vf with
  | zero => intro vi ie t v; rfl
  | succ n ih =>
    intro vi ie t v
    have ihf : ∀ (a b : Bool) (e : GoType), encVal qFixed o plan n a b false e = refVal o tf n a e := by
      intro a b e; funext x; exact ih a b e x
    cases t <;> cases v <;> simp only [encVal, refVal, qFixed_fields.1, qFixed_fields.2.1, qFixed_fields.2.2.1,
      childOE_qFixed, Bool.false_and, Bool.and_false, Bool.false_eq_true, ↓reduceIte, ih, ihf]
    case struct.struct name pkg fs vs =>
      have := planFixed_members o (fun vi ft fv => refVal o tf n vi ft fv) tf fs vs
      rw [hp, this]

/-- with every deviation repaired (and `OmitEmpty` off) the three packages execute the same plan -/
theorem planOf_fixed (e : Enc) (o : Opts) (ho : o.omitEmpty = false) (tf : Nat) (fs : List (FieldHdr × GoType)) :
    planOf e Dev.fixed o tf false fs = planFixed o tf fs := by
  cases e <;> simp only [planOf, ojFindex_cases, altFindex_cases, planFixed, Dev.fixed, ho, Bool.or_false,
    ojTagFields_fixed]

theorem quirksOf_fixed (e : Enc) (o : Opts) : quirksOf e Dev.fixed o = qFixed := by
  cases e <;> simp [quirksOf, Dev.fixed, qFixed]

/-! ### runs of the unchanged code that meet no trigger -/

/-- without `omitempty` tags the leaking variable never changes: the oj tag pass is alt's -/
theorem ojTagPass_noOmit (te ke nest : Bool) (sub : List (FieldHdr × GoType) → Bool → List Finfo)
    (sub' : List (FieldHdr × GoType) → List Finfo) :
    ∀ (fs : List (FieldHdr × GoType)),
      (∀ ht ∈ fs, tagHasOmit ht.1.tag = false) →
      (∀ ht ∈ fs, ht.1.embedded = true → sub (embFields ht.2) false = sub' (embFields ht.2)) →
      ∀ (i : Nat), ojTagPass true te ke nest sub false fs i = (altTagPass te ke nest sub' fs i, false) := by
  intro fs
  induction fs with
  | nil => intro _ _ i; simp [ojTagPass, altTagPass]
  | cons hd rest ih =>
    intro hno hemb i
    obtain ⟨h, t⟩ := hd
    have ih' := ih (fun x hx => hno x (List.mem_cons_of_mem _ hx)) (fun x hx => hemb x (List.mem_cons_of_mem _ hx)) (i + 1)
    have hno0 : tagHasOmit h.tag = false := hno (h, t) List.mem_cons_self
    simp only [ojTagPass, altTagPass, ih', ↓reduceIte]
    by_cases hu : unexported h.name = true
    · simp [hu]
    · simp only [hu, Bool.false_eq_true, ↓reduceIte]
      by_cases he : (h.embedded && !nest) = true
      · have hemb0 : h.embedded = true := by
          cases hh : h.embedded with
          | true => rfl
          | false => simp [hh] at he
        simp [he, hemb (h, t) List.mem_cons_self hemb0]
      · simp only [he, Bool.false_eq_true, ↓reduceIte]
        by_cases ht : h.tag.isEmpty = true
        · simp [ht]
        · simp only [ht, Bool.false_eq_true, ↓reduceIte]
          simp only [tagHasOmit, ht, Bool.false_eq_true, ↓reduceIte] at hno0
          cases hp : parseTag h.tag with
          | none => rfl
          | some r =>
            obtain ⟨p, tagOmit, asStr⟩ := r
            simp only [hp] at hno0
            simp [hno0]

theorem ojTagFields_noOmit (te ke nest : Bool) :
    ∀ (tf : Nat) (fs : List (FieldHdr × GoType)), noOmitTag tf fs = true →
      ojTagFields true te ke nest tf fs false = altTagFields te ke nest tf fs := by
  intro tf
  induction tf with
  | zero => intro fs _; rfl
  | succ n ih =>
    intro fs hno
    simp only [noOmitTag, List.all_eq_true, Bool.and_eq_true, Bool.not_eq_true', Bool.or_eq_true] at hno
    simp only [ojTagFields, altTagFields]
    rw [ojTagPass_noOmit te ke nest _ (altTagFields te ke nest n) fs (fun ht hht => (hno ht hht).1)
      (fun ht hht hemb => ih _ (by
        rcases (hno ht hht).2 with h | h
        · rw [hemb] at h; cases h
        · exact h))]

/-- with `KeyExact` the default key of the tag builder is the exact name whatever `tagExact` is -/
theorem altTagPass_exact (nest : Bool) (sub sub' : List (FieldHdr × GoType) → List Finfo) (hs : ∀ fs, sub fs = sub' fs) :
    ∀ (fs : List (FieldHdr × GoType)) (i : Nat), altTagPass true true nest sub fs i = altTagPass false true nest sub' fs i := by
  intro fs
  induction fs with
  | nil => intro i; rfl
  | cons hd rest ih =>
    intro i
    obtain ⟨h, t⟩ := hd
    simp only [altTagPass, ih, hs, Bool.or_true]

theorem altTagFields_exact (nest : Bool) : ∀ (tf : Nat) (fs : List (FieldHdr × GoType)),
    altTagFields true true nest tf fs = altTagFields false true nest tf fs := by
  intro tf
  induction tf with
  | zero => intro fs; rfl
  | succ n ih => intro fs; simp only [altTagFields]; exact altTagPass_exact nest _ _ ih fs 0

/-- the plan the unchanged code executes is the repaired plan when neither plan-level trigger is met -/
theorem planOf_untriggered (e : Enc) (d : Dev) (o : Opts) (ho : o.omitEmpty = false) (tf : Nat)
    (fs : List (FieldHdr × GoType))
    (h1 : (!d.leak || !o.useTags || e == .alt || noOmitTag tf fs) = true)
    (h2 : (!d.tagExact || !o.useTags || o.keyExact) = true) :
    planOf e d o tf false fs = planFixed o tf fs := by
  cases hu : o.useTags with
  | false => cases e <;> simp [planOf, ojFindex_cases, altFindex_cases, planFixed, hu, ho]
  | true =>
    simp only [hu, Bool.not_true, Bool.or_false] at h1 h2
    -- step B: tagExact is invisible
    have hB : altTagFields d.tagExact o.keyExact o.nestEmbed tf fs = altTagFields false o.keyExact o.nestEmbed tf fs := by
      cases hte : d.tagExact with
      | false => rfl
      | true =>
        simp only [hte, Bool.not_true, Bool.false_or] at h2
        rw [h2]; exact altTagFields_exact _ _ _
    cases e with
    | alt => simp only [planOf, altFindex_cases, planFixed, hu, ↓reduceIte, hB]
    | oj =>
      simp only [planOf, ojFindex_cases, planFixed, hu, ↓reduceIte, ho, Bool.or_false]
      cases hl : d.leak with
      | false => rw [ojTagFields_fixed, hB]
      | true =>
        simp only [hl, Bool.not_true, Bool.false_or] at h1
        have : noOmitTag tf fs = true := by simpa using h1
        rw [ojTagFields_noOmit _ _ _ _ _ this, hB]
    | sen =>
      simp only [planOf, ojFindex_cases, planFixed, hu, ↓reduceIte, ho, Bool.or_false]
      cases hl : d.leak with
      | false => rw [ojTagFields_fixed, hB]
      | true =>
        simp only [hl, Bool.not_true, Bool.false_or] at h1
        have : noOmitTag tf fs = true := by simpa using h1
        rw [ojTagFields_noOmit _ _ _ _ _ this, hB]


theorem map_congr_all {α β : Type} {f g : α → β} {p : α → Bool} :
    ∀ {l : List α}, l.all p = true → (∀ x, p x = true → f x = g x) → l.map f = l.map g := by
  intro l
  induction l with
  | nil => intro _ _; rfl
  | cons a r ih =>
    intro hall h
    simp only [List.all_cons, Bool.and_eq_true] at hall
    simp only [List.map_cons, h a hall.1, ih hall.2 h]

/-- a run of the unchanged code that meets no trigger is the run of the repaired code -/
theorem encVal_untriggered (e : Enc) (d : Dev) (o : Opts) (ho : o.omitEmpty = false) (tf : Nat) :
    ∀ (vf : Nat) (vi ie : Bool) (t : GoType) (v : GoVal),
      untriggered e d o tf (planFixed o tf) vf vi ie t v = true →
      encVal (quirksOf e d o) o (planOf e d o tf) vf vi ie false t v =
        encVal qFixed o (fun _ => planFixed o tf) vf vi ie false t v := by
  intro vf
  induction vf with
  | zero => intro vi ie t v _; rfl
  | succ n ih =>
    intro vi ie t v hU
    cases t <;> cases v <;>
      simp only [untriggered, Bool.not_eq_true', Bool.and_eq_true, Bool.or_eq_true, List.all_eq_true] at hU <;>
      simp only [encVal, qFixed_fields.1, qFixed_fields.2.1, qFixed_fields.2.2.1, childOE_qFixed, Bool.false_and,
        Bool.and_false, Bool.false_eq_true, ↓reduceIte]
    case bytes.nilBytes => simp [hU]
    case bytes.bytes => simp [hU]
    case iface.iface => exact ih _ _ _ _ hU
    case ptr.nilPtr => simp [hU]
    case ptr.ptr => exact ih _ _ _ _ hU
    case slice.slice e xs =>
      congr 1
      apply List.map_congr_left
      intro x hx
      exact ih _ _ _ _ (hU x hx)
    case array.arr k e xs =>
      congr 1
      apply List.map_congr_left
      intro x hx
      exact ih _ _ _ _ (hU x hx)
    case map.map e kvs =>
      congr 1
      apply List.map_congr_left
      intro kv hkv
      have := hU kv hkv
      simp only [this.1, Bool.false_eq_true, ↓reduceIte, ih _ _ _ _ this.2]
    case struct.struct name pkg fs vs =>
      obtain ⟨⟨h1, h2⟩, h3⟩ := hU
      have hp : planOf e d o tf false fs = planFixed o tf fs :=
        planOf_untriggered e d o ho tf fs
          (by rcases h1 with ((h | h) | h) | h <;> simp [h])
          (by rcases h2 with (h | h) | h <;> simp [h])
      rw [hp]
      congr 2
      apply filterMap_congr'
      intro fi hfi
      obtain ⟨hoe, h3'⟩ := h3 fi hfi
      simp only [fieldMember, hoe]
      cases hl : fieldByIndex (.struct vs) fi.index with
      | none =>
        simp only [hl, Bool.not_eq_true'] at h3'
        simp [h3', qFixed]
      | some x =>
        simp only [hl] at h3'
        simp only
        split
        · rfl
        · split
          · rfl
          · cases hty : fi.ty <;> simp only [hty, isIface] at h3' ⊢ <;> rw [ih _ _ _ _ h3']

/-! ### comparing trees in witnesses (`JV` has no `DecidableEq`) -/

mutual
  def jvBeq : JV → JV → Bool
    | .null, .null => true
    | .bool a, .bool b => a == b
    | .int a, .int b => a == b
    | .flt a, .flt b => a == b
    | .big a, .big b => a == b
    | .num a, .num b => a == b
    | .str a, .str b => a == b
    | .arr xs, .arr ys => jvBeqList xs ys
    | .obj xs, .obj ys => jvBeqKvs xs ys
    | _, _ => false
  def jvBeqList : List JV → List JV → Bool
    | [], [] => true
    | x :: r, y :: s => jvBeq x y && jvBeqList r s
    | _, _ => false
  def jvBeqKvs : List (Bytes × JV) → List (Bytes × JV) → Bool
    | [], [] => true
    | (k, x) :: r, (l, y) :: s => k == l && jvBeq x y && jvBeqKvs r s
    | _, _ => false
end

/-- two trees that one concrete tree tells apart are different -/
theorem ne_of_jvBeq {a b lit : JV} (ha : jvBeq a lit = false) (hb : jvBeq b lit = true) : a ≠ b := by
  intro h; rw [h, hb] at ha; cases ha

end OjgVerif.Reflect
