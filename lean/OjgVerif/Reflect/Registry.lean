import OjgVerif.Reflect.Model
/-! # The recomposer registry and `recomp` (C16): model of `alt/recomposer.go`, `alt/composer.go`

`Recomposer.composers` is a map from a NAME to a composer; `registerComposer` enters a struct type
under two keys, its bare name `rt.Name()` and `rt.PkgPath() + "/" + rt.Name()`, and then walks the
fields to register their types; `recomp` looks the composer of a struct up by the BARE name
(`r.composers[rv.Type().Name()]`) and, when there is none, registers the type on the spot. The
composer holds the field index `indexType(rt)`; with somebody else's composer the fields are
addressed with somebody else's index paths.

The model follows that literally: `Registry` is an association list keyed by name, `registerT` is
`registerComposer(rt, nil)`, `indexType` is `indexType`, `recomp` threads the registry through the
recursion. A panic (`Recompose` recovers it into an error) is `Slot.panic`; the registry keeps what was
entered before the panic. Reflect's conversions are modelled for the data Decompose and the parser
produce; conversions Go performs in odd ways (a number into a string field …) answer `outside`
(`Slot.outside`), they only arise when a foreign index is applied.

The flag `bareName` carries the deviation from C16 that /repo 6d5fecb repaired (and, with it, the depth of the field walk, /repo a720b7c): `false` is the code as
it is NOW, `true` the code before that commit. Now a composer found under a name — the bare name in
`recomp`, the full name in `registerComposer` — is used only when it was made for this very type
(`c.rtype == rv.Type()`, here `typeBeq`); otherwise the type is registered, which replaces
the foreign entry. `recBody`/`recompG` take the composer lookup as a parameter, so that the same
traversal runs with the real registry (`composerFor`) and with an ideal one (`composerPure`: every
struct type is decoded with its own field index) — the theorems of `Props/C16.lean` compare the two.

The handling of VALUES is today's code under both settings of the flag (the flag only selects the
lookup and the walk): a `null` element of pointer type stays a nil pointer (/repo 4344ad7) and one of
interface type a nil interface, also in maps (f1da31f); `indexType` descends into an embedded
pointer-to-struct like into an embedded struct and `setValue` allocates the embedded pointer on the
way to a promoted field (b19f06c), so no struct type makes registration panic any more
(`goodT_true` in `RegLemmas.lean`). `Gen.Reflect.altNilPtrElemKept`, `altNilIfaceKept`,
`altEmbeddedPtrIndexed` tie that to the source. -/
namespace OjgVerif.Reflect
open OjgVerif

/-- `reflect.StructField` as far as `recomp` uses it -/
structure IdxEntry where
  name : Bytes
  index : List Nat
  tag : Bytes
  deriving DecidableEq, Repr, Inhabited

structure Composer where
  short : Bytes
  full : Bytes
  rtype : GoType
  indexes : List (Bytes × IdxEntry)
  deriving Repr, Inhabited

abbrev Registry := List (Bytes × Composer)

def Registry.find (r : Registry) (k : Bytes) : Option Composer :=
  match r with
  | [] => none
  | (k', c) :: rest => if k' = k then some c else Registry.find rest k

def Registry.set (r : Registry) (k : Bytes) (c : Composer) : Registry := kvInsert k c r

/-! ## indexType -/

def asciiLowerAll (s : Bytes) : Bytes := s.map asciiLower

/-- the key under which `indexType` files a tagged field; `none`: the field is left out (`"-"`) -/
def indexKey (name tag : Bytes) : Option Bytes :=
  match splitComma tag with
  | [] => some (asciiLowerAll name)
  | p :: opts =>
    if p.isEmpty then some (asciiLowerAll name)          -- `case "": k = strings.ToLower(f.Name)`
    else if p = sDash then (if opts.isEmpty then none else some sDash)
    else some p

/-- an embedded field's entries, filed under the outer struct with the index path prefixed (a later
assignment to the same key wins) -/
def prefixInto (i : Nat) (fim later : List (Bytes × IdxEntry)) : List (Bytes × IdxEntry) :=
  fim.foldl (fun im kf => kvInsert kf.1 { kf.2 with index := i :: kf.2.index } im) later

/-- a field that is not flattened: filed under its tag name or its name; `"-"` leaves it out -/
def plainEntry (h : FieldHdr) (i : Nat) (later : List (Bytes × IdxEntry)) : List (Bytes × IdxEntry) :=
  if !h.tag.isEmpty then
    match indexKey h.name h.tag with
    | none => later
    | some k => kvInsert k ⟨h.name, [i], h.tag⟩ later
  else kvInsert h.name ⟨h.name, [i], h.tag⟩ later

mutual
  def indexStruct : GoType → Option (List (Bytes × IdxEntry))
    | .struct _ _ fs => some (indexFields fs 0)
    | _ => none
  /-- the fields an embedded field contributes: since /repo b19f06c `indexType` looks through an embedded
  POINTER (`et := f.Type; if et.Kind() == reflect.Ptr { et = et.Elem() }`) and flattens only when
  `et` is a struct; `none`: the field is indexed like a named one -/
  def indexEmb : GoType → Option (List (Bytes × IdxEntry))
    | .struct _ _ fs => some (indexFields fs 0)
    | .ptr e => indexStruct e
    | _ => none
  /-- the loop of `indexType` (from the last field to the first; a later assignment to the same key
  wins) -/
  def indexFields : List (FieldHdr × GoType) → Nat → List (Bytes × IdxEntry)
    | [], _ => []
    | (h, t) :: rest, i =>
      if unexported h.name then indexFields rest (i + 1)                -- `0 < len(f.PkgPath)`
      else
        match (if h.embedded then indexEmb t else none) with
        | some fim => prefixInto i fim (indexFields rest (i + 1))
        | none => plainEntry h i (indexFields rest (i + 1))
end

/-- `indexType(rt)` for a struct type (the fuel argument is kept for the callers; the definition is
by structural recursion and total since b19f06c: no embedded field makes it panic any more) -/
def indexType (_ : Nat) : GoType → Option (List (Bytes × IdxEntry))
  | .struct _ _ fs => some (indexFields fs 0)
  | _ => none

/-! ## registerComposer -/

def derefT : GoType → GoType
  | .ptr e => e
  | t => t

/-- `ft = ft.Elem()` for array, slice, map and pointer kinds (one level) -/
def elem1 : GoType → GoType
  | .slice e => e
  | .array _ e => e
  | .map e => e
  | .ptr e => e
  | .bytes => .int 6
  | t => t

def intKindName (k : Nat) : Bytes :=
  ((["int", "int8", "int16", "int32", "int64", "uint", "uint8", "uint16", "uint32", "uint64"].getD k "int").toUTF8).toList

/-- `reflect.Type.Name()`: empty for unnamed types (slices, pointers, `interface{}`, struct literals) -/
def nameOf : GoType → Bytes
  | .struct n _ _ => n
  | .bool => "bool".toUTF8.toList
  | .int k => intKindName k
  | .float true => "float32".toUTF8.toList
  | .float false => "float64".toUTF8.toList
  | .str => "string".toUTF8.toList
  | _ => []

def fullName (name pkg : Bytes) : Bytes := pkg ++ [47] ++ name

/-- private fields are skipped: `len(f.Name) == 0 || ([]byte(f.Name)[0]&0x20) != 0` -/
def regSkip (name : Bytes) : Bool :=
  match name with
  | [] => true
  | c :: _ => c &&& 32 != 0

def fuelI : Nat := 64

/-! `GoType` has no derived `DecidableEq` (nested inductive): structural equality test for the
repaired lookup (`c.rtype == rv.Type()`) -/
mutual
  def typeBeq : GoType → GoType → Bool
    | .bool, .bool => true
    | .int a, .int b => a == b
    | .float a, .float b => a == b
    | .str, .str => true
    | .bytes, .bytes => true
    | .iface, .iface => true
    | .slice a, .slice b => typeBeq a b
    | .array n a, .array m b => n == m && typeBeq a b
    | .map a, .map b => typeBeq a b
    | .ptr a, .ptr b => typeBeq a b
    | .struct n p fs, .struct m q gs => n == m && p == q && fieldsBeq fs gs
    | _, _ => false
  def fieldsBeq : List (FieldHdr × GoType) → List (FieldHdr × GoType) → Bool
    | [], [] => true
    | (h, t) :: r, (g, u) :: s => h == g && typeBeq t u && fieldsBeq r s
    | _, _ => false
end

/-- the composer filed under `k`, if it is accepted: always (`accept`, the code as it is), or only
when it was made for the type `T` itself (the repair) -/
def acceptedUnder (accept : Bool) (r : Registry) (k : Bytes) (T : GoType) : Option Composer :=
  match r.find k with
  | some c => if accept || typeBeq c.rtype T then some c else none
  | none => none

/-- the result of `registerComposer`: the registry, the composer it returns, "panicked" -/
structure RegOut where
  reg : Registry
  comp : Option Composer
  panicked : Bool
  deriving Inhabited

/-- since /repo a720b7c the walk follows containers of containers (`[][]T`, `map[string][]T`, `*[2]T`)
down to the element type -/
def elemAll : GoType → GoType
  | .slice e => elemAll e
  | .array _ e => elemAll e
  | .map e => elemAll e
  | .ptr e => elemAll e
  | .bytes => .int 6
  | t => t

/-- the type the field walk looks at: `deep` = the code as it is now (a720b7c), else one level -/
def walkElem (deep : Bool) (t : GoType) : GoType := if deep then elemAll t else elem1 t

/-- the field walk of `registerComposer` -/
def regFields (deep : Bool) (reg1 : Registry → GoType → RegOut) : Registry → List (FieldHdr × GoType) → Registry × Bool
  | r, [] => (r, false)
  | r, (h, t) :: rest =>
    if regSkip h.name then regFields deep reg1 r rest
    else if (r.find (nameOf (walkElem deep t))).isSome then regFields deep reg1 r rest
    else
      match reg1 r (walkElem deep t) with
      | ⟨r', _, true⟩ => (r', true)
      | ⟨r', _, false⟩ => regFields deep reg1 r' rest

/-- `registerComposer(rt, nil)`; errors ("only structs can be recomposed") change nothing.
`guard` is the code as it is now: a composer found under the full name is only reused when it was
made for this very type (struct literals all have the full name "/"; /repo 6d5fecb), and the field
walk unwraps containers completely (/repo a720b7c); `guard = false` is the code before both
(the trees between the two commits are not modelled). `walk` registers the type of a field
(the recursive call; `none`: out of fuel, the walk is skipped). -/
def registerCore (guard : Bool) (walk : Option (Registry → GoType → RegOut)) (r : Registry) (t : GoType) : RegOut :=
  match derefT t with
  | .struct name pkg fs =>
    match acceptedUnder (!guard) r (fullName name pkg) (.struct name pkg fs) with
    | some c => ⟨r, some c, false⟩                        -- already registered: no walk
    | none =>
      match indexType fuelI (.struct name pkg fs) with
      | none => ⟨r, none, true⟩                           -- indexType panics before anything is entered
      | some im =>
        match walk with
        | none =>
          ⟨(r.set name ⟨name, fullName name pkg, .struct name pkg fs, im⟩).set (fullName name pkg)
              ⟨name, fullName name pkg, .struct name pkg fs, im⟩,
            some ⟨name, fullName name pkg, .struct name pkg fs, im⟩, false⟩
        | some w =>
          match regFields guard w
              ((r.set name ⟨name, fullName name pkg, .struct name pkg fs, im⟩).set (fullName name pkg)
                ⟨name, fullName name pkg, .struct name pkg fs, im⟩)
              fs.reverse with
          | (r', p) => ⟨r', some ⟨name, fullName name pkg, .struct name pkg fs, im⟩, p⟩
  | _ => ⟨r, none, false⟩

def registerT (guard : Bool) : Nat → Registry → GoType → RegOut
  | 0 => registerCore guard none
  | f + 1 => registerCore guard (some (registerT guard f))

/-! ## values -/

def zeroVal : Nat → GoType → GoVal
  | 0, _ => .nilPtr
  | f + 1, t =>
    match t with
    | .bool => .bool false
    | .int _ => .int 0
    | .float _ => .flt [48]
    | .str => .str []
    | .bytes => .nilBytes
    | .iface => .nilIface
    | .slice _ => .nilSlice
    | .array n e => .arr (List.replicate n (zeroVal f e))
    | .map _ => .nilMap
    | .ptr _ => .nilPtr
    | .struct _ _ fs => .struct (fs.map fun ht => zeroVal f ht.2)

def fuelZ : Nat := 64

/-- the type of the field an index path leads to; `none`: `FieldByIndex` panics -/
def typeAt : GoType → List Nat → Option GoType
  | t, [] => some t
  | .struct _ _ fs, i :: rest =>
    match fs[i]? with
    | none => none
    | some ht =>
      match rest with
      | [] => some ht.2
      | _ :: _ =>
        match ht.2 with
        | .ptr t' => typeAt t' rest                        -- `fieldByIndexAlloc` allocates a nil embedded pointer
        | t' => typeAt t' rest
  | _, _ :: _ => none

/-- some field on the index path is unexported: reflect refuses to `Set` through it -/
def readOnlyAt : GoType → List Nat → Bool
  | _, [] => false
  | .struct _ _ fs, i :: rest =>
    match fs[i]? with
    | none => false
    | some ht => unexported ht.1.name || readOnlyAt ht.2 rest
  | _, _ :: _ => false

def listSet (l : List GoVal) (i : Nat) (x : GoVal) : List GoVal :=
  match l, i with
  | [], _ => []
  | _ :: r, 0 => x :: r
  | a :: r, i + 1 => a :: listSet r i x

/-- `fieldByIndexAlloc(rv, index).Set(x)` on a struct value of type `t`: a nil embedded pointer on
the way is allocated (`zero pt` is the zero value of its target) -/
def setAt (zero : GoType → GoVal) : GoType → GoVal → List Nat → GoVal → GoVal
  | _, _, [], x => x
  | .struct _ _ fs, .struct vs, i :: rest, x =>
    match fs[i]?, vs[i]? with
    | some ht, some old =>
      match rest with
      | [] => .struct (listSet vs i x)
      | _ :: _ =>
        match ht.2, old with
        | .ptr pt, .ptr y => .struct (listSet vs i (.ptr (setAt zero pt y rest x)))
        | .ptr pt, _ => .struct (listSet vs i (.ptr (setAt zero pt (zero pt) rest x)))
        | ft, y => .struct (listSet vs i (setAt zero ft y rest x))
    | _, _ => .struct vs
  | _, v, _ :: _, _ => v

/-- what a slot receives: a value, a panic, or a conversion outside the model -/
inductive Slot where
  | ok (v : GoVal)
  | panic
  | outside
  deriving Repr, Inhabited

def intBits (k : Nat) : Nat := [64, 8, 16, 32, 64, 64, 8, 16, 32, 64].getD k 64

/-- `reflect.Value.Convert` between integer kinds: the low bits -/
def wrapInt (k : Nat) (i : Int) : Int :=
  let m : Int := (2 : Int) ^ intBits k
  if k < 5 then ((i + m / 2) % m + m) % m - m / 2 else (i % m + m) % m

/-- text `strconv` gives an integral float below 10^6 in magnitude ('g', shortest) -/
def intAsFloatText (i : Int) : Option Bytes :=
  if -1000000 < i ∧ i < 1000000 then some (intText i) else none

def isDigit (c : UInt8) : Bool := 48 ≤ c && c ≤ 57

def natOfDigits : Bytes → Nat → Option Nat
  | [], acc => some acc
  | c :: r, acc => if isDigit c then natOfDigits r (acc * 10 + (c.toNat - 48)) else none

/-- `strconv.Atoi` on the canonical texts Decompose writes -/
def atoi (s : Bytes) : Option Int :=
  match s with
  | [] => none
  | c :: r =>
    if c = 45 then (if r.isEmpty then none else (natOfDigits r 0).map fun n => -(n : Int))
    else (natOfDigits s 0).map fun n => (n : Int)

def tagHasString (tag : Bytes) : Bool :=
  -- `strings.Contains(sf.Tag.Get("json"), ",string")`
  let pat : Bytes := [44, 115, 116, 114, 105, 110, 103]
  (List.range (tag.length + 1)).any fun i => (tag.drop i).take pat.length == pat

/-- `strconv.ParseFloat` of a `,string` datum followed by the 'g' text of the result: a text with a
point or an exponent is taken to be a 'g' text already (the fragment: floats whose 32- and 64-bit
shortest texts coincide) and kept; a plain integer text of at most 6 digits is kept as well
(`"123"` → 123 → `"123"`), a longer one would come back in exponent form or rounded to float32
(`outside`; only a foreign index puts an integer `,string` datum into a float field); anything else
does not parse (panic). -/
def floatFromString (s : Bytes) : Slot :=
  let body := match s with | 45 :: r => r | _ => s
  if !body.isEmpty && body.all isDigit then
    (if body.length ≤ 6 && (body.length = 1 || body.head? != some 48) && !(body = [48] && s.head? == some 45)
      then .ok (.flt s) else .outside)
  else if !body.isEmpty && (body.head?.map isDigit == some true) &&
      s.all (fun c => isDigit c || c = 45 || c = 43 || c = 46 || c = 101) then .ok (.flt s)
  else .panic

/-- `setValue` / `recomp` on a scalar slot of type `t` given datum `j`; `sf`: the struct field the
slot is (its tag matters for `,string`), `none` for elements -/
def scalarSlot (t : GoType) (j : JV) (sf : Option IdxEntry) : Slot :=
  let strTag := match sf with | some e => tagHasString e.tag | none => false
  match t, j with
  | .bool, .bool b => .ok (.bool b)
  | .bool, .str s =>
    if strTag then
      (if s = sTrue then .ok (.bool true) else if s = sFalse then .ok (.bool false) else .outside)
    else .panic
  | .bool, _ => .panic
  | .int k, .int i => .ok (.int (wrapInt k i))
  | .int k, .str s =>
    if strTag then (match atoi s with | some i => .ok (.int (wrapInt k i)) | none => .panic) else .panic
  | .int _, .flt _ => .outside
  | .int _, _ => .panic
  | .float _, .flt s => .ok (.flt s)
  | .float _, .int i => (match intAsFloatText i with | some s => .ok (.flt s) | none => .outside)
  | .float _, .str s => if strTag then floatFromString s else .panic
  | .float _, _ => .panic
  | .str, .str s => .ok (.str s)
  | .str, .int _ => .outside                                -- Convert int → string: a rune
  | .str, _ => .panic
  | _, _ => .panic

/-! ## recomp -/

/-- the result of a step: the slot and the registry afterwards -/
structure Step where
  slot : Slot
  reg : Registry
  deriving Inhabited

/-- elements in order, threading the registry; the first panic or `outside` ends the walk -/
def stepList (one : Registry → JV → Step) : Registry → List JV → List GoVal → (Option (List GoVal) × Slot) × Registry
  | r, [], acc => ((some acc.reverse, .ok .nilPtr), r)
  | r, j :: rest, acc =>
    match one r j with
    | ⟨.ok v, r'⟩ => stepList one r' rest (v :: acc)
    | ⟨s, r'⟩ => ((none, s), r')

def stepKvs (one : Registry → JV → Step) :
    Registry → List (Bytes × JV) → List (Bytes × GoVal) → (Option (List (Bytes × GoVal)) × Slot) × Registry
  | r, [], acc => ((some acc.reverse, .ok .nilPtr), r)
  | r, (k, j) :: rest, acc =>
    match one r j with
    | ⟨.ok v, r'⟩ => stepKvs one r' rest ((k, v) :: acc)
    | ⟨s, r'⟩ => ((none, s), r')

def jvLookup (kvs : List (Bytes × JV)) (k : Bytes) : Option JV :=
  match kvs with
  | [] => none
  | (k', v) :: r => if k' = k then some v else jvLookup r k

/-- `name[0] |= 0x20` -/
def lowerFirst (name : Bytes) : Bytes :=
  match name with
  | [] => []
  | c :: r => (c ||| 32) :: r

/-- since /repo 1029e85: a fallback spelling that is the key of ANOTHER index entry is not offered
(`if _, claimed := im[name]; claimed && name != k`): a member filed under another field's key is that
field's -/
def claimedName (im : List (Bytes × IdxEntry)) (k name : Bytes) : Bool :=
  name != k && im.any fun ke => ke.1 == name

def otherLookup (im : List (Bytes × IdxEntry)) (vm : List (Bytes × JV)) (k name : Bytes) : Option JV :=
  if claimedName im k name then none else jvLookup vm name

/-- the datum for a field: `vm[k]`, else — through `other`, which skips a name claimed by another index
entry — `vm[sf.Name]`, else first letter lowered, else all lower; `im` is the whole field index -/
def fieldDatum (im : List (Bytes × IdxEntry)) (vm : List (Bytes × JV)) (k : Bytes) (e : IdxEntry) : Option JV :=
  match jvLookup vm k with
  | some m => some m
  | none =>
    match otherLookup im vm k e.name with
    | some m => some m
    | none =>
      match otherLookup im vm k (lowerFirst e.name) with
      | some m => some m
      | none => otherLookup im vm k (asciiLowerAll (lowerFirst e.name))

/-- the lookups BEFORE /repo 1029e85 (finding `C16-omitted-member-sibling-spelling`, fixed): every spelling
was offered, also one that is a sibling's key -/
def fieldDatumBefore (vm : List (Bytes × JV)) (k : Bytes) (e : IdxEntry) : Option JV :=
  match jvLookup vm k with
  | some m => some m
  | none =>
    match jvLookup vm e.name with
    | some m => some m
    | none =>
      match jvLookup vm (lowerFirst e.name) with
      | some m => some m
      | none => jvLookup vm (asciiLowerAll (lowerFirst e.name))

def isNull : JV → Bool
  | .null => true
  | _ => false

/-- the fields of a struct: for every index entry with a datum that is not nil, `setValue` -/
def stepFields (im : List (Bytes × IdxEntry)) (zero : GoType → GoVal) (setv : Registry → JV → GoType → IdxEntry → Step) (t : GoType)
    (vm : List (Bytes × JV)) : Registry → List (Bytes × IdxEntry) → GoVal → Step
  | r, [], cur => ⟨.ok cur, r⟩
  | r, (k, e) :: rest, cur =>
    -- since b19f06c the field is fetched only when there is a datum to store
    match fieldDatum im vm k e with
    | none => stepFields im zero setv t vm r rest cur
    | some m =>
      if isNull m then stepFields im zero setv t vm r rest cur
      else
        match typeAt t e.index with
        | none => ⟨.panic, r⟩                              -- a foreign index that leads nowhere
        | some ft =>
          if readOnlyAt t e.index then
            -- only a foreign index leads to an unexported field; `Set` panics (a struct slot would only
            -- panic further down: not modelled)
            ⟨(match ft with | .struct _ _ _ => .outside | _ => .panic), r⟩
          else
            match setv r m ft e with
            | ⟨.ok x, r'⟩ => stepFields im zero setv t vm r' rest (setAt zero t cur e.index x)
            | st => st


/-- Which composer `recomp` uses for a struct type: `c := r.composers[rv.Type().Name()]`, and when
there is none `c, _ = r.registerComposer(rv.Type(), nil)`. With the repair (`bareName = false`) a
composer found under the bare name counts only when it was made for this very type. -/
def composerFor (bareName : Bool) (f : Nat) (r : Registry) (name pkg : Bytes) (fs : List (FieldHdr × GoType)) :
    Option Composer × Registry :=
  match acceptedUnder bareName r name (.struct name pkg fs) with
  | some c => (some c, r)
  | none =>
    match registerT (!bareName) f r (.struct name pkg fs) with
    | ⟨r', _, true⟩ => (none, r')
    | ⟨r', c, false⟩ => (c, r')

/-- the recursive call: registry, mode, datum, type of the slot, the struct field the slot is.
`mode` 0 = `recompAny(j)` (the result is what an `interface{}` slot holds; the type is ignored),
1 = `recomp(j, reflect.New(t))` (a nil datum leaves the zero value), 2 = `setValue(j, slot, sf)` /
`recomp(j, rv)` on the slot itself -/
abbrev Rec := Registry → Nat → JV → GoType → Option IdxEntry → Step

abbrev ComposerFor := Registry → Bytes → Bytes → List (FieldHdr × GoType) → Option Composer × Registry

/-- a pointer slot (element of a slice, array or map; `setValue` on a pointer): since /repo 4344ad7 a
nil datum leaves the nil pointer; otherwise `ev := reflect.New(et); r.recomp(x, ev)` and the slot
receives the pointer -/
def ptrStep (rec : Rec) (r : Registry) (x : JV) (pe : GoType) : Step :=
  if isNull x then ⟨.ok .nilPtr, r⟩
  else
    match rec r 1 x pe none with
    | ⟨.ok v, r'⟩ => ⟨.ok (.ptr v), r'⟩
    | st => st

/-- the end of a walk over elements: the slot built from the values, or the first panic -/
def listFinish (mk : List GoVal → GoVal) (res : (Option (List GoVal) × Slot) × Registry) : Step :=
  match res with
  | ((some vs, _), r') => ⟨.ok (mk vs), r'⟩
  | ((none, s), r') => ⟨s, r'⟩

def kvsFinish (mk : List (Bytes × GoVal) → GoVal) (res : (Option (List (Bytes × GoVal)) × Slot) × Registry) : Step :=
  match res with
  | ((some ms, _), r') => ⟨.ok (mk ms), r'⟩
  | ((none, s), r') => ⟨s, r'⟩

/-- the composer a create-key member names: `if cv := tv[r.CreateKey]; cv != nil { tn, _ := cv.(string);
if c := r.composers[tn]; c != nil` (a non-string value gives the name "") -/
def createKeyComposer (ck : Bytes) (r : Registry) (kvs : List (Bytes × JV)) : Option Composer :=
  match jvLookup kvs ck with
  | none => none
  | some .null => none
  | some (.str tn) => r.find tn
  | some _ => r.find []

/-- `recompAny` -/
def recAny (ck : Bytes) (rec : Rec) (r : Registry) (j : JV) : Step :=
  match j with
  | .null => ⟨.ok .nilIface, r⟩
  | .bool b => ⟨.ok (.iface .bool (.bool b)), r⟩
  | .int i => ⟨.ok (.iface (.int 4) (.int i)), r⟩
  | .flt s => ⟨.ok (.iface (.float false) (.flt s)), r⟩
  | .str s => ⟨.ok (.iface .str (.str s)), r⟩
  | .arr xs => listFinish (fun vs => .iface (.slice .iface) (.slice vs)) (stepList (fun r' x => rec r' 0 x .iface none) r xs [])
  | .obj kvs =>
    match createKeyComposer ck r kvs with
    | some c =>
      -- `rv := reflect.New(c.rtype); r.recomp(v, rv); return rv.Interface()`
      match rec r 2 j c.rtype none with
      | ⟨.ok v, r'⟩ => ⟨.ok (.iface (.ptr c.rtype) (.ptr v)), r'⟩
      | st => st
    | none =>
      kvsFinish (fun ms => .iface (.map .iface) (.map ms)) (stepKvs (fun r' x => rec r' 0 x .iface none) r kvs [])
  | _ => ⟨.outside, r⟩

def bytesOf (vs : List GoVal) : GoVal := .bytes (vs.map fun v => match v with | .int i => i.toNat.toUInt8 | _ => 0)

def recBytes (r : Registry) (j : JV) : Step :=
  match j with
  | .arr xs => listFinish bytesOf (stepList (fun r' x => ⟨scalarSlot (.int 6) x none, r'⟩) r xs [])
  | _ => ⟨.panic, r⟩

/-- an element of a slice: pointer elements get `reflect.New(et)` first, the others `setValue` -/
def elemStep (rec : Rec) (e : GoType) (r : Registry) (x : JV) : Step :=
  match e with
  | .ptr pe => ptrStep rec r x pe
  | _ => rec r 2 x e none

def recSlice (rec : Rec) (r : Registry) (e : GoType) (j : JV) : Step :=
  match j with
  | .arr xs => listFinish .slice (stepList (elemStep rec e) r xs [])
  | _ => ⟨.panic, r⟩

def recArray (rec : Rec) (r : Registry) (n : Nat) (e : GoType) (j : JV) : Step :=
  match j with
  | .arr xs =>
    listFinish (fun vs => .arr (vs ++ List.replicate (n - vs.length) (zeroVal fuelZ e)))
      (stepList (fun r' x => rec r' 2 x e none) r (xs.take n) [])
  | _ => ⟨.panic, r⟩

/-- a value of a map: `interface{}` values through `recompAny`, pointer values through
`reflect.New(et)`, the others through `recomp(m, reflect.New(et))` -/
def mapElemStep (rec : Rec) (e : GoType) (r : Registry) (x : JV) : Step :=
  match e with
  | .iface => rec r 0 x .iface none
  | .ptr pe => ptrStep rec r x pe
  | _ => rec r 1 x e none

/-- the map built from the members; since /repo f1da31f a nil `interface{}` value is kept as a member
(`reflect.Zero(et)`), it no longer deletes the key -/
def mapFinish (_ : GoType) (ms : List (Bytes × GoVal)) : GoVal := .map ms

def recMap (rec : Rec) (r : Registry) (e : GoType) (j : JV) : Step :=
  match j with
  | .null => ⟨.ok .nilMap, r⟩
  | .obj kvs => kvsFinish (mapFinish e) (stepKvs (mapElemStep rec e) r kvs [])
  | _ => ⟨.panic, r⟩

def recStruct (cf : ComposerFor) (rec : Rec) (r : Registry) (name pkg : Bytes) (fs : List (FieldHdr × GoType)) (j : JV) : Step :=
  match j with
  | .obj vm =>
    match cf r name pkg fs with
    | (none, r') => ⟨.panic, r'⟩
    | (some c, r') =>
      stepFields c.indexes (zeroVal fuelZ) (fun r'' m ft e => rec r'' 2 m ft (some e)) (.struct name pkg fs) vm r' c.indexes
        (zeroVal fuelZ (.struct name pkg fs))
  | _ => ⟨.panic, r⟩

/-- one level of `recompAny` / `recomp` / `setValue`, the recursive calls being `rec` -/
def recBody (cf : ComposerFor) (ck : Bytes) (rec : Rec) : Rec := fun r mode j t sf =>
  if mode = 0 then recAny ck rec r j
  else if mode = 1 && isNull j then ⟨.ok (zeroVal fuelZ t), r⟩
  else
    match t with
    | .iface =>
      -- `if v = r.recompAny(v); v != nil { rv.Set(reflect.ValueOf(v)) }` (f1da31f): nil stays the nil interface
      if isNull j then ⟨.ok .nilIface, r⟩ else rec r 0 j .iface none
    | .ptr e =>
      -- setValue: `ev := reflect.New(elem); r.recomp(v, ev); rv.Set(ev)`
      ptrStep rec r j e
    | .bytes => recBytes r j
    | .slice e => recSlice rec r e j
    | .array n e => recArray rec r n e j
    | .map e => recMap rec r e j
    | .struct name pkg fs => recStruct cf rec r name pkg fs j
    | _ => ⟨scalarSlot t j sf, r⟩

/-- the whole of it, by fuel; `cf f` is the composer lookup (with `f` fuel for a registration) -/
def recompG (cf : Nat → ComposerFor) (ck : Bytes) : Nat → Rec
  | 0 => fun r _ _ _ _ => ⟨.outside, r⟩
  | f + 1 => recBody (cf f) ck (recompG cf ck f)

def recompV (bareName : Bool) (ck : Bytes) : Nat → Rec := recompG (composerFor bareName) ck

/-! ## predicates on types used by the theorems -/

mutual
  /-- `indexType` succeeds for every struct type inside `t` (no embedded pointer anywhere): no
  registration ever panics -/
  def goodT : GoType → Bool
    | .slice e => goodT e
    | .array _ e => goodT e
    | .map e => goodT e
    | .ptr e => goodT e
    | .struct n p fs => (indexType fuelI (.struct n p fs)).isSome && goodFields fs
    | _ => true
  def goodFields : List (FieldHdr × GoType) → Bool
    | [] => true
    | (_, t) :: r => goodT t && goodFields r
end

mutual
  /-- no `interface{}` slot inside `t`: `recompAny`, which resolves create-key NAMES found in the
  data against whatever is registered, is never reached -/
  def noIface : GoType → Bool
    | .iface => false
    | .slice e => noIface e
    | .array _ e => noIface e
    | .map e => noIface e
    | .ptr e => noIface e
    | .struct _ _ fs => noIfaceFields fs
    | _ => true
  def noIfaceFields : List (FieldHdr × GoType) → Bool
    | [] => true
    | (_, t) :: r => noIface t && noIfaceFields r
end

/-- the lookup a recomposer would do if it filed composers under the type itself -/
def composerPure : ComposerFor := fun r name pkg fs =>
  match indexType fuelI (.struct name pkg fs) with
  | none => (none, r)
  | some im => (some ⟨name, fullName name pkg, .struct name pkg fs, im⟩, r)

/-- `Recompose` as it would be with an ideal registry: every struct type is decoded with ITS field
index; no state -/
def recomposePure (ck : Bytes) (t : GoType) (j : JV) : Slot :=
  (recompG (fun _ => composerPure) ck 256 [] 1 j t none).slot

/-- what the recomposer has seen -/
inductive Event where
  | register (t : GoType)
  | recompose (t : GoType) (j : JV)
  deriving Inhabited

def fuelR : Nat := 64

def playEvent (bareName : Bool) (ck : Bytes) (r : Registry) : Event → Registry
  | .register t => (registerT (!bareName) fuelR r t).reg
  | .recompose t j => (recompV bareName ck 256 r 1 j t none).reg

/-- the registry after a history -/
def regAfter (bareName : Bool) (ck : Bytes) (h : List Event) : Registry := h.foldl (playEvent bareName ck) []

/-- `Recompose(j, new(t))`: the value the target points to afterwards, `panic` = an error is returned -/
def recompose (bareName : Bool) (ck : Bytes) (r : Registry) (t : GoType) (j : JV) : Slot :=
  (recompV bareName ck 256 r 1 j t none).slot

end OjgVerif.Reflect
