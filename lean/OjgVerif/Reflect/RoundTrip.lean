import OjgVerif.Reflect.Lemmas
import OjgVerif.Reflect.RegLemmas
import OjgVerif.Reflect.RoundTripSpec
/-! # Recompose inverts Decompose on values (C16, title clause): lemmas and the core induction

The definitions (`norm`, `structOK`, `rtOK`) are in `RoundTripSpec.lean`.

`norm` is the equality the property can mean: "deeply equal, nil and empty slices or maps not
distinguished" — a nil slice, map or `[]byte` is identified with the empty one, and (as
`reflect.DeepEqual` does, `-0.0 == 0.0`) a float `-0` with `0`. Two values are *equal in the sense of
C16* when their `norm`s are equal.

`rtOK o vf t v` is the executable side condition of the round-trip theorem: `v` is a value of type `t`
(fuel `vf` suffices), integers are inside the width of their slot, and every struct type met satisfies
`structOK` (the naming plan of the encoder under `o` and the field index of the recomposer find each
other: see there). -/
namespace OjgVerif.Reflect
open OjgVerif

theorem normL_eq_map : ∀ xs : List GoVal, normL xs = xs.map norm
  | [] => rfl
  | x :: r => by simp [normL, normL_eq_map r]

theorem normK_eq_map : ∀ xs : List (Bytes × GoVal), normK xs = xs.map fun kv => (kv.1, norm kv.2)
  | [] => rfl
  | (k, x) :: r => by simp [normK, normK_eq_map r]

/-! ## small list facts -/

theorem listSet_length : ∀ (l : List GoVal) (i : Nat) (x : GoVal), (listSet l i x).length = l.length
  | [], _, _ => rfl
  | _ :: _, 0, _ => rfl
  | a :: r, i + 1, x => by simp [listSet, listSet_length r i x]

theorem listSet_get_same : ∀ (l : List GoVal) (i : Nat) (x : GoVal), i < l.length → (listSet l i x)[i]? = some x
  | [], _, _, h => by simp at h
  | _ :: _, 0, _, _ => rfl
  | a :: r, i + 1, x, h => by
    simp only [listSet, List.getElem?_cons_succ]
    exact listSet_get_same r i x (by simpa using h)

theorem listSet_get_other : ∀ (l : List GoVal) (i j : Nat) (x : GoVal), j ≠ i → (listSet l i x)[j]? = l[j]?
  | [], _, _, _, _ => rfl
  | _ :: _, 0, j, _, h => by
    cases j with
    | zero => exact absurd rfl h
    | succ j => rfl
  | a :: r, i + 1, j, x, h => by
    cases j with
    | zero => rfl
    | succ j =>
      simp only [listSet, List.getElem?_cons_succ]
      exact listSet_get_other r i j x (by omega)

theorem jvLookup_none_of_not_mem : ∀ (M : List (Bytes × JV)) (c : Bytes), (∀ m, (c, m) ∉ M) → jvLookup M c = none
  | [], _, _ => rfl
  | (k, v) :: r, c, h => by
    simp only [jvLookup]
    by_cases hk : k = c
    · subst hk; exact absurd (List.mem_cons_self) (h v)
    · simp only [hk, ↓reduceIte]
      exact jvLookup_none_of_not_mem r c (fun m hm => h m (List.mem_cons_of_mem _ hm))

theorem jvLookup_some_of_unique : ∀ (M : List (Bytes × JV)) (c : Bytes) (m0 : JV), (c, m0) ∈ M →
    (∀ m, (c, m) ∈ M → m = m0) → jvLookup M c = some m0
  | [], _, _, h, _ => by cases h
  | (k, v) :: r, c, m0, h, hu => by
    simp only [jvLookup]
    by_cases hk : k = c
    · subst hk
      simp only [↓reduceIte]
      rw [hu v List.mem_cons_self]
    · simp only [hk, ↓reduceIte]
      apply jvLookup_some_of_unique r c m0
      · rcases List.mem_cons.1 h with h | h
        · cases h; exact absurd rfl hk
        · exact h
      · exact fun m hm => hu m (List.mem_cons_of_mem _ hm)


/-! ## a struct level without embedded fields: the recomposer's walk over the field index -/

theorem mem_kvInsert {α : Type} (k : Bytes) (v : α) : ∀ (l : List (Bytes × α)) (x : Bytes × α),
    x ∈ kvInsert k v l → x = (k, v) ∨ x ∈ l
  | [], x, h => by simp [kvInsert] at h; exact Or.inl h
  | (k', v') :: r, x, h => by
    simp only [kvInsert] at h
    by_cases hk : k' = k
    · simp only [hk, ↓reduceIte] at h
      rcases List.mem_cons.1 h with h | h
      · exact Or.inl h
      · exact Or.inr (List.mem_cons_of_mem _ h)
    · simp only [hk, ↓reduceIte] at h
      rcases List.mem_cons.1 h with h | h
      · exact Or.inr (h ▸ List.mem_cons_self)
      · rcases mem_kvInsert k v r x h with h | h
        · exact Or.inl h
        · exact Or.inr (List.mem_cons_of_mem _ h)

theorem mem_kvInsert_self {α : Type} (k : Bytes) (v : α) : ∀ (l : List (Bytes × α)), (k, v) ∈ kvInsert k v l
  | [] => by simp [kvInsert]
  | (k', v') :: r => by
    simp only [kvInsert]
    by_cases hk : k' = k
    · simp [hk]
    · simp only [hk, ↓reduceIte]; exact List.mem_cons_of_mem _ (mem_kvInsert_self k v r)

theorem mem_kvInsert_of_ne {α : Type} (k : Bytes) (v : α) : ∀ (l : List (Bytes × α)) (x : Bytes × α),
    x ∈ l → x.1 ≠ k → x ∈ kvInsert k v l
  | [], _, h, _ => by cases h
  | (k', v') :: r, x, h, hne => by
    simp only [kvInsert]
    by_cases hk : k' = k
    · simp only [hk, ↓reduceIte]
      rcases List.mem_cons.1 h with h | h
      · subst h; exact absurd hk hne
      · exact List.mem_cons_of_mem _ h
    · simp only [hk, ↓reduceIte]
      rcases List.mem_cons.1 h with h | h
      · subst h; exact List.mem_cons_self
      · exact List.mem_cons_of_mem _ (mem_kvInsert_of_ne k v r x h hne)

theorem structOK_at {o : Opts} {fs : List (FieldHdr × GoType)} (hs : structOK o fs = true) {p : Nat} {h : FieldHdr} {t : GoType}
    (hp : fs[p]? = some (h, t)) : fieldOKAt o fs h p = true := by
  have := (List.all_eq_true.1 hs) ((h, t), p) (List.mem_zipIdx_iff_getElem?.2 hp)
  exact this

theorem fieldOKAt_other {o : Opts} {fs : List (FieldHdr × GoType)} {h : FieldHdr} {p : Nat} {k : Bytes}
    (hf : fieldOKAt o fs h p = true) (hk : idxKeyOf h = some k) {q : Nat} {h' : FieldHdr} {t' : GoType}
    (hq : fs[q]? = some (h', t')) (hne : q ≠ p) :
    (∀ pk', planKeyOf o h' = some pk' → pk' ∉ triedKeys o fs h k) ∧ idxKeyOf h' ≠ some k := by
  simp only [fieldOKAt, hk, Bool.and_eq_true] at hf
  have := (List.all_eq_true.1 hf.2.2) ((h', t'), q) (List.mem_zipIdx_iff_getElem?.2 hq)
  simp only [Bool.or_eq_true, beq_iff_eq, hne, false_or, Bool.and_eq_true, bne_iff_ne, ne_eq] at this
  refine ⟨?_, this.2⟩
  intro pk' hpk hmem
  have h1 := this.1
  rw [hpk] at h1
  simp only [Bool.not_eq_true'] at h1
  have := List.contains_iff_mem.2 hmem
  rw [this] at h1
  cases h1

/-! ### the field index of a struct without embedded fields -/

def NoEmb (fs : List (FieldHdr × GoType)) : Prop := ∀ ht ∈ fs, ht.1.embedded = false

theorem indexFields_cons_noEmb (h : FieldHdr) (t : GoType) (rest : List (FieldHdr × GoType)) (i : Nat)
    (he : h.embedded = false) :
    indexFields ((h, t) :: rest) i =
      if unexported h.name then indexFields rest (i + 1)
      else match idxKeyOf h with
        | none => indexFields rest (i + 1)
        | some k => kvInsert k ⟨h.name, [i], h.tag⟩ (indexFields rest (i + 1)) := by
  simp only [indexFields, he, Bool.false_eq_true, ↓reduceIte, plainEntry, idxKeyOf]
  by_cases hu : unexported h.name = true
  · simp [hu]
  · simp only [hu, Bool.false_eq_true, ↓reduceIte]
    by_cases ht : h.tag.isEmpty = true
    · simp [ht]
    · simp only [ht, Bool.false_eq_true, ↓reduceIte, Bool.not_false]
      rfl

theorem index_sound : ∀ (fs : List (FieldHdr × GoType)) (i0 : Nat), NoEmb fs →
    ∀ ke ∈ indexFields fs i0, ∃ p h t, fs[p]? = some (h, t) ∧ idxKeyOf h = some ke.1 ∧ ke.2 = ⟨h.name, [i0 + p], h.tag⟩
  | [], _, _, ke, hm => by simp [indexFields] at hm
  | (h, t) :: rest, i0, hne, ke, hm => by
    have he : h.embedded = false := hne (h, t) List.mem_cons_self
    have hne' : NoEmb rest := fun ht hht => hne ht (List.mem_cons_of_mem _ hht)
    have lift : ke ∈ indexFields rest (i0 + 1) →
        ∃ p h' t', ((h, t) :: rest)[p]? = some (h', t') ∧ idxKeyOf h' = some ke.1 ∧ ke.2 = ⟨h'.name, [i0 + p], h'.tag⟩ := by
      intro hm'
      obtain ⟨p, h', t', h1, h2, h3⟩ := index_sound rest (i0 + 1) hne' ke hm'
      exact ⟨p + 1, h', t', by simpa using h1, h2, by rw [h3]; congr 2; omega⟩
    rw [indexFields_cons_noEmb h t rest i0 he] at hm
    by_cases hu : unexported h.name = true
    · simp only [hu, ↓reduceIte] at hm; exact lift hm
    · simp only [hu, Bool.false_eq_true, ↓reduceIte] at hm
      cases hk : idxKeyOf h with
      | none => simp only [hk] at hm; exact lift hm
      | some k =>
        simp only [hk] at hm
        rcases mem_kvInsert _ _ _ _ hm with hm | hm
        · subst hm; exact ⟨0, h, t, rfl, hk, rfl⟩
        · exact lift hm

/-- no two fields are filed under one index key -/
def IdxDistinct (fs : List (FieldHdr × GoType)) : Prop :=
  ∀ (p q : Nat) (h : FieldHdr) (t : GoType) (h' : FieldHdr) (t' : GoType) (k : Bytes),
    fs[p]? = some (h, t) → fs[q]? = some (h', t') → p ≠ q → idxKeyOf h = some k → idxKeyOf h' ≠ some k

theorem index_complete : ∀ (fs : List (FieldHdr × GoType)) (i0 : Nat), NoEmb fs → IdxDistinct fs →
    ∀ p h t k, fs[p]? = some (h, t) → idxKeyOf h = some k → (k, (⟨h.name, [i0 + p], h.tag⟩ : IdxEntry)) ∈ indexFields fs i0
  | [], _, _, _, p, h, t, k, hp, _ => by simp at hp
  | (h0, t0) :: rest, i0, hne, hd, p, h, t, k, hp, hk => by
    have he : h0.embedded = false := hne (h0, t0) List.mem_cons_self
    have hne' : NoEmb rest := fun ht hht => hne ht (List.mem_cons_of_mem _ hht)
    have hd' : IdxDistinct rest := by
      intro p q h t h' t' k h1 h2 hpq
      exact hd (p + 1) (q + 1) h t h' t' k (by simpa using h1) (by simpa using h2) (by omega)
    rw [indexFields_cons_noEmb h0 t0 rest i0 he]
    cases p with
    | zero =>
      simp only [List.getElem?_cons_zero, Option.some.injEq, Prod.mk.injEq] at hp
      obtain ⟨rfl, rfl⟩ := hp
      have hu : unexported h0.name = false := by
        cases hu : unexported h0.name with
        | false => rfl
        | true => simp [idxKeyOf, hu] at hk
      simp only [hu, Bool.false_eq_true, ↓reduceIte, hk, Nat.add_zero]
      exact mem_kvInsert_self _ _ _
    | succ p' =>
      have hp' : rest[p']? = some (h, t) := by simpa using hp
      have ih := index_complete rest (i0 + 1) hne' hd' p' h t k hp' hk
      have harith : i0 + (p' + 1) = i0 + 1 + p' := by omega
      rw [harith]
      by_cases hu : unexported h0.name = true
      · simp only [hu, ↓reduceIte]; exact ih
      · simp only [hu, Bool.false_eq_true, ↓reduceIte]
        cases hk0 : idxKeyOf h0 with
        | none => exact ih
        | some k0 =>
          simp only
          apply mem_kvInsert_of_ne _ _ _ _ ih
          intro hkk
          simp only at hkk
          exact hd 0 (p' + 1) h0 t0 h t k0 rfl (by simpa using hp') (by omega) hk0 (hkk ▸ hk)

/-! ### the members the reference encoder writes for a struct without embedded fields -/

theorem isIface_match (enc : Bool → GoType → GoVal → JV) (t : GoType) (x : GoVal) (key : Bytes) :
    (match t with
      | .iface => [(key, enc true t x)]
      | _ => [(key, enc false t x)]) = [(key, enc (isIface t) t x)] := by
  cases t <;> rfl

/-- what a written field's member holds: the text of a bool / integer / float under the `,string`
option in force, otherwise the encoding of the value -/
def memberJV (o : Opts) (enc : Bool → GoType → GoVal → JV) (h : FieldHdr) (t : GoType) (x : GoVal) : JV :=
  match (if asStrOf o h then scalarText x else none) with
  | some s => .str s
  | none => enc (isIface t) t x

theorem refField_eq (o : Opts) (enc : Bool → GoType → GoVal → JV) (h : FieldHdr) (t : GoType) (x : GoVal)
    (hu : unexported h.name = false) :
    refField o enc h t x =
      match planKeyOf o h with
      | none => []
      | some pk => if tagOmitOf o h && isEmptyVal x then [] else [(pk, memberJV o enc h t x)] := by
  unfold memberJV asStrOf
  unfold refField planKeyOf tagOmitOf
  rw [show (if (o.useTags && !h.tag.isEmpty) = true then parseTag h.tag else some ([], false, false)) = tagView o h from rfl]
  generalize tagView o h = tv
  cases tv with
  | none => simp [hu]
  | some r =>
    obtain ⟨p, tagOmit, asStr⟩ := r
    simp only [hu, Bool.false_eq_true, ↓reduceIte]
    split
    · rfl
    · cases hst : (if asStr = true then scalarText x else none) with
      | some s => rfl
      | none => cases t <;> rfl

theorem refPass_mem (o : Opts) (enc : Bool → GoType → GoVal → JV)
    (sub : List (FieldHdr × GoType) → List GoVal → List (Bytes × JV)) (vs : List GoVal) :
    ∀ (fs : List (FieldHdr × GoType)) (i0 : Nat), NoEmb fs → ∀ km,
      (km ∈ refPass o enc sub vs fs i0 ↔
        ∃ p h t x, fs[p]? = some (h, t) ∧ unexported h.name = false ∧ vs[i0 + p]? = some x ∧ km ∈ refField o enc h t x)
  | [], _, _, km => by simp [refPass]
  | (h0, t0) :: rest, i0, hne, km => by
    have he : h0.embedded = false := hne (h0, t0) List.mem_cons_self
    have hne' : NoEmb rest := fun ht hht => hne ht (List.mem_cons_of_mem _ hht)
    have ih := refPass_mem o enc sub vs rest (i0 + 1) hne' km
    have shift : (∃ p h t x, rest[p]? = some (h, t) ∧ unexported h.name = false ∧ vs[i0 + 1 + p]? = some x ∧ km ∈ refField o enc h t x) ↔
        (∃ p h t x, ((h0, t0) :: rest)[p + 1]? = some (h, t) ∧ unexported h.name = false ∧ vs[i0 + (p + 1)]? = some x ∧ km ∈ refField o enc h t x) := by
      constructor
      · rintro ⟨p, h, t, x, h1, h2, h3, h4⟩
        exact ⟨p, h, t, x, by simpa using h1, h2, by rw [show i0 + (p + 1) = i0 + 1 + p by omega]; exact h3, h4⟩
      · rintro ⟨p, h, t, x, h1, h2, h3, h4⟩
        exact ⟨p, h, t, x, by simpa using h1, h2, by rw [show i0 + 1 + p = i0 + (p + 1) by omega]; exact h3, h4⟩
    simp only [refPass, he, Bool.false_and, Bool.false_eq_true, ↓reduceIte]
    by_cases hu : unexported h0.name = true
    · simp only [hu, ↓reduceIte]
      rw [ih, shift]
      constructor
      · rintro ⟨p, h, t, x, hh⟩; exact ⟨p + 1, h, t, x, hh⟩
      · rintro ⟨p, h, t, x, h1, h2, h3, h4⟩
        cases p with
        | zero =>
          simp only [List.getElem?_cons_zero, Option.some.injEq, Prod.mk.injEq] at h1
          rw [← h1.1, hu] at h2; cases h2
        | succ p => exact ⟨p, h, t, x, h1, h2, h3, h4⟩
    · have hu' : unexported h0.name = false := by simpa using hu
      simp only [hu, Bool.false_eq_true, ↓reduceIte]
      cases hx : vs[i0]? with
      | none =>
        simp only
        rw [ih, shift]
        constructor
        · rintro ⟨p, h, t, x, hh⟩; exact ⟨p + 1, h, t, x, hh⟩
        · rintro ⟨p, h, t, x, h1, h2, h3, h4⟩
          cases p with
          | zero => simp only [Nat.add_zero, hx] at h3; cases h3
          | succ p => exact ⟨p, h, t, x, h1, h2, h3, h4⟩
      | some x0 =>
        simp only [List.mem_append]
        rw [ih, shift]
        constructor
        · rintro (⟨p, h, t, x, hh⟩ | hm)
          · exact ⟨p + 1, h, t, x, hh⟩
          · exact ⟨0, h0, t0, x0, rfl, hu', by simpa using hx, hm⟩
        · rintro ⟨p, h, t, x, h1, h2, h3, h4⟩
          cases p with
          | zero =>
            simp only [List.getElem?_cons_zero, Option.some.injEq, Prod.mk.injEq] at h1
            simp only [Nat.add_zero, hx, Option.some.injEq] at h3
            obtain ⟨rfl, rfl⟩ := h1
            subst h3
            exact Or.inr h4
          | succ p => exact Or.inl ⟨p, h, t, x, h1, h2, h3, h4⟩

/-! ### which member the recomposer picks for an index entry -/

theorem otherLookup_none (im : List (Bytes × IdxEntry)) (vm : List (Bytes × JV)) (k c : Bytes)
    (h : (c = k ∨ claimedName im k c = false) → jvLookup vm c = none) : otherLookup im vm k c = none := by
  unfold otherLookup
  cases hc : claimedName im k c with
  | true => rfl
  | false => simp only [Bool.false_eq_true, ↓reduceIte]; exact h (Or.inr hc)

theorem otherLookup_some (im : List (Bytes × IdxEntry)) (vm : List (Bytes × JV)) (k c : Bytes) (m0 : JV)
    (hok : c = k ∨ claimedName im k c = false) (hs : jvLookup vm c = some m0)
    (hk : jvLookup vm k = none) : otherLookup im vm k c = some m0 := by
  unfold otherLookup
  rcases hok with rfl | hc
  · rw [hk] at hs; cases hs
  · simp only [hc, Bool.false_eq_true, ↓reduceIte]; exact hs

theorem fieldDatum_none (im : List (Bytes × IdxEntry)) (vm : List (Bytes × JV)) (k : Bytes) (e : IdxEntry)
    (hn : ∀ c ∈ candidates k e.name, (c = k ∨ claimedName im k c = false) → jvLookup vm c = none) :
    fieldDatum im vm k e = none := by
  simp only [fieldDatum, hn k (by simp [candidates]) (Or.inl rfl),
    otherLookup_none im vm k e.name (hn e.name (by simp [candidates])),
    otherLookup_none im vm k (lowerFirst e.name) (hn _ (by simp [candidates])),
    otherLookup_none im vm k (asciiLowerAll (lowerFirst e.name)) (hn _ (by simp [candidates]))]

theorem mem_of_mem_takeWhile {α : Type} (p : α → Bool) : ∀ (l : List α) (c : α), c ∈ l.takeWhile p → c ∈ l
  | [], _, h => by simp at h
  | a :: r, c, h => by
    simp only [List.takeWhile_cons] at h
    split at h
    · rcases List.mem_cons.1 h with h | h
      · exact h ▸ List.mem_cons_self
      · exact List.mem_cons_of_mem _ (mem_of_mem_takeWhile p r c h)
    · simp at h

theorem sat_of_mem_takeWhile {α : Type} (p : α → Bool) : ∀ (l : List α) (c : α), c ∈ l.takeWhile p → p c = true
  | [], _, h => by simp at h
  | a :: r, c, h => by
    simp only [List.takeWhile_cons] at h
    split at h
    · rcases List.mem_cons.1 h with h' | h'
      · subst h'; assumption
      · exact sat_of_mem_takeWhile p r c h'
    · simp at h

/-- `triedKeys` before the claimed names are filtered out -/
def triedBase (o : Opts) (h : FieldHdr) (k : Bytes) : List Bytes :=
  match planKeyOf o h with
  | some pk => if tagOmitOf o h then candidates k h.name else pk :: (candidates k h.name).takeWhile (· != pk)
  | none => candidates k h.name

theorem triedKeys_eq (o : Opts) (fs : List (FieldHdr × GoType)) (h : FieldHdr) (k : Bytes) :
    triedKeys o fs h k = (triedBase o h k).filter fun c => c == k || !isIdxKey fs c := rfl

theorem mem_tried (o : Opts) (fs : List (FieldHdr × GoType)) (h : FieldHdr) (k c : Bytes)
    (hb : c ∈ triedBase o h k) (hc : c = k ∨ isIdxKey fs c = false) : c ∈ triedKeys o fs h k := by
  rw [triedKeys_eq, List.mem_filter]
  refine ⟨hb, ?_⟩
  rcases hc with rfl | hc
  · simp
  · simp [hc]

theorem triedBase_all (o : Opts) (h : FieldHdr) (k : Bytes) (hh : planKeyOf o h = none ∨ tagOmitOf o h = true) :
    triedBase o h k = candidates k h.name := by
  unfold triedBase
  cases hp : planKeyOf o h with
  | none => rfl
  | some pk =>
    rcases hh with hh | hh
    · rw [hp] at hh; cases hh
    · simp [hh]

theorem triedBase_pk (o : Opts) (h : FieldHdr) (k pk : Bytes) (hp : planKeyOf o h = some pk)
    (hin : pk ∈ candidates k h.name) : pk ∈ triedBase o h k := by
  unfold triedBase
  simp only [hp]
  split
  · exact hin
  · exact List.mem_cons_self

theorem triedBase_before (o : Opts) (h : FieldHdr) (k pk c : Bytes) (hp : planKeyOf o h = some pk)
    (hc : c ∈ (candidates k h.name).takeWhile (· != pk)) : c ∈ triedBase o h k := by
  unfold triedBase
  simp only [hp]
  split
  · exact mem_of_mem_takeWhile _ _ _ hc
  · exact List.mem_cons_of_mem _ hc

/-- the ORDER of the lookups matters here: the member is found under `pk` as soon as every name tried
BEFORE `pk` (and not claimed by another index entry) has no member -/
theorem fieldDatum_some_ordered (im : List (Bytes × IdxEntry)) (vm : List (Bytes × JV)) (k : Bytes) (e : IdxEntry)
    (pk : Bytes) (m0 : JV)
    (hs : jvLookup vm pk = some m0) (hin : pk ∈ candidates k e.name) (hpk : pk = k ∨ claimedName im k pk = false)
    (hn : ∀ c ∈ (candidates k e.name).takeWhile (· != pk), (c = k ∨ claimedName im k c = false) → jvLookup vm c = none) :
    fieldDatum im vm k e = some m0 := by
  simp only [fieldDatum]
  by_cases h1 : k = pk
  · rw [h1, hs]
  · have hk0 : jvLookup vm k = none := hn k (by simp [candidates, List.takeWhile_cons, h1]) (Or.inl rfl)
    rw [hk0]
    by_cases h2 : e.name = pk
    · rw [h2, otherLookup_some im vm k pk m0 hpk hs hk0]
    · rw [otherLookup_none im vm k e.name (hn e.name (by simp [candidates, List.takeWhile_cons, h1, h2]))]
      by_cases h3 : lowerFirst e.name = pk
      · rw [h3, otherLookup_some im vm k pk m0 hpk hs hk0]
      · rw [otherLookup_none im vm k _ (hn (lowerFirst e.name) (by simp [candidates, List.takeWhile_cons, h1, h2, h3]))]
        by_cases h4 : asciiLowerAll (lowerFirst e.name) = pk
        · rw [h4, otherLookup_some im vm k pk m0 hpk hs hk0]
        · exfalso
          simp only [candidates, List.mem_cons, List.not_mem_nil, or_false] at hin
          rcases hin with h | h | h | h
          · exact h1 h.symm
          · exact h2 h.symm
          · exact h3 h.symm
          · exact h4 h.symm

/-! ### the walk of `recomp` over the index of a struct without embedded fields -/

/-- slot `p` holds a value equal (up to `norm`) to the original field value -/
def SlotGood (vs : List GoVal) (p : Nat) (w : GoVal) : Prop := ∃ v, vs[p]? = some v ∧ norm w = norm v

def EntOK (im : List (Bytes × IdxEntry)) (fs : List (FieldHdr × GoType)) (vs : List GoVal) (vm : List (Bytes × JV))
    (setv : Registry → JV → GoType → IdxEntry → Step) (ke : Bytes × IdxEntry) : Prop :=
  ∃ p h t, fs[p]? = some (h, t) ∧ ke.2.index = [p] ∧ unexported h.name = false ∧
    (((fieldDatum im vm ke.1 ke.2 = none ∨ ∃ m, fieldDatum im vm ke.1 ke.2 = some m ∧ isNull m = true) ∧
        SlotGood vs p (zeroVal 63 t)) ∨
     (∃ m x, fieldDatum im vm ke.1 ke.2 = some m ∧ isNull m = false ∧ (∀ r, setv r m t ke.2 = ⟨.ok x, r⟩) ∧ SlotGood vs p x))

def InvF (fs : List (FieldHdr × GoType)) (vs : List GoVal) (rem : List (Bytes × IdxEntry)) (ws : List GoVal) : Prop :=
  ws.length = fs.length ∧
    ∀ p h t, fs[p]? = some (h, t) →
      ∃ w, ws[p]? = some w ∧ (SlotGood vs p w ∨ (w = zeroVal 63 t ∧ ∃ ke ∈ rem, ke.2.index = [p]))

theorem stepFields_flat (im : List (Bytes × IdxEntry)) (name pkg : Bytes) (fs : List (FieldHdr × GoType)) (vs : List GoVal) (vm : List (Bytes × JV))
    (zero : GoType → GoVal) (setv : Registry → JV → GoType → IdxEntry → Step) :
    ∀ (I : List (Bytes × IdxEntry)) (ws : List GoVal),
      (∀ ke ∈ I, EntOK im fs vs vm setv ke) → InvF fs vs I ws →
      ∃ ws', InvF fs vs [] ws' ∧
        ∀ r, stepFields im zero setv (.struct name pkg fs) vm r I (.struct ws) = ⟨.ok (.struct ws'), r⟩
  | [], ws, _, hinv => ⟨ws, hinv, fun _ => rfl⟩
  | (k, e) :: rest, ws, hent, hinv => by
    obtain ⟨p, h, t, hp, hidx, hu, hcase⟩ := hent (k, e) List.mem_cons_self
    have hent' : ∀ ke ∈ rest, EntOK im fs vs vm setv ke := fun ke hm => hent ke (List.mem_cons_of_mem _ hm)
    simp only at hidx hcase
    rcases hcase with ⟨hskip, hgood⟩ | ⟨m, x, hd, hnn, hset, hgood⟩
    · have hinv' : InvF fs vs rest ws := by
        refine ⟨hinv.1, ?_⟩
        intro p' h' t' hp'
        obtain ⟨w, hw, hor⟩ := hinv.2 p' h' t' hp'
        refine ⟨w, hw, ?_⟩
        rcases hor with hg | ⟨hz, ke, hke, hki⟩
        · exact Or.inl hg
        · rcases List.mem_cons.1 hke with rfl | hke
          · simp only [hidx, List.cons.injEq, and_true] at hki
            subst hki
            rw [hp] at hp'; cases hp'
            exact Or.inl (hz ▸ hgood)
          · exact Or.inr ⟨hz, ke, hke, hki⟩
      obtain ⟨ws', h2, h1⟩ := stepFields_flat im name pkg fs vs vm zero setv rest ws hent' hinv'
      refine ⟨ws', h2, ?_⟩
      intro r
      rw [← h1 r]
      rcases hskip with hn | ⟨m, hm, hnull⟩
      · simp only [stepFields, hn]
      · simp only [stepFields, hm, hnull, ↓reduceIte]
    · have hplt : p < ws.length := by
        rw [hinv.1]
        exact (List.getElem?_eq_some_iff.1 hp).1
      have hinv' : InvF fs vs rest (listSet ws p x) := by
        refine ⟨by rw [listSet_length]; exact hinv.1, ?_⟩
        intro p' h' t' hp'
        by_cases hpp : p' = p
        · subst hpp
          exact ⟨x, listSet_get_same ws p' x hplt, Or.inl hgood⟩
        · obtain ⟨w, hw, hor⟩ := hinv.2 p' h' t' hp'
          refine ⟨w, by rw [listSet_get_other ws p p' x hpp]; exact hw, ?_⟩
          rcases hor with hg | ⟨hz, ke, hke, hki⟩
          · exact Or.inl hg
          · rcases List.mem_cons.1 hke with rfl | hke
            · simp only [hidx, List.cons.injEq, and_true] at hki
              exact absurd hki.symm hpp
            · exact Or.inr ⟨hz, ke, hke, hki⟩
      obtain ⟨ws', h2, h1⟩ := stepFields_flat im name pkg fs vs vm zero setv rest (listSet ws p x) hent' hinv'
      refine ⟨ws', h2, ?_⟩
      intro r
      rw [← h1 r]
      obtain ⟨old, hold⟩ : ∃ old, ws[p]? = some old := ⟨ws[p], List.getElem?_eq_getElem hplt⟩
      simp only [stepFields, hd, hnn, Bool.false_eq_true, ↓reduceIte, hidx, typeAt, hp, readOnlyAt, hu, Bool.or_self,
        hset, setAt, hold]

theorem structOK_noEmb {o : Opts} {fs : List (FieldHdr × GoType)} (hs : structOK o fs = true) : NoEmb fs := by
  intro ht hm
  obtain ⟨p, hp⟩ := List.getElem?_of_mem hm
  have := structOK_at (h := ht.1) (t := ht.2) hs hp
  simp only [fieldOKAt, Bool.and_eq_true, Bool.not_eq_true'] at this
  exact this.1

theorem structOK_distinct {o : Opts} {fs : List (FieldHdr × GoType)} (hs : structOK o fs = true) : IdxDistinct fs := by
  intro p q h t h' t' k hp hq hpq hk
  exact (fieldOKAt_other (structOK_at hs hp) hk hq (fun e => hpq e.symm)).2

/-- `im[c]` exists exactly when `c` is the index key of a field -/
theorem any_key_iff (fs : List (FieldHdr × GoType)) (hne : NoEmb fs) (hdist : IdxDistinct fs) (c : Bytes) :
    (indexFields fs 0).any (fun ke => ke.1 == c) = isIdxKey fs c := by
  rw [Bool.eq_iff_iff]
  simp only [List.any_eq_true, beq_iff_eq, isIdxKey]
  constructor
  · rintro ⟨ke, hke, hc⟩
    obtain ⟨p, h, t, hp, hk, _⟩ := index_sound fs 0 hne ke hke
    exact ⟨(h, t), List.mem_of_getElem? hp, by rw [hk, hc]⟩
  · rintro ⟨ht, hm, hk⟩
    obtain ⟨p, hp⟩ := List.getElem?_of_mem hm
    have := index_complete fs 0 hne hdist p ht.1 ht.2 c hp hk
    exact ⟨_, this, rfl⟩

theorem claimed_iff (fs : List (FieldHdr × GoType)) (hne : NoEmb fs) (hdist : IdxDistinct fs) (k c : Bytes) :
    (c = k ∨ claimedName (indexFields fs 0) k c = false) ↔ (c = k ∨ isIdxKey fs c = false) := by
  unfold claimedName
  rw [any_key_iff fs hne hdist c]
  by_cases hck : c = k
  · simp [hck]
  · simp [hck]

/-- One struct level, all fields plain: if every field value that is written and not null is
recomposed to an equal value by `rec`, and every field that is not written, not indexed, or written as
null holds (up to `norm`) the zero value, the struct comes back equal. -/
theorem recStruct_flat (o : Opts) (enc : Bool → GoType → GoVal → JV)
    (sub : List (FieldHdr × GoType) → List GoVal → List (Bytes × JV)) (rec : Rec)
    (name pkg : Bytes) (fs : List (FieldHdr × GoType)) (vs : List GoVal)
    (hs : structOK o fs = true) (hlen : vs.length = fs.length)
    (hfld : ∀ (p : Nat) (h : FieldHdr) (t : GoType) (x : GoVal), fs[p]? = some (h, t) → vs[p]? = some x →
      ((idxKeyOf h = none ∨ planKeyOf o h = none ∨ (tagOmitOf o h && isEmptyVal x) = true ∨
          isNull (memberJV o enc h t x) = true) → norm (zeroVal 63 t) = norm x) ∧
      (∀ k pk, idxKeyOf h = some k → planKeyOf o h = some pk → isNull (memberJV o enc h t x) = false →
          ∃ y, (∀ r idx, rec r 2 (memberJV o enc h t x) t (some ⟨h.name, idx, h.tag⟩) = ⟨.ok y, r⟩) ∧ norm y = norm x)) :
    ∃ v', norm v' = norm (.struct vs) ∧
      ∀ r, recStruct composerPure rec r name pkg fs (.obj (createMember o name pkg ++ refPass o enc sub vs fs 0)) = ⟨.ok v', r⟩ := by
  have hne := structOK_noEmb hs
  have hdist := structOK_distinct hs
  let M := createMember o name pkg ++ refPass o enc sub vs fs 0
  -- every member under a name the recomposer tries for field `p` is the member of field `p`
  have hkey : ∀ (p : Nat) (h : FieldHdr) (t : GoType) (x : GoVal) (k : Bytes), fs[p]? = some (h, t) → vs[p]? = some x → idxKeyOf h = some k →
      ∀ c ∈ triedKeys o fs h k, ∀ m, (c, m) ∈ M →
        planKeyOf o h = some c ∧ (tagOmitOf o h && isEmptyVal x) = false ∧ m = memberJV o enc h t x := by
    intro p h t x k hp hx hk c hc m hm
    have hf := structOK_at hs hp
    rcases List.mem_append.1 hm with hm | hm
    · exfalso
      simp only [createMember] at hm
      by_cases hce : o.createKey.isEmpty = true
      · simp [hce] at hm
      · simp only [hce, Bool.false_eq_true, ↓reduceIte, List.mem_cons, Prod.mk.injEq, List.not_mem_nil, or_false] at hm
        simp only [fieldOKAt, hk, Bool.and_eq_true, Bool.or_eq_true, hce, Bool.not_eq_true'] at hf
        rcases hf.2.1.2 with h2 | h2
        · cases h2
        · rw [← hm.1, List.contains_iff_mem.2 hc] at h2
          cases h2
    · obtain ⟨q, h', t', x', hq, hu', hx', hmem⟩ := (refPass_mem o enc sub vs fs 0 hne (c, m)).1 hm
      simp only [Nat.zero_add] at hx'
      rw [refField_eq o enc h' t' x' hu'] at hmem
      cases hpk : planKeyOf o h' with
      | none => simp [hpk] at hmem
      | some pk' =>
        simp only [hpk] at hmem
        by_cases hom : (tagOmitOf o h' && isEmptyVal x') = true
        · simp [hom] at hmem
        · simp only [hom, Bool.false_eq_true, ↓reduceIte, List.mem_cons, Prod.mk.injEq, List.not_mem_nil, or_false] at hmem
          obtain ⟨rfl, rfl⟩ := hmem
          by_cases hqp : q = p
          · subst hqp
            rw [hp] at hq; cases hq
            rw [hx] at hx'; cases hx'
            exact ⟨hpk, by simpa using hom, rfl⟩
          · exact absurd hc ((fieldOKAt_other hf hk hq hqp).1 c hpk)
  have hent : ∀ ke ∈ indexFields fs 0, EntOK (indexFields fs 0) fs vs M (fun r'' m ft e => rec r'' 2 m ft (some e)) ke := by
    intro ke hke
    obtain ⟨p, h, t, hp, hk, he⟩ := index_sound fs 0 hne ke hke
    obtain ⟨k, e⟩ := ke
    simp only at hk he
    subst he
    simp only [Nat.zero_add]
    have hu : unexported h.name = false := by
      cases hu : unexported h.name with
      | false => rfl
      | true => simp [idxKeyOf, hu] at hk
    obtain ⟨x, hx⟩ : ∃ x, vs[p]? = some x := by
      have : p < vs.length := by rw [hlen]; exact (List.getElem?_eq_some_iff.1 hp).1
      exact ⟨vs[p], List.getElem?_eq_getElem this⟩
    have hk' := hkey p h t x k hp hx hk
    have hf := structOK_at hs hp
    refine ⟨p, h, t, hp, rfl, hu, ?_⟩
    have hnone : (planKeyOf o h = none ∨ (tagOmitOf o h && isEmptyVal x) = true) →
        fieldDatum (indexFields fs 0) M k ⟨h.name, [p], h.tag⟩ = none := by
      intro hor
      have hall : triedBase o h k = candidates k h.name := by
        apply triedBase_all
        rcases hor with h | h
        · exact Or.inl h
        · simp only [Bool.and_eq_true] at h; exact Or.inr h.1
      apply fieldDatum_none
      intro c hc hcl
      apply jvLookup_none_of_not_mem
      intro m hm
      obtain ⟨h1, h2, _⟩ := hk' c (mem_tried o fs h k c (hall ▸ hc) ((claimed_iff fs hne hdist k c).1 hcl)) m hm
      rcases hor with h | h
      · rw [h] at h1; cases h1
      · rw [h] at h2; cases h2
    cases hpk : planKeyOf o h with
    | none =>
      exact Or.inl ⟨Or.inl (hnone (Or.inl hpk)), x, hx, ((hfld p h t x hp hx).1 (Or.inr (Or.inl hpk)))⟩
    | some pk =>
      by_cases hom : (tagOmitOf o h && isEmptyVal x) = true
      · exact Or.inl ⟨Or.inl (hnone (Or.inr hom)), x, hx, ((hfld p h t x hp hx).1 (Or.inr (Or.inr (Or.inl hom))))⟩
      · have hmemM : (pk, memberJV o enc h t x) ∈ M := by
          apply List.mem_append_right
          apply (refPass_mem o enc sub vs fs 0 hne _).2
          refine ⟨p, h, t, x, hp, hu, by simpa using hx, ?_⟩
          rw [refField_eq o enc h t x hu]
          simp [hpk, hom]
        have hpkc : pk ∈ candidates k h.name ∧ pk ∈ triedKeys o fs h k := by
          simp only [fieldOKAt, hk, hpk, Bool.and_eq_true] at hf
          exact ⟨List.contains_iff_mem.1 hf.2.1.1.1, List.contains_iff_mem.1 hf.2.1.1.2⟩
        have hpkcl : pk = k ∨ claimedName (indexFields fs 0) k pk = false := by
          apply (claimed_iff fs hne hdist k pk).2
          have := hpkc.2
          rw [triedKeys_eq, List.mem_filter] at this
          have h2 := this.2
          simp only [Bool.or_eq_true, beq_iff_eq, Bool.not_eq_true'] at h2
          exact h2
        have hd : fieldDatum (indexFields fs 0) M k ⟨h.name, [p], h.tag⟩ = some (memberJV o enc h t x) := by
          apply fieldDatum_some_ordered (indexFields fs 0) M k _ pk _ _ hpkc.1 hpkcl
          · intro c hc hcl
            apply jvLookup_none_of_not_mem
            intro m hm
            obtain ⟨h1, _, _⟩ := hk' c (mem_tried o fs h k c (triedBase_before o h k pk c hpk hc)
              ((claimed_iff fs hne hdist k c).1 hcl)) m hm
            rw [hpk] at h1
            have hne' := sat_of_mem_takeWhile _ _ _ hc
            simp only [bne_iff_ne, ne_eq] at hne'
            exact hne' (Option.some.inj h1).symm
          · apply jvLookup_some_of_unique M pk _ hmemM
            intro m hm
            exact (hk' pk hpkc.2 m hm).2.2
        cases hnull : isNull (memberJV o enc h t x) with
        | true =>
          exact Or.inl ⟨Or.inr ⟨_, hd, hnull⟩, x, hx, ((hfld p h t x hp hx).1 (Or.inr (Or.inr (Or.inr hnull))))⟩
        | false =>
          obtain ⟨y, hy, hyn⟩ := (hfld p h t x hp hx).2 k pk hk hpk hnull
          exact Or.inr ⟨_, y, hd, hnull, fun r => hy r [p], x, hx, hyn⟩
  have hinv : InvF fs vs (indexFields fs 0) (fs.map fun ht => zeroVal 63 ht.2) := by
    refine ⟨by simp, ?_⟩
    intro p h t hp
    refine ⟨zeroVal 63 t, by simp [List.getElem?_map, hp], ?_⟩
    obtain ⟨x, hx⟩ : ∃ x, vs[p]? = some x := by
      have : p < vs.length := by rw [hlen]; exact (List.getElem?_eq_some_iff.1 hp).1
      exact ⟨vs[p], List.getElem?_eq_getElem this⟩
    cases hk : idxKeyOf h with
    | none => exact Or.inl ⟨x, hx, (hfld p h t x hp hx).1 (Or.inl hk)⟩
    | some k =>
      refine Or.inr ⟨rfl, _, index_complete fs 0 hne hdist p h t k hp hk, ?_⟩
      simp
  obtain ⟨ws', h2, h1⟩ := stepFields_flat (indexFields fs 0) name pkg fs vs M (zeroVal fuelZ) (fun r'' m ft e => rec r'' 2 m ft (some e))
    (indexFields fs 0) _ hent hinv
  refine ⟨.struct ws', ?_, ?_⟩
  · simp only [norm, normL_eq_map, GoVal.struct.injEq]
    apply List.ext_getElem?
    intro p
    simp only [List.getElem?_map]
    by_cases hplt : p < fs.length
    · obtain ⟨w, hw, hor⟩ := h2.2 p (fs[p]).1 (fs[p]).2 (List.getElem?_eq_getElem hplt)
      rcases hor with ⟨v, hv, hn⟩ | ⟨_, ke, hke, _⟩
      · simp [hw, hv, hn]
      · cases hke
    · have h3 : ws'[p]? = none := List.getElem?_eq_none (by rw [h2.1]; omega)
      have h4 : vs[p]? = none := List.getElem?_eq_none (by rw [hlen]; omega)
      simp [h3, h4]
  · intro r
    simp only [recStruct, composerPure, indexType]
    rw [← h1 r]
    rfl

/-! ## the side condition of the round trip, and the theorem -/

theorem fieldsRT_spec (o : Opts) (chk : GoType → GoVal → Bool) :
    ∀ (fs : List (FieldHdr × GoType)) (vs : List GoVal), fieldsRT o chk fs vs = true →
      vs.length = fs.length ∧
        ∀ (p : Nat) (h : FieldHdr) (t : GoType) (x : GoVal), fs[p]? = some (h, t) → vs[p]? = some x → fieldChk o chk h t x = true
  | [], [], _ => ⟨rfl, by intro p h t x hp; simp at hp⟩
  | [], _ :: _, h => by simp [fieldsRT] at h
  | _ :: _, [], h => by simp [fieldsRT] at h
  | (h0, t0) :: fr, x0 :: vr, h => by
    simp only [fieldsRT, Bool.and_eq_true] at h
    obtain ⟨hl, hr⟩ := fieldsRT_spec o chk fr vr h.2
    refine ⟨by simp [hl], ?_⟩
    intro p h' t' x' hp hx
    cases p with
    | zero =>
      simp only [List.getElem?_cons_zero, Option.some.injEq, Prod.mk.injEq] at hp hx
      obtain ⟨rfl, rfl⟩ := hp
      subst hx
      exact h.1
    | succ p => exact hr p h' t' x' (by simpa using hp) (by simpa using hx)

theorem zeroLike_norm (t : GoType) (x : GoVal) (h : zeroLike t x = true) : norm (zeroVal 63 t) = norm x := by
  cases t <;> cases x <;> simp only [zeroLike, Bool.false_eq_true] at h
  all_goals first
    | rfl
    | (simp only [Bool.not_eq_true'] at h; subst h; rfl)
    | (simp only [beq_iff_eq] at h; subst h; rfl)
    | (simp only [List.isEmpty_iff] at h; subst h; rfl)
    | (simp only [floatIsZero, Bool.or_eq_true, decide_eq_true_eq] at h
       rcases h with rfl | rfl <;> rfl)

theorem bytesAsJV_not_null (n : Nat) (b : Bytes) : isNull (bytesAsJV n b) = false := by
  unfold bytesAsJV
  split
  · rfl
  · split <;> rfl

theorem refVal_not_null (o : Opts) (tf vf : Nat) (vi : Bool) (hs : (vi && o.strict) = false) (e : GoType) (x : GoVal)
    (h1 : isPtrT e = false) (h2 : isIface e = false) : isNull (refVal o tf vf vi e x) = false := by
  cases vf with
  | zero => rfl
  | succ n =>
    cases e with
    | ptr _ => simp [isPtrT] at h1
    | iface => simp [isIface] at h2
    | slice e' =>
      cases x <;> try rfl
      cases e' <;> simp [refVal, hs, isNull]
    | bytes => cases x <;> first | rfl | exact bytesAsJV_not_null _ _
    | _ => cases x <;> rfl

theorem empty_norm_zero (o : Opts) (m : Nat) (t : GoType) (x : GoVal) (hok : rtOK o m t x = true)
    (he : isEmptyVal x = true) : norm (zeroVal 63 t) = norm x := by
  cases m with
  | zero => simp [rtOK] at hok
  | succ n =>
    cases t <;> cases x <;> simp only [rtOK, Bool.false_eq_true] at hok <;>
      simp only [isEmptyVal, Bool.false_eq_true] at he
    all_goals first
      | rfl
      | (simp only [Bool.not_eq_true'] at he; subst he; rfl)
      | (simp only [beq_iff_eq] at he; subst he; rfl)
      | (simp only [List.isEmpty_iff] at he; subst he; rfl)
      | (simp only [floatIsZero, Bool.or_eq_true, decide_eq_true_eq] at he
         rcases he with rfl | rfl <;> rfl)
      | (simp only [List.isEmpty_iff] at he; subst he
         simp only [Bool.and_eq_true, beq_iff_eq, List.length_nil] at hok
         rw [← hok.1.1]; rfl)

theorem null_is_zero (o : Opts) (tf m : Nat) (vi : Bool) (t : GoType) (hs : (vi && o.strict && isSliceIface t) = false) (x : GoVal)
    (hok : rtOK o m t x = true) (hn : isNull (refVal o tf m vi t x) = true) : norm (zeroVal 63 t) = norm x := by
  cases m with
  | zero => simp [rtOK] at hok
  | succ n =>
    cases t with
    | ptr e =>
      cases x with
      | nilPtr => rfl
      | ptr y =>
        simp only [rtOK, Bool.and_eq_true, Bool.not_eq_true'] at hok
        have : refVal o tf (n + 1) vi (.ptr e) (.ptr y) = refVal o tf n false e y := rfl
        rw [this, refVal_not_null o tf n false rfl _ _ hok.1.1 hok.1.2] at hn
        cases hn
      | _ => simp [rtOK] at hok
    | slice e =>
      cases x with
      | nilSlice =>
        exfalso
        cases e with
        | iface =>
          have hvs : (vi && o.strict) = false := by simpa [isSliceIface] using hs
          have : refVal o tf (n + 1) vi (.slice .iface) .nilSlice = .arr [] := by simp [refVal, hvs]
          rw [this] at hn; cases hn
        | _ => simp [refVal, isNull] at hn
      | slice xs => simp [refVal, isNull] at hn
      | _ => simp [rtOK] at hok
    | bytes =>
      cases x <;> first
        | (simp [rtOK] at hok; done)
        | (exfalso
           have h0 := bytesAsJV_not_null o.bytesAs []
           have h1 := fun b => bytesAsJV_not_null o.bytesAs b
           simp only [refVal] at hn
           first | (rw [h0] at hn; cases hn) | (rw [h1] at hn; cases hn))
    | _ => cases x <;> first | (simp [rtOK] at hok; done) | (simp [refVal, isNull] at hn; done)

theorem stepList_all (one : Registry → JV → Step) (g : GoVal → JV) :
    ∀ (xs : List GoVal), (∀ x ∈ xs, ∃ y, norm y = norm x ∧ ∀ r, one r (g x) = ⟨.ok y, r⟩) →
      ∃ ys, ys.map norm = xs.map norm ∧
        ∀ r acc, stepList one r (xs.map g) acc = ((some (acc.reverse ++ ys), .ok .nilPtr), r)
  | [], _ => ⟨[], rfl, by intro r acc; simp [stepList]⟩
  | x :: rest, h => by
    obtain ⟨y, hn, hy⟩ := h x List.mem_cons_self
    obtain ⟨ys, h2, h1⟩ := stepList_all one g rest (fun x' hx' => h x' (List.mem_cons_of_mem _ hx'))
    refine ⟨y :: ys, by simp [hn, h2], ?_⟩
    intro r acc
    simp only [List.map_cons, stepList, hy, h1]
    simp

theorem stepKvs_all (one : Registry → JV → Step) (g : GoVal → JV) :
    ∀ (kvs : List (Bytes × GoVal)), (∀ kv ∈ kvs, ∃ y, norm y = norm kv.2 ∧ ∀ r, one r (g kv.2) = ⟨.ok y, r⟩) →
      ∃ ys, (ys.map fun kv => (kv.1, norm kv.2)) = (kvs.map fun kv => (kv.1, norm kv.2)) ∧
        ∀ r acc, stepKvs one r (kvs.map fun kv => (kv.1, g kv.2)) acc = ((some (acc.reverse ++ ys), .ok .nilPtr), r)
  | [], _ => ⟨[], rfl, by intro r acc; simp [stepKvs]⟩
  | (k, x) :: rest, h => by
    obtain ⟨y, hn, hy⟩ := h (k, x) List.mem_cons_self
    obtain ⟨ys, h2, h1⟩ := stepKvs_all one g rest (fun x' hx' => h x' (List.mem_cons_of_mem _ hx'))
    refine ⟨(k, y) :: ys, by simp [hn, h2], ?_⟩
    intro r acc
    simp only at hy
    simp only [List.map_cons, stepKvs, hy, h1]
    simp

theorem wrapInt6 (n : Nat) (h : n < 256) : wrapInt 6 (n : Int) = (n : Int) := by
  have : intBits 6 = 8 := rfl
  simp only [wrapInt, this]
  have h2 : ((2 : Int) ^ 8) = 256 := rfl
  rw [h2]
  simp only [show ¬ (6 < 5) by omega, ↓reduceIte]
  omega

theorem stepList_bytes (r : Registry) : ∀ (b : Bytes) (acc : List GoVal),
    stepList (fun r' x => ⟨scalarSlot (.int 6) x none, r'⟩) r (b.map fun x => JV.int x.toNat) acc =
      ((some (acc.reverse ++ b.map fun x => GoVal.int x.toNat), .ok .nilPtr), r)
  | [], acc => by simp [stepList]
  | x :: rest, acc => by
    have hx : scalarSlot (.int 6) (.int (x.toNat : Int)) none = .ok (.int (x.toNat : Int)) := by
      simp only [scalarSlot, wrapInt6 x.toNat (UInt8.toNat_lt x)]
    simp only [List.map_cons, stepList, hx, stepList_bytes r rest]
    simp

theorem bytesOf_ints (b : Bytes) : bytesOf (b.map fun x => GoVal.int x.toNat) = .bytes b := by
  simp only [bytesOf, List.map_map, GoVal.bytes.injEq]
  conv => rhs; rw [← List.map_id b]
  apply List.map_congr_left
  intro x _
  simp

theorem bytesAsJV_array (o : Opts) (h : bytesAsArray o = true) (b : Bytes) :
    bytesAsJV o.bytesAs b = .arr (b.map fun x => .int x.toNat) := by
  simp only [bytesAsArray, Bool.and_eq_true, beq_iff_eq, bne_iff_ne, ne_eq] at h
  unfold bytesAsJV
  rw [if_neg h.2, if_pos h.1]

theorem isIface_hs (o : Opts) (t : GoType) : (isIface t && o.strict && isSliceIface t) = false := by
  cases ht : isIface t with
  | false => rfl
  | true => cases t <;> simp [isIface] at ht; simp [isSliceIface]

/-! ### the `,string` option: `strconv.Atoi` of the text the encoder writes, and the tag test of `setValue` -/

theorem digit_byte : ∀ d, d < 10 → isDigit (d.digitChar.toNat.toUInt8) = true ∧ (d.digitChar.toNat.toUInt8).toNat - 48 = d := by
  decide

theorem natOfDigits_append : ∀ (l1 l2 : Bytes) (acc : Nat),
    natOfDigits (l1 ++ l2) acc = (natOfDigits l1 acc).bind (natOfDigits l2)
  | [], l2, acc => rfl
  | c :: r, l2, acc => by
    simp only [List.cons_append, natOfDigits]
    split
    · exact natOfDigits_append r l2 _
    · rfl

def toB (cs : List Char) : Bytes := cs.map fun c => c.toNat.toUInt8

theorem natOfDigits_single (d acc : Nat) (hd : d < 10) : natOfDigits (toB (Nat.toDigits 10 d)) acc = some (acc * 10 + d) := by
  rw [Nat.toDigits_of_lt_base hd]
  obtain ⟨h1, h2⟩ := digit_byte d hd
  simp only [toB, List.map_cons, List.map_nil, natOfDigits, h1, ↓reduceIte, h2]

theorem natOfDigits_toDigits (n : Nat) : natOfDigits (toB (Nat.toDigits 10 n)) 0 = some n := by
  induction n using Nat.strongRecOn with
  | _ n ih =>
    by_cases hn : n < 10
    · rw [natOfDigits_single n 0 hn]; simp
    · have hq : 0 < n / 10 := by omega
      have hr : n % 10 < 10 := by omega
      have hsplit := Nat.toDigits_append_toDigits (b := 10) (n := n / 10) (d := n % 10) (by omega) hq hr
      have hn' : 10 * (n / 10) + n % 10 = n := by omega
      rw [hn'] at hsplit
      rw [← hsplit]
      simp only [toB, List.map_append]
      rw [natOfDigits_append]
      have := ih (n / 10) (by omega)
      simp only [toB] at this
      rw [this]
      simp only [Option.bind_some]
      have h2 := natOfDigits_single (n % 10) (n / 10) hr
      simp only [toB] at h2
      rw [h2]
      congr 1
      omega

theorem toB_toDigits_ne_nil (m : Nat) : toB (Nat.toDigits 10 m) ≠ [] := by
  intro h
  have := congrArg List.length h
  simp only [toB, List.length_map, List.length_nil] at this
  exact Nat.toDigits_ne_nil (List.eq_nil_of_length_eq_zero this)

theorem atoi_intText (i : Int) : atoi (intText i) = some i := by
  cases i with
  | ofNat m =>
    have hs : intText (Int.ofNat m) = toB (Nat.toDigits 10 m) := by
      show toB (toString m).toList = _
      rw [Nat.toString_eq_repr, Nat.toList_repr]
    rw [hs]
    have hk := natOfDigits_toDigits m
    have hne := toB_toDigits_ne_nil m
    generalize toB (Nat.toDigits 10 m) = s at hk hne
    cases s with
    | nil => exact absurd rfl hne
    | cons c r =>
      have hd : isDigit c = true := by
        cases hc : isDigit c with
        | true => rfl
        | false => simp [natOfDigits, hc] at hk
      have hc45 : c ≠ 45 := by
        intro h; subst h; revert hd; decide
      simp only [atoi, hc45, ↓reduceIte, hk]
      rfl
  | negSucc m =>
    have hs : intText (Int.negSucc m) = 45 :: toB (Nat.toDigits 10 (m + 1)) := by
      show toB ("-" ++ (m + 1).repr).toList = _
      rw [String.toList_append, Nat.toList_repr]
      rfl
    rw [hs]
    have hk := natOfDigits_toDigits (m + 1)
    have hne := toB_toDigits_ne_nil (m + 1)
    have hemp : (toB (Nat.toDigits 10 (m + 1))).isEmpty = false := by
      cases h : toB (Nat.toDigits 10 (m + 1)) with
      | nil => exact absurd h hne
      | cons _ _ => rfl
    simp only [atoi, ↓reduceIte, hemp, Bool.false_eq_true, hk]
    rfl


theorem splitComma_ne_nil : ∀ tag : Bytes, splitComma tag ≠ []
  | [] => by simp [splitComma]
  | c :: r => by
    simp only [splitComma]
    split
    · simp
    · split <;> simp

/-- the first part of a tag is a prefix of the tag -/
theorem splitComma_head_prefix : ∀ (tag p : Bytes) (ps : List Bytes), splitComma tag = p :: ps → ∃ rest, tag = p ++ rest
  | [], p, ps, h => by simp [splitComma] at h; exact ⟨[], by simp [h.1]⟩
  | c :: r, p, ps, h => by
    simp only [splitComma] at h
    by_cases hc : c = 44
    · simp only [hc, ↓reduceIte, List.cons.injEq] at h
      exact ⟨c :: r, by simp [← h.1]⟩
    · simp only [hc, ↓reduceIte] at h
      cases hsr : splitComma r with
      | nil => exact absurd hsr (splitComma_ne_nil r)
      | cons p' ps' =>
        rw [hsr] at h
        simp only [List.cons.injEq] at h
        obtain ⟨rest, hrest⟩ := splitComma_head_prefix r p' ps' hsr
        exact ⟨rest, by rw [← h.1, hrest]; rfl⟩

def strPat : Bytes := [44, 115, 116, 114, 105, 110, 103]

/-- an option `string` after the first comma shows as the substring `,string` -/
theorem strPat_infix : ∀ (tag : Bytes), sString ∈ (splitComma tag).tail →
    ∃ i, i ≤ tag.length ∧ (tag.drop i).take strPat.length = strPat
  | [], h => by simp [splitComma] at h
  | c :: r, h => by
    have lift : (∃ i, i ≤ r.length ∧ (r.drop i).take strPat.length = strPat) →
        ∃ i, i ≤ (c :: r).length ∧ ((c :: r).drop i).take strPat.length = strPat := by
      rintro ⟨i, hi, hd⟩
      exact ⟨i + 1, by simp; omega, by simpa using hd⟩
    simp only [splitComma] at h
    by_cases hc : c = 44
    · simp only [hc, ↓reduceIte, List.tail_cons] at h
      cases hsr : splitComma r with
      | nil => exact absurd hsr (splitComma_ne_nil r)
      | cons p' ps' =>
        rw [hsr] at h
        rcases List.mem_cons.1 h with h | h
        · obtain ⟨rest, hrest⟩ := splitComma_head_prefix r p' ps' hsr
          refine ⟨0, by omega, ?_⟩
          rw [hc, hrest, ← h]
          simp [strPat, sString]
        · exact lift (strPat_infix r (by rw [hsr]; exact h))
    · simp only [hc, ↓reduceIte] at h
      cases hsr : splitComma r with
      | nil => exact absurd hsr (splitComma_ne_nil r)
      | cons p' ps' =>
        rw [hsr] at h
        exact lift (strPat_infix r (by rw [hsr]; exact h))

theorem asStr_tagHasString (o : Opts) (h : FieldHdr) (ha : asStrOf o h = true) : tagHasString h.tag = true := by
  unfold asStrOf tagView at ha
  split at ha
  · rename_i r heq
    split at heq
    · unfold parseTag at heq
      cases hsp : splitComma h.tag with
      | nil => exact absurd hsp (splitComma_ne_nil _)
      | cons p opts =>
        rw [hsp] at heq
        simp only at heq
        split at heq
        · cases heq
        · simp only [Option.some.injEq] at heq
          rw [← heq] at ha
          simp only at ha
          have hmem : sString ∈ (splitComma h.tag).tail := by
            rw [hsp]; exact List.contains_iff_mem.1 ha
          obtain ⟨i, hi, hd⟩ := strPat_infix h.tag hmem
          unfold tagHasString
          rw [List.any_eq_true]
          exact ⟨i, List.mem_range.2 (by omega), by simpa [strPat] using hd⟩
    · simp only [Option.some.injEq] at heq
      rw [← heq] at ha
      cases ha
  · cases ha

theorem strSlot_bool (b : Bool) (e : IdxEntry) (htag : tagHasString e.tag = true) :
    scalarSlot .bool (.str (if b then sTrue else sFalse)) (some e) = .ok (.bool b) := by
  cases b <;> simp [scalarSlot, htag, sTrue, sFalse]

theorem strSlot_int (k : Nat) (i : Int) (e : IdxEntry) (htag : tagHasString e.tag = true) (hw : wrapInt k i = i) :
    scalarSlot (.int k) (.str (intText i)) (some e) = .ok (.int i) := by
  simp [scalarSlot, htag, atoi_intText, hw]

abbrev pureCF : Nat → ComposerFor := fun _ => composerPure

/-- `elemStep` on a pointer element is one level of `recomp` in mode 2 -/
theorem elemStep_eq (ck : Bytes) (f : Nat) (e : GoType) (r : Registry) (j : JV) :
    elemStep (recompG pureCF ck f) e r j =
      if isPtrT e then recompG pureCF ck (f + 1) r 2 j e none else recompG pureCF ck f r 2 j e none := by
  cases e <;> simp [elemStep, isPtrT, recompG, recBody]

theorem mapElemStep_eq (ck : Bytes) (f : Nat) (e : GoType) (he : isIface e = false) (r : Registry) (j : JV) :
    mapElemStep (recompG pureCF ck f) e r j =
      if isPtrT e then recompG pureCF ck (f + 1) r 2 j e none else recompG pureCF ck f r 1 j e none := by
  cases e <;> simp [mapElemStep, isPtrT, recompG, recBody] <;> simp [isIface] at he

/-- a bool or integer field written as a string under the `,string` option is read back by `setValue` -/
theorem strMember_ok (o : Opts) (ck : Bytes) (vf f : Nat) (h : FieldHdr) (t : GoType) (x : GoVal) (s : Bytes)
    (hrt : rtOK o vf t x = true) (ha : asStrOf o h = true) (hfl : isFloatT t = false) (hs : scalarText x = some s)
    (hf : vf ≤ f) (r : Registry) (idx : List Nat) :
    recompG pureCF ck f r 2 (.str s) t (some ⟨h.name, idx, h.tag⟩) = ⟨.ok x, r⟩ := by
  have htag : tagHasString (IdxEntry.mk h.name idx h.tag).tag = true := asStr_tagHasString o h ha
  cases vf with
  | zero => simp [rtOK] at hrt
  | succ vf' =>
    cases f with
    | zero => omega
    | succ f' =>
      cases x with
      | bool b =>
        cases t <;> simp only [rtOK, Bool.false_eq_true] at hrt
        simp only [scalarText, Option.some.injEq] at hs
        subst hs
        simp [recompG, recBody, isNull, strSlot_bool b _ htag]
      | int i =>
        cases t <;> simp only [rtOK, Bool.false_eq_true, beq_iff_eq] at hrt
        simp only [scalarText, Option.some.injEq] at hs
        subst hs
        simp [recompG, recBody, isNull, strSlot_int _ i _ htag hrt]
      | flt ft =>
        cases t <;> simp only [rtOK, Bool.false_eq_true] at hrt
        simp [isFloatT] at hfl
      | _ => simp [scalarText] at hs

/-- **Recompose inverts the reference encoding**, core induction (no `interface{}` slots, `[]byte`,
embedded fields or `,string`: `rtOK` excludes them): with an ideal registry, recomposing the tree the
reference encoder describes for `v` gives a value equal to `v` up to `norm`, in either mode of
`recomp` (`reflect.New` target or the slot itself), with any registry threaded through unchanged and
any fuel `f ≥ vf`. -/
theorem rt_core (o : Opts) (tf' : Nat) :
    ∀ (n vf : Nat), vf ≤ n → ∀ (f : Nat), vf ≤ f → ∀ (vi : Bool) (t : GoType) (v : GoVal),
      (vi && o.strict && isSliceIface t) = false → rtOK o vf t v = true →
      ∃ v', norm v' = norm v ∧ ∀ (r : Registry) (sf : Option IdxEntry) (mode : Nat), (mode = 1 ∨ mode = 2) →
        recompG pureCF o.createKey f r mode (refVal o (tf' + 1) vf vi t v) t sf = ⟨.ok v', r⟩ := by
  intro n
  induction n with
  | zero =>
    intro vf hvf f _ vi t v _ h
    have : vf = 0 := by omega
    subst this
    simp [rtOK] at h
  | succ n ih =>
    intro vf hvf f hf vi t v hs hok
    cases vf with
    | zero => simp [rtOK] at hok
    | succ vf' =>
    cases f with
    | zero => omega
    | succ f' =>
    have hvf' : vf' ≤ n := by omega
    have hf' : vf' ≤ f' := by omega
    have IH := ih vf' hvf'
    -- an element of a slice / array / map, at level vf'
    have elemOK : ∀ (e : GoType) (x : GoVal), rtOK o vf' e x = true →
        ∃ y, norm y = norm x ∧ ∀ r, elemStep (recompG pureCF o.createKey f') e r (refVal o (tf' + 1) vf' false e x) = ⟨.ok y, r⟩ := by
      intro e x hx
      cases hp : isPtrT e with
      | true =>
        obtain ⟨y, hy, hrec⟩ := IH (f' + 1) (by omega) false e x rfl hx
        exact ⟨y, hy, fun r => by rw [elemStep_eq, hp]; exact hrec r none 2 (Or.inr rfl)⟩
      | false =>
        obtain ⟨y, hy, hrec⟩ := IH f' hf' false e x rfl hx
        exact ⟨y, hy, fun r => by rw [elemStep_eq, hp]; exact hrec r none 2 (Or.inr rfl)⟩
    cases t with
    | bool =>
      cases v with
      | bool b =>
        refine ⟨.bool b, rfl, ?_⟩
        intro r sf mode hm
        rcases hm with rfl | rfl <;> simp [recompG, recBody, refVal, isNull, scalarSlot]
      | _ => simp [rtOK] at hok
    | int k =>
      cases v with
      | int i =>
        simp only [rtOK, beq_iff_eq] at hok
        refine ⟨.int i, rfl, ?_⟩
        intro r sf mode hm
        rcases hm with rfl | rfl <;> simp [recompG, recBody, refVal, isNull, scalarSlot, hok]
      | _ => simp [rtOK] at hok
    | float b =>
      cases v with
      | flt s =>
        refine ⟨.flt s, rfl, ?_⟩
        intro r sf mode hm
        rcases hm with rfl | rfl <;> simp [recompG, recBody, refVal, isNull, scalarSlot]
      | _ => simp [rtOK] at hok
    | str =>
      cases v with
      | str s =>
        refine ⟨.str s, rfl, ?_⟩
        intro r sf mode hm
        rcases hm with rfl | rfl <;> simp [recompG, recBody, refVal, isNull, scalarSlot]
      | _ => simp [rtOK] at hok
    | bytes =>
      cases v with
      | nilBytes =>
        simp only [rtOK] at hok
        refine ⟨.bytes [], rfl, ?_⟩
        intro r sf mode hm
        have hrv : refVal o (tf' + 1) (vf' + 1) vi .bytes .nilBytes = .arr ([].map fun x : UInt8 => JV.int x.toNat) :=
          bytesAsJV_array o hok []
        rw [hrv]
        rcases hm with rfl | rfl <;> simp [recompG, recBody, isNull, recBytes, stepList, listFinish, bytesOf]
      | bytes b =>
        simp only [rtOK] at hok
        refine ⟨.bytes b, rfl, ?_⟩
        intro r sf mode hm
        have hrv : refVal o (tf' + 1) (vf' + 1) vi .bytes (.bytes b) = .arr (b.map fun x => JV.int x.toNat) :=
          bytesAsJV_array o hok b
        rw [hrv]
        rcases hm with rfl | rfl <;>
          simp [recompG, recBody, isNull, recBytes, stepList_bytes, listFinish, bytesOf_ints]
      | _ => simp [rtOK] at hok
    | iface => cases v <;> simp [rtOK] at hok
    | ptr e =>
      cases v with
      | nilPtr =>
        refine ⟨.nilPtr, rfl, ?_⟩
        intro r sf mode hm
        rcases hm with rfl | rfl <;> simp [recompG, recBody, refVal, isNull, ptrStep, zeroVal, fuelZ]
      | ptr x =>
        simp only [rtOK, Bool.and_eq_true, Bool.not_eq_true'] at hok
        obtain ⟨y, hy, hrec⟩ := IH f' hf' false e x rfl hok.2
        refine ⟨.ptr y, by simp [norm, hy], ?_⟩
        intro r sf mode hm
        have hnn := refVal_not_null o (tf' + 1) vf' false rfl e x hok.1.1 hok.1.2
        have hrv : refVal o (tf' + 1) (vf' + 1) vi (.ptr e) (.ptr x) = refVal o (tf' + 1) vf' false e x := rfl
        rw [hrv]
        rcases hm with rfl | rfl <;>
          simp [recompG, recBody, hnn, ptrStep, hrec _ none 1 (Or.inl rfl)]
      | _ => simp [rtOK] at hok
    | slice e =>
      cases v with
      | nilSlice =>
        refine ⟨.slice [], rfl, ?_⟩
        intro r sf mode hm
        have hrv : refVal o (tf' + 1) (vf' + 1) vi (.slice e) .nilSlice = .arr [] := by
          cases e with
          | iface =>
            have hvs : (vi && o.strict) = false := by simpa [isSliceIface] using hs
            simp [refVal, hvs]
          | _ => simp [refVal]
        rw [hrv]
        rcases hm with rfl | rfl <;> simp [recompG, recBody, isNull, recSlice, stepList, listFinish]
      | slice xs =>
        simp only [rtOK, Bool.and_eq_true, Bool.not_eq_true', List.all_eq_true] at hok
        have hall : ∀ x ∈ xs, ∃ y, norm y = norm x ∧ ∀ r, elemStep (recompG pureCF o.createKey f') e r (refVal o (tf' + 1) vf' false e x) = ⟨.ok y, r⟩ :=
          fun x hx => elemOK e x (hok.2 x hx)
        obtain ⟨ys, hys, hst⟩ := stepList_all (elemStep (recompG pureCF o.createKey f') e)
          (refVal o (tf' + 1) vf' false e) xs hall
        refine ⟨.slice ys, by simp [norm, normL_eq_map, hys], ?_⟩
        intro r sf mode hm
        have hrv : refVal o (tf' + 1) (vf' + 1) vi (.slice e) (.slice xs) = .arr (xs.map (refVal o (tf' + 1) vf' false e)) := rfl
        rw [hrv]
        rcases hm with rfl | rfl <;> simp [recompG, recBody, isNull, recSlice, hst, listFinish]
      | _ => simp [rtOK] at hok
    | array k e =>
      cases v with
      | arr xs =>
        simp only [rtOK, Bool.and_eq_true, Bool.not_eq_true', List.all_eq_true, beq_iff_eq] at hok
        have hall : ∀ x ∈ xs, ∃ y, norm y = norm x ∧
            ∀ r, (fun r' x => recompG pureCF o.createKey f' r' 2 x e none) r (refVal o (tf' + 1) vf' false e x) = ⟨.ok y, r⟩ := by
          intro x hx
          obtain ⟨y, hy, hrec⟩ := IH f' hf' false e x rfl (hok.2 x hx)
          exact ⟨y, hy, fun r => hrec r none 2 (Or.inr rfl)⟩
        obtain ⟨ys, hys, hst⟩ := stepList_all (fun r' x => recompG pureCF o.createKey f' r' 2 x e none)
          (refVal o (tf' + 1) vf' false e) xs hall
        have hlen : ys.length = k := by
          have := congrArg List.length hys
          simp only [List.length_map] at this
          rw [this]; exact hok.1.1
        refine ⟨.arr ys, by simp [norm, normL_eq_map, hys], ?_⟩
        intro r sf mode hm
        have hrv : refVal o (tf' + 1) (vf' + 1) vi (.array k e) (.arr xs) = .arr (xs.map (refVal o (tf' + 1) vf' false e)) := rfl
        have htake : (xs.map (refVal o (tf' + 1) vf' false e)).take k = xs.map (refVal o (tf' + 1) vf' false e) := by
          apply List.take_of_length_le
          simp [hok.1.1]
        rw [hrv]
        rcases hm with rfl | rfl <;> simp [recompG, recBody, isNull, recArray, htake, hst, listFinish, hlen]
      | _ => simp [rtOK] at hok
    | map e =>
      cases v with
      | nilMap =>
        refine ⟨.map [], rfl, ?_⟩
        intro r sf mode hm
        have hrv : refVal o (tf' + 1) (vf' + 1) vi (.map e) .nilMap = .obj [] := rfl
        rw [hrv]
        rcases hm with rfl | rfl <;> simp [recompG, recBody, isNull, recMap, stepKvs, kvsFinish, mapFinish]
      | map kvs =>
        simp only [rtOK, Bool.and_eq_true, Bool.not_eq_true', List.all_eq_true] at hok
        have hall : ∀ kv ∈ kvs, ∃ y, norm y = norm kv.2 ∧
            ∀ r, mapElemStep (recompG pureCF o.createKey f') e r (refVal o (tf' + 1) vf' false e kv.2) = ⟨.ok y, r⟩ := by
          intro kv hkv
          cases hp : isPtrT e with
          | true =>
            obtain ⟨y, hy, hrec⟩ := IH (f' + 1) (by omega) false e kv.2 rfl (hok.2 kv hkv)
            exact ⟨y, hy, fun r => by rw [mapElemStep_eq _ _ _ hok.1, hp]; exact hrec r none 2 (Or.inr rfl)⟩
          | false =>
            obtain ⟨y, hy, hrec⟩ := IH f' hf' false e kv.2 rfl (hok.2 kv hkv)
            exact ⟨y, hy, fun r => by rw [mapElemStep_eq _ _ _ hok.1, hp]; exact hrec r none 1 (Or.inl rfl)⟩
        obtain ⟨ys, hys, hst⟩ := stepKvs_all (mapElemStep (recompG pureCF o.createKey f') e)
          (refVal o (tf' + 1) vf' false e) kvs hall
        refine ⟨.map ys, by simp [norm, normK_eq_map, hys], ?_⟩
        intro r sf mode hm
        have hrv : refVal o (tf' + 1) (vf' + 1) vi (.map e) (.map kvs) =
            .obj (kvs.map fun kv => (kv.1, refVal o (tf' + 1) vf' false e kv.2)) := rfl
        rw [hrv]
        rcases hm with rfl | rfl <;> simp [recompG, recBody, isNull, recMap, hst, kvsFinish, mapFinish]
      | _ => simp [rtOK] at hok
    | struct name pkg fs =>
      cases v with
      | struct vs =>
        simp only [rtOK, Bool.and_eq_true] at hok
        obtain ⟨hlen, hflds⟩ := fieldsRT_spec o (rtOK o vf') fs vs hok.2
        obtain ⟨v', hv', hrec⟩ := recStruct_flat o (fun vi ft fv => refVal o (tf' + 1) vf' vi ft fv)
          (refMembers o (fun vi ft fv => refVal o (tf' + 1) vf' vi ft fv) tf') (recompG pureCF o.createKey f')
          name pkg fs vs hok.1 hlen (by
            intro p h t x hp hx
            have hc := hflds p h t x hp hx
            cases hk : idxKeyOf h with
            | none =>
              simp only [fieldChk, hk] at hc
              exact ⟨fun _ => zeroLike_norm t x hc, fun k pk hk' => by cases hk'⟩
            | some k =>
              cases hpk : planKeyOf o h with
              | none =>
                simp only [fieldChk, hk, hpk] at hc
                exact ⟨fun _ => zeroLike_norm t x hc, fun k pk _ hpk' => by cases hpk'⟩
              | some pk =>
                simp only [fieldChk, hk, hpk, Bool.and_eq_true, Bool.not_eq_true'] at hc
                obtain ⟨hfl, hrt⟩ := hc
                cases hst : (if asStrOf o h = true then scalarText x else none) with
                | none =>
                  have hm : memberJV o (fun vi ft fv => refVal o (tf' + 1) vf' vi ft fv) h t x =
                      refVal o (tf' + 1) vf' (isIface t) t x := by
                    unfold memberJV; rw [hst]
                  rw [hm]
                  constructor
                  · intro hor
                    rcases hor with h1 | h1 | h1 | h1
                    · cases h1
                    · cases h1
                    · simp only [Bool.and_eq_true] at h1
                      exact empty_norm_zero o vf' t x hrt h1.2
                    · exact null_is_zero o (tf' + 1) vf' (isIface t) t (isIface_hs o t) x hrt h1
                  · intro _ _ _ _ _
                    obtain ⟨y, hy, hr⟩ := IH f' hf' (isIface t) t x (isIface_hs o t) hrt
                    exact ⟨y, fun r idx => hr r (some _) 2 (Or.inr rfl), hy⟩
                | some s =>
                  have hm : memberJV o (fun vi ft fv => refVal o (tf' + 1) vf' vi ft fv) h t x = .str s := by
                    unfold memberJV; rw [hst]
                  have ha : asStrOf o h = true := by
                    cases ha : asStrOf o h with
                    | true => rfl
                    | false => simp [ha] at hst
                  have hsx : scalarText x = some s := by simpa [ha] using hst
                  have hft : isFloatT t = false := by simpa [ha] using hfl
                  rw [hm]
                  constructor
                  · intro hor
                    rcases hor with h1 | h1 | h1 | h1
                    · cases h1
                    · cases h1
                    · simp only [Bool.and_eq_true] at h1
                      exact empty_norm_zero o vf' t x hrt h1.2
                    · cases h1
                  · intro _ _ _ _ _
                    exact ⟨x, fun r idx => strMember_ok o o.createKey vf' f' h t x s hrt ha hft hsx hf' r idx, rfl⟩)
        refine ⟨v', hv', ?_⟩
        intro r sf mode hm
        have hrv : refVal o (tf' + 1) (vf' + 1) vi (.struct name pkg fs) (.struct vs) =
            .obj (createMember o name pkg ++ refPass o (fun vi ft fv => refVal o (tf' + 1) vf' vi ft fv)
              (refMembers o (fun vi ft fv => refVal o (tf' + 1) vf' vi ft fv) tf') vs fs 0) := rfl
        rw [hrv]
        rcases hm with rfl | rfl <;> simp [recompG, recBody, isNull, hrec]
      | _ => simp [rtOK] at hok


/-! ## the options as the code reads them: with `UseTags`, `KeyExact` is not read (C15-usetags-keyexact) -/

theorem altTagPass_te (ke nest : Bool) (sub sub' : List (FieldHdr × GoType) → List Finfo) (hs : ∀ fs, sub fs = sub' fs) :
    ∀ (fs : List (FieldHdr × GoType)) (i : Nat), altTagPass true ke nest sub fs i = altTagPass true true nest sub' fs i := by
  intro fs
  induction fs with
  | nil => intro i; rfl
  | cons hd rest ih =>
    intro i
    obtain ⟨h, t⟩ := hd
    simp only [altTagPass, ih, hs, Bool.true_or, Bool.or_true]

theorem altTagFields_te (ke nest : Bool) : ∀ (tf : Nat) (fs : List (FieldHdr × GoType)),
    altTagFields true ke nest tf fs = altTagFields true true nest tf fs := by
  intro tf
  induction tf with
  | zero => intro fs; rfl
  | succ n ih => intro fs; simp only [altTagFields]; exact altTagPass_te ke nest _ _ ih fs 0

theorem planOf_alt_eff (o : Opts) (tf : Nat) (om : Bool) (fs : List (FieldHdr × GoType)) :
    planOf .alt Dev.current o tf om fs = planOf .alt Dev.current (effOpts o) tf om fs := by
  cases hu : o.useTags with
  | false => simp [effOpts, hu]
  | true =>
    have e1 : (effOpts o).useTags = true := by simp [effOpts, hu]
    have e2 : (effOpts o).keyExact = true := by simp [effOpts, hu]
    have e3 : (effOpts o).nestEmbed = o.nestEmbed := by simp [effOpts, hu]
    simp only [planOf]
    rw [altFindex_cases, altFindex_cases]
    simp only [hu, e1, e2, e3, ↓reduceIte]
    rw [show Dev.current.tagExact = true from rfl, altTagFields_te o.keyExact]

theorem encVal_opts_congr (q : Quirks) (o o' : Opts) (plan : Bool → List (FieldHdr × GoType) → List Finfo)
    (h1 : o'.bytesAs = o.bytesAs) (h2 : o'.strict = o.strict) (h3 : o'.createKey = o.createKey)
    (h4 : o'.fullTypePath = o.fullTypePath) :
    ∀ (vf : Nat) (vi ie oe : Bool) (t : GoType) (v : GoVal), encVal q o' plan vf vi ie oe t v = encVal q o plan vf vi ie oe t v := by
  intro vf
  induction vf with
  | zero => intro vi ie oe t v; rfl
  | succ n ih =>
    intro vi ie oe t v
    have ihf : ∀ vi ie oe, encVal q o' plan n vi ie oe = encVal q o plan n vi ie oe := by
      intro vi ie oe; funext t v; exact ih vi ie oe t v
    cases t <;> cases v <;> simp only [encVal, ih, ihf, h1, h2, createMember, h3, h4]

theorem encode_alt_eff (o : Opts) (tf vf : Nat) (t : GoType) (v : GoVal) :
    encode .alt Dev.current (effOpts o) tf vf t v = encode .alt Dev.current o tf vf t v := by
  unfold encode
  have hq : quirksOf .alt Dev.current (effOpts o) = quirksOf .alt Dev.current o := rfl
  have hp : planOf .alt Dev.current (effOpts o) tf = planOf .alt Dev.current o tf := by
    funext om fs; exact (planOf_alt_eff o tf om fs).symm
  rw [hq, hp]
  apply encVal_opts_congr <;> (unfold effOpts; split <;> rfl)


theorem effOpts_tagcond (o : Opts) : (!(effOpts o).useTags || (effOpts o).keyExact) = true := by
  unfold effOpts
  cases hu : o.useTags <;> simp [hu]

/-- for `alt` as it is now, read under the options as the code reads them, NO run meets a deviation:
the only live one (`tagExact`) is absorbed by `effOpts` -/
theorem untriggered_alt_eff (o : Opts) (tf : Nat) (plan : List (FieldHdr × GoType) → List Finfo) :
    ∀ (vf : Nat) (vi ie : Bool) (t : GoType) (v : GoVal),
      untriggered .alt Dev.current (effOpts o) tf plan vf vi ie t v = true := by
  intro vf
  induction vf with
  | zero => intro vi ie t v; rfl
  | succ n ih =>
    intro vi ie t v
    have hq : quirksOf .alt Dev.current (effOpts o) = ⟨false, false, false, false, false, false⟩ := rfl
    have hl : Dev.current.leak = false := rfl
    have ht : Dev.current.tagExact = true := rfl
    have htc := effOpts_tagcond o
    cases t <;> cases v <;>
      simp only [untriggered, hq, ih, hl, ht, Bool.false_and, Bool.not_false, Bool.and_false, Bool.and_true, List.all_eq_true,
        implies_true, Bool.true_and, childOE, Bool.true_or, Bool.not_true, Bool.false_or]
    all_goals first
      | rfl
      | (rw [htc, Bool.true_and, List.all_eq_true]
         intro fi _
         split <;> rfl)

end OjgVerif.Reflect
