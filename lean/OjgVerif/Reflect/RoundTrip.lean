import OjgVerif.Reflect.Lemmas
import OjgVerif.Reflect.RegLemmas
/-! # Recompose inverts Decompose on values (C16, title clause): definitions and lemmas

`norm` is the equality the property can mean: "deeply equal, nil and empty slices or maps not
distinguished" — a nil slice, map or `[]byte` is identified with the empty one, and (as
`reflect.DeepEqual` does, `-0.0 == 0.0`) a float `-0` with `0`. Two values are *equal in the sense of
C16* when their `norm`s are equal.

`rtOK o vf t v` is the executable side condition of the round-trip theorem: `v` is a value of type `t`
(fuel `vf` suffices), integers are inside the width of their slot, and every struct type met satisfies
`structOK` (the naming plan of the encoder under `o` and the field index of the recomposer find each
other: see there). -/
namespace OjgVerif.Reflect
open OjgVerif

/-! ## equality up to nil ~ empty -/

mutual
  def norm : GoVal → GoVal
    | .flt t => if t = [45, 48] then .flt [48] else .flt t
    | .nilBytes => .bytes []
    | .nilSlice => .slice []
    | .slice xs => .slice (normL xs)
    | .arr xs => .arr (normL xs)
    | .nilMap => .map []
    | .map kvs => .map (normK kvs)
    | .ptr v => .ptr (norm v)
    | .iface t v => .iface t (norm v)
    | .struct fs => .struct (normL fs)
    | .bool b => .bool b
    | .int i => .int i
    | .str s => .str s
    | .bytes b => .bytes b
    | .nilPtr => .nilPtr
    | .nilIface => .nilIface
  def normL : List GoVal → List GoVal
    | [] => []
    | x :: r => norm x :: normL r
  def normK : List (Bytes × GoVal) → List (Bytes × GoVal)
    | [] => []
    | (k, x) :: r => (k, norm x) :: normK r
end

theorem normL_eq_map : ∀ xs : List GoVal, normL xs = xs.map norm
  | [] => rfl
  | x :: r => by simp [normL, normL_eq_map r]

theorem normK_eq_map : ∀ xs : List (Bytes × GoVal), normK xs = xs.map fun kv => (kv.1, norm kv.2)
  | [] => rfl
  | (k, x) :: r => by simp [normK, normK_eq_map r]

/-! ## small list facts -/

theorem listSet_length : ∀ (l : List GoVal) (i : Nat) (x : GoVal), (listSet l i x).length = l.length
  | [], _, _ => rfl
  | _ :: _, 0, _ => rfl
  | a :: r, i + 1, x => by simp [listSet, listSet_length r i x]

theorem listSet_get_same : ∀ (l : List GoVal) (i : Nat) (x : GoVal), i < l.length → (listSet l i x)[i]? = some x
  | [], _, _, h => by simp at h
  | _ :: _, 0, _, _ => rfl
  | a :: r, i + 1, x, h => by
    simp only [listSet, List.getElem?_cons_succ]
    exact listSet_get_same r i x (by simpa using h)

theorem listSet_get_other : ∀ (l : List GoVal) (i j : Nat) (x : GoVal), j ≠ i → (listSet l i x)[j]? = l[j]?
  | [], _, _, _, _ => rfl
  | _ :: _, 0, j, _, h => by
    cases j with
    | zero => exact absurd rfl h
    | succ j => rfl
  | a :: r, i + 1, j, x, h => by
    cases j with
    | zero => rfl
    | succ j =>
      simp only [listSet, List.getElem?_cons_succ]
      exact listSet_get_other r i j x (by omega)

theorem jvLookup_none_of_not_mem : ∀ (M : List (Bytes × JV)) (c : Bytes), (∀ m, (c, m) ∉ M) → jvLookup M c = none
  | [], _, _ => rfl
  | (k, v) :: r, c, h => by
    simp only [jvLookup]
    by_cases hk : k = c
    · subst hk; exact absurd (List.mem_cons_self) (h v)
    · simp only [hk, ↓reduceIte]
      exact jvLookup_none_of_not_mem r c (fun m hm => h m (List.mem_cons_of_mem _ hm))

theorem jvLookup_some_of_unique : ∀ (M : List (Bytes × JV)) (c : Bytes) (m0 : JV), (c, m0) ∈ M →
    (∀ m, (c, m) ∈ M → m = m0) → jvLookup M c = some m0
  | [], _, _, h, _ => by cases h
  | (k, v) :: r, c, m0, h, hu => by
    simp only [jvLookup]
    by_cases hk : k = c
    · subst hk
      simp only [↓reduceIte]
      rw [hu v List.mem_cons_self]
    · simp only [hk, ↓reduceIte]
      apply jvLookup_some_of_unique r c m0
      · rcases List.mem_cons.1 h with h | h
        · cases h; exact absurd rfl hk
        · exact h
      · exact fun m hm => hu m (List.mem_cons_of_mem _ hm)


/-! ## a struct level without embedded fields: the recomposer's walk over the field index -/

theorem mem_kvInsert {α : Type} (k : Bytes) (v : α) : ∀ (l : List (Bytes × α)) (x : Bytes × α),
    x ∈ kvInsert k v l → x = (k, v) ∨ x ∈ l
  | [], x, h => by simp [kvInsert] at h; exact Or.inl h
  | (k', v') :: r, x, h => by
    simp only [kvInsert] at h
    by_cases hk : k' = k
    · simp only [hk, ↓reduceIte] at h
      rcases List.mem_cons.1 h with h | h
      · exact Or.inl h
      · exact Or.inr (List.mem_cons_of_mem _ h)
    · simp only [hk, ↓reduceIte] at h
      rcases List.mem_cons.1 h with h | h
      · exact Or.inr (h ▸ List.mem_cons_self)
      · rcases mem_kvInsert k v r x h with h | h
        · exact Or.inl h
        · exact Or.inr (List.mem_cons_of_mem _ h)

theorem mem_kvInsert_self {α : Type} (k : Bytes) (v : α) : ∀ (l : List (Bytes × α)), (k, v) ∈ kvInsert k v l
  | [] => by simp [kvInsert]
  | (k', v') :: r => by
    simp only [kvInsert]
    by_cases hk : k' = k
    · simp [hk]
    · simp only [hk, ↓reduceIte]; exact List.mem_cons_of_mem _ (mem_kvInsert_self k v r)

theorem mem_kvInsert_of_ne {α : Type} (k : Bytes) (v : α) : ∀ (l : List (Bytes × α)) (x : Bytes × α),
    x ∈ l → x.1 ≠ k → x ∈ kvInsert k v l
  | [], _, h, _ => by cases h
  | (k', v') :: r, x, h, hne => by
    simp only [kvInsert]
    by_cases hk : k' = k
    · simp only [hk, ↓reduceIte]
      rcases List.mem_cons.1 h with h | h
      · subst h; exact absurd hk hne
      · exact List.mem_cons_of_mem _ h
    · simp only [hk, ↓reduceIte]
      rcases List.mem_cons.1 h with h | h
      · subst h; exact List.mem_cons_self
      · exact List.mem_cons_of_mem _ (mem_kvInsert_of_ne k v r x h hne)

/-- the key under which `indexType` files a field that is not embedded (`none`: unexported, or `"-"`) -/
def idxKeyOf (h : FieldHdr) : Option Bytes :=
  if unexported h.name then none
  else if h.tag.isEmpty then some h.name else indexKey h.name h.tag

/-- what the tag says under the options: `none` = the field is not written -/
def tagView (o : Opts) (h : FieldHdr) : Option (Bytes × Bool × Bool) :=
  if o.useTags && !h.tag.isEmpty then parseTag h.tag else some ([], false, false)

/-- the key the encoders write a (not flattened) field under (`none`: not written at all) -/
def planKeyOf (o : Opts) (h : FieldHdr) : Option Bytes :=
  if unexported h.name then none
  else match tagView o h with
    | none => none
    | some r => some (refKey o h r.1)

def tagOmitOf (o : Opts) (h : FieldHdr) : Bool :=
  match tagView o h with
  | some r => r.2.1
  | none => false

def asStrOf (o : Opts) (h : FieldHdr) : Bool :=
  match tagView o h with
  | some r => r.2.2
  | none => false

/-- the member names `recomp` tries for an index entry, in this order -/
def candidates (k name : Bytes) : List Bytes := [k, name, lowerFirst name, asciiLowerAll (lowerFirst name)]

/-- field `p` of `fs` is found again: the key the encoder writes it under is one of the names the
recomposer tries for it; no OTHER field's key and not the create key is one of those names; no other
field is filed under the same index key; no `,string` option in force; not embedded -/
def fieldOKAt (o : Opts) (fs : List (FieldHdr × GoType)) (h : FieldHdr) (p : Nat) : Bool :=
  !h.embedded && !asStrOf o h &&
  match idxKeyOf h with
  | none => true
  | some k =>
    (match planKeyOf o h with
      | some pk => (candidates k h.name).contains pk
      | none => true) &&
    (o.createKey.isEmpty || !(candidates k h.name).contains o.createKey) &&
    fs.zipIdx.all fun hq =>
      hq.2 == p ||
        ((match planKeyOf o hq.1.1 with
          | some pk' => !(candidates k h.name).contains pk'
          | none => true) && idxKeyOf hq.1.1 != some k)

/-- every field of the struct is found again (see `fieldOKAt`) -/
def structOK (o : Opts) (fs : List (FieldHdr × GoType)) : Bool :=
  fs.zipIdx.all fun hp => fieldOKAt o fs hp.1.1 hp.2

theorem structOK_at {o : Opts} {fs : List (FieldHdr × GoType)} (hs : structOK o fs = true) {p : Nat} {h : FieldHdr} {t : GoType}
    (hp : fs[p]? = some (h, t)) : fieldOKAt o fs h p = true := by
  have := (List.all_eq_true.1 hs) ((h, t), p) (List.mem_zipIdx_iff_getElem?.2 hp)
  exact this

theorem fieldOKAt_other {o : Opts} {fs : List (FieldHdr × GoType)} {h : FieldHdr} {p : Nat} {k : Bytes}
    (hf : fieldOKAt o fs h p = true) (hk : idxKeyOf h = some k) {q : Nat} {h' : FieldHdr} {t' : GoType}
    (hq : fs[q]? = some (h', t')) (hne : q ≠ p) :
    (∀ pk', planKeyOf o h' = some pk' → pk' ∉ candidates k h.name) ∧ idxKeyOf h' ≠ some k := by
  simp only [fieldOKAt, hk, Bool.and_eq_true] at hf
  have := (List.all_eq_true.1 hf.2.2) ((h', t'), q) (List.mem_zipIdx_iff_getElem?.2 hq)
  simp only [Bool.or_eq_true, beq_iff_eq, hne, false_or, Bool.and_eq_true, bne_iff_ne, ne_eq] at this
  refine ⟨?_, this.2⟩
  intro pk' hpk hmem
  have h1 := this.1
  rw [hpk] at h1
  simp only [Bool.not_eq_true', ] at h1
  have := List.contains_iff_mem.2 hmem
  rw [this] at h1
  cases h1


/-! ### the field index of a struct without embedded fields -/

def NoEmb (fs : List (FieldHdr × GoType)) : Prop := ∀ ht ∈ fs, ht.1.embedded = false

theorem indexFields_cons_noEmb (h : FieldHdr) (t : GoType) (rest : List (FieldHdr × GoType)) (i : Nat)
    (he : h.embedded = false) :
    indexFields ((h, t) :: rest) i =
      if unexported h.name then indexFields rest (i + 1)
      else match idxKeyOf h with
        | none => indexFields rest (i + 1)
        | some k => kvInsert k ⟨h.name, [i], h.tag⟩ (indexFields rest (i + 1)) := by
  simp only [indexFields, he, Bool.false_eq_true, ↓reduceIte, plainEntry, idxKeyOf]
  by_cases hu : unexported h.name = true
  · simp [hu]
  · simp only [hu, Bool.false_eq_true, ↓reduceIte]
    by_cases ht : h.tag.isEmpty = true
    · simp [ht]
    · simp only [ht, Bool.false_eq_true, ↓reduceIte, Bool.not_false]
      rfl

theorem index_sound : ∀ (fs : List (FieldHdr × GoType)) (i0 : Nat), NoEmb fs →
    ∀ ke ∈ indexFields fs i0, ∃ p h t, fs[p]? = some (h, t) ∧ idxKeyOf h = some ke.1 ∧ ke.2 = ⟨h.name, [i0 + p], h.tag⟩
  | [], _, _, ke, hm => by simp [indexFields] at hm
  | (h, t) :: rest, i0, hne, ke, hm => by
    have he : h.embedded = false := hne (h, t) List.mem_cons_self
    have hne' : NoEmb rest := fun ht hht => hne ht (List.mem_cons_of_mem _ hht)
    have lift : ke ∈ indexFields rest (i0 + 1) →
        ∃ p h' t', ((h, t) :: rest)[p]? = some (h', t') ∧ idxKeyOf h' = some ke.1 ∧ ke.2 = ⟨h'.name, [i0 + p], h'.tag⟩ := by
      intro hm'
      obtain ⟨p, h', t', h1, h2, h3⟩ := index_sound rest (i0 + 1) hne' ke hm'
      exact ⟨p + 1, h', t', by simpa using h1, h2, by rw [h3]; congr 2; omega⟩
    rw [indexFields_cons_noEmb h t rest i0 he] at hm
    by_cases hu : unexported h.name = true
    · simp only [hu, ↓reduceIte] at hm; exact lift hm
    · simp only [hu, Bool.false_eq_true, ↓reduceIte] at hm
      cases hk : idxKeyOf h with
      | none => simp only [hk] at hm; exact lift hm
      | some k =>
        simp only [hk] at hm
        rcases mem_kvInsert _ _ _ _ hm with hm | hm
        · subst hm; exact ⟨0, h, t, rfl, hk, rfl⟩
        · exact lift hm

/-- no two fields are filed under one index key -/
def IdxDistinct (fs : List (FieldHdr × GoType)) : Prop :=
  ∀ (p q : Nat) (h : FieldHdr) (t : GoType) (h' : FieldHdr) (t' : GoType) (k : Bytes),
    fs[p]? = some (h, t) → fs[q]? = some (h', t') → p ≠ q → idxKeyOf h = some k → idxKeyOf h' ≠ some k

theorem index_complete : ∀ (fs : List (FieldHdr × GoType)) (i0 : Nat), NoEmb fs → IdxDistinct fs →
    ∀ p h t k, fs[p]? = some (h, t) → idxKeyOf h = some k → (k, (⟨h.name, [i0 + p], h.tag⟩ : IdxEntry)) ∈ indexFields fs i0
  | [], _, _, _, p, h, t, k, hp, _ => by simp at hp
  | (h0, t0) :: rest, i0, hne, hd, p, h, t, k, hp, hk => by
    have he : h0.embedded = false := hne (h0, t0) List.mem_cons_self
    have hne' : NoEmb rest := fun ht hht => hne ht (List.mem_cons_of_mem _ hht)
    have hd' : IdxDistinct rest := by
      intro p q h t h' t' k h1 h2 hpq
      exact hd (p + 1) (q + 1) h t h' t' k (by simpa using h1) (by simpa using h2) (by omega)
    rw [indexFields_cons_noEmb h0 t0 rest i0 he]
    cases p with
    | zero =>
      simp only [List.getElem?_cons_zero, Option.some.injEq, Prod.mk.injEq] at hp
      obtain ⟨rfl, rfl⟩ := hp
      have hu : unexported h0.name = false := by
        cases hu : unexported h0.name with
        | false => rfl
        | true => simp [idxKeyOf, hu] at hk
      simp only [hu, Bool.false_eq_true, ↓reduceIte, hk, Nat.add_zero]
      exact mem_kvInsert_self _ _ _
    | succ p' =>
      have hp' : rest[p']? = some (h, t) := by simpa using hp
      have ih := index_complete rest (i0 + 1) hne' hd' p' h t k hp' hk
      have harith : i0 + (p' + 1) = i0 + 1 + p' := by omega
      rw [harith]
      by_cases hu : unexported h0.name = true
      · simp only [hu, ↓reduceIte]; exact ih
      · simp only [hu, Bool.false_eq_true, ↓reduceIte]
        cases hk0 : idxKeyOf h0 with
        | none => exact ih
        | some k0 =>
          simp only
          apply mem_kvInsert_of_ne _ _ _ _ ih
          intro hkk
          simp only at hkk
          exact hd 0 (p' + 1) h0 t0 h t k0 rfl (by simpa using hp') (by omega) hk0 (hkk ▸ hk)

/-! ### the members the reference encoder writes for a struct without embedded fields -/

theorem isIface_match (enc : Bool → GoType → GoVal → JV) (t : GoType) (x : GoVal) (key : Bytes) :
    (match t with
      | .iface => [(key, enc true t x)]
      | _ => [(key, enc false t x)]) = [(key, enc (isIface t) t x)] := by
  cases t <;> rfl

theorem refField_eq (o : Opts) (enc : Bool → GoType → GoVal → JV) (h : FieldHdr) (t : GoType) (x : GoVal)
    (hu : unexported h.name = false) (hs : asStrOf o h = false) :
    refField o enc h t x =
      match planKeyOf o h with
      | none => []
      | some pk => if tagOmitOf o h && isEmptyVal x then [] else [(pk, enc (isIface t) t x)] := by
  unfold asStrOf at hs
  unfold refField planKeyOf tagOmitOf
  rw [show (if (o.useTags && !h.tag.isEmpty) = true then parseTag h.tag else some ([], false, false)) = tagView o h from rfl]
  revert hs
  generalize tagView o h = tv
  intro hs
  cases tv with
  | none => simp [hu]
  | some r =>
    obtain ⟨p, tagOmit, asStr⟩ := r
    simp only at hs
    subst hs
    simp only [hu, Bool.false_eq_true, ↓reduceIte]
    cases t <;> rfl

theorem refPass_mem (o : Opts) (enc : Bool → GoType → GoVal → JV)
    (sub : List (FieldHdr × GoType) → List GoVal → List (Bytes × JV)) (vs : List GoVal) :
    ∀ (fs : List (FieldHdr × GoType)) (i0 : Nat), NoEmb fs → ∀ km,
      (km ∈ refPass o enc sub vs fs i0 ↔
        ∃ p h t x, fs[p]? = some (h, t) ∧ unexported h.name = false ∧ vs[i0 + p]? = some x ∧ km ∈ refField o enc h t x)
  | [], _, _, km => by simp [refPass]
  | (h0, t0) :: rest, i0, hne, km => by
    have he : h0.embedded = false := hne (h0, t0) List.mem_cons_self
    have hne' : NoEmb rest := fun ht hht => hne ht (List.mem_cons_of_mem _ hht)
    have ih := refPass_mem o enc sub vs rest (i0 + 1) hne' km
    have shift : (∃ p h t x, rest[p]? = some (h, t) ∧ unexported h.name = false ∧ vs[i0 + 1 + p]? = some x ∧ km ∈ refField o enc h t x) ↔
        (∃ p h t x, ((h0, t0) :: rest)[p + 1]? = some (h, t) ∧ unexported h.name = false ∧ vs[i0 + (p + 1)]? = some x ∧ km ∈ refField o enc h t x) := by
      constructor
      · rintro ⟨p, h, t, x, h1, h2, h3, h4⟩
        exact ⟨p, h, t, x, by simpa using h1, h2, by rw [show i0 + (p + 1) = i0 + 1 + p by omega]; exact h3, h4⟩
      · rintro ⟨p, h, t, x, h1, h2, h3, h4⟩
        exact ⟨p, h, t, x, by simpa using h1, h2, by rw [show i0 + 1 + p = i0 + (p + 1) by omega]; exact h3, h4⟩
    simp only [refPass, he, Bool.false_and, Bool.false_eq_true, ↓reduceIte]
    by_cases hu : unexported h0.name = true
    · simp only [hu, ↓reduceIte]
      rw [ih, shift]
      constructor
      · rintro ⟨p, h, t, x, hh⟩; exact ⟨p + 1, h, t, x, hh⟩
      · rintro ⟨p, h, t, x, h1, h2, h3, h4⟩
        cases p with
        | zero =>
          simp only [List.getElem?_cons_zero, Option.some.injEq, Prod.mk.injEq] at h1
          rw [← h1.1, hu] at h2; cases h2
        | succ p => exact ⟨p, h, t, x, h1, h2, h3, h4⟩
    · have hu' : unexported h0.name = false := by simpa using hu
      simp only [hu, Bool.false_eq_true, ↓reduceIte]
      cases hx : vs[i0]? with
      | none =>
        simp only
        rw [ih, shift]
        constructor
        · rintro ⟨p, h, t, x, hh⟩; exact ⟨p + 1, h, t, x, hh⟩
        · rintro ⟨p, h, t, x, h1, h2, h3, h4⟩
          cases p with
          | zero => simp only [Nat.add_zero, hx] at h3; cases h3
          | succ p => exact ⟨p, h, t, x, h1, h2, h3, h4⟩
      | some x0 =>
        simp only [List.mem_append]
        rw [ih, shift]
        constructor
        · rintro (⟨p, h, t, x, hh⟩ | hm)
          · exact ⟨p + 1, h, t, x, hh⟩
          · exact ⟨0, h0, t0, x0, rfl, hu', by simpa using hx, hm⟩
        · rintro ⟨p, h, t, x, h1, h2, h3, h4⟩
          cases p with
          | zero =>
            simp only [List.getElem?_cons_zero, Option.some.injEq, Prod.mk.injEq] at h1
            simp only [Nat.add_zero, hx, Option.some.injEq] at h3
            obtain ⟨rfl, rfl⟩ := h1
            subst h3
            exact Or.inr h4
          | succ p => exact Or.inl ⟨p, h, t, x, h1, h2, h3, h4⟩

/-! ### which member the recomposer picks for an index entry -/

theorem fieldDatum_none (vm : List (Bytes × JV)) (k : Bytes) (e : IdxEntry)
    (hn : ∀ c ∈ candidates k e.name, jvLookup vm c = none) : fieldDatum vm k e = none := by
  simp only [fieldDatum, hn k (by simp [candidates]), hn e.name (by simp [candidates]),
    hn (lowerFirst e.name) (by simp [candidates]), hn (asciiLowerAll (lowerFirst e.name)) (by simp [candidates])]

theorem fieldDatum_some (vm : List (Bytes × JV)) (k : Bytes) (e : IdxEntry) (pk : Bytes) (m0 : JV)
    (hs : jvLookup vm pk = some m0) (hin : pk ∈ candidates k e.name)
    (hn : ∀ c ∈ candidates k e.name, c ≠ pk → jvLookup vm c = none) : fieldDatum vm k e = some m0 := by
  simp only [fieldDatum]
  by_cases h1 : k = pk
  · rw [h1, hs]
  · rw [hn k (by simp [candidates]) h1]
    by_cases h2 : e.name = pk
    · rw [h2, hs]
    · rw [hn e.name (by simp [candidates]) h2]
      by_cases h3 : lowerFirst e.name = pk
      · rw [h3, hs]
      · rw [hn (lowerFirst e.name) (by simp [candidates]) h3]
        by_cases h4 : asciiLowerAll (lowerFirst e.name) = pk
        · rw [h4, hs]
        · exfalso
          simp only [candidates, List.mem_cons, List.not_mem_nil, or_false] at hin
          rcases hin with h | h | h | h
          · exact h1 h.symm
          · exact h2 h.symm
          · exact h3 h.symm
          · exact h4 h.symm


/-! ### the walk of `recomp` over the index of a struct without embedded fields -/

/-- slot `p` holds a value equal (up to `norm`) to the original field value -/
def SlotGood (vs : List GoVal) (p : Nat) (w : GoVal) : Prop := ∃ v, vs[p]? = some v ∧ norm w = norm v

def EntOK (fs : List (FieldHdr × GoType)) (vs : List GoVal) (vm : List (Bytes × JV))
    (setv : Registry → JV → GoType → IdxEntry → Step) (ke : Bytes × IdxEntry) : Prop :=
  ∃ p h t, fs[p]? = some (h, t) ∧ ke.2.index = [p] ∧ unexported h.name = false ∧
    (((fieldDatum vm ke.1 ke.2 = none ∨ ∃ m, fieldDatum vm ke.1 ke.2 = some m ∧ isNull m = true) ∧
        SlotGood vs p (zeroVal 63 t)) ∨
     (∃ m x, fieldDatum vm ke.1 ke.2 = some m ∧ isNull m = false ∧ (∀ r, setv r m t ke.2 = ⟨.ok x, r⟩) ∧ SlotGood vs p x))

def InvF (fs : List (FieldHdr × GoType)) (vs : List GoVal) (rem : List (Bytes × IdxEntry)) (ws : List GoVal) : Prop :=
  ws.length = fs.length ∧
    ∀ p h t, fs[p]? = some (h, t) →
      ∃ w, ws[p]? = some w ∧ (SlotGood vs p w ∨ (w = zeroVal 63 t ∧ ∃ ke ∈ rem, ke.2.index = [p]))

theorem stepFields_flat (name pkg : Bytes) (fs : List (FieldHdr × GoType)) (vs : List GoVal) (vm : List (Bytes × JV))
    (zero : GoType → GoVal) (setv : Registry → JV → GoType → IdxEntry → Step) :
    ∀ (I : List (Bytes × IdxEntry)) (ws : List GoVal),
      (∀ ke ∈ I, EntOK fs vs vm setv ke) → InvF fs vs I ws →
      ∃ ws', InvF fs vs [] ws' ∧
        ∀ r, stepFields zero setv (.struct name pkg fs) vm r I (.struct ws) = ⟨.ok (.struct ws'), r⟩
  | [], ws, _, hinv => ⟨ws, hinv, fun _ => rfl⟩
  | (k, e) :: rest, ws, hent, hinv => by
    obtain ⟨p, h, t, hp, hidx, hu, hcase⟩ := hent (k, e) List.mem_cons_self
    have hent' : ∀ ke ∈ rest, EntOK fs vs vm setv ke := fun ke hm => hent ke (List.mem_cons_of_mem _ hm)
    simp only at hidx hcase
    rcases hcase with ⟨hskip, hgood⟩ | ⟨m, x, hd, hnn, hset, hgood⟩
    · have hinv' : InvF fs vs rest ws := by
        refine ⟨hinv.1, ?_⟩
        intro p' h' t' hp'
        obtain ⟨w, hw, hor⟩ := hinv.2 p' h' t' hp'
        refine ⟨w, hw, ?_⟩
        rcases hor with hg | ⟨hz, ke, hke, hki⟩
        · exact Or.inl hg
        · rcases List.mem_cons.1 hke with rfl | hke
          · simp only [hidx, List.cons.injEq, and_true] at hki
            subst hki
            rw [hp] at hp'; cases hp'
            exact Or.inl (hz ▸ hgood)
          · exact Or.inr ⟨hz, ke, hke, hki⟩
      obtain ⟨ws', h2, h1⟩ := stepFields_flat name pkg fs vs vm zero setv rest ws hent' hinv'
      refine ⟨ws', h2, ?_⟩
      intro r
      rw [← h1 r]
      rcases hskip with hn | ⟨m, hm, hnull⟩
      · simp only [stepFields, hn]
      · simp only [stepFields, hm, hnull, ↓reduceIte]
    · have hplt : p < ws.length := by
        rw [hinv.1]
        exact (List.getElem?_eq_some_iff.1 hp).1
      have hinv' : InvF fs vs rest (listSet ws p x) := by
        refine ⟨by rw [listSet_length]; exact hinv.1, ?_⟩
        intro p' h' t' hp'
        by_cases hpp : p' = p
        · subst hpp
          exact ⟨x, listSet_get_same ws p' x hplt, Or.inl hgood⟩
        · obtain ⟨w, hw, hor⟩ := hinv.2 p' h' t' hp'
          refine ⟨w, by rw [listSet_get_other ws p p' x hpp]; exact hw, ?_⟩
          rcases hor with hg | ⟨hz, ke, hke, hki⟩
          · exact Or.inl hg
          · rcases List.mem_cons.1 hke with rfl | hke
            · simp only [hidx, List.cons.injEq, and_true] at hki
              exact absurd hki.symm hpp
            · exact Or.inr ⟨hz, ke, hke, hki⟩
      obtain ⟨ws', h2, h1⟩ := stepFields_flat name pkg fs vs vm zero setv rest (listSet ws p x) hent' hinv'
      refine ⟨ws', h2, ?_⟩
      intro r
      rw [← h1 r]
      obtain ⟨old, hold⟩ : ∃ old, ws[p]? = some old := ⟨ws[p], List.getElem?_eq_getElem hplt⟩
      simp only [stepFields, hd, hnn, Bool.false_eq_true, ↓reduceIte, hidx, typeAt, hp, readOnlyAt, hu, Bool.or_self,
        hset, setAt, hold]

theorem structOK_noEmb {o : Opts} {fs : List (FieldHdr × GoType)} (hs : structOK o fs = true) : NoEmb fs := by
  intro ht hm
  obtain ⟨p, hp⟩ := List.getElem?_of_mem hm
  have := structOK_at (h := ht.1) (t := ht.2) hs hp
  simp only [fieldOKAt, Bool.and_eq_true, Bool.not_eq_true'] at this
  exact this.1.1

theorem structOK_distinct {o : Opts} {fs : List (FieldHdr × GoType)} (hs : structOK o fs = true) : IdxDistinct fs := by
  intro p q h t h' t' k hp hq hpq hk
  exact (fieldOKAt_other (structOK_at hs hp) hk hq (fun e => hpq e.symm)).2

/-- One struct level, all fields plain: if every field value that is written and not null is
recomposed to an equal value by `rec`, and every field that is not written, not indexed, or written as
null holds (up to `norm`) the zero value, the struct comes back equal. -/
theorem recStruct_flat (o : Opts) (enc : Bool → GoType → GoVal → JV)
    (sub : List (FieldHdr × GoType) → List GoVal → List (Bytes × JV)) (rec : Rec)
    (name pkg : Bytes) (fs : List (FieldHdr × GoType)) (vs : List GoVal)
    (hs : structOK o fs = true) (hlen : vs.length = fs.length)
    (hfld : ∀ (p : Nat) (h : FieldHdr) (t : GoType) (x : GoVal), fs[p]? = some (h, t) → vs[p]? = some x →
      ((idxKeyOf h = none ∨ planKeyOf o h = none ∨ (tagOmitOf o h && isEmptyVal x) = true ∨
          isNull (enc (isIface t) t x) = true) → norm (zeroVal 63 t) = norm x) ∧
      (∀ k pk, idxKeyOf h = some k → planKeyOf o h = some pk → isNull (enc (isIface t) t x) = false →
          ∃ y, (∀ r e, rec r 2 (enc (isIface t) t x) t (some e) = ⟨.ok y, r⟩) ∧ norm y = norm x)) :
    ∃ v', norm v' = norm (.struct vs) ∧
      ∀ r, recStruct composerPure rec r name pkg fs (.obj (createMember o name pkg ++ refPass o enc sub vs fs 0)) = ⟨.ok v', r⟩ := by
  have hne := structOK_noEmb hs
  have hdist := structOK_distinct hs
  let M := createMember o name pkg ++ refPass o enc sub vs fs 0
  -- every member under a name the recomposer tries for field `p` is the member of field `p`
  have hkey : ∀ (p : Nat) (h : FieldHdr) (t : GoType) (x : GoVal) (k : Bytes), fs[p]? = some (h, t) → vs[p]? = some x → idxKeyOf h = some k →
      ∀ c ∈ candidates k h.name, ∀ m, (c, m) ∈ M →
        planKeyOf o h = some c ∧ (tagOmitOf o h && isEmptyVal x) = false ∧ m = enc (isIface t) t x := by
    intro p h t x k hp hx hk c hc m hm
    have hf := structOK_at hs hp
    rcases List.mem_append.1 hm with hm | hm
    · exfalso
      simp only [createMember] at hm
      by_cases hce : o.createKey.isEmpty = true
      · simp [hce] at hm
      · simp only [hce, Bool.false_eq_true, ↓reduceIte, List.mem_cons, Prod.mk.injEq, List.not_mem_nil, or_false] at hm
        simp only [fieldOKAt, hk, Bool.and_eq_true, Bool.or_eq_true, hce, Bool.not_eq_true'] at hf
        rcases hf.2.1.2 with h2 | h2
        · cases h2
        · rw [← hm.1, List.contains_iff_mem.2 hc] at h2
          cases h2
    · obtain ⟨q, h', t', x', hq, hu', hx', hmem⟩ := (refPass_mem o enc sub vs fs 0 hne (c, m)).1 hm
      simp only [Nat.zero_add] at hx'
      have hf' := structOK_at hs hq
      have hs' : asStrOf o h' = false := by
        simp only [fieldOKAt, Bool.and_eq_true, Bool.not_eq_true'] at hf'
        exact hf'.1.2
      rw [refField_eq o enc h' t' x' hu' hs'] at hmem
      cases hpk : planKeyOf o h' with
      | none => simp [hpk] at hmem
      | some pk' =>
        simp only [hpk] at hmem
        by_cases hom : (tagOmitOf o h' && isEmptyVal x') = true
        · simp [hom] at hmem
        · simp only [hom, Bool.false_eq_true, ↓reduceIte, List.mem_cons, Prod.mk.injEq, List.not_mem_nil, or_false] at hmem
          obtain ⟨rfl, rfl⟩ := hmem
          by_cases hqp : q = p
          · subst hqp
            rw [hp] at hq; cases hq
            rw [hx] at hx'; cases hx'
            exact ⟨hpk, by simpa using hom, rfl⟩
          · exact absurd hc ((fieldOKAt_other hf hk hq hqp).1 c hpk)
  have hent : ∀ ke ∈ indexFields fs 0, EntOK fs vs M (fun r'' m ft e => rec r'' 2 m ft (some e)) ke := by
    intro ke hke
    obtain ⟨p, h, t, hp, hk, he⟩ := index_sound fs 0 hne ke hke
    obtain ⟨k, e⟩ := ke
    simp only at hk he
    subst he
    simp only [Nat.zero_add]
    have hu : unexported h.name = false := by
      cases hu : unexported h.name with
      | false => rfl
      | true => simp [idxKeyOf, hu] at hk
    obtain ⟨x, hx⟩ : ∃ x, vs[p]? = some x := by
      have : p < vs.length := by rw [hlen]; exact (List.getElem?_eq_some_iff.1 hp).1
      exact ⟨vs[p], List.getElem?_eq_getElem this⟩
    have hk' := hkey p h t x k hp hx hk
    have hf := structOK_at hs hp
    have hs' : asStrOf o h = false := by
      simp only [fieldOKAt, Bool.and_eq_true, Bool.not_eq_true'] at hf
      exact hf.1.2
    refine ⟨p, h, t, hp, rfl, hu, ?_⟩
    have hnone : (planKeyOf o h = none ∨ (tagOmitOf o h && isEmptyVal x) = true) →
        fieldDatum M k ⟨h.name, [p], h.tag⟩ = none := by
      intro hor
      apply fieldDatum_none
      intro c hc
      apply jvLookup_none_of_not_mem
      intro m hm
      obtain ⟨h1, h2, _⟩ := hk' c hc m hm
      rcases hor with h | h
      · rw [h] at h1; cases h1
      · rw [h] at h2; cases h2
    cases hpk : planKeyOf o h with
    | none =>
      exact Or.inl ⟨Or.inl (hnone (Or.inl hpk)), x, hx, ((hfld p h t x hp hx).1 (Or.inr (Or.inl hpk)))⟩
    | some pk =>
      by_cases hom : (tagOmitOf o h && isEmptyVal x) = true
      · exact Or.inl ⟨Or.inl (hnone (Or.inr hom)), x, hx, ((hfld p h t x hp hx).1 (Or.inr (Or.inr (Or.inl hom))))⟩
      · have hmemM : (pk, enc (isIface t) t x) ∈ M := by
          apply List.mem_append_right
          apply (refPass_mem o enc sub vs fs 0 hne _).2
          refine ⟨p, h, t, x, hp, hu, by simpa using hx, ?_⟩
          rw [refField_eq o enc h t x hu hs']
          simp [hpk, hom]
        have hpkc : pk ∈ candidates k h.name := by
          simp only [fieldOKAt, hk, hpk, Bool.and_eq_true] at hf
          exact List.contains_iff_mem.1 hf.2.1.1
        have hd : fieldDatum M k ⟨h.name, [p], h.tag⟩ = some (enc (isIface t) t x) := by
          apply fieldDatum_some M k _ pk _ _ hpkc
          · intro c hc hcne
            apply jvLookup_none_of_not_mem
            intro m hm
            obtain ⟨h1, _, _⟩ := hk' c hc m hm
            rw [hpk] at h1
            exact hcne (Option.some.inj h1).symm
          · apply jvLookup_some_of_unique M pk _ hmemM
            intro m hm
            exact (hk' pk hpkc m hm).2.2
        cases hnull : isNull (enc (isIface t) t x) with
        | true =>
          exact Or.inl ⟨Or.inr ⟨_, hd, hnull⟩, x, hx, ((hfld p h t x hp hx).1 (Or.inr (Or.inr (Or.inr hnull))))⟩
        | false =>
          obtain ⟨y, hy, hyn⟩ := (hfld p h t x hp hx).2 k pk hk hpk hnull
          exact Or.inr ⟨_, y, hd, hnull, fun r => hy r _, x, hx, hyn⟩
  have hinv : InvF fs vs (indexFields fs 0) (fs.map fun ht => zeroVal 63 ht.2) := by
    refine ⟨by simp, ?_⟩
    intro p h t hp
    refine ⟨zeroVal 63 t, by simp [List.getElem?_map, hp], ?_⟩
    obtain ⟨x, hx⟩ : ∃ x, vs[p]? = some x := by
      have : p < vs.length := by rw [hlen]; exact (List.getElem?_eq_some_iff.1 hp).1
      exact ⟨vs[p], List.getElem?_eq_getElem this⟩
    cases hk : idxKeyOf h with
    | none => exact Or.inl ⟨x, hx, (hfld p h t x hp hx).1 (Or.inl hk)⟩
    | some k =>
      refine Or.inr ⟨rfl, _, index_complete fs 0 hne hdist p h t k hp hk, ?_⟩
      simp
  obtain ⟨ws', h2, h1⟩ := stepFields_flat name pkg fs vs M (zeroVal fuelZ) (fun r'' m ft e => rec r'' 2 m ft (some e))
    (indexFields fs 0) _ hent hinv
  refine ⟨.struct ws', ?_, ?_⟩
  · simp only [norm, normL_eq_map, GoVal.struct.injEq]
    apply List.ext_getElem?
    intro p
    simp only [List.getElem?_map]
    by_cases hplt : p < fs.length
    · obtain ⟨w, hw, hor⟩ := h2.2 p (fs[p]).1 (fs[p]).2 (List.getElem?_eq_getElem hplt)
      rcases hor with ⟨v, hv, hn⟩ | ⟨_, ke, hke, _⟩
      · simp [hw, hv, hn]
      · cases hke
    · have h3 : ws'[p]? = none := List.getElem?_eq_none (by rw [h2.1]; omega)
      have h4 : vs[p]? = none := List.getElem?_eq_none (by rw [hlen]; omega)
      simp [h3, h4]
  · intro r
    simp only [recStruct, composerPure, indexType]
    rw [← h1 r]
    rfl

/-! ## the side condition of the round trip, and the theorem -/

/-- the zero value of a scalar, container, pointer or interface type, up to nil ~ empty -/
def zeroLike : GoType → GoVal → Bool
  | .bool, .bool b => !b
  | .int _, .int i => i == 0
  | .float _, .flt t => floatIsZero t
  | .str, .str s => s.isEmpty
  | .bytes, .nilBytes => true
  | .bytes, .bytes b => b.isEmpty
  | .slice _, .nilSlice => true
  | .slice _, .slice xs => xs.isEmpty
  | .map _, .nilMap => true
  | .map _, .map kvs => kvs.isEmpty
  | .ptr _, .nilPtr => true
  | .iface, .nilIface => true
  | _, _ => false

/-- a field that is both written (under `o`) and indexed must satisfy `chk`; any other field (unexported,
`"-"`) cannot come back and must hold a zero value -/
def fieldChk (o : Opts) (chk : GoType → GoVal → Bool) (h : FieldHdr) (t : GoType) (x : GoVal) : Bool :=
  match idxKeyOf h, planKeyOf o h with
  | some _, some _ => chk t x
  | _, _ => zeroLike t x

def fieldsRT (o : Opts) (chk : GoType → GoVal → Bool) : List (FieldHdr × GoType) → List GoVal → Bool
  | [], [] => true
  | (h, t) :: fr, x :: vr => fieldChk o chk h t x && fieldsRT o chk fr vr
  | _, _ => false

/-- `v` is a value of type `t` that the round-trip theorem speaks about (fuel `vf` suffices):
integers fit their slot, pointers point to structs, scalars or containers (not to pointers or
interfaces), arrays have their length, every struct type satisfies `structOK o`, unexported and `"-"`
fields hold zero values. Not covered (the predicate is `false`): `interface{}` slots, `[]byte`,
embedded fields, the `,string` tag option. -/
def rtOK (o : Opts) : Nat → GoType → GoVal → Bool
  | 0, _, _ => false
  | n + 1, t, v =>
    match t, v with
    | .bool, .bool _ => true
    | .int k, .int i => wrapInt k i == i
    | .float _, .flt _ => true
    | .str, .str _ => true
    | .ptr _, .nilPtr => true
    | .ptr e, .ptr x => !isPtrT e && !isIface e && rtOK o n e x
    | .slice _, .nilSlice => true
    | .slice e, .slice xs => !isIface e && xs.all (rtOK o n e)
    | .array k e, .arr xs => xs.length == k && !isIface e && xs.all (rtOK o n e)
    | .map _, .nilMap => true
    | .map e, .map kvs => !isIface e && kvs.all fun kv => rtOK o n e kv.2
    | .struct _ _ fs, .struct vs => structOK o fs && fieldsRT o (rtOK o n) fs vs
    | _, _ => false

theorem fieldsRT_spec (o : Opts) (chk : GoType → GoVal → Bool) :
    ∀ (fs : List (FieldHdr × GoType)) (vs : List GoVal), fieldsRT o chk fs vs = true →
      vs.length = fs.length ∧
        ∀ (p : Nat) (h : FieldHdr) (t : GoType) (x : GoVal), fs[p]? = some (h, t) → vs[p]? = some x → fieldChk o chk h t x = true
  | [], [], _ => ⟨rfl, by intro p h t x hp; simp at hp⟩
  | [], _ :: _, h => by simp [fieldsRT] at h
  | _ :: _, [], h => by simp [fieldsRT] at h
  | (h0, t0) :: fr, x0 :: vr, h => by
    simp only [fieldsRT, Bool.and_eq_true] at h
    obtain ⟨hl, hr⟩ := fieldsRT_spec o chk fr vr h.2
    refine ⟨by simp [hl], ?_⟩
    intro p h' t' x' hp hx
    cases p with
    | zero =>
      simp only [List.getElem?_cons_zero, Option.some.injEq, Prod.mk.injEq] at hp hx
      obtain ⟨rfl, rfl⟩ := hp
      subst hx
      exact h.1
    | succ p => exact hr p h' t' x' (by simpa using hp) (by simpa using hx)

theorem zeroLike_norm (t : GoType) (x : GoVal) (h : zeroLike t x = true) : norm (zeroVal 63 t) = norm x := by
  cases t <;> cases x <;> simp only [zeroLike, Bool.false_eq_true] at h
  all_goals first
    | rfl
    | (simp only [Bool.not_eq_true'] at h; subst h; rfl)
    | (simp only [beq_iff_eq] at h; subst h; rfl)
    | (simp only [List.isEmpty_iff] at h; subst h; rfl)
    | (simp only [floatIsZero, Bool.or_eq_true, decide_eq_true_eq] at h
       rcases h with rfl | rfl <;> rfl)

theorem bytesAsJV_not_null (n : Nat) (b : Bytes) : isNull (bytesAsJV n b) = false := by
  unfold bytesAsJV
  split
  · rfl
  · split <;> rfl

theorem refVal_not_null (o : Opts) (hstrict : o.strict = false) (tf vf : Nat) (vi : Bool) (e : GoType) (x : GoVal)
    (h1 : isPtrT e = false) (h2 : isIface e = false) : isNull (refVal o tf vf vi e x) = false := by
  cases vf with
  | zero => rfl
  | succ n =>
    cases e with
    | ptr _ => simp [isPtrT] at h1
    | iface => simp [isIface] at h2
    | slice e' =>
      cases x <;> try rfl
      cases e' <;> simp [refVal, hstrict, isNull]
    | bytes => cases x <;> first | rfl | exact bytesAsJV_not_null _ _
    | _ => cases x <;> rfl

theorem empty_norm_zero (o : Opts) (m : Nat) (t : GoType) (x : GoVal) (hok : rtOK o m t x = true)
    (he : isEmptyVal x = true) : norm (zeroVal 63 t) = norm x := by
  cases m with
  | zero => simp [rtOK] at hok
  | succ n =>
    cases t <;> cases x <;> simp only [rtOK, Bool.false_eq_true] at hok <;>
      simp only [isEmptyVal, Bool.false_eq_true] at he
    all_goals first
      | rfl
      | (simp only [Bool.not_eq_true'] at he; subst he; rfl)
      | (simp only [beq_iff_eq] at he; subst he; rfl)
      | (simp only [List.isEmpty_iff] at he; subst he; rfl)
      | (simp only [floatIsZero, Bool.or_eq_true, decide_eq_true_eq] at he
         rcases he with rfl | rfl <;> rfl)
      | (simp only [List.isEmpty_iff] at he; subst he
         simp only [Bool.and_eq_true, beq_iff_eq, List.length_nil] at hok
         rw [← hok.1.1]; rfl)

theorem null_is_zero (o : Opts) (hstrict : o.strict = false) (tf m : Nat) (vi : Bool) (t : GoType) (x : GoVal)
    (hok : rtOK o m t x = true) (hn : isNull (refVal o tf m vi t x) = true) : norm (zeroVal 63 t) = norm x := by
  cases m with
  | zero => simp [rtOK] at hok
  | succ n =>
    cases t with
    | ptr e =>
      cases x with
      | nilPtr => rfl
      | ptr y =>
        simp only [rtOK, Bool.and_eq_true, Bool.not_eq_true'] at hok
        have : refVal o tf (n + 1) vi (.ptr e) (.ptr y) = refVal o tf n false e y := rfl
        rw [this, refVal_not_null o hstrict tf n false _ _ hok.1.1 hok.1.2] at hn
        cases hn
      | _ => simp [rtOK] at hok
    | slice e =>
      cases x with
      | nilSlice => exfalso; cases e <;> simp [refVal, hstrict, isNull] at hn
      | slice xs => simp [refVal, isNull] at hn
      | _ => simp [rtOK] at hok
    | _ => cases x <;> first | (simp [rtOK] at hok; done) | (simp [refVal, isNull] at hn; done)

theorem stepList_all (one : Registry → JV → Step) (g : GoVal → JV) :
    ∀ (xs : List GoVal), (∀ x ∈ xs, ∃ y, norm y = norm x ∧ ∀ r, one r (g x) = ⟨.ok y, r⟩) →
      ∃ ys, ys.map norm = xs.map norm ∧
        ∀ r acc, stepList one r (xs.map g) acc = ((some (acc.reverse ++ ys), .ok .nilPtr), r)
  | [], _ => ⟨[], rfl, by intro r acc; simp [stepList]⟩
  | x :: rest, h => by
    obtain ⟨y, hn, hy⟩ := h x List.mem_cons_self
    obtain ⟨ys, h2, h1⟩ := stepList_all one g rest (fun x' hx' => h x' (List.mem_cons_of_mem _ hx'))
    refine ⟨y :: ys, by simp [hn, h2], ?_⟩
    intro r acc
    simp only [List.map_cons, stepList, hy, h1]
    simp

theorem stepKvs_all (one : Registry → JV → Step) (g : GoVal → JV) :
    ∀ (kvs : List (Bytes × GoVal)), (∀ kv ∈ kvs, ∃ y, norm y = norm kv.2 ∧ ∀ r, one r (g kv.2) = ⟨.ok y, r⟩) →
      ∃ ys, (ys.map fun kv => (kv.1, norm kv.2)) = (kvs.map fun kv => (kv.1, norm kv.2)) ∧
        ∀ r acc, stepKvs one r (kvs.map fun kv => (kv.1, g kv.2)) acc = ((some (acc.reverse ++ ys), .ok .nilPtr), r)
  | [], _ => ⟨[], rfl, by intro r acc; simp [stepKvs]⟩
  | (k, x) :: rest, h => by
    obtain ⟨y, hn, hy⟩ := h (k, x) List.mem_cons_self
    obtain ⟨ys, h2, h1⟩ := stepKvs_all one g rest (fun x' hx' => h x' (List.mem_cons_of_mem _ hx'))
    refine ⟨(k, y) :: ys, by simp [hn, h2], ?_⟩
    intro r acc
    simp only at hy
    simp only [List.map_cons, stepKvs, hy, h1]
    simp

abbrev pureCF : Nat → ComposerFor := fun _ => composerPure

/-- `elemStep` on a pointer element is one level of `recomp` in mode 2 -/
theorem elemStep_eq (ck : Bytes) (f : Nat) (e : GoType) (r : Registry) (j : JV) :
    elemStep (recompG pureCF ck f) e r j =
      if isPtrT e then recompG pureCF ck (f + 1) r 2 j e none else recompG pureCF ck f r 2 j e none := by
  cases e <;> simp [elemStep, isPtrT, recompG, recBody]

theorem mapElemStep_eq (ck : Bytes) (f : Nat) (e : GoType) (he : isIface e = false) (r : Registry) (j : JV) :
    mapElemStep (recompG pureCF ck f) e r j =
      if isPtrT e then recompG pureCF ck (f + 1) r 2 j e none else recompG pureCF ck f r 1 j e none := by
  cases e <;> simp [mapElemStep, isPtrT, recompG, recBody] <;> simp [isIface] at he

/-- **Recompose inverts the reference encoding**, core induction (no `interface{}` slots, `[]byte`,
embedded fields or `,string`: `rtOK` excludes them): with an ideal registry, recomposing the tree the
reference encoder describes for `v` gives a value equal to `v` up to `norm`, in either mode of
`recomp` (`reflect.New` target or the slot itself), with any registry threaded through unchanged and
any fuel `f ≥ vf`. -/
theorem rt_core (o : Opts) (hstrict : o.strict = false) (tf' : Nat) :
    ∀ (n vf : Nat), vf ≤ n → ∀ (f : Nat), vf ≤ f → ∀ (vi : Bool) (t : GoType) (v : GoVal),
      rtOK o vf t v = true →
      ∃ v', norm v' = norm v ∧ ∀ (r : Registry) (sf : Option IdxEntry) (mode : Nat), (mode = 1 ∨ mode = 2) →
        recompG pureCF o.createKey f r mode (refVal o (tf' + 1) vf vi t v) t sf = ⟨.ok v', r⟩ := by
  intro n
  induction n with
  | zero =>
    intro vf hvf f _ vi t v h
    have : vf = 0 := by omega
    subst this
    simp [rtOK] at h
  | succ n ih =>
    intro vf hvf f hf vi t v hok
    cases vf with
    | zero => simp [rtOK] at hok
    | succ vf' =>
    cases f with
    | zero => omega
    | succ f' =>
    have hvf' : vf' ≤ n := by omega
    have hf' : vf' ≤ f' := by omega
    have IH := ih vf' hvf'
    -- an element of a slice / array / map, at level vf'
    have elemOK : ∀ (e : GoType) (x : GoVal), rtOK o vf' e x = true →
        ∃ y, norm y = norm x ∧ ∀ r, elemStep (recompG pureCF o.createKey f') e r (refVal o (tf' + 1) vf' false e x) = ⟨.ok y, r⟩ := by
      intro e x hx
      cases hp : isPtrT e with
      | true =>
        obtain ⟨y, hy, hrec⟩ := IH (f' + 1) (by omega) false e x hx
        exact ⟨y, hy, fun r => by rw [elemStep_eq, hp]; exact hrec r none 2 (Or.inr rfl)⟩
      | false =>
        obtain ⟨y, hy, hrec⟩ := IH f' hf' false e x hx
        exact ⟨y, hy, fun r => by rw [elemStep_eq, hp]; exact hrec r none 2 (Or.inr rfl)⟩
    cases t with
    | bool =>
      cases v with
      | bool b =>
        refine ⟨.bool b, rfl, ?_⟩
        intro r sf mode hm
        rcases hm with rfl | rfl <;> simp [recompG, recBody, refVal, isNull, scalarSlot]
      | _ => simp [rtOK] at hok
    | int k =>
      cases v with
      | int i =>
        simp only [rtOK, beq_iff_eq] at hok
        refine ⟨.int i, rfl, ?_⟩
        intro r sf mode hm
        rcases hm with rfl | rfl <;> simp [recompG, recBody, refVal, isNull, scalarSlot, hok]
      | _ => simp [rtOK] at hok
    | float b =>
      cases v with
      | flt s =>
        refine ⟨.flt s, rfl, ?_⟩
        intro r sf mode hm
        rcases hm with rfl | rfl <;> simp [recompG, recBody, refVal, isNull, scalarSlot]
      | _ => simp [rtOK] at hok
    | str =>
      cases v with
      | str s =>
        refine ⟨.str s, rfl, ?_⟩
        intro r sf mode hm
        rcases hm with rfl | rfl <;> simp [recompG, recBody, refVal, isNull, scalarSlot]
      | _ => simp [rtOK] at hok
    | bytes => cases v <;> simp [rtOK] at hok
    | iface => cases v <;> simp [rtOK] at hok
    | ptr e =>
      cases v with
      | nilPtr =>
        refine ⟨.nilPtr, rfl, ?_⟩
        intro r sf mode hm
        rcases hm with rfl | rfl <;> simp [recompG, recBody, refVal, isNull, ptrStep, zeroVal, fuelZ]
      | ptr x =>
        simp only [rtOK, Bool.and_eq_true, Bool.not_eq_true'] at hok
        obtain ⟨y, hy, hrec⟩ := IH f' hf' false e x hok.2
        refine ⟨.ptr y, by simp [norm, hy], ?_⟩
        intro r sf mode hm
        have hnn := refVal_not_null o hstrict (tf' + 1) vf' false e x hok.1.1 hok.1.2
        have hrv : refVal o (tf' + 1) (vf' + 1) vi (.ptr e) (.ptr x) = refVal o (tf' + 1) vf' false e x := rfl
        rw [hrv]
        rcases hm with rfl | rfl <;>
          simp [recompG, recBody, hnn, ptrStep, hrec _ none 1 (Or.inl rfl)]
      | _ => simp [rtOK] at hok
    | slice e =>
      cases v with
      | nilSlice =>
        refine ⟨.slice [], rfl, ?_⟩
        intro r sf mode hm
        have hrv : refVal o (tf' + 1) (vf' + 1) vi (.slice e) .nilSlice = .arr [] := by
          cases e <;> simp [refVal, hstrict]
        rw [hrv]
        rcases hm with rfl | rfl <;> simp [recompG, recBody, isNull, recSlice, stepList, listFinish]
      | slice xs =>
        simp only [rtOK, Bool.and_eq_true, Bool.not_eq_true', List.all_eq_true] at hok
        have hall : ∀ x ∈ xs, ∃ y, norm y = norm x ∧ ∀ r, elemStep (recompG pureCF o.createKey f') e r (refVal o (tf' + 1) vf' false e x) = ⟨.ok y, r⟩ :=
          fun x hx => elemOK e x (hok.2 x hx)
        obtain ⟨ys, hys, hst⟩ := stepList_all (elemStep (recompG pureCF o.createKey f') e)
          (refVal o (tf' + 1) vf' false e) xs hall
        refine ⟨.slice ys, by simp [norm, normL_eq_map, hys], ?_⟩
        intro r sf mode hm
        have hrv : refVal o (tf' + 1) (vf' + 1) vi (.slice e) (.slice xs) = .arr (xs.map (refVal o (tf' + 1) vf' false e)) := rfl
        rw [hrv]
        rcases hm with rfl | rfl <;> simp [recompG, recBody, isNull, recSlice, hst, listFinish]
      | _ => simp [rtOK] at hok
    | array k e =>
      cases v with
      | arr xs =>
        simp only [rtOK, Bool.and_eq_true, Bool.not_eq_true', List.all_eq_true, beq_iff_eq] at hok
        have hall : ∀ x ∈ xs, ∃ y, norm y = norm x ∧
            ∀ r, (fun r' x => recompG pureCF o.createKey f' r' 2 x e none) r (refVal o (tf' + 1) vf' false e x) = ⟨.ok y, r⟩ := by
          intro x hx
          obtain ⟨y, hy, hrec⟩ := IH f' hf' false e x (hok.2 x hx)
          exact ⟨y, hy, fun r => hrec r none 2 (Or.inr rfl)⟩
        obtain ⟨ys, hys, hst⟩ := stepList_all (fun r' x => recompG pureCF o.createKey f' r' 2 x e none)
          (refVal o (tf' + 1) vf' false e) xs hall
        have hlen : ys.length = k := by
          have := congrArg List.length hys
          simp only [List.length_map] at this
          rw [this]; exact hok.1.1
        refine ⟨.arr ys, by simp [norm, normL_eq_map, hys], ?_⟩
        intro r sf mode hm
        have hrv : refVal o (tf' + 1) (vf' + 1) vi (.array k e) (.arr xs) = .arr (xs.map (refVal o (tf' + 1) vf' false e)) := rfl
        have htake : (xs.map (refVal o (tf' + 1) vf' false e)).take k = xs.map (refVal o (tf' + 1) vf' false e) := by
          apply List.take_of_length_le
          simp [hok.1.1]
        rw [hrv]
        rcases hm with rfl | rfl <;> simp [recompG, recBody, isNull, recArray, htake, hst, listFinish, hlen]
      | _ => simp [rtOK] at hok
    | map e =>
      cases v with
      | nilMap =>
        refine ⟨.map [], rfl, ?_⟩
        intro r sf mode hm
        have hrv : refVal o (tf' + 1) (vf' + 1) vi (.map e) .nilMap = .obj [] := rfl
        rw [hrv]
        rcases hm with rfl | rfl <;> simp [recompG, recBody, isNull, recMap, stepKvs, kvsFinish, mapFinish]
      | map kvs =>
        simp only [rtOK, Bool.and_eq_true, Bool.not_eq_true', List.all_eq_true] at hok
        have hall : ∀ kv ∈ kvs, ∃ y, norm y = norm kv.2 ∧
            ∀ r, mapElemStep (recompG pureCF o.createKey f') e r (refVal o (tf' + 1) vf' false e kv.2) = ⟨.ok y, r⟩ := by
          intro kv hkv
          cases hp : isPtrT e with
          | true =>
            obtain ⟨y, hy, hrec⟩ := IH (f' + 1) (by omega) false e kv.2 (hok.2 kv hkv)
            exact ⟨y, hy, fun r => by rw [mapElemStep_eq _ _ _ hok.1, hp]; exact hrec r none 2 (Or.inr rfl)⟩
          | false =>
            obtain ⟨y, hy, hrec⟩ := IH f' hf' false e kv.2 (hok.2 kv hkv)
            exact ⟨y, hy, fun r => by rw [mapElemStep_eq _ _ _ hok.1, hp]; exact hrec r none 1 (Or.inl rfl)⟩
        obtain ⟨ys, hys, hst⟩ := stepKvs_all (mapElemStep (recompG pureCF o.createKey f') e)
          (refVal o (tf' + 1) vf' false e) kvs hall
        refine ⟨.map ys, by simp [norm, normK_eq_map, hys], ?_⟩
        intro r sf mode hm
        have hrv : refVal o (tf' + 1) (vf' + 1) vi (.map e) (.map kvs) =
            .obj (kvs.map fun kv => (kv.1, refVal o (tf' + 1) vf' false e kv.2)) := rfl
        rw [hrv]
        rcases hm with rfl | rfl <;> simp [recompG, recBody, isNull, recMap, hst, kvsFinish, mapFinish]
      | _ => simp [rtOK] at hok
    | struct name pkg fs =>
      cases v with
      | struct vs =>
        simp only [rtOK, Bool.and_eq_true] at hok
        obtain ⟨hlen, hflds⟩ := fieldsRT_spec o (rtOK o vf') fs vs hok.2
        obtain ⟨v', hv', hrec⟩ := recStruct_flat o (fun vi ft fv => refVal o (tf' + 1) vf' vi ft fv)
          (refMembers o (fun vi ft fv => refVal o (tf' + 1) vf' vi ft fv) tf') (recompG pureCF o.createKey f')
          name pkg fs vs hok.1 hlen (by
            intro p h t x hp hx
            have hc := hflds p h t x hp hx
            constructor
            · intro hor
              cases hk : idxKeyOf h with
              | none => simp only [fieldChk, hk] at hc; exact zeroLike_norm t x hc
              | some k =>
                cases hpk : planKeyOf o h with
                | none => simp only [fieldChk, hk, hpk] at hc; exact zeroLike_norm t x hc
                | some pk =>
                  simp only [fieldChk, hk, hpk] at hc
                  rcases hor with h1 | h1 | h1 | h1
                  · rw [hk] at h1; cases h1
                  · rw [hpk] at h1; cases h1
                  · simp only [Bool.and_eq_true] at h1
                    exact empty_norm_zero o vf' t x hc h1.2
                  · exact null_is_zero o hstrict (tf' + 1) vf' (isIface t) t x hc h1
            · intro k pk hk hpk _
              simp only [fieldChk, hk, hpk] at hc
              obtain ⟨y, hy, hr⟩ := IH f' hf' (isIface t) t x hc
              exact ⟨y, fun r e => hr r (some e) 2 (Or.inr rfl), hy⟩)
        refine ⟨v', hv', ?_⟩
        intro r sf mode hm
        have hrv : refVal o (tf' + 1) (vf' + 1) vi (.struct name pkg fs) (.struct vs) =
            .obj (createMember o name pkg ++ refPass o (fun vi ft fv => refVal o (tf' + 1) vf' vi ft fv)
              (refMembers o (fun vi ft fv => refVal o (tf' + 1) vf' vi ft fv) tf') vs fs 0) := rfl
        rw [hrv]
        rcases hm with rfl | rfl <;> simp [recompG, recBody, isNull, hrec]
      | _ => simp [rtOK] at hok

end OjgVerif.Reflect
