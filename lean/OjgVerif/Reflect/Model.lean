import OjgVerif.Common.Bytes
import OjgVerif.Gen.Oj
import OjgVerif.Gen.Sen
import OjgVerif.Gen.Alt
import OjgVerif.Gen.Root
/-! # Reflection-driven encoders and decoders (C15, C16): Go types as data

Model of the struct field plans of `oj/sinfo.go`, `oj/finfo.go` (the `sen` copies are textually the
same), `alt/sinfo.go`, `alt/finfo.go`, of the plan interpreters `appendStruct`/`tightStruct`
(`oj/writer.go`, `oj/tight.go`, `sen/…`), `reflectStruct`/`reflectEmbed` (`alt/decompose.go`), of the
value walkers around them (`appendJSON`, `appendSlice`, `appendMap`, `decompose`, `reflectValue`,
`reflectArray`, `reflectMap`), and a naive reference encoder `refEnc` that reads like the option
documentation of `/repo/options.go`.

What is below the model (*modelled, not verified*, tied by the correspondence run only): `reflect`
itself, the `unsafe` offset arithmetic (`addr + fi.offset`: the offset access `Append` and the index
access `iAppend` are both `fieldByIndex` here), the type-pointer keyed caches `structMap` /
`structEmptyMap`, the text the writers produce (a model encoder returns the TREE; the harness parses
the real output back with `oj.Parse` / `sen.Parse`), and `sort.Slice` of a plan by key (a
permutation; the member order of an object is not part of the tree, `JV.render` sorts).

Fragment. Kinds bool, the ten integer kinds, float32/64, string, `[]byte`, slices, arrays, maps with
string keys, pointers, `interface{}` and structs; fields with a name, an optional `json` tag, the
embedded flag. Not in the fragment (the driver answers `outside`, the generator stays inside):
`OmitNil`/`OmitEmpty` (the encoders disagree about them: known finding `C15-omit-options`), pointer
to pointer/`[]byte`/interface, embedded fields that are not structs or pointers to structs, named
non-struct types, methods (Simplifier, Genericer, Marshaler, time.Time), field names that do not
start with an ASCII letter, integers outside int64 (`uint64` ≥ 2^63: alt converts to int64), floats
whose 32-bit and 64-bit shortest texts differ, an interface holding a value whose data word is nil
(a typed nil pointer or map, a one-field struct or one-element array of such: the `…NotEmpty` plan
functions take it for a nil interface, known finding `C15-iface-nil-word`), and field keys that
collide (with each other or with the create key).

Representation. A float is the decimal TEXT `strconv.AppendFloat(…, 'g', -1, bits)` gives. A panic
(`oj.JSON` then returns "", `Marshal` an error) is the marker leaf `panicMark` somewhere in the
tree. Recursion is by fuel: `tf` bounds the nesting of embedded structs in a plan, `vf` the nesting
of values; with too little fuel every encoder (and the reference) answers `panicMark`.

The deviations of the unchanged code from property C15 are carried explicitly, one flag each
(`Dev`), so that the correspondence is exact: `Dev.current` is the code as it is, `Dev.fixed` the
code with all of them repaired. -/
namespace OjgVerif.Reflect
open OjgVerif

/-! ## types and values -/

structure FieldHdr where
  name : Bytes
  /-- value of the `json` key of the struct tag; `[]` when absent or empty (`ok && 0 < len(tag)`) -/
  tag : Bytes
  embedded : Bool
  deriving DecidableEq, Repr, Inhabited

inductive GoType where
  | bool
  | int (kind : Nat)           -- 0..9: int int8 int16 int32 int64 uint uint8 uint16 uint32 uint64
  | float (is32 : Bool)
  | str
  | bytes                       -- []byte
  | iface                       -- interface{}
  | slice (e : GoType)
  | array (n : Nat) (e : GoType)
  | map (e : GoType)            -- map[string]e
  | ptr (e : GoType)
  | struct (name pkg : Bytes) (fields : List (FieldHdr × GoType))
  deriving Repr, Inhabited

inductive GoVal where
  | bool (b : Bool)
  | int (i : Int)
  | flt (text : Bytes)
  | str (s : Bytes)
  | nilBytes
  | bytes (b : Bytes)
  | nilSlice
  | slice (xs : List GoVal)
  | arr (xs : List GoVal)
  | nilMap
  | map (kvs : List (Bytes × GoVal))
  | nilPtr
  | ptr (v : GoVal)
  | nilIface
  | iface (t : GoType) (v : GoVal)
  | struct (fs : List GoVal)
  deriving Repr, Inhabited

/-- the options of `ojg.Options` that steer struct encoding, plus which entry point runs -/
structure Opts where
  useTags : Bool
  keyExact : Bool
  nestEmbed : Bool
  omitNil : Bool
  omitEmpty : Bool
  fullTypePath : Bool
  /-- `0 < Indent`: the indented writers (`appendStruct` …) instead of the tight ones -/
  indent : Bool
  /-- `oj.Marshal` (`Writer.strict`) -/
  strict : Bool
  /-- `BytesAs`: the (iota) constants `ojg.BytesAsString`, `BytesAsBase64`, `BytesAsArray`; any other
  number, 0 included, falls into the `default` branch (string) -/
  bytesAs : Nat
  /-- `CreateKey`; empty: none -/
  createKey : Bytes
  deriving DecidableEq, Repr, Inhabited

/-- which of the known deviations of the unchanged code the model reproduces -/
structure Dev where
  /-- C15-omitempty-leak (oj, sen): `buildTagFields` sets its parameter `omitEmpty` when a tag says
  `omitempty` and never resets it, so every field handled later in the loop — declared BEFORE the
  tagged one, the loop runs from the last field to the first — is omitted when empty too, including
  all fields of an embedded struct declared before it -/
  leak : Bool
  /-- C15-usetags-keyexact (oj, sen, alt): with `UseTags` a field without a tag name gets its exact
  name whatever `KeyExact` says (`calcFieldsIndex` looks at `KeyExact` only when `UseTags` is off),
  although the documentation of `UseTags` says `KeyExact` decides then -/
  tagExact : Bool
  /-- C15-bytes-as-slice (oj, sen): a `[]byte` that is a struct field, an element of a slice, array
  or map, is walked by `appendSlice`/`tightSlice` and written as an array of numbers whatever
  `BytesAs` says; only a `[]byte` that reaches the type switch of `appendJSON` (top level, held by
  an interface) follows `BytesAs` -/
  bytesAsSlice : Bool
  /-- C15-nil-embedded-pointer (oj, sen, alt; repaired by /repo 272431d): the plan entries of a flattened embedded pointer go
  through `rv.FieldByIndex`, which panics on a nil pointer on the way -/
  embNilPanic : Bool
  /-- C15-tight-nil-pointer (oj, tight writers only): `tightSlice` and `tightMap` call `Elem()` on a
  pointer element without a nil test and then `Interface()` on the zero Value -/
  tightNilDeref : Bool
  /-- C15-alt-map-nil (alt, pretty): `reflectMap` turns a nil slice, map or `[]byte` that is a map
  VALUE into `nil` (null); everywhere else a nil container is written as an empty one -/
  mapNilNull : Bool
  /-- C15-omitempty-nested (oj, sen; /repo 8169704 … 6b93c2a, repaired by 9b6b623): `newFinfo` handed the field's `omitEmpty` — set
  by an `omitempty` TAG as well as by the option — to `getTypeStruct`, which since 8169704 really
  returns the plan built with that flag (before, the lookup found the plain plan the lower-case
  builder had cached first). A struct that is (the target of) a field tagged `omitempty` — directly,
  through a pointer, or as the element of a slice, array or map — is therefore written with a plan
  in which EVERY field is `omitempty`, hereditarily -/
  nestedOmit : Bool
  deriving DecidableEq, Repr, Inhabited

/-- the code as it is now (/repo 272431d): leak, tight nil pointer and alt map nil are repaired
(5f44527, 413ccf5, dda8eb5), so is the nested omit that 8169704 had switched on (9b6b623), and a nil
embedded pointer contributes no member instead of panicking (272431d). What is left is by design
of the code as it stands: exact tag keys and `[]byte` as a slice -/
def Dev.current : Dev := ⟨false, true, true, false, false, false, false⟩
/-- the trees 9b6b623 … b19f06c: as now, with the panic on a nil embedded pointer -/
def Dev.before272431d : Dev := ⟨false, true, true, true, false, false, false⟩
/-- the trees 8169704 … 6b93c2a: as `before272431d`, with the nested-omit regression of 8169704 -/
def Dev.before9b6b623 : Dev := ⟨false, true, true, true, false, false, true⟩
/-- the tree the first version of this module was written against (/repo ba8abfd) -/
def Dev.before : Dev := ⟨true, true, true, true, true, true, false⟩
def Dev.fixed : Dev := ⟨false, false, false, false, false, false, false⟩

/-- the three copies of the machinery -/
inductive Enc where
  | oj | sen | alt
  deriving DecidableEq, Repr, Inhabited

/-- a panic, as a leaf of the tree -/
def panicMark : JV := .num [112, 97, 110, 105, 99]

/-! ## small text helpers -/

def asciiLower (c : UInt8) : UInt8 := if 65 ≤ c ∧ c ≤ 90 then c + 32 else c

/-- `buildLowFields`: `if 3 < len(name) { if name[0] < 0x80 { name[0] |= 0x20 } } else { name =
bytes.ToLower(name) }` (ASCII names) -/
def lowerKey (name : Bytes) : Bytes :=
  if 3 < name.length then
    match name with
    | [] => []
    | c :: r => (if c < 128 then c ||| 32 else c) :: r
  else name.map asciiLower

/-- the builders skip a field when `len(name) == 0 || 'a' <= name[0]`. For the names of the fragment
(first byte an ASCII letter) this is Go's "not exported". -/
def unexported (name : Bytes) : Bool :=
  match name with
  | [] => true
  | c :: _ => decide (97 ≤ c)

/-- `strings.Split(tag, ",")` -/
def splitComma : Bytes → List Bytes
  | [] => [[]]
  | c :: r =>
    if c = 44 then [] :: splitComma r
    else
      match splitComma r with
      | [] => [[c]]
      | p :: ps => (c :: p) :: ps

def sOmitempty : Bytes := [111, 109, 105, 116, 101, 109, 112, 116, 121]
def sString : Bytes := [115, 116, 114, 105, 110, 103]
def sDash : Bytes := [45]
def sTrue : Bytes := [116, 114, 117, 101]
def sFalse : Bytes := [102, 97, 108, 115, 101]

/-- what a non-empty `json` tag says: `none` = the field is skipped (`"-"` alone), otherwise
(name part — empty: keep the default key —, omitempty, string) -/
def parseTag (tag : Bytes) : Option (Bytes × Bool × Bool) :=
  match splitComma tag with
  | [] => some ([], false, false)
  | p :: opts =>
    if p = sDash ∧ opts = [] then none
    else some (p, opts.contains sOmitempty, opts.contains sString)

def intText (i : Int) : Bytes := (toString i).toList.map fun c => c.toNat.toUInt8

def b64Char (n : Nat) : UInt8 :=
  if n < 26 then (65 + n).toUInt8
  else if n < 52 then (97 + (n - 26)).toUInt8
  else if n < 62 then (48 + (n - 52)).toUInt8
  else if n = 62 then 43 else 47

/-- `base64.StdEncoding.EncodeToString` -/
def base64 : Bytes → Bytes
  | [] => []
  | [a] =>
    let n := a.toNat
    [b64Char (n / 4), b64Char (n % 4 * 16), 61, 61]
  | [a, b] =>
    let n := a.toNat * 256 + b.toNat
    [b64Char (n / 1024), b64Char (n / 16 % 64), b64Char (n % 16 * 4), 61]
  | a :: b :: c :: r =>
    let n := a.toNat * 65536 + b.toNat * 256 + c.toNat
    b64Char (n / 262144) :: b64Char (n / 4096 % 64) :: b64Char (n / 64 % 64) :: b64Char (n % 64) :: base64 r

/-- zero test of the `…NotEmpty` float appenders (`v == 0.0`) on the 'g' text -/
def floatIsZero (t : Bytes) : Bool := t = [48] || t = [45, 48]

/-- `len(v) == 0` / `v == 0` / `== nil`: what the `…NotEmpty` plan functions skip -/
def isEmptyVal : GoVal → Bool
  | .bool b => !b
  | .int i => i == 0
  | .flt t => floatIsZero t
  | .str s => s.isEmpty
  | .nilBytes => true
  | .bytes b => b.isEmpty
  | .nilSlice => true
  | .slice xs => xs.isEmpty
  | .arr xs => xs.isEmpty
  | .nilMap => true
  | .map kvs => kvs.isEmpty
  | .nilPtr => true
  | .ptr _ => false
  | .nilIface => true
  | .iface _ _ => false
  | .struct _ => false

/-- `t.Name()` or `t.PkgPath() + "/" + t.Name()` -/
def typeName (full : Bool) (name pkg : Bytes) : Bytes := if full then pkg ++ [47] ++ name else name

/-- the `[]byte` case of `appendJSON` / `decompose` -/
def bytesAsJV (bytesAs : Nat) (b : Bytes) : JV :=
  if bytesAs = Gen.Root.BytesAsBase64_int.toNat then .str (base64 b)
  else if bytesAs = Gen.Root.BytesAsArray_int.toNat then .arr (b.map fun x => .int x.toNat)
  else .str b

/-- a `[]byte` walked element by element -/
def bytesAsNumbers (b : Bytes) : JV := .arr (b.map fun x => .int x.toNat)

/-- `"true"` / `"5"` / `"1.5"`: the `…AsString` plan functions (bool, integer and float kinds only;
the option is ignored for every other kind, strings included) -/
def scalarText : GoVal → Option Bytes
  | .bool b => some (if b then sTrue else sFalse)
  | .int i => some (intText i)
  | .flt t => some t
  | _ => none

/-! ## field plans -/

/-- `finfo`: key, index path, field type (`rt`/`kind`), and which variant of the append function
`newFinfo` picked (`omitMask`, `strMask`) -/
structure Finfo where
  key : Bytes
  index : List Nat
  ty : GoType
  omitE : Bool
  asStr : Bool
  deriving Repr, Inhabited

def Finfo.under (i : Nat) (fi : Finfo) : Finfo := { fi with index := i :: fi.index }

/-- the fields an embedded field contributes: a struct, or a pointer to one -/
def embFields : GoType → List (FieldHdr × GoType)
  | .struct _ _ fs => fs
  | .ptr (.struct _ _ fs) => fs
  | _ => []

/-- One pass of `buildTagFields` (oj, sen) over the fields from index `i` on. The Go loop runs from
the last field to the first and appends, so the entries of the later fields come first; the second
component is the value of the variable `omitEmpty` when the loop reaches field `i - 1`.
`sub` builds the entries of an embedded struct (the recursive call, one level of `tf` down);
`om0` is the value `omitEmpty` has on entry. -/
def ojTagPass (leak tagExact keyExact nest : Bool) (sub : List (FieldHdr × GoType) → Bool → List Finfo) (om0 : Bool) :
    List (FieldHdr × GoType) → Nat → List Finfo × Bool
  | [], _ => ([], om0)
  | (h, t) :: rest, i =>
    let later := ojTagPass leak tagExact keyExact nest sub om0 rest (i + 1)
    -- with the leak the variable carries what later fields set; repaired, every field starts from om0
    let om := if leak then later.2 else om0
    if unexported h.name then later
    else if h.embedded && !nest then
      -- the recursive call receives the CURRENT value of the variable (by value: what it sets stays inside)
      (later.1 ++ (sub (embFields t) om).map (Finfo.under i), later.2)
    else
      let dflt := if tagExact || keyExact then h.name else lowerKey h.name
      if h.tag.isEmpty then (later.1 ++ [⟨dflt, [i], t, om, false⟩], later.2)
      else
        match parseTag h.tag with
        | none => later                                    -- `continue` before the options are read
        | some (p, tagOmit, asStr) =>
          (later.1 ++ [⟨if p.isEmpty then dflt else p, [i], t, om || tagOmit, asStr⟩],
           if leak then om || tagOmit else later.2)

def ojTagFields (leak tagExact keyExact nest : Bool) : Nat → List (FieldHdr × GoType) → Bool → List Finfo
  | 0, _, _ => []
  | tf + 1, fs, om0 => (ojTagPass leak tagExact keyExact nest (ojTagFields leak tagExact keyExact nest tf) om0 fs 0).1

/-- `buildExactFields` / `buildLowFields` (all three packages): no tags, the key is the name or its
lower-case style, `omitEmpty` is the struct-level option -/
def plainPass (exact nest : Bool) (sub : List (FieldHdr × GoType) → List Finfo) (om0 : Bool) :
    List (FieldHdr × GoType) → Nat → List Finfo
  | [], _ => []
  | (h, t) :: rest, i =>
    let later := plainPass exact nest sub om0 rest (i + 1)
    if unexported h.name then later
    else if h.embedded && !nest then later ++ (sub (embFields t)).map (Finfo.under i)
    else later ++ [⟨if exact then h.name else lowerKey h.name, [i], t, om0, false⟩]

def plainFields (exact nest : Bool) (om0 : Bool) : Nat → List (FieldHdr × GoType) → List Finfo
  | 0, _ => []
  | tf + 1, fs => plainPass exact nest (plainFields exact nest om0 tf) om0 fs 0

/-- `buildTagFields` of alt: the flags live in a per-field `fx` (no leak); the struct-level
`omitEmpty` parameter is not used in this builder -/
def altTagPass (tagExact keyExact nest : Bool) (sub : List (FieldHdr × GoType) → List Finfo) :
    List (FieldHdr × GoType) → Nat → List Finfo
  | [], _ => []
  | (h, t) :: rest, i =>
    let later := altTagPass tagExact keyExact nest sub rest (i + 1)
    if unexported h.name then later
    else if h.embedded && !nest then later ++ (sub (embFields t)).map (Finfo.under i)
    else
      let dflt := if tagExact || keyExact then h.name else lowerKey h.name
      if h.tag.isEmpty then later ++ [⟨dflt, [i], t, false, false⟩]
      else
        match parseTag h.tag with
        | none => later
        | some (p, tagOmit, asStr) => later ++ [⟨if p.isEmpty then dflt else p, [i], t, tagOmit, asStr⟩]

def altTagFields (tagExact keyExact nest : Bool) : Nat → List (FieldHdr × GoType) → List Finfo
  | 0, _ => []
  | tf + 1, fs => altTagPass tagExact keyExact nest (altTagFields tagExact keyExact nest tf) fs 0

/-! ### the mask-indexed plan tables

`sinfo.fields[u]` holds the plan built for mask `u`; `calcFieldsIndex` (oj, sen) / `getFields` (alt)
compute `u` from the options. The mask constants are the regenerated ones. -/

def ojMaskByTag : Nat := Gen.Oj.maskByTag_int.toNat
def ojMaskExact : Nat := Gen.Oj.maskExact_int.toNat
def ojMaskNested : Nat := Gen.Oj.maskNested_int.toNat
def ojMaskPretty : Nat := Gen.Oj.maskPretty_int.toNat
def ojMaskMax : Nat := Gen.Oj.maskMax_int.toNat
def altMaskByTag : Nat := Gen.Alt.maskByTag_int.toNat
def altMaskExact : Nat := Gen.Alt.maskExact_int.toNat
def altMaskNested : Nat := Gen.Alt.maskNested_int.toNat
def altMaskSet : Nat := Gen.Alt.maskSet_int.toNat

/-- `Writer.calcFieldsIndex` (oj/writer.go, sen/writer.go) -/
def ojFindex (o : Opts) : Nat :=
  (if o.nestEmbed then ojMaskNested else 0) ||| (if o.indent then ojMaskPretty else 0) |||
    (if o.useTags then ojMaskByTag else if o.keyExact then ojMaskExact else 0)

/-- `sinfo.getFields` (alt/sinfo.go) -/
def altFindex (o : Opts) : Nat :=
  (if o.nestEmbed then altMaskNested else 0) |||
    (if o.useTags then altMaskByTag else if o.keyExact then altMaskExact else 0)

/-- `buildStruct` + `buildFields` (oj, sen): the entry `u` of the table. A mask with both the tag and
the exact bit reuses the entry without the exact bit; `KeyExact` is therefore invisible to the tag
builder (`Dev.tagExact`; repaired, the tag builder is told). `keyExact` is only read when the
deviation is repaired. -/
def ojPlanForMask (d : Dev) (keyExact om0 : Bool) (tf : Nat) (fs : List (FieldHdr × GoType)) (u : Nat) : List Finfo :=
  let u := if u &&& ojMaskByTag ≠ 0 ∧ u &&& ojMaskExact ≠ 0 then u &&& (255 - ojMaskExact) else u
  if u &&& ojMaskByTag ≠ 0 then ojTagFields d.leak d.tagExact keyExact (u &&& ojMaskNested ≠ 0) tf fs om0
  else if u &&& ojMaskExact ≠ 0 then plainFields true (u &&& ojMaskNested ≠ 0) om0 tf fs
  else plainFields false (u &&& ojMaskNested ≠ 0) om0 tf fs

/-- alt: `buildFields(rt, u, omitEmpty)` passes `(maskNested&u) == 0` as the parameter `nested`,
which the builders read as "flatten" -/
def altPlanForMask (d : Dev) (keyExact om0 : Bool) (tf : Nat) (fs : List (FieldHdr × GoType)) (u : Nat) : List Finfo :=
  let u := if u &&& altMaskByTag ≠ 0 ∧ u &&& altMaskExact ≠ 0 then u &&& (255 - altMaskExact) else u
  if u &&& altMaskByTag ≠ 0 then altTagFields d.tagExact keyExact (!(u &&& altMaskNested == 0)) tf fs
  else if u &&& altMaskExact ≠ 0 then plainFields true (!(u &&& altMaskNested == 0)) om0 tf fs
  else plainFields false (!(u &&& altMaskNested == 0)) om0 tf fs

/-- the plan an encoder executes for a struct type under the options; `om0`: the plan was handed down
from a field whose `omitEmpty` was set (`fi.elem`, `structEmptyMap`; oj and sen only) -/
def planOf (e : Enc) (d : Dev) (o : Opts) (tf : Nat) (om0 : Bool) (fs : List (FieldHdr × GoType)) : List Finfo :=
  match e with
  | .oj => ojPlanForMask d o.keyExact (o.omitEmpty || om0) tf fs (ojFindex o)
  | .sen => ojPlanForMask d o.keyExact (o.omitEmpty || om0) tf fs (ojFindex o)   -- sen/sinfo.go is a copy of oj/sinfo.go
  | .alt => altPlanForMask d o.keyExact o.omitEmpty tf fs (altFindex o)

/-! ## plan interpreters and value walkers -/

/-- `reflect.Value.FieldByIndex`: at every step after the first a pointer to a struct is
dereferenced; a nil pointer there panics (`none`) -/
def fieldByIndex : GoVal → List Nat → Option GoVal
  | v, [] => some v
  | .struct vs, i :: rest =>
    match vs[i]? with
    | none => none
    | some x =>
      match rest with
      | [] => some x
      | _ :: _ =>
        match x with
        | .ptr y => fieldByIndex y rest
        | .nilPtr => none
        | y => fieldByIndex y rest
  | _, _ :: _ => none

/-- how the three copies differ once the plan is built -/
structure Quirks where
  /-- `[]byte` outside the `appendJSON` type switch is an array of numbers -/
  bytesNum : Bool
  /-- a nil pointer element of a slice, array or map panics -/
  elemNilPanic : Bool
  /-- a nil slice/map/[]byte map value is null -/
  mapNilNull : Bool
  /-- a nil embedded pointer on the way to a field panics (otherwise the field is left out) -/
  embNilPanic : Bool
  /-- the struct under a field whose `omitEmpty` is set is written with the all-`omitempty` plan -/
  nestedOmit : Bool
  /-- the plan handed to `appendSlice`/`tightSlice` reaches POINTER elements too (only oj's tight
  writer dereferences them before the kind switch; the others go through `appendJSON`, which looks
  the plain plan up) -/
  slicePtrPlan : Bool
  deriving DecidableEq, Repr

def quirksOf (e : Enc) (d : Dev) (o : Opts) : Quirks :=
  match e with
  | .oj => ⟨d.bytesAsSlice, d.tightNilDeref && !o.indent, false, d.embNilPanic, d.nestedOmit, d.nestedOmit && !o.indent⟩
  | .sen => ⟨d.bytesAsSlice, false, false, d.embNilPanic, d.nestedOmit, false⟩
  | .alt => ⟨false, false, d.mapNilNull, d.embNilPanic, false, false⟩

def isStructT : GoType → Bool
  | .struct _ _ _ => true
  | .ptr (.struct _ _ _) => true
  | _ => false

/-- `newFinfo` sets `fi.elem` for these field types: a struct, a pointer to one, a slice, array or
map of structs or of pointers to structs -/
def carriesPlan : GoType → Bool
  | .slice e => isStructT e
  | .array _ e => isStructT e
  | .map e => isStructT e
  | t => isStructT t

/-- the plan handed down with the value of field `fi` was built with `omitEmpty` -/
def childOE (q : Quirks) (fi : Finfo) : Bool := q.nestedOmit && fi.omitE && carriesPlan fi.ty

def isPtrT : GoType → Bool
  | .ptr _ => true
  | _ => false

def isNilContainer : GoVal → Bool
  | .nilSlice => true
  | .nilMap => true
  | .nilBytes => true
  | _ => false

/-- One plan entry executed on a struct value: `none` = nothing written (`aSkip` / `omit`),
otherwise the member. `enc viaIface t v` writes a field value (`viaIface`: through the type switch
of `appendJSON` / `decompose`, as for an interface field). -/
def fieldMember (q : Quirks) (enc : Bool → GoType → GoVal → JV) (sv : GoVal) (fi : Finfo) : Option (Bytes × JV) :=
  match fieldByIndex sv fi.index with
  | none => if q.embNilPanic then some (fi.key, panicMark) else none
  | some x =>
    if fi.omitE && isEmptyVal x then none
    else
      match (if fi.asStr then scalarText x else none) with
      | some t => some (fi.key, .str t)
      | none =>
        match fi.ty with
        | .iface => some (fi.key, enc true fi.ty x)
        | _ => some (fi.key, enc false fi.ty x)

/-- the create key member of `appendStruct` / `tightStruct` / `reflectStruct` -/
def createMember (o : Opts) (name pkg : Bytes) : List (Bytes × JV) :=
  if o.createKey.isEmpty then [] else [(o.createKey, .str (typeName o.fullTypePath name pkg))]

/-- The value walker shared by the three copies (`appendJSON`/`appendDefault`/`appendSlice`/
`appendMap` and their tight twins; `decompose`/`reflectValue`/`reflectArray`/`reflectMap`), with the
struct case executing `plan`. `viaIface`: the value reaches the type switch on its dynamic type (top
level, held by an interface); `inElem`: it is an element of a slice, array or map; `oe`: the plan
`si` handed down with the value was built with `omitEmpty` (`plan oe` is executed for a struct). -/
def encVal (q : Quirks) (o : Opts) (plan : Bool → List (FieldHdr × GoType) → List Finfo) :
    Nat → Bool → Bool → Bool → GoType → GoVal → JV
  | 0, _, _, _, _, _ => panicMark
  | vf + 1, viaIface, inElem, oe, t, v =>
    match t, v with
    | .bool, .bool b => .bool b
    | .int _, .int i => .int i
    | .float _, .flt s => .flt s
    | .str, .str s => .str s
    | .bytes, .nilBytes => if q.bytesNum && !viaIface then bytesAsNumbers [] else bytesAsJV o.bytesAs []
    | .bytes, .bytes b => if q.bytesNum && !viaIface then bytesAsNumbers b else bytesAsJV o.bytesAs b
    | .iface, .nilIface => .null
    | .iface, .iface dt dv => encVal q o plan vf true false false dt dv
    | .ptr _, .nilPtr => if inElem && q.elemNilPanic then panicMark else .null
    | .ptr e, .ptr x => encVal q o plan vf false false oe e x
    | .slice e, .nilSlice =>
      -- `case []any: if wr.strict && td == nil` of appendJSON (oj.Marshal only)
      match e with
      | .iface => if viaIface && o.strict then .null else .arr []
      | _ => .arr []
    | .slice e, .slice xs => .arr (xs.map (encVal q o plan vf false true (oe && (q.slicePtrPlan || !isPtrT e)) e))
    | .array _ e, .arr xs => .arr (xs.map (encVal q o plan vf false true (oe && (q.slicePtrPlan || !isPtrT e)) e))
    | .map _, .nilMap => .obj []
    | .map e, .map kvs =>
      .obj (kvs.map fun kv => (kv.1, if q.mapNilNull && isNilContainer kv.2 then .null else encVal q o plan vf false true oe e kv.2))
    | .struct name pkg fs, .struct vs =>
      .obj (createMember o name pkg ++ (plan oe fs).filterMap
        (fun fi => fieldMember q (fun vi ft fv => encVal q o plan vf vi false (childOE q fi) ft fv) (.struct vs) fi))
    | _, _ => panicMark

/-- the encoder `e` of the tree under deviations `d`: what `oj.JSON`/`Marshal`/`Write` (`Enc.oj`),
`sen.String` (`Enc.sen`), `alt.Decompose` and `pretty.JSON` (`Enc.alt`) describe -/
def encode (e : Enc) (d : Dev) (o : Opts) (tf vf : Nat) (t : GoType) (v : GoVal) : JV :=
  encVal (quirksOf e d o) o (planOf e d o tf) vf true false false t v

/-! ## runs of the unchanged code that hit none of the listed deviations -/

def tagHasOmit (tag : Bytes) : Bool :=
  if tag.isEmpty then false
  else
    match parseTag tag with
    | none => false
    | some r => r.2.1

/-- no `json` tag of the fields says `omitempty`, embedded structs included (what the leak needs) -/
def noOmitTag : Nat → List (FieldHdr × GoType) → Bool
  | 0, _ => true
  | tf + 1, fs => fs.all fun ht => !tagHasOmit ht.1.tag && (!ht.1.embedded || noOmitTag tf (embFields ht.2))

def isIface : GoType → Bool
  | .iface => true
  | _ => false

/-- The run of encoder `e` on `(t, v)` meets none of the triggers of the deviations switched on in
`d` (the named predicate the partial theorem excludes): an `omitempty` tag in a struct type written in
tag mode (`leak`), `UseTags` without `KeyExact` (`tagExact`), a `[]byte` outside the `appendJSON` type
switch (`bytesAsSlice`), a nil embedded pointer on the way to a field (`embNilPanic`), a nil pointer
element under the tight writer (`tightNilDeref`), a nil container as a map value (`mapNilNull`), a
field with `omitempty` whose type carries a struct plan (`nestedOmit`).
`plan` is the repaired plan. -/
def untriggered (e : Enc) (d : Dev) (o : Opts) (tf : Nat) (plan : List (FieldHdr × GoType) → List Finfo) :
    Nat → Bool → Bool → GoType → GoVal → Bool
  | 0, _, _, _, _ => true
  | vf + 1, viaIface, inElem, t, v =>
    match t, v with
    | .bytes, _ => !((quirksOf e d o).bytesNum && !viaIface)
    | .iface, .iface dt dv => untriggered e d o tf plan vf true false dt dv
    | .ptr _, .nilPtr => !(inElem && (quirksOf e d o).elemNilPanic)
    | .ptr t', .ptr x => untriggered e d o tf plan vf false false t' x
    | .slice t', .slice xs => xs.all (untriggered e d o tf plan vf false true t')
    | .array _ t', .arr xs => xs.all (untriggered e d o tf plan vf false true t')
    | .map t', .map kvs =>
      kvs.all fun kv => !((quirksOf e d o).mapNilNull && isNilContainer kv.2) && untriggered e d o tf plan vf false true t' kv.2
    | .struct _ _ fs, .struct vs =>
      (!d.leak || !o.useTags || e == .alt || noOmitTag tf fs) &&
      (!d.tagExact || !o.useTags || o.keyExact) &&
      (plan fs).all fun fi =>
        !childOE (quirksOf e d o) fi &&
        match fieldByIndex (.struct vs) fi.index with
        | none => !(quirksOf e d o).embNilPanic
        | some x => untriggered e d o tf plan vf (isIface fi.ty) false fi.ty x
    | _, _ => true

/-! ## the reference: what the option documentation prescribes

Formalisation choices (where `/repo/options.go` is silent the reading the code implements
consistently is taken):
* the lower-case key style (`KeyExact` off) lower-cases a name of at most 3 bytes entirely
  (`ID → id`, `URL → url`) and a longer name in its first byte only (`XValue → xValue`);
* with `UseTags` a tag name replaces the key; a field without a tag name keeps the key `KeyExact`
  prescribes (this is what the documentation of `UseTags` says; the code deviates: `Dev.tagExact`);
  `"-"` alone removes the field, `"-,"` names it `-`; `omitempty` removes the tagged field — and only
  it — when it is false, 0, "", nil or of length 0 (a struct is never empty); `string` writes a
  bool, integer or float as a string and is ignored elsewhere;
* an embedded struct contributes its fields to the enclosing object unless `NestEmbed`; a nil
  embedded pointer contributes nothing (as in encoding/json); with `NestEmbed` it is a member like
  any other, named by the field name;
* `CreateKey`, when set, adds a member with the type name (`FullTypePath`: `pkgpath/name`) to EVERY
  struct object; `BytesAs` applies to every `[]byte`; a nil pointer or interface is null, a nil
  slice, map or `[]byte` is written like an empty one — except that `oj.Marshal` writes a nil `[]any`
  it meets as a plain value as null (Go compatibility, `strict`);
* the members are listed from the last declared field to the first (the input order of the
  implementation's sort by key; the member order is not part of the tree). -/

def refKey (o : Opts) (h : FieldHdr) (p : Bytes) : Bytes :=
  if p.isEmpty then (if o.keyExact then h.name else lowerKey h.name) else p

/-- the member a plain (not flattened) field contributes -/
def refField (o : Opts) (enc : Bool → GoType → GoVal → JV) (h : FieldHdr) (t : GoType) (x : GoVal) : List (Bytes × JV) :=
  match (if o.useTags && !h.tag.isEmpty then parseTag h.tag else some ([], false, false)) with
  | none => []
  | some (p, tagOmit, asStr) =>
    if tagOmit && isEmptyVal x then []
    else
      match (if asStr then scalarText x else none) with
      | some s => [(refKey o h p, .str s)]
      | none =>
        match t with
        | .iface => [(refKey o h p, enc true t x)]
        | _ => [(refKey o h p, enc false t x)]

/-- the members of the fields from index `i` on, of the struct value with field values `vs`;
`sub fs' vs'` lists the members of an embedded struct -/
def refPass (o : Opts) (enc : Bool → GoType → GoVal → JV)
    (sub : List (FieldHdr × GoType) → List GoVal → List (Bytes × JV)) (vs : List GoVal) :
    List (FieldHdr × GoType) → Nat → List (Bytes × JV)
  | [], _ => []
  | (h, t) :: rest, i =>
    let later := refPass o enc sub vs rest (i + 1)
    if unexported h.name then later
    else if h.embedded && !o.nestEmbed then
      match vs[i]? with
      | some (.struct vs') => later ++ sub (embFields t) vs'
      | some (.ptr (.struct vs')) => later ++ sub (embFields t) vs'
      | _ => later                                          -- nil embedded pointer: nothing
    else
      match vs[i]? with
      | some x => later ++ refField o enc h t x
      | none => later

def refMembers (o : Opts) (enc : Bool → GoType → GoVal → JV) : Nat → List (FieldHdr × GoType) → List GoVal → List (Bytes × JV)
  | 0, _, _ => []
  | tf + 1, fs, vs => refPass o enc (refMembers o enc tf) vs fs 0

def refVal (o : Opts) (tf : Nat) : Nat → Bool → GoType → GoVal → JV
  | 0, _, _, _ => panicMark
  | vf + 1, viaIface, t, v =>
    match t, v with
    | .bool, .bool b => .bool b
    | .int _, .int i => .int i
    | .float _, .flt s => .flt s
    | .str, .str s => .str s
    | .bytes, .nilBytes => bytesAsJV o.bytesAs []
    | .bytes, .bytes b => bytesAsJV o.bytesAs b
    | .iface, .nilIface => .null
    | .iface, .iface dt dv => refVal o tf vf true dt dv
    | .ptr _, .nilPtr => .null
    | .ptr e, .ptr x => refVal o tf vf false e x
    | .slice e, .nilSlice =>
      match e with
      | .iface => if viaIface && o.strict then .null else .arr []
      | _ => .arr []
    | .slice e, .slice xs => .arr (xs.map (refVal o tf vf false e))
    | .array _ e, .arr xs => .arr (xs.map (refVal o tf vf false e))
    | .map _, .nilMap => .obj []
    | .map e, .map kvs => .obj (kvs.map fun kv => (kv.1, refVal o tf vf false e kv.2))
    | .struct name pkg fs, .struct vs =>
      .obj (createMember o name pkg ++ refMembers o (fun vi ft fv => refVal o tf vf vi ft fv) tf fs vs)
    | _, _ => panicMark

/-- the tree the documentation prescribes for value `v` of type `t` under options `o` -/
def refEncode (o : Opts) (tf vf : Nat) (t : GoType) (v : GoVal) : JV := refVal o tf vf true t v

end OjgVerif.Reflect
