import OjgVerif.JPath.Spec
import OjgVerif.Gen.Jp
/-! # JSONPath evaluators of `jp/` as Lean models

`Expr.Get` (jp/get.go) is modelled as the work-list machine it is: items are (data, fragment index,
descent flags), every fragment kind has a *last fragment* branch that appends to the results and an
*inner* branch that pushes the selected containers **in the order the Go loop pushes them** (mostly
back to front, so that they pop front to back). The interleaving of data and `fragIndex` markers on
one Go slice is an encoding of this work list and is not reproduced.

All eight evaluators (Get, First/FirstFound, Has — get.go, has.go; Locate, Expr.Walk — the
per-fragment `locate`/`Walk` methods; GetNodes, FirstNode — node.go) share one traversal skeleton,
`evalSel`, and differ in their *selection functions* (`Sel`): what a fragment selects in the last
position and what it hands on in an inner position, with the index arithmetic transcribed from each
file. For `Get` the machine is proved equal to the skeleton (Props/C05). FirstFound, Has, Locate and Walk have
programs of their own in `JPath/Machines.lean` (the FirstFound/Has work-list loops, the recursive `locate`/`Walk`
methods with Locate's budget), proved equal to these skeletons in Props/C11; GetNodes/FirstNode are the skeleton
only. Everything is tied to the Go code by the correspondence run (and the shape tripwires of JPath/Arms.lean).

Deviations of the pinned code from the documented behaviour are carried explicitly behind the flags
of `Cfg` (`Cfg.original` = the code before the fixes of /verif/notes/proposed_fixes/C05_*.md, C11_*.md,
`Cfg.pinned` = the code as it is now, `Cfg.fixed` = every flag off).

Data representations (`Rep`): the same JSON-like tree held as `[]any`/`map[string]any`, as gen nodes,
as user `Indexed`/`Keyed` collections, or as typed slices/arrays/structs/maps reached by reflection.
A tree has one array kind and one object kind (the harness builds homogeneous representations). -/
namespace OjgVerif.JPath
open OjgVerif

/-- `maxEnd` of jp/get.go (regenerated from the source) -/
def maxEnd : Int := Gen.Jp.maxEnd_int

/-- deviations of the pinned code, one flag per class (true = the deviation is present) -/
structure Cfg where
  /-- get.go/has.go/node.go, inner slice branch: `end = start + (end-start-1)/step*step` is computed
  without testing that the range is non-empty; when the quotient truncates to 0 index `start` is pushed -/
  innerEmptySlice : Bool := true
  /-- get.go/has.go/node.go, descent: the containers an inner fragment pushes share one fragment-index
  marker; expanding the first of them sets `descentFlag` on that marker and it is never cleared, so the
  following siblings are taken for already expanded: the rest of the path is applied to them but not
  to anything below them -/
  descentSiblings : Bool := true
  /-- slice.go `startEndStep` (Locate, Walk): a negative end is `size + end + 1` (inclusive) -/
  locNegEnd : Bool := true
  /-- slice.go `startEndStep`: a start at or beyond the size becomes `size - 1` (Get selects nothing).
  The suite pins it (`a[5:0:-1]` on four elements expects `a[3] a[2] a[1]`). -/
  locStartClamp : Bool := true
  /-- slice.go `startEndStep` on an empty array: the clamped start `size - 1 = -1` becomes 0, and with a
  negative step and a negative end the walk visits index 0 of nothing (reported, or an index fault) -/
  locEmptyArray : Bool := true
  /-- root.go `Root.locate`: the path `$` alone locates nothing (Get returns the data) -/
  locateRoot : Bool := true
  /-- descent.go/wildcard.go `wildWalk`: a descent applies the rest of the path to everything below the
  node but not to the node itself -/
  walkDescentNoSelf : Bool := true
  /-- node.go GetNodes, union in last position: an index member that is out of range appends nil -/
  nodesUnionNil : Bool := true
  /-- node.go GetNodes, filter in last position: the matches are copied off the stack bottom up, i.e.
  in reverse array order -/
  nodesFilterRev : Bool := true
  /-- node.go FirstNode: a union is scanned from its last member, a filter returns the bottom of the
  stack (the last match) -/
  firstNodeLast : Bool := true
  /-- script.go `evalWithRoot` with a `[]gen.Node` stack: a matching `null` (nil Node) is not pushed -/
  nodesFilterNull : Bool := true
  /-- get.go `reflectGetWild`, wildcard.go/descent.go `locate`: no case for a typed map, so wildcard and
  descent see no members in a `map[string]T` (Child and Union do, through `reflectGetChild`) -/
  typedMapWild : Bool := true
  /-- script.go `evalWithRoot`: of the typed containers only slices and arrays are filtered; a filter
  selects nothing in a struct or typed map (filter.go `Filter.Walk` has typed maps, not structs) -/
  typedObjFilter : Bool := true
  /-- get.go FirstFound / has.go Has, Slice on typed data: `reflectGetNth(tv, start)` — end and step are
  not consulted, only element `start` is returned or pushed -/
  firstTypedSlice : Bool := true
  /-- get.go FirstFound / has.go Has, Wildcard on typed data in an inner position: `reflectGetWildOne`
  pushes one element only (the first of a slice, the last field of a struct) -/
  firstTypedWildOne : Bool := true
  /-- has.go: the kind lists of the inner branches lack `reflect.Map`, a typed map is never pushed -/
  hasTypedMap : Bool := true
  /-- has.go, Descent: the `default:` case of get.go is missing: a descent at a struct, typed slice, array
  or map selects nothing, and a non-container handed to a descent does not set the descent flag -/
  hasTypedDescent : Bool := true
  /-- slice.go `Slice.Walk` takes the length of `reflect.Slice` only, filter.go `Filter.Walk` handles
  `reflect.Slice` only: typed arrays are skipped -/
  walkTypedArray : Bool := true
  -- The last three flags do not touch the traversal. In the model a filter fragment carries a predicate;
  -- these flags say WHICH predicate a script denotes for an evaluator when the script reads from `$`. They are
  -- interpreted where scripts become predicates (`FilterSpec.filterOf`, `Driver.rootFor`), not in this file.
  /-- (before 22c4424) script.go `evalWithRoot` evaluates a path operand with `x.Get(v)`, and Get hands its
  own argument to the filters of that path as their root: a `$` inside a filter nested in an `@`-path of a
  script is the element under test, not the query argument (RFC 9535 §2.2) -/
  nestedFilterRoot : Bool := true
  /-- (before 049a508) filter.go `Filter.locate`: `f.evalWithRoot([]any{}, data, nil)` — the script is evaluated with a nil root,
  every `$…` operand is nothing (`$` alone is null) -/
  locFilterRootNil : Bool := true
  /-- (before 049a508) filter.go `Filter.Walk`: `f.Match(v)`, and script.go `Match` passes the tested element as the root -/
  walkFilterRootSelf : Bool := true
  deriving Inhabited

/-- the code as it was before the jp fixes of this verification (every deviation present) -/
def Cfg.original : Cfg := {}

/-- **the code as it is now.** Repaired (flag off), with the commit in /repo:
`descentSiblings` baff053 · `innerEmptySlice` 0e0caaf · `locNegEnd`, `locEmptyArray`, `locateRoot` fa2ed77 ·
`walkDescentNoSelf` 5d79291 · `nodesUnionNil`, `nodesFilterRev`, `firstNodeLast`, `nodesFilterNull` 360668e ·
`hasTypedMap`, `hasTypedDescent` 21977aa (1af5385, FirstFound on Indexed, had no flag) ·
`firstTypedWildOne` 6d09ec9 · `walkTypedArray` 6f19325 · `typedMapWild` 927d89c · `typedObjFilter` c654348 ·
`locFilterRootNil`, `walkFilterRootSelf` 049a508 · `nestedFilterRoot` 22c4424.
Still present, both pinned by the suite: `locStartClamp` (TestExprLocateAny: `a[5:0:-1]`), `firstTypedSlice`
(TestExprFirst/TestExprHas: `$[1:1][0]` on typed data). `Gen.JpathFacts` reads the same flags off the source;
`C11.pinned_is_source` ties the two. -/
def Cfg.pinned : Cfg :=
  { innerEmptySlice := false, descentSiblings := false, locNegEnd := false, locEmptyArray := false,
    locateRoot := false, walkDescentNoSelf := false, nodesUnionNil := false, nodesFilterRev := false,
    firstNodeLast := false, nodesFilterNull := false, hasTypedMap := false, hasTypedDescent := false,
    firstTypedWildOne := false, walkTypedArray := false, typedMapWild := false, typedObjFilter := false,
    nestedFilterRoot := false, locFilterRootNil := false, walkFilterRootSelf := false }

/-- every deviation off -/
def Cfg.fixed : Cfg :=
  { innerEmptySlice := false, descentSiblings := false, locNegEnd := false, locStartClamp := false, locEmptyArray := false, locateRoot := false, walkDescentNoSelf := false,
    nodesUnionNil := false, nodesFilterRev := false, firstNodeLast := false, nodesFilterNull := false,
    typedMapWild := false, typedObjFilter := false, firstTypedSlice := false, firstTypedWildOne := false,
    hasTypedMap := false, hasTypedDescent := false, walkTypedArray := false,
    nestedFilterRoot := false, locFilterRootNil := false, walkFilterRootSelf := false }

/-- how arrays are held -/
inductive AK where
  | any      -- []any
  | gen      -- gen.Array
  | indexed  -- user type implementing jp.Indexed
  | rslice   -- typed slice reached by reflection
  | rarray   -- typed array reached by reflection
  deriving DecidableEq, Inhabited

/-- how objects are held -/
inductive OKind where
  | map      -- map[string]any
  | gen      -- gen.Object
  | keyed    -- user type implementing jp.Keyed
  | struct   -- typed struct reached by reflection (field lookup by name or json tag)
  | rmap     -- typed map (map[string]T) reached by reflection
  deriving DecidableEq, Inhabited

structure Rep where
  ak : AK
  ok : OKind
  deriving DecidableEq, Inhabited

def Rep.simple : Rep := ⟨.any, .map⟩
def Rep.gen : Rep := ⟨.gen, .gen⟩

def AK.typed : AK → Bool
  | .rslice => true
  | .rarray => true
  | _ => false

def OKind.typed : OKind → Bool
  | .struct => true
  | .rmap => true
  | _ => false

/-! ## Shared pieces -/

def contOnly (l : List (Path × JV)) : List (Path × JV) := l.filter fun m => isContainer m.2

/-- `v, has = tv[key]` / `ValueForKey` / `reflectGetChild` -/
def mKey (k : Bytes) : JV → List (Path × JV)
  | .obj kvs =>
    match lookup k kvs with
    | some c => [([.key k], c)]
    | none => []
  | _ => []

/-- `if i < 0 { i = len(tv) + i }; if 0 <= i && i < len(tv) { v = tv[i] }` -/
def mIdx (i : Int) : JV → List (Path × JV)
  | .arr xs =>
    let j := if i < 0 then (xs.length : Int) + i else i
    if 0 ≤ j ∧ j < (xs.length : Int) then
      match xs[j.toNat]? with
      | some c => [([.idx j.toNat], c)]
      | none => []
    else []
  | _ => []

def mMember (v : JV) : Member → List (Path × JV)
  | .key k => mKey k v
  | .idx i => mIdx i v

/-- element `i` of an array with its location (nothing if `i` is not an index of the array) -/
def elemAt (xs : List JV) (i : Int) : List (Path × JV) :=
  if 0 ≤ i then
    match xs[i.toNat]? with
    | some c => [([.idx i.toNat], c)]
    | none => []
  else []

/-- `for i := start; i < stop; i += step` (at most `fuel` rounds; `fuel` = array length suffices) -/
def loopUp : Nat → Int → Int → Int → List Int
  | 0, _, _, _ => []
  | f + 1, i, stop, step => if i < stop then i :: loopUp f (i + step) stop step else []

/-- `for i := start; stop < i; i += step` -/
def loopDown : Nat → Int → Int → Int → List Int
  | 0, _, _, _ => []
  | f + 1, i, stop, step => if stop < i then i :: loopDown f (i + step) stop step else []

/-- `for i := e; start <= i; i -= step` (the inner branch of a slice with a positive step) -/
def pushDown : Nat → Int → Int → Int → List Int
  | 0, _, _, _ => []
  | f + 1, i, start, step => if start ≤ i then i :: pushDown f (i - step) start step else []

/-- `for i := e; i <= start; i -= step` (the inner branch of a slice with a negative step) -/
def pushUp : Nat → Int → Int → Int → List Int
  | 0, _, _, _ => []
  | f + 1, i, start, step => if i ≤ start then i :: pushUp f (i - step) start step else []

/-- normalised slice bounds -/
structure SES where
  start : Int
  stop : Int
  step : Int
  deriving Inhabited

/-! ## Descent (get.go:288-471 and the copies in has.go, node.go)

First pass: the node is put back with `descentFlag`, in the last position all members go to the
results, the members that are containers are pushed with `descentChildFlag`. Second pass: in the last
position the node itself goes to the results unless it carries `descentChildFlag` (it was already
reported as a member of its parent); otherwise the rest of the path is evaluated on it. -/

mutual
  /-- inner position: the nodes the rest of the path is applied to, in the order the machine reaches
  them (container members first, recursively; then the node) -/
  def nodesInner : JV → List (Path × JV)
    | .arr xs => nodesInnerL 0 xs ++ [([], .arr xs)]
    | .obj kvs => nodesInnerKV kvs ++ [([], .obj kvs)]
    | .null => [([], .null)]
    | .bool b => [([], .bool b)]
    | .int i => [([], .int i)]
    | .flt t => [([], .flt t)]
    | .big t => [([], .big t)]
    | .num t => [([], .num t)]
    | .str s => [([], .str s)]
  def nodesInnerL : Nat → List JV → List (Path × JV)
    | _, [] => []
    | i, x :: r => (if isContainer x then (nodesInner x).map (pfx (.idx i)) else []) ++ nodesInnerL (i + 1) r
  def nodesInnerKV : List (Bytes × JV) → List (Path × JV)
    | [] => []
    | m :: r => (if isContainer m.2 then (nodesInner m.2).map (pfx (.key m.1)) else []) ++ nodesInnerKV r
end

mutual
  /-- last position, below the starting node: all members, then what the container members yield -/
  def lastBelow : JV → List (Path × JV)
    | .arr xs => elemsFrom 0 xs ++ lastBelowL 0 xs
    | .obj kvs => (kvs.map fun m => ([Loc.key m.1], m.2)) ++ lastBelowKV kvs
    | _ => []
  def lastBelowL : Nat → List JV → List (Path × JV)
    | _, [] => []
    | i, x :: r => (lastBelow x).map (pfx (.idx i)) ++ lastBelowL (i + 1) r
  def lastBelowKV : List (Bytes × JV) → List (Path × JV)
    | [] => []
    | m :: r => (lastBelow m.2).map (pfx (.key m.1)) ++ lastBelowKV r
end

/-- last position: everything below the node in the machine's order, then the node (`top`) -/
def lastDesc (v : JV) : List (Path × JV) := lastBelow v ++ [([], v)]

mutual
  /-- everything strictly below a node, parents before children (descent.go `locate`, `wildWalk`) -/
  def belowPre : JV → List (Path × JV)
    | .arr xs => belowPreL 0 xs
    | .obj kvs => belowPreKV kvs
    | _ => []
  def belowPreL : Nat → List JV → List (Path × JV)
    | _, [] => []
    | i, x :: r => ([Loc.idx i], x) :: (belowPre x).map (pfx (.idx i)) ++ belowPreL (i + 1) r
  def belowPreKV : List (Bytes × JV) → List (Path × JV)
    | [] => []
    | m :: r => ([Loc.key m.1], m.2) :: (belowPre m.2).map (pfx (.key m.1)) ++ belowPreKV r
end

/-! Typed maps under descent: with `typedMapWild` the members of a `map[string]T` are invisible to a
descent (get.go, locate); these are the three functions above with objects cut off. -/

mutual
  def nodesInnerCut : JV → List (Path × JV)
    | .arr xs => nodesInnerCutL 0 xs ++ [([], .arr xs)]
    | v => [([], v)]
  def nodesInnerCutL : Nat → List JV → List (Path × JV)
    | _, [] => []
    | i, x :: r => (if isContainer x then (nodesInnerCut x).map (pfx (.idx i)) else []) ++ nodesInnerCutL (i + 1) r
end

mutual
  def belowPreCut : JV → List (Path × JV)
    | .arr xs => belowPreCutL 0 xs
    | _ => []
  def belowPreCutL : Nat → List JV → List (Path × JV)
    | _, [] => []
    | i, x :: r => ([Loc.idx i], x) :: (belowPreCut x).map (pfx (.idx i)) ++ belowPreCutL (i + 1) r
end

/-! ## The shared skeleton -/

/-- what an evaluator's fragment code selects: in the last position, and in an inner position (in the
order in which the rest of the path is applied); `sets`: does the first pass of a descent on this
element set `descentFlag` on the marker (Get and FirstFound have a `default:` case that always does;
Has, GetNodes and FirstNode only have cases for the containers they know) -/
structure Sel where
  last : Frag → JV → List (Path × JV)
  inner : Frag → JV → List (Path × JV)
  sets : JV → Bool

def isDescent : Frag → Bool
  | .descent => true
  | _ => false

/-- prefix the locations of a result list -/
def pre (p : Path) (l : List (Path × JV)) : List (Path × JV) := l.map fun q => (p ++ q.1, q.2)

/-- the `descentSiblings` deviation: the elements handed to a descent share one marker; each is expanded
(`full`) until one of them sets the flag, the remaining ones only get the second pass (`shallow`) -/
def sibEval (sets : JV → Bool) (full shallow : Path × JV → List (Path × JV)) : List (Path × JV) → List (Path × JV)
  | [] => []
  | m :: ms => if sets m.2 then full m ++ ms.flatMap shallow else full m ++ sibEval sets full shallow ms

/-- the traversal all evaluators share ("the easy way" of the comment in get.go).
`sib` = the `descentSiblings` deviation of the stack machines: where a descent follows another
fragment, only the first element that fragment hands on is descended into; for the others the rest
of the path is applied to the element itself only. -/
def evalSel (S : Sel) (sib : Bool) : List Frag → JV → List (Path × JV)
  | [], v => [([], v)]
  | [f], v => S.last f v
  | f :: g :: r, v =>
    if sib && isDescent g && !isDescent f then
      sibEval S.sets (fun m => pre m.1 (evalSel S sib (g :: r) m.2)) (fun m => pre m.1 (evalSel S sib r m.2)) (S.inner f v)
    else (S.inner f v).flatMap fun m => pre m.1 (evalSel S sib (g :: r) m.2)

/-! ## Get (jp/get.go) -/

namespace Get

/-- slice bounds as the `[]any`, `Indexed` and `gen.Array` branches normalise them.
`clampNeg = false` is the `gen.Array` branch of `Get`, which clamps `end` to the length only for a
positive step. `none` = one of the `continue` statements (nothing selected). -/
def norm (clampNeg : Bool) (n : Nat) (s e t : Option Int) : Option SES :=
  let start := s.getD 0
  let stop := e.getD maxEnd
  let step := t.getD 1
  if step = 0 then none
  else
    let start := if start < 0 then (if (n : Int) + start < 0 then 0 else (n : Int) + start) else start
    let stop := if stop < 0 then (n : Int) + stop else stop
    if (n : Int) ≤ start then none
    else
      let stop := if (decide (0 < step) || clampNeg) && decide ((n : Int) < stop) then (n : Int) else stop
      let stop := if decide (step < 0) && decide (stop < -1) then -1 else stop
      some ⟨start, stop, step⟩

/-- `reflectGetSlice` (typed slices and arrays) -/
def rnorm (n : Nat) (s e t : Option Int) : Option SES :=
  let start := s.getD 0
  let stop := e.getD maxEnd
  let step := t.getD 1
  if step = 0 then none
  else
    let start := if start < 0 then (if (n : Int) + start < 0 then 0 else (n : Int) + start) else start
    let stop := if stop < 0 then (if (n : Int) + stop < -1 then -1 else (n : Int) + stop) else stop
    let stop := if (n : Int) < stop then (n : Int) else stop
    if 0 ≤ start ∧ start < (n : Int) then some ⟨start, stop, step⟩ else none

/-- last position: `for i := start; i < end; i += step` resp. `for i := start; end < i; i += step` -/
def lastIdx (n : Nat) (b : SES) : List Int :=
  if 0 < b.step then loopUp n b.start b.stop b.step else loopDown n b.start b.stop b.step

/-- inner position, in push order: `end = start + (end-start-1)/step*step; for i := end; start <= i; i -= step`
resp. `end = start - (start-end-1)/step*step; for i := end; i <= start; i -= step` (Go `/` truncates).
With `innerEmptySlice` off an empty range pushes nothing (the proposed fix). -/
def innerIdx (cfg : Cfg) (n : Nat) (b : SES) : List Int :=
  if 0 < b.step then
    if !cfg.innerEmptySlice && decide (b.stop ≤ b.start) then []
    else pushDown n (b.start + (b.stop - b.start - 1).tdiv b.step * b.step) b.start b.step
  else
    if !cfg.innerEmptySlice && decide (b.start ≤ b.stop) then []
    else pushUp n (b.start - (b.start - b.stop - 1).tdiv b.step * b.step) b.start b.step

def normFor (rep : Rep) (n : Nat) (s e t : Option Int) : Option SES :=
  match rep.ak with
  | .any => norm true n s e t
  | .indexed => norm true n s e t
  | .gen => norm false n s e t
  | .rslice => rnorm n s e t
  | .rarray => rnorm n s e t

def sliceLast (rep : Rep) (s e t : Option Int) : JV → List (Path × JV)
  | .arr xs =>
    match normFor rep xs.length s e t with
    | none => []
    | some b => (lastIdx xs.length b).flatMap (elemAt xs)
  | _ => []

/-- the elements a slice pushes in an inner position, in push order (typed data: `reflectGetSlice`
returns the selection back to front and it is pushed in that order) -/
def slicePush (cfg : Cfg) (rep : Rep) (s e t : Option Int) : JV → List (Path × JV)
  | .arr xs =>
    match normFor rep xs.length s e t with
    | none => []
    | some b =>
      if rep.ak.typed then ((lastIdx xs.length b).flatMap (elemAt xs)).reverse
      else (innerIdx cfg xs.length b).flatMap (elemAt xs)
  | _ => []

/-- members as the wildcard, descent and filter code reaches them: `reflectGetWild` has no case for a
typed map; `evalWithRoot` has a case for typed slices and arrays only -/
def wildKids (cfg : Cfg) (rep : Rep) : JV → List (Path × JV)
  | .arr xs => elemsFrom 0 xs
  | .obj kvs => if cfg.typedMapWild && rep.ok = .rmap then [] else kvs.map fun m => ([Loc.key m.1], m.2)
  | _ => []

def filterKids (cfg : Cfg) (rep : Rep) (p : JV → Bool) : JV → List (Path × JV)
  | .arr xs => (elemsFrom 0 xs).filter fun m => p m.2
  | .obj kvs =>
    if cfg.typedObjFilter && rep.ok.typed then []
    else (kvs.map fun m => ([Loc.key m.1], m.2)).filter fun m => p m.2
  | _ => []

/-- results appended in the last-fragment branch (descent is handled by the machine) -/
def last (cfg : Cfg) (rep : Rep) : Frag → JV → List (Path × JV)
  | .child k, v => mKey k v
  | .nth i, v => mIdx i v
  | .wild, v => wildKids cfg rep v
  | .descent, v => lastDesc v
  | .union ms, v => ms.flatMap (mMember v)
  | .slice s e t, v => sliceLast rep s e t v
  | .filter p, v => filterKids cfg rep p v

/-- data pushed in an inner branch, in the order of the Go pushes. A Go map is iterated in an order of
its own; the model iterates the member list back to front so that the members pop in list order. -/
def push (cfg : Cfg) (rep : Rep) : Frag → JV → List (Path × JV)
  | .child k, v => contOnly (mKey k v)
  | .nth i, v => contOnly (mIdx i v)
  | .wild, v => contOnly (wildKids cfg rep v).reverse           -- `for i := len(tv) - 1; 0 <= i; i--`
  | .descent, v =>                                               -- (the machine expands a descent itself)
    if cfg.typedMapWild && rep.ok = .rmap then (nodesInnerCut v).reverse else (nodesInner v).reverse
  | .union ms, v => ms.reverse.flatMap fun m => contOnly (mMember v m)   -- `for ui := len(tf) - 1; 0 <= ui; ui--`
  | .slice s e t, v => contOnly (slicePush cfg rep s e t v)
  | .filter p, v => (filterKids cfg rep p v).reverse             -- evalWithRoot: `for vi := dlen - 1; 0 <= vi; vi--`, every match

def sel (cfg : Cfg) (rep : Rep) : Sel :=
  { last := last cfg rep, inner := fun f v => (push cfg rep f v).reverse, sets := fun _ => true }

/-- a stretch of the evaluation stack: data elements (the head is the top) under one fragment-index
marker with its flags. The Go stack is the concatenation of such stretches; the round that only pops
an exhausted marker is folded into the round before it (a frame never stays empty). -/
structure Frame where
  fi : Nat
  dflag : Bool   -- descentFlag on the marker
  cflag : Bool   -- descentChildFlag on the marker
  items : List JV
  deriving Inhabited

/-- the frame that remains when its top element is gone -/
def Frame.rest (fr : Frame) (dflag : Bool) (items : List JV) : List Frame :=
  if items.isEmpty then [] else [{ fr with dflag := dflag, items := items }]

/-- pushed data gets the next fragment index above it, if there is any -/
def pushed (fi : Nat) (items : List JV) : List Frame :=
  if items.isEmpty then [] else [⟨fi, false, false, items⟩]

/-- one round of the main loop: the top element `d` of frame `fr` (whose other elements are `rest`) is
popped; the result is what is appended to the results and the frames that replace `fr`.
`L`/`P` are the last-branch results and the inner-branch pushes (in push order) of the fragments other
than descent. -/
def step (sib : Bool) (L P : Frag → JV → List JV) (x : List Frag) (fr : Frame) (d : JV) (rest : List JV) :
    List JV × List Frame :=
  match x.drop fr.fi with
  | [] => ([], fr.rest fr.dflag rest)
  | .descent :: r =>
    if !fr.dflag then
      -- first pass: prev goes back under the marker, which gets descentFlag; in the last position the
      -- members are results; members that are containers are pushed, each with its own marker
      -- carrying descentChildFlag (back to front)
      ((if r.isEmpty then (members d).map (·.2) else []),
       ((((members d).map (·.2)).reverse.filter isContainer).map fun c => (⟨fr.fi, false, true, [c]⟩ : Frame)).reverse
         ++ [{ fr with dflag := true, items := d :: rest }])
    else if r.isEmpty then
      -- second pass, last position: the node itself unless it was reported as a member
      ((if !fr.cflag then [d] else []), fr.rest sib rest)
    else
      -- second pass: the rest of the path is evaluated on the node
      ([], pushed (fr.fi + 1) [d] ++ fr.rest sib rest)
  | f :: r =>
    if r.isEmpty then (L f d, fr.rest fr.dflag rest)
    else ([], pushed (fr.fi + 1) (P f d).reverse ++ fr.rest fr.dflag rest)

/-- the main loop; the head of the list is the top of the stack -/
def run (sib : Bool) (L P : Frag → JV → List JV) (x : List Frag) : Nat → List Frame → List JV → List JV
  | 0, _, acc => acc
  | _ + 1, [], acc => acc
  | n + 1, fr :: st, acc =>
    match fr.items with
    | [] => run sib L P x n st acc
    | d :: rest => run sib L P x n ((step sib L P x fr d rest).2 ++ st) (acc ++ (step sib L P x fr d rest).1)

/-- rounds of the main loop needed for a value under the remaining fragments -/
def cost (P : Frag → JV → List JV) : List Frag → JV → Nat
  | [], _ => 0
  | f :: r, v =>
    match f with
    | .descent => ((nodesInner v).map fun m => 2 + cost P r m.2).sum
    | _ => 1 + ((P f v).map fun c => cost P r c).sum

def lastV (cfg : Cfg) (rep : Rep) (f : Frag) (v : JV) : List JV := (last cfg rep f v).map (·.2)
def pushV (cfg : Cfg) (rep : Rep) (f : Frag) (v : JV) : List JV := (push cfg rep f v).map (·.2)

end Get

/-- `Expr.Get` on JSON-like data (the path without its leading `$`; the empty path is `$` itself) -/
def getM (cfg : Cfg) (rep : Rep) (x : List Frag) (d : JV) : List JV :=
  match x with
  | [] => [d]
  | _ => Get.run cfg.descentSiblings (Get.lastV cfg rep) (Get.pushV cfg rep) x (Get.cost (Get.pushV cfg rep) x d + 1)
           [⟨0, false, false, [d]⟩] []

/-- the same through the skeleton -/
def getS (cfg : Cfg) (rep : Rep) (x : List Frag) (d : JV) : List (Path × JV) := evalSel (Get.sel cfg rep) cfg.descentSiblings x d

/-! ## First / FirstFound and Has (jp/get.go:885-1683, jp/has.go)

Same machine; the last-fragment branches return at the first element. For a slice they test
`start < end` (resp. `end < start`) and return `tv[start]`; when the test fails the code falls into the
inner-branch loop, whose pushes are dropped again without being looked at. On typed slices and arrays
the slice case is `reflectGetNth(tv, start)` with the *raw* start: end and step are not consulted. -/

namespace First

def sliceLast (cfg : Cfg) (rep : Rep) (s e t : Option Int) : JV → List (Path × JV)
  | .arr xs =>
    if rep.ak.typed then
      (if cfg.firstTypedSlice then (if t = some 0 then [] else mIdx (s.getD 0) (.arr xs))
       else (Get.sliceLast rep s e t (.arr xs)).take 1)
    else
      match Get.norm true xs.length s e t with
      | none => []
      | some b =>
        if 0 < b.step then (if b.start < b.stop then elemAt xs b.start else [])
        else (if b.stop < b.start then elemAt xs b.start else [])
  | _ => []

/-- in pop order -/
def sliceInner (cfg : Cfg) (rep : Rep) (s e t : Option Int) : JV → List (Path × JV)
  | .arr xs =>
    if rep.ak.typed then
      (if cfg.firstTypedSlice then (if t = some 0 then [] else contOnly (mIdx (s.getD 0) (.arr xs)))
       else (contOnly (Get.slicePush cfg rep s e t (.arr xs))).reverse)
    else
      match Get.norm true xs.length s e t with
      | none => []
      | some b => (contOnly ((Get.innerIdx cfg xs.length b).flatMap (elemAt xs))).reverse
  | _ => []

/-- `reflectGetWildOne`: the first element of a typed slice or array, the *last* field of a struct -/
def wildOne (cfg : Cfg) (rep : Rep) : JV → List (Path × JV)
  | .arr xs => (elemsFrom 0 xs).take 1
  | .obj kvs =>
    if cfg.typedMapWild && rep.ok = .rmap then []
    else if rep.ok = .struct then (kvs.reverse.take 1).map fun m => ([Loc.key m.1], m.2)
    else (kvs.take 1).map fun m => ([Loc.key m.1], m.2)
  | _ => []

def last (cfg : Cfg) (rep : Rep) : Frag → JV → List (Path × JV)
  | .child k, v => mKey k v
  | .nth i, v => mIdx i v
  | .wild, v => wildOne cfg rep v
  | .descent, v => (lastDesc v).take 1
  | .union ms, v => (ms.flatMap (mMember v)).take 1
  | .slice s e t, v => sliceLast cfg rep s e t v
  | .filter p, v => (Get.filterKids cfg rep p v).take 1

def typedNode (rep : Rep) : JV → Bool
  | .arr _ => rep.ak.typed
  | .obj _ => rep.ok.typed
  | _ => false

def inner (cfg : Cfg) (rep : Rep) : Frag → JV → List (Path × JV)
  | .wild, v =>
    if cfg.firstTypedWildOne && typedNode rep v then contOnly (wildOne cfg rep v)
    else contOnly (Get.wildKids cfg rep v)
  | .slice s e t, v => sliceInner cfg rep s e t v
  | f, v => (Get.push cfg rep f v).reverse

def sel (cfg : Cfg) (rep : Rep) : Sel := { last := last cfg rep, inner := inner cfg rep, sets := fun _ => true }

end First

/-- `Expr.FirstFound` -/
def firstM (cfg : Cfg) (rep : Rep) (x : List Frag) (d : JV) : Option JV :=
  ((evalSel (First.sel cfg rep) cfg.descentSiblings x d).map (·.2)).head?

/-- `Expr.Has` (has.go is FirstFound with `return true`; typed maps are not pushed: the kind list of the
inner branches lacks `reflect.Map`) -/
def Has.inner (cfg : Cfg) (rep : Rep) (f : Frag) (v : JV) : List (Path × JV) :=
  if cfg.hasTypedDescent && isDescent f && First.typedNode rep v then []
  else if cfg.hasTypedMap && rep.ok = .rmap then
    match f with
    | .filter _ => First.inner cfg rep f v       -- evalWithRoot pushes every match itself
    | _ => (First.inner cfg rep f v).filter fun m => match m.2 with | .obj _ => false | _ => true
  else First.inner cfg rep f v

def Has.sel (cfg : Cfg) (rep : Rep) : Sel :=
  { last := First.last cfg rep, inner := Has.inner cfg rep,
    sets := fun v => !cfg.hasTypedDescent || (isContainer v && !First.typedNode rep v) }

def hasM (cfg : Cfg) (rep : Rep) (x : List Frag) (d : JV) : Bool :=
  !(evalSel (Has.sel cfg rep) cfg.descentSiblings x d).isEmpty

/-! ## Locate and Expr.Walk (the `locate` and `Walk` methods of each fragment type) -/

namespace Locate

/-- slice.go `startEndStep` -/
def ses (cfg : Cfg) (n : Nat) (s e t : Option Int) : Option SES :=
  let start := s.getD 0
  let stop := e.getD maxEnd
  let step := t.getD 1
  if step = 0 then none
  else if !cfg.locEmptyArray && n = 0 then none
  else if !cfg.locStartClamp && decide ((n : Int) ≤ (if start < 0 then (if (n : Int) + start < 0 then 0 else (n : Int) + start) else start)) then none
  else
    let start := if start < 0 then (n : Int) + start else if (n : Int) ≤ start then (n : Int) - 1 else start
    let start := if start < 0 then 0 else start
    let stop :=
      if stop < 0 then
        (let e1 := if cfg.locNegEnd then (n : Int) + stop + 1 else (n : Int) + stop
         if e1 < (if cfg.locNegEnd then 0 else -1) ∧ step < 0 then -1 else e1)
      else if (n : Int) < stop then (n : Int) else stop
    some ⟨start, stop, step⟩

def sliceIdx (cfg : Cfg) (n : Nat) (s e t : Option Int) : List Int :=
  match ses cfg n s e t with
  | none => []
  | some b => Get.lastIdx (max n 1) b    -- (an empty array can still make one round with `locStartClamp`)

/-- a located element; an index that is not in the array (possible with `locStartClamp` on an empty
array) is reported in the last position without a bounds test -/
def elemOrPhantom (xs : List JV) (i : Int) : List (Path × JV) :=
  match xs[i.toNat]? with
  | some c => [([.idx i.toNat], c)]
  | none => [([.idx i.toNat], .null)]

def last (cfg : Cfg) (rep : Rep) : Frag → JV → List (Path × JV)
  | .child k, v => mKey k v
  | .nth i, v => mIdx i v
  | .wild, v => Get.wildKids cfg rep v
  | .descent, v => ([], v) :: (if cfg.typedMapWild && rep.ok = .rmap then belowPreCut v else belowPre v)
  | .union ms, v => ms.flatMap (mMember v)
  | .slice s e t, v =>
    match v with
    | .arr xs => (sliceIdx cfg xs.length s e t).flatMap (elemOrPhantom xs)
    | _ => []
  | .filter p, v => (Get.filterKids cfg rep p v).reverse

def inner (cfg : Cfg) (rep : Rep) (f : Frag) (v : JV) : List (Path × JV) :=
  match f with
  | .descent => (last cfg rep f v).filter fun m => isContainer m.2 || m.1.isEmpty
  | _ => contOnly (last cfg rep f v)

def sel (cfg : Cfg) (rep : Rep) : Sel := { last := last cfg rep, inner := inner cfg rep, sets := fun _ => true }

/-- an inner slice fragment indexes the array without a bounds test: `td[i]` faults when the index
`startEndStep` produced is not in the array -/
def faultHere (cfg : Cfg) : Frag → JV → Bool
  | .slice s e t, .arr xs => (sliceIdx cfg xs.length s e t).any fun i => decide (i < 0) || decide ((xs.length : Int) ≤ i)
  | _, _ => false

def fault (cfg : Cfg) (rep : Rep) : List Frag → JV → Bool
  | [], _ => false
  | [f], v => rep.ak.typed && faultHere cfg f v      -- `rd.Index(i)` precedes the append
  | f :: g :: r, v => faultHere cfg f v || (inner cfg rep f v).any fun m => fault cfg rep (g :: r) m.2

end Locate

/-- `Expr.Locate(data, 0)`: the normalized paths (with the located values) -/
def locateM (cfg : Cfg) (rep : Rep) (x : List Frag) (d : JV) : List (Path × JV) :=
  match x with
  | [] => if cfg.locateRoot then [] else [([], d)]
  | _ => evalSel (Locate.sel cfg rep) false x d

namespace Walk

def wildKids : JV → List (Path × JV)
  | .arr xs => elemsFrom 0 xs
  | .obj kvs => kvs.map fun m => ([Loc.key m.1], m.2)
  | _ => []

/-- slice.go `Slice.Walk`: `startEndStep` on the length, then `Nth(i).Walk`, which tests the bounds.
The length of a typed *array* is taken as 0 (`rv.Kind() == reflect.Slice` only). -/
def slice (cfg : Cfg) (rep : Rep) (s e t : Option Int) : JV → List (Path × JV)
  | .arr xs =>
    let n := if cfg.walkTypedArray && rep.ak = .rarray then 0 else xs.length
    (Locate.sliceIdx cfg n s e t).flatMap fun i => mIdx i (.arr xs)
  | _ => []

/-- filter.go `Filter.Walk`: typed slices and typed maps are handled, typed arrays and structs are not -/
def filterKids (cfg : Cfg) (rep : Rep) (p : JV → Bool) : JV → List (Path × JV)
  | .arr xs => if cfg.walkTypedArray && rep.ak = .rarray then [] else (elemsFrom 0 xs).filter fun m => p m.2
  | .obj kvs =>
    if cfg.typedObjFilter && rep.ok = .struct then []
    else (kvs.map fun m => ([Loc.key m.1], m.2)).filter fun m => p m.2
  | _ => []

def last (cfg : Cfg) (rep : Rep) : Frag → JV → List (Path × JV)
  | .child k, v => mKey k v
  | .nth i, v => mIdx i v
  | .wild, v => wildKids v
  | .descent, v => belowPre v
  | .union ms, v => ms.flatMap (mMember v)
  | .slice s e t, v => slice cfg rep s e t v
  | .filter p, v => filterKids cfg rep p v

def inner (cfg : Cfg) (rep : Rep) : Frag → JV → List (Path × JV)
  | .descent, v => if cfg.walkDescentNoSelf then belowPre v else ([], v) :: belowPre v
  | f, v => last cfg rep f v

def sel (cfg : Cfg) (rep : Rep) : Sel := { last := last cfg rep, inner := inner cfg rep, sets := fun _ => true }

end Walk

/-- `Expr.Walk`: (normalized path, last node) of every callback -/
def walkM (cfg : Cfg) (rep : Rep) (x : List Frag) (d : JV) : List (Path × JV) := evalSel (Walk.sel cfg rep) false x d

/-! ## GetNodes and FirstNode (jp/node.go, gen data only) -/

namespace Nodes

def unionLast (cfg : Cfg) (v : JV) : Member → List (Path × JV)
  | .key k => mKey k v
  | .idx i =>
    match v with
    | .arr _ =>
      match mIdx i v with
      | [] => if cfg.nodesUnionNil then [([], .null)] else []
      | l => l
    | _ => []

def isNull : JV → Bool
  | .null => true
  | _ => false

def filterKids (cfg : Cfg) (p : JV → Bool) (v : JV) : List (Path × JV) :=
  (Get.filterKids cfg Rep.gen p v).filter fun m => !(cfg.nodesFilterNull && isNull m.2)

def last (cfg : Cfg) : Frag → JV → List (Path × JV)
  | .union ms, v => ms.flatMap (unionLast cfg v)
  | .slice s e t, v => Get.sliceLast Rep.simple s e t v
  | .filter p, v => if cfg.nodesFilterRev then (filterKids cfg p v).reverse else filterKids cfg p v
  | f, v => Get.last cfg Rep.gen f v

def inner (cfg : Cfg) : Frag → JV → List (Path × JV)
  | .slice s e t, v => (contOnly (Get.slicePush cfg Rep.simple s e t v)).reverse
  | .filter p, v => filterKids cfg p v
  | f, v => (Get.push cfg Rep.gen f v).reverse

def sel (cfg : Cfg) : Sel := { last := last cfg, inner := inner cfg, sets := isContainer }

end Nodes

/-- `Expr.GetNodes` -/
def nodesM (cfg : Cfg) (x : List Frag) (d : JV) : List JV := (evalSel (Nodes.sel cfg) cfg.descentSiblings x d).map (·.2)

namespace FirstNode

/-- node.go:495-529: the union is scanned from its last member; an index member returns `v` in the last
position whether or not the index was in range (`none` = the stale content of `v`, not modelled) -/
def unionLast (cfg : Cfg) (ms : List Member) (v : JV) : List (Path × JV) :=
  if cfg.firstNodeLast then ((ms.reverse.flatMap (mMember v)).take 1) else ((ms.flatMap (mMember v)).take 1)

def last (cfg : Cfg) : Frag → JV → List (Path × JV)
  | .union ms, v => unionLast cfg ms v
  | .slice s e t, v => First.sliceLast cfg Rep.simple s e t v
  | .filter p, v =>
    if cfg.firstNodeLast then ((Nodes.filterKids cfg p v).reverse.take 1) else ((Nodes.filterKids cfg p v).take 1)
  | .wild, v => (Get.wildKids cfg Rep.gen v).take 1
  | .descent, v => (lastDesc v).take 1
  | f, v => Get.last cfg Rep.gen f v

def sel (cfg : Cfg) : Sel := { last := last cfg, inner := Nodes.inner cfg, sets := isContainer }

end FirstNode

/-- `Expr.FirstNode` -/
def firstNodeM (cfg : Cfg) (x : List Frag) (d : JV) : Option JV :=
  ((evalSel (FirstNode.sel cfg) cfg.descentSiblings x d).map (·.2)).head?

end OjgVerif.JPath
