import OjgVerif.JPath.Machines
import OjgVerif.JPath.LemmasSel
/-! # The FirstFound and Has machines against the Get machine

Round by round: a round of `First.step` returns `v` exactly when the same round of `Get.step` appends results
whose first is `v`, and otherwise leaves the same frames while Get appends nothing — provided the
last-fragment branches return the first of what Get's append (`hR`), the inner branches push what Get's push
(same `P`), and the path does not end in a bare descent (the one place where the two programs differ: the
second pass of a last descent, see Machines.lean). Hence `First.run = (Get.run).head?` and
`Has.run = !(Get.run).isEmpty` for every fuel. -/
set_option linter.unusedSimpArgs false
namespace OjgVerif.JPath
open OjgVerif

section
variable (sib : Bool) (L P : Frag → JV → List JV) (x : List Frag)

/-- the results so far are only ever appended to -/
theorem run_acc : ∀ (n : Nat) (st : List Get.Frame) (acc : List JV),
    Get.run sib L P x n st acc = acc ++ Get.run sib L P x n st [] := by
  intro n
  induction n with
  | zero => intro st acc; simp [Get.run]
  | succ n ih =>
    intro st acc
    cases st with
    | nil => simp [Get.run]
    | cons fr t =>
      cases hit : fr.items with
      | nil =>
        have h1 : ∀ a, Get.run sib L P x (n + 1) (fr :: t) a = Get.run sib L P x n t a := by
          intro a; simp [Get.run, hit]
        rw [h1, h1]; exact ih t acc
      | cons d rest =>
        have h1 : ∀ a, Get.run sib L P x (n + 1) (fr :: t) a
            = Get.run sib L P x n ((Get.step sib L P x fr d rest).2 ++ t) (a ++ (Get.step sib L P x fr d rest).1) := by
          intro a; simp [Get.run, hit]
        rw [h1, h1, ih _ (acc ++ _), ih _ ([] ++ _)]
        simp [List.append_assoc]

theorem drop_ne_descent : ∀ (x : List Frag), endsInDescent x = false → ∀ fi, x.drop fi ≠ [Frag.descent]
  | [], _, fi => by simp
  | [f], h, fi => by
    cases fi with
    | zero =>
      intro hc
      simp only [List.drop_zero, List.cons.injEq, and_true] at hc
      subst hc
      simp [endsInDescent, isDescent] at h
    | succ k => simp
  | f :: g :: r, h, fi => by
    cases fi with
    | zero => simp
    | succ k =>
      have := drop_ne_descent (g :: r) (by simpa [endsInDescent] using h) k
      simpa using this

theorem first_step_of_frag (R : Frag → JV → Option JV) (fr : Get.Frame) (d : JV) (rest : List JV) (f : Frag)
    (r : List Frag) (hx : x.drop fr.fi = f :: r) (hf : isDescent f = false) :
    First.step sib R P x fr d rest =
      if r.isEmpty then First.retOr (R f d) (fr.rest fr.dflag rest)
      else .go (Get.pushed (fr.fi + 1) (P f d).reverse ++ fr.rest fr.dflag rest) := by
  cases f with
  | descent => simp [isDescent] at hf
  | _ => simp [First.step, hx]

theorem first_kidFrames (fi : Nat) (d : JV) :
    ((((members d).map (·.2)).reverse.filter isContainer).map fun c => (⟨fi, false, true, [c]⟩ : Get.Frame)).reverse
      = First.kidFrames fi d := by
  simp [First.kidFrames, List.filter_reverse, List.map_reverse]

/-- **one round**: FirstFound returns the first of what Get appends, or both go on with the same stack -/
theorem first_step_sim (R : Frag → JV → Option JV) (hR : ∀ f d, R f d = (L f d).head?)
    (fr : Get.Frame) (d : JV) (rest : List JV) (hnd : x.drop fr.fi ≠ [Frag.descent]) :
    match First.step sib R P x fr d rest with
    | .ret v => (Get.step sib L P x fr d rest).1.head? = some v
    | .go fs => (Get.step sib L P x fr d rest).1 = [] ∧ (Get.step sib L P x fr d rest).2 = fs := by
  cases hx : x.drop fr.fi with
  | nil => simp [First.step, Get.step, hx]
  | cons f r =>
    by_cases hf : isDescent f = true
    · have hfd : f = .descent := by cases f <;> simp_all [isDescent]
      subst hfd
      have hr : r ≠ [] := by intro h; subst h; exact hnd hx
      obtain ⟨a, b, hab⟩ : ∃ a b, r = a :: b := by
        cases r with
        | nil => exact absurd rfl hr
        | cons a b => exact ⟨a, b, rfl⟩
      subst hab
      cases hdf : fr.dflag with
      | true => simp [First.step, Get.step, hx, hdf]
      | false => simp [First.step, Get.step, hx, hdf, First.kidFrames, List.filter_reverse, List.map_reverse, First.retOr]
    · have hf' : isDescent f = false := by simpa using hf
      rw [first_step_of_frag sib P x R fr d rest f r hx hf', step_of_frag sib L P x fr d rest f r hx hf']
      by_cases hr : r.isEmpty = true
      · simp only [hr, ↓reduceIte]
        rw [hR f d]
        cases L f d <;> simp [First.retOr]
      · have hr' : r.isEmpty = false := by simpa using hr
        simp [hr']

/-- **FirstFound's loop returns the first element Get's loop appends**, for every fuel and every stack -/
theorem first_run_sim (R : Frag → JV → Option JV) (hR : ∀ f d, R f d = (L f d).head?)
    (hnd : ∀ fi, x.drop fi ≠ [Frag.descent]) :
    ∀ (n : Nat) (st : List Get.Frame), First.run sib R P x n st = (Get.run sib L P x n st []).head? := by
  intro n
  induction n with
  | zero => intro st; simp [First.run, Get.run]
  | succ n ih =>
    intro st
    cases st with
    | nil => simp [First.run, Get.run]
    | cons fr t =>
      cases hit : fr.items with
      | nil =>
        have h1 : First.run sib R P x (n + 1) (fr :: t) = First.run sib R P x n t := by simp [First.run, hit]
        have h2 : Get.run sib L P x (n + 1) (fr :: t) [] = Get.run sib L P x n t [] := by simp [Get.run, hit]
        rw [h1, h2]; exact ih t
      | cons d rest =>
        have h2 : Get.run sib L P x (n + 1) (fr :: t) []
            = Get.run sib L P x n ((Get.step sib L P x fr d rest).2 ++ t) ([] ++ (Get.step sib L P x fr d rest).1) := by
          simp [Get.run, hit]
        have hsim := first_step_sim sib L P x R hR fr d rest (hnd fr.fi)
        rw [h2, run_acc]
        cases hs : First.step sib R P x fr d rest with
        | ret v =>
          have h1 : First.run sib R P x (n + 1) (fr :: t) = some v := by simp [First.run, hit, hs]
          rw [hs] at hsim
          simp only at hsim
          rw [h1]
          cases hl : (Get.step sib L P x fr d rest).1 with
          | nil => rw [hl] at hsim; simp at hsim
          | cons a as => rw [hl] at hsim; simp at hsim; simp [hsim]
        | go fs =>
          have h1 : First.run sib R P x (n + 1) (fr :: t) = First.run sib R P x n (fs ++ t) := by
            simp [First.run, hit, hs]
          rw [hs] at hsim
          simp only at hsim
          rw [h1, hsim.1, hsim.2]
          simpa using ih (fs ++ t)

/-! ### Has -/

theorem has_step_of_frag (sets : JV → Bool) (R : Frag → JV → Bool) (fr : Get.Frame) (d : JV) (rest : List JV)
    (f : Frag) (r : List Frag) (hx : x.drop fr.fi = f :: r) (hf : isDescent f = false) :
    Has.step sib sets R P x fr d rest =
      if r.isEmpty then (if R f d then none else some (fr.rest fr.dflag rest))
      else some (Get.pushed (fr.fi + 1) (P f d).reverse ++ fr.rest fr.dflag rest) := by
  cases f with
  | descent => simp [isDescent] at hf
  | _ => simp [Has.step, hx]

/-- **one round**: Has returns true exactly when Get appends something, otherwise the same stack -/
theorem has_step_sim (sets : JV → Bool) (hsets : ∀ d, sets d = true) (R : Frag → JV → Bool)
    (hR : ∀ f d, R f d = !(L f d).isEmpty)
    (fr : Get.Frame) (d : JV) (rest : List JV) (hnd : x.drop fr.fi ≠ [Frag.descent]) :
    match Has.step sib sets R P x fr d rest with
    | none => (Get.step sib L P x fr d rest).1 ≠ []
    | some fs => (Get.step sib L P x fr d rest).1 = [] ∧ (Get.step sib L P x fr d rest).2 = fs := by
  cases hx : x.drop fr.fi with
  | nil => simp [Has.step, Get.step, hx]
  | cons f r =>
    by_cases hf : isDescent f = true
    · have hfd : f = .descent := by cases f <;> simp_all [isDescent]
      subst hfd
      have hr : r ≠ [] := by intro h; subst h; exact hnd hx
      obtain ⟨a, b, hab⟩ : ∃ a b, r = a :: b := by
        cases r with
        | nil => exact absurd rfl hr
        | cons a b => exact ⟨a, b, rfl⟩
      subst hab
      cases hdf : fr.dflag with
      | true => simp [Has.step, Get.step, hx, hdf]
      | false => simp [Has.step, Get.step, hx, hdf, First.kidFrames, List.filter_reverse, List.map_reverse, hsets]
    · have hf' : isDescent f = false := by simpa using hf
      rw [has_step_of_frag sib P x sets R fr d rest f r hx hf', step_of_frag sib L P x fr d rest f r hx hf']
      by_cases hr : r.isEmpty = true
      · simp only [hr, ↓reduceIte]
        rw [hR f d]
        cases L f d <;> simp
      · have hr' : r.isEmpty = false := by simpa using hr
        simp [hr']

/-- **Has's loop returns true exactly when Get's loop appends something**, for every fuel and every stack -/
theorem has_run_sim (sets : JV → Bool) (hsets : ∀ d, sets d = true) (R : Frag → JV → Bool)
    (hR : ∀ f d, R f d = !(L f d).isEmpty) (hnd : ∀ fi, x.drop fi ≠ [Frag.descent]) :
    ∀ (n : Nat) (st : List Get.Frame),
      Has.run sib sets R P x n st = !(Get.run sib L P x n st []).isEmpty := by
  intro n
  induction n with
  | zero => intro st; simp [Has.run, Get.run]
  | succ n ih =>
    intro st
    cases st with
    | nil => simp [Has.run, Get.run]
    | cons fr t =>
      cases hit : fr.items with
      | nil =>
        have h1 : Has.run sib sets R P x (n + 1) (fr :: t) = Has.run sib sets R P x n t := by simp [Has.run, hit]
        have h2 : Get.run sib L P x (n + 1) (fr :: t) [] = Get.run sib L P x n t [] := by simp [Get.run, hit]
        rw [h1, h2]; exact ih t
      | cons d rest =>
        have h2 : Get.run sib L P x (n + 1) (fr :: t) []
            = Get.run sib L P x n ((Get.step sib L P x fr d rest).2 ++ t) ([] ++ (Get.step sib L P x fr d rest).1) := by
          simp [Get.run, hit]
        have hsim := has_step_sim sib L P x sets hsets R hR fr d rest (hnd fr.fi)
        rw [h2, run_acc]
        cases hs : Has.step sib sets R P x fr d rest with
        | none =>
          have h1 : Has.run sib sets R P x (n + 1) (fr :: t) = true := by simp [Has.run, hit, hs]
          rw [hs] at hsim
          simp only at hsim
          rw [h1]
          cases hl : (Get.step sib L P x fr d rest).1 with
          | nil => exact absurd hl hsim
          | cons a as => simp
        | some fs =>
          have h1 : Has.run sib sets R P x (n + 1) (fr :: t) = Has.run sib sets R P x n (fs ++ t) := by
            simp [Has.run, hit, hs]
          rw [hs] at hsim
          simp only at hsim
          rw [h1, hsim.1, hsim.2]
          simpa using ih (fs ++ t)

end

/-! ### the selection functions of FirstFound and Has on `[]any`/`map[string]any` are Get's -/

theorem first_pushV_simple (cfg : Cfg) : First.pushV cfg Rep.simple = Get.pushV cfg Rep.simple := by
  funext f v
  simp [First.pushV, Get.pushV, first_inner, Get.sel, List.map_reverse]

theorem has_pushV_simple (cfg : Cfg) : Has.pushV cfg Rep.simple = Get.pushV cfg Rep.simple := by
  funext f v
  simp [Has.pushV, Get.pushV, has_inner, first_inner, Get.sel, List.map_reverse]

theorem first_ret_simple (cfg : Cfg) (f : Frag) (d : JV) :
    First.ret cfg Rep.simple f d = (Get.lastV cfg Rep.simple f d).head? := by
  simp only [First.ret, Get.lastV, first_last, List.head?_map, head?_take_one]

theorem has_ret_simple (cfg : Cfg) (f : Frag) (d : JV) :
    Has.ret cfg Rep.simple f d = !(Get.lastV cfg Rep.simple f d).isEmpty := by
  simp only [Has.ret, Get.lastV, first_last]
  cases Get.last cfg Rep.simple f d <;> simp

theorem has_sets_simple (cfg : Cfg) (hd : cfg.hasTypedDescent = false) (d : JV) :
    (Has.sel cfg Rep.simple).sets d = true := by
  simp [Has.sel, hd]

end OjgVerif.JPath

/-! # The recursive Walk and Locate against the skeleton -/
namespace OjgVerif.JPath
open OjgVerif

/-- what the rest of the path (`K`) yields on a located member, under the member's location -/
def contH (K : JV → List (Path × JV)) (m : Path × JV) : List (Path × JV) := pre m.1 (K m.2)

theorem contH_pfx (K : JV → List (Path × JV)) (a : Loc) (m : Path × JV) :
    contH K (pfx a m) = (contH K m).map (pfx a) := by
  simp [contH, pre, pfx]

theorem flatMap_contH_pfx (K : JV → List (Path × JV)) (a : Loc) (l : List (Path × JV)) :
    (l.map (pfx a)).flatMap (contH K) = (l.flatMap (contH K)).map (pfx a) := by
  induction l with
  | nil => rfl
  | cons m t ih => simp [List.flatMap_cons, ih, contH_pfx]

theorem pre_single (a : Loc) (l : List (Path × JV)) : pre [a] l = l.map (pfx a) := by
  simp [pre, pfx]

theorem pre_nil (l : List (Path × JV)) : pre [] l = l := by
  simp [pre]

theorem flatMap_pre_self (l : List (Path × JV)) : (l.flatMap fun m => pre m.1 [([], m.2)]) = l := by
  induction l with
  | nil => rfl
  | cons m t ih => simp [List.flatMap_cons, ih, pre]

mutual
/-- `wildWalk` with a descent visits everything below the node, parents first, and hands each to the rest -/
theorem wildDesc_eq (K : JV → List (Path × JV)) : ∀ (v : JV), Walk.wildDesc K v = (belowPre v).flatMap (contH K)
  | .arr xs => by simp only [Walk.wildDesc, belowPre]; exact wildDescL_eq K xs 0
  | .obj kvs => by simp only [Walk.wildDesc, belowPre]; exact wildDescKV_eq K kvs
  | .null => by simp [Walk.wildDesc, belowPre]
  | .bool _ => by simp [Walk.wildDesc, belowPre]
  | .int _ => by simp [Walk.wildDesc, belowPre]
  | .flt _ => by simp [Walk.wildDesc, belowPre]
  | .big _ => by simp [Walk.wildDesc, belowPre]
  | .num _ => by simp [Walk.wildDesc, belowPre]
  | .str _ => by simp [Walk.wildDesc, belowPre]
theorem wildDescL_eq (K : JV → List (Path × JV)) : ∀ (xs : List JV) (i : Nat),
    Walk.wildDescL K i xs = (belowPreL i xs).flatMap (contH K)
  | [], i => by simp [Walk.wildDescL, belowPreL]
  | x :: r, i => by
    simp only [Walk.wildDescL, belowPreL, List.flatMap_cons, List.flatMap_append, flatMap_contH_pfx,
      wildDesc_eq K x, wildDescL_eq K r (i + 1), List.map_append]
    simp [contH, pre_single]
theorem wildDescKV_eq (K : JV → List (Path × JV)) : ∀ (kvs : List (Bytes × JV)),
    Walk.wildDescKV K kvs = (belowPreKV kvs).flatMap (contH K)
  | [] => by simp [Walk.wildDescKV, belowPreKV]
  | m :: r => by
    simp only [Walk.wildDescKV, belowPreKV, List.flatMap_cons, List.flatMap_append, flatMap_contH_pfx,
      wildDesc_eq K m.2, wildDescKV_eq K r, List.map_append]
    simp [contH, pre_single]
end

theorem walk_inner_eq_last (cfg : Cfg) (rep : Rep) (f : Frag) (v : JV) (hf : isDescent f = false) :
    (Walk.sel cfg rep).inner f v = Walk.last cfg rep f v := by
  cases f with
  | descent => simp [isDescent] at hf
  | _ => rfl

theorem walkRec_of_frag (cfg : Cfg) (rep : Rep) (f : Frag) (rest : List Frag) (v : JV) (hf : isDescent f = false) :
    walkRec cfg rep (f :: rest) v = (Walk.last cfg rep f v).flatMap fun m => pre m.1 (walkRec cfg rep rest m.2) := by
  cases f with
  | descent => simp [isDescent] at hf
  | _ => simp [walkRec]

theorem walkRec_descent (cfg : Cfg) (rep : Rep) (rest : List Frag) (v : JV) :
    walkRec cfg rep (.descent :: rest) v =
      (if !cfg.walkDescentNoSelf && !rest.isEmpty then walkRec cfg rep rest v else [])
        ++ Walk.wildDesc (fun c => walkRec cfg rep rest c) v := by
  rw [walkRec]

/-- **the recursive Walk methods compute the skeleton over Walk's selection functions**: every path, every
tree, every configuration and representation tag -/
theorem walkRec_eq_evalSel (cfg : Cfg) (rep : Rep) :
    ∀ (x : List Frag) (v : JV), walkRec cfg rep x v = evalSel (Walk.sel cfg rep) false x v
  | [], v => by simp [walkRec, evalSel]
  | [f], v => by
    by_cases hf : isDescent f = true
    · have hfd : f = .descent := by cases f <;> simp_all [isDescent]
      subst hfd
      have hK : (fun c => walkRec cfg rep [] c) = fun c => [([], c)] := by funext c; simp [walkRec]
      simp only [walkRec, List.isEmpty_nil, Bool.not_true, Bool.and_false, Bool.false_eq_true, ↓reduceIte,
        List.nil_append, evalSel, Walk.sel, Walk.last, hK, wildDesc_eq]
      exact flatMap_pre_self _
    · have hf' : isDescent f = false := by simpa using hf
      rw [walkRec_of_frag cfg rep f [] v hf']
      simp only [walkRec, evalSel, Walk.sel]
      exact flatMap_pre_self _
  | f :: g :: r, v => by
    have ih := walkRec_eq_evalSel cfg rep (g :: r)
    rw [evalSel]
    simp only [Bool.false_and, Bool.false_eq_true, ↓reduceIte]
    by_cases hf : isDescent f = true
    · have hfd : f = .descent := by cases f <;> simp_all [isDescent]
      subst hfd
      have hK : (fun c => walkRec cfg rep (g :: r) c) = fun c => evalSel (Walk.sel cfg rep) false (g :: r) c := by
        funext c; exact ih c
      rw [walkRec_descent, hK, wildDesc_eq, ih]
      cases hw : cfg.walkDescentNoSelf <;> simp [Walk.sel, Walk.inner, hw, pre_nil] <;> rfl
    · have hf' : isDescent f = false := by simpa using hf
      rw [walkRec_of_frag cfg rep f (g :: r) v hf', walk_inner_eq_last cfg rep f v hf']
      congr 1
      funext m
      rw [ih]

end OjgVerif.JPath

namespace OjgVerif.JPath
open OjgVerif

/-! ### Locate -/

/-- without a budget (`max ≤ 0`) the loop visits every member -/
theorem loopMax_nomax (max : Int) (hm : max ≤ 0) (g : Int → Path × JV → List (Path × JV)) :
    ∀ (l locs : List (Path × JV)), Locate.loopMax max g l locs = locs ++ l.flatMap (g max)
  | [], locs => by simp [Locate.loopMax]
  | m :: ms, locs => by
    have h0 : ¬ (0 < max) := by omega
    simp only [Locate.loopMax, h0, false_and, ↓reduceIte, List.flatMap_cons]
    rw [loopMax_nomax max hm g ms]
    simp [List.append_assoc]

theorem flatMap_ite_contOnly (l : List (Path × JV)) (F : Path × JV → List (Path × JV)) :
    (l.flatMap fun m => if isContainer m.2 then F m else []) = (contOnly l).flatMap F := by
  induction l with
  | nil => rfl
  | cons a t ih =>
    by_cases hc : isContainer a.2 = true
    · simp [contOnly, List.filter_cons, hc] at ih ⊢; rw [ih]
    · have hc' : isContainer a.2 = false := by simpa using hc
      simp [contOnly, List.filter_cons, hc'] at ih ⊢; rw [ih]

theorem flatMap_single_self (l : List (Path × JV)) : (l.flatMap fun m => [m]) = l := by
  induction l with
  | nil => rfl
  | cons a t ih => simp [List.flatMap_cons, ih]

mutual
/-- without a budget `Descent.locate` yields its head on the node and on everything below it, parents first -/
theorem descLoc_nomax (K : Int → JV → List (Path × JV)) (lastp : Bool) (max : Int) (hm : max ≤ 0) :
    ∀ (v : JV), Locate.descLoc K lastp false max v =
      Locate.descHead K lastp max v ++ (belowPre v).flatMap (contH (Locate.descHead K lastp max))
  | .arr xs => by
    simp only [Locate.descLoc, belowPre]; exact descLocL_nomax K lastp max hm xs 0 _
  | .obj kvs => by
    simp only [Locate.descLoc, belowPre, Bool.false_eq_true, ↓reduceIte]; exact descLocKV_nomax K lastp max hm kvs _
  | .null => by simp [Locate.descLoc, belowPre]
  | .bool _ => by simp [Locate.descLoc, belowPre]
  | .int _ => by simp [Locate.descLoc, belowPre]
  | .flt _ => by simp [Locate.descLoc, belowPre]
  | .big _ => by simp [Locate.descLoc, belowPre]
  | .num _ => by simp [Locate.descLoc, belowPre]
  | .str _ => by simp [Locate.descLoc, belowPre]
theorem descLocL_nomax (K : Int → JV → List (Path × JV)) (lastp : Bool) (max : Int) (hm : max ≤ 0) :
    ∀ (xs : List JV) (i : Nat) (locs : List (Path × JV)),
      Locate.descLocL K lastp false max i xs locs =
        locs ++ (belowPreL i xs).flatMap (contH (Locate.descHead K lastp max))
  | [], i, locs => by simp [Locate.descLocL, belowPreL]
  | x :: r, i, locs => by
    have h0 : ¬ (0 < max) := by omega
    simp only [Locate.descLocL, h0, false_and, ↓reduceIte, belowPreL, List.flatMap_cons, List.flatMap_append,
      flatMap_contH_pfx]
    rw [descLocL_nomax K lastp max hm r (i + 1), descLoc_nomax K lastp max hm x]
    simp [contH, pre_single, List.append_assoc]
theorem descLocKV_nomax (K : Int → JV → List (Path × JV)) (lastp : Bool) (max : Int) (hm : max ≤ 0) :
    ∀ (kvs : List (Bytes × JV)) (locs : List (Path × JV)),
      Locate.descLocKV K lastp false max kvs locs =
        locs ++ (belowPreKV kvs).flatMap (contH (Locate.descHead K lastp max))
  | [], locs => by simp [Locate.descLocKV, belowPreKV]
  | m :: r, locs => by
    have h0 : ¬ (0 < max) := by omega
    simp only [Locate.descLocKV, h0, false_and, ↓reduceIte, belowPreKV, List.flatMap_cons, List.flatMap_append,
      flatMap_contH_pfx]
    rw [descLocKV_nomax K lastp max hm r, descLoc_nomax K lastp max hm m.2]
    simp [contH, pre_single, List.append_assoc]
end

theorem mMember_leaf (v : JV) (hv : isContainer v = false) (mb : Member) : mMember v mb = [] := by
  cases mb <;> cases v <;> simp_all [mMember, mKey, mIdx, isContainer]

/-- a fragment other than a descent locates nothing in a leaf -/
theorem locate_last_leaf (cfg : Cfg) (rep : Rep) (f : Frag) (v : JV) (hf : isDescent f = false)
    (hv : isContainer v = false) : Locate.last cfg rep f v = [] := by
  cases f with
  | descent => simp [isDescent] at hf
  | union ms => simp [Locate.last, mMember_leaf v hv]
  | _ => cases v <;> simp_all [Locate.last, mKey, mIdx, Get.wildKids, Get.filterKids, isContainer]

theorem belowPre_leaf (v : JV) (hv : isContainer v = false) : belowPre v = [] := by
  cases v <;> simp_all [belowPre, isContainer]

theorem belowPreCut_leaf (v : JV) (hv : isContainer v = false) : belowPreCut v = [] := by
  cases v <;> simp_all [belowPreCut, isContainer]

/-- a path that does not end in a bare descent locates nothing in a leaf -/
theorem locate_leaf (cfg : Cfg) (rep : Rep) :
    ∀ (y : List Frag) (v : JV), y ≠ [] → endsInDescent y = false → isContainer v = false →
      evalSel (Locate.sel cfg rep) false y v = []
  | [], _, h, _, _ => absurd rfl h
  | [f], v, _, ht, hv => by
    have hf : isDescent f = false := by simpa [endsInDescent] using ht
    simp [evalSel, Locate.sel, locate_last_leaf cfg rep f v hf hv]
  | f :: g :: r, v, _, ht, hv => by
    have ht' : endsInDescent (g :: r) = false := by simpa [endsInDescent] using ht
    rw [evalSel]
    simp only [Bool.false_and, Bool.false_eq_true, ↓reduceIte]
    by_cases hf : isDescent f = true
    · have hfd : f = .descent := by cases f <;> simp_all [isDescent]
      subst hfd
      have hin : (Locate.sel cfg rep).inner .descent v = [([], v)] := by
        simp only [Locate.sel, Locate.inner, Locate.last, belowPre_leaf v hv, belowPreCut_leaf v hv]
        simp
      rw [hin]
      simp [locate_leaf cfg rep (g :: r) v (by simp) ht' hv, pre]
    · have hf' : isDescent f = false := by simpa using hf
      have hin : (Locate.sel cfg rep).inner f v = [] := by
        have h1 : (Locate.sel cfg rep).inner f v = contOnly (Locate.last cfg rep f v) := by
          cases f with
          | descent => simp [isDescent] at hf'
          | _ => rfl
        rw [h1, locate_last_leaf cfg rep f v hf' hv]; rfl
      rw [hin]; rfl

theorem locRec_child (cfg : Cfg) (rep : Rep) (k : Bytes) (rest : List Frag) (max : Int) (v : JV) :
    locRec cfg rep (.child k :: rest) max v = (mKey k v).flatMap fun m =>
      if rest.isEmpty then [m] else if isContainer m.2 then pre m.1 (locRec cfg rep rest max m.2) else [] := by
  rw [locRec]

theorem locRec_nth (cfg : Cfg) (rep : Rep) (i : Int) (rest : List Frag) (max : Int) (v : JV) :
    locRec cfg rep (.nth i :: rest) max v = (mIdx i v).flatMap fun m =>
      if rest.isEmpty then [m] else if isContainer m.2 then pre m.1 (locRec cfg rep rest max m.2) else [] := by
  rw [locRec]

theorem locRec_descent (cfg : Cfg) (rep : Rep) (rest : List Frag) (max : Int) (v : JV) :
    locRec cfg rep (.descent :: rest) max v =
      Locate.descLoc (fun mx c => locRec cfg rep rest mx c) rest.isEmpty
        (cfg.typedMapWild && decide (rep.ok = OKind.rmap)) max v := by
  rw [locRec]

theorem locRec_slice (cfg : Cfg) (rep : Rep) (s e t : Option Int) (rest : List Frag) (max : Int) (v : JV) :
    locRec cfg rep (.slice s e t :: rest) max v =
      if rest.isEmpty then Locate.last cfg rep (.slice s e t) v
      else Locate.loopMax max
        (fun mx m => if isContainer m.2 then pre m.1 (locRec cfg rep rest mx m.2) else [])
        (Locate.last cfg rep (.slice s e t) v) [] := by
  rw [locRec]

def loopFrag : Frag → Bool
  | .wild => true
  | .union _ => true
  | .filter _ => true
  | _ => false

theorem locRec_loop (cfg : Cfg) (rep : Rep) (f : Frag) (hl : loopFrag f = true) (rest : List Frag) (max : Int) (v : JV) :
    locRec cfg rep (f :: rest) max v =
      Locate.loopMax max
        (fun mx m =>
          if rest.isEmpty then [m] else if isContainer m.2 then pre m.1 (locRec cfg rep rest mx m.2) else [])
        (Locate.last cfg rep f v) [] := by
  cases f <;> simp [loopFrag] at hl <;> rw [locRec] <;> simp

/-- last position, no budget: the recursive locate returns the fragment's selection -/
theorem locRec_single (cfg : Cfg) (rep : Rep) (f : Frag) (hf : isDescent f = false) (max : Int) (hm : max ≤ 0) (v : JV) :
    locRec cfg rep [f] max v = Locate.last cfg rep f v := by
  cases f with
  | descent => simp [isDescent] at hf
  | child k => rw [locRec_child]; simp [Locate.last, flatMap_single_self]
  | nth i => rw [locRec_nth]; simp [Locate.last, flatMap_single_self]
  | slice s e t => rw [locRec_slice]; simp
  | wild => rw [locRec_loop cfg rep _ rfl, loopMax_nomax max hm]; simp [flatMap_single_self]
  | union ms => rw [locRec_loop cfg rep _ rfl, loopMax_nomax max hm]; simp [flatMap_single_self]
  | filter p => rw [locRec_loop cfg rep _ rfl, loopMax_nomax max hm]; simp [flatMap_single_self]

/-- inner position, no budget: the rest of the path on the containers among the fragment's selection -/
theorem locRec_inner (cfg : Cfg) (rep : Rep) (f : Frag) (hf : isDescent f = false) (g : Frag) (r : List Frag)
    (max : Int) (hm : max ≤ 0) (v : JV) :
    locRec cfg rep (f :: g :: r) max v =
      (contOnly (Locate.last cfg rep f v)).flatMap fun m => pre m.1 (locRec cfg rep (g :: r) max m.2) := by
  cases f with
  | descent => simp [isDescent] at hf
  | child k => rw [locRec_child]; simp [Locate.last, flatMap_ite_contOnly]
  | nth i => rw [locRec_nth]; simp [Locate.last, flatMap_ite_contOnly]
  | slice s e t => rw [locRec_slice, ← flatMap_ite_contOnly]; simp [loopMax_nomax max hm]
  | wild => rw [locRec_loop cfg rep _ rfl, loopMax_nomax max hm, ← flatMap_ite_contOnly]; simp
  | union ms => rw [locRec_loop cfg rep _ rfl, loopMax_nomax max hm, ← flatMap_ite_contOnly]; simp
  | filter p => rw [locRec_loop cfg rep _ rfl, loopMax_nomax max hm, ← flatMap_ite_contOnly]; simp

theorem locate_inner_frag (cfg : Cfg) (rep : Rep) (f : Frag) (hf : isDescent f = false) (v : JV) :
    (Locate.sel cfg rep).inner f v = contOnly (Locate.last cfg rep f v) := by
  cases f with
  | descent => simp [isDescent] at hf
  | _ => rfl

/-- **the recursive `locate` methods without a budget compute the skeleton over Locate's selection
functions**: every non-empty path that does not end in a bare descent, every tree -/
theorem locRec_eq_evalSel (cfg : Cfg) (rep : Rep)
    (hcut : (cfg.typedMapWild && decide (rep.ok = OKind.rmap)) = false) (max : Int) (hm : max ≤ 0) :
    ∀ (x : List Frag) (v : JV), x ≠ [] → endsInDescent x = false →
      locRec cfg rep x max v = evalSel (Locate.sel cfg rep) false x v
  | [], _, h, _ => absurd rfl h
  | [f], v, _, ht => by
    have hf : isDescent f = false := by simpa [endsInDescent] using ht
    rw [locRec_single cfg rep f hf max hm v]
    simp [evalSel, Locate.sel]
  | f :: g :: r, v, _, ht => by
    have ht' : endsInDescent (g :: r) = false := by simpa [endsInDescent] using ht
    have ih := fun c => locRec_eq_evalSel cfg rep hcut max hm (g :: r) c (by simp) ht'
    rw [evalSel]
    simp only [Bool.false_and, Bool.false_eq_true, ↓reduceIte]
    by_cases hf : isDescent f = true
    · have hfd : f = .descent := by cases f <;> simp_all [isDescent]
      subst hfd
      rw [locRec_descent, hcut, descLoc_nomax _ _ max hm]
      -- the head of the descent on any node is the rest of the path on it (nothing on a leaf)
      have hE : Locate.descHead (fun mx c => locRec cfg rep (g :: r) mx c) (g :: r).isEmpty max
          = fun u => evalSel (Locate.sel cfg rep) false (g :: r) u := by
        funext u
        simp only [Locate.descHead, List.isEmpty_cons, Bool.false_eq_true, ↓reduceIte]
        by_cases hu : isContainer u = true
        · simp [hu, ih u]
        · have hu' : isContainer u = false := by simpa using hu
          simp [hu', locate_leaf cfg rep (g :: r) u (by simp) ht' hu']
      rw [hE]
      have hin : (Locate.sel cfg rep).inner .descent v
          = ([], v) :: (belowPre v).filter (fun m => isContainer m.2 || m.1.isEmpty) := by
        simp [Locate.sel, Locate.inner, Locate.last, hcut, List.filter_cons]
      rw [hin, List.flatMap_cons, pre_nil]
      congr 1
      symm
      apply flatMap_filter_vanish
      intro m hmf
      simp only [Bool.or_eq_false_iff] at hmf
      simp [locate_leaf cfg rep (g :: r) m.2 (by simp) ht' hmf.1, pre]
    · have hf' : isDescent f = false := by simpa using hf
      rw [locRec_inner cfg rep f hf' g r max hm v, locate_inner_frag cfg rep f hf' v]
      congr 1
      funext m
      rw [ih]

end OjgVerif.JPath

/-! # The machines against their skeletons, every representation -/
namespace OjgVerif.JPath
open OjgVerif

/-- `denV_eq_evalSel` for any selection functions whose descent is Get's: the value-level denotation of a
work-list machine over `L`/`P` is the skeleton over `S`, for paths that do not end in a bare descent (there the
machines report the node itself, which a `take 1` last selection does not) -/
theorem denV_eq_evalSel_gen (sib : Bool) (S : Sel) (L P : Frag → JV → List JV)
    (hsets : sib = false ∨ S.sets = fun _ => true)
    (hdesc : ∀ v, S.inner .descent v = nodesInner v)
    (hL : ∀ f v, isDescent f = false → L f v = (S.last f v).map (·.2))
    (hP : ∀ f v, isDescent f = false → (P f v).reverse = (S.inner f v).map (·.2)) :
    ∀ (x : List Frag) (v : JV), endsInDescent x = false → denV sib L P x v = (evalSel S sib x v).map (·.2)
  | [], v, _ => by simp [denV, evalSel]
  | [f], v, ht => by
    have hf : isDescent f = false := by simpa [endsInDescent] using ht
    rw [denV_single _ _ _ f v hf, hL f v hf]
    simp [evalSel]
  | f :: g :: r, v, ht => by
    have ht1 : endsInDescent (g :: r) = false := by simpa [endsInDescent] using ht
    have ih1 := fun c => denV_eq_evalSel_gen sib S L P hsets hdesc hL hP (g :: r) c ht1
    by_cases hf : isDescent f = true
    · have hfd : f = .descent := by cases f <;> simp_all [isDescent]
      subst hfd
      rw [denV_descent_cons, evalSel]
      simp only [isDescent, Bool.not_true, Bool.and_false, Bool.false_eq_true, ↓reduceIte]
      rw [hdesc, nodesInnerV]
      rw [map_snd_flatMap _ _ (denV sib L P (g :: r))]
      intro m _
      rw [map_snd_pre, ih1]
    · have hf' : isDescent f = false := by simpa using hf
      rw [denV_cons_cons _ _ _ f g r v hf', hP f v hf', evalSel]
      by_cases hg : isDescent g = true
      · have hgd : g = .descent := by cases g <;> simp_all [isDescent]
        subst hgd
        have hr : r ≠ [] := by
          intro h; subst h; simp [endsInDescent, isDescent] at ht1
        have ht2 : endsInDescent r = false := by
          cases r with
          | nil => exact absurd rfl hr
          | cons a b => simpa [endsInDescent] using ht1
        have ih2 := fun c => denV_eq_evalSel_gen sib S L P hsets hdesc hL hP r c ht2
        cases sib with
        | true =>
          have hcond : (true && isDescent Frag.descent && !isDescent f) = true := by rw [hf']; rfl
          have hsets' : S.sets = fun _ => true := hsets.resolve_left (by simp)
          rw [if_pos hcond, hsets', sibEval_true]
          simp only [fresh]
          cases S.inner f v with
          | nil => simp [sibList]
          | cons m ms =>
            simp only [List.map_cons, sibList, ↓reduceIte, List.map_append, map_snd_pre]
            rw [← ih1 m.2]
            congr 1
            rw [map_snd_flatMap _ _ (denV true L P r)]
            intro a _
            rw [map_snd_pre, ih2]
        | false =>
          simp only [Bool.false_and, Bool.false_eq_true, ↓reduceIte, fresh, sibList_false]
          rw [map_snd_flatMap _ _ (denV false L P (.descent :: r))]
          intro m _
          rw [map_snd_pre, ih1]
      · have hg' : isDescent g = false := by simpa using hg
        simp only [hg', Bool.and_false, Bool.false_and, Bool.false_eq_true, ↓reduceIte]
        have hfresh : fresh sib L P (g :: r) = fun l => l.flatMap (denV sib L P (g :: r)) := by
          funext l
          cases g with
          | descent => simp [isDescent] at hg'
          | _ => simp [fresh]
        rw [hfresh]
        simp only
        rw [map_snd_flatMap _ _ (denV sib L P (g :: r))]
        intro m _
        rw [map_snd_pre, ih1]

/-- what FirstFound's last-fragment branches would append if they did not return -/
def First.lastV (cfg : Cfg) (rep : Rep) (f : Frag) (v : JV) : List JV := (First.last cfg rep f v).map (·.2)

theorem first_inner_descent (cfg : Cfg) (rep : Rep)
    (hcut : (cfg.typedMapWild && decide (rep.ok = OKind.rmap)) = false) (v : JV) :
    First.inner cfg rep .descent v = nodesInner v := by
  simp [First.inner, Get.push, hcut]

/-- **the FirstFound machine computes the skeleton model `firstM`**: every configuration and representation
tag (typed maps: with `typedMapWild` off), every tree, every path that does not end in a bare descent -/
theorem firstMach_eq_firstM (cfg : Cfg) (rep : Rep)
    (hcut : (cfg.typedMapWild && decide (rep.ok = OKind.rmap)) = false)
    (x : List Frag) (d : JV) (ht : endsInDescent x = false) :
    firstMach cfg rep x d = firstM cfg rep x d := by
  cases x with
  | nil => simp [firstMach, firstM, evalSel]
  | cons f r =>
    simp only [firstMach, firstM]
    rw [first_run_sim cfg.descentSiblings (First.lastV cfg rep) (First.pushV cfg rep) (f :: r) (First.ret cfg rep)
      (fun _ _ => rfl) (drop_ne_descent _ ht)]
    rw [run_eq_denV _ _ _ f r d _ (Nat.le_succ _)]
    rw [denV_eq_evalSel_gen cfg.descentSiblings (First.sel cfg rep) (First.lastV cfg rep) (First.pushV cfg rep)
      (Or.inr rfl) (first_inner_descent cfg rep hcut) (fun _ _ _ => rfl)
      (fun f v _ => by simp [First.pushV, First.sel]) (f :: r) d ht]

theorem has_inner_eq_first (cfg : Cfg) (rep : Rep) (hd : cfg.hasTypedDescent = false) (hh : cfg.hasTypedMap = false)
    (f : Frag) (v : JV) : Has.inner cfg rep f v = First.inner cfg rep f v := by
  simp [Has.inner, hd, hh]

/-- **the Has machine computes the skeleton model `hasM`**: every configuration with has.go's kind lists
complete (`hasTypedMap`, `hasTypedDescent` off: since 21977aa), every representation tag, every tree, every
path that does not end in a bare descent -/
theorem hasMach_eq_hasM (cfg : Cfg) (rep : Rep) (hd : cfg.hasTypedDescent = false) (hh : cfg.hasTypedMap = false)
    (hcut : (cfg.typedMapWild && decide (rep.ok = OKind.rmap)) = false)
    (x : List Frag) (d : JV) (ht : endsInDescent x = false) :
    hasMach cfg rep x d = hasM cfg rep x d := by
  have hsets : (Has.sel cfg rep).sets = fun _ => true := by funext v; simp [Has.sel, hd]
  cases x with
  | nil => simp [hasMach, hasM, evalSel]
  | cons f r =>
    simp only [hasMach, hasM]
    rw [has_run_sim cfg.descentSiblings (First.lastV cfg rep) (Has.pushV cfg rep) (f :: r) (Has.sel cfg rep).sets
      (fun v => by rw [hsets]) (Has.ret cfg rep) (fun f v => by simp [Has.ret, First.lastV])
      (drop_ne_descent _ ht)]
    rw [run_eq_denV _ _ _ f r d _ (Nat.le_succ _)]
    rw [denV_eq_evalSel_gen cfg.descentSiblings (Has.sel cfg rep) (First.lastV cfg rep) (Has.pushV cfg rep)
      (Or.inr hsets) (fun v => by simp only [Has.sel]; rw [has_inner_eq_first cfg rep hd hh, first_inner_descent cfg rep hcut])
      (fun _ _ _ => rfl) (fun f v _ => by simp [Has.pushV, Has.sel]) (f :: r) d ht]
    simp

end OjgVerif.JPath
