import OjgVerif.JPath.LemmasMach
/-! # Locate's budget

`Expr.Locate(data, max)`: "The returned slice is limited to the max specified." For the recursive model `locRec`
(the transcription of the `locate` methods with their budget arithmetic) this holds for every path **without a
slice fragment**: `locate_budget`. A slice in the last position has no budget test in slice.go (witness
`C11.C11_locate_budget_witness`), which is why slices are excluded. -/
set_option linter.unusedSimpArgs false
namespace OjgVerif.JPath
open OjgVerif

theorem pre_length (p : Path) (l : List (Path × JV)) : (pre p l).length = l.length := by simp [pre]

/-- the budgeted loop never holds more than `max` paths, if what one member yields respects the budget it is given -/
theorem loopMax_le (max : Int) (hm : 0 < max) (g : Int → Path × JV → List (Path × JV))
    (hg : ∀ mx m, 0 < mx → ((g mx m).length : Int) ≤ mx) :
    ∀ (l locs : List (Path × JV)), (locs.length : Int) < max → ((Locate.loopMax max g l locs).length : Int) ≤ max
  | [], locs, h => by simp only [Locate.loopMax]; omega
  | m :: ms, locs, h => by
    have hmx : 0 < max - (locs.length : Int) := by omega
    have hb := hg (max - locs.length) m hmx
    simp only [Locate.loopMax, hm, true_and, ↓reduceIte]
    have hlen : (((locs ++ g (max - locs.length) m).length : Nat) : Int) = locs.length + (g (max - locs.length) m).length := by
      simp [List.length_append]
    by_cases hstop : max ≤ ((locs ++ g (max - locs.length) m).length : Int)
    · rw [if_pos hstop]; omega
    · rw [if_neg hstop]
      exact loopMax_le max hm g hg ms _ (by omega)

theorem descHead_le (K : Int → JV → List (Path × JV)) (hK : ∀ mx v, 0 < mx → ((K mx v).length : Int) ≤ mx)
    (lastp : Bool) (max : Int) (hm : 0 < max) (v : JV) : ((Locate.descHead K lastp max v).length : Int) ≤ max := by
  unfold Locate.descHead
  split
  · simp; omega
  · split
    · exact hK max v hm
    · simp; omega

mutual
theorem descLoc_le (K : Int → JV → List (Path × JV)) (hK : ∀ mx v, 0 < mx → ((K mx v).length : Int) ≤ mx)
    (lastp cut : Bool) : ∀ (v : JV) (max : Int), 0 < max → ((Locate.descLoc K lastp cut max v).length : Int) ≤ max
  | .arr xs, max, hm => by
    simp only [Locate.descLoc]
    exact descLocL_le K hK lastp cut xs 0 max _ hm (descHead_le K hK lastp max hm _)
  | .obj kvs, max, hm => by
    simp only [Locate.descLoc]
    split
    · exact descHead_le K hK lastp max hm _
    · exact descLocKV_le K hK lastp cut kvs max _ hm (descHead_le K hK lastp max hm _)
  | .null, max, hm => by simp only [Locate.descLoc]; exact descHead_le K hK lastp max hm _
  | .bool _, max, hm => by simp only [Locate.descLoc]; exact descHead_le K hK lastp max hm _
  | .int _, max, hm => by simp only [Locate.descLoc]; exact descHead_le K hK lastp max hm _
  | .flt _, max, hm => by simp only [Locate.descLoc]; exact descHead_le K hK lastp max hm _
  | .big _, max, hm => by simp only [Locate.descLoc]; exact descHead_le K hK lastp max hm _
  | .num _, max, hm => by simp only [Locate.descLoc]; exact descHead_le K hK lastp max hm _
  | .str _, max, hm => by simp only [Locate.descLoc]; exact descHead_le K hK lastp max hm _
theorem descLocL_le (K : Int → JV → List (Path × JV)) (hK : ∀ mx v, 0 < mx → ((K mx v).length : Int) ≤ mx)
    (lastp cut : Bool) : ∀ (xs : List JV) (i : Nat) (max : Int) (locs : List (Path × JV)), 0 < max →
      (locs.length : Int) ≤ max → ((Locate.descLocL K lastp cut max i xs locs).length : Int) ≤ max
  | [], i, max, locs, hm, h => by simpa [Locate.descLocL] using h
  | x :: r, i, max, locs, hm, h => by
    simp only [Locate.descLocL, hm, true_and, ↓reduceIte]
    by_cases hstop : max - (locs.length : Int) ≤ 0
    · rw [if_pos hstop]; exact h
    · rw [if_neg hstop]
      have hb := descLoc_le K hK lastp cut x (max - locs.length) (by omega)
      apply descLocL_le K hK lastp cut r (i + 1) max _ hm
      simp only [List.length_append, List.length_map]
      omega
theorem descLocKV_le (K : Int → JV → List (Path × JV)) (hK : ∀ mx v, 0 < mx → ((K mx v).length : Int) ≤ mx)
    (lastp cut : Bool) : ∀ (kvs : List (Bytes × JV)) (max : Int) (locs : List (Path × JV)), 0 < max →
      (locs.length : Int) ≤ max → ((Locate.descLocKV K lastp cut max kvs locs).length : Int) ≤ max
  | [], max, locs, hm, h => by simpa [Locate.descLocKV] using h
  | m :: r, max, locs, hm, h => by
    simp only [Locate.descLocKV, hm, true_and, ↓reduceIte]
    by_cases hstop : max - (locs.length : Int) ≤ 0
    · rw [if_pos hstop]; exact h
    · rw [if_neg hstop]
      have hb := descLoc_le K hK lastp cut m.2 (max - locs.length) (by omega)
      apply descLocKV_le K hK lastp cut r max _ hm
      simp only [List.length_append, List.length_map]
      omega
end

def noSlice : Frag → Bool
  | .slice _ _ _ => false
  | _ => true

theorem small_cases {α : Type} (l : List α) (h : l.length ≤ 1) : l = [] ∨ ∃ a, l = [a] := by
  cases l with
  | nil => exact Or.inl rfl
  | cons a t =>
    cases t with
    | nil => exact Or.inr ⟨a, rfl⟩
    | cons b u => simp at h

/-- what one selected member yields, in the last position or through the rest of the path -/
theorem cont_le (K : Int → JV → List (Path × JV)) (hK : ∀ mx v, 0 < mx → ((K mx v).length : Int) ≤ mx)
    (e : Bool) (mx : Int) (hmx : 0 < mx) (m : Path × JV) :
    (((if e then [m] else if isContainer m.2 then pre m.1 (K mx m.2) else []) : List (Path × JV)).length : Int) ≤ mx := by
  split
  · simp; omega
  · split
    · rw [pre_length]; exact hK mx m.2 hmx
    · simp; omega

/-- **Locate respects its budget on every path without a slice fragment**: at most `max` paths for `max > 0` -/
theorem locRec_le (cfg : Cfg) (rep : Rep) : ∀ (x : List Frag), x.all noSlice = true →
    ∀ (max : Int) (v : JV), 0 < max → ((locRec cfg rep x max v).length : Int) ≤ max
  | [], _, max, v, hm => by simp [locRec]; omega
  | f :: rest, hx, max, v, hm => by
    simp only [List.all_cons, Bool.and_eq_true] at hx
    have ih := locRec_le cfg rep rest hx.2
    have hK : ∀ mx c, 0 < mx → ((locRec cfg rep rest mx c).length : Int) ≤ mx := fun mx c h => ih mx c h
    cases f with
    | slice s e t => simp [noSlice] at hx
    | child k =>
      rw [locRec_child]
      rcases small_cases _ (mKey_small k v) with h | ⟨m, h⟩
      · rw [h]; simp; omega
      · rw [h]; simp only [List.flatMap_cons, List.flatMap_nil, List.append_nil]
        exact cont_le _ hK rest.isEmpty max hm m
    | nth i =>
      rw [locRec_nth]
      rcases small_cases _ (mIdx_small i v) with h | ⟨m, h⟩
      · rw [h]; simp; omega
      · rw [h]; simp only [List.flatMap_cons, List.flatMap_nil, List.append_nil]
        exact cont_le _ hK rest.isEmpty max hm m
    | descent => rw [locRec_descent]; exact descLoc_le _ hK _ _ v max hm
    | wild =>
      rw [locRec_loop cfg rep _ rfl]
      exact loopMax_le max hm _ (fun mx m h => cont_le _ hK rest.isEmpty mx h m) _ [] (by simpa using hm)
    | union ms =>
      rw [locRec_loop cfg rep _ rfl]
      exact loopMax_le max hm _ (fun mx m h => cont_le _ hK rest.isEmpty mx h m) _ [] (by simpa using hm)
    | filter p =>
      rw [locRec_loop cfg rep _ rfl]
      exact loopMax_le max hm _ (fun mx m h => cont_le _ hK rest.isEmpty mx h m) _ [] (by simpa using hm)

end OjgVerif.JPath
