import OjgVerif.Common.Bytes
/-! # JSONPath: what a path denotes (specification, repository independent)

A path is a list of fragments. Every fragment *selects* members of a value; a path selects what the
iterated selection (`flatMap`) selects. Every selected element comes with its *location* (the keys
and indexes that lead to it from the value the path was applied to).

Conventions and formalisation choices (the property text does not settle them; each is the reading
every evaluator of the library implements consistently — they are recorded here once and used by
C05, C11 and C13):

* Data is `JV`. An object is an association list; the **order of the list stands for the order in
  which the members are visited**. Every theorem quantifies over all values, hence over all orders.
  Results that pass through an object with more than one member are compared as multisets by the
  harness (a Go map has no iteration order); array traversal is in array order.
* `lookup` takes the first binding of a key (the data of interest has unique keys).
* An index `i < 0` counts from the end (`i + n`); an index outside `0 ≤ · < n` selects nothing.
* Slice `[s:e:t]` on an array of length `n`: absent `s` is `0`, absent `t` is `1`, an absent `e` is
  "beyond the end" **whatever the sign of the step** (so `[::-1]` selects nothing: its walk starts at
  index 0 and the end is above it); `t = 0` selects nothing; a negative `s` or `e` counts from the end;
  a start that is still negative becomes `0`; **a start at or beyond `n` selects nothing** (also for a
  negative step); an end beyond `n` is `n`; for a negative step an end below `-1` is `-1`. Then the
  indexes are `start, start+t, start+2t, …` as long as they are before the end in the direction of
  travel (`< end` for `t > 0`, `> end` for `t < 0`). Start inclusive, end exclusive.
* Union: the members in the listed order (a member that does not exist contributes nothing, a member
  listed twice contributes twice).
* Recursive descent selects the node itself and every value below it. Order (*choice*): the members'
  subtrees in member order, then the node itself (children before parents, siblings in order).
  Only the *set* of nodes is fixed by the documentation; where the order matters the theorems say so.
* Filter: the members (array elements in order, object members) whose script is true. The script is
  an abstract predicate `JV → Bool` here (scripts are specified in `Script/`, property C12).
-/
namespace OjgVerif.JPath
open OjgVerif

/-- one step of a location: a member name or an (absolute, non-negative) index -/
inductive Loc where
  | key (k : Bytes)
  | idx (i : Nat)
  deriving DecidableEq, Inhabited

/-- a normalized path: the location of an element relative to the value the path is applied to -/
abbrev Path := List Loc

/-- a member of a union fragment -/
inductive Member where
  | key (k : Bytes)
  | idx (i : Int)
  deriving DecidableEq, Inhabited

/-- path fragments (the leading `$` is not a fragment here: a path is applied to its root) -/
inductive Frag where
  | child (k : Bytes)
  | nth (i : Int)
  | wild
  | descent
  | union (ms : List Member)
  | slice (s e t : Option Int)
  | filter (p : JV → Bool)

def isContainer : JV → Bool
  | .arr _ => true
  | .obj _ => true
  | _ => false

def lookup (k : Bytes) : List (Bytes × JV) → Option JV
  | [] => none
  | m :: r => if m.1 = k then some m.2 else lookup k r

/-- absolute position of index `i` in an array of length `n` (negative counts from the end) -/
def absIdx (n : Nat) (i : Int) : Option Nat :=
  let j := if i < 0 then i + n else i
  if 0 ≤ j ∧ j < n then some j.toNat else none

/-- array elements with their locations, from index `i` on -/
def elemsFrom : Nat → List JV → List (Path × JV)
  | _, [] => []
  | i, x :: r => ([.idx i], x) :: elemsFrom (i + 1) r

/-- the members of a container with their locations, in member order -/
def members : JV → List (Path × JV)
  | .arr xs => elemsFrom 0 xs
  | .obj kvs => kvs.map fun m => ([.key m.1], m.2)
  | _ => []

/-- what one name or index selects -/
def selMember (v : JV) : Member → List (Path × JV)
  | .key k =>
    match v with
    | .obj kvs => (lookup k kvs).toList.map fun c => ([.key k], c)
    | _ => []
  | .idx i =>
    match v with
    | .arr xs =>
      match absIdx xs.length i with
      | some j => (xs[j]?).toList.map fun c => ([.idx j], c)
      | none => []
    | _ => []

/-- `a, a+d, a+2d, …` (`n` terms) -/
def progression (n : Nat) (a d : Int) : List Int := (List.range n).map fun (k : Nat) => a + (k : Int) * d

/-- the indexes a slice selects in an array of length `n`, in selection order -/
def sliceIdx (n : Nat) (s e t : Option Int) : List Nat :=
  let step := t.getD 1
  let s0 := s.getD 0
  let start := if s0 < 0 then max (s0 + n) 0 else s0
  if step = 0 ∨ (n : Int) ≤ start then []
  else if 0 < step then
    let stop : Int := match e with
      | none => n
      | some e => if e < 0 then e + n else min e n
    ((progression n start step).takeWhile fun i => i < stop).map Int.toNat
  else
    let stop : Int := match e with
      | none => n
      | some e => if e < 0 then max (e + n) (-1) else min e n
    ((progression n start step).takeWhile fun i => stop < i).map Int.toNat

def pfx (l : Loc) (m : Path × JV) : Path × JV := (l :: m.1, m.2)

mutual
  /-- the node and everything below it: members' subtrees in member order, then the node -/
  def desc : JV → List (Path × JV)
    | .arr xs => descArr 0 xs ++ [([], .arr xs)]
    | .obj kvs => descObj kvs ++ [([], .obj kvs)]
    | .null => [([], .null)]
    | .bool b => [([], .bool b)]
    | .int i => [([], .int i)]
    | .flt t => [([], .flt t)]
    | .big t => [([], .big t)]
    | .num t => [([], .num t)]
    | .str s => [([], .str s)]
  def descArr : Nat → List JV → List (Path × JV)
    | _, [] => []
    | i, x :: r => (desc x).map (pfx (.idx i)) ++ descArr (i + 1) r
  def descObj : List (Bytes × JV) → List (Path × JV)
    | [] => []
    | m :: r => (desc m.2).map (pfx (.key m.1)) ++ descObj r
end

/-- what one fragment selects in a value: (location relative to the value, element) -/
def sel : Frag → JV → List (Path × JV)
  | .child k, v => selMember v (.key k)
  | .nth i, v => selMember v (.idx i)
  | .wild, v => members v
  | .descent, v => desc v
  | .union ms, v => ms.flatMap (selMember v)
  | .slice s e t, v =>
    match v with
    | .arr xs => (sliceIdx xs.length s e t).flatMap fun j => (xs[j]?).toList.map fun c => ([.idx j], c)
    | _ => []
  | .filter p, v => (members v).filter fun m => p m.2

/-- what a path selects: iterated selection -/
def eval : List Frag → JV → List (Path × JV)
  | [], v => [([], v)]
  | f :: r, v => (sel f v).flatMap fun m => (eval r m.2).map fun q => (m.1 ++ q.1, q.2)

/-- the selected elements without their locations -/
def evalV (x : List Frag) (v : JV) : List JV := (eval x v).map (·.2)

/-- the fragment that addresses one location step -/
def Loc.toFrag : Loc → Frag
  | .key k => .child k
  | .idx i => .nth i

end OjgVerif.JPath
