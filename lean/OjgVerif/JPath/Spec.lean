import OjgVerif.Common.Bytes
/-! # JSONPath: what a path denotes (specification, repository independent)

A path is a list of fragments. Every fragment *selects* members of a value; a path selects what the
iterated selection (`flatMap`) selects. Every selected element comes with its *location* (the keys
and indexes that lead to it from the value the path was applied to).

Conventions and formalisation choices (the property text does not settle them; each is the reading
every evaluator of the library implements consistently — they are recorded here once and used by
C05, C11 and C13):

* Data is `JV`. An object is an association list; the **order of the list stands for the order in
  which the members are visited**. Every theorem quantifies over all values, hence over all orders.
  Results that pass through an object with more than one member are compared as multisets by the
  harness (a Go map has no iteration order); array traversal is in array order.
* `lookup` takes the first binding of a key (the data of interest has unique keys).
* An index `i < 0` counts from the end (`i + n`); an index outside `0 ≤ · < n` selects nothing.
* Slice `[s:e:t]`. ojg does not document a reading of its own: `jp/expr.go` refers to Goessner's article
  ("array slice operator borrowed from ES4"), the README to the IETF JSONPath document, now RFC 9535, and the
  CHANGELOG makes the end exclusive "as called for in the Goessner description and the consensus". The
  **documented semantics is therefore RFC 9535 §2.3.4.2**, transcribed below from the RFC's pseudo-code as
  `rfcSliceIdx` (Normalize, Bounds, the two loops; the default start and end depend on the sign of the step, so
  `[::-1]` reverses the array) — `selRfc`/`evalRfc` are the denotation with it, and that is what C05 judges
  Get against.
  `sliceIdx` (and `sel`/`eval` over it) is **the reading the code implements**: the same for every step ≥ 0 and
  for a negative step with an explicit end and an explicit start inside `-n ≤ start < n`
  (`sliceIdx_eq_rfc_pos`, `sliceIdx_eq_rfc_neg` in JPath/LemmasRfc.lean); for a negative step it differs where
  the end is absent (ojg: "beyond the end", so nothing is selected; RFC: down to index 0), where the start is
  absent (ojg: 0; RFC: the last index), where the start is at or beyond `n` (ojg: nothing; RFC: from the last
  index) and where it is below `-n` (ojg: from index 0; RFC: nothing). That difference is the known finding
  C05-slice-negative-step. `sliceIdx`/`sel`/`eval` are kept because the mutation family (C13) and the
  agreement theorems of C11 are stated over them.
* Union: the members in the listed order (a member that does not exist contributes nothing, a member
  listed twice contributes twice).
* Recursive descent selects the node itself and every value below it. Order (*choice*): the members'
  subtrees in member order, then the node itself (children before parents, siblings in order).
  Only the *set* of nodes is fixed by the documentation; where the order matters the theorems say so.
* Filter: the members (array elements in order, object members) whose script is true. The script is
  an abstract predicate `JV → Bool` here (scripts are specified in `Script/`, property C12).
-/
namespace OjgVerif.JPath
open OjgVerif

/-- one step of a location: a member name or an (absolute, non-negative) index -/
inductive Loc where
  | key (k : Bytes)
  | idx (i : Nat)
  deriving DecidableEq, Inhabited

/-- a normalized path: the location of an element relative to the value the path is applied to -/
abbrev Path := List Loc

/-- a member of a union fragment -/
inductive Member where
  | key (k : Bytes)
  | idx (i : Int)
  deriving DecidableEq, Inhabited

/-- path fragments (the leading `$` is not a fragment here: a path is applied to its root) -/
inductive Frag where
  | child (k : Bytes)
  | nth (i : Int)
  | wild
  | descent
  | union (ms : List Member)
  | slice (s e t : Option Int)
  | filter (p : JV → Bool)

def isContainer : JV → Bool
  | .arr _ => true
  | .obj _ => true
  | _ => false

def lookup (k : Bytes) : List (Bytes × JV) → Option JV
  | [] => none
  | m :: r => if m.1 = k then some m.2 else lookup k r

/-- absolute position of index `i` in an array of length `n` (negative counts from the end) -/
def absIdx (n : Nat) (i : Int) : Option Nat :=
  let j := if i < 0 then i + n else i
  if 0 ≤ j ∧ j < n then some j.toNat else none

/-- array elements with their locations, from index `i` on -/
def elemsFrom : Nat → List JV → List (Path × JV)
  | _, [] => []
  | i, x :: r => ([.idx i], x) :: elemsFrom (i + 1) r

/-- the members of a container with their locations, in member order -/
def members : JV → List (Path × JV)
  | .arr xs => elemsFrom 0 xs
  | .obj kvs => kvs.map fun m => ([.key m.1], m.2)
  | _ => []

/-- what one name or index selects -/
def selMember (v : JV) : Member → List (Path × JV)
  | .key k =>
    match v with
    | .obj kvs => (lookup k kvs).toList.map fun c => ([.key k], c)
    | _ => []
  | .idx i =>
    match v with
    | .arr xs =>
      match absIdx xs.length i with
      | some j => (xs[j]?).toList.map fun c => ([.idx j], c)
      | none => []
    | _ => []

/-- `a, a+d, a+2d, …` (`n` terms) -/
def progression (n : Nat) (a d : Int) : List Int := (List.range n).map fun (k : Nat) => a + (k : Int) * d

/-- the indexes a slice selects in an array of length `n`, in selection order — **in the reading the code
implements** (see the header; the documented semantics is `rfcSliceIdx` below) -/
def sliceIdx (n : Nat) (s e t : Option Int) : List Nat :=
  let step := t.getD 1
  let s0 := s.getD 0
  let start := if s0 < 0 then max (s0 + n) 0 else s0
  if step = 0 ∨ (n : Int) ≤ start then []
  else if 0 < step then
    let stop : Int := match e with
      | none => n
      | some e => if e < 0 then e + n else min e n
    ((progression n start step).takeWhile fun i => i < stop).map Int.toNat
  else
    let stop : Int := match e with
      | none => n
      | some e => if e < 0 then max (e + n) (-1) else min e n
    ((progression n start step).takeWhile fun i => stop < i).map Int.toNat

def pfx (l : Loc) (m : Path × JV) : Path × JV := (l :: m.1, m.2)

mutual
  /-- the node and everything below it: members' subtrees in member order, then the node -/
  def desc : JV → List (Path × JV)
    | .arr xs => descArr 0 xs ++ [([], .arr xs)]
    | .obj kvs => descObj kvs ++ [([], .obj kvs)]
    | .null => [([], .null)]
    | .bool b => [([], .bool b)]
    | .int i => [([], .int i)]
    | .flt t => [([], .flt t)]
    | .big t => [([], .big t)]
    | .num t => [([], .num t)]
    | .str s => [([], .str s)]
  def descArr : Nat → List JV → List (Path × JV)
    | _, [] => []
    | i, x :: r => (desc x).map (pfx (.idx i)) ++ descArr (i + 1) r
  def descObj : List (Bytes × JV) → List (Path × JV)
    | [] => []
    | m :: r => (desc m.2).map (pfx (.key m.1)) ++ descObj r
end

/-- what one fragment selects in a value: (location relative to the value, element) -/
def sel : Frag → JV → List (Path × JV)
  | .child k, v => selMember v (.key k)
  | .nth i, v => selMember v (.idx i)
  | .wild, v => members v
  | .descent, v => desc v
  | .union ms, v => ms.flatMap (selMember v)
  | .slice s e t, v =>
    match v with
    | .arr xs => (sliceIdx xs.length s e t).flatMap fun j => (xs[j]?).toList.map fun c => ([.idx j], c)
    | _ => []
  | .filter p, v => (members v).filter fun m => p m.2

/-- what a path selects: iterated selection -/
def eval : List Frag → JV → List (Path × JV)
  | [], v => [([], v)]
  | f :: r, v => (sel f v).flatMap fun m => (eval r m.2).map fun q => (m.1 ++ q.1, q.2)

/-- the selected elements without their locations -/
def evalV (x : List Frag) (v : JV) : List JV := (eval x v).map (·.2)

/-! ## Slices as documented: RFC 9535 §2.3.4.2 (transcribed from the RFC, not from the code) -/

/-- `Normalize(i, len)` -/
def rfcNormalize (i : Int) (len : Nat) : Int := if 0 ≤ i then i else (len : Int) + i

/-- `Bounds(start, end, step, len)` = (lower, upper) -/
def rfcBounds (start stop step : Int) (len : Nat) : Int × Int :=
  let nStart := rfcNormalize start len
  let nEnd := rfcNormalize stop len
  if 0 ≤ step then (min (max nStart 0) len, min (max nEnd 0) len)
  else (min (max nEnd (-1)) ((len : Int) - 1), min (max nStart (-1)) ((len : Int) - 1))

/-- the indexes `[start:end:step]` selects in an array of length `len`, in selection order: step 0 selects
nothing; the default start is 0 and the default end `len` for a step ≥ 0, `len - 1` and `-len - 1` for a
negative step; then `i = lower; while i < upper: select i; i += step` for a positive step and
`i = upper; while lower < i: select i; i += step` for a negative one -/
def rfcSliceIdx (len : Nat) (s e t : Option Int) : List Nat :=
  let step := t.getD 1
  if step = 0 then []
  else
    let start := s.getD (if 0 ≤ step then 0 else (len : Int) - 1)
    let stop := e.getD (if 0 ≤ step then (len : Int) else -(len : Int) - 1)
    let b := rfcBounds start stop step len
    if 0 < step then ((progression len b.1 step).takeWhile fun i => i < b.2).map Int.toNat
    else ((progression len b.2 step).takeWhile fun i => b.1 < i).map Int.toNat

/-- RFC 9535 Table 9 and the cases the reviewer of this specification asked for, on `["a",…]` of length 3 resp. 7 -/
example : rfcSliceIdx 7 (some 1) (some 3) none = [1, 2] ∧ rfcSliceIdx 7 (some 5) none none = [5, 6] ∧
    rfcSliceIdx 7 (some 1) (some 5) (some 2) = [1, 3] ∧ rfcSliceIdx 7 (some 5) (some 1) (some (-2)) = [5, 3] ∧
    rfcSliceIdx 7 none none (some (-1)) = [6, 5, 4, 3, 2, 1, 0] := by decide

example : rfcSliceIdx 3 none none (some (-1)) = [2, 1, 0] ∧          -- `[::-1]` reverses
    rfcSliceIdx 3 (some 5) (some 0) (some (-1)) = [2, 1] ∧           -- `[5:0:-1]`: from the last index
    rfcSliceIdx 3 (some (-1)) (some (-4)) (some (-1)) = [2, 1, 0] ∧  -- `[-1:-4:-1]`
    rfcSliceIdx 3 (some 1) (some 1) none = [] ∧                      -- `[1:1]`: empty
    rfcSliceIdx 3 none none (some 0) = [] ∧                          -- `[::0]`: nothing
    rfcSliceIdx 3 (some 2) none (some (-1)) = [2, 1, 0] ∧            -- `[2::-1]`
    rfcSliceIdx 3 (some (-5)) (some (-9)) (some (-1)) = [] := by decide

/-- the same cases in the reading the code implements: the first, second and the last two differ -/
example : sliceIdx 3 none none (some (-1)) = [] ∧ sliceIdx 3 (some 5) (some 0) (some (-1)) = [] ∧
    sliceIdx 3 (some (-1)) (some (-4)) (some (-1)) = [2, 1, 0] ∧ sliceIdx 3 (some 1) (some 1) none = [] ∧
    sliceIdx 3 none none (some 0) = [] ∧ sliceIdx 3 (some 2) none (some (-1)) = [] ∧
    sliceIdx 3 (some (-5)) (some (-9)) (some (-1)) = [0] := by decide

/-- what one fragment selects, as documented (differs from `sel` in the slice case only) -/
def selRfc : Frag → JV → List (Path × JV)
  | .slice s e t, v =>
    match v with
    | .arr xs => (rfcSliceIdx xs.length s e t).flatMap fun j => (xs[j]?).toList.map fun c => ([.idx j], c)
    | _ => []
  | f, v => sel f v

/-- **what a path selects, as documented** -/
def evalRfc : List Frag → JV → List (Path × JV)
  | [], v => [([], v)]
  | f :: r, v => (selRfc f v).flatMap fun m => (evalRfc r m.2).map fun q => (m.1 ++ q.1, q.2)

def evalVRfc (x : List Frag) (v : JV) : List JV := (evalRfc x v).map (·.2)

/-- the fragment that addresses one location step -/
def Loc.toFrag : Loc → Frag
  | .key k => .child k
  | .idx i => .nth i

end OjgVerif.JPath
