import OjgVerif.JPath.LemmasMach
/-! # FirstFound and Has on typed slices and arrays: the remaining deviation, exactly

On typed data get.go FirstFound and has.go Has treat a slice fragment as `reflectGetNth(tv, start)`: end and step
are not consulted (flag `firstTypedSlice`, pinned by TestExprFirst/TestExprHas). `typedView` is that reading as
a path transformation: `[s:e:t]` becomes the index `[s]` (start absent: `[0]`), or a fragment that selects
nothing when the step is written as 0. With it the deviation is characterised exactly: FirstFound/Has on a
typed representation of the path `x` are the first element / the non-emptiness of **Get on the path
`x.map typedView`** (for the code as it is now, where nothing else distinguishes them). -/
set_option linter.unusedSimpArgs false
namespace OjgVerif.JPath
open OjgVerif

/-- how FirstFound and Has read a fragment on typed slices and arrays -/
def typedView : Frag → Frag
  | .slice s _ t => if t = some 0 then .union [] else .nth (s.getD 0)
  | f => f

theorem head?_map_flatMap_congr {α β γ : Type} (g : β → γ) (l : List α) (F G : α → List β)
    (h : ∀ a ∈ l, ((F a).map g).head? = ((G a).map g).head?) :
    ((l.flatMap F).map g).head? = ((l.flatMap G).map g).head? := by
  rw [List.map_flatMap, List.map_flatMap]
  exact head?_flatMap_congr l _ _ h

/-- without the `descentSiblings` deviation: two evaluators, the second on the transformed path, whose inner
selections coincide and whose last selections have the same first element under `g` (a function of the element
that does not look at the location prefix) have the same first element under `g` -/
theorem evalSel_ghead_map {γ : Type} (g : Path × JV → γ) (hg : ∀ (p : Path) (q : Path × JV), g (p ++ q.1, q.2) = g q)
    (S T : Sel) (φ : Frag → Frag)
    (hin : ∀ f v, S.inner f v = T.inner (φ f) v)
    (hlast : ∀ f v, ((S.last f v).map g).head? = ((T.last (φ f) v).map g).head?) :
    ∀ (x : List Frag) (v : JV),
      ((evalSel S false x v).map g).head? = ((evalSel T false (x.map φ) v).map g).head?
  | [], v => by simp [evalSel]
  | [f], v => by simpa [evalSel] using hlast f v
  | f :: g' :: r, v => by
    have ih := evalSel_ghead_map g hg S T φ hin hlast (g' :: r)
    simp only [List.map_cons] at ih ⊢
    rw [evalSel, evalSel]
    simp only [Bool.false_and, Bool.false_eq_true, ↓reduceIte, hin]
    apply head?_map_flatMap_congr
    intro m _
    have hpre : ∀ (l : List (Path × JV)), (pre m.1 l).map g = l.map g := by
      intro l; simp [pre, hg, Function.comp_def]
    rw [hpre, hpre]
    exact ih m.2

theorem mIdx_nonarr (i : Int) (v : JV) (h : ∀ xs, v ≠ .arr xs) : mIdx i v = [] := by
  cases v with
  | arr xs => exact absurd rfl (h xs)
  | _ => rfl

/-- inner position on a typed representation: FirstFound pushes what Get pushes for the viewed fragment -/
theorem first_inner_typed (cfg : Cfg) (rep : Rep) (hty : rep.ak.typed = true)
    (hf : cfg.firstTypedSlice = true) (hg : cfg.firstTypedWildOne = false) (f : Frag) (v : JV) :
    First.inner cfg rep f v = (Get.sel cfg rep).inner (typedView f) v := by
  cases f with
  | wild =>
    simp only [First.inner, hg, Bool.false_and, Bool.false_eq_true, ↓reduceIte, typedView, Get.sel, Get.push,
      contOnly, List.filter_reverse, List.reverse_reverse]
  | slice s e t =>
    by_cases ht : t = some 0
    · cases v <;> simp [First.inner, First.sliceInner, hty, hf, ht, typedView, Get.sel, Get.push]
    · have hsm : (contOnly (mIdx (s.getD 0) v)).reverse = contOnly (mIdx (s.getD 0) v) :=
        reverse_small _ (contOnly_small _ (mIdx_small _ v))
      simp only [typedView, ht, ↓reduceIte, Get.sel, Get.push, hsm, First.inner]
      cases v with
      | arr xs => simp [First.sliceInner, hty, hf, ht]
      | _ => simp [First.sliceInner, mIdx, contOnly]
  | _ => simp [First.inner, typedView, Get.sel]

theorem head?_map_unit {α : Type} (g : α → Unit) (l : List α) :
    (l.map g).head? = if l.isEmpty then none else some () := by
  cases l <;> simp

theorem head?_map_take_one {α γ : Type} (g : α → γ) (l : List α) : ((l.take 1).map g).head? = (l.map g).head? := by
  cases l <;> simp

/-- last position on a typed representation: FirstFound returns the first of what Get appends for the viewed
fragment; `g` is the observation (the element, or nothing at all for Has). On a struct `reflectGetWildOne`
returns the *last* field, so only the emptiness is the same there. -/
theorem first_last_typed {γ : Type} (g : Path × JV → γ) (cfg : Cfg) (rep : Rep) (hty : rep.ak.typed = true)
    (hf : cfg.firstTypedSlice = true)
    (hst : rep.ok ≠ OKind.struct ∨ ∀ a b, g a = g b) (f : Frag) (v : JV) :
    ((First.last cfg rep f v).map g).head? = ((Get.last cfg rep (typedView f) v).map g).head? := by
  cases f with
  | child k => rfl
  | nth i => rfl
  | descent => simp only [First.last, typedView, Get.last]; exact head?_map_take_one g _
  | union ms => simp only [First.last, typedView, Get.last]; exact head?_map_take_one g _
  | filter p => simp only [First.last, typedView, Get.last]; exact head?_map_take_one g _
  | slice s e t =>
    by_cases ht : t = some 0
    · cases v <;> simp [First.last, First.sliceLast, hty, hf, ht, typedView, Get.last]
    · simp only [typedView, ht, ↓reduceIte, Get.last, First.last]
      cases v with
      | arr xs => simp [First.sliceLast, hty, hf, ht]
      | _ => simp [First.sliceLast, mIdx]
  | wild =>
    simp only [First.last, typedView, Get.last]
    cases v with
    | arr xs => simp only [First.wildOne, Get.wildKids]; exact head?_map_take_one g _
    | obj kvs =>
      by_cases hm : (cfg.typedMapWild && decide (rep.ok = OKind.rmap)) = true
      · simp [First.wildOne, Get.wildKids, hm]
      · have hm' : (cfg.typedMapWild && decide (rep.ok = OKind.rmap)) = false := by simpa using hm
        by_cases hs : rep.ok = OKind.struct
        · rcases hst with h | h
          · exact absurd hs h
          · simp only [First.wildOne, Get.wildKids, hm', Bool.false_eq_true, ↓reduceIte, hs]
            cases kvs with
            | nil => simp
            | cons a t =>
              have hne : ((a :: t).reverse.take 1) ≠ [] := by simp
              cases hrev : (a :: t).reverse.take 1 with
              | nil => exact absurd hrev hne
              | cons b u => simp [h (([Loc.key b.1], b.2)) (([Loc.key a.1], a.2))]
        · simp only [First.wildOne, Get.wildKids, hm', Bool.false_eq_true, ↓reduceIte, hs]
          rw [List.map_map, List.map_map]
          exact head?_map_take_one _ _
    | _ => simp [First.wildOne, Get.wildKids]

theorem isEmpty_eq_head_unit (l : List (Path × JV)) :
    l.isEmpty = ((l.map fun _ => ()).head?).isNone := by
  cases l <;> simp

/-- **FirstFound on typed slices and arrays, exactly** (skeleton model; `descentSiblings`, `firstTypedWildOne`
off, object kind not a struct): the first of Get's results **for the viewed path** on the same representation -/
theorem first_typed_view (cfg : Cfg) (rep : Rep) (hty : rep.ak.typed = true) (hs : cfg.descentSiblings = false)
    (hf : cfg.firstTypedSlice = true) (hg : cfg.firstTypedWildOne = false) (hst : rep.ok ≠ OKind.struct)
    (x : List Frag) (d : JV) :
    firstM cfg rep x d = ((getS cfg rep (x.map typedView) d).map (·.2)).head? := by
  simp only [firstM, getS, hs]
  exact evalSel_ghead_map (·.2) (fun _ _ => rfl) (First.sel cfg rep) (Get.sel cfg rep) typedView
    (fun f v => first_inner_typed cfg rep hty hf hg f v)
    (fun f v => first_last_typed (·.2) cfg rep hty hf (Or.inl hst) f v) x d

/-- **Has on typed slices and arrays, exactly** (skeleton model; `descentSiblings`, `firstTypedWildOne`,
`hasTypedMap`, `hasTypedDescent` off; any object kind): whether Get **for the viewed path** has results -/
theorem has_typed_view (cfg : Cfg) (rep : Rep) (hty : rep.ak.typed = true) (hs : cfg.descentSiblings = false)
    (hf : cfg.firstTypedSlice = true) (hg : cfg.firstTypedWildOne = false)
    (hd : cfg.hasTypedDescent = false) (hh : cfg.hasTypedMap = false) (x : List Frag) (d : JV) :
    hasM cfg rep x d = !(getS cfg rep (x.map typedView) d).isEmpty := by
  simp only [hasM, getS, hs, isEmpty_eq_head_unit]
  congr 2
  exact evalSel_ghead_map (fun _ => ()) (fun _ _ => rfl) (Has.sel cfg rep) (Get.sel cfg rep) typedView
    (fun f v => by simp only [Has.sel]; rw [has_inner_eq_first cfg rep hd hh]; exact first_inner_typed cfg rep hty hf hg f v)
    (fun f v => first_last_typed (fun _ => ()) cfg rep hty hf (Or.inr (fun _ _ => rfl)) f v) x d

/-! ### gen nodes and Indexed/Keyed collections: FirstFound's and Has's selections are those on plain data -/

theorem untyped_facts (rep : Rep) (ha : rep.ak.typed = false) (ho : rep.ok.typed = false) :
    rep.ok ≠ OKind.rmap ∧ rep.ok ≠ OKind.struct ∧ ∀ v, First.typedNode rep v = false := by
  obtain ⟨ak, ok⟩ := rep
  refine ⟨?_, ?_, ?_⟩
  · intro h; simp only at h; subst h; simp [OKind.typed] at ho
  · intro h; simp only at h; subst h; simp [OKind.typed] at ho
  · intro v; cases v <;> simp_all [First.typedNode]

theorem get_push_untyped_nonslice (cfg : Cfg) (rep : Rep) (ha : rep.ak.typed = false) (ho : rep.ok.typed = false)
    (f : Frag) (hs : ∀ s e t, f ≠ .slice s e t) (v : JV) : Get.push cfg rep f v = Get.push cfg Rep.simple f v := by
  obtain ⟨h1, h2, _⟩ := untyped_facts rep ha ho
  obtain ⟨g1, g2, _⟩ := untyped_facts Rep.simple rfl rfl
  have go : Rep.simple.ok.typed = false := rfl
  cases f with
  | slice s e t => exact absurd rfl (hs s e t)
  | wild => cases v <;> simp [Get.push, Get.wildKids, h1, g1]
  | filter p => cases v <;> simp [Get.push, Get.filterKids, ho, go]
  | descent => simp [Get.push, h1, g1]
  | _ => rfl

theorem first_inner_untyped (cfg : Cfg) (rep : Rep) (ha : rep.ak.typed = false) (ho : rep.ok.typed = false)
    (f : Frag) (v : JV) : First.inner cfg rep f v = First.inner cfg Rep.simple f v := by
  obtain ⟨h1, h2, h3⟩ := untyped_facts rep ha ho
  obtain ⟨g1, g2, g3⟩ := untyped_facts Rep.simple rfl rfl
  have ga : Rep.simple.ak.typed = false := rfl
  cases f with
  | slice s e t => cases v <;> simp [First.inner, First.sliceInner, ha, ga]
  | wild => cases v <;> simp [First.inner, h3, g3, Get.wildKids, h1, g1]
  | child k => simp only [First.inner]; rw [get_push_untyped_nonslice cfg rep ha ho _ (by intro s e t h; cases h)]
  | nth i => simp only [First.inner]; rw [get_push_untyped_nonslice cfg rep ha ho _ (by intro s e t h; cases h)]
  | descent => simp only [First.inner]; rw [get_push_untyped_nonslice cfg rep ha ho _ (by intro s e t h; cases h)]
  | union ms => simp only [First.inner]; rw [get_push_untyped_nonslice cfg rep ha ho _ (by intro s e t h; cases h)]
  | filter p => simp only [First.inner]; rw [get_push_untyped_nonslice cfg rep ha ho _ (by intro s e t h; cases h)]

theorem first_last_untyped (cfg : Cfg) (rep : Rep) (ha : rep.ak.typed = false) (ho : rep.ok.typed = false)
    (f : Frag) (v : JV) : First.last cfg rep f v = First.last cfg Rep.simple f v := by
  obtain ⟨h1, h2, _⟩ := untyped_facts rep ha ho
  obtain ⟨g1, g2, _⟩ := untyped_facts Rep.simple rfl rfl
  have ga : Rep.simple.ak.typed = false := rfl
  have go : Rep.simple.ok.typed = false := rfl
  cases f with
  | slice s e t => cases v <;> simp [First.last, First.sliceLast, ha, ga]
  | wild => cases v <;> simp [First.last, First.wildOne, h1, h2, g1, g2]
  | filter p => cases v <;> simp [First.last, Get.filterKids, ho, go]
  | _ => rfl

theorem first_sel_untyped (cfg : Cfg) (rep : Rep) (ha : rep.ak.typed = false) (ho : rep.ok.typed = false) :
    First.sel cfg rep = First.sel cfg Rep.simple := by
  simp only [First.sel]
  congr 1
  · funext f v; exact first_last_untyped cfg rep ha ho f v
  · funext f v; exact first_inner_untyped cfg rep ha ho f v

theorem has_sel_untyped (cfg : Cfg) (rep : Rep) (ha : rep.ak.typed = false) (ho : rep.ok.typed = false) :
    Has.sel cfg rep = Has.sel cfg Rep.simple := by
  obtain ⟨h1, _, h3⟩ := untyped_facts rep ha ho
  simp only [Has.sel]
  congr 1
  · funext f v; exact first_last_untyped cfg rep ha ho f v
  · funext f v
    obtain ⟨g1, _, g3⟩ := untyped_facts Rep.simple rfl rfl
    simp [Has.inner, h3, g3, first_inner_untyped cfg rep ha ho, h1, g1]
  · funext v; simp [h3, simple_untyped]


end OjgVerif.JPath
