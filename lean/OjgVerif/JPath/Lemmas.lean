import OjgVerif.JPath.Model
/-! # The Get work-list machine computes the flatMap denotation

`Get.run` (frames of stack items under fragment-index markers, descent flags, reverse pushes) against
`denV`, the value-level recursive evaluation over the same last/push selection functions. Invariant:
`results ++ denotation of the pending frames` is constant; fuel: `Get.cost` is a proved bound. -/
set_option linter.unusedSimpArgs false
namespace OjgVerif.JPath
open OjgVerif

def nodesInnerV (v : JV) : List JV := (nodesInner v).map (·.2)
def lastBelowV (v : JV) : List JV := (lastBelow v).map (·.2)
def kidsV (v : JV) : List JV := (members v).map (·.2)

/-- what a fresh stretch of stack (`items` under a marker without flags) yields, given what one item
yields when it is expanded (`full`) or only continued (`shallow`) -/
def sibList (sib : Bool) (full shallow : JV → List JV) : List JV → List JV
  | [] => []
  | m :: ms => if sib then full m ++ ms.flatMap shallow else full m ++ ms.flatMap full

/-- value-level denotation over the machine's selection functions -/
def denV (sib : Bool) (L P : Frag → JV → List JV) : List Frag → JV → List JV
  | [], v => [v]
  | [f], v =>
    match f with
    | .descent => lastBelowV v ++ [v]
    | _ => L f v
  | f :: g :: r, v =>
    match f with
    | .descent => (nodesInnerV v).flatMap (denV sib L P (g :: r))
    | _ =>
      match g with
      | .descent => sibList sib (denV sib L P (g :: r)) (denV sib L P r) (P f v).reverse
      | _ => (P f v).reverse.flatMap (denV sib L P (g :: r))

section
variable (sib : Bool) (L P : Frag → JV → List JV) (x : List Frag)

/-- an item of a descent frame, expanded: everything below it (and itself unless it is a reported member) -/
def dFull (r : List Frag) (c : Bool) (d : JV) : List JV :=
  match r with
  | [] => lastBelowV d ++ (if c then [] else [d])
  | _ :: _ => (nodesInnerV d).flatMap (denV sib L P r)

/-- an item of a descent frame whose marker carries descentFlag: second pass only -/
def dSecond (r : List Frag) (c : Bool) (d : JV) : List JV :=
  match r with
  | [] => if c then [] else [d]
  | _ :: _ => denV sib L P r d

/-- denotation of a frame -/
def denFrame (fr : Get.Frame) : List JV :=
  match x.drop fr.fi with
  | [] => []
  | .descent :: r =>
    if fr.dflag then
      (if sib then fr.items.flatMap (dSecond sib L P r fr.cflag)
       else match fr.items with
         | [] => []
         | d :: rest => dSecond sib L P r fr.cflag d ++ rest.flatMap (dFull sib L P r fr.cflag))
    else sibList sib (dFull sib L P r fr.cflag) (dSecond sib L P r fr.cflag) fr.items
  | f :: r => fr.items.flatMap (denV sib L P (f :: r))

def denStack (st : List Get.Frame) : List JV := st.flatMap (denFrame sib L P x)

/-- potential of one item of a descent frame -/
def phiFull (r : List Frag) (d : JV) : Nat := ((nodesInner d).map fun m => 2 + Get.cost P r m.2).sum

/-- potential of a frame: the rounds it still needs -/
def phiFrame (fr : Get.Frame) : Nat :=
  match x.drop fr.fi with
  | [] => fr.items.length
  | .descent :: r =>
    if fr.dflag then
      match fr.items with
      | [] => 0
      | d :: rest => (1 + Get.cost P r d) + (rest.map (phiFull P r)).sum
    else (fr.items.map (phiFull P r)).sum
  | f :: r => (fr.items.map (Get.cost P (f :: r))).sum

def phiStack (st : List Get.Frame) : Nat := (st.map (phiFrame P x)).sum

end

/-! ### list helpers -/

theorem sum_append_nat (a b : List Nat) : (a ++ b).sum = a.sum + b.sum := by
  induction a with
  | nil => simp
  | cons h t ih => simp [ih, Nat.add_assoc]

theorem sum_flatMap_map (l : List JV) (g : JV → List JV) (w : JV → Nat) :
    ((l.flatMap g).map w).sum = (l.map fun a => ((g a).map w).sum).sum := by
  induction l with
  | nil => simp
  | cons a t ih => simp [List.flatMap_cons, ih]

/-! ### structure of the descent functions -/

theorem isContainer_false_nodesInner (v : JV) (h : isContainer v = false) : nodesInner v = [([], v)] := by
  cases v <;> simp_all [isContainer, nodesInner]

theorem isContainer_false_lastBelow (v : JV) (h : isContainer v = false) : lastBelow v = [] := by
  cases v <;> simp_all [isContainer, lastBelow]

theorem isContainer_false_members (v : JV) (h : isContainer v = false) : members v = [] := by
  cases v <;> simp_all [isContainer, members]

theorem elemsFrom_vals (i : Nat) (xs : List JV) : (elemsFrom i xs).map (·.2) = xs := by
  induction xs generalizing i with
  | nil => simp [elemsFrom]
  | cons a t ih => simp [elemsFrom, ih]

@[simp] theorem pfx_snd (l : Loc) (m : Path × JV) : (pfx l m).2 = m.2 := rfl
@[simp] theorem pfx_fst (l : Loc) (m : Path × JV) : (pfx l m).1 = l :: m.1 := rfl

theorem map_pfx_vals (l : Loc) (ms : List (Path × JV)) : (ms.map (pfx l)).map (·.2) = ms.map (·.2) := by
  simp [Function.comp_def]

theorem nodesInnerL_vals (i : Nat) (xs : List JV) :
    (nodesInnerL i xs).map (·.2) = (xs.filter isContainer).flatMap nodesInnerV := by
  induction xs generalizing i with
  | nil => simp [nodesInnerL]
  | cons a t ih =>
    by_cases h : isContainer a = true
    · simp [nodesInnerL, h, ih, map_pfx_vals, nodesInnerV, List.filter_cons]
    · have h' : isContainer a = false := by simpa using h
      simp [nodesInnerL, h', ih, List.filter_cons]

theorem nodesInnerKV_vals (kvs : List (Bytes × JV)) :
    (nodesInnerKV kvs).map (·.2) = ((kvs.map (·.2)).filter isContainer).flatMap nodesInnerV := by
  induction kvs with
  | nil => simp [nodesInnerKV]
  | cons a t ih =>
    by_cases h : isContainer a.2 = true
    · simp [nodesInnerKV, h, ih, map_pfx_vals, nodesInnerV, List.filter_cons]
    · have h' : isContainer a.2 = false := by simpa using h
      simp [nodesInnerKV, h', ih, List.filter_cons]

/-- the nodes an inner descent reaches: those of the container members, then the node -/
theorem nodesInnerV_eq (v : JV) : nodesInnerV v = ((kidsV v).filter isContainer).flatMap nodesInnerV ++ [v] := by
  cases v with
  | arr xs => simp [nodesInnerV, nodesInner, kidsV, members, nodesInnerL_vals, elemsFrom_vals]
  | obj kvs =>
    simp only [nodesInnerV, nodesInner, kidsV, members, List.map_append, nodesInnerKV_vals, List.map_map]
    simp [nodesInnerV, Function.comp_def]
  | _ => simp [nodesInnerV, nodesInner, kidsV, members]

theorem lastBelowL_vals (i : Nat) (xs : List JV) :
    (lastBelowL i xs).map (·.2) = (xs.filter isContainer).flatMap lastBelowV := by
  induction xs generalizing i with
  | nil => simp [lastBelowL]
  | cons a t ih =>
    by_cases h : isContainer a = true
    · simp [lastBelowL, h, ih, map_pfx_vals, lastBelowV, List.filter_cons]
    · have h' : isContainer a = false := by simpa using h
      simp [lastBelowL, h', ih, List.filter_cons, isContainer_false_lastBelow a h']

theorem lastBelowKV_vals (kvs : List (Bytes × JV)) :
    (lastBelowKV kvs).map (·.2) = ((kvs.map (·.2)).filter isContainer).flatMap lastBelowV := by
  induction kvs with
  | nil => simp [lastBelowKV]
  | cons a t ih =>
    by_cases h : isContainer a.2 = true
    · simp [lastBelowKV, h, ih, map_pfx_vals, lastBelowV, List.filter_cons]
    · have h' : isContainer a.2 = false := by simpa using h
      simp [lastBelowKV, h', ih, List.filter_cons, isContainer_false_lastBelow a.2 h']

/-- last position: the members, then what is below the container members -/
theorem lastBelowV_eq (v : JV) : lastBelowV v = kidsV v ++ ((kidsV v).filter isContainer).flatMap lastBelowV := by
  cases v with
  | arr xs => simp [lastBelowV, lastBelow, kidsV, members, lastBelowL_vals, elemsFrom_vals]
  | obj kvs =>
    simp only [lastBelowV, lastBelow, kidsV, members, List.map_append, lastBelowKV_vals, List.map_map]
    simp [lastBelowV, Function.comp_def]
  | _ => simp [lastBelowV, lastBelow, kidsV, members]

end OjgVerif.JPath

namespace OjgVerif.JPath
open OjgVerif

/-! ### frames -/

section
variable (sib : Bool) (L P : Frag → JV → List JV) (x : List Frag)

theorem drop_succ_of {fi : Nat} {f : Frag} {r : List Frag} (h : x.drop fi = f :: r) : x.drop (fi + 1) = r := by
  have h1 : (x.drop fi).drop 1 = r := by rw [h]; rfl
  rw [List.drop_drop] at h1
  simpa [Nat.add_comm] using h1

theorem denStack_append (a b : List Get.Frame) :
    denStack sib L P x (a ++ b) = denStack sib L P x a ++ denStack sib L P x b := by
  simp [denStack]

theorem phiStack_append (a b : List Get.Frame) : phiStack P x (a ++ b) = phiStack P x a + phiStack P x b := by
  simp [phiStack, sum_append_nat]

theorem dFull_false (r : List Frag) : dFull sib L P r false = denV sib L P (.descent :: r) := by
  funext d
  cases r with
  | nil => simp [dFull, denV]
  | cons a b => simp [dFull, denV]

theorem dSecond_false (r : List Frag) : dSecond sib L P r false = denV sib L P r := by
  funext d
  cases r with
  | nil => simp [dSecond, denV]
  | cons a b => simp [dSecond]

/-- what the items an inner branch pushed denote: the rest of the path on them -/
def fresh (s : List Frag) (l : List JV) : List JV :=
  match s with
  | [] => []
  | .descent :: r => sibList sib (denV sib L P (.descent :: r)) (denV sib L P r) l
  | f :: r => l.flatMap (denV sib L P (f :: r))

theorem fresh_nil (s : List Frag) : fresh sib L P s [] = [] := by
  unfold fresh
  split <;> simp [sibList]

theorem den_pushed (fi : Nat) (l : List JV) :
    denStack sib L P x (Get.pushed fi l) = fresh sib L P (x.drop fi) l := by
  cases l with
  | nil => simp [Get.pushed, denStack, fresh_nil]
  | cons a t =>
    simp only [Get.pushed, List.isEmpty_cons, Bool.false_eq_true, ↓reduceIte, denStack, List.flatMap_cons,
      List.flatMap_nil, List.append_nil, denFrame, fresh]
    split
    · rfl
    · simp [dFull_false, dSecond_false]
    · rfl

theorem phi_pushed (fi : Nat) (l : List JV) (g : Frag) (r : List Frag) (h : x.drop fi = g :: r) :
    phiStack P x (Get.pushed fi l) = (l.map (Get.cost P (g :: r))).sum := by
  cases l with
  | nil => simp [Get.pushed, phiStack]
  | cons a t =>
    simp only [Get.pushed, List.isEmpty_cons, Bool.false_eq_true, ↓reduceIte, phiStack, List.map_cons,
      List.map_nil, List.sum_cons, List.sum_nil, Nat.add_zero, phiFrame, h]
    cases g with
    | descent => simp only [Get.cost]; rfl
    | _ => simp [Get.cost]

/-- the denotation of a path below its first fragment is what the pushed items denote -/
theorem denV_cons_cons (f g : Frag) (r : List Frag) (v : JV) (hf : isDescent f = false) :
    denV sib L P (f :: g :: r) v = fresh sib L P (g :: r) (P f v).reverse := by
  cases f with
  | descent => simp [isDescent] at hf
  | _ => cases g <;> simp [denV, fresh]

theorem denV_descent_cons (g : Frag) (r : List Frag) (v : JV) :
    denV sib L P (.descent :: g :: r) v = (nodesInnerV v).flatMap (denV sib L P (g :: r)) := by
  simp [denV]

theorem denV_single (f : Frag) (v : JV) (hf : isDescent f = false) : denV sib L P [f] v = L f v := by
  cases f with
  | descent => simp [isDescent] at hf
  | _ => simp [denV]

theorem cost_cons (f : Frag) (r : List Frag) (v : JV) (hf : isDescent f = false) :
    Get.cost P (f :: r) v = 1 + ((P f v).map (Get.cost P r)).sum := by
  cases f with
  | descent => simp [isDescent] at hf
  | _ => simp only [Get.cost]

theorem cost_descent (r : List Frag) (v : JV) : Get.cost P (.descent :: r) v = phiFull P r v := by
  simp [Get.cost, phiFull]

theorem den_rest (fr : Get.Frame) (df : Bool) (items : List JV) :
    denStack sib L P x (fr.rest df items) = denFrame sib L P x { fr with dflag := df, items := items } := by
  cases items with
  | nil =>
    simp only [Get.Frame.rest, List.isEmpty_nil, ↓reduceIte, denStack, List.flatMap_nil, denFrame]
    split
    · rfl
    · split <;> simp [sibList]
    · simp
  | cons a t => simp [Get.Frame.rest, denStack]

theorem phi_rest (fr : Get.Frame) (df : Bool) (items : List JV) :
    phiStack P x (fr.rest df items) = phiFrame P x { fr with dflag := df, items := items } := by
  cases items with
  | nil =>
    simp only [Get.Frame.rest, List.isEmpty_nil, ↓reduceIte, phiStack, List.map_nil, List.sum_nil, phiFrame]
    split
    · rfl
    · split <;> simp
    · simp
  | cons a t => simp [Get.Frame.rest, phiStack]

theorem rest_nonempty (fr : Get.Frame) (df : Bool) (items : List JV) : ∀ f ∈ fr.rest df items, f.items ≠ [] := by
  cases items with
  | nil => simp [Get.Frame.rest]
  | cons a t => simp [Get.Frame.rest]

theorem pushed_nonempty (fi : Nat) (l : List JV) : ∀ f ∈ Get.pushed fi l, f.items ≠ [] := by
  cases l with
  | nil => simp [Get.pushed]
  | cons a t => simp [Get.pushed]

end

end OjgVerif.JPath

namespace OjgVerif.JPath
open OjgVerif

section
variable (sib : Bool) (L P : Frag → JV → List JV) (x : List Frag)

theorem sibList_false (f s : JV → List JV) (l : List JV) : sibList false f s l = l.flatMap f := by
  cases l <;> simp [sibList]

theorem sibList_single (f s : JV → List JV) (d : JV) : sibList sib f s [d] = f d := by
  cases sib <;> simp [sibList]

theorem step_of_nil (fr : Get.Frame) (d : JV) (rest : List JV) (hx : x.drop fr.fi = []) :
    Get.step sib L P x fr d rest = ([], fr.rest fr.dflag rest) := by
  simp [Get.step, hx]

theorem step_of_frag (fr : Get.Frame) (d : JV) (rest : List JV) (f : Frag) (r : List Frag)
    (hx : x.drop fr.fi = f :: r) (hf : isDescent f = false) :
    Get.step sib L P x fr d rest =
      if r.isEmpty then (L f d, fr.rest fr.dflag rest)
      else ([], Get.pushed (fr.fi + 1) (P f d).reverse ++ fr.rest fr.dflag rest) := by
  cases f with
  | descent => simp [isDescent] at hf
  | _ => simp [Get.step, hx]

theorem denFrame_of_frag (fr : Get.Frame) (f : Frag) (r : List Frag)
    (hx : x.drop fr.fi = f :: r) (hf : isDescent f = false) :
    denFrame sib L P x fr = fr.items.flatMap (denV sib L P (f :: r)) := by
  cases f with
  | descent => simp [isDescent] at hf
  | _ => simp [denFrame, hx]

theorem phiFrame_of_frag (fr : Get.Frame) (f : Frag) (r : List Frag)
    (hx : x.drop fr.fi = f :: r) (hf : isDescent f = false) :
    phiFrame P x fr = (fr.items.map (Get.cost P (f :: r))).sum := by
  cases f with
  | descent => simp [isDescent] at hf
  | _ => simp [phiFrame, hx]

theorem phiFull_eq (r : List Frag) (d : JV) :
    phiFull P r d = ((nodesInnerV d).map fun n => 2 + Get.cost P r n).sum := by
  simp [phiFull, nodesInnerV, List.map_map, Function.comp_def]

theorem phiFull_unfold (r : List Frag) (d : JV) :
    phiFull P r d = (((kidsV d).filter isContainer).map (phiFull P r)).sum + (2 + Get.cost P r d) := by
  have hfun : (fun a => ((nodesInnerV a).map fun n => 2 + Get.cost P r n).sum) = phiFull P r := by
    funext a; rw [phiFull_eq]
  rw [phiFull_eq, nodesInnerV_eq]
  simp only [List.map_append, sum_append_nat, sum_flatMap_map, List.map_cons, List.map_nil, List.sum_cons,
    List.sum_nil, Nat.add_zero, hfun]

theorem phiFull_ge (r : List Frag) (d : JV) : 2 + Get.cost P r d ≤ phiFull P r d := by
  rw [phiFull_unfold]; omega

/-- expanding a node: its members (last position), what its container members yield, then its second pass -/
theorem dFull_unfold (r : List Frag) (c : Bool) (d : JV) :
    dFull sib L P r c d =
      (if r.isEmpty then kidsV d else []) ++ ((kidsV d).filter isContainer).flatMap (dFull sib L P r true)
        ++ dSecond sib L P r c d := by
  cases r with
  | nil =>
    have h1 : dFull sib L P [] true = lastBelowV := by funext c; simp [dFull]
    simp only [dFull, List.isEmpty_nil, ↓reduceIte, dSecond, h1]
    rw [lastBelowV_eq d]
  | cons a b =>
    have h1 : dFull sib L P (a :: b) true = fun c => (nodesInnerV c).flatMap (denV sib L P (a :: b)) := by
      funext c; simp [dFull]
    simp only [dFull, List.isEmpty_cons, Bool.false_eq_true, ↓reduceIte, List.nil_append, dSecond, h1]
    rw [nodesInnerV_eq d]
    simp [List.flatMap_append, List.flatMap_assoc]

theorem kidFrames_eq (fi : Nat) (d : JV) :
    ((((members d).map (·.2)).reverse.filter isContainer).map fun c => (⟨fi, false, true, [c]⟩ : Get.Frame)).reverse
      = ((kidsV d).filter isContainer).map fun c => (⟨fi, false, true, [c]⟩ : Get.Frame) := by
  simp [kidsV, List.filter_reverse, List.map_reverse]

theorem step_den (fr : Get.Frame) (d : JV) (rest : List JV) (h : fr.items = d :: rest) :
    (Get.step sib L P x fr d rest).1 ++ denStack sib L P x (Get.step sib L P x fr d rest).2
      = denFrame sib L P x fr := by
  obtain ⟨fi, df, cf, items⟩ := fr
  simp only at h
  subst h
  cases hx : x.drop fi with
  | nil =>
    rw [step_of_nil sib L P x _ d rest hx]
    simp [den_rest, denFrame, hx]
  | cons f r =>
    by_cases hf : isDescent f = true
    · -- descent
      have hfd : f = .descent := by cases f <;> simp_all [isDescent]
      subst hfd
      cases df with
      | false =>
        -- first pass
        simp only [Get.step, hx, Bool.not_false, ↓reduceIte, kidFrames_eq]
        rw [denStack_append]
        have hk : denStack sib L P x (((kidsV d).filter isContainer).map fun c => (⟨fi, false, true, [c]⟩ : Get.Frame))
            = ((kidsV d).filter isContainer).flatMap (dFull sib L P r true) := by
          simp only [denStack, List.flatMap_map]
          congr 1
          funext c
          simp [denFrame, hx, sibList_single]
        rw [hk]
        have hold : denFrame sib L P x ⟨fi, false, cf, d :: rest⟩
            = sibList sib (dFull sib L P r cf) (dSecond sib L P r cf) (d :: rest) := by
          simp [denFrame, hx]
        have hnew : denStack sib L P x [⟨fi, true, cf, d :: rest⟩]
            = if sib then (d :: rest).flatMap (dSecond sib L P r cf)
              else dSecond sib L P r cf d ++ rest.flatMap (dFull sib L P r cf) := by
          simp [denStack, denFrame, hx]
        rw [hold, hnew]
        have hu := dFull_unfold sib L P r cf d
        cases sib <;> simp [sibList, hu, kidsV, List.append_assoc]
      | true =>
        by_cases hr : r.isEmpty = true
        · -- second pass, last position
          have hr' : r = [] := by simpa using hr
          subst hr'
          simp only [Get.step, hx, Bool.not_true, Bool.false_eq_true, ↓reduceIte, List.isEmpty_nil, den_rest]
          cases sib <;> cases cf <;> simp [denFrame, hx, dSecond, sibList_false]
        · -- second pass, inner position
          have hr' : r.isEmpty = false := by simpa using hr
          obtain ⟨a, b, hab⟩ : ∃ a b, r = a :: b := by
            cases r with
            | nil => simp at hr'
            | cons a b => exact ⟨a, b, rfl⟩
          have hx1 : x.drop (fi + 1) = r := drop_succ_of x hx
          simp only [Get.step, hx, Bool.not_true, Bool.false_eq_true, ↓reduceIte, hr', List.nil_append]
          rw [denStack_append, den_pushed, den_rest, hx1]
          have hfresh : fresh sib L P r [d] = denV sib L P r d := by
            subst hab
            cases a <;> simp [fresh, sibList_single]
          rw [hfresh]
          subst hab
          cases sib <;> simp [denFrame, hx, dSecond, sibList_false]
    · -- another fragment
      have hf' : isDescent f = false := by simpa using hf
      rw [step_of_frag sib L P x _ d rest f r hx hf', denFrame_of_frag sib L P x _ f r hx hf']
      by_cases hr : r.isEmpty = true
      · have hr' : r = [] := by simpa using hr
        subst hr'
        simp only [List.isEmpty_nil, ↓reduceIte, den_rest]
        rw [denFrame_of_frag sib L P x _ f [] hx hf']
        simp [denV_single sib L P f d hf']
      · have hr' : r.isEmpty = false := by simpa using hr
        obtain ⟨g, r', hgr⟩ : ∃ g r', r = g :: r' := by
          cases r with
          | nil => simp at hr'
          | cons a b => exact ⟨a, b, rfl⟩
        have hx1 : x.drop (fi + 1) = r := drop_succ_of x hx
        simp only [hr', Bool.false_eq_true, ↓reduceIte, List.nil_append]
        rw [denStack_append, den_pushed, den_rest, hx1]
        rw [denFrame_of_frag sib L P x _ f r hx hf']
        subst hgr
        simp [denV_cons_cons sib L P f g r' d hf']

end

end OjgVerif.JPath

namespace OjgVerif.JPath
open OjgVerif

section
variable (sib : Bool) (L P : Frag → JV → List JV) (x : List Frag)

theorem cost_pos (f : Frag) (r : List Frag) (v : JV) : 1 ≤ Get.cost P (f :: r) v := by
  by_cases hf : isDescent f = true
  · have hfd : f = .descent := by cases f <;> simp_all [isDescent]
    subst hfd
    rw [cost_descent]
    have := phiFull_ge P r v
    omega
  · rw [cost_cons P f r v (by simpa using hf)]; omega

theorem phiFrame_pos (fr : Get.Frame) (h : fr.items ≠ []) : 1 ≤ phiFrame P x fr := by
  obtain ⟨fi, df, cf, items⟩ := fr
  cases items with
  | nil => exact absurd rfl h
  | cons d rest =>
    cases hx : x.drop fi with
    | nil => simp [phiFrame, hx]
    | cons f r =>
      by_cases hf : isDescent f = true
      · have hfd : f = .descent := by cases f <;> simp_all [isDescent]
        subst hfd
        cases df with
        | true => simp only [phiFrame, hx, ↓reduceIte]; omega
        | false =>
          simp only [phiFrame, hx, Bool.false_eq_true, ↓reduceIte, List.map_cons, List.sum_cons]
          have := phiFull_ge P r d
          omega
      · rw [phiFrame_of_frag P x _ f r hx (by simpa using hf)]
        simp only [List.map_cons, List.sum_cons]
        have := cost_pos P f r d
        omega

/-- the frames that replace a frame need at least one round less -/
theorem step_phi (fr : Get.Frame) (d : JV) (rest : List JV) (h : fr.items = d :: rest) :
    phiStack P x (Get.step sib L P x fr d rest).2 + 1 ≤ phiFrame P x fr := by
  obtain ⟨fi, df, cf, items⟩ := fr
  simp only at h
  subst h
  cases hx : x.drop fi with
  | nil =>
    rw [step_of_nil sib L P x _ d rest hx]
    simp [phi_rest, phiFrame, hx]
  | cons f r =>
    by_cases hf : isDescent f = true
    · have hfd : f = .descent := by cases f <;> simp_all [isDescent]
      subst hfd
      cases df with
      | false =>
        simp only [Get.step, hx, Bool.not_false, ↓reduceIte, kidFrames_eq]
        rw [phiStack_append]
        have hk : phiStack P x (((kidsV d).filter isContainer).map fun c => (⟨fi, false, true, [c]⟩ : Get.Frame))
            = (((kidsV d).filter isContainer).map (phiFull P r)).sum := by
          simp only [phiStack, List.map_map]
          congr 1
          apply List.map_congr_left
          intro c _
          simp [phiFrame, hx]
        rw [hk]
        simp only [phiStack, List.map_cons, List.map_nil, List.sum_cons, List.sum_nil, Nat.add_zero, phiFrame, hx,
          ↓reduceIte, Bool.false_eq_true]
        have := phiFull_unfold P r d
        omega
      | true =>
        have hrest : phiFrame P x ⟨fi, sib, cf, rest⟩ ≤ (rest.map (phiFull P r)).sum := by
          cases sib with
          | false => simp [phiFrame, hx]
          | true =>
            cases rest with
            | nil => simp [phiFrame, hx]
            | cons m ms =>
              simp only [phiFrame, hx, ↓reduceIte, List.map_cons, List.sum_cons]
              have := phiFull_ge P r m
              omega
        by_cases hr : r.isEmpty = true
        · have hr' : r = [] := by simpa using hr
          subst hr'
          simp only [Get.step, hx, Bool.not_true, Bool.false_eq_true, ↓reduceIte, List.isEmpty_nil, phi_rest]
          simp only [phiFrame, hx, ↓reduceIte] at hrest ⊢
          omega
        · have hr' : r.isEmpty = false := by simpa using hr
          obtain ⟨a, b, hab⟩ : ∃ a b, r = a :: b := by
            cases r with
            | nil => simp at hr'
            | cons a b => exact ⟨a, b, rfl⟩
          have hx1 : x.drop (fi + 1) = r := drop_succ_of x hx
          simp only [Get.step, hx, Bool.not_true, Bool.false_eq_true, ↓reduceIte, hr', List.nil_append]
          rw [phiStack_append, phi_rest]
          subst hab
          rw [phi_pushed P x (fi + 1) [d] a b hx1]
          simp only [phiFrame, hx, ↓reduceIte, List.map_cons, List.map_nil, List.sum_cons, List.sum_nil] at hrest ⊢
          omega
    · have hf' : isDescent f = false := by simpa using hf
      rw [step_of_frag sib L P x _ d rest f r hx hf', phiFrame_of_frag P x _ f r hx hf']
      by_cases hr : r.isEmpty = true
      · have hr' : r = [] := by simpa using hr
        subst hr'
        simp only [List.isEmpty_nil, ↓reduceIte, phi_rest]
        rw [phiFrame_of_frag P x _ f [] hx hf']
        simp only [List.map_cons, List.sum_cons]
        have := cost_pos P f [] d
        omega
      · have hr' : r.isEmpty = false := by simpa using hr
        obtain ⟨g, r', hgr⟩ : ∃ g r', r = g :: r' := by
          cases r with
          | nil => simp at hr'
          | cons a b => exact ⟨a, b, rfl⟩
        have hx1 : x.drop (fi + 1) = r := drop_succ_of x hx
        simp only [hr', Bool.false_eq_true, ↓reduceIte]
        rw [phiStack_append, phi_rest, phiFrame_of_frag P x _ f r hx hf']
        subst hgr
        rw [phi_pushed P x (fi + 1) _ g r' hx1]
        simp only [List.map_cons, List.sum_cons, List.map_reverse, List.sum_reverse_nat]
        rw [cost_cons P f (g :: r') d hf']
        omega

theorem step_nonempty (fr : Get.Frame) (d : JV) (rest : List JV) :
    ∀ f ∈ (Get.step sib L P x fr d rest).2, f.items ≠ [] := by
  intro f hmem
  unfold Get.step at hmem
  split at hmem
  · exact rest_nonempty _ _ _ f hmem
  · split at hmem
    · simp only [List.mem_append, List.mem_reverse, List.mem_map, List.mem_singleton] at hmem
      rcases hmem with ⟨c, _, rfl⟩ | rfl <;> simp
    · split at hmem
      · exact rest_nonempty _ _ _ f hmem
      · simp only [List.mem_append] at hmem
        rcases hmem with h | h
        · exact pushed_nonempty _ _ f h
        · exact rest_nonempty _ _ _ f h
  · split at hmem
    · exact rest_nonempty _ _ _ f hmem
    · simp only [List.mem_append] at hmem
      rcases hmem with h | h
      · exact pushed_nonempty _ _ f h
      · exact rest_nonempty _ _ _ f h

/-- the main loop with enough fuel returns the results so far followed by what the stack denotes -/
theorem run_ok : ∀ (n : Nat) (st : List Get.Frame) (acc : List JV),
    (∀ f ∈ st, f.items ≠ []) → phiStack P x st ≤ n →
    Get.run sib L P x n st acc = acc ++ denStack sib L P x st := by
  intro n
  induction n with
  | zero =>
    intro st acc hne hphi
    cases st with
    | nil => simp [Get.run, denStack]
    | cons fr t =>
      have := phiFrame_pos P x fr (hne fr (by simp))
      simp only [phiStack, List.map_cons, List.sum_cons] at hphi
      omega
  | succ n ih =>
    intro st acc hne hphi
    cases st with
    | nil => simp [Get.run, denStack]
    | cons fr t =>
      cases hit : fr.items with
      | nil => exact absurd hit (hne fr (by simp))
      | cons d rest =>
        have hrun : Get.run sib L P x (n + 1) (fr :: t) acc
            = Get.run sib L P x n ((Get.step sib L P x fr d rest).2 ++ t) (acc ++ (Get.step sib L P x fr d rest).1) := by
          simp [Get.run, hit]
        rw [hrun, ih]
        · rw [denStack_append]
          have hden := step_den sib L P x fr d rest hit
          have hcons : denStack sib L P x (fr :: t) = denFrame sib L P x fr ++ denStack sib L P x t := by
            simp [denStack]
          rw [hcons, ← hden]
          simp [List.append_assoc]
        · intro f hf
          rcases List.mem_append.mp hf with h | h
          · exact step_nonempty sib L P x fr d rest f h
          · exact hne f (List.mem_cons_of_mem _ h)
        · rw [phiStack_append]
          have h1 := step_phi sib L P x fr d rest hit
          simp only [phiStack, List.map_cons, List.sum_cons] at hphi h1 ⊢
          omega

/-- **the Get machine computes the recursive evaluation**, for every path and every value -/
theorem run_eq_denV (f : Frag) (r : List Frag) (d : JV) (n : Nat) (hn : Get.cost P (f :: r) d ≤ n) :
    Get.run sib L P (f :: r) n [⟨0, false, false, [d]⟩] [] = denV sib L P (f :: r) d := by
  rw [run_ok sib L P (f :: r) n _ [] (by simp)]
  · simp only [List.nil_append, denStack, List.flatMap_cons, List.flatMap_nil, List.append_nil]
    by_cases hf : isDescent f = true
    · have hfd : f = .descent := by cases f <;> simp_all [isDescent]
      subst hfd
      simp [denFrame, sibList_single, dFull_false]
    · rw [denFrame_of_frag sib L P (f :: r) _ f r (by simp) (by simpa using hf)]
      simp
  · simp only [phiStack, List.map_cons, List.map_nil, List.sum_cons, List.sum_nil, Nat.add_zero]
    by_cases hf : isDescent f = true
    · have hfd : f = .descent := by cases f <;> simp_all [isDescent]
      subst hfd
      simp only [phiFrame, List.drop_zero, Bool.false_eq_true, ↓reduceIte, List.map_cons, List.map_nil,
        List.sum_cons, List.sum_nil, Nat.add_zero]
      rw [← cost_descent]; exact hn
    · rw [phiFrame_of_frag P (f :: r) _ f r (by simp) (by simpa using hf)]
      simpa using hn

end

end OjgVerif.JPath
