import OjgVerif.JPath.LemmasSel
/-! # The reading the code implements against the documented slice semantics (RFC 9535 §2.3.4.2)

`sliceIdx` (what every evaluator of ojg computes, once the deviation flags are off) equals `rfcSliceIdx` for
every step ≥ 0 and, for a negative step, whenever start and end are written and the start lies in
`-n ≤ start < n`. Hence `eval = evalRfc` on paths without a negative-step slice; the remaining class is the
known finding C05-slice-negative-step. Also: every location the denotation reports is an address
(`eval_address`). -/
set_option linter.unusedSimpArgs false
namespace OjgVerif.JPath
open OjgVerif

theorem takeWhile_progression_nil (n : Nat) (a d : Int) (P : Int → Bool) (h : P a = false) :
    (progression n a d).takeWhile P = [] := by
  cases n with
  | zero => simp [progression]
  | succ m =>
    simp only [progression, List.range_succ_eq_map, List.map_cons, Int.natCast_zero, Int.zero_mul, Int.add_zero,
      List.takeWhile_cons, h]
    rfl

/-- a positive step: the code's reading is the RFC's, for every start, end and length -/
theorem sliceIdx_eq_rfc_pos (n : Nat) (s e t : Option Int) (hpos : 0 < t.getD 1) :
    sliceIdx n s e t = rfcSliceIdx n s e t := by
  rw [sliceIdx_unfold]
  unfold rfcSliceIdx
  have h0 : t.getD 1 ≠ 0 := by omega
  have hge : 0 ≤ t.getD 1 := by omega
  simp only [h0, false_or, hpos, hge, ↓reduceIte]
  have hlow : (rfcBounds (s.getD 0) (e.getD n) (t.getD 1) n).1 = min (specStart n s) n := by
    unfold rfcBounds rfcNormalize specStart
    simp only [hge, ↓reduceIte]
    (repeat' split) <;> omega
  by_cases hst : (n : Int) ≤ specStart n s
  · simp only [hst, ↓reduceIte]
    rw [hlow, takeWhile_progression_nil]
    · rfl
    · have hup : (rfcBounds (s.getD 0) (e.getD n) (t.getD 1) n).2 ≤ n := by
        unfold rfcBounds; simp only [hge, ↓reduceIte]; omega
      simp only [decide_eq_false_iff_not]; omega
  · simp only [hst, ↓reduceIte]
    have hlow' : (rfcBounds (s.getD 0) (e.getD n) (t.getD 1) n).1 = specStart n s := by rw [hlow]; omega
    have hs0 : 0 ≤ specStart n s := by rw [← nStart_eq]; exact nStart_nonneg n s
    rw [hlow']
    by_cases hlt : specStart n s < specStopUp n e
    · have hup : (rfcBounds (s.getD 0) (e.getD n) (t.getD 1) n).2 = specStopUp n e := by
        unfold rfcBounds rfcNormalize specStopUp at *
        simp only [hge, ↓reduceIte] at *
        cases e with
        | none => simp only [Option.getD_none] at *; (repeat' split) <;> omega
        | some ev => simp only [Option.getD_some] at *; (repeat' split at hlt) <;> (repeat' split) <;> omega
      rw [hup]
    · have hup : ¬ (specStart n s < (rfcBounds (s.getD 0) (e.getD n) (t.getD 1) n).2) := by
        unfold rfcBounds rfcNormalize specStopUp at *
        simp only [hge, ↓reduceIte] at *
        cases e with
        | none => simp only [Option.getD_none] at *; (repeat' split) <;> omega
        | some ev => simp only [Option.getD_some] at *; (repeat' split at hlt) <;> (repeat' split) <;> omega
      rw [takeWhile_progression_nil _ _ _ _ (by simpa using hlt),
        takeWhile_progression_nil _ _ _ _ (by simpa using hup)]

/-- a negative step, start and end written, the start inside the array (from either end): the RFC's reading -/
theorem sliceIdx_eq_rfc_neg (n : Nat) (s0 e0 : Int) (t : Option Int) (hneg : t.getD 1 < 0)
    (hlo : -(n : Int) ≤ s0) (hhi : s0 < n) :
    sliceIdx n (some s0) (some e0) t = rfcSliceIdx n (some s0) (some e0) t := by
  rw [sliceIdx_unfold]
  unfold rfcSliceIdx
  have h0 : t.getD 1 ≠ 0 := by omega
  have hge : ¬ (0 ≤ t.getD 1) := by omega
  have hpos : ¬ (0 < t.getD 1) := by omega
  have hst : ¬ ((n : Int) ≤ specStart n (some s0)) := by
    unfold specStart; simp only [Option.getD_some]; split <;> omega
  simp only [h0, false_or, hst, hpos, hge, ↓reduceIte, Option.getD_some]
  have hupper : (rfcBounds s0 e0 (t.getD 1) n).2 = specStart n (some s0) := by
    unfold rfcBounds rfcNormalize specStart
    simp only [hge, ↓reduceIte, Option.getD_some]
    (repeat' split) <;> omega
  rw [hupper]
  by_cases hlt : specStopDown n (some e0) < specStart n (some s0)
  · have hlow : (rfcBounds s0 e0 (t.getD 1) n).1 = specStopDown n (some e0) := by
      unfold rfcBounds rfcNormalize specStopDown specStart at *
      simp only [hge, ↓reduceIte, Option.getD_some] at *
      (repeat' split at hlt) <;> (repeat' split) <;> omega
    rw [hlow]
  · have hlow : ¬ ((rfcBounds s0 e0 (t.getD 1) n).1 < specStart n (some s0)) := by
      unfold rfcBounds rfcNormalize specStopDown specStart at *
      simp only [hge, ↓reduceIte, Option.getD_some] at *
      (repeat' split at hlt) <;> (repeat' split) <;> omega
    rw [takeWhile_progression_nil _ _ _ _ (by simpa using hlt),
      takeWhile_progression_nil _ _ _ _ (by simpa using hlow)]

/-- no slice with a negative step -/
def posStep : Frag → Bool
  | .slice _ _ t => decide (0 ≤ t.getD 1)
  | _ => true

theorem selRfc_eq_sel (f : Frag) (v : JV) (h : posStep f = true) : selRfc f v = sel f v := by
  cases f with
  | slice s e t =>
    have hstep : 0 ≤ t.getD 1 := by simpa [posStep] using h
    cases v with
    | arr xs =>
      simp only [selRfc, sel]
      by_cases h0 : t.getD 1 = 0
      · have h1 : sliceIdx xs.length s e t = [] := by rw [sliceIdx_unfold]; simp [h0]
        have h2 : rfcSliceIdx xs.length s e t = [] := by unfold rfcSliceIdx; simp [h0]
        rw [h1, h2]
      · rw [sliceIdx_eq_rfc_pos xs.length s e t (by omega)]
    | _ => simp [selRfc, sel]
  | _ => rfl

/-- **on a path without a negative-step slice the code's reading is the documented one** -/
theorem evalRfc_eq_eval : ∀ (x : List Frag) (v : JV), x.all posStep = true → evalRfc x v = eval x v
  | [], _, _ => rfl
  | f :: r, v, h => by
    simp only [List.all_cons, Bool.and_eq_true] at h
    simp only [evalRfc, eval, selRfc_eq_sel f v h.1]
    apply flatMap_congr'
    intro m _
    rw [evalRfc_eq_eval r m.2 h.2]

/-! ### every reported location is an address -/

/-- no member name occurs twice -/
def keysNodup : List (Bytes × JV) → Bool
  | [] => true
  | m :: r => !(r.any fun m' => m'.1 == m.1) && keysNodup r

mutual
  /-- objects have unique member names, everywhere in the value (a Go map has) -/
  def wf : JV → Bool
    | .arr xs => wfL xs
    | .obj kvs => keysNodup kvs && wfKV kvs
    | _ => true
  def wfL : List JV → Bool
    | [] => true
    | x :: r => wf x && wfL r
  def wfKV : List (Bytes × JV) → Bool
    | [] => true
    | m :: r => wf m.2 && wfKV r
end

theorem wfL_mem (xs : List JV) (h : wfL xs = true) (x : JV) (hx : x ∈ xs) : wf x = true := by
  induction xs with
  | nil => simp at hx
  | cons a t ih =>
    simp only [wfL, Bool.and_eq_true] at h
    rcases List.mem_cons.mp hx with rfl | h'
    · exact h.1
    · exact ih h.2 h'

theorem wfKV_mem (kvs : List (Bytes × JV)) (h : wfKV kvs = true) (m : Bytes × JV) (hm : m ∈ kvs) : wf m.2 = true := by
  induction kvs with
  | nil => simp at hm
  | cons a t ih =>
    simp only [wfKV, Bool.and_eq_true] at h
    rcases List.mem_cons.mp hm with rfl | h'
    · exact h.1
    · exact ih h.2 h'

theorem lookup_of_mem (kvs : List (Bytes × JV)) (h : keysNodup kvs = true) (m : Bytes × JV) (hm : m ∈ kvs) :
    lookup m.1 kvs = some m.2 := by
  induction kvs with
  | nil => simp at hm
  | cons a t ih =>
    simp only [keysNodup, Bool.and_eq_true, Bool.not_eq_true', List.any_eq_false, beq_iff_eq] at h
    rcases List.mem_cons.mp hm with rfl | h'
    · simp [lookup]
    · have hne : ¬ a.1 = m.1 := fun he => h.1 m h' he.symm
      simp only [lookup, hne, ↓reduceIte]
      exact ih h.2 h'

/-- one step of a location addresses the member -/
def Step (v : JV) (l : Loc) (c : JV) : Prop := sel l.toFrag v = [([l], c)]

theorem step_idx (xs : List JV) (j : Nat) (x : JV) (h : xs[j]? = some x) : Step (.arr xs) (.idx j) x := by
  have hlt : j < xs.length := by
    rcases Nat.lt_or_ge j xs.length with h' | h'
    · exact h'
    · rw [List.getElem?_eq_none h'] at h; cases h
  have hneg : ¬ ((j : Int) < 0) := by omega
  obtain ⟨_, hx⟩ := List.getElem?_eq_some_iff.mp h
  simp [Step, Loc.toFrag, sel, selMember, absIdx, hneg, hlt, hx]

theorem step_key (kvs : List (Bytes × JV)) (k : Bytes) (c : JV) (h : lookup k kvs = some c) :
    Step (.obj kvs) (.key k) c := by
  simp [Step, Loc.toFrag, sel, selMember, h]

theorem eval_of_step (v : JV) (l : Loc) (c : JV) (h : Step v l c) (q : Path) :
    eval ((l :: q).map Loc.toFrag) v = pre [l] (eval (q.map Loc.toFrag) c) := by
  unfold Step at h
  simp only [List.map_cons, eval, h, List.flatMap_cons, List.flatMap_nil, List.append_nil, pre]

/-- `p` leads from `v` to `c` and to nothing else -/
def Addr (v : JV) (p : Path) (c : JV) : Prop := eval (p.map Loc.toFrag) v = [(p, c)]

theorem addr_nil (v : JV) : Addr v [] v := by simp [Addr, eval]

theorem addr_cons (v : JV) (l : Loc) (c : JV) (h : Step v l c) (q : Path) (z : JV) (hq : Addr c q z) :
    Addr v (l :: q) z := by
  unfold Addr at *
  rw [eval_of_step v l c h q, hq]
  simp [pre]

theorem elemsFrom_get (xs : List JV) (i : Nat) (m : Path × JV) (h : m ∈ elemsFrom i xs) :
    ∃ k, xs[k]? = some m.2 ∧ m.1 = [Loc.idx (i + k)] := by
  induction xs generalizing i with
  | nil => simp [elemsFrom] at h
  | cons a t ih =>
    simp only [elemsFrom, List.mem_cons] at h
    rcases h with rfl | h
    · exact ⟨0, by simp, by simp⟩
    · obtain ⟨k, hk, hp⟩ := ih (i + 1) h
      exact ⟨k + 1, by simpa using hk, by rw [hp]; congr 2; omega⟩

/-- a member of a well-formed container is addressed by its one-step location -/
theorem members_step (v : JV) (hv : wf v = true) (m : Path × JV) (h : m ∈ members v) :
    ∃ l, m.1 = [l] ∧ Step v l m.2 ∧ wf m.2 = true := by
  cases v with
  | arr xs =>
    obtain ⟨k, hk, hp⟩ := elemsFrom_get xs 0 m h
    refine ⟨.idx k, by simpa using hp, step_idx xs k m.2 hk, ?_⟩
    exact wfL_mem xs (by simpa [wf] using hv) m.2 (List.mem_of_getElem? hk)
  | obj kvs =>
    simp only [wf, Bool.and_eq_true] at hv
    simp only [members, List.mem_map] at h
    obtain ⟨kv, hkv, rfl⟩ := h
    exact ⟨.key kv.1, rfl, step_key kvs kv.1 kv.2 (lookup_of_mem kvs hv.1 kv hkv), wfKV_mem kvs hv.2 kv hkv⟩
  | _ => simp [members] at h

theorem lookup_mem (k : Bytes) (kvs : List (Bytes × JV)) (c : JV) (h : lookup k kvs = some c) : ∃ m ∈ kvs, m.2 = c := by
  induction kvs with
  | nil => simp [lookup] at h
  | cons a t ih =>
    simp only [lookup] at h
    split at h
    · exact ⟨a, by simp, by simpa using h⟩
    · obtain ⟨m, hm, he⟩ := ih h
      exact ⟨m, List.mem_cons_of_mem _ hm, he⟩

theorem selMember_step (v : JV) (hv : wf v = true) (mb : Member) (m : Path × JV) (h : m ∈ selMember v mb) :
    ∃ l, m.1 = [l] ∧ Step v l m.2 ∧ wf m.2 = true := by
  cases mb with
  | key k =>
    cases v with
    | obj kvs =>
      simp only [selMember, List.mem_map, Option.mem_toList] at h
      obtain ⟨c, hc, rfl⟩ := h
      simp only [wf, Bool.and_eq_true] at hv
      obtain ⟨kv, hkv, he⟩ := lookup_mem k kvs c hc
      exact ⟨.key k, rfl, step_key kvs k c hc, he ▸ wfKV_mem kvs hv.2 kv hkv⟩
    | _ => simp [selMember] at h
  | idx i =>
    cases v with
    | arr xs =>
      simp only [selMember] at h
      split at h
      · simp only [List.mem_map, Option.mem_toList] at h
        obtain ⟨c, hc, rfl⟩ := h
        exact ⟨.idx _, rfl, step_idx xs _ c hc, wfL_mem xs (by simpa [wf] using hv) c (List.mem_of_getElem? hc)⟩
      · simp at h
    | _ => simp [selMember] at h

mutual
theorem desc_addr : ∀ (v : JV), wf v = true → ∀ m ∈ desc v, Addr v m.1 m.2 ∧ wf m.2 = true
  | .arr xs, hv, m, h => by
    simp only [desc, List.mem_append, List.mem_singleton] at h
    rcases h with h | rfl
    · obtain ⟨k, x, q, hk, rfl, hq, hw⟩ := descArr_addr xs (by simpa [wf] using hv) 0 m h
      simp only [Nat.zero_add, pfx_fst, pfx_snd]
      exact ⟨addr_cons _ _ x (step_idx xs k x hk) q.1 q.2 hq, hw⟩
    · exact ⟨addr_nil _, hv⟩
  | .obj kvs, hv, m, h => by
    simp only [desc, List.mem_append, List.mem_singleton] at h
    rcases h with h | rfl
    · have hv' := hv
      simp only [wf, Bool.and_eq_true] at hv'
      obtain ⟨kv, q, hkv, rfl, hq, hw⟩ := descObj_addr kvs hv'.2 m h
      simp only [pfx_fst, pfx_snd]
      exact ⟨addr_cons _ _ kv.2 (step_key kvs kv.1 kv.2 (lookup_of_mem kvs hv'.1 kv hkv)) q.1 q.2 hq, hw⟩
    · exact ⟨addr_nil _, hv⟩
  | .null, hv, m, h => by simp [desc] at h; subst h; exact ⟨addr_nil _, hv⟩
  | .bool _, hv, m, h => by simp [desc] at h; subst h; exact ⟨addr_nil _, hv⟩
  | .int _, hv, m, h => by simp [desc] at h; subst h; exact ⟨addr_nil _, hv⟩
  | .flt _, hv, m, h => by simp [desc] at h; subst h; exact ⟨addr_nil _, hv⟩
  | .big _, hv, m, h => by simp [desc] at h; subst h; exact ⟨addr_nil _, hv⟩
  | .num _, hv, m, h => by simp [desc] at h; subst h; exact ⟨addr_nil _, hv⟩
  | .str _, hv, m, h => by simp [desc] at h; subst h; exact ⟨addr_nil _, hv⟩
theorem descArr_addr : ∀ (xs : List JV), wfL xs = true → ∀ (i : Nat) (m : Path × JV), m ∈ descArr i xs →
    ∃ k x q, xs[k]? = some x ∧ m = pfx (.idx (i + k)) q ∧ Addr x q.1 q.2 ∧ wf q.2 = true
  | [], _, i, m, h => by simp [descArr] at h
  | x :: r, hv, i, m, h => by
    simp only [wfL, Bool.and_eq_true] at hv
    simp only [descArr, List.mem_append, List.mem_map] at h
    rcases h with ⟨q, hq, rfl⟩ | h
    · have := desc_addr x hv.1 q hq
      exact ⟨0, x, q, by simp, by simp, this.1, this.2⟩
    · obtain ⟨k, y, q, hk, rfl, hq, hw⟩ := descArr_addr r hv.2 (i + 1) m h
      exact ⟨k + 1, y, q, by simpa using hk, by congr 2; omega, hq, hw⟩
theorem descObj_addr : ∀ (kvs : List (Bytes × JV)), wfKV kvs = true → ∀ (m : Path × JV), m ∈ descObj kvs →
    ∃ kv q, kv ∈ kvs ∧ m = pfx (.key kv.1) q ∧ Addr kv.2 q.1 q.2 ∧ wf q.2 = true
  | [], _, m, h => by simp [descObj] at h
  | a :: r, hv, m, h => by
    simp only [wfKV, Bool.and_eq_true] at hv
    simp only [descObj, List.mem_append, List.mem_map] at h
    rcases h with ⟨q, hq, rfl⟩ | h
    · have := desc_addr a.2 hv.1 q hq
      exact ⟨a, q, by simp, rfl, this.1, this.2⟩
    · obtain ⟨kv, q, hkv, rfl, hq, hw⟩ := descObj_addr r hv.2 m h
      exact ⟨kv, q, List.mem_cons_of_mem _ hkv, rfl, hq, hw⟩
end

/-- whatever a fragment selects is addressed by its location -/
theorem sel_addr (f : Frag) (v : JV) (hv : wf v = true) (m : Path × JV) (h : m ∈ sel f v) :
    Addr v m.1 m.2 ∧ wf m.2 = true := by
  have one : (∃ l, m.1 = [l] ∧ Step v l m.2 ∧ wf m.2 = true) → Addr v m.1 m.2 ∧ wf m.2 = true := by
    rintro ⟨l, hp, hs, hw⟩
    rw [hp]
    exact ⟨addr_cons v l m.2 hs [] m.2 (addr_nil _), hw⟩
  cases f with
  | child k => exact one (selMember_step v hv (.key k) m (by simpa [sel] using h))
  | nth i => exact one (selMember_step v hv (.idx i) m (by simpa [sel] using h))
  | wild => exact one (members_step v hv m h)
  | descent => exact desc_addr v hv m h
  | union ms =>
    simp only [sel, List.mem_flatMap] at h
    obtain ⟨mb, _, hm⟩ := h
    exact one (selMember_step v hv mb m hm)
  | slice s e t =>
    cases v with
    | arr xs =>
      simp only [sel, List.mem_flatMap, List.mem_map, Option.mem_toList] at h
      obtain ⟨j, _, c, hc, rfl⟩ := h
      exact one ⟨.idx j, rfl, step_idx xs j c hc, wfL_mem xs (by simpa [wf] using hv) c (List.mem_of_getElem? hc)⟩
    | _ => simp [sel] at h
  | filter p =>
    simp only [sel, List.mem_filter] at h
    exact one (members_step v hv m h.1)

theorem pre_nil (l : List (Path × JV)) : pre [] l = l := by simp [pre]

theorem pre_pre (p q : Path) (l : List (Path × JV)) : pre p (pre q l) = pre (p ++ q) l := by
  simp [pre, List.append_assoc]

theorem pre_flatMap (p : Path) (l : List (Path × JV)) (E : JV → List (Path × JV)) :
    (pre p l).flatMap (fun n => pre n.1 (E n.2)) = pre p (l.flatMap fun n => pre n.1 (E n.2)) := by
  induction l with
  | nil => simp [pre]
  | cons a t ih =>
    have h1 : pre p (a :: t) = (p ++ a.1, a.2) :: pre p t := by simp [pre]
    have h2 : ∀ (x y : List (Path × JV)), pre p (x ++ y) = pre p x ++ pre p y := by intro x y; simp [pre]
    rw [h1, List.flatMap_cons, List.flatMap_cons, h2, ih, pre_pre]

/-- a path in two parts is evaluated in two parts -/
theorem eval_append : ∀ (a b : List Frag) (v : JV),
    eval (a ++ b) v = (eval a v).flatMap fun m => pre m.1 (eval b m.2)
  | [], b, v => by simp [eval, pre_nil]
  | f :: t, b, v => by
    have hfun : ∀ m : Path × JV, (eval (t ++ b) m.2).map (fun q => (m.1 ++ q.1, q.2))
        = (pre m.1 (eval t m.2)).flatMap fun n => pre n.1 (eval b n.2) := by
      intro m
      rw [eval_append t b m.2, pre_flatMap]
      rfl
    simp only [List.cons_append, eval, List.flatMap_assoc]
    apply flatMap_congr'
    intro m _
    exact hfun m

theorem addr_append (v : JV) (p : Path) (c : JV) (h : Addr v p c) (q : Path) (z : JV) (hq : Addr c q z) :
    Addr v (p ++ q) z := by
  unfold Addr at *
  rw [List.map_append, eval_append, h]
  simp [hq, pre]

/-- **every location the denotation reports is an address**: evaluating the normalized path of a selected
element (member names and absolute indexes as `child`/`nth` fragments) on the same data yields exactly that
element, at that location (objects with unique member names) -/
theorem eval_address : ∀ (x : List Frag) (v : JV), wf v = true → ∀ m ∈ eval x v, Addr v m.1 m.2 ∧ wf m.2 = true
  | [], v, hv, m, h => by
    simp [eval] at h; subst h; exact ⟨addr_nil _, hv⟩
  | f :: r, v, hv, m, h => by
    simp only [eval, List.mem_flatMap, List.mem_map] at h
    obtain ⟨a, ha, q, hq, rfl⟩ := h
    have h1 := sel_addr f v hv a ha
    have h2 := eval_address r a.2 h1.2 q hq
    exact ⟨addr_append v a.1 a.2 h1.1 q.1 q.2 h2.1, h2.2⟩


theorem toFrag_not_descent (p : Path) : endsInDescent (p.map Loc.toFrag) = false := by
  induction p with
  | nil => rfl
  | cons l t ih =>
    cases t with
    | nil => cases l <;> rfl
    | cons l' t' => simpa [endsInDescent] using ih


end OjgVerif.JPath
