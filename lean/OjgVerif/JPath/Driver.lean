import OjgVerif.Common.Driver
import OjgVerif.JPath.Model
import OjgVerif.JPath.Machines
import OjgVerif.JPath.FilterSpec
/-! Driver ops of the JSONPath family (C05, C11).

Request: `<op> <rep> <flags> <path> <data>` (tab separated)
* op: `specrfc` (the documented denotation: RFC 9535 slices), `spec` (the denotation in the code's reading of slices), `get` (the Get machine), `gets` (Get through the skeleton, with
  locations), `first`, `has`, `locate`, `walk`, `nodes`, `firstnode` (the skeleton models); `firstm`, `hasm` (the
  FirstFound and Has work-list machines of JPath/Machines.lean), `nodesm`, `firstnodem` (the GetNodes and FirstNode machines), `locatem`, `walkm` (the recursive locate/Walk
  methods of JPath/Machines.lean, no budget), `locatemax<k>` (Locate with the budget `max = k`)
* rep: `<array kind>.<object kind>`, e.g. `any.map`, `gen.gen`, `indexed.keyed`, `rslice.struct`
* flags: the deviation flags that are on, one letter each (`-` = none):
  `e` innerEmptySlice, `s` descentSiblings, `n` locNegEnd, `c` locStartClamp, `y` locEmptyArray, `o` locateRoot, `w` walkDescentNoSelf, `u` nodesUnionNil,
  `r` nodesFilterRev, `l` firstNodeLast, `z` nodesFilterNull, `m` typedMapWild, `t` typedObjFilter, `f` firstTypedSlice,
  `g` firstTypedWildOne, `h` hasTypedMap, `d` hasTypedDescent, `a` walkTypedArray; `P` = the pinned configuration (op `pinned` answers its letters)
* path: fragments separated by `/` (`-` = the empty path): `c:<hex key>`, `n:<int>`, `w`, `d`,
  `u:<member>,…` with members `k<hex>` / `i<int>`, `s:<start>:<end>:<step>` (`_` = absent),
  `q:<script>` = a filter; the script travels in postfix token form (tokens separated by one space) and its
  truth value is computed by `FilterSpec.matches` (the documented semantics), never by the implementation:
    values `n` `t` `f` `i<int>` `d<m>:<e>` (m·2^e) `dinf` `d-inf` `dnan` `s<hex>`, then `k` = constant of the value below;
    path   `@` starts a path, `.c<hex>` `.n<int>` `.w` `.d` `.u<members>` `.s<start>:<end>:<step>` append a fragment,
           `.q` appends a nested filter whose script is the tree on top, `p` = path operand;
    `u<op>` / `b<op>` apply an operator (names of `Script.Op`) to the one / two trees below.
  (`f:<canonical value>|…`, a filter given by the values it is true on, is still read: old replays)
* data: canonical text (the format of `JV.render` / `lib.Render`)
Answers: values separated by `;`, located values as `<path>=<value>` with path steps `k<hex>`/`i<n>`
joined by `.` (`-` = the empty path). -/
namespace OjgVerif.JPath
open OjgVerif

/-! ### canonical text → JV -/

def takeParen (cs : List Char) : Option (String × List Char) :=
  match cs with
  | '(' :: r =>
    let body := r.takeWhile (· ≠ ')')
    match r.dropWhile (· ≠ ')') with
    | ')' :: rest => some (String.ofList body, rest)
    | _ => none
  | _ => none

def parseElems (pv : List Char → Option (JV × List Char)) : Nat → List Char → Option (List JV × List Char)
  | 0, _ => none
  | f + 1, cs =>
    match pv cs with
    | none => none
    | some (v, r) =>
      match r with
      | ',' :: r' =>
        match parseElems pv f r' with
        | some (vs, r'') => some (v :: vs, r'')
        | none => none
      | ']' :: r' => some ([v], r')
      | _ => none

def parseMembers (pv : List Char → Option (JV × List Char)) : Nat → List Char → Option (List (Bytes × JV) × List Char)
  | 0, _ => none
  | f + 1, cs =>
    match cs with
    | 'K' :: r =>
      match takeParen r with
      | none => none
      | some (hx, r1) =>
        match ofHex hx, pv r1 with
        | some k, some (v, r2) =>
          match r2 with
          | ',' :: r3 =>
            match parseMembers pv f r3 with
            | some (ms, r4) => some ((k, v) :: ms, r4)
            | none => none
          | '}' :: r3 => some ([(k, v)], r3)
          | _ => none
        | _, _ => none
    | _ => none

def parseValue : Nat → List Char → Option (JV × List Char)
  | 0, _ => none
  | f + 1, cs =>
    match cs with
    | 'n' :: r => some (.null, r)
    | 't' :: r => some (.bool true, r)
    | 'f' :: r => some (.bool false, r)
    | 'I' :: r =>
      match takeParen r with
      | some (t, r') => (t.toInt?).map fun i => (.int i, r')
      | none => none
    | 'F' :: r =>
      match takeParen r with
      | some (t, r') => (ofHex t).map fun b => (.flt b, r')
      | none => none
    | 'B' :: r =>
      match takeParen r with
      | some (t, r') => (ofHex t).map fun b => (.big b, r')
      | none => none
    | 'S' :: r =>
      match takeParen r with
      | some (t, r') => (ofHex t).map fun b => (.str b, r')
      | none => none
    | '[' :: ']' :: r => some (.arr [], r)
    | '[' :: r =>
      match parseElems (parseValue f) (r.length + 1) r with
      | some (vs, r') => some (.arr vs, r')
      | none => none
    | '{' :: '}' :: r => some (.obj [], r)
    | '{' :: r =>
      match parseMembers (parseValue f) (r.length + 1) r with
      | some (ms, r') => some (.obj ms, r')
      | none => none
    | _ => none

def parseJV (s : String) : Option JV :=
  let cs := s.toList
  match parseValue (cs.length + 1) cs with
  | some (v, []) => some v
  | _ => none

/-! ### path text → fragments -/

def parseOptInt (s : String) : Option (Option Int) :=
  if s = "_" then some none else s.toInt?.map some

def parseMember (s : String) : Option Member :=
  match s.toList with
  | 'k' :: r => (ofHex (String.ofList r)).map Member.key
  | 'i' :: r => (String.ofList r).toInt?.map Member.idx
  | _ => none

/-! ### filter scripts in postfix token form -/

inductive Cell where
  | v (x : Script.Val)
  | t (x : FilterSpec.STm)
  | p (fromRoot : Bool) (fs : JV → List Frag)   -- a path operand being read: `@`/`$`, fragments given the root nested filters see
  | bad

def opOfName (s : String) : Option Script.Op :=
  match s with
  | "eq" => some .eq | "neq" => some .neq | "lt" => some .lt | "gt" => some .gt
  | "lte" => some .lte | "gte" => some .gte | "or" => some .or | "and" => some .and
  | "not" => some .not | "exists" => some .exists | "has" => some .has | "count" => some .count
  | "length" => some .length | "in" => some .in | "empty" => some .empty
  | "add" => some .add | "sub" => some .sub | "mult" => some .mult | "divide" => some .divide
  | _ => none

def parseFlt (s : String) : Option Script.Flt :=
  if s = "inf" then some (.inf false)
  else if s = "-inf" then some (.inf true)
  else if s = "nan" then some .nan
  else match s.splitOn ":" with
    | [m, e] => match m.toInt?, e.toInt? with
      | some m, some e => some (.fin m e)
      | _, _ => none
    | _ => none

/-- no regular expressions in the scripts of this family -/
def noRx : Script.RxEngine := fun _ _ => none

def pathFragTok (nest : Bool) (rest : String) (st : List Cell) : List Cell :=
  -- `rest` is the token without its leading dot
  let arg := (rest.drop 1).toString
  let app := fun (f : Frag) => match st with
    | .p b fs :: st' => Cell.p b (fun r => fs r ++ [f]) :: st'
    | _ => [Cell.bad]
  if rest = "w" then app .wild
  else if rest = "d" then app .descent
  else if rest = "q" then
    match st with
    | .t x :: .p b fs :: st' => .p b (fun r => fs r ++ [FilterSpec.filterOf noRx nest (some r) x]) :: st'
    | _ => [.bad]
  else if rest.startsWith "c" then
    match ofHex arg with
    | some k => app (.child k)
    | none => [.bad]
  else if rest.startsWith "n" then
    match arg.toInt? with
    | some i => app (.nth i)
    | none => [.bad]
  else if rest.startsWith "u" then
    match (arg.splitOn ",").mapM parseMember with
    | some ms => app (.union ms)
    | none => [.bad]
  else if rest.startsWith "s" then
    match arg.splitOn ":" with
    | [a, b, c] =>
      match parseOptInt a, parseOptInt b, parseOptInt c with
      | some a, some b, some c => app (.slice a b c)
      | _, _, _ => [.bad]
    | _ => [.bad]
  else [.bad]

def stepTok (nest : Bool) (st : List Cell) (tok : String) : List Cell :=
  let rest := (tok.drop 1).toString
  if tok = "n" then .v .null :: st
  else if tok = "t" then .v (.bool true) :: st
  else if tok = "f" then .v (.bool false) :: st
  else if tok = "k" then
    match st with
    | .v x :: st' => .t (.const x) :: st'
    | _ => [.bad]
  else if tok = "@" then .p false (fun _ => []) :: st
  else if tok = "$" then .p true (fun _ => []) :: st
  else if tok = "p" then
    match st with
    | .p b fs :: st' => .t (.path b fs) :: st'
    | _ => [.bad]
  else if tok.startsWith "." then pathFragTok nest rest st
  else if tok.startsWith "i" then
    match rest.toInt? with
    | some i => .v (.int i) :: st
    | none => [.bad]
  else if tok.startsWith "d" then
    match parseFlt rest with
    | some f => .v (.flt f) :: st
    | none => [.bad]
  else if tok.startsWith "s" then
    match ofHex rest with
    | some b => .v (.str b) :: st
    | none => [.bad]
  else if tok.startsWith "u" then
    match opOfName rest, st with
    | some o, .t a :: st' => .t (.app1 o a) :: st'
    | _, _ => [.bad]
  else if tok.startsWith "b" then
    match opOfName rest, st with
    | some o, .t b :: .t a :: st' => .t (.app2 o a b) :: st'
    | _, _ => [.bad]
  else [.bad]

def parseScript (nest : Bool) (s : String) : Option FilterSpec.STm :=
  match (s.splitOn " ").foldl (fun (st : List Cell) tok => match st with | [Cell.bad] => [Cell.bad] | _ => stepTok nest st tok) [] with
  | [Cell.t x] => some x
  | _ => none

/-- `nest`, `root`: how the scripts of the path's filters are bound (see `FilterSpec`); `root = none`: every
tested element is its own root -/
def parseFrag (nest : Bool) (root : Option JV) (s : String) : Option Frag :=
  if s = "w" then some .wild
  else if s = "d" then some .descent
  else if s.startsWith "q:" then (parseScript nest (s.drop 2).toString).map (FilterSpec.filterOf noRx nest root)
  else
    match s.splitOn ":" with
    | ["c", hx] => (ofHex hx).map Frag.child
    | ["n", i] => i.toInt?.map Frag.nth
    | ["u", ms] => ((ms.splitOn ",").mapM parseMember).map Frag.union
    | ["s", a, b, c] =>
      match parseOptInt a, parseOptInt b, parseOptInt c with
      | some a, some b, some c => some (.slice a b c)
      | _, _, _ => none
    | ["f", ts] =>
      let trues := if ts = "" then [] else ts.splitOn "|"
      some (.filter fun v => trues.contains v.render)
    | _ => none

def parsePath (nest : Bool) (root : Option JV) (s : String) : Option (List Frag) :=
  if s = "-" then some [] else (s.splitOn "/").mapM (parseFrag nest root)

def parseAK (s : String) : Option AK :=
  if s = "any" then some .any else if s = "gen" then some .gen else if s = "indexed" then some .indexed
  else if s = "rslice" then some .rslice else if s = "rarray" then some .rarray else none

def parseOK (s : String) : Option OKind :=
  if s = "map" then some .map else if s = "gen" then some .gen else if s = "keyed" then some .keyed
  else if s = "struct" then some .struct else if s = "rmap" then some .rmap else none

def parseRep (s : String) : Option Rep :=
  match s.splitOn "." with
  | [a, o] =>
    match parseAK a, parseOK o with
    | some a, some o => some ⟨a, o⟩
    | _, _ => none
  | _ => none

def parseCfg (s : String) : Option Cfg :=
  if s = "P" then some Cfg.pinned
  else if s = "-" then some Cfg.fixed
  else if s.toList.all fun c => "esncyowurlzmtfghdakpq".toList.contains c then
    some { innerEmptySlice := s.contains 'e', descentSiblings := s.contains 's', locNegEnd := s.contains 'n', locStartClamp := s.contains 'c', locEmptyArray := s.contains 'y', locateRoot := s.contains 'o',
           walkDescentNoSelf := s.contains 'w', nodesUnionNil := s.contains 'u', nodesFilterRev := s.contains 'r',
           firstNodeLast := s.contains 'l', nodesFilterNull := s.contains 'z', typedMapWild := s.contains 'm',
           typedObjFilter := s.contains 't', firstTypedSlice := s.contains 'f', firstTypedWildOne := s.contains 'g',
           hasTypedMap := s.contains 'h', hasTypedDescent := s.contains 'd', walkTypedArray := s.contains 'a',
           nestedFilterRoot := s.contains 'k', locFilterRootNil := s.contains 'p', walkFilterRootSelf := s.contains 'q' }
  else none

/-! ### answers -/

def renderLoc : Loc → String
  | .key k => "k" ++ toHexF k
  | .idx i => "i" ++ toString i

def renderPath (p : Path) : String :=
  if p.isEmpty then "-" else String.intercalate "." (p.map renderLoc)

def renderVals (vs : List JV) : String := String.intercalate ";" (vs.map JV.render)

def renderLocated (ms : List (Path × JV)) : String :=
  String.intercalate ";" (ms.map fun m => renderPath m.1 ++ "=" ++ m.2.render)

def renderOpt : Option JV → String
  | none => "none"
  | some v => "some " ++ v.render

def answer (op : String) (cfg : Cfg) (rep : Rep) (x : List Frag) (d : JV) : String :=
  if op = "spec" then renderLocated (eval x d)
  else if op = "specrfc" then renderLocated (evalRfc x d)
  else if op = "get" then renderVals (getM cfg rep x d)
  else if op = "gets" then renderLocated (getS cfg rep x d)
  else if op = "first" then renderOpt (firstM cfg rep x d)
  else if op = "has" then toString (hasM cfg rep x d)
  else if op = "nodesm" then renderVals (nodesMach cfg x d)
  else if op = "firstnodem" then renderOpt (firstNodeMach cfg x d)
  else if op = "firstm" then renderOpt (firstMach cfg rep x d)
  else if op = "hasm" then toString (hasMach cfg rep x d)
  else if op = "locatem" then (if Locate.fault cfg rep x d then "panic" else renderLocated (locateRec cfg rep x 0 d))
  else if op = "walkm" then renderLocated (walkRecM cfg rep x d)
  else if op.startsWith "locatemax" then
    -- `Locate(data, max)` with a budget; the fault model is for max = 0 only (a budget may stop the loop early)
    match (op.drop 9).toString.toInt? with
    | some k => (if Locate.fault cfg rep x d then "skip" else renderLocated (locateRec cfg rep x k d))
    | none => "bad-op"
  else if op = "locate" then (if Locate.fault cfg rep x d then "panic" else renderLocated (locateM cfg rep x d))
  else if op = "walk" then renderLocated (walkM cfg rep x d)
  else if op = "nodes" then renderVals (nodesM cfg x d)
  else if op = "firstnode" then renderOpt (firstNodeM cfg x d)
  else "bad-op"

/-- the letters of the flags that are on -/
def cfgLetters (c : Cfg) : String :=
  String.ofList ([('e', c.innerEmptySlice), ('s', c.descentSiblings), ('n', c.locNegEnd), ('c', c.locStartClamp),
    ('y', c.locEmptyArray), ('o', c.locateRoot), ('w', c.walkDescentNoSelf), ('u', c.nodesUnionNil),
    ('r', c.nodesFilterRev), ('l', c.firstNodeLast), ('z', c.nodesFilterNull), ('m', c.typedMapWild),
    ('t', c.typedObjFilter), ('f', c.firstTypedSlice), ('g', c.firstTypedWildOne), ('h', c.hasTypedMap),
    ('d', c.hasTypedDescent), ('a', c.walkTypedArray), ('k', c.nestedFilterRoot), ('p', c.locFilterRootNil),
    ('q', c.walkFilterRootSelf)].filter (·.2) |>.map (·.1))

/-- the root the scripts of a query on `d` see in an evaluator (`none`: each tested element itself). The
specification ops: the query argument. -/
def rootFor (cfg : Cfg) (op : String) (d : JV) : Option JV :=
  if op.startsWith "locate" && cfg.locFilterRootNil then some .null
  else if op.startsWith "walk" && cfg.walkFilterRootSelf then none
  else some d

def handle : List String → String
  | ["pinned"] => cfgLetters Cfg.pinned    -- the harness asks which deviations the model of the current code has
  | [op, rep, flags, path, data] =>
    match parseRep rep, parseCfg flags, parseJV data with
    | some rep, some cfg, some d =>
      let isSpec := op = "spec" || op = "specrfc"
      match parsePath (!isSpec && cfg.nestedFilterRoot) (if isSpec then some d else rootFor cfg op d) path with
      | some x => answer op cfg rep x d
      | none => "bad-op"
    | _, _, _ => "bad-op"
  | _ => "bad-op"

end OjgVerif.JPath
