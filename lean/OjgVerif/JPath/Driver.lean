import OjgVerif.Common.Driver
import OjgVerif.JPath.Model
/-! Driver ops of the JSONPath family (C05, C11).

Request: `<op> <rep> <flags> <path> <data>` (tab separated)
* op: `spec` (the denotation), `get` (the Get machine), `gets` (Get through the skeleton, with
  locations), `first`, `has`, `locate`, `walk`, `nodes`, `firstnode`
* rep: `<array kind>.<object kind>`, e.g. `any.map`, `gen.gen`, `indexed.keyed`, `rslice.struct`
* flags: the deviation flags that are on, one letter each (`-` = none):
  `e` innerEmptySlice, `s` descentSiblings, `n` locNegEnd, `c` locStartClamp, `y` locEmptyArray, `o` locateRoot, `w` walkDescentNoSelf, `u` nodesUnionNil,
  `r` nodesFilterRev, `l` firstNodeLast, `z` nodesFilterNull, `m` typedMapWild, `t` typedObjFilter, `f` firstTypedSlice,
  `g` firstTypedWildOne, `h` hasTypedMap, `d` hasTypedDescent, `a` walkTypedArray; `P` = the pinned configuration (op `pinned` answers its letters)
* path: fragments separated by `/` (`-` = the empty path): `c:<hex key>`, `n:<int>`, `w`, `d`,
  `u:<member>,…` with members `k<hex>` / `i<int>`, `s:<start>:<end>:<step>` (`_` = absent),
  `f:<canonical value>|…` = a filter whose script is true exactly on the listed values
* data: canonical text (the format of `JV.render` / `lib.Render`)
Answers: values separated by `;`, located values as `<path>=<value>` with path steps `k<hex>`/`i<n>`
joined by `.` (`-` = the empty path). -/
namespace OjgVerif.JPath
open OjgVerif

/-! ### canonical text → JV -/

def takeParen (cs : List Char) : Option (String × List Char) :=
  match cs with
  | '(' :: r =>
    let body := r.takeWhile (· ≠ ')')
    match r.dropWhile (· ≠ ')') with
    | ')' :: rest => some (String.ofList body, rest)
    | _ => none
  | _ => none

def parseElems (pv : List Char → Option (JV × List Char)) : Nat → List Char → Option (List JV × List Char)
  | 0, _ => none
  | f + 1, cs =>
    match pv cs with
    | none => none
    | some (v, r) =>
      match r with
      | ',' :: r' =>
        match parseElems pv f r' with
        | some (vs, r'') => some (v :: vs, r'')
        | none => none
      | ']' :: r' => some ([v], r')
      | _ => none

def parseMembers (pv : List Char → Option (JV × List Char)) : Nat → List Char → Option (List (Bytes × JV) × List Char)
  | 0, _ => none
  | f + 1, cs =>
    match cs with
    | 'K' :: r =>
      match takeParen r with
      | none => none
      | some (hx, r1) =>
        match ofHex hx, pv r1 with
        | some k, some (v, r2) =>
          match r2 with
          | ',' :: r3 =>
            match parseMembers pv f r3 with
            | some (ms, r4) => some ((k, v) :: ms, r4)
            | none => none
          | '}' :: r3 => some ([(k, v)], r3)
          | _ => none
        | _, _ => none
    | _ => none

def parseValue : Nat → List Char → Option (JV × List Char)
  | 0, _ => none
  | f + 1, cs =>
    match cs with
    | 'n' :: r => some (.null, r)
    | 't' :: r => some (.bool true, r)
    | 'f' :: r => some (.bool false, r)
    | 'I' :: r =>
      match takeParen r with
      | some (t, r') => (t.toInt?).map fun i => (.int i, r')
      | none => none
    | 'F' :: r =>
      match takeParen r with
      | some (t, r') => (ofHex t).map fun b => (.flt b, r')
      | none => none
    | 'B' :: r =>
      match takeParen r with
      | some (t, r') => (ofHex t).map fun b => (.big b, r')
      | none => none
    | 'S' :: r =>
      match takeParen r with
      | some (t, r') => (ofHex t).map fun b => (.str b, r')
      | none => none
    | '[' :: ']' :: r => some (.arr [], r)
    | '[' :: r =>
      match parseElems (parseValue f) (r.length + 1) r with
      | some (vs, r') => some (.arr vs, r')
      | none => none
    | '{' :: '}' :: r => some (.obj [], r)
    | '{' :: r =>
      match parseMembers (parseValue f) (r.length + 1) r with
      | some (ms, r') => some (.obj ms, r')
      | none => none
    | _ => none

def parseJV (s : String) : Option JV :=
  let cs := s.toList
  match parseValue (cs.length + 1) cs with
  | some (v, []) => some v
  | _ => none

/-! ### path text → fragments -/

def parseOptInt (s : String) : Option (Option Int) :=
  if s = "_" then some none else s.toInt?.map some

def parseMember (s : String) : Option Member :=
  match s.toList with
  | 'k' :: r => (ofHex (String.ofList r)).map Member.key
  | 'i' :: r => (String.ofList r).toInt?.map Member.idx
  | _ => none

def parseFrag (s : String) : Option Frag :=
  if s = "w" then some .wild
  else if s = "d" then some .descent
  else
    match s.splitOn ":" with
    | ["c", hx] => (ofHex hx).map Frag.child
    | ["n", i] => i.toInt?.map Frag.nth
    | ["u", ms] => ((ms.splitOn ",").mapM parseMember).map Frag.union
    | ["s", a, b, c] =>
      match parseOptInt a, parseOptInt b, parseOptInt c with
      | some a, some b, some c => some (.slice a b c)
      | _, _, _ => none
    | ["f", ts] =>
      let trues := if ts = "" then [] else ts.splitOn "|"
      some (.filter fun v => trues.contains v.render)
    | _ => none

def parsePath (s : String) : Option (List Frag) :=
  if s = "-" then some [] else (s.splitOn "/").mapM parseFrag

def parseAK (s : String) : Option AK :=
  if s = "any" then some .any else if s = "gen" then some .gen else if s = "indexed" then some .indexed
  else if s = "rslice" then some .rslice else if s = "rarray" then some .rarray else none

def parseOK (s : String) : Option OKind :=
  if s = "map" then some .map else if s = "gen" then some .gen else if s = "keyed" then some .keyed
  else if s = "struct" then some .struct else if s = "rmap" then some .rmap else none

def parseRep (s : String) : Option Rep :=
  match s.splitOn "." with
  | [a, o] =>
    match parseAK a, parseOK o with
    | some a, some o => some ⟨a, o⟩
    | _, _ => none
  | _ => none

def parseCfg (s : String) : Option Cfg :=
  if s = "P" then some Cfg.pinned
  else if s = "-" then some Cfg.fixed
  else if s.toList.all fun c => "esncyowurlzmtfghda".toList.contains c then
    some { innerEmptySlice := s.contains 'e', descentSiblings := s.contains 's', locNegEnd := s.contains 'n', locStartClamp := s.contains 'c', locEmptyArray := s.contains 'y', locateRoot := s.contains 'o',
           walkDescentNoSelf := s.contains 'w', nodesUnionNil := s.contains 'u', nodesFilterRev := s.contains 'r',
           firstNodeLast := s.contains 'l', nodesFilterNull := s.contains 'z', typedMapWild := s.contains 'm',
           typedObjFilter := s.contains 't', firstTypedSlice := s.contains 'f', firstTypedWildOne := s.contains 'g',
           hasTypedMap := s.contains 'h', hasTypedDescent := s.contains 'd', walkTypedArray := s.contains 'a' }
  else none

/-! ### answers -/

def renderLoc : Loc → String
  | .key k => "k" ++ toHexF k
  | .idx i => "i" ++ toString i

def renderPath (p : Path) : String :=
  if p.isEmpty then "-" else String.intercalate "." (p.map renderLoc)

def renderVals (vs : List JV) : String := String.intercalate ";" (vs.map JV.render)

def renderLocated (ms : List (Path × JV)) : String :=
  String.intercalate ";" (ms.map fun m => renderPath m.1 ++ "=" ++ m.2.render)

def renderOpt : Option JV → String
  | none => "none"
  | some v => "some " ++ v.render

def answer (op : String) (cfg : Cfg) (rep : Rep) (x : List Frag) (d : JV) : String :=
  if op = "spec" then renderLocated (eval x d)
  else if op = "get" then renderVals (getM cfg rep x d)
  else if op = "gets" then renderLocated (getS cfg rep x d)
  else if op = "first" then renderOpt (firstM cfg rep x d)
  else if op = "has" then toString (hasM cfg rep x d)
  else if op = "locate" then (if Locate.fault cfg rep x d then "panic" else renderLocated (locateM cfg rep x d))
  else if op = "walk" then renderLocated (walkM cfg rep x d)
  else if op = "nodes" then renderVals (nodesM cfg x d)
  else if op = "firstnode" then renderOpt (firstNodeM cfg x d)
  else "bad-op"

/-- the letters of the flags that are on -/
def cfgLetters (c : Cfg) : String :=
  String.ofList ([('e', c.innerEmptySlice), ('s', c.descentSiblings), ('n', c.locNegEnd), ('c', c.locStartClamp),
    ('y', c.locEmptyArray), ('o', c.locateRoot), ('w', c.walkDescentNoSelf), ('u', c.nodesUnionNil),
    ('r', c.nodesFilterRev), ('l', c.firstNodeLast), ('z', c.nodesFilterNull), ('m', c.typedMapWild),
    ('t', c.typedObjFilter), ('f', c.firstTypedSlice), ('g', c.firstTypedWildOne), ('h', c.hasTypedMap),
    ('d', c.hasTypedDescent), ('a', c.walkTypedArray)].filter (·.2) |>.map (·.1))

def handle : List String → String
  | ["pinned"] => cfgLetters Cfg.pinned    -- the harness asks which deviations the model of the current code has
  | [op, rep, flags, path, data] =>
    match parseRep rep, parseCfg flags, parsePath path, parseJV data with
    | some rep, some cfg, some x, some d => answer op cfg rep x d
    | _, _, _, _ => "bad-op"
  | _ => "bad-op"

end OjgVerif.JPath
