import OjgVerif.JPath.Model
import OjgVerif.Gen.JpathArms
/-! # The arms of the model against the arms of the source

`Gen.JpathArms.switches` (tools/extract/jpath_arms.go) lists every switch of the JSONPath evaluators of jp/ with
its arms in source order: the fragment switch of the five stack machines, and inside every fragment case the
type switches over the container (`prev`), the union member (`u`), the element to hand on (`v`) and the kind
switches of the reflect fallback (`rt.Kind()`); the `locate`/`Walk` methods of every fragment type and the
helpers they share; the reflect helpers of get.go and script.go `evalWithRoot`.

The model dispatches on a fragment kind (`Frag`) and on a container kind (`Rep`: `AK` × `OKind`). The checks
below say that **every (fragment kind × container kind) arm the model has is an arm of the source**, evaluator
by evaluator: a case dropped from one of the switches (a container type from a `prev` switch, a kind from the
list of kinds that are handed on, a reflect kind from a helper) makes a check false and breaks the theorems
`OjgVerif.C11.arms_*` (Props/C11.lean), which are `decide` over the generated table. They are tripwires on the
*shape* of the source — which arms exist — not on what the arms do (that is the correspondence run). -/
namespace OjgVerif.JPath.Arms
open OjgVerif OjgVerif.Gen.JpathArms

/-- the fragment kinds of the model (`Frag` without its parameters) -/
inductive FK where
  | child | nth | wild | descent | union | slice | filter
  deriving DecidableEq, Inhabited

def FK.all : List FK := [.child, .nth, .wild, .descent, .union, .slice, .filter]

/-- the case of the fragment switch (`switch tf := f.(type)`) / the receiver of the `locate` and `Walk` methods -/
def FK.goCase : FK → String
  | .child => "Child" | .nth => "Nth" | .wild => "Wildcard" | .descent => "Descent"
  | .union => "Union" | .slice => "Slice" | .filter => "*Filter"

def FK.recv : FK → String
  | .filter => "Filter"
  | k => k.goCase

/-- does the fragment select in arrays / in objects -/
def FK.onArrays : FK → Bool
  | .child => false
  | _ => true
def FK.onObjects : FK → Bool
  | .nth => false | .slice => false
  | _ => true

/-- the arm of a container type switch that handles an array kind of the model (typed slices and arrays are
reached through the `default:` arm and a reflect helper) -/
def goAK : AK → String
  | .any => "[]any" | .gen => "gen.Array" | .indexed => "Indexed" | .rslice => "default" | .rarray => "default"
def goOK : OKind → String
  | .map => "map[string]any" | .gen => "gen.Object" | .keyed => "Keyed" | .struct => "default" | .rmap => "default"

/-- the reflect kind of a typed representation -/
def kindAK : AK → Option String
  | .rslice => some "reflect.Slice" | .rarray => some "reflect.Array" | _ => none
def kindOK : OKind → Option String
  | .struct => some "reflect.Struct" | .rmap => some "reflect.Map" | _ => none

def AK.all : List AK := [.any, .gen, .indexed, .rslice, .rarray]
def OKind.all : List OKind := [.map, .gen, .keyed, .struct, .rmap]

/-- the switches over `subj` in the fragment case / method / helper `frag` of evaluator `ev` -/
def rows (ev frag subj : String) : List (List (List String)) :=
  (switches.filter fun s => s.ev == ev && s.frag == frag && s.subj == subj).map (·.arms)

def hasArm (arms : List (List String)) (k : String) : Bool := arms.any fun a => a.contains k

/-- there are at least `n` such switches and every one of them has an arm for `k` -/
def everyHas (n : Nat) (ev frag subj k : String) : Bool :=
  decide (n ≤ (rows ev frag subj).length) && (rows ev frag subj).all fun arms => hasArm arms k

/-- at least `n` such switches have an arm for `k` -/
def someHave (n : Nat) (ev frag subj k : String) : Bool :=
  decide (n ≤ ((rows ev frag subj).filter fun arms => hasArm arms k).length)

/-! ## the stack machines -/

def machines : List String := ["Get", "FirstFound", "Has"]
def genMachines : List String := ["GetNodes", "FirstNode"]

/-- the fragment switch of an evaluator has a case for every fragment kind of the model -/
def fragCases (ev : String) : Bool := FK.all.all fun k => everyHas 1 ev "*" "f" k.goCase

/-- the container switch (`switch tv := prev.(type)`) of fragment `k` in machine `ev` has the arm for an array
kind (a union has a last-position and an inner copy of its two switches; a filter has no switch of its own:
`evalWithRoot`) -/
def machineArr (ev : String) (k : FK) (a : AK) : Bool :=
  match k with
  | .filter => someHave 1 "helper" "evalWithRoot" "data" (goAK a)
  | .union => someHave 2 ev k.goCase "prev" (goAK a)
  | _ => !k.onArrays || everyHas 1 ev k.goCase "prev" (goAK a)

def machineObj (ev : String) (k : FK) (o : OKind) : Bool :=
  match k with
  | .filter => someHave 1 "helper" "evalWithRoot" "data" (goOK o)
  | .union => someHave 2 ev k.goCase "prev" (goOK o)
  | _ => !k.onObjects || everyHas 1 ev k.goCase "prev" (goOK o)

/-- **every (fragment kind × container kind) arm of the model is an arm of Get, FirstFound and Has** -/
def machineArms (a : AK) (o : OKind) : Bool :=
  machines.all fun ev => FK.all.all fun k => machineArr ev k a && machineObj ev k o

/-- the kinds a machine hands on to the next fragment: inside every fragment case that pushes, every switch
over the element (`switch v.(type)`) has an arm with `gen.Object` and `gen.Array`; every one with a `default:`
arm (the branches that are not gen-only) has the arm `map[string]any, []any, gen.Object, gen.Array, Keyed,
Indexed`; and there are as many kind switches of the reflect fallback as there are such `default:` arms, each
listing `reflect.Ptr, reflect.Slice, reflect.Struct, reflect.Array, reflect.Map` -/
def pushKinds (ev : String) : Bool :=
  [FK.child, .nth, .wild, .descent, .union, .slice].all fun k =>
    let vs := rows ev k.goCase "v"
    let ks := rows ev k.goCase "rt.Kind()"
    !vs.isEmpty &&
    (vs.all fun arms => arms.any fun a => a.contains "gen.Object" && a.contains "gen.Array") &&
    ((vs.filter fun arms => hasArm arms "default").all fun arms =>
      arms.any fun a => ["map[string]any", "[]any", "gen.Object", "gen.Array", "Keyed", "Indexed"].all a.contains) &&
    decide (ks.length = (vs.filter fun arms => hasArm arms "default").length) &&
    (ks.all fun arms =>
      arms.any fun a => ["reflect.Ptr", "reflect.Slice", "reflect.Struct", "reflect.Array", "reflect.Map"].all a.contains)

/-- GetNodes and FirstNode (gen data only): every fragment case; wildcard and descent switch over
`gen.Object`/`gen.Array`; every element handed on is tested for the two -/
def genArms (ev : String) : Bool :=
  fragCases ev &&
  ([FK.wild, .descent].all fun k =>
    everyHas 1 ev k.goCase "prev" "gen.Object" && everyHas 1 ev k.goCase "prev" "gen.Array") &&
  ([FK.child, .nth, .wild, .descent, .union, .slice].all fun k =>
    everyHas 1 ev k.goCase "v" "gen.Object" && everyHas 1 ev k.goCase "v" "gen.Array")

/-! ## the recursive evaluators -/

/-- the switch of `locate` for fragment `k`: `data.(type)` (wildcard, descent, child, nth, union, slice); a
filter goes through `evalWithRoot` -/
def locateArr (k : FK) (a : AK) : Bool :=
  match k with
  | .filter => someHave 1 "helper" "evalWithRoot" "data" (goAK a)
  | .union => someHave 1 "locate" k.recv "data" (goAK a)
  | _ => !k.onArrays || everyHas 1 "locate" k.recv "data" (goAK a)

def locateObj (k : FK) (o : OKind) : Bool :=
  match k with
  | .filter => someHave 1 "helper" "evalWithRoot" "data" (goOK o)
  | .union => someHave 1 "locate" k.recv "data" (goOK o)
  | _ => !k.onObjects || everyHas 1 "locate" k.recv "data" (goOK o)

/-- the switch of `Walk` for fragment `k`: `nodes[len(nodes)-1].(type)` (child, nth, slice), `data.(type)`
(filter); wildcard and descent delegate to `wildWalk`, a union to `Nth.Walk`/`Child.Walk` -/
def walkArr (k : FK) (a : AK) : Bool :=
  match k with
  | .wild => everyHas 1 "helper" "wildWalk" "data" (goAK a)
  | .descent => everyHas 1 "helper" "wildWalk" "data" (goAK a)
  | .union => everyHas 1 "Walk" "Union" "u" "int64" && everyHas 1 "Walk" "Nth" "nodes[len(nodes)-1]" (goAK a)
  | .filter => everyHas 1 "Walk" "Filter" "data" (goAK a)
  | _ => !k.onArrays || everyHas 1 "Walk" k.recv "nodes[len(nodes)-1]" (goAK a)

def walkObj (k : FK) (o : OKind) : Bool :=
  match k with
  | .wild => everyHas 1 "helper" "wildWalk" "data" (goOK o)
  | .descent => everyHas 1 "helper" "wildWalk" "data" (goOK o)
  | .union => everyHas 1 "Walk" "Union" "u" "string" && everyHas 1 "Walk" "Child" "nodes[len(nodes)-1]" (goOK o)
  | .filter => everyHas 1 "Walk" "Filter" "data" (goOK o)
  | _ => !k.onObjects || everyHas 1 "Walk" k.recv "nodes[len(nodes)-1]" (goOK o)

/-- **every (fragment kind × container kind) arm of the model is an arm of the locate and Walk methods** -/
def recursiveArms (a : AK) (o : OKind) : Bool :=
  FK.all.all fun k => locateArr k a && locateObj k o && walkArr k a && walkObj k o

/-- `locateNthChildHas` and `locateContinueFrag` continue into the same kinds as the machines hand on -/
def locateContinueKinds : Bool :=
  ["locateNthChildHas", "locateContinueFrag"].all fun h =>
    (everyHas 1 "helper" h "v" "map[string]any" && everyHas 1 "helper" h "v" "[]any" &&
     everyHas 1 "helper" h "v" "gen.Object" && everyHas 1 "helper" h "v" "gen.Array" &&
     everyHas 1 "helper" h "v" "Keyed" && everyHas 1 "helper" h "v" "Indexed") &&
    ["reflect.Ptr", "reflect.Slice", "reflect.Struct", "reflect.Array", "reflect.Map"].all fun kd =>
      everyHas 1 "helper" h "rt.Kind()" kd

/-! ## the reflect fallback (typed representations) -/

/-- the kind switch a typed array kind is reached through, per fragment kind and evaluator family -/
def reflectArr (kd : String) : Bool :=
  -- machines: Nth / union index → reflectGetNth; wildcard, descent → reflectGetWild(One); slice → reflectGetSlice;
  -- filter → evalWithRoot
  everyHas 1 "helper" "reflectGetNth" "rt.Kind()" kd && everyHas 1 "helper" "reflectGetWild" "rt.Kind()" kd &&
  everyHas 1 "helper" "reflectGetWildOne" "rt.Kind()" kd && everyHas 1 "helper" "reflectGetSlice" "rt.Kind()" kd &&
  everyHas 1 "helper" "evalWithRoot" "rv.Kind()" kd &&
  -- locate: wildcard, descent, slice; Walk: wildWalk, filter (Nth.Walk and Slice.Walk use reflectGetNth)
  everyHas 2 "locate" "Wildcard" "rt.Kind()" kd && everyHas 1 "locate" "Descent" "rt.Kind()" kd &&
  everyHas 1 "locate" "Slice" "rt.Kind()" kd && everyHas 1 "helper" "wildWalk" "rt.Kind()" kd &&
  everyHas 1 "Walk" "Filter" "rv.Kind()" kd

def reflectObj (kd : String) : Bool :=
  everyHas 1 "helper" "reflectGetChild" "rt.Kind()" kd && everyHas 1 "helper" "reflectGetWild" "rt.Kind()" kd &&
  everyHas 1 "helper" "reflectGetWildOne" "rt.Kind()" kd && everyHas 1 "helper" "evalWithRoot" "rv.Kind()" kd &&
  everyHas 2 "locate" "Wildcard" "rt.Kind()" kd && everyHas 1 "locate" "Descent" "rt.Kind()" kd &&
  everyHas 1 "helper" "wildWalk" "rt.Kind()" kd && everyHas 1 "Walk" "Filter" "rv.Kind()" kd

/-- **every typed representation of the model has its reflect kind in every helper it is reached through** -/
def reflectArms (a : AK) (o : OKind) : Bool :=
  (match kindAK a with | some kd => reflectArr kd | none => true) &&
  (match kindOK o with | some kd => reflectObj kd | none => true)

end OjgVerif.JPath.Arms
