import OjgVerif.JPath.Model
/-! # FirstFound and Has as work-list machines of their own

`Expr.FirstFound` (jp/get.go) and `Expr.Has` (jp/has.go) are copies of the main loop of `Expr.Get`: the same
evaluation stack of data under fragment-index markers, the same flags — but no result slice: a last-fragment
branch *returns* (`return v, true` / `return true`) the moment it has an element, and the function ends with
`return nil, false` / `return false` when the stack is exhausted. They are transcribed here from their own
source text, round by round, as `First.step`/`First.run` and `Has.step`/`Has.run` over the stack frames of
`Get.Frame` (a frame = the data under one marker; see Model.lean), independently of `Get.step`:

* a round pops the top element `d` of the top frame;
* fragment other than a descent, last position: the branch returns its first element (`R f d`), or falls
  through with nothing pushed (`continue`, or a `has` that stayed false);
* inner position: the containers among the selection are pushed (back to front) under the next fragment index;
* descent, first pass (marker without `descentFlag`): the element is put back, the marker gets `descentFlag`,
  in the last position the first member is returned, the container members are pushed with a marker of their
  own carrying `descentChildFlag`;
* descent, second pass: `stack[len(stack)-1] = di &^ descentFlag; stack = append(stack, prev)` and the common
  tail of the loop pushes the next fragment index — **when the descent is the last fragment nothing is returned
  here** (Get reports the node itself unless it was reported as a member): `$..` on a leaf or on an empty
  container finds nothing with FirstFound/Has (paths ending in a bare descent are outside C11).

What the last-fragment branches return and what the inner branches push are `First.last`/`First.inner`
(`Has.inner`) of Model.lean — the per-fragment code of get.go:907-1700 / has.go with the slice test
`start < end` + `tv[start]`, `reflectGetWildOne`, `reflectGetNth(tv, start)`.

`firstMach`/`hasMach` are proved equal to `(getM …).head?` / `!(getM …).isEmpty` in Props/C11.lean
(`C11_first_machine`, `C11_has_machine`), and the driver ops `firstm`/`hasm` run them against the Go code. -/
namespace OjgVerif.JPath
open OjgVerif

namespace First

/-- the value a last-fragment branch of FirstFound returns (`none`: it falls through) -/
def ret (cfg : Cfg) (rep : Rep) (f : Frag) (d : JV) : Option JV := ((last cfg rep f d).map (·.2)).head?

/-- the data an inner branch pushes, in the order of the Go pushes (the selection back to front) -/
def pushV (cfg : Cfg) (rep : Rep) (f : Frag) (d : JV) : List JV := ((inner cfg rep f d).map (·.2)).reverse

/-- outcome of one round of the loop -/
inductive Out where
  | ret (v : JV)                     -- `return v, true`
  | go (frames : List Get.Frame)     -- the frames that replace the popped one

/-- `if has { return v, true }`, else go on with the frames `fs` -/
def retOr (o : Option JV) (fs : List Get.Frame) : Out :=
  match o with
  | some v => .ret v
  | none => .go fs

/-- the container members of `d`, each under its own marker `fi|descentChildFlag`; the Go loop runs back to
front, so the first container member ends on top -/
def kidFrames (fi : Nat) (d : JV) : List Get.Frame :=
  (((members d).map (·.2)).filter isContainer).map fun c => (⟨fi, false, true, [c]⟩ : Get.Frame)

/-- one round of FirstFound's loop (jp/get.go:928-1690) -/
def step (sib : Bool) (R : Frag → JV → Option JV) (P : Frag → JV → List JV) (x : List Frag)
    (fr : Get.Frame) (d : JV) (rest : List JV) : Out :=
  match x.drop fr.fi with
  | [] => .go (fr.rest fr.dflag rest)
  | .descent :: r =>
    if fr.dflag then
      -- second pass. Last position: the element is dropped (the `up` test of the next round pops it).
      -- Otherwise it goes on the stack under the next fragment index. The marker loses `descentFlag`
      -- (before baff053 it kept it: `sib`).
      if r.isEmpty then .go (fr.rest sib rest)
      else .go (Get.pushed (fr.fi + 1) [d] ++ fr.rest sib rest)
    else
      -- first pass: `if int(fi) == len(x)-1 { return <first member>, true }`
      retOr (if r.isEmpty then ((members d).map (·.2)).head? else none)
        (kidFrames fr.fi d ++ [{ fr with dflag := true, items := d :: rest }])
  | f :: r =>
    if r.isEmpty then retOr (R f d) (fr.rest fr.dflag rest)
    else .go (Get.pushed (fr.fi + 1) (P f d).reverse ++ fr.rest fr.dflag rest)

/-- `for 1 < len(stack) { … }; return nil, false` -/
def run (sib : Bool) (R : Frag → JV → Option JV) (P : Frag → JV → List JV) (x : List Frag) :
    Nat → List Get.Frame → Option JV
  | 0, _ => none
  | _ + 1, [] => none
  | n + 1, fr :: st =>
    match fr.items with
    | [] => run sib R P x n st
    | d :: rest =>
      match step sib R P x fr d rest with
      | .ret v => some v
      | .go fs => run sib R P x n (fs ++ st)

end First

/-- **`Expr.FirstFound` as its own machine** (the path without its leading `$`; the empty list is the path
`$`: `case Root: if int(fi) == len(x)-1 { return data, true }`) -/
def firstMach (cfg : Cfg) (rep : Rep) (x : List Frag) (d : JV) : Option JV :=
  match x with
  | [] => some d
  | _ => First.run cfg.descentSiblings (First.ret cfg rep) (First.pushV cfg rep) x
           (Get.cost (First.pushV cfg rep) x d + 1) [⟨0, false, false, [d]⟩]

namespace Has

/-- does a last-fragment branch of Has `return true`? -/
def ret (cfg : Cfg) (rep : Rep) (f : Frag) (d : JV) : Bool := !(First.last cfg rep f d).isEmpty

def pushV (cfg : Cfg) (rep : Rep) (f : Frag) (d : JV) : List JV := ((inner cfg rep f d).map (·.2)).reverse

/-- one round of Has's loop (jp/has.go:34-826); `none` = `return true`. `sets`: has the descent code a case
for this element at all (before 21977aa it had none for leaves and typed containers: the element was dropped
without the marker being touched) -/
def step (sib : Bool) (sets : JV → Bool) (R : Frag → JV → Bool) (P : Frag → JV → List JV) (x : List Frag)
    (fr : Get.Frame) (d : JV) (rest : List JV) : Option (List Get.Frame) :=
  match x.drop fr.fi with
  | [] => some (fr.rest fr.dflag rest)
  | .descent :: r =>
    if fr.dflag then
      if r.isEmpty then some (fr.rest sib rest)
      else some (Get.pushed (fr.fi + 1) [d] ++ fr.rest sib rest)
    else if !sets d then some (fr.rest fr.dflag rest)
    else if r.isEmpty && !(members d).isEmpty then none      -- `if 0 < len(tv) { return true }`
    else some (First.kidFrames fr.fi d ++ [{ fr with dflag := true, items := d :: rest }])
  | f :: r =>
    if r.isEmpty then (if R f d then none else some (fr.rest fr.dflag rest))
    else some (Get.pushed (fr.fi + 1) (P f d).reverse ++ fr.rest fr.dflag rest)

/-- `for 1 < len(stack) { … }; return false` -/
def run (sib : Bool) (sets : JV → Bool) (R : Frag → JV → Bool) (P : Frag → JV → List JV) (x : List Frag) :
    Nat → List Get.Frame → Bool
  | 0, _ => false
  | _ + 1, [] => false
  | n + 1, fr :: st =>
    match fr.items with
    | [] => run sib sets R P x n st
    | d :: rest =>
      match step sib sets R P x fr d rest with
      | none => true
      | some fs => run sib sets R P x n (fs ++ st)

end Has

/-- **`Expr.Has` as its own machine** (the empty list is the path `$`: `case Root: … return true`) -/
def hasMach (cfg : Cfg) (rep : Rep) (x : List Frag) (d : JV) : Bool :=
  match x with
  | [] => true
  | _ => Has.run cfg.descentSiblings (Has.sel cfg rep).sets (Has.ret cfg rep) (Has.pushV cfg rep) x
           (Get.cost (Has.pushV cfg rep) x d + 1) [⟨0, false, false, [d]⟩]

/-! # Expr.Walk and Expr.Locate as the recursive programs they are

`Expr.Walk` (jp/walk.go) calls `x[0].Walk(x[1:], path, nodes, cb)`; every fragment type has a `Walk` method that
selects its members and calls `rest[0].Walk(rest[1:], …)` on each, or the callback when `rest` is empty.
`Expr.Locate` (jp/locate.go) calls `x[0].locate(nil, data, x[1:], max)`; every fragment type has a `locate`
method that returns the normalized paths, with the budget `max` (0 or less: no limit) threaded through
`locateContinueFrag` (`mx = max - len(locs)`) and tested after every member (`if 0 < max && max <= len(locs)
{ break }`). `walkRec`/`locRec` transcribe that recursion — by recursion on the fragment list, with the descent
walking the tree by structural recursion — over the per-fragment member selections `Walk.last`/`Locate.last` of
Model.lean. Paths are relative to the node (the Go code carries the prefix `pp`/`path` down instead).
Proved equal to the skeleton models `walkM`/`locateM` in Props/C11.lean (`C11_walk_recursive`,
`C11_locate_recursive`); driver ops `walkm`/`locatem`. -/

namespace Walk

mutual
  /-- wildcard.go `wildWalk(rest, path, nodes, cb, f)` with `f != nil` (from `Descent.Walk`): every member is
  handed to the rest of the path (`K`; the callback when there is no rest) and then walked into -/
  def wildDesc (K : JV → List (Path × JV)) : JV → List (Path × JV)
    | .arr xs => wildDescL K 0 xs
    | .obj kvs => wildDescKV K kvs
    | _ => []
  def wildDescL (K : JV → List (Path × JV)) : Nat → List JV → List (Path × JV)
    | _, [] => []
    | i, x :: r => (K x ++ wildDesc K x).map (pfx (.idx i)) ++ wildDescL K (i + 1) r
  def wildDescKV (K : JV → List (Path × JV)) : List (Bytes × JV) → List (Path × JV)
    | [] => []
    | m :: r => (K m.2 ++ wildDesc K m.2).map (pfx (.key m.1)) ++ wildDescKV K r
end

end Walk

/-- `f.Walk(rest, path, nodes, cb)` for the path `f :: rest` at node `v`: the callbacks in call order (the
empty path is the callback itself). `Descent.Walk`: `if 0 < len(rest) { rest[0].Walk(rest[1:], path, nodes, cb) }`
(since 5d79291; flag `walkDescentNoSelf`), then `wildWalk(rest, path, nodes, cb, f)`. Every other fragment:
for each selected member `rest[0].Walk(rest[1:], append(path, …), append(nodes, value), cb)` — there is no
container test in the Walk methods, a leaf is handed on and selects nothing. -/
def walkRec (cfg : Cfg) (rep : Rep) : List Frag → JV → List (Path × JV)
  | [], v => [([], v)]
  | f :: rest, v =>
    match f with
    | .descent =>
      (if !cfg.walkDescentNoSelf && !rest.isEmpty then walkRec cfg rep rest v else [])
        ++ Walk.wildDesc (fun c => walkRec cfg rep rest c) v
    | f => (Walk.last cfg rep f v).flatMap fun m => pre m.1 (walkRec cfg rep rest m.2)

namespace Locate

/-- `for … { locs = append(locs, <what the member yields with the budget mx>…); if 0 < max && max <= len(locs) { break } }`
with `mx = max - len(locs)` when `0 < max` (locateContinueFrag) -/
def loopMax (max : Int) (g : Int → Path × JV → List (Path × JV)) :
    List (Path × JV) → List (Path × JV) → List (Path × JV)
  | [], locs => locs
  | m :: ms, locs =>
    if 0 < max ∧ max ≤ ((locs ++ g (if 0 < max then max - locs.length else max) m).length : Int) then
      locs ++ g (if 0 < max then max - locs.length else max) m
    else loopMax max g ms (locs ++ g (if 0 < max then max - locs.length else max) m)

/-- the head of `Descent.locate`: the node itself in the last position, otherwise `locateContinueFrag` (the
rest of the path on the node if it is a container) -/
def descHead (K : Int → JV → List (Path × JV)) (lastp : Bool) (max : Int) (v : JV) : List (Path × JV) :=
  if lastp then [([], v)] else if isContainer v then K max v else []

mutual
  /-- descent.go `Descent.locate`: the head, then every member with the budget that is left
  (`if 0 < max { mx = max - len(locs); if mx <= 0 { break } }`). `cut`: no case for a typed map (flag
  `typedMapWild`, before 927d89c) -/
  def descLoc (K : Int → JV → List (Path × JV)) (lastp cut : Bool) (max : Int) : JV → List (Path × JV)
    | .arr xs => descLocL K lastp cut max 0 xs (descHead K lastp max (.arr xs))
    | .obj kvs =>
      if cut then descHead K lastp max (.obj kvs) else descLocKV K lastp cut max kvs (descHead K lastp max (.obj kvs))
    | .null => descHead K lastp max .null
    | .bool b => descHead K lastp max (.bool b)
    | .int i => descHead K lastp max (.int i)
    | .flt t => descHead K lastp max (.flt t)
    | .big t => descHead K lastp max (.big t)
    | .num t => descHead K lastp max (.num t)
    | .str t => descHead K lastp max (.str t)
  def descLocL (K : Int → JV → List (Path × JV)) (lastp cut : Bool) (max : Int) :
      Nat → List JV → List (Path × JV) → List (Path × JV)
    | _, [], locs => locs
    | i, x :: r, locs =>
      if 0 < max ∧ max - (locs.length : Int) ≤ 0 then locs
      else descLocL K lastp cut max (i + 1) r
        (locs ++ (descLoc K lastp cut (if 0 < max then max - locs.length else max) x).map (pfx (.idx i)))
  def descLocKV (K : Int → JV → List (Path × JV)) (lastp cut : Bool) (max : Int) :
      List (Bytes × JV) → List (Path × JV) → List (Path × JV)
    | [], locs => locs
    | m :: r, locs =>
      if 0 < max ∧ max - (locs.length : Int) ≤ 0 then locs
      else descLocKV K lastp cut max r
        (locs ++ (descLoc K lastp cut (if 0 < max then max - locs.length else max) m.2).map (pfx (.key m.1)))
end

end Locate

/-- `f.locate(pp, data, rest, max)` for the path `f :: rest` at node `v`: (relative path, located value) in the
order of the returned slice. Child/Nth: `locateNthChildHas` (the budget is handed on as it is). Slice in the
last position: **no budget test** (slice.go:439-441, 455-457); in an inner position `td[i]` without a bounds
test (`Locate.fault` says when that faults). Wildcard, Union, Filter, inner Slice: `loopMax`. -/
def locRec (cfg : Cfg) (rep : Rep) : List Frag → Int → JV → List (Path × JV)
  | [], _, _ => []
  | f :: rest, max, v =>
    match f with
    | .child k =>
      (mKey k v).flatMap fun m =>
        if rest.isEmpty then [m] else if isContainer m.2 then pre m.1 (locRec cfg rep rest max m.2) else []
    | .nth i =>
      (mIdx i v).flatMap fun m =>
        if rest.isEmpty then [m] else if isContainer m.2 then pre m.1 (locRec cfg rep rest max m.2) else []
    | .descent =>
      Locate.descLoc (fun mx c => locRec cfg rep rest mx c) rest.isEmpty
        (cfg.typedMapWild && decide (rep.ok = OKind.rmap)) max v
    | .slice s e t =>
      if rest.isEmpty then Locate.last cfg rep (.slice s e t) v
      else Locate.loopMax max
        (fun mx m => if isContainer m.2 then pre m.1 (locRec cfg rep rest mx m.2) else [])
        (Locate.last cfg rep (.slice s e t) v) []
    | f =>
      Locate.loopMax max
        (fun mx m =>
          if rest.isEmpty then [m] else if isContainer m.2 then pre m.1 (locRec cfg rep rest mx m.2) else [])
        (Locate.last cfg rep f v) []

/-- **`Expr.Locate(data, max)`** (`$` alone: root.go `Root.locate`, flag `locateRoot`) -/
def locateRec (cfg : Cfg) (rep : Rep) (x : List Frag) (max : Int) (d : JV) : List (Path × JV) :=
  match x with
  | [] => if cfg.locateRoot then [] else [([], d)]
  | _ => locRec cfg rep x max d

/-- **`Expr.Walk(data, cb)`** -/
def walkRecM (cfg : Cfg) (rep : Rep) (x : List Frag) (d : JV) : List (Path × JV) := walkRec cfg rep x d

/-! # GetNodes as a machine

`Expr.GetNodes` (jp/node.go:41-330) is one more copy of Get's loop, on `[]gen.Node`. Its text differs from get.go in
the selections (`Nodes.last`/`Nodes.inner`: gen-only arms, the union and filter branches) and in ONE place of the
control flow: the first pass of a descent has cases for `gen.Object` and `gen.Array` only — a leaf handed to a descent
is dropped with the marker untouched, where Get's `default:` arm puts it back for the second pass. `Nodes.step` is
Get's round with exactly that exception; `nodesMach` runs it. Proved equal to the skeleton model `nodesM` in
Props/C11.lean (`C11_nodes_machine`). -/

namespace Nodes

def lastV (cfg : Cfg) (f : Frag) (v : JV) : List JV := (last cfg f v).map (·.2)
def pushV (cfg : Cfg) (f : Frag) (v : JV) : List JV := ((inner cfg f v).map (·.2)).reverse

/-- is this round the first pass of a descent on an element node.go has no case for -/
def dropsLeaf (x : List Frag) (fr : Get.Frame) (d : JV) : Bool :=
  match x.drop fr.fi with
  | .descent :: _ => !fr.dflag && !isContainer d
  | _ => false

/-- one round of GetNodes' loop -/
def step (sib : Bool) (L P : Frag → JV → List JV) (x : List Frag) (fr : Get.Frame) (d : JV) (rest : List JV) :
    List JV × List Get.Frame :=
  if dropsLeaf x fr d then ([], fr.rest fr.dflag rest) else Get.step sib L P x fr d rest

def run (sib : Bool) (L P : Frag → JV → List JV) (x : List Frag) : Nat → List Get.Frame → List JV → List JV
  | 0, _, acc => acc
  | _ + 1, [], acc => acc
  | n + 1, fr :: st, acc =>
    match fr.items with
    | [] => run sib L P x n st acc
    | d :: rest => run sib L P x n ((step sib L P x fr d rest).2 ++ st) (acc ++ (step sib L P x fr d rest).1)

end Nodes

/-- **`Expr.GetNodes` as a machine** -/
def nodesMach (cfg : Cfg) (x : List Frag) (d : JV) : List JV :=
  match x with
  | [] => [d]
  | _ => Nodes.run cfg.descentSiblings (Nodes.lastV cfg) (Nodes.pushV cfg) x
           (Get.cost (Nodes.pushV cfg) x d + 1) [⟨0, false, false, [d]⟩] []

/-! # FirstNode as a machine

`Expr.FirstNode` (jp/node.go:332-640) is to GetNodes what FirstFound is to Get: the last-fragment branches return
their first element. `FirstNode.step` is FirstFound's round (`First.step`) with node.go's one difference — the leaf
handed to a descent is dropped — over `FirstNode.last` (what is returned) and `Nodes.inner` (what is pushed). -/

namespace FirstNode

def ret (cfg : Cfg) (f : Frag) (d : JV) : Option JV := ((last cfg f d).map (·.2)).head?

def step (sib : Bool) (R : Frag → JV → Option JV) (P : Frag → JV → List JV) (x : List Frag)
    (fr : Get.Frame) (d : JV) (rest : List JV) : First.Out :=
  if Nodes.dropsLeaf x fr d then .go (fr.rest fr.dflag rest) else First.step sib R P x fr d rest

def run (sib : Bool) (R : Frag → JV → Option JV) (P : Frag → JV → List JV) (x : List Frag) :
    Nat → List Get.Frame → Option JV
  | 0, _ => none
  | _ + 1, [] => none
  | n + 1, fr :: st =>
    match fr.items with
    | [] => run sib R P x n st
    | d :: rest =>
      match step sib R P x fr d rest with
      | .ret v => some v
      | .go fs => run sib R P x n (fs ++ st)

end FirstNode

/-- **`Expr.FirstNode` as a machine** -/
def firstNodeMach (cfg : Cfg) (x : List Frag) (d : JV) : Option JV :=
  match x with
  | [] => some d
  | _ => FirstNode.run cfg.descentSiblings (FirstNode.ret cfg) (Nodes.pushV cfg) x
           (Get.cost (Nodes.pushV cfg) x d + 1) [⟨0, false, false, [d]⟩]

end OjgVerif.JPath
