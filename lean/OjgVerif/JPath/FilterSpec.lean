import OjgVerif.JPath.Spec
import OjgVerif.Script.Spec
/-! # The truth value of a filter script, for the JSONPath specification

`Spec.sel (.filter p)` takes the script as a predicate `JV → Bool`. This file supplies that predicate from
the script itself, by the documented semantics — it is what C05 ("filter keeping the elements whose
script is true") is judged against; the implementation is never asked.

* Operators are those of the script specification of the C12 family (`Script.Spec.evalOp`): numbers compare
  by exact value across int and float (`10.0 <= 10`, `9 < 10.0`, `-0.0 == 0`), strings byte-lexically,
  `==`/`!=` are complements, ordering between different kinds is false, `&& || !` are the connectives.
* A path operand is `@` followed by **any** JSONPath fragments (member, index, wildcard, descent, union,
  slice, and nested filters, whose own scripts are evaluated the same way); it is evaluated with the
  JSONPath denotation `Spec.eval` on the element under test. A path that selects nothing is `Nothing`; a path
  that selects several nodes makes the script true when SOME choice of one node per occurrence does
  (`Script.Spec.choices`).
* A script that is a path only is an existence test (RFC 9535 §2.3.5; ojg since 6b93c2a also for
  `Expr.Filter`): `$[?(@.a)]` keeps the elements that have a member `a`, whatever its value — also `false`
  or `null`.
* `count(path)` is the number of nodes the path selects.
* A path operand that starts with `$` is evaluated on the ROOT: the value the whole query is applied to
  (RFC 9535 §2.2: "the root node identifier `$` refers to the query argument" — wherever it stands, also in a
  filter nested in the path of another filter's script). `matches` therefore takes the root next to the
  element.

Two things the code did differently are parameters here, so that the model of each evaluator can be given
the predicate that evaluator really applies (`Cfg.nestedFilterRoot`, `Cfg.locFilterRootNil`,
`Cfg.walkFilterRootSelf` — all three repaired in /repo and off in `Cfg.pinned`; the specification uses none of
them):
* `nest` (before 22c4424): script.go evaluated a path operand with `x.Get(v)`, and Get hands ITS argument to
  the filters of that path as their root: in `$[?(@.q[?(@ == $.a)])]` the inner `$` was the element `@` of the
  outer filter, not the query argument (repaired finding C05-nested-filter-root).
* the root an evaluator passes (before 049a508): `Filter.locate` passed nil, `Filter.Walk` the tested element
  itself (repaired findings C11-locate-filter-root, C11-walk-filter-root); see `Driver.rootFor`. -/
namespace OjgVerif.JPath.FilterSpec
open OjgVerif OjgVerif.JPath OjgVerif.Script

/-- the binary64 with these bits (big-endian bytes), exactly; anything else is NaN -/
def fltOfBits (t : Bytes) : Flt :=
  if t.length ≠ 8 then .nan
  else
    let bits : Nat := t.foldl (fun a b => a * 256 + b.toNat) 0
    let neg := bits / 2 ^ 63 = 1
    let ex : Nat := bits / 2 ^ 52 % 2048
    let frac : Nat := bits % 2 ^ 52
    if ex = 2047 then (if frac = 0 then .inf neg else .nan)
    else
      let m : Int := if ex = 0 then (frac : Int) else (frac : Int) + 2 ^ 52
      let e : Int := if ex = 0 then -1074 else (ex : Int) - 1075
      .fin (if neg then -m else m) e

mutual
  /-- JSON-like data as script operands (a float is the value of its bits) -/
  def toVal : JV → Val
    | .null => .null
    | .bool b => .bool b
    | .int i => .int i
    | .flt t => .flt (fltOfBits t)
    | .big _ => .nothing
    | .num _ => .nothing
    | .str s => .str s
    | .arr xs => .arr (toVals xs)
    | .obj kvs => .obj (toKvs kvs)
  def toVals : List JV → List Val
    | [] => []
    | x :: r => toVal x :: toVals r
  def toKvs : List (Bytes × JV) → List (Bytes × Val)
    | [] => []
    | m :: r => (m.1, toVal m.2) :: toKvs r
end

/-- script expressions; a path operand is `@` followed by JSONPath fragments (a nested filter fragment
carries the predicate of its own script) -/
inductive STm where
  | const (v : Val)
  /-- `@…` (`fromRoot = false`) or `$…`; the fragments are given as a function of the root that the filters
  NESTED in this path see (their scripts are predicates already, closed over that root) -/
  | path (fromRoot : Bool) (fs : JV → List Frag)
  | app1 (o : Op) (a : STm)
  | app2 (o : Op) (a b : STm)

/-- the nodes a path operand selects: an `@`-path on the element, a `$`-path on the root. `nest` (the code's
reading, not the documented one): the filters nested in an `@`-path take the element for their root. -/
def operand (nest : Bool) (root elem : JV) (fromRoot : Bool) (fs : JV → List Frag) : List JV :=
  if fromRoot then evalV (fs root) root
  else evalV (fs (if nest then elem else root)) elem

/-- the values an expression can take on an element: one per choice of a node for every path occurrence -/
def values (rx : RxEngine) (nest : Bool) (root elem : JV) : STm → List Val
  | .const v => [v]
  | .path r fs =>
    match (operand nest root elem r fs).map toVal with
    | [] => [.nothing]
    | l => l
  | .app1 o a =>
    if o = .count then
      match a with
      | .path r fs => [Spec.evalOp rx .count (.arr ((operand nest root elem r fs).map toVal)) .null]
      | _ => [.nothing]
    else (values rx nest root elem a).map fun x => Spec.evalOp rx o x .null
  | .app2 o a b =>
    (values rx nest root elem a).flatMap fun x => (values rx nest root elem b).map fun y => Spec.evalOp rx o x y

/-- a path alone is an existence test -/
def normalise : STm → STm
  | .path r fs => .app2 .exists (.path r fs) (.const (.bool true))
  | t => t

/-- **the script is true on the element** (of a query applied to `root`) -/
def «matches» (rx : RxEngine) (nest : Bool) (root : JV) (t : STm) (elem : JV) : Bool :=
  (values rx nest root elem (normalise t)).any Spec.isTrue

/-- the filter fragment of a script in a query applied to `root`; `none`: every element is its own root
(what `Filter.Walk` does) -/
def filterOf (rx : RxEngine) (nest : Bool) (root : Option JV) (t : STm) : Frag :=
  .filter (fun v => «matches» rx nest (root.getD v) t v)

/-- the documented reading: `$` is the query argument everywhere -/
abbrev holds (t : STm) (root elem : JV) : Bool := «matches» (fun _ _ => none) false root t elem
/-- `@` followed by fragments without nested filters -/
abbrev atP (fs : List Frag) : STm := .path false fun _ => fs
/-- `$` followed by fragments without nested filters -/
abbrev rootP (fs : List Frag) : STm := .path true fun _ => fs

/-! documented behaviour, checked on the spot -/

/-- no regular expressions in these examples -/
def noRx : RxEngine := fun _ _ => none

/-- `10.0` as bits -/
def f10 : JV := .flt [0x40, 0x24, 0, 0, 0, 0, 0, 0]
/-- `-0.0` as bits -/
def fneg0 : JV := .flt [0x80, 0, 0, 0, 0, 0, 0, 0]

/-- `@ <= 10` is true on 10.0 (and `@ < 10` is not); `9 < 10.0`; `-0.0 == 0` -/
example : holds (.app2 .lte (atP []) (.const (.int 10))) .null f10 = true ∧
    holds (.app2 .lt (atP []) (.const (.int 10))) .null f10 = false ∧
    holds (.app2 .gte (.const (.int 10)) (atP [])) .null f10 = true ∧
    holds (.app2 .lt (.const (.int 9)) (atP [])) .null f10 = true ∧
    holds (.app2 .eq (atP []) (.const (.int 0))) .null fneg0 = true := by decide +kernel

/-- `-2.5` as bits -/
def fm2_5 : JV := .flt [0xC0, 0x04, 0, 0, 0, 0, 0, 0]

/-- an integer and a negative non-whole float that truncates to it: `-2.5 < -2`, not equal, either side -/
example : holds (.app2 .lt (atP []) (.const (.int (-2)))) .null fm2_5 = true ∧
    holds (.app2 .eq (atP []) (.const (.int (-2)))) .null fm2_5 = false ∧
    holds (.app2 .gte (atP []) (.const (.int (-2)))) .null fm2_5 = false ∧
    holds (.app2 .gt (.const (.int (-2))) (atP [])) .null fm2_5 = true ∧
    holds (.app2 .neq (.const (.int (-2))) (atP [])) .null fm2_5 = true := by decide +kernel

/-- a path alone tests existence, not the value: `@.a` on `{"a":false}` is true, on `{"b":1}` false -/
example : holds (atP [.child [97]]) .null (.obj [([97], .bool false)]) = true ∧
    holds (atP [.child [97]]) .null (.obj [([98], .int 1)]) = false := by decide

/-- the root `{"k":2,"d":[{"a":1},{"a":2}]}` -/
def rootEx : JV := .obj [([107], .int 2), ([100], .arr [.obj [([97], .int 1)], .obj [([97], .int 2)]])]

/-- where a path selects (values have no decidable equality) -/
def locs (x : List Frag) (d : JV) : List Path := (eval x d).map (·.1)

/-- `$.d[?(@.a == $.k)]` keeps `{"a":2}` only: `$` is the query argument although the filter sits below it -/
example : locs [.child [100], filterOf noRx false (some rootEx) (.app2 .eq (atP [.child [97]]) (rootP [.child [107]]))] rootEx
    = [[.key [100], .idx 1]] := by decide +kernel

/-- with a nil root (what `Filter.locate` passes) `$.k` is nothing and the same filter keeps no element; with
every element as its own root (what `Filter.Walk` does) likewise -/
example : locs [.child [100], filterOf noRx false (some .null) (.app2 .eq (atP [.child [97]]) (rootP [.child [107]]))] rootEx = [] ∧
    locs [.child [100], filterOf noRx false none (.app2 .eq (atP [.child [97]]) (rootP [.child [107]]))] rootEx = [] := by
  decide +kernel

/-- a `$` in a nested filter: on `[{"a":1,"q":[1,5]},{"a":5,"q":[1,5]}]`, `$[?(@.q[?(@ == $[0].a)])]` keeps
both elements by the documented reading (`$[0].a` is 1, both `q` have a 1); by the code's (`nest`) the inner `$`
is the element under test, `$[0]` of an object is nothing, and no element is kept -/
example :
    let e (a : Int) : JV := .obj [([97], .int a), ([113], .arr [.int 1, .int 5])]
    let d : JV := .arr [e 1, e 5]
    let inner (nest : Bool) (r : JV) : Frag := filterOf noRx nest (some r) (.app2 .eq (atP []) (rootP [.nth 0, .child [97]]))
    let outer (nest : Bool) : Frag := filterOf noRx nest (some d) (.path false fun r => [.child [113], inner nest r])
    locs [outer false] d = [[.idx 0], [.idx 1]] ∧ locs [outer true] d = [] := by decide +kernel

end OjgVerif.JPath.FilterSpec
