import OjgVerif.JPath.Spec
import OjgVerif.Script.Spec
/-! # The truth value of a filter script, for the JSONPath specification

`Spec.sel (.filter p)` takes the script as a predicate `JV → Bool`. This file supplies that predicate from
the script itself, by the documented semantics — it is what C05 ("filter keeping the elements whose
script is true") is judged against; the implementation is never asked.

* Operators are those of the script specification of the C12 family (`Script.Spec.evalOp`): numbers compare
  by exact value across int and float (`10.0 <= 10`, `9 < 10.0`, `-0.0 == 0`), strings byte-lexically,
  `==`/`!=` are complements, ordering between different kinds is false, `&& || !` are the connectives.
* A path operand is `@` followed by **any** JSONPath fragments (member, index, wildcard, descent, union,
  slice, and nested filters, whose own scripts are evaluated the same way); it is evaluated with the
  JSONPath denotation `Spec.eval` on the element under test. A path that selects nothing is `Nothing`; a path
  that selects several nodes makes the script true when SOME choice of one node per occurrence does
  (`Script.Spec.choices`).
* A script that is a path only is an existence test (RFC 9535 §2.3.5; ojg since 6b93c2a also for
  `Expr.Filter`): `$[?(@.a)]` keeps the elements that have a member `a`, whatever its value — also `false`
  or `null`.
* `count(path)` is the number of nodes the path selects.
Scripts here are `@`-relative (no `$`): Locate and Walk evaluate a filter with another root (see C11). -/
namespace OjgVerif.JPath.FilterSpec
open OjgVerif OjgVerif.JPath OjgVerif.Script

/-- the binary64 with these bits (big-endian bytes), exactly; anything else is NaN -/
def fltOfBits (t : Bytes) : Flt :=
  if t.length ≠ 8 then .nan
  else
    let bits : Nat := t.foldl (fun a b => a * 256 + b.toNat) 0
    let neg := bits / 2 ^ 63 = 1
    let ex : Nat := bits / 2 ^ 52 % 2048
    let frac : Nat := bits % 2 ^ 52
    if ex = 2047 then (if frac = 0 then .inf neg else .nan)
    else
      let m : Int := if ex = 0 then (frac : Int) else (frac : Int) + 2 ^ 52
      let e : Int := if ex = 0 then -1074 else (ex : Int) - 1075
      .fin (if neg then -m else m) e

mutual
  /-- JSON-like data as script operands (a float is the value of its bits) -/
  def toVal : JV → Val
    | .null => .null
    | .bool b => .bool b
    | .int i => .int i
    | .flt t => .flt (fltOfBits t)
    | .big _ => .nothing
    | .num _ => .nothing
    | .str s => .str s
    | .arr xs => .arr (toVals xs)
    | .obj kvs => .obj (toKvs kvs)
  def toVals : List JV → List Val
    | [] => []
    | x :: r => toVal x :: toVals r
  def toKvs : List (Bytes × JV) → List (Bytes × Val)
    | [] => []
    | m :: r => (m.1, toVal m.2) :: toKvs r
end

/-- script expressions; a path operand is `@` followed by JSONPath fragments (a nested filter fragment
carries the predicate of its own script) -/
inductive STm where
  | const (v : Val)
  | path (fs : List Frag)
  | app1 (o : Op) (a : STm)
  | app2 (o : Op) (a b : STm)

/-- the values an expression can take on an element: one per choice of a node for every path occurrence -/
def values (rx : RxEngine) (elem : JV) : STm → List Val
  | .const v => [v]
  | .path fs =>
    match (evalV fs elem).map toVal with
    | [] => [.nothing]
    | l => l
  | .app1 o a =>
    if o = .count then
      match a with
      | .path fs => [Spec.evalOp rx .count (.arr ((evalV fs elem).map toVal)) .null]
      | _ => [.nothing]
    else (values rx elem a).map fun x => Spec.evalOp rx o x .null
  | .app2 o a b => (values rx elem a).flatMap fun x => (values rx elem b).map fun y => Spec.evalOp rx o x y

/-- a path alone is an existence test -/
def normalise : STm → STm
  | .path fs => .app2 .exists (.path fs) (.const (.bool true))
  | t => t

/-- **the script is true on the element** -/
def «matches» (rx : RxEngine) (t : STm) (elem : JV) : Bool :=
  (values rx elem (normalise t)).any Spec.isTrue

/-- the filter fragment of a script -/
def filterOf (rx : RxEngine) (t : STm) : Frag := .filter (fun v => «matches» rx t v)

/-! documented behaviour, checked on the spot -/

/-- no regular expressions in these examples -/
def noRx : RxEngine := fun _ _ => none

/-- `10.0` as bits -/
def f10 : JV := .flt [0x40, 0x24, 0, 0, 0, 0, 0, 0]
/-- `-0.0` as bits -/
def fneg0 : JV := .flt [0x80, 0, 0, 0, 0, 0, 0, 0]

/-- `@ <= 10` is true on 10.0 (and `@ < 10` is not); `9 < 10.0`; `-0.0 == 0` -/
example : «matches» noRx (.app2 .lte (.path []) (.const (.int 10))) f10 = true ∧
    «matches» noRx (.app2 .lt (.path []) (.const (.int 10))) f10 = false ∧
    «matches» noRx (.app2 .gte (.const (.int 10)) (.path [])) f10 = true ∧
    «matches» noRx (.app2 .lt (.const (.int 9)) (.path [])) f10 = true ∧
    «matches» noRx (.app2 .eq (.path []) (.const (.int 0))) fneg0 = true := by decide +kernel

/-- a path alone tests existence, not the value: `@.a` on `{"a":false}` is true, on `{"b":1}` false -/
example : «matches» noRx (.path [.child [97]]) (.obj [([97], .bool false)]) = true ∧
    «matches» noRx (.path [.child [97]]) (.obj [([98], .int 1)]) = false := by decide

end OjgVerif.JPath.FilterSpec
