import OjgVerif.JPath.Lemmas
/-! # Selection functions of Get against the specification

Index arithmetic (loops as arithmetic progressions, the truncated division of the inner slice branch,
negative steps by mirroring), then fragment by fragment: what get.go selects in the last position is
what the fragment denotes; what it pushes in an inner position, popped, is the containers among them. -/
set_option linter.unusedSimpArgs false
namespace OjgVerif.JPath
open OjgVerif

/-! ### loops as progressions -/

theorem loopUp_eq (m : Nat) (i stop step : Int) :
    loopUp m i stop step = ((List.range m).map fun (k : Nat) => i + (k : Int) * step).takeWhile fun j => decide (j < stop) := by
  induction m generalizing i with
  | zero => simp [loopUp]
  | succ m ih =>
    rw [loopUp, List.range_succ_eq_map]
    simp only [List.map_cons, List.map_map, List.takeWhile_cons]
    have h0 : i + ((0 : Nat) : Int) * step = i := by simp
    rw [h0]
    by_cases h : i < stop
    · simp only [h, ↓reduceIte, decide_true]
      rw [ih]
      congr 2
      apply List.map_congr_left
      intro k _
      simp only [Function.comp, Nat.succ_eq_add_one, Int.natCast_add, Int.cast_ofNat_Int]
      rw [Int.add_mul, Int.one_mul]; omega
    · simp [h]

theorem loopDown_eq (m : Nat) (i stop step : Int) :
    loopDown m i stop step = ((List.range m).map fun (k : Nat) => i + (k : Int) * step).takeWhile fun j => decide (stop < j) := by
  induction m generalizing i with
  | zero => simp [loopDown]
  | succ m ih =>
    rw [loopDown, List.range_succ_eq_map]
    simp only [List.map_cons, List.map_map, List.takeWhile_cons]
    have h0 : i + ((0 : Nat) : Int) * step = i := by simp
    rw [h0]
    by_cases h : stop < i
    · simp only [h, ↓reduceIte, decide_true]
      rw [ih]
      congr 2
      apply List.map_congr_left
      intro k _
      simp only [Function.comp, Nat.succ_eq_add_one, Int.natCast_add, Int.cast_ofNat_Int]
      rw [Int.add_mul, Int.one_mul]; omega
    · simp [h]

/-- explicit form of an upward loop that makes `q + 1` rounds -/
theorem loopUp_rounds (q : Nat) : ∀ (fuel : Nat) (s e t : Int), q < fuel → 1 ≤ t →
    s + (q : Int) * t < e → e ≤ s + ((q : Int) + 1) * t →
    loopUp fuel s e t = (List.range (q + 1)).map fun (k : Nat) => s + (k : Int) * t := by
  induction q with
  | zero =>
    intro fuel s e t hf ht h1 h2
    obtain ⟨f, rfl⟩ : ∃ f, fuel = f + 1 := ⟨fuel - 1, by omega⟩
    simp only [Int.natCast_zero, Int.zero_mul, Int.add_zero, Int.zero_add, Int.one_mul] at h1 h2
    rw [loopUp]
    simp only [h1, ↓reduceIte]
    cases f with
    | zero => simp [loopUp]
    | succ f =>
      rw [loopUp]
      have : ¬ (s + t < e) := by omega
      simp [this]
  | succ q ih =>
    intro fuel s e t hf ht h1 h2
    obtain ⟨f, rfl⟩ : ∃ f, fuel = f + 1 := ⟨fuel - 1, by omega⟩
    have e1 : ((q + 1 : Nat) : Int) * t = (q : Int) * t + t := by
      rw [Int.natCast_add, Int.add_mul]; simp
    have e2 : (((q + 1 : Nat) : Int) + 1) * t = (q : Int) * t + t + t := by
      rw [Int.add_mul, e1]; simp
    have e3 : ((q : Int) + 1) * t = (q : Int) * t + t := by rw [Int.add_mul]; simp
    have hq0 : 0 ≤ (q : Int) * t := Int.mul_nonneg (Int.natCast_nonneg q) (by omega)
    rw [loopUp]
    have hs : s < e := by omega
    simp only [hs, ↓reduceIte]
    rw [ih f (s + t) e t (by omega) ht (by omega) (by omega)]
    rw [List.range_succ_eq_map (n := q + 1)]
    simp only [List.map_cons, List.map_map, Int.natCast_zero, Int.zero_mul, Int.add_zero, List.cons.injEq, true_and]
    apply List.map_congr_left
    intro k _
    simp only [Function.comp, Nat.succ_eq_add_one, Int.natCast_add, Int.cast_ofNat_Int]
    rw [Int.add_mul, Int.one_mul]; omega

/-- explicit form of the downward push loop from `s + q·t` -/
theorem pushDown_rounds (q : Nat) : ∀ (fuel : Nat) (s t : Int), q < fuel → 1 ≤ t →
    pushDown fuel (s + (q : Int) * t) s t = ((List.range (q + 1)).map fun (k : Nat) => s + (k : Int) * t).reverse := by
  induction q with
  | zero =>
    intro fuel s t hf ht
    obtain ⟨f, rfl⟩ : ∃ f, fuel = f + 1 := ⟨fuel - 1, by omega⟩
    simp only [Int.natCast_zero, Int.zero_mul, Int.add_zero]
    rw [pushDown]
    simp only [Int.le_refl, ↓reduceIte]
    cases f with
    | zero => simp [pushDown]
    | succ f =>
      rw [pushDown]
      have : ¬ (s ≤ s - t) := by omega
      simp [this]
  | succ q ih =>
    intro fuel s t hf ht
    obtain ⟨f, rfl⟩ : ∃ f, fuel = f + 1 := ⟨fuel - 1, by omega⟩
    have e1 : ((q + 1 : Nat) : Int) * t = (q : Int) * t + t := by
      rw [Int.natCast_add, Int.add_mul]; simp
    have hq0 : 0 ≤ (q : Int) * t := Int.mul_nonneg (Int.natCast_nonneg q) (by omega)
    rw [pushDown]
    have hs : s ≤ s + ((q + 1 : Nat) : Int) * t := by omega
    simp only [hs, ↓reduceIte]
    have hsub : s + ((q + 1 : Nat) : Int) * t - t = s + (q : Int) * t := by omega
    rw [hsub, ih f s t (by omega) ht]
    rw [List.range_succ (n := q + 1)]
    simp [e1]

theorem loopDown_neg (m : Nat) (i stop step : Int) :
    loopDown m i stop step = (loopUp m (-i) (-stop) (-step)).map fun j => -j := by
  induction m generalizing i with
  | zero => simp [loopDown, loopUp]
  | succ m ih =>
    rw [loopDown, loopUp]
    by_cases h : stop < i
    · have h' : -i < -stop := by omega
      simp only [h, h', ↓reduceIte, List.map_cons, Int.neg_neg]
      rw [ih]
      have : -(i + step) = -i + -step := by omega
      rw [this]
    · have h' : ¬ (-i < -stop) := by omega
      simp [h, h']

theorem pushUp_neg (m : Nat) (i start step : Int) :
    pushUp m i start step = (pushDown m (-i) (-start) (-step)).map fun j => -j := by
  induction m generalizing i with
  | zero => simp [pushUp, pushDown]
  | succ m ih =>
    rw [pushUp, pushDown]
    by_cases h : i ≤ start
    · have h' : -start ≤ -i := by omega
      simp only [h, h', ↓reduceIte, List.map_cons, Int.neg_neg]
      rw [ih]
      have : -(i - step) = -i - -step := by omega
      rw [this]
    · have h' : ¬ (-start ≤ -i) := by omega
      simp [h, h']

/-- the inner-branch push loop with the truncated division, popped, is the last-branch loop — unless the
range is empty, the deviation flag is on and the step is wider than 1 -/
theorem core_up (flag : Bool) (n : Nat) (s e t : Int) (ht : 1 ≤ t) (hspan : e - s ≤ n) (hn : 1 ≤ n)
    (hok : flag = false ∨ t = 1) :
    (if !flag && decide (e ≤ s) then [] else pushDown n (s + (e - s - 1).tdiv t * t) s t).reverse
      = loopUp n s e t := by
  obtain ⟨f, rfl⟩ : ∃ f, n = f + 1 := ⟨n - 1, by omega⟩
  by_cases hemp : e ≤ s
  · -- empty range
    have hlu : loopUp (f + 1) s e t = [] := by
      rw [loopUp]; have : ¬ (s < e) := by omega
      simp [this]
    rw [hlu]
    rcases hok with hfl | ht1
    · simp [hfl, hemp]
    · subst ht1
      have : ¬ (s ≤ s + (e - s - 1)) := by omega
      cases flag <;> simp [hemp, pushDown, this]
  · -- s < e
    have hse : s < e := by omega
    have ha : 0 ≤ e - s - 1 := by omega
    have hQ0 : 0 ≤ (e - s - 1).tdiv t := Int.tdiv_nonneg ha (by omega)
    obtain ⟨q, hq⟩ : ∃ q : Nat, (e - s - 1).tdiv t = (q : Int) := ⟨((e - s - 1).tdiv t).toNat, by omega⟩
    have hmod := Int.tmod_add_tdiv_mul (e - s - 1) t
    have hr0 : 0 ≤ (e - s - 1).tmod t := Int.tmod_nonneg t ha
    have hrt : (e - s - 1).tmod t < t := Int.tmod_lt_of_pos _ (by omega)
    rw [hq] at hmod
    have e3 : ((q : Int) + 1) * t = (q : Int) * t + t := by rw [Int.add_mul]; simp
    have hqle : (q : Int) ≤ (q : Int) * t := by
      have h1 : (q : Int) * t = (q : Int) * (t - 1) + q := by rw [Int.mul_sub, Int.mul_one]; omega
      have h2 : 0 ≤ (q : Int) * (t - 1) := Int.mul_nonneg (Int.natCast_nonneg q) (by omega)
      omega
    have hqf : q < f + 1 := by omega
    have hcond : (!flag && decide (e ≤ s)) = false := by simp [hemp]
    rw [hcond, hq]
    simp only [Bool.false_eq_true, ↓reduceIte]
    rw [pushDown_rounds q (f + 1) s t hqf ht, List.reverse_reverse]
    rw [loopUp_rounds q (f + 1) s e t hqf ht (by omega) (by omega)]

/-- get.go, slice in an inner position: the pushes, popped, are the indexes of the last-position loop -/
theorem innerIdx_rev (cfg : Cfg) (n : Nat) (b : SES) (hn : 1 ≤ n) (h0 : b.step ≠ 0)
    (hup : 0 < b.step → b.stop - b.start ≤ n) (hdn : b.step < 0 → b.start - b.stop ≤ n)
    (hok : cfg.innerEmptySlice = false ∨ (-1 ≤ b.step ∧ b.step ≤ 1)) :
    (Get.innerIdx cfg n b).reverse = Get.lastIdx n b := by
  unfold Get.innerIdx Get.lastIdx
  by_cases hpos : 0 < b.step
  · simp only [hpos, ↓reduceIte]
    exact core_up cfg.innerEmptySlice n b.start b.stop b.step (by omega) (hup hpos) hn
      (by rcases hok with h | h; exact Or.inl h; exact Or.inr (by omega))
  · have hneg : b.step < 0 := by omega
    simp only [hpos, ↓reduceIte]
    have hc := core_up cfg.innerEmptySlice n (-b.start) (-b.stop) (-b.step) (by omega) (by have := hdn hneg; omega) hn
      (by rcases hok with h | h; exact Or.inl h; exact Or.inr (by omega))
    rw [loopDown_neg, ← hc]
    have hdec : decide (-b.stop ≤ -b.start) = decide (b.start ≤ b.stop) := by
      apply decide_eq_decide.mpr; omega
    have harg : -b.stop - -b.start - 1 = b.start - b.stop - 1 := by omega
    rw [hdec, harg, Int.tdiv_neg, Int.neg_mul_neg]
    by_cases hc2 : (!cfg.innerEmptySlice && decide (b.start ≤ b.stop)) = true
    · simp [hc2]
    · simp only [hc2, Bool.false_eq_true, ↓reduceIte]
      rw [pushUp_neg, ← List.map_reverse]
      have : -(b.start - (b.start - b.stop - 1).tdiv b.step * b.step) = -b.start + (b.start - b.stop - 1).tdiv b.step * b.step := by
        omega
      rw [this]

/-- the index list of the model's last-position slice code (nothing if a `continue` is taken) -/
def modelIdx (clampNeg : Bool) (n : Nat) (s e t : Option Int) : List Int :=
  match Get.norm clampNeg n s e t with
  | none => []
  | some b => Get.lastIdx n b

def nStart (n : Nat) (s : Option Int) : Int :=
  if s.getD 0 < 0 then (if (n : Int) + s.getD 0 < 0 then 0 else (n : Int) + s.getD 0) else s.getD 0

def nStop (clampNeg : Bool) (n : Nat) (e t : Option Int) : Int :=
  let stop := if e.getD maxEnd < 0 then (n : Int) + e.getD maxEnd else e.getD maxEnd
  let stop := if (decide (0 < t.getD 1) || clampNeg) && decide ((n : Int) < stop) then (n : Int) else stop
  if decide (t.getD 1 < 0) && decide (stop < -1) then -1 else stop

theorem norm_eq (c : Bool) (n : Nat) (s e t : Option Int) :
    Get.norm c n s e t =
      if t.getD 1 = 0 then none
      else if (n : Int) ≤ nStart n s then none
      else some ⟨nStart n s, nStop c n e t, t.getD 1⟩ := rfl

def specStart (n : Nat) (s : Option Int) : Int := if s.getD 0 < 0 then max (s.getD 0 + n) 0 else s.getD 0
def specStopUp (n : Nat) (e : Option Int) : Int :=
  match e with
  | none => n
  | some e => if e < 0 then e + n else min e n
def specStopDown (n : Nat) (e : Option Int) : Int :=
  match e with
  | none => n
  | some e => if e < 0 then max (e + n) (-1) else min e n

theorem sliceIdx_unfold (n : Nat) (s e t : Option Int) :
    sliceIdx n s e t =
      if t.getD 1 = 0 ∨ (n : Int) ≤ specStart n s then []
      else if 0 < t.getD 1 then
        ((progression n (specStart n s) (t.getD 1)).takeWhile fun i => decide (i < specStopUp n e)).map Int.toNat
      else
        ((progression n (specStart n s) (t.getD 1)).takeWhile fun i => decide (specStopDown n e < i)).map Int.toNat := rfl

theorem nStart_eq (n : Nat) (s : Option Int) : nStart n s = specStart n s := by
  unfold nStart specStart
  split
  · split <;> omega
  · rfl

theorem nStop_up (n : Nat) (e t : Option Int) (hn : (n : Int) ≤ maxEnd) (hpos : 0 < t.getD 1) :
    nStop true n e t = specStopUp n e := by
  have hneg : ¬ (t.getD 1 < 0) := by omega
  unfold nStop specStopUp
  simp only [hpos, decide_true, Bool.true_or, Bool.true_and, hneg, decide_false, Bool.false_and,
    Bool.false_eq_true, ↓reduceIte, decide_eq_true_eq]
  cases e with
  | none =>
    simp only [Option.getD_none]
    split <;> split <;> omega
  | some ev =>
    simp only [Option.getD_some]
    split <;> split <;> omega

theorem nStop_down (n : Nat) (e t : Option Int) (hn : (n : Int) ≤ maxEnd) (hneg : t.getD 1 < 0) :
    nStop true n e t = specStopDown n e := by
  have hpos : ¬ (0 < t.getD 1) := by omega
  unfold nStop specStopDown
  simp only [hpos, decide_false, Bool.false_or, Bool.true_and, hneg, decide_true, decide_eq_true_eq,
    Bool.or_true]
  cases e with
  | none =>
    simp only [Option.getD_none]
    split <;> split <;> split <;> omega
  | some ev =>
    simp only [Option.getD_some]
    split <;> split <;> split <;> omega

/-- **slice, last position**: the normalisation and loop of get.go give the documented indexes -/
theorem sliceIdx_eq (n : Nat) (s e t : Option Int) (hn : (n : Int) ≤ maxEnd) :
    sliceIdx n s e t = (modelIdx true n s e t).map Int.toNat := by
  rw [sliceIdx_unfold, modelIdx, norm_eq, nStart_eq]
  by_cases h0 : t.getD 1 = 0
  · simp [h0]
  · by_cases hst : (n : Int) ≤ specStart n s
    · simp [h0, hst]
    · simp only [h0, hst, or_self, ↓reduceIte, Get.lastIdx]
      by_cases hpos : 0 < t.getD 1
      · simp only [hpos, ↓reduceIte, nStop_up n e t hn hpos, loopUp_eq, progression]
      · have hneg : t.getD 1 < 0 := by omega
        simp only [hpos, ↓reduceIte, nStop_down n e t hn hneg, loopDown_eq, progression]


theorem loopUp_ge (m : Nat) (i stop step : Int) (hs : 0 ≤ step) : ∀ j ∈ loopUp m i stop step, i ≤ j := by
  induction m generalizing i with
  | zero => simp [loopUp]
  | succ m ih =>
    intro j hj
    rw [loopUp] at hj
    split at hj
    · rcases List.mem_cons.mp hj with rfl | h
      · exact Int.le_refl _
      · have := ih (i + step) j h; omega
    · simp at hj

theorem loopDown_gt (m : Nat) (i stop step : Int) : ∀ j ∈ loopDown m i stop step, stop < j := by
  induction m generalizing i with
  | zero => simp [loopDown]
  | succ m ih =>
    intro j hj
    rw [loopDown] at hj
    split at hj
    · rcases List.mem_cons.mp hj with rfl | h
      · assumption
      · exact ih (i + step) j h
    · simp at hj

theorem nStart_nonneg (n : Nat) (s : Option Int) : 0 ≤ nStart n s := by
  unfold nStart
  split
  · split <;> omega
  · omega

theorem nStop_le (c : Bool) (n : Nat) (e t : Option Int) (hpos : 0 < t.getD 1) : nStop c n e t ≤ n := by
  have hneg : ¬ (t.getD 1 < 0) := by omega
  unfold nStop
  simp only [hpos, decide_true, Bool.true_or, Bool.true_and, hneg, decide_false, Bool.false_and,
    Bool.false_eq_true, ↓reduceIte, decide_eq_true_eq]
  split <;> omega

theorem nStop_ge (c : Bool) (n : Nat) (e t : Option Int) (hneg : t.getD 1 < 0) : -1 ≤ nStop c n e t := by
  unfold nStop
  simp only [hneg, decide_true, Bool.true_and, decide_eq_true_eq]
  split <;> omega

theorem modelIdx_nonneg (c : Bool) (n : Nat) (s e t : Option Int) : ∀ i ∈ modelIdx c n s e t, 0 ≤ i := by
  intro i hi
  rw [modelIdx, norm_eq] at hi
  by_cases h0 : t.getD 1 = 0
  · simp [h0] at hi
  · by_cases hst : (n : Int) ≤ nStart n s
    · simp [h0, hst] at hi
    · simp only [h0, hst, ↓reduceIte, Get.lastIdx] at hi
      by_cases hpos : 0 < t.getD 1
      · simp only [hpos, ↓reduceIte] at hi
        have := loopUp_ge _ _ _ _ (by omega) i hi
        have := nStart_nonneg n s
        omega
      · simp only [hpos, ↓reduceIte] at hi
        have := loopDown_gt _ _ _ _ i hi
        have := nStop_ge c n e t (by omega)
        omega

/-! ### sizes -/
mutual
  def jsize : JV → Nat
    | .arr xs => 1 + jsizeL xs
    | .obj kvs => 1 + jsizeKV kvs
    | _ => 1
  def jsizeL : List JV → Nat
    | [] => 0
    | x :: r => jsize x + jsizeL r
  def jsizeKV : List (Bytes × JV) → Nat
    | [] => 0
    | m :: r => jsize m.2 + jsizeKV r
end

theorem jsize_pos (v : JV) : 1 ≤ jsize v := by cases v <;> simp [jsize] <;> omega

theorem length_le_jsizeL (xs : List JV) : xs.length ≤ jsizeL xs := by
  induction xs with
  | nil => simp [jsizeL]
  | cons a t ih => have := jsize_pos a; simp [jsizeL]; omega

theorem mem_jsizeL (xs : List JV) (c : JV) (h : c ∈ xs) : jsize c ≤ jsizeL xs := by
  induction xs with
  | nil => simp at h
  | cons a t ih =>
    rcases List.mem_cons.mp h with rfl | h
    · simp [jsizeL]
    · have := ih h; simp [jsizeL]; omega

theorem mem_jsizeKV (kvs : List (Bytes × JV)) (m : Bytes × JV) (h : m ∈ kvs) : jsize m.2 ≤ jsizeKV kvs := by
  induction kvs with
  | nil => simp at h
  | cons a t ih =>
    rcases List.mem_cons.mp h with rfl | h
    · simp [jsizeKV]
    · have := ih h; simp [jsizeKV]; omega

theorem elemsFrom_mem (i : Nat) (xs : List JV) (m : Path × JV) (h : m ∈ elemsFrom i xs) : m.2 ∈ xs := by
  induction xs generalizing i with
  | nil => simp [elemsFrom] at h
  | cons a t ih =>
    simp only [elemsFrom, List.mem_cons] at h
    rcases h with rfl | h
    · simp
    · exact List.mem_cons_of_mem _ (ih (i + 1) h)

theorem members_size (v : JV) (m : Path × JV) (h : m ∈ members v) : jsize m.2 < jsize v := by
  cases v with
  | arr xs =>
    have := mem_jsizeL xs m.2 (elemsFrom_mem 0 xs m h)
    simp [jsize]; omega
  | obj kvs =>
    simp only [members, List.mem_map] at h
    obtain ⟨kv, hkv, rfl⟩ := h
    have := mem_jsizeKV kvs kv hkv
    simp [jsize]; omega
  | _ => simp [members] at h

mutual
theorem desc_size : ∀ (v : JV) (m : Path × JV), m ∈ desc v → jsize m.2 ≤ jsize v
  | .arr xs, m, h => by
    simp only [desc, List.mem_append, List.mem_singleton] at h
    rcases h with h | rfl
    · have := descArr_size xs 0 m h
      simp only [jsize]; omega
    · exact Nat.le_refl _
  | .obj kvs, m, h => by
    simp only [desc, List.mem_append, List.mem_singleton] at h
    rcases h with h | rfl
    · have := descObj_size kvs m h
      simp only [jsize]; omega
    · exact Nat.le_refl _
  | .null, m, h => by simp [desc] at h; simp [h]
  | .bool _, m, h => by simp [desc] at h; simp [h]
  | .int _, m, h => by simp [desc] at h; simp [h]
  | .flt _, m, h => by simp [desc] at h; simp [h]
  | .big _, m, h => by simp [desc] at h; simp [h]
  | .num _, m, h => by simp [desc] at h; simp [h]
  | .str _, m, h => by simp [desc] at h; simp [h]
theorem descArr_size : ∀ (xs : List JV) (i : Nat) (m : Path × JV), m ∈ descArr i xs → jsize m.2 ≤ jsizeL xs
  | [], i, m, h => by simp [descArr] at h
  | x :: r, i, m, h => by
    simp only [descArr, List.mem_append, List.mem_map] at h
    rcases h with ⟨q, hq, rfl⟩ | h
    · have := desc_size x q hq
      simp only [jsizeL, pfx_snd]; omega
    · have := descArr_size r (i + 1) m h
      simp only [jsizeL]; omega
theorem descObj_size : ∀ (kvs : List (Bytes × JV)) (m : Path × JV), m ∈ descObj kvs → jsize m.2 ≤ jsizeKV kvs
  | [], m, h => by simp [descObj] at h
  | kv :: r, m, h => by
    simp only [descObj, List.mem_append, List.mem_map] at h
    rcases h with ⟨q, hq, rfl⟩ | h
    · have := desc_size kv.2 q hq
      simp only [jsizeKV, pfx_snd]; omega
    · have := descObj_size r m h
      simp only [jsizeKV]; omega
end

theorem selMember_mem (v : JV) (mb : Member) (m : Path × JV) (h : m ∈ selMember v mb) : jsize m.2 ≤ jsize v := by
  cases mb with
  | key k =>
    cases v with
    | obj kvs =>
      simp only [selMember, List.mem_map, Option.mem_toList] at h
      obtain ⟨c, hc, rfl⟩ := h
      have hmem : ∃ kv ∈ kvs, kv.2 = c := by
        induction kvs with
        | nil => simp [lookup] at hc
        | cons a t ih =>
          simp only [lookup] at hc
          split at hc
          · exact ⟨a, by simp, by simpa using hc⟩
          · obtain ⟨kv, hkv, he⟩ := ih hc
            exact ⟨kv, List.mem_cons_of_mem _ hkv, he⟩
      obtain ⟨kv, hkv, rfl⟩ := hmem
      have := mem_jsizeKV kvs kv hkv
      simp [jsize]; omega
    | _ => simp [selMember] at h
  | idx i =>
    cases v with
    | arr xs =>
      simp only [selMember] at h
      split at h
      · simp only [List.mem_map, Option.mem_toList] at h
        obtain ⟨c, hc, rfl⟩ := h
        have := mem_jsizeL xs c (List.mem_of_getElem? hc)
        simp [jsize]; omega
      · simp at h
    | _ => simp [selMember] at h

/-- whatever a fragment selects is no larger than the value it is applied to -/
theorem sel_size (f : Frag) (v : JV) (m : Path × JV) (h : m ∈ sel f v) : jsize m.2 ≤ jsize v := by
  cases f with
  | child k => exact selMember_mem v (.key k) m (by simpa [sel] using h)
  | nth i => exact selMember_mem v (.idx i) m (by simpa [sel] using h)
  | wild => exact Nat.le_of_lt (members_size v m h)
  | descent => exact desc_size v m h
  | union ms =>
    simp only [sel, List.mem_flatMap] at h
    obtain ⟨mb, _, hm⟩ := h
    exact selMember_mem v mb m hm
  | slice s e t =>
    cases v with
    | arr xs =>
      simp only [sel, List.mem_flatMap, List.mem_map, Option.mem_toList] at h
      obtain ⟨j, _, c, hc, rfl⟩ := h
      have := mem_jsizeL xs c (List.mem_of_getElem? hc)
      simp [jsize]; omega
    | _ => simp [sel] at h
  | filter p =>
    simp only [sel, List.mem_filter] at h
    exact Nat.le_of_lt (members_size v m h.1)


/-! ### fragment by fragment, simple data -/

theorem flatMap_congr' {α β : Type} (l : List α) (f g : α → List β) (h : ∀ a ∈ l, f a = g a) :
    l.flatMap f = l.flatMap g := by
  induction l with
  | nil => rfl
  | cons a t ih =>
    simp only [List.flatMap_cons]
    rw [h a (by simp), ih (fun b hb => h b (List.mem_cons_of_mem _ hb))]

theorem mKey_eq (k : Bytes) (v : JV) : mKey k v = selMember v (.key k) := by
  cases v with
  | obj kvs =>
    simp only [mKey, selMember]
    cases lookup k kvs <;> simp
  | _ => simp [mKey, selMember]

theorem mIdx_eq (i : Int) (v : JV) : mIdx i v = selMember v (.idx i) := by
  cases v with
  | arr xs =>
    simp only [mIdx, selMember, absIdx]
    have hj : (if i < 0 then (xs.length : Int) + i else i) = (if i < 0 then i + (xs.length : Int) else i) := by
      split <;> omega
    rw [hj]
    generalize (if i < 0 then i + (xs.length : Int) else i) = j
    by_cases hc : 0 ≤ j ∧ j < (xs.length : Int)
    · simp only [hc, and_self, ↓reduceIte]
      cases xs[j.toNat]? <;> simp
    · simp [hc]
  | _ => simp [mIdx, selMember]

theorem mMember_eq (v : JV) (mb : Member) : mMember v mb = selMember v mb := by
  cases mb with
  | key k => exact mKey_eq k v
  | idx i => exact mIdx_eq i v

theorem elemAt_eq (xs : List JV) (i : Int) (h : 0 ≤ i) :
    elemAt xs i = (xs[i.toNat]?).toList.map fun c => ([Loc.idx i.toNat], c) := by
  simp only [elemAt, h, ↓reduceIte]
  cases xs[i.toNat]? <;> simp

theorem elemAt_small (xs : List JV) (i : Int) : (elemAt xs i).length ≤ 1 := by
  unfold elemAt
  split
  · split <;> simp
  · simp

/-- slice in the last position on `[]any` data -/
theorem sliceLast_eq (s e t : Option Int) (v : JV)
    (hlen : ∀ xs, v = .arr xs → (xs.length : Int) ≤ maxEnd) :
    Get.sliceLast Rep.simple s e t v = sel (.slice s e t) v := by
  cases v with
  | arr xs =>
    have hl := hlen xs rfl
    have hm : Get.sliceLast Rep.simple s e t (.arr xs) = (modelIdx true xs.length s e t).flatMap (elemAt xs) := by
      simp only [Get.sliceLast, Get.normFor, Rep.simple, modelIdx]
      cases Get.norm true xs.length s e t <;> simp
    rw [hm]
    simp only [sel, sliceIdx_eq xs.length s e t hl, List.flatMap_map]
    apply flatMap_congr'
    intro i hi
    exact elemAt_eq xs i (modelIdx_nonneg true xs.length s e t i hi)
  | _ => simp [Get.sliceLast, sel]

/-- what every non-descent fragment yields in the last position is what it denotes -/
theorem last_eq_sel (cfg : Cfg) (f : Frag) (v : JV) (hf : isDescent f = false)
    (hlen : ∀ xs, v = .arr xs → (xs.length : Int) ≤ maxEnd) :
    Get.last cfg Rep.simple f v = sel f v := by
  cases f with
  | descent => simp [isDescent] at hf
  | child k => simp [Get.last, sel, mKey_eq]
  | nth i => simp [Get.last, sel, mIdx_eq]
  | wild =>
    cases v <;> simp [Get.last, sel, Get.wildKids, members, Rep.simple]
  | union ms =>
    simp only [Get.last, sel]
    congr 1
    funext mb
    exact mMember_eq v mb
  | slice s e t => exact sliceLast_eq s e t v hlen
  | filter p =>
    cases v <;> simp [Get.last, sel, Get.filterKids, members, Rep.simple, OKind.typed]


theorem reverse_small {α : Type} (l : List α) (h : l.length ≤ 1) : l.reverse = l := by
  match l with
  | [] => rfl
  | [a] => rfl
  | a :: b :: t => simp at h

theorem rev_flatMap_small {α β : Type} (l : List α) (F : α → List β) (h : ∀ a, (F a).length ≤ 1) :
    (l.reverse.flatMap F).reverse = l.flatMap F := by
  induction l with
  | nil => rfl
  | cons a t ih =>
    simp only [List.reverse_cons, List.flatMap_append, List.flatMap_cons, List.flatMap_nil, List.append_nil,
      List.reverse_append, ih, reverse_small (F a) (h a)]

theorem flatMap_reverse_small {α β : Type} (l : List α) (F : α → List β) (h : ∀ a, (F a).length ≤ 1) :
    (l.flatMap F).reverse = l.reverse.flatMap F := by
  have := rev_flatMap_small l.reverse F h
  rw [List.reverse_reverse] at this
  exact this

theorem mKey_small (k : Bytes) (v : JV) : (mKey k v).length ≤ 1 := by
  cases v with
  | obj kvs => simp only [mKey]; cases lookup k kvs <;> simp
  | _ => simp [mKey]

theorem mIdx_small (i : Int) (v : JV) : (mIdx i v).length ≤ 1 := by
  cases v with
  | arr xs =>
    simp only [mIdx]
    generalize (if i < 0 then (xs.length : Int) + i else i) = j
    by_cases hc : 0 ≤ j ∧ j < (xs.length : Int)
    · simp only [hc, and_self, ↓reduceIte]
      cases xs[j.toNat]? <;> simp
    · simp [hc]
  | _ => simp [mIdx]

theorem mMember_small (v : JV) (mb : Member) : (mMember v mb).length ≤ 1 := by
  cases mb with
  | key k => exact mKey_small k v
  | idx i => exact mIdx_small i v

theorem contOnly_small (l : List (Path × JV)) (h : l.length ≤ 1) : (contOnly l).length ≤ 1 :=
  Nat.le_trans (List.length_filter_le _ _) h

def isFilter : Frag → Bool
  | .filter _ => true
  | _ => false

/-- inner slice fragments whose step is -1, 0 or 1 (absent = 1) cannot meet the `innerEmptySlice` deviation -/
def narrow : Frag → Bool
  | .slice _ _ t => decide (-1 ≤ t.getD 1 ∧ t.getD 1 ≤ 1)
  | _ => true

theorem slicePush_rev (cfg : Cfg) (s e t : Option Int) (v : JV)
    (hok : cfg.innerEmptySlice = false ∨ (-1 ≤ t.getD 1 ∧ t.getD 1 ≤ 1)) :
    (Get.slicePush cfg Rep.simple s e t v).reverse = Get.sliceLast Rep.simple s e t v := by
  cases v with
  | arr xs =>
    simp only [Get.slicePush, Get.sliceLast, Get.normFor, Rep.simple, AK.typed, Bool.false_eq_true, ↓reduceIte]
    rw [norm_eq]
    by_cases h0 : t.getD 1 = 0
    · simp [h0]
    · by_cases hst : (xs.length : Int) ≤ nStart xs.length s
      · simp [h0, hst]
      · simp only [h0, hst, ↓reduceIte]
        rw [flatMap_reverse_small _ _ (elemAt_small xs)]
        have hs0 := nStart_nonneg xs.length s
        rw [innerIdx_rev cfg xs.length _ (by omega) (by simpa using h0)
          (by intro hp; have := nStop_le true xs.length e t hp; simp only; omega)
          (by intro hp; have := nStop_ge true xs.length e t hp; simp only; omega)
          (by simpa using hok)]
  | _ => simp [Get.slicePush, Get.sliceLast]

/-- **inner position**: what a non-descent fragment pushes, popped, is what it selects (a filter) or the
containers among what it selects (every other fragment) -/
theorem inner_eq (cfg : Cfg) (f : Frag) (v : JV) (hf : isDescent f = false)
    (hok : cfg.innerEmptySlice = false ∨ narrow f = true)
    (hlen : ∀ xs, v = .arr xs → (xs.length : Int) ≤ maxEnd) :
    (Get.push cfg Rep.simple f v).reverse = if isFilter f then sel f v else contOnly (sel f v) := by
  cases f with
  | descent => simp [isDescent] at hf
  | child k =>
    simp only [Get.push, isFilter, Bool.false_eq_true, ↓reduceIte, sel, ← mKey_eq]
    exact reverse_small _ (contOnly_small _ (mKey_small k v))
  | nth i =>
    simp only [Get.push, isFilter, Bool.false_eq_true, ↓reduceIte, sel, ← mIdx_eq]
    exact reverse_small _ (contOnly_small _ (mIdx_small i v))
  | wild =>
    have hl := last_eq_sel cfg .wild v rfl hlen
    simp only [Get.last] at hl
    simp only [Get.push, isFilter, Bool.false_eq_true, ↓reduceIte, contOnly, List.filter_reverse,
      List.reverse_reverse, hl]
  | union ms =>
    have hfun : (fun mb => contOnly (mMember v mb)) = fun mb => contOnly (selMember v mb) := by
      funext mb; rw [mMember_eq]
    simp only [Get.push, isFilter, Bool.false_eq_true, ↓reduceIte, sel]
    rw [rev_flatMap_small _ _ (fun mb => contOnly_small _ (mMember_small v mb)), hfun]
    simp [contOnly, List.filter_flatMap]
  | slice s e t =>
    have hok' : cfg.innerEmptySlice = false ∨ (-1 ≤ t.getD 1 ∧ t.getD 1 ≤ 1) := by
      rcases hok with h | h
      · exact Or.inl h
      · exact Or.inr (by simpa [narrow] using h)
    simp only [Get.push, isFilter, Bool.false_eq_true, ↓reduceIte, contOnly, ← List.filter_reverse]
    rw [slicePush_rev cfg s e t v hok', sliceLast_eq s e t v hlen]
  | filter p =>
    have hl := last_eq_sel cfg (.filter p) v rfl hlen
    simp only [Get.last] at hl
    simp only [Get.push, isFilter, ↓reduceIte, List.reverse_reverse, hl]


theorem contOnly_map_pfx (l : Loc) (ms : List (Path × JV)) : contOnly (ms.map (pfx l)) = (contOnly ms).map (pfx l) := by
  simp [contOnly, List.filter_map, Function.comp_def]

theorem contOnly_append (a b : List (Path × JV)) : contOnly (a ++ b) = contOnly a ++ contOnly b := by
  simp [contOnly]

mutual
/-- inner descent: the nodes the machine applies the rest of the path to are the containers among the
node and everything below it (the node itself when it is not a container) -/
theorem nodesInner_eq : ∀ (v : JV), nodesInner v = if isContainer v then contOnly (desc v) else desc v
  | .arr xs => by
    simp only [nodesInner, isContainer, ↓reduceIte, desc, contOnly_append, nodesInnerL_eq xs 0]
    simp [contOnly, isContainer]
  | .obj kvs => by
    simp only [nodesInner, isContainer, ↓reduceIte, desc, contOnly_append, nodesInnerKV_eq kvs]
    simp [contOnly, isContainer]
  | .null => by simp [nodesInner, desc, isContainer]
  | .bool _ => by simp [nodesInner, desc, isContainer]
  | .int _ => by simp [nodesInner, desc, isContainer]
  | .flt _ => by simp [nodesInner, desc, isContainer]
  | .big _ => by simp [nodesInner, desc, isContainer]
  | .num _ => by simp [nodesInner, desc, isContainer]
  | .str _ => by simp [nodesInner, desc, isContainer]
theorem nodesInnerL_eq : ∀ (xs : List JV) (i : Nat), nodesInnerL i xs = contOnly (descArr i xs)
  | [], i => by simp [nodesInnerL, descArr, contOnly]
  | x :: r, i => by
    simp only [nodesInnerL, descArr, contOnly_append, contOnly_map_pfx, nodesInnerL_eq r (i + 1)]
    congr 1
    have hx := nodesInner_eq x
    by_cases hc : isContainer x = true
    · simp only [hc, ↓reduceIte] at hx ⊢
      rw [hx]
    · have hc' : isContainer x = false := by simpa using hc
      simp only [hc', Bool.false_eq_true, ↓reduceIte] at hx ⊢
      rw [← hx, isContainer_false_nodesInner x hc']
      simp [contOnly, hc']
theorem nodesInnerKV_eq : ∀ (kvs : List (Bytes × JV)), nodesInnerKV kvs = contOnly (descObj kvs)
  | [] => by simp [nodesInnerKV, descObj, contOnly]
  | m :: r => by
    simp only [nodesInnerKV, descObj, contOnly_append, contOnly_map_pfx, nodesInnerKV_eq r]
    congr 1
    have hx := nodesInner_eq m.2
    by_cases hc : isContainer m.2 = true
    · simp only [hc, ↓reduceIte] at hx ⊢
      rw [hx]
    · have hc' : isContainer m.2 = false := by simpa using hc
      simp only [hc', Bool.false_eq_true, ↓reduceIte] at hx ⊢
      rw [← hx, isContainer_false_nodesInner m.2 hc']
      simp [contOnly, hc']
end

/-- a non-container selects nothing under a fragment other than a descent -/
theorem sel_leaf (f : Frag) (v : JV) (hf : isDescent f = false) (hv : isContainer v = false) : sel f v = [] := by
  cases f with
  | descent => simp [isDescent] at hf
  | child k => cases v <;> simp_all [sel, selMember, isContainer]
  | nth i => cases v <;> simp_all [sel, selMember, isContainer]
  | wild => cases v <;> simp_all [sel, members, isContainer]
  | union ms =>
    simp only [sel]
    have : ∀ mb, selMember v mb = [] := by
      intro mb
      cases mb <;> cases v <;> simp_all [selMember, isContainer]
    simp [this]
  | slice s e t => cases v <;> simp_all [sel, isContainer]
  | filter p => cases v <;> simp_all [sel, members, isContainer]

theorem desc_leaf (v : JV) (hv : isContainer v = false) : desc v = [([], v)] := by
  cases v <;> simp_all [desc, isContainer]

/-- a path that does not consist of descents only yields nothing on a non-container -/
theorem eval_leaf : ∀ (r : List Frag) (v : JV), r.all isDescent = false → isContainer v = false → eval r v = []
  | [], v, h, _ => by simp at h
  | f :: r, v, h, hv => by
    by_cases hf : isDescent f = true
    · have hfd : f = .descent := by cases f <;> simp_all [isDescent]
      subst hfd
      have hr : r.all isDescent = false := by simpa [isDescent] using h
      simp only [eval, sel, desc_leaf v hv, List.flatMap_cons, List.flatMap_nil, List.append_nil,
        eval_leaf r v hr hv, List.map_nil]
    · simp [eval, sel_leaf f v (by simpa using hf) hv]


/-- no descent directly after a fragment other than a descent (where `descentSiblings` bites) -/
def noDescAfter : List Frag → Bool
  | [] => true
  | [_] => true
  | f :: g :: r => !(isDescent g && !isDescent f) && noDescAfter (g :: r)

def endsInDescent : List Frag → Bool
  | [] => false
  | [f] => isDescent f
  | _ :: g :: r => endsInDescent (g :: r)

theorem not_all_descent (x : List Frag) (hx : x ≠ []) (h : endsInDescent x = false) : x.all isDescent = false := by
  induction x with
  | nil => exact absurd rfl hx
  | cons f t ih =>
    cases t with
    | nil => simpa [endsInDescent] using h
    | cons g r =>
      have := ih (by simp) (by simpa [endsInDescent] using h)
      simp only [List.all_cons, Bool.and_eq_false_iff] at this ⊢
      exact Or.inr (by simpa using this)

theorem flatMap_contOnly (l : List (Path × JV)) (F : Path × JV → List (Path × JV))
    (hF : ∀ m, isContainer m.2 = false → F m = []) : (contOnly l).flatMap F = l.flatMap F := by
  induction l with
  | nil => rfl
  | cons a t ih =>
    by_cases hc : isContainer a.2 = true
    · simp [contOnly, hc] at ih ⊢; rw [ih]
    · have hc' : isContainer a.2 = false := by simpa using hc
      simp [contOnly, hc', hF a hc'] at ih ⊢; rw [ih]

/-- the inner selection of Get on simple data, as far as the rest of the path can tell -/
theorem inner_flatMap (cfg : Cfg) (f : Frag) (v : JV)
    (hok : cfg.innerEmptySlice = false ∨ narrow f = true)
    (hlen : ∀ xs, v = .arr xs → (xs.length : Int) ≤ maxEnd)
    (F : Path × JV → List (Path × JV)) (hF : ∀ m, isContainer m.2 = false → F m = []) :
    ((Get.sel cfg Rep.simple).inner f v).flatMap F = (sel f v).flatMap F := by
  by_cases hf : isDescent f = true
  · have hfd : f = .descent := by cases f <;> simp_all [isDescent]
    subst hfd
    simp only [Get.sel, Get.push, sel]
    have hcut : (cfg.typedMapWild && decide (Rep.simple.ok = OKind.rmap)) = false := by
      cases cfg.typedMapWild <;> rfl
    simp only [hcut, Bool.false_eq_true, ↓reduceIte, List.reverse_reverse]
    rw [nodesInner_eq]
    by_cases hc : isContainer v = true
    · simp only [hc, ↓reduceIte]; exact flatMap_contOnly _ F hF
    · simp [hc]
  · have hf' : isDescent f = false := by simpa using hf
    simp only [Get.sel]
    rw [inner_eq cfg f v hf' hok hlen]
    by_cases hfi : isFilter f = true
    · simp [hfi]
    · simp only [hfi, Bool.false_eq_true, ↓reduceIte]
      exact flatMap_contOnly _ F hF

theorem inner_subset (cfg : Cfg) (f : Frag) (v : JV)
    (hok : cfg.innerEmptySlice = false ∨ narrow f = true)
    (hlen : ∀ xs, v = .arr xs → (xs.length : Int) ≤ maxEnd) :
    ∀ m ∈ (Get.sel cfg Rep.simple).inner f v, m ∈ sel f v := by
  intro m hm
  by_cases hf : isDescent f = true
  · have hfd : f = .descent := by cases f <;> simp_all [isDescent]
    subst hfd
    simp only [Get.sel, Get.push] at hm
    have hcut : (cfg.typedMapWild && decide (Rep.simple.ok = OKind.rmap)) = false := by
      cases cfg.typedMapWild <;> rfl
    simp only [hcut, Bool.false_eq_true, ↓reduceIte, List.reverse_reverse] at hm
    rw [nodesInner_eq] at hm
    simp only [sel]
    by_cases hc : isContainer v = true
    · simp only [hc, ↓reduceIte, contOnly, List.mem_filter] at hm; exact hm.1
    · simpa [hc] using hm
  · have hf' : isDescent f = false := by simpa using hf
    simp only [Get.sel] at hm
    rw [inner_eq cfg f v hf' hok hlen] at hm
    by_cases hfi : isFilter f = true
    · simpa [hfi] using hm
    · simp only [hfi, Bool.false_eq_true, ↓reduceIte, contOnly, List.mem_filter] at hm; exact hm.1

theorem arr_len_le (v : JV) (B : Int) (h : (jsize v : Int) ≤ B) : ∀ xs, v = .arr xs → (xs.length : Int) ≤ B := by
  intro xs hv
  subst hv
  have := length_le_jsizeL xs
  simp only [jsize] at h
  omega

/-- **Get on simple data selects exactly what the path denotes, with locations** — for every
configuration of the deviation flags under the hypotheses that keep the flagged branches out -/
theorem getS_eq_eval (cfg : Cfg) : ∀ (x : List Frag) (v : JV),
    (cfg.descentSiblings = false ∨ noDescAfter x = true) →
    (cfg.innerEmptySlice = false ∨ x.dropLast.all narrow = true) →
    endsInDescent x = false → (jsize v : Int) ≤ maxEnd →
    evalSel (Get.sel cfg Rep.simple) cfg.descentSiblings x v = eval x v
  | [], v, _, _, _, _ => by simp [evalSel, eval]
  | [f], v, _, _, ht, hz => by
    have hf : isDescent f = false := by simpa [endsInDescent] using ht
    simp only [evalSel, eval, Get.sel]
    rw [last_eq_sel cfg f v hf (arr_len_le v _ hz)]
    simp
  | f :: g :: r, v, hs, he, ht, hz => by
    have hlen := arr_len_le v _ hz
    have hokf : cfg.innerEmptySlice = false ∨ narrow f = true := by
      rcases he with h | h
      · exact Or.inl h
      · exact Or.inr (by simp only [List.dropLast_cons_cons, List.all_cons, Bool.and_eq_true] at h; exact h.1)
    have hs' : cfg.descentSiblings = false ∨ noDescAfter (g :: r) = true := by
      rcases hs with h | h
      · exact Or.inl h
      · exact Or.inr (by simp only [noDescAfter, Bool.and_eq_true] at h; exact h.2)
    have he' : cfg.innerEmptySlice = false ∨ (g :: r).dropLast.all narrow = true := by
      rcases he with h | h
      · exact Or.inl h
      · exact Or.inr (by simp only [List.dropLast_cons_cons, List.all_cons, Bool.and_eq_true] at h; exact h.2)
    have ht' : endsInDescent (g :: r) = false := by simpa [endsInDescent] using ht
    have hsib : (cfg.descentSiblings && isDescent g && !isDescent f) = false := by
      rcases hs with h | h
      · simp [h]
      · simp only [noDescAfter, Bool.and_eq_true, Bool.not_eq_true'] at h
        cases hd : cfg.descentSiblings <;> simp_all
    rw [evalSel]
    simp only [hsib, Bool.false_eq_true, ↓reduceIte]
    have hrec : ∀ m ∈ (Get.sel cfg Rep.simple).inner f v,
        pre m.1 (evalSel (Get.sel cfg Rep.simple) cfg.descentSiblings (g :: r) m.2) = pre m.1 (eval (g :: r) m.2) := by
      intro m hm
      have hmem := inner_subset cfg f v hokf hlen m hm
      have hsz := sel_size f v m hmem
      rw [getS_eq_eval cfg (g :: r) m.2 hs' he' ht' (by omega)]
    rw [flatMap_congr' _ _ _ hrec]
    rw [inner_flatMap cfg f v hokf hlen (fun m => pre m.1 (eval (g :: r) m.2))
      (by intro m hm; simp [pre, eval_leaf (g :: r) m.2 (not_all_descent _ (by simp) ht') hm])]
    simp [eval, pre]


theorem map_snd_pre (p : Path) (l : List (Path × JV)) : (pre p l).map (·.2) = l.map (·.2) := by
  simp [pre, Function.comp_def]

theorem map_snd_flatMap (l : List (Path × JV)) (F : Path × JV → List (Path × JV)) (G : JV → List JV)
    (h : ∀ m ∈ l, (F m).map (·.2) = G m.2) : (l.flatMap F).map (·.2) = (l.map (·.2)).flatMap G := by
  induction l with
  | nil => rfl
  | cons a t ih =>
    simp only [List.flatMap_cons, List.map_append, List.map_cons]
    rw [h a (by simp), ih (fun m hm => h m (List.mem_cons_of_mem _ hm))]

theorem sibEval_true (full shallow : Path × JV → List (Path × JV)) (l : List (Path × JV)) :
    sibEval (fun _ => true) full shallow l =
      match l with
      | [] => []
      | m :: ms => full m ++ ms.flatMap shallow := by
  cases l <;> simp [sibEval]

/-- the value-level denotation of the machine is the skeleton over Get's selection functions -/
theorem denV_eq_evalSel (sib : Bool) (cfg : Cfg) (rep : Rep)
    (hcut : (cfg.typedMapWild && decide (rep.ok = OKind.rmap)) = false) :
    ∀ (x : List Frag) (v : JV),
      denV sib (Get.lastV cfg rep) (Get.pushV cfg rep) x v = (evalSel (Get.sel cfg rep) sib x v).map (·.2)
  | [], v => by simp [denV, evalSel]
  | [f], v => by
    by_cases hf : isDescent f = true
    · have hfd : f = .descent := by cases f <;> simp_all [isDescent]
      subst hfd
      simp [denV, evalSel, Get.sel, Get.last, lastDesc, lastBelowV]
    · rw [denV_single _ _ _ f v (by simpa using hf)]
      simp [evalSel, Get.sel, Get.lastV]
  | f :: g :: r, v => by
    have ih1 := denV_eq_evalSel sib cfg rep hcut (g :: r)
    have ih2 := denV_eq_evalSel sib cfg rep hcut r
    have hP : (Get.pushV cfg rep f v).reverse = ((Get.sel cfg rep).inner f v).map (·.2) := by
      simp [Get.pushV, Get.sel, List.map_reverse]
    by_cases hf : isDescent f = true
    · have hfd : f = .descent := by cases f <;> simp_all [isDescent]
      subst hfd
      rw [denV_descent_cons, evalSel]
      simp only [isDescent, Bool.not_true, Bool.and_false, Bool.false_eq_true, ↓reduceIte]
      have hin : (Get.sel cfg rep).inner .descent v = nodesInner v := by
        simp [Get.sel, Get.push, hcut]
      rw [hin, nodesInnerV]
      rw [map_snd_flatMap _ _ (denV sib (Get.lastV cfg rep) (Get.pushV cfg rep) (g :: r))]
      intro m _
      rw [map_snd_pre, ih1]
    · have hf' : isDescent f = false := by simpa using hf
      rw [denV_cons_cons _ _ _ f g r v hf', hP, evalSel]
      by_cases hg : isDescent g = true
      · have hgd : g = .descent := by cases g <;> simp_all [isDescent]
        subst hgd
        cases sib with
        | true =>
          have hcond : (true && isDescent Frag.descent && !isDescent f) = true := by rw [hf']; rfl
          have hsets : (Get.sel cfg rep).sets = fun _ => true := rfl
          rw [if_pos hcond, hsets, sibEval_true]
          simp only [fresh]
          cases (Get.sel cfg rep).inner f v with
          | nil => simp [sibList]
          | cons m ms =>
            simp only [List.map_cons, sibList, ↓reduceIte, List.map_append, map_snd_pre]
            rw [← ih1 m.2]
            congr 1
            rw [map_snd_flatMap _ _ (denV true (Get.lastV cfg rep) (Get.pushV cfg rep) r)]
            intro a _
            rw [map_snd_pre, ih2]
        | false =>
          simp only [Bool.false_and, Bool.false_eq_true, ↓reduceIte, fresh, sibList_false]
          rw [map_snd_flatMap _ _ (denV false (Get.lastV cfg rep) (Get.pushV cfg rep) (.descent :: r))]
          intro m _
          rw [map_snd_pre, ih1]
      · have hg' : isDescent g = false := by simpa using hg
        simp only [hg', Bool.and_false, Bool.false_and, Bool.false_eq_true, ↓reduceIte]
        have hfresh : fresh sib (Get.lastV cfg rep) (Get.pushV cfg rep) (g :: r) =
            fun l => l.flatMap (denV sib (Get.lastV cfg rep) (Get.pushV cfg rep) (g :: r)) := by
          funext l
          cases g with
          | descent => simp [isDescent] at hg'
          | _ => simp [fresh]
        rw [hfresh]
        simp only
        rw [map_snd_flatMap _ _ (denV sib (Get.lastV cfg rep) (Get.pushV cfg rep) (g :: r))]
        intro m _
        rw [map_snd_pre, ih1]


/-! ### First / Has against Get -/

theorem head?_flatMap_congr {α β : Type} (l : List α) (F G : α → List β)
    (h : ∀ a ∈ l, (F a).head? = (G a).head?) : (l.flatMap F).head? = (l.flatMap G).head? := by
  induction l with
  | nil => rfl
  | cons a t ih =>
    have ha := h a (by simp)
    have it := ih (fun b hb => h b (List.mem_cons_of_mem _ hb))
    simp only [List.flatMap_cons]
    cases hF : F a with
    | nil =>
      cases hG : G a with
      | nil => simpa using it
      | cons y ys => rw [hF, hG] at ha; simp at ha
    | cons x xs =>
      cases hG : G a with
      | nil => rw [hF, hG] at ha; simp at ha
      | cons y ys => rw [hF, hG] at ha; simpa using ha

theorem head?_pre (p : Path) (l : List (Path × JV)) :
    (pre p l).head? = l.head?.map fun q => (p ++ q.1, q.2) := by
  cases l <;> simp [pre]

theorem head?_take_one {α : Type} (l : List α) : (l.take 1).head? = l.head? := by
  cases l <;> simp

/-- two evaluators whose inner selections coincide and whose last selections have the same first element
find the same first element (where the `descentSiblings` branch is not taken) -/
theorem evalSel_head_congr (S T : Sel) (sib : Bool)
    (hin : ∀ f v, S.inner f v = T.inner f v)
    (hlast : ∀ f v, (S.last f v).head? = (T.last f v).head?) :
    ∀ (x : List Frag) (v : JV), (sib = false ∨ noDescAfter x = true) →
      (evalSel S sib x v).head? = (evalSel T sib x v).head?
  | [], v, _ => by simp [evalSel]
  | [f], v, _ => by simpa [evalSel] using hlast f v
  | f :: g :: r, v, hs => by
    have hs' : sib = false ∨ noDescAfter (g :: r) = true := by
      rcases hs with h | h
      · exact Or.inl h
      · exact Or.inr (by simp only [noDescAfter, Bool.and_eq_true] at h; exact h.2)
    have hsib : (sib && isDescent g && !isDescent f) = false := by
      rcases hs with h | h
      · simp [h]
      · simp only [noDescAfter, Bool.and_eq_true, Bool.not_eq_true'] at h
        cases sib <;> simp_all
    rw [evalSel, evalSel]
    simp only [hsib, Bool.false_eq_true, ↓reduceIte, hin]
    apply head?_flatMap_congr
    intro m _
    rw [head?_pre, head?_pre, evalSel_head_congr S T sib hin hlast (g :: r) m.2 hs']

theorem elemAt_in (xs : List JV) (i : Int) (h0 : 0 ≤ i) (hn : i < (xs.length : Int)) :
    ∃ c, elemAt xs i = [([Loc.idx i.toNat], c)] := by
  have hlt : i.toNat < xs.length := by omega
  refine ⟨xs[i.toNat], ?_⟩
  simp [elemAt, h0, List.getElem?_eq_getElem hlt]

/-- FirstFound/Has, slice in the last position: `start < end` (resp. `end < start`) and `tv[start]` is the
first element of Get's loop -/
theorem first_sliceLast (cfg : Cfg) (s e t : Option Int) (v : JV) :
    First.sliceLast cfg Rep.simple s e t v = (Get.sliceLast Rep.simple s e t v).take 1 := by
  cases v with
  | arr xs =>
    simp only [First.sliceLast, Get.sliceLast, Get.normFor, Rep.simple, AK.typed, Bool.false_eq_true, ↓reduceIte]
    rw [norm_eq]
    by_cases h0 : t.getD 1 = 0
    · simp [h0]
    · by_cases hst : (xs.length : Int) ≤ nStart xs.length s
      · simp [h0, hst]
      · simp only [h0, hst, ↓reduceIte, Get.lastIdx]
        have hs0 := nStart_nonneg xs.length s
        obtain ⟨c, hc⟩ := elemAt_in xs (nStart xs.length s) hs0 (by omega)
        obtain ⟨m, hm⟩ : ∃ m, xs.length = m + 1 := ⟨xs.length - 1, by omega⟩
        by_cases hpos : 0 < t.getD 1
        · simp only [hpos, ↓reduceIte]
          by_cases hlt : nStart xs.length s < nStop true xs.length e t
          · simp only [hlt, ↓reduceIte]
            rw [hm, loopUp, ← hm]
            simp [hlt, hc]
          · simp only [hlt, ↓reduceIte]
            rw [hm, loopUp, ← hm]
            simp [hlt]
        · simp only [hpos, ↓reduceIte]
          by_cases hlt : nStop true xs.length e t < nStart xs.length s
          · simp only [hlt, ↓reduceIte]
            rw [hm, loopDown, ← hm]
            simp [hlt, hc]
          · simp only [hlt, ↓reduceIte]
            rw [hm, loopDown, ← hm]
            simp [hlt]
  | _ => simp [First.sliceLast, Get.sliceLast]

theorem first_last (cfg : Cfg) (f : Frag) (v : JV) :
    First.last cfg Rep.simple f v = (Get.last cfg Rep.simple f v).take 1 := by
  cases f with
  | child k => simp only [First.last, Get.last]; exact (List.take_of_length_le (mKey_small k v)).symm
  | nth i => simp only [First.last, Get.last]; exact (List.take_of_length_le (mIdx_small i v)).symm
  | wild =>
    cases v <;> simp [First.last, Get.last, First.wildOne, Get.wildKids, Rep.simple]
  | descent => simp [First.last, Get.last]
  | union ms => simp [First.last, Get.last]
  | slice s e t => exact first_sliceLast cfg s e t v
  | filter p => simp [First.last, Get.last]

theorem simple_untyped (v : JV) : First.typedNode Rep.simple v = false := by
  cases v <;> simp [First.typedNode, Rep.simple, AK.typed, OKind.typed]

theorem first_inner (cfg : Cfg) (f : Frag) (v : JV) :
    First.inner cfg Rep.simple f v = (Get.sel cfg Rep.simple).inner f v := by
  cases f with
  | wild =>
    simp only [First.inner, simple_untyped, Bool.and_false, Bool.false_eq_true, ↓reduceIte, Get.sel, Get.push,
      contOnly, List.filter_reverse, List.reverse_reverse]
  | slice s e t =>
    cases v with
    | arr xs =>
      simp only [First.inner, First.sliceInner, Get.sel, Get.push, Get.slicePush, Get.normFor, Rep.simple, AK.typed,
        Bool.false_eq_true, ↓reduceIte]
      cases Get.norm true xs.length s e t <;> simp [contOnly]
    | _ => simp [First.inner, First.sliceInner, Get.sel, Get.push, Get.slicePush, contOnly]
  | _ => simp [First.inner, Get.sel]

theorem has_inner (cfg : Cfg) (f : Frag) (v : JV) :
    Has.inner cfg Rep.simple f v = First.inner cfg Rep.simple f v := by
  have h1 : (cfg.hasTypedMap && decide (Rep.simple.ok = OKind.rmap)) = false := by
    cases cfg.hasTypedMap <;> rfl
  simp [Has.inner, simple_untyped, h1]


theorem head?_append_congr {α : Type} (a b c d : List α) (h1 : a.head? = c.head?) (h2 : b.head? = d.head?) :
    (a ++ b).head? = (c ++ d).head? := by
  cases a with
  | nil =>
    cases c with
    | nil => simpa using h2
    | cons y ys => simp at h1
  | cons x xs =>
    cases c with
    | nil => simp at h1
    | cons y ys => simpa using h1

theorem head?_sibEval_congr (sets : JV → Bool) (F1 F2 S1 S2 : Path × JV → List (Path × JV))
    (hF : ∀ m, (F1 m).head? = (F2 m).head?) (hS : ∀ m, (S1 m).head? = (S2 m).head?) (l : List (Path × JV)) :
    (sibEval sets F1 S1 l).head? = (sibEval sets F2 S2 l).head? := by
  induction l with
  | nil => rfl
  | cons m ms ih =>
    simp only [sibEval]
    split
    · exact head?_append_congr _ _ _ _ (hF m) (head?_flatMap_congr ms S1 S2 (fun a _ => hS a))
    · exact head?_append_congr _ _ _ _ (hF m) ih

/-- the same without a condition on the path when the two evaluators also agree on which elements set the
descent flag -/
theorem evalSel_head_congr' (S T : Sel) (sib : Bool)
    (hin : ∀ f v, S.inner f v = T.inner f v) (hsets : S.sets = T.sets)
    (hlast : ∀ f v, (S.last f v).head? = (T.last f v).head?) :
    ∀ (x : List Frag) (v : JV), (evalSel S sib x v).head? = (evalSel T sib x v).head?
  | [], v => by simp [evalSel]
  | [f], v => by simpa [evalSel] using hlast f v
  | f :: g :: r, v => by
    rw [evalSel, evalSel]
    simp only [hin, hsets]
    split
    · apply head?_sibEval_congr
      · intro m; rw [head?_pre, head?_pre, evalSel_head_congr' S T sib hin hsets hlast (g :: r) m.2]
      · intro m; rw [head?_pre, head?_pre, evalSel_head_congr' S T sib hin hsets hlast r m.2]
    · apply head?_flatMap_congr
      intro m _
      rw [head?_pre, head?_pre, evalSel_head_congr' S T sib hin hsets hlast (g :: r) m.2]

/-! ### Locate and Walk against the denotation (as multisets) -/

theorem perm_flatMap_left {α β : Type} (l : List α) (F G : α → List β) (h : ∀ a ∈ l, (F a).Perm (G a)) :
    (l.flatMap F).Perm (l.flatMap G) := by
  induction l with
  | nil => exact List.Perm.refl _
  | cons a t ih =>
    simp only [List.flatMap_cons]
    exact List.Perm.append (h a (by simp)) (ih (fun b hb => h b (List.mem_cons_of_mem _ hb)))

mutual
/-- parents before children (locate, Walk) against children before parents (Get): the same nodes -/
theorem desc_perm : ∀ (v : JV), (desc v).Perm (([], v) :: belowPre v)
  | .arr xs => by
    simp only [desc, belowPre]
    exact List.Perm.trans List.perm_append_comm (List.Perm.cons _ (descArr_perm xs 0))
  | .obj kvs => by
    simp only [desc, belowPre]
    exact List.Perm.trans List.perm_append_comm (List.Perm.cons _ (descObj_perm kvs))
  | .null => by simp [desc, belowPre]
  | .bool _ => by simp [desc, belowPre]
  | .int _ => by simp [desc, belowPre]
  | .flt _ => by simp [desc, belowPre]
  | .big _ => by simp [desc, belowPre]
  | .num _ => by simp [desc, belowPre]
  | .str _ => by simp [desc, belowPre]
theorem descArr_perm : ∀ (xs : List JV) (i : Nat), (descArr i xs).Perm (belowPreL i xs)
  | [], i => by simp [descArr, belowPreL]
  | x :: r, i => by
    simp only [descArr, belowPreL]
    have h1 := (desc_perm x).map (pfx (.idx i))
    simp only [List.map_cons] at h1
    exact List.Perm.append h1 (descArr_perm r (i + 1))
theorem descObj_perm : ∀ (kvs : List (Bytes × JV)), (descObj kvs).Perm (belowPreKV kvs)
  | [] => by simp [descObj, belowPreKV]
  | m :: r => by
    simp only [descObj, belowPreKV]
    have h1 := (desc_perm m.2).map (pfx (.key m.1))
    simp only [List.map_cons] at h1
    exact List.Perm.append h1 (descObj_perm r)
end

/-- fragments on which the start clamp of slice.go `startEndStep` cannot matter: no slice, or a slice whose
start is absent, 0 or negative (a start `≥ size` is what gets clamped) -/
def lowStart : Frag → Bool
  | .slice s _ _ => decide (s.getD 0 ≤ 0)
  | _ => true

/-- the `locStartClamp` deviation is off, or out of the way for this fragment -/
def ClampFree (cfg : Cfg) (f : Frag) : Prop :=
  cfg.locStartClamp = false ∨ (cfg.locEmptyArray = false ∧ lowStart f = true)

theorem locate_ses_stop (n : Nat) (e t : Option Int) :
    (if e.getD maxEnd < 0 then
        if (n : Int) + e.getD maxEnd < -1 ∧ t.getD 1 < 0 then -1 else (n : Int) + e.getD maxEnd
      else if (n : Int) < e.getD maxEnd then (n : Int) else e.getD maxEnd) = nStop true n e t := by
  unfold nStop
  simp only [Bool.or_true, Bool.true_and, decide_eq_true_eq, Bool.and_eq_true]
  (repeat' split) <;> omega

/-- slice.go `startEndStep` is the normalisation of get.go: with `locNegEnd` off, and `locStartClamp` off
or (empty arrays handled) a start that is not positive -/
theorem locate_ses_eq (cfg : Cfg) (hn : cfg.locNegEnd = false) (n : Nat) (s e t : Option Int)
    (hc : cfg.locStartClamp = false ∨ (cfg.locEmptyArray = false ∧ s.getD 0 ≤ 0)) :
    Locate.ses cfg n s e t = Get.norm true n s e t := by
  have hst : (if s.getD 0 < 0 then if (n : Int) + s.getD 0 < 0 then 0 else (n : Int) + s.getD 0 else s.getD 0) = nStart n s := rfl
  have hs0 := nStart_nonneg n s
  by_cases hcl : cfg.locStartClamp = false
  · rw [norm_eq]
    unfold Locate.ses
    simp only [hn, hcl, Bool.not_false, Bool.true_and, Bool.false_eq_true, ↓reduceIte, decide_eq_true_eq]
    by_cases h0 : t.getD 1 = 0
    · simp [h0]
    · simp only [h0, ↓reduceIte, hst]
      by_cases hle : (n : Int) ≤ nStart n s
      · by_cases hemp : (!cfg.locEmptyArray && decide (n = 0)) = true <;> simp [hle, hemp]
      · have hemp : (!cfg.locEmptyArray && decide (n = 0)) = false := by
          have : n ≠ 0 := by omega
          simp [this]
        simp only [hle, hemp, Bool.false_eq_true, ↓reduceIte]
        have h1 : (if (if s.getD 0 < 0 then (n : Int) + s.getD 0 else if (n : Int) ≤ s.getD 0 then (n : Int) - 1 else s.getD 0) < 0 then 0
            else if s.getD 0 < 0 then (n : Int) + s.getD 0 else if (n : Int) ≤ s.getD 0 then (n : Int) - 1 else s.getD 0) = nStart n s := by
          unfold nStart at hle ⊢
          split at hle <;> (repeat' split) <;> omega
        rw [h1, locate_ses_stop]
  · have hct : cfg.locStartClamp = true := by simpa using hcl
    obtain ⟨hy, hlow⟩ : cfg.locEmptyArray = false ∧ s.getD 0 ≤ 0 := by
      rcases hc with h | h
      · exact absurd h hcl
      · exact h
    rw [norm_eq]
    unfold Locate.ses
    simp only [hn, hct, hy, Bool.not_false, Bool.not_true, Bool.true_and, Bool.false_and, Bool.false_eq_true,
      ↓reduceIte, decide_eq_true_eq]
    by_cases h0 : t.getD 1 = 0
    · simp [h0]
    · simp only [h0, ↓reduceIte]
      by_cases hn0 : n = 0
      · subst hn0
        have hle : ((0 : Nat) : Int) ≤ nStart 0 s := by omega
        simp [hs0]
      · have hle : ¬ (n : Int) ≤ nStart n s := by
          unfold nStart
          (repeat' split) <;> omega
        simp only [hn0, hle, ↓reduceIte]
        have h1 : (if (if s.getD 0 < 0 then (n : Int) + s.getD 0 else if (n : Int) ≤ s.getD 0 then (n : Int) - 1 else s.getD 0) < 0 then 0
            else if s.getD 0 < 0 then (n : Int) + s.getD 0 else if (n : Int) ≤ s.getD 0 then (n : Int) - 1 else s.getD 0) = nStart n s := by
          unfold nStart
          (repeat' split) <;> omega
        rw [h1, locate_ses_stop]

theorem loopUp_lt (m : Nat) (i stop step : Int) : ∀ j ∈ loopUp m i stop step, j < stop := by
  induction m generalizing i with
  | zero => simp [loopUp]
  | succ m ih =>
    intro j hj
    rw [loopUp] at hj
    split at hj
    · rcases List.mem_cons.mp hj with rfl | h
      · assumption
      · exact ih (i + step) j h
    · simp at hj

theorem loopDown_le (m : Nat) (i stop step : Int) (hs : step ≤ 0) : ∀ j ∈ loopDown m i stop step, j ≤ i := by
  induction m generalizing i with
  | zero => simp [loopDown]
  | succ m ih =>
    intro j hj
    rw [loopDown] at hj
    split at hj
    · rcases List.mem_cons.mp hj with rfl | h
      · exact Int.le_refl _
      · have := ih (i + step) j h; omega
    · simp at hj

/-- the indexes get.go visits are indexes of the array (no `tv[i]` can fault) -/
theorem modelIdx_lt (n : Nat) (s e t : Option Int) : ∀ i ∈ modelIdx true n s e t, i < (n : Int) := by
  intro i hi
  rw [modelIdx, norm_eq] at hi
  by_cases h0 : t.getD 1 = 0
  · simp [h0] at hi
  · by_cases hst : (n : Int) ≤ nStart n s
    · simp [h0, hst] at hi
    · simp only [h0, hst, ↓reduceIte, Get.lastIdx] at hi
      by_cases hpos : 0 < t.getD 1
      · simp only [hpos, ↓reduceIte] at hi
        have := loopUp_lt _ _ _ _ i hi
        have := nStop_le true n e t hpos
        omega
      · simp only [hpos, ↓reduceIte] at hi
        have := loopDown_le _ _ _ _ (by omega) i hi
        omega

theorem locate_sliceIdx_eq (cfg : Cfg) (hn : cfg.locNegEnd = false) (n : Nat) (s e t : Option Int)
    (hc : ClampFree cfg (.slice s e t)) : Locate.sliceIdx cfg n s e t = modelIdx true n s e t := by
  have hc' : cfg.locStartClamp = false ∨ (cfg.locEmptyArray = false ∧ s.getD 0 ≤ 0) := by
    rcases hc with h | ⟨h1, h2⟩
    · exact Or.inl h
    · exact Or.inr ⟨h1, by simpa [lowStart] using h2⟩
  unfold Locate.sliceIdx modelIdx
  rw [locate_ses_eq cfg hn n s e t hc', norm_eq]
  by_cases h0 : t.getD 1 = 0
  · simp [h0]
  · by_cases hst : (n : Int) ≤ nStart n s
    · simp [h0, hst]
    · have := nStart_nonneg n s
      have hmax : max n 1 = n := by omega
      simp [h0, hst, hmax]

theorem elemOrPhantom_eq (xs : List JV) (i : Int) (h0 : 0 ≤ i) (hn : i < (xs.length : Int)) :
    Locate.elemOrPhantom xs i = elemAt xs i := by
  have hlt : i.toNat < xs.length := by omega
  simp [Locate.elemOrPhantom, elemAt, h0, List.getElem?_eq_getElem hlt]

theorem mIdx_of_nonneg (xs : List JV) (i : Int) (h0 : 0 ≤ i) (hn : i < (xs.length : Int)) :
    mIdx i (.arr xs) = elemAt xs i := by
  have hneg : ¬ (i < 0) := by omega
  simp [mIdx, elemAt, hneg, h0, hn]

theorem sliceLast_arr (s e t : Option Int) (xs : List JV) :
    Get.sliceLast Rep.simple s e t (.arr xs) = (modelIdx true xs.length s e t).flatMap (elemAt xs) := by
  simp only [Get.sliceLast, Get.normFor, Rep.simple, modelIdx]
  cases Get.norm true xs.length s e t <;> simp

/-- Locate, last position, slice flags off: what the fragment denotes, up to order -/
theorem locate_last_perm (cfg : Cfg) (hn : cfg.locNegEnd = false)
    (f : Frag) (hc : ClampFree cfg f) (v : JV) (hlen : ∀ xs, v = .arr xs → (xs.length : Int) ≤ maxEnd) :
    (Locate.last cfg Rep.simple f v).Perm (sel f v) := by
  cases f with
  | descent =>
    have hcut : (cfg.typedMapWild && decide (Rep.simple.ok = OKind.rmap)) = false := by
      cases cfg.typedMapWild <;> rfl
    simp only [Locate.last, hcut, Bool.false_eq_true, ↓reduceIte, sel]
    exact (desc_perm v).symm
  | child k => rw [← last_eq_sel cfg (.child k) v rfl hlen]; exact List.Perm.refl _
  | nth i => rw [← last_eq_sel cfg (.nth i) v rfl hlen]; exact List.Perm.refl _
  | wild => rw [← last_eq_sel cfg .wild v rfl hlen]; exact List.Perm.refl _
  | union ms => rw [← last_eq_sel cfg (.union ms) v rfl hlen]; exact List.Perm.refl _
  | filter p =>
    rw [← last_eq_sel cfg (.filter p) v rfl hlen]
    exact List.reverse_perm _
  | slice s e t =>
    rw [← last_eq_sel cfg (.slice s e t) v rfl hlen]
    cases v with
    | arr xs =>
      simp only [Locate.last, Get.last, locate_sliceIdx_eq cfg hn _ s e t hc, sliceLast_arr]
      rw [flatMap_congr' _ _ (elemAt xs)]
      intro i hi
      exact elemOrPhantom_eq xs i (modelIdx_nonneg true _ s e t i hi) (modelIdx_lt _ s e t i hi)
    | _ => simp [Locate.last, Get.last, Get.sliceLast]

/-- no index fault with the slice flags off -/
theorem locate_faultHere (cfg : Cfg) (hn : cfg.locNegEnd = false)
    (f : Frag) (hc : ClampFree cfg f) (v : JV) : Locate.faultHere cfg f v = false := by
  cases f with
  | slice s e t =>
    cases v with
    | arr xs =>
      simp only [Locate.faultHere, locate_sliceIdx_eq cfg hn _ s e t hc, List.any_eq_false, Bool.or_eq_true, decide_eq_true_eq, not_or]
      intro i hi
      have := modelIdx_nonneg true _ s e t i hi
      have := modelIdx_lt _ s e t i hi
      omega
    | _ => simp [Locate.faultHere]
  | _ => simp [Locate.faultHere]

theorem locate_fault (cfg : Cfg) (hn : cfg.locNegEnd = false) :
    ∀ (x : List Frag) (v : JV), (∀ f ∈ x, ClampFree cfg f) → Locate.fault cfg Rep.simple x v = false
  | [], _, _ => rfl
  | [f], v, _ => by simp [Locate.fault, Rep.simple, AK.typed]
  | f :: g :: r, v, hc => by
    simp only [Locate.fault, locate_faultHere cfg hn f (hc f (by simp)), Bool.false_or, List.any_eq_false]
    intro m _
    simp [locate_fault cfg hn (g :: r) m.2 (fun f' hf' => hc f' (List.mem_cons_of_mem _ hf'))]

theorem flatMap_filter_vanish {α β : Type} (l : List α) (P : α → Bool) (G : α → List β)
    (h : ∀ a, P a = false → G a = []) : (l.filter P).flatMap G = l.flatMap G := by
  induction l with
  | nil => rfl
  | cons a t ih =>
    by_cases hp : P a = true
    · simp [List.filter_cons, hp, ih]
    · have hp' : P a = false := by simpa using hp
      simp [List.filter_cons, hp', ih, h a hp']

/-- **Locate reports exactly the locations the path denotes** (as a multiset; with the slice flags off) -/
theorem locate_perm_eval (cfg : Cfg) (hn : cfg.locNegEnd = false) :
    ∀ (x : List Frag) (v : JV), (∀ f ∈ x, ClampFree cfg f) → endsInDescent x = false → (jsize v : Int) ≤ maxEnd →
      (evalSel (Locate.sel cfg Rep.simple) false x v).Perm (eval x v)
  | [], v, _, _, _ => by simp [evalSel, eval]
  | [f], v, hc, _, hz => by
    have h := locate_last_perm cfg hn f (hc f (by simp)) v (arr_len_le v _ hz)
    simpa [evalSel, eval, Locate.sel] using h
  | f :: g :: r, v, hc, ht, hz => by
    have hlen := arr_len_le v _ hz
    have ht' : endsInDescent (g :: r) = false := by simpa [endsInDescent] using ht
    have hc' : ∀ f' ∈ g :: r, ClampFree cfg f' := fun f' hf' => hc f' (List.mem_cons_of_mem _ hf')
    have hlast := locate_last_perm cfg hn f (hc f (by simp)) v hlen
    rw [evalSel]
    simp only [Bool.false_and, Bool.false_eq_true, ↓reduceIte]
    let G : Path × JV → List (Path × JV) := fun m => pre m.1 (eval (g :: r) m.2)
    have hG : ∀ m : Path × JV, isContainer m.2 = false → G m = [] := by
      intro m hm; simp [G, pre, eval_leaf (g :: r) m.2 (not_all_descent _ (by simp) ht') hm]
    -- 1. the rest of the path on every handed-on element, by induction
    have hmemsel : ∀ m ∈ (Locate.sel cfg Rep.simple).inner f v, m ∈ sel f v := by
      intro m hm
      have : m ∈ Locate.last cfg Rep.simple f v := by
        simp only [Locate.sel, Locate.inner] at hm
        split at hm
        · exact (List.mem_filter.mp hm).1
        · exact (List.mem_filter.mp hm).1
      exact hlast.mem_iff.mp this
    have h1 : ((Locate.sel cfg Rep.simple).inner f v).flatMap
          (fun m => pre m.1 (evalSel (Locate.sel cfg Rep.simple) false (g :: r) m.2))
        |>.Perm (((Locate.sel cfg Rep.simple).inner f v).flatMap G) := by
      apply perm_flatMap_left
      intro m hm
      have hsz := sel_size f v m (hmemsel m hm)
      exact (locate_perm_eval cfg hn (g :: r) m.2 hc' ht' (by omega)).map _
    -- 2. what is not handed on is a non-container, on which the rest yields nothing
    have h2 : ((Locate.sel cfg Rep.simple).inner f v).flatMap G = (Locate.last cfg Rep.simple f v).flatMap G := by
      simp only [Locate.sel, Locate.inner]
      split
      · apply flatMap_filter_vanish
        intro m hm
        simp only [Bool.or_eq_false_iff] at hm
        exact hG m hm.1
      · exact flatMap_filter_vanish _ _ G hG
    -- 3. the last-position selection is the denotation up to order
    have h3 : ((Locate.last cfg Rep.simple f v).flatMap G).Perm ((sel f v).flatMap G) :=
      List.Perm.flatMap_right G hlast
    have h4 : (sel f v).flatMap G = eval (f :: g :: r) v := by simp [eval, G, pre]
    rw [← h4]
    exact h1.trans (h2 ▸ h3)


/-- Expr.Walk, a fragment other than a descent (slice flags off): what the fragment denotes -/
theorem walk_last_eq (cfg : Cfg) (hn : cfg.locNegEnd = false)
    (f : Frag) (hc : ClampFree cfg f) (v : JV) (hf : isDescent f = false) (hlen : ∀ xs, v = .arr xs → (xs.length : Int) ≤ maxEnd) :
    Walk.last cfg Rep.simple f v = sel f v := by
  rw [← last_eq_sel cfg f v hf hlen]
  cases f with
  | descent => simp [isDescent] at hf
  | child k => rfl
  | nth i => rfl
  | union ms => rfl
  | wild => cases v <;> simp [Walk.last, Walk.wildKids, Get.last, Get.wildKids, Rep.simple]
  | filter p =>
    cases v <;> simp [Walk.last, Walk.filterKids, Get.last, Get.filterKids, Rep.simple, OKind.typed]
  | slice s e t =>
    cases v with
    | arr xs =>
      have hra : (cfg.walkTypedArray && decide (Rep.simple.ak = AK.rarray)) = false := by
        cases cfg.walkTypedArray <;> rfl
      simp only [Walk.last, Walk.slice, hra, Bool.false_eq_true, ↓reduceIte, Get.last, sliceLast_arr,
        locate_sliceIdx_eq cfg hn _ s e t hc]
      apply flatMap_congr'
      intro i hi
      exact mIdx_of_nonneg xs i (modelIdx_nonneg true _ s e t i hi) (modelIdx_lt _ s e t i hi)
    | _ => simp [Walk.last, Walk.slice, Get.last, Get.sliceLast]

/-- **Expr.Walk reports exactly the locations the path denotes** (as a multiset; slice flags and
`walkDescentNoSelf` off) -/
theorem walk_perm_eval (cfg : Cfg) (hn : cfg.locNegEnd = false)
    (hw : cfg.walkDescentNoSelf = false) :
    ∀ (x : List Frag) (v : JV), (∀ f ∈ x, ClampFree cfg f) → endsInDescent x = false → (jsize v : Int) ≤ maxEnd →
      (evalSel (Walk.sel cfg Rep.simple) false x v).Perm (eval x v)
  | [], v, _, _, _ => by simp [evalSel, eval]
  | [f], v, hc, ht, hz => by
    have hf : isDescent f = false := by simpa [endsInDescent] using ht
    simp only [evalSel, eval, Walk.sel]
    rw [walk_last_eq cfg hn f (hc f (by simp)) v hf (arr_len_le v _ hz)]
    simp
  | f :: g :: r, v, hc, ht, hz => by
    have hc' : ∀ f' ∈ g :: r, ClampFree cfg f' := fun f' hf' => hc f' (List.mem_cons_of_mem _ hf')
    have hlen := arr_len_le v _ hz
    have ht' : endsInDescent (g :: r) = false := by simpa [endsInDescent] using ht
    rw [evalSel]
    simp only [Bool.false_and, Bool.false_eq_true, ↓reduceIte]
    let G : Path × JV → List (Path × JV) := fun m => pre m.1 (eval (g :: r) m.2)
    have hinner : ((Walk.sel cfg Rep.simple).inner f v).Perm (sel f v) := by
      by_cases hf : isDescent f = true
      · have hfd : f = .descent := by cases f <;> simp_all [isDescent]
        subst hfd
        simp only [Walk.sel, Walk.inner, hw, Bool.false_eq_true, ↓reduceIte, sel]
        exact (desc_perm v).symm
      · have hf' : isDescent f = false := by simpa using hf
        have : (Walk.sel cfg Rep.simple).inner f v = Walk.last cfg Rep.simple f v := by
          cases f with
          | descent => simp [isDescent] at hf'
          | _ => rfl
        rw [this, walk_last_eq cfg hn f (hc f (by simp)) v hf' hlen]
    have h1 : ((Walk.sel cfg Rep.simple).inner f v).flatMap
          (fun m => pre m.1 (evalSel (Walk.sel cfg Rep.simple) false (g :: r) m.2))
        |>.Perm (((Walk.sel cfg Rep.simple).inner f v).flatMap G) := by
      apply perm_flatMap_left
      intro m hm
      have hsz := sel_size f v m (hinner.mem_iff.mp hm)
      exact (walk_perm_eval cfg hn hw (g :: r) m.2 hc' ht' (by omega)).map _
    have h3 : (((Walk.sel cfg Rep.simple).inner f v).flatMap G).Perm ((sel f v).flatMap G) :=
      List.Perm.flatMap_right G hinner
    have h4 : (sel f v).flatMap G = eval (f :: g :: r) v := by simp [eval, G, pre]
    rw [← h4]
    exact h1.trans h3

/-! ### GetNodes against Get on gen data -/

/-- two evaluators with the same selection functions compute the same (where the `descentSiblings`
branch is not taken) -/
theorem evalSel_congr (S T : Sel) (sib : Bool)
    (hin : ∀ f v, S.inner f v = T.inner f v) (hlast : ∀ f v, S.last f v = T.last f v) :
    ∀ (x : List Frag) (v : JV), (sib = false ∨ noDescAfter x = true) → evalSel S sib x v = evalSel T sib x v
  | [], v, _ => by simp [evalSel]
  | [f], v, _ => by simpa [evalSel] using hlast f v
  | f :: g :: r, v, hs => by
    have hs' : sib = false ∨ noDescAfter (g :: r) = true := by
      rcases hs with h | h
      · exact Or.inl h
      · exact Or.inr (by simp only [noDescAfter, Bool.and_eq_true] at h; exact h.2)
    have hsib : (sib && isDescent g && !isDescent f) = false := by
      rcases hs with h | h
      · simp [h]
      · simp only [noDescAfter, Bool.and_eq_true, Bool.not_eq_true'] at h
        cases sib <;> simp_all
    rw [evalSel, evalSel]
    simp only [hsib, Bool.false_eq_true, ↓reduceIte, hin]
    apply flatMap_congr'
    intro m _
    rw [evalSel_congr S T sib hin hlast (g :: r) m.2 hs']

/-- get.go's `gen.Array` branch clamps `end` to the length only for a positive step; for a negative step
an end beyond the length is above every start, so the same indexes result -/
theorem modelIdx_gen (n : Nat) (s e t : Option Int) : modelIdx false n s e t = modelIdx true n s e t := by
  unfold modelIdx
  rw [norm_eq, norm_eq]
  by_cases h0 : t.getD 1 = 0
  · simp [h0]
  · by_cases hst : (n : Int) ≤ nStart n s
    · simp [h0, hst]
    · simp only [h0, hst, ↓reduceIte, Get.lastIdx]
      by_cases hpos : 0 < t.getD 1
      · have : nStop false n e t = nStop true n e t := by
          unfold nStop; simp [hpos]
        simp only [hpos, ↓reduceIte, this]
      · have hneg : t.getD 1 < 0 := by omega
        simp only [hpos, ↓reduceIte]
        obtain ⟨m, hm⟩ : ∃ m, n = m + 1 := ⟨n - 1, by have := nStart_nonneg n s; omega⟩
        by_cases hbig : (n : Int) < (if e.getD maxEnd < 0 then (n : Int) + e.getD maxEnd else e.getD maxEnd)
        · -- the end is beyond the length: nothing either way
          have h1 : ¬ (nStop false n e t < nStart n s) := by
            unfold nStop; simp only [hpos, decide_false, Bool.false_or, Bool.false_and, Bool.false_eq_true,
              ↓reduceIte, hneg, decide_true, Bool.true_and, decide_eq_true_eq]
            split <;> omega
          have h2 : ¬ (nStop true n e t < nStart n s) := by
            unfold nStop; simp only [Bool.or_true, Bool.true_and, hbig, decide_true, ↓reduceIte, hneg,
              decide_eq_true_eq]
            split <;> omega
          rw [hm, loopDown, loopDown, ← hm]
          simp [h1, h2]
        · have : nStop false n e t = nStop true n e t := by
            unfold nStop; simp [hbig]
          rw [this]


theorem sibEval_congr (sets : JV → Bool) (F1 F2 S1 S2 : Path × JV → List (Path × JV))
    (hF : ∀ m, F1 m = F2 m) (hS : ∀ m, S1 m = S2 m) (l : List (Path × JV)) :
    sibEval sets F1 S1 l = sibEval sets F2 S2 l := by
  have h1 : F1 = F2 := funext hF
  have h2 : S1 = S2 := funext hS
  rw [h1, h2]

/-- two evaluators with the same selection functions (and the same flag-setting elements) compute the same -/
theorem evalSel_congr' (S T : Sel) (sib : Bool)
    (hin : ∀ f v, S.inner f v = T.inner f v) (hsets : S.sets = T.sets) (hlast : ∀ f v, S.last f v = T.last f v) :
    ∀ (x : List Frag) (v : JV), evalSel S sib x v = evalSel T sib x v
  | [], v => by simp [evalSel]
  | [f], v => by simpa [evalSel] using hlast f v
  | f :: g :: r, v => by
    rw [evalSel, evalSel]
    simp only [hin, hsets]
    split
    · apply sibEval_congr
      · intro m; rw [evalSel_congr' S T sib hin hsets hlast (g :: r) m.2]
      · intro m; rw [evalSel_congr' S T sib hin hsets hlast r m.2]
    · apply flatMap_congr'
      intro m _
      rw [evalSel_congr' S T sib hin hsets hlast (g :: r) m.2]

/-- slice on a `gen.Array` (end clamped for a positive step only) against `[]any`, last position -/
theorem sliceLast_gen (s e t : Option Int) (v : JV) :
    Get.sliceLast Rep.gen s e t v = Get.sliceLast Rep.simple s e t v := by
  cases v with
  | arr xs =>
    have h1 : Get.sliceLast Rep.gen s e t (.arr xs) = (modelIdx false xs.length s e t).flatMap (elemAt xs) := by
      simp only [Get.sliceLast, Get.normFor, Rep.gen, modelIdx]
      cases Get.norm false xs.length s e t <;> simp
    rw [h1, sliceLast_arr, modelIdx_gen]
  | _ => simp [Get.sliceLast]

/-- … and in an inner position, where the `innerEmptySlice` deviation is out of the way -/
theorem slicePush_gen (cfg : Cfg) (s e t : Option Int) (v : JV)
    (hok : cfg.innerEmptySlice = false ∨ (-1 ≤ t.getD 1 ∧ t.getD 1 ≤ 1)) :
    (Get.slicePush cfg Rep.gen s e t v).reverse = (Get.slicePush cfg Rep.simple s e t v).reverse := by
  rw [slicePush_rev cfg s e t v hok, ← sliceLast_gen]
  cases v with
  | arr xs =>
    simp only [Get.slicePush, Get.sliceLast, Get.normFor, Rep.gen, AK.typed, Bool.false_eq_true, ↓reduceIte]
    rw [norm_eq]
    by_cases h0 : t.getD 1 = 0
    · simp [h0]
    · by_cases hst : (xs.length : Int) ≤ nStart xs.length s
      · simp [h0, hst]
      · simp only [h0, hst, ↓reduceIte]
        rw [flatMap_reverse_small _ _ (elemAt_small xs)]
        have hs0 := nStart_nonneg xs.length s
        rw [innerIdx_rev cfg xs.length _ (by omega) (by simpa using h0)
          (by intro hp; have := nStop_le false xs.length e t hp; simp only; omega)
          (by intro hp; have := nStop_ge false xs.length e t hp; simp only; omega)
          (by simpa using hok)]
  | _ => simp [Get.slicePush, Get.sliceLast]

theorem get_last_gen (cfg : Cfg) (f : Frag) (v : JV) : Get.last cfg Rep.gen f v = Get.last cfg Rep.simple f v := by
  cases f with
  | slice s e t => exact sliceLast_gen s e t v
  | wild => cases v <;> simp [Get.last, Get.wildKids, Rep.gen, Rep.simple]
  | filter p => cases v <;> simp [Get.last, Get.filterKids, Rep.gen, Rep.simple, OKind.typed]
  | _ => rfl

theorem get_inner_gen (cfg : Cfg) (he : cfg.innerEmptySlice = false) (f : Frag) (v : JV) :
    (Get.sel cfg Rep.gen).inner f v = (Get.sel cfg Rep.simple).inner f v := by
  cases f with
  | slice s e t =>
    simp only [Get.sel, Get.push, contOnly, ← List.filter_reverse]
    rw [slicePush_gen cfg s e t v (Or.inl he)]
  | wild => cases v <;> simp [Get.sel, Get.push, Get.wildKids, Rep.gen, Rep.simple]
  | filter p => cases v <;> simp [Get.sel, Get.push, Get.filterKids, Rep.gen, Rep.simple, OKind.typed]
  | descent =>
    have h1 : (cfg.typedMapWild && decide (Rep.gen.ok = OKind.rmap)) = false := by cases cfg.typedMapWild <;> rfl
    have h2 : (cfg.typedMapWild && decide (Rep.simple.ok = OKind.rmap)) = false := by cases cfg.typedMapWild <;> rfl
    simp [Get.sel, Get.push, h1, h2]
  | _ => rfl

/-- GetNodes' selection functions (node.go) with its three flags off are Get's on gen data -/
theorem nodes_last (cfg : Cfg) (hu : cfg.nodesUnionNil = false) (hr : cfg.nodesFilterRev = false)
    (hz : cfg.nodesFilterNull = false) (f : Frag) (v : JV) : Nodes.last cfg f v = Get.last cfg Rep.gen f v := by
  cases f with
  | union ms =>
    simp only [Nodes.last, Get.last]
    congr 1
    funext mb
    cases mb with
    | key k => rfl
    | idx i =>
      cases v with
      | arr xs =>
        simp only [Nodes.unionLast, mMember, hu, Bool.false_eq_true, ↓reduceIte]
        cases mIdx i (.arr xs) <;> rfl
      | _ => simp [Nodes.unionLast, mMember, mIdx]
  | slice s e t => simp only [Nodes.last, Get.last]; exact (sliceLast_gen s e t v).symm
  | filter p => simp [Nodes.last, Get.last, hr, Nodes.filterKids, hz]
  | _ => rfl

theorem nodes_inner (cfg : Cfg) (he : cfg.innerEmptySlice = false) (hz : cfg.nodesFilterNull = false)
    (f : Frag) (v : JV) : Nodes.inner cfg f v = (Get.sel cfg Rep.gen).inner f v := by
  cases f with
  | slice s e t =>
    simp only [Nodes.inner, Get.sel, Get.push, contOnly, ← List.filter_reverse]
    rw [slicePush_gen cfg s e t v (Or.inl he)]
  | filter p => simp [Nodes.inner, Get.sel, Get.push, Nodes.filterKids, hz]
  | _ => rfl

/-- FirstNode's last-position selections with the flags off: the first of GetNodes' -/
theorem firstNode_last (cfg : Cfg) (hl : cfg.firstNodeLast = false) (hu : cfg.nodesUnionNil = false)
    (hr : cfg.nodesFilterRev = false) (f : Frag) (v : JV) :
    FirstNode.last cfg f v = (Nodes.last cfg f v).take 1 := by
  cases f with
  | union ms =>
    simp only [FirstNode.last, FirstNode.unionLast, hl, Bool.false_eq_true, ↓reduceIte, Nodes.last]
    congr 2
    funext mb
    cases mb with
    | key k => rfl
    | idx i =>
      cases v with
      | arr xs =>
        simp only [Nodes.unionLast, mMember, hu, Bool.false_eq_true, ↓reduceIte]
        cases mIdx i (.arr xs) <;> rfl
      | _ => simp [Nodes.unionLast, mMember, mIdx]
  | slice s e t => simp only [FirstNode.last, Nodes.last]; exact first_sliceLast cfg s e t v
  | filter p => simp [FirstNode.last, Nodes.last, hl, hr]
  | wild => simp [FirstNode.last, Nodes.last, Get.last]
  | descent => simp [FirstNode.last, Nodes.last, Get.last]
  | child k =>
    simp only [FirstNode.last, Nodes.last, Get.last]
    exact (List.take_of_length_le (mKey_small k v)).symm
  | nth i =>
    simp only [FirstNode.last, Nodes.last, Get.last]
    exact (List.take_of_length_le (mIdx_small i v)).symm


/-- the index list of `reflectGetSlice` (typed slices and arrays) -/
def modelIdxR (n : Nat) (s e t : Option Int) : List Int :=
  match Get.rnorm n s e t with
  | none => []
  | some b => Get.lastIdx n b

def rStop (n : Nat) (e : Option Int) : Int :=
  let stop := if e.getD maxEnd < 0 then (if (n : Int) + e.getD maxEnd < -1 then -1 else (n : Int) + e.getD maxEnd) else e.getD maxEnd
  if (n : Int) < stop then (n : Int) else stop

theorem rnorm_eq (n : Nat) (s e t : Option Int) :
    Get.rnorm n s e t =
      if t.getD 1 = 0 then none
      else if 0 ≤ nStart n s ∧ nStart n s < (n : Int) then some ⟨nStart n s, rStop n e, t.getD 1⟩ else none := rfl

/-- `reflectGetSlice` visits the indexes the `[]any` branch visits (it clamps a negative end at -1 for a
positive step too, where the loop does not start either way) -/
theorem modelIdxR_eq (n : Nat) (s e t : Option Int) : modelIdxR n s e t = modelIdx true n s e t := by
  unfold modelIdxR modelIdx
  rw [rnorm_eq, norm_eq]
  have hs0 := nStart_nonneg n s
  by_cases h0 : t.getD 1 = 0
  · simp [h0]
  · by_cases hst : (n : Int) ≤ nStart n s
    · have : ¬ (0 ≤ nStart n s ∧ nStart n s < (n : Int)) := by omega
      simp [h0, hst, this]
    · have hin : 0 ≤ nStart n s ∧ nStart n s < (n : Int) := by omega
      simp only [h0, hst, hin, and_self, ↓reduceIte, Get.lastIdx]
      obtain ⟨m, hm⟩ : ∃ m, n = m + 1 := ⟨n - 1, by omega⟩
      by_cases hpos : 0 < t.getD 1
      · simp only [hpos, ↓reduceIte]
        by_cases hlt : nStart n s < rStop n e
        · have : rStop n e = nStop true n e t := by
            have hneg : ¬ (t.getD 1 < 0) := by omega
            unfold rStop nStop at *
            simp only [hpos, decide_true, Bool.true_or, Bool.true_and, hneg, decide_false, Bool.false_and,
              Bool.false_eq_true, ↓reduceIte, decide_eq_true_eq] at *
            (repeat' split at hlt) <;> (repeat' split) <;> omega
          rw [this]
        · have h2 : ¬ (nStart n s < nStop true n e t) := by
            have hneg : ¬ (t.getD 1 < 0) := by omega
            unfold rStop at hlt
            unfold nStop
            simp only [hpos, decide_true, Bool.true_or, Bool.true_and, hneg, decide_false, Bool.false_and,
              Bool.false_eq_true, ↓reduceIte, decide_eq_true_eq] at *
            (repeat' split at hlt) <;> (repeat' split) <;> omega
          rw [hm, loopUp, loopUp, ← hm]
          simp [hlt, h2]
      · have hneg : t.getD 1 < 0 := by omega
        have : rStop n e = nStop true n e t := by
          unfold rStop nStop
          simp only [hpos, decide_false, Bool.false_or, Bool.true_and, hneg, decide_true, decide_eq_true_eq,
            Bool.or_true]
          (repeat' split) <;> omega
        simp only [hpos, ↓reduceIte, this]


/-! ### Get on every representation (possible once the typed-data flags are off) -/

theorem sliceLast_typed (rep : Rep) (hty : rep.ak.typed = true) (s e t : Option Int) (v : JV) :
    Get.sliceLast rep s e t v = Get.sliceLast Rep.simple s e t v := by
  cases v with
  | arr xs =>
    have h1 : Get.sliceLast rep s e t (.arr xs) = (modelIdxR xs.length s e t).flatMap (elemAt xs) := by
      obtain ⟨ak, ok⟩ := rep
      cases ak <;> simp [AK.typed] at hty <;>
        (simp only [Get.sliceLast, Get.normFor, modelIdxR]; cases Get.rnorm xs.length s e t <;> simp)
    rw [h1, sliceLast_arr, modelIdxR_eq]
  | _ => simp [Get.sliceLast]

theorem sliceLast_rep (rep : Rep) (s e t : Option Int) (v : JV) :
    Get.sliceLast rep s e t v = Get.sliceLast Rep.simple s e t v := by
  by_cases hty : rep.ak.typed = true
  · exact sliceLast_typed rep hty s e t v
  · obtain ⟨ak, ok⟩ := rep
    cases ak with
    | any => cases v <;> simp [Get.sliceLast, Get.normFor, Rep.simple]
    | indexed => cases v <;> simp [Get.sliceLast, Get.normFor, Rep.simple]
    | gen =>
      have := sliceLast_gen s e t v
      cases v <;> simp_all [Get.sliceLast, Get.normFor, Rep.simple, Rep.gen]
    | rslice => simp [AK.typed] at hty
    | rarray => simp [AK.typed] at hty

theorem get_last_rep (cfg : Cfg) (hm : cfg.typedMapWild = false) (ht : cfg.typedObjFilter = false)
    (rep : Rep) (f : Frag) (v : JV) : Get.last cfg rep f v = Get.last cfg Rep.simple f v := by
  cases f with
  | slice s e t => exact sliceLast_rep rep s e t v
  | wild => cases v <;> simp [Get.last, Get.wildKids, hm]
  | filter p => cases v <;> simp [Get.last, Get.filterKids, ht]
  | _ => rfl

theorem slicePush_typed (cfg : Cfg) (rep : Rep) (hty : rep.ak.typed = true) (s e t : Option Int) (v : JV) :
    (Get.slicePush cfg rep s e t v).reverse = Get.sliceLast rep s e t v := by
  cases v with
  | arr xs =>
    simp only [Get.slicePush, Get.sliceLast, hty, ↓reduceIte]
    cases Get.normFor rep xs.length s e t <;> simp
  | _ => simp [Get.slicePush, Get.sliceLast]

theorem get_inner_rep (cfg : Cfg) (he : cfg.innerEmptySlice = false) (hm : cfg.typedMapWild = false)
    (ht : cfg.typedObjFilter = false) (rep : Rep) (f : Frag) (v : JV) :
    (Get.sel cfg rep).inner f v = (Get.sel cfg Rep.simple).inner f v := by
  cases f with
  | slice s e t =>
    simp only [Get.sel, Get.push, contOnly, ← List.filter_reverse]
    rw [slicePush_rev cfg s e t v (Or.inl he)]
    by_cases hty : rep.ak.typed = true
    · rw [slicePush_typed cfg rep hty, sliceLast_typed rep hty]
    · obtain ⟨ak, ok⟩ := rep
      cases ak with
      | any =>
        have : Get.slicePush cfg ⟨.any, ok⟩ s e t v = Get.slicePush cfg Rep.simple s e t v := by
          cases v <;> simp [Get.slicePush, Get.normFor, Rep.simple, AK.typed]
        rw [this, slicePush_rev cfg s e t v (Or.inl he)]
      | indexed =>
        have : Get.slicePush cfg ⟨.indexed, ok⟩ s e t v = Get.slicePush cfg Rep.simple s e t v := by
          cases v <;> simp [Get.slicePush, Get.normFor, Rep.simple, AK.typed]
        rw [this, slicePush_rev cfg s e t v (Or.inl he)]
      | gen =>
        have : Get.slicePush cfg ⟨.gen, ok⟩ s e t v = Get.slicePush cfg Rep.gen s e t v := by
          cases v <;> simp [Get.slicePush, Get.normFor, Rep.gen, AK.typed]
        rw [this, slicePush_gen cfg s e t v (Or.inl he), slicePush_rev cfg s e t v (Or.inl he)]
      | rslice => simp [AK.typed] at hty
      | rarray => simp [AK.typed] at hty
  | wild => cases v <;> simp [Get.sel, Get.push, Get.wildKids, hm]
  | filter p => cases v <;> simp [Get.sel, Get.push, Get.filterKids, ht]
  | descent => simp [Get.sel, Get.push, hm]
  | _ => rfl


end OjgVerif.JPath
