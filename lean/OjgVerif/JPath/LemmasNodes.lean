import OjgVerif.JPath.LemmasMach
/-! # The GetNodes machine against its skeleton

`Nodes.step` is `Get.step` except for the round that drops a leaf handed to a descent (node.go has no case for it).
What that round leaves undone yields nothing: the rest of a path that does not end in a bare descent selects nothing
in a leaf. Hence the invariant of `run_ok` (results so far ++ what the stack denotes) holds for `Nodes.run` too. -/
set_option linter.unusedSimpArgs false
namespace OjgVerif.JPath
open OjgVerif

section
variable (L P : Frag → JV → List JV)

/-- a path that does not end in a bare descent denotes nothing in a leaf, if no fragment selects in a leaf -/
theorem denV_leaf (hL : ∀ f v, isDescent f = false → isContainer v = false → L f v = [])
    (hP : ∀ f v, isDescent f = false → isContainer v = false → P f v = []) :
    ∀ (y : List Frag) (v : JV), y ≠ [] → endsInDescent y = false → isContainer v = false → denV false L P y v = []
  | [], _, h, _, _ => absurd rfl h
  | [f], v, _, ht, hv => by
    have hf : isDescent f = false := by simpa [endsInDescent] using ht
    rw [denV_single _ _ _ f v hf, hL f v hf hv]
  | f :: g :: r, v, _, ht, hv => by
    have ht' : endsInDescent (g :: r) = false := by simpa [endsInDescent] using ht
    have ih := denV_leaf hL hP (g :: r) v (by simp) ht' hv
    by_cases hf : isDescent f = true
    · have hfd : f = .descent := by cases f <;> simp_all [isDescent]
      subst hfd
      rw [denV_descent_cons]
      have hn : nodesInnerV v = [v] := by simp [nodesInnerV, isContainer_false_nodesInner v hv]
      simp [hn, ih]
    · have hf' : isDescent f = false := by simpa using hf
      rw [denV_cons_cons _ _ _ f g r v hf', hP f v hf' hv]
      simp [fresh_nil]

end

theorem endsInDescent_drop : ∀ (x : List Frag) (fi : Nat) (f : Frag) (r : List Frag),
    endsInDescent x = false → x.drop fi = f :: r → endsInDescent (f :: r) = false
  | [], fi, f, r, _, h => by simp at h
  | a :: t, 0, f, r, ht, h => by simp at h; obtain ⟨rfl, rfl⟩ := h; exact ht
  | [a], fi + 1, f, r, _, h => by simp at h
  | a :: b :: t, fi + 1, f, r, ht, h => by
    have ht' : endsInDescent (b :: t) = false := by simpa [endsInDescent] using ht
    exact endsInDescent_drop (b :: t) fi f r ht' (by simpa using h)

section
variable (L P : Frag → JV → List JV) (x : List Frag)

theorem nodes_step_of_keep (fr : Get.Frame) (d : JV) (rest : List JV) (h : Nodes.dropsLeaf x fr d = false) :
    Nodes.step false L P x fr d rest = Get.step false L P x fr d rest := by
  simp [Nodes.step, h]

theorem dropsLeaf_spec (fr : Get.Frame) (d : JV) (h : Nodes.dropsLeaf x fr d = true) :
    ∃ r, x.drop fr.fi = .descent :: r ∧ fr.dflag = false ∧ isContainer d = false := by
  unfold Nodes.dropsLeaf at h
  split at h
  · rename_i r heq
    simp only [Bool.and_eq_true, Bool.not_eq_true'] at h
    exact ⟨r, heq, h.1, h.2⟩
  · simp at h

theorem nodes_step_den (hL : ∀ f v, isDescent f = false → isContainer v = false → L f v = [])
    (hP : ∀ f v, isDescent f = false → isContainer v = false → P f v = [])
    (ht : endsInDescent x = false)
    (fr : Get.Frame) (d : JV) (rest : List JV) (h : fr.items = d :: rest) :
    (Nodes.step false L P x fr d rest).1 ++ denStack false L P x (Nodes.step false L P x fr d rest).2
      = denFrame false L P x fr := by
  by_cases hd : Nodes.dropsLeaf x fr d = true
  · obtain ⟨r, hx, hdf, hleaf⟩ := dropsLeaf_spec x fr d hd
    obtain ⟨fi, df, cf, items⟩ := fr
    simp only at h hx hdf
    subst h; subst hdf
    have hr : r ≠ [] := by
      intro hr'; subst hr'; exact drop_ne_descent x ht fi hx
    have htr : endsInDescent r = false := by
      have := endsInDescent_drop x fi _ _ ht hx
      cases r with
      | nil => exact absurd rfl hr
      | cons a b => simpa [endsInDescent] using this
    have hfull : dFull false L P r cf d = [] := by
      cases r with
      | nil => exact absurd rfl hr
      | cons a b =>
        have hn : nodesInnerV d = [d] := by simp [nodesInnerV, isContainer_false_nodesInner d hleaf]
        simp [dFull, hn, denV_leaf L P hL hP (a :: b) d (by simp) htr hleaf]
    simp only [Nodes.step, hd, ↓reduceIte, List.nil_append, den_rest]
    simp [denFrame, hx, sibList_false, hfull]
  · have hd' : Nodes.dropsLeaf x fr d = false := by simpa using hd
    rw [nodes_step_of_keep L P x fr d rest hd']
    exact step_den false L P x fr d rest h

theorem nodes_step_phi (fr : Get.Frame) (d : JV) (rest : List JV) (h : fr.items = d :: rest) :
    phiStack P x (Nodes.step false L P x fr d rest).2 + 1 ≤ phiFrame P x fr := by
  by_cases hd : Nodes.dropsLeaf x fr d = true
  · obtain ⟨r, hx, hdf, _⟩ := dropsLeaf_spec x fr d hd
    obtain ⟨fi, df, cf, items⟩ := fr
    simp only at h hx hdf
    subst h; subst hdf
    simp only [Nodes.step, hd, ↓reduceIte, phi_rest]
    simp only [phiFrame, hx, Bool.false_eq_true, ↓reduceIte, List.map_cons, List.sum_cons]
    have := phiFull_ge P r d
    omega
  · have hd' : Nodes.dropsLeaf x fr d = false := by simpa using hd
    rw [nodes_step_of_keep L P x fr d rest hd']
    exact step_phi false L P x fr d rest h

theorem nodes_step_nonempty (fr : Get.Frame) (d : JV) (rest : List JV) :
    ∀ f ∈ (Nodes.step false L P x fr d rest).2, f.items ≠ [] := by
  by_cases hd : Nodes.dropsLeaf x fr d = true
  · simp only [Nodes.step, hd, ↓reduceIte]; exact rest_nonempty _ _ _
  · have hd' : Nodes.dropsLeaf x fr d = false := by simpa using hd
    rw [nodes_step_of_keep L P x fr d rest hd']
    exact step_nonempty false L P x fr d rest

/-- GetNodes' loop with enough fuel returns the results so far followed by what the stack denotes -/
theorem nodes_run_ok (hL : ∀ f v, isDescent f = false → isContainer v = false → L f v = [])
    (hP : ∀ f v, isDescent f = false → isContainer v = false → P f v = [])
    (ht : endsInDescent x = false) : ∀ (n : Nat) (st : List Get.Frame) (acc : List JV),
    (∀ f ∈ st, f.items ≠ []) → phiStack P x st ≤ n →
    Nodes.run false L P x n st acc = acc ++ denStack false L P x st := by
  intro n
  induction n with
  | zero =>
    intro st acc hne hphi
    cases st with
    | nil => simp [Nodes.run, denStack]
    | cons fr t =>
      have := phiFrame_pos P x fr (hne fr (by simp))
      simp only [phiStack, List.map_cons, List.sum_cons] at hphi
      omega
  | succ n ih =>
    intro st acc hne hphi
    cases st with
    | nil => simp [Nodes.run, denStack]
    | cons fr t =>
      cases hit : fr.items with
      | nil => exact absurd hit (hne fr (by simp))
      | cons d rest =>
        have hrun : Nodes.run false L P x (n + 1) (fr :: t) acc
            = Nodes.run false L P x n ((Nodes.step false L P x fr d rest).2 ++ t) (acc ++ (Nodes.step false L P x fr d rest).1) := by
          simp [Nodes.run, hit]
        rw [hrun, ih]
        · rw [denStack_append]
          have hden := nodes_step_den L P x hL hP ht fr d rest hit
          have hcons : denStack false L P x (fr :: t) = denFrame false L P x fr ++ denStack false L P x t := by
            simp [denStack]
          rw [hcons, ← hden]
          simp [List.append_assoc]
        · intro f hf
          rcases List.mem_append.mp hf with h | h
          · exact nodes_step_nonempty L P x fr d rest f h
          · exact hne f (List.mem_cons_of_mem _ h)
        · rw [phiStack_append]
          have h1 := nodes_step_phi L P x fr d rest hit
          simp only [phiStack, List.map_cons, List.sum_cons] at hphi h1 ⊢
          omega

end

theorem nodes_last_leaf (cfg : Cfg) (f : Frag) (v : JV) (hf : isDescent f = false) (hv : isContainer v = false) :
    Nodes.last cfg f v = [] := by
  cases f with
  | descent => simp [isDescent] at hf
  | union ms =>
    simp only [Nodes.last]
    have : ∀ m, Nodes.unionLast cfg v m = [] := by
      intro m; cases m <;> cases v <;> simp_all [Nodes.unionLast, mKey, isContainer]
    simp [this]
  | _ => cases v <;> simp_all [Nodes.last, Get.last, Get.sliceLast, Nodes.filterKids, Get.filterKids, Get.wildKids, mKey, mIdx, isContainer]

theorem nodes_inner_leaf (cfg : Cfg) (f : Frag) (v : JV) (hf : isDescent f = false) (hv : isContainer v = false) :
    Nodes.inner cfg f v = [] := by
  cases f with
  | descent => simp [isDescent] at hf
  | union ms => simp [Nodes.inner, Get.push, mMember_leaf v hv, contOnly]
  | _ => cases v <;> simp_all [Nodes.inner, Get.push, Get.slicePush, Nodes.filterKids, Get.filterKids, Get.wildKids, mKey, mIdx, isContainer, contOnly]

/-- **the GetNodes machine computes the skeleton model `nodesM`** (`descentSiblings` off: the code since baff053),
every tree, every path not ending in a bare descent -/
theorem nodesMach_eq_nodesM (cfg : Cfg) (hs : cfg.descentSiblings = false) (x : List Frag) (d : JV)
    (ht : endsInDescent x = false) : nodesMach cfg x d = nodesM cfg x d := by
  cases x with
  | nil => simp [nodesMach, nodesM, evalSel]
  | cons f r =>
    have hL : ∀ f v, isDescent f = false → isContainer v = false → Nodes.lastV cfg f v = [] := by
      intro f v hf hv; simp [Nodes.lastV, nodes_last_leaf cfg f v hf hv]
    have hP : ∀ f v, isDescent f = false → isContainer v = false → Nodes.pushV cfg f v = [] := by
      intro f v hf hv; simp [Nodes.pushV, nodes_inner_leaf cfg f v hf hv]
    simp only [nodesMach, nodesM, hs]
    rw [nodes_run_ok (Nodes.lastV cfg) (Nodes.pushV cfg) (f :: r) hL hP ht _ _ [] (by simp)]
    · simp only [List.nil_append, denStack, List.flatMap_cons, List.flatMap_nil, List.append_nil]
      have hden : denFrame false (Nodes.lastV cfg) (Nodes.pushV cfg) (f :: r) ⟨0, false, false, [d]⟩
          = denV false (Nodes.lastV cfg) (Nodes.pushV cfg) (f :: r) d := by
        by_cases hf : isDescent f = true
        · have hfd : f = .descent := by cases f <;> simp_all [isDescent]
          subst hfd
          simp [denFrame, sibList_single, dFull_false]
        · rw [denFrame_of_frag false _ _ (f :: r) _ f r (by simp) (by simpa using hf)]
          simp
      rw [hden]
      exact denV_eq_evalSel_gen false (Nodes.sel cfg) (Nodes.lastV cfg) (Nodes.pushV cfg) (Or.inl rfl)
        (fun v => by simp [Nodes.sel, Nodes.inner, Get.push, Rep.gen])
        (fun _ _ _ => rfl) (fun f v _ => by simp [Nodes.pushV, Nodes.sel]) (f :: r) d ht
    · simp only [phiStack, List.map_cons, List.map_nil, List.sum_cons, List.sum_nil, Nat.add_zero]
      by_cases hf : isDescent f = true
      · have hfd : f = .descent := by cases f <;> simp_all [isDescent]
        subst hfd
        simp only [phiFrame, List.drop_zero, Bool.false_eq_true, ↓reduceIte, List.map_cons, List.map_nil,
          List.sum_cons, List.sum_nil, Nat.add_zero]
        rw [← cost_descent]; exact Nat.le_succ _
      · rw [phiFrame_of_frag _ (f :: r) _ f r (by simp) (by simpa using hf)]
        simp

end OjgVerif.JPath

/-! ### FirstNode against GetNodes -/
namespace OjgVerif.JPath
open OjgVerif

section
variable (sib : Bool) (L P : Frag → JV → List JV) (x : List Frag)

theorem nodes_run_acc : ∀ (n : Nat) (st : List Get.Frame) (acc : List JV),
    Nodes.run sib L P x n st acc = acc ++ Nodes.run sib L P x n st [] := by
  intro n
  induction n with
  | zero => intro st acc; simp [Nodes.run]
  | succ n ih =>
    intro st acc
    cases st with
    | nil => simp [Nodes.run]
    | cons fr t =>
      cases hit : fr.items with
      | nil =>
        have h1 : ∀ a, Nodes.run sib L P x (n + 1) (fr :: t) a = Nodes.run sib L P x n t a := by
          intro a; simp [Nodes.run, hit]
        rw [h1, h1]; exact ih t acc
      | cons d rest =>
        have h1 : ∀ a, Nodes.run sib L P x (n + 1) (fr :: t) a
            = Nodes.run sib L P x n ((Nodes.step sib L P x fr d rest).2 ++ t) (a ++ (Nodes.step sib L P x fr d rest).1) := by
          intro a; simp [Nodes.run, hit]
        rw [h1, h1, ih _ (acc ++ _), ih _ ([] ++ _)]
        simp [List.append_assoc]

/-- one round: FirstNode returns the first of what GetNodes appends, or both go on with the same stack -/
theorem firstnode_step_sim (R : Frag → JV → Option JV) (hR : ∀ f d, R f d = (L f d).head?)
    (fr : Get.Frame) (d : JV) (rest : List JV) (hnd : x.drop fr.fi ≠ [Frag.descent]) :
    match FirstNode.step sib R P x fr d rest with
    | .ret v => (Nodes.step sib L P x fr d rest).1.head? = some v
    | .go fs => (Nodes.step sib L P x fr d rest).1 = [] ∧ (Nodes.step sib L P x fr d rest).2 = fs := by
  by_cases hd : Nodes.dropsLeaf x fr d = true
  · simp [FirstNode.step, Nodes.step, hd]
  · have hd' : Nodes.dropsLeaf x fr d = false := by simpa using hd
    simp only [FirstNode.step, Nodes.step, hd', Bool.false_eq_true, ↓reduceIte]
    exact first_step_sim sib L P x R hR fr d rest hnd

theorem firstnode_run_sim (R : Frag → JV → Option JV) (hR : ∀ f d, R f d = (L f d).head?)
    (hnd : ∀ fi, x.drop fi ≠ [Frag.descent]) :
    ∀ (n : Nat) (st : List Get.Frame), FirstNode.run sib R P x n st = (Nodes.run sib L P x n st []).head? := by
  intro n
  induction n with
  | zero => intro st; simp [FirstNode.run, Nodes.run]
  | succ n ih =>
    intro st
    cases st with
    | nil => simp [FirstNode.run, Nodes.run]
    | cons fr t =>
      cases hit : fr.items with
      | nil =>
        have h1 : FirstNode.run sib R P x (n + 1) (fr :: t) = FirstNode.run sib R P x n t := by simp [FirstNode.run, hit]
        have h2 : Nodes.run sib L P x (n + 1) (fr :: t) [] = Nodes.run sib L P x n t [] := by simp [Nodes.run, hit]
        rw [h1, h2]; exact ih t
      | cons d rest =>
        have h2 : Nodes.run sib L P x (n + 1) (fr :: t) []
            = Nodes.run sib L P x n ((Nodes.step sib L P x fr d rest).2 ++ t) ([] ++ (Nodes.step sib L P x fr d rest).1) := by
          simp [Nodes.run, hit]
        have hsim := firstnode_step_sim sib L P x R hR fr d rest (hnd fr.fi)
        rw [h2, nodes_run_acc]
        cases hs : FirstNode.step sib R P x fr d rest with
        | ret v =>
          have h1 : FirstNode.run sib R P x (n + 1) (fr :: t) = some v := by simp [FirstNode.run, hit, hs]
          rw [hs] at hsim
          simp only at hsim
          rw [h1]
          cases hl : (Nodes.step sib L P x fr d rest).1 with
          | nil => rw [hl] at hsim; simp at hsim
          | cons a as => rw [hl] at hsim; simp at hsim; simp [hsim]
        | go fs =>
          have h1 : FirstNode.run sib R P x (n + 1) (fr :: t) = FirstNode.run sib R P x n (fs ++ t) := by
            simp [FirstNode.run, hit, hs]
          rw [hs] at hsim
          simp only at hsim
          rw [h1, hsim.1, hsim.2]
          simpa using ih (fs ++ t)

end

/-- **the FirstNode machine returns the first of what the GetNodes machine returns** (node.go's flags
`firstNodeLast`, `nodesUnionNil`, `nodesFilterRev` off: since 360668e), every tree, every path not ending in a
bare descent -/
theorem firstNodeMach_eq_head (cfg : Cfg) (hl : cfg.firstNodeLast = false) (hu : cfg.nodesUnionNil = false)
    (hr : cfg.nodesFilterRev = false) (x : List Frag) (d : JV) (ht : endsInDescent x = false) :
    firstNodeMach cfg x d = (nodesMach cfg x d).head? := by
  cases x with
  | nil => simp [firstNodeMach, nodesMach]
  | cons f r =>
    simp only [firstNodeMach, nodesMach]
    exact firstnode_run_sim _ (Nodes.lastV cfg) (Nodes.pushV cfg) (f :: r) (FirstNode.ret cfg)
      (fun f d => by simp only [FirstNode.ret, Nodes.lastV, firstNode_last cfg hl hu hr, List.head?_map, head?_take_one])
      (drop_ne_descent _ ht) _ _

end OjgVerif.JPath
