/-! Line protocol shared by all drivers: one case per line `<id>\t<op>\t<arg>…`, answered by
`<id>\t<result>`. Unknown ops and malformed arguments are answered `bad-op`, never defaulted. -/
namespace OjgVerif

partial def driverLoop (h : IO.FS.Stream) (out : IO.FS.Stream) (handle : List String → String) : IO Unit := do
  let line ← h.getLine
  if line.isEmpty then
    out.flush
    return ()
  let l := (line.dropEndWhile (fun c => c = '\n' || c = '\r')).toString
  match l.splitOn "\t" with
  | id :: rest =>
    out.putStr (id ++ "\t" ++ handle rest ++ "\n")
    out.flush
  | [] =>
    out.putStr "?\tbad-op\n"
    out.flush
  driverLoop h out handle

def driverMain (handle : List String → String) : IO Unit := do
  let stdin ← IO.getStdin
  let stdout ← IO.getStdout
  driverLoop stdin stdout handle

end OjgVerif
