/-! Shared data: byte strings, hex codec for the line protocol, JSON-like values. -/
namespace OjgVerif

abbrev Bytes := List UInt8

def hexChar (n : UInt8) : Char :=
  if n < 10 then Char.ofNat (48 + n.toNat) else Char.ofNat (87 + n.toNat)

def toHex (bs : Bytes) : String :=
  String.ofList (bs.flatMap fun (b : UInt8) => [hexChar (b >>> 4), hexChar (b &&& 15)])

def hexVal (c : Char) : Option UInt8 :=
  let n := c.toNat
  if 48 ≤ n ∧ n ≤ 57 then some (UInt8.ofNat (n - 48))
  else if 97 ≤ n ∧ n ≤ 102 then some (UInt8.ofNat (n - 87))
  else none

def ofHexChars : List Char → Option Bytes
  | [] => some []
  | [_] => none
  | a :: b :: r =>
    match hexVal a, hexVal b, ofHexChars r with
    | some x, some y, some t => some ((x <<< 4 ||| y) :: t)
    | _, _, _ => none

/-- `-` stands for the empty byte string so that every field is non-empty -/
def ofHex (s : String) : Option Bytes :=
  if s = "-" then some [] else ofHexChars s.toList

def toHexF (bs : Bytes) : String := if bs.isEmpty then "-" else toHex bs

/-- JSON-like data. Floats and big numbers carry decimal text (Lean never computes with floats):
for a parsed value it is the text handed to `strconv.ParseFloat` / wrapped in `json.Number`. -/
inductive JV where
  | null
  | bool (b : Bool)
  | int (i : Int)
  | flt (t : Bytes)
  | big (t : Bytes)
  | num (lit : Bytes)   -- specification side only: the number literal as written
  | str (s : Bytes)
  | arr (xs : List JV)
  | obj (kvs : List (Bytes × JV))
  deriving Inhabited

/-- byte-wise lexicographic order, used only to canonicalise object members for output -/
def bytesLt : Bytes → Bytes → Bool
  | [], [] => false
  | [], _ :: _ => true
  | _ :: _, [] => false
  | a :: r, b :: s => if a < b then true else if b < a then false else bytesLt r s

def insertSorted (k : Bytes) (v : String) : List (Bytes × String) → List (Bytes × String)
  | [] => [(k, v)]
  | (k', v') :: r => if bytesLt k k' then (k, v) :: (k', v') :: r else (k', v') :: insertSorted k v r

/-- association list update, last write wins, position of first occurrence kept -/
def kvInsert (k : Bytes) (v : α) : List (Bytes × α) → List (Bytes × α)
  | [] => [(k, v)]
  | (k', v') :: r => if k' = k then (k, v) :: r else (k', v') :: kvInsert k v r

mutual
  /-- canonical text of a value: members sorted by key (keys are unique in model output) -/
  def JV.render : JV → String
    | .null => "n"
    | .bool true => "t"
    | .bool false => "f"
    | .int i => "I(" ++ toString i ++ ")"
    | .flt t => "F(" ++ toHexF t ++ ")"
    | .big t => "B(" ++ toHexF t ++ ")"
    | .num t => "N(" ++ toHexF t ++ ")"
    | .str s => "S(" ++ toHexF s ++ ")"
    | .arr xs => "[" ++ JV.renderList xs ++ "]"
    | .obj kvs => "{" ++ String.intercalate "," ((JV.renderKvs kvs []).map fun (k, v) => "K(" ++ toHexF k ++ ")" ++ v) ++ "}"
  def JV.renderList : List JV → String
    | [] => ""
    | [x] => x.render
    | x :: r => x.render ++ "," ++ JV.renderList r
  def JV.renderKvs : List (Bytes × JV) → List (Bytes × String) → List (Bytes × String)
    | [], acc => acc
    | (k, v) :: r, acc => JV.renderKvs r (insertSorted k v.render acc)
end

end OjgVerif
