import OjgVerif.Json.RefineStruct
/-! Refinement, last part: the grammar over the machine's leaf readers (`parseTextM`) accepts exactly
the texts the specification (`Spec.parseText`) accepts, and the entry point `run` with its BOM rule
is `exec` behind `Spec.stripBOM`. Together with `exec_text`: the reference automaton accepts exactly
the language of the specification. -/
namespace OjgVerif.Json
open OjgVerif

/-- two readers consume the same input (succeed on the same inputs and leave the same rest) -/
def SameRest {α β : Type} (p : Option (α × Bytes)) (q : Option (β × Bytes)) : Prop :=
  p.map (·.2) = q.map (·.2)

theorem SameRest.map_left {α β γ : Type} {p : Option (α × Bytes)} {q : Option (β × Bytes)} (g : α → γ)
    (h : SameRest p q) : SameRest (p.map fun x => (g x.1, x.2)) q := by
  unfold SameRest at *
  rw [← h]; cases p <;> rfl

theorem SameRest.map_right {α β γ : Type} {p : Option (α × Bytes)} {q : Option (β × Bytes)} (g : β → γ)
    (h : SameRest p q) : SameRest p (q.map fun x => (g x.1, x.2)) := by
  unfold SameRest at *
  rw [h]; cases q <;> rfl

theorem SameRest.none_iff {α β : Type} {p : Option (α × Bytes)} {q : Option (β × Bytes)} (h : SameRest p q) :
    p = none ↔ q = none := by
  unfold SameRest at h
  cases p <;> cases q <;> simp_all

theorem SameRest.of_some {α β : Type} {p : Option (α × Bytes)} {q : Option (β × Bytes)} (h : SameRest p q)
    {a : α} {r : Bytes} (hp : p = some (a, r)) : ∃ b, q = some (b, r) := by
  unfold SameRest at h
  subst hp
  cases q with
  | none => simp at h
  | some x => simp at h; exact ⟨x.1, by rw [h]⟩

theorem pChars_succ_cons (f : Nat) (b : UInt8) (r : Bytes) : Spec.pChars (f + 1) (b :: r) =
    if b = 34 then some ([], r)
    else if b = 92 then
      match r with
      | [] => none
      | e :: r' =>
        if e = 117 then
          match Spec.hex4 r' with
          | none => none
          | some (u, r'') =>
            if 0xD800 ≤ u ∧ u < 0xDC00 then
              match r'' with
              | 92 :: 117 :: r3 =>
                match Spec.hex4 r3 with
                | some (lo, r4) =>
                  if 0xDC00 ≤ lo ∧ lo < 0xE000 then
                    (Spec.pChars f r4).map fun p => (Spec.utf8Enc (0x10000 + (u - 0xD800) * 1024 + (lo - 0xDC00)) ++ p.1, p.2)
                  else (Spec.pChars f r'').map fun p => (Spec.utf8Enc u ++ p.1, p.2)
                | none => (Spec.pChars f r'').map fun p => (Spec.utf8Enc u ++ p.1, p.2)
              | _ => (Spec.pChars f r'').map fun p => (Spec.utf8Enc u ++ p.1, p.2)
            else (Spec.pChars f r'').map fun p => (Spec.utf8Enc u ++ p.1, p.2)
        else
          match Spec.escByte e with
          | some c => (Spec.pChars f r').map fun p => (c :: p.1, p.2)
          | none => none
    else if b < 32 then none
    else (Spec.pChars f r).map fun p => (b :: p.1, p.2) := rfl

/-- **Surrogate pairing does not change what a string consumes.** The specification's character
reader (which combines `\uD8xx\uDCxx`) and the machine's (which does not: known finding
C02-surrogate) succeed on the same inputs and leave the same rest; only the decoded bytes differ. -/
theorem pChars_sameRest (n : Nat) : ∀ (bs : Bytes) (f g : Nat), bs.length ≤ n → bs.length ≤ f → bs.length ≤ g →
    SameRest (Spec.pChars f bs) (pCharsM g bs) := by
  induction n with
  | zero =>
    intro bs f g hn _ _
    have : bs = [] := List.eq_nil_of_length_eq_zero (by omega)
    subst this
    cases f <;> cases g <;> rfl
  | succ n ih =>
    intro bs f g hn hf hg
    cases bs with
    | nil => cases f <;> cases g <;> rfl
    | cons b r =>
      simp only [List.length_cons] at hn hf hg
      obtain ⟨f', rfl⟩ : ∃ f', f = f' + 1 := ⟨f - 1, by omega⟩
      obtain ⟨g', rfl⟩ : ∃ g', g = g' + 1 := ⟨g - 1, by omega⟩
      rw [pChars_succ_cons, pCharsM_succ_cons]
      by_cases h34 : b = 34
      · simp only [h34, ↓reduceIte]; rfl
      · simp only [h34, ↓reduceIte]
        by_cases h92 : b = 92
        · simp only [h92, ↓reduceIte]
          cases r with
          | nil => rfl
          | cons e r' =>
            simp only [List.length_cons] at hn hf hg
            simp only
            by_cases h117 : e = 117
            · simp only [h117, ↓reduceIte]
              cases hh : Spec.hex4 r' with
              | none => rfl
              | some p =>
                obtain ⟨u, r''⟩ := p
                have hl := hex4_length r' u r'' hh
                simp only
                have plain : SameRest ((Spec.pChars f' r'').map fun p => (Spec.utf8Enc u ++ p.1, p.2))
                    ((pCharsM g' r'').map fun p => (Spec.utf8Enc u ++ p.1, p.2)) :=
                  ((ih r'' f' g' (by omega) (by omega) (by omega)).map_left _).map_right _
                by_cases hhi : 0xD800 ≤ u ∧ u < 0xDC00
                · simp only [hhi, and_self, ↓reduceIte]
                  -- does a low surrogate escape follow?
                  match r'', hl, plain with
                  | [], _, plain => exact plain
                  | [_], _, plain =>
                    split
                    · rename_i heq; simp at heq
                    · exact plain
                  | x :: y :: r3, hl, plain =>
                    by_cases hx : x = 92
                    · by_cases hy : y = 117
                      · subst hx; subst hy
                        simp only
                        cases hh2 : Spec.hex4 r3 with
                        | none => exact plain
                        | some q =>
                          obtain ⟨lo, r4⟩ := q
                          have hl2 := hex4_length r3 lo r4 hh2
                          simp only
                          by_cases hlo : 0xDC00 ≤ lo ∧ lo < 0xE000
                          · simp only [hlo, and_self, ↓reduceIte]
                            -- the machine reads the second escape on its own
                            simp only [List.length_cons] at hl
                            obtain ⟨g'', rfl⟩ : ∃ g'', g' = g'' + 1 := ⟨g' - 1, by omega⟩
                            rw [pCharsM_succ_cons]
                            simp only [show (92 : UInt8) ≠ 34 by decide, ↓reduceIte, hh2]
                            exact (((ih r4 f' g'' (by omega) (by omega) (by omega)).map_left _).map_right _).map_right _
                          · simp only [hlo, ↓reduceIte]; exact plain
                      · have : ¬ (x = 92 ∧ y = 117) := fun h => hy h.2
                        split
                        · rename_i heq; simp only [List.cons.injEq] at heq; exact absurd ⟨heq.1, heq.2.1⟩ this
                        · exact plain
                    · have : ¬ (x = 92 ∧ y = 117) := fun h => hx h.1
                      split
                      · rename_i heq; simp only [List.cons.injEq] at heq; exact absurd ⟨heq.1, heq.2.1⟩ this
                      · exact plain
                · simp only [hhi, ↓reduceIte]; exact plain
            · simp only [h117, ↓reduceIte]
              cases Spec.escByte e with
              | none => rfl
              | some c =>
                simp only
                exact ((ih r' f' g' (by omega) (by omega) (by omega)).map_left _).map_right _
        · simp only [h92, ↓reduceIte]
          by_cases hlt : b < 32
          · simp only [hlt, ↓reduceIte]; rfl
          · simp only [hlt, ↓reduceIte]
            exact ((ih r f' g' (by omega) (by omega) (by omega)).map_left _).map_right _


theorem SameRest.cases {α β : Type} {p : Option (α × Bytes)} {q : Option (β × Bytes)} (h : SameRest p q) :
    (p = none ∧ q = none) ∨ ∃ a b r, p = some (a, r) ∧ q = some (b, r) := by
  unfold SameRest at h
  cases p with
  | none => cases q with
    | none => exact Or.inl ⟨rfl, rfl⟩
    | some y => simp at h
  | some x => cases q with
    | none => simp at h
    | some y =>
      simp only [Option.map_some, Option.some.injEq] at h
      exact Or.inr ⟨x.1, y.1, x.2, rfl, by rw [h]⟩

theorem SameRest.rfl' {α β : Type} (a : α) (b : β) (r : Bytes) :
    SameRest (some (a, r)) (some (b, r)) := rfl

theorem pElems_sameRest (pv1 pv2 : Bytes → Option (JV × Bytes)) (h : ∀ bs, SameRest (pv1 bs) (pv2 bs)) :
    ∀ (k : Nat) (bs : Bytes) (a1 a2 : List JV), SameRest (Spec.pElems pv1 k bs a1) (Spec.pElems pv2 k bs a2) := by
  intro k
  induction k with
  | zero => intro bs a1 a2; rfl
  | succ k ih =>
    intro bs a1 a2
    simp only [Spec.pElems]
    cases Spec.skipWs bs with
    | nil => rfl
    | cons c r =>
      simp only
      by_cases h93 : c = 93
      · simp only [h93, ↓reduceIte]; rfl
      · simp only [h93, ↓reduceIte]
        by_cases h44 : c = 44
        · simp only [h44, ↓reduceIte]
          rcases SameRest.cases (h (Spec.skipWs r)) with ⟨e1, e2⟩ | ⟨v1, v2, rest, e1, e2⟩
          · rw [e1, e2]; rfl
          · rw [e1, e2]; exact ih rest _ _
        · simp only [h44, ↓reduceIte]; rfl

theorem pMemberG_sameRest (pc1 pc2 : Nat → Bytes → Option (Bytes × Bytes)) (pv1 pv2 : Bytes → Option (JV × Bytes))
    (hpc : ∀ r : Bytes, SameRest (pc1 r.length r) (pc2 r.length r)) (hpv : ∀ bs, SameRest (pv1 bs) (pv2 bs)) :
    ∀ bs, SameRest (pMemberG pc1 pv1 bs) (pMemberG pc2 pv2 bs) := by
  intro bs
  cases bs with
  | nil => rfl
  | cons q r =>
    simp only [pMemberG]
    by_cases h34 : q = 34
    · simp only [h34, ↓reduceIte]
      rcases SameRest.cases (hpc r) with ⟨e1, e2⟩ | ⟨k1, k2, r1, e1, e2⟩
      · rw [e1, e2]; rfl
      · rw [e1, e2]
        simp only
        cases Spec.skipWs r1 with
        | nil => rfl
        | cons c r2 =>
          simp only
          by_cases h58 : c = 58
          · simp only [h58, ↓reduceIte]
            rcases SameRest.cases (hpv (Spec.skipWs r2)) with ⟨e1, e2⟩ | ⟨v1, v2, rest, e1, e2⟩
            · rw [e1, e2]; rfl
            · rw [e1, e2]; rfl
          · simp only [h58, ↓reduceIte]; rfl
    · simp only [h34, ↓reduceIte]; rfl

theorem pMembersG_sameRest (pm1 pm2 : Bytes → Option ((Bytes × JV) × Bytes)) (h : ∀ bs, SameRest (pm1 bs) (pm2 bs)) :
    ∀ (k : Nat) (bs : Bytes) (a1 a2 : List (Bytes × JV)),
      SameRest (pMembersG pm1 k bs a1) (pMembersG pm2 k bs a2) := by
  intro k
  induction k with
  | zero => intro bs a1 a2; rfl
  | succ k ih =>
    intro bs a1 a2
    simp only [pMembersG]
    cases Spec.skipWs bs with
    | nil => rfl
    | cons c r =>
      simp only
      by_cases h125 : c = 125
      · simp only [h125, ↓reduceIte]; rfl
      · simp only [h125, ↓reduceIte]
        by_cases h44 : c = 44
        · simp only [h44, ↓reduceIte]
          rcases SameRest.cases (h (Spec.skipWs r)) with ⟨e1, e2⟩ | ⟨⟨k1, v1⟩, ⟨k2, v2⟩, rest, e1, e2⟩
          · rw [e1, e2]; rfl
          · rw [e1, e2]; exact ih rest _ _
        · simp only [h44, ↓reduceIte]; rfl

/-- the grammar consumes the same input whatever the leaf readers return, as long as they consume
the same input -/
theorem pValueG_sameRest (pc1 pc2 : Nat → Bytes → Option (Bytes × Bytes)) (nc1 nc2 : Bytes → JV)
    (hpc : ∀ r : Bytes, SameRest (pc1 r.length r) (pc2 r.length r)) :
    ∀ (f : Nat) (bs : Bytes), SameRest (pValueG pc1 nc1 f bs) (pValueG pc2 nc2 f bs) := by
  intro f
  induction f with
  | zero => intro bs; rfl
  | succ f ih =>
    intro bs
    cases bs with
    | nil => rfl
    | cons b r =>
      simp only [pValueG]
      by_cases h1 : b = 110
      · simp only [h1, ↓reduceIte]; cases Spec.startsWith r [117, 108, 108] <;> rfl
      · simp only [h1, ↓reduceIte]
        by_cases h2 : b = 116
        · simp only [h2, ↓reduceIte]; cases Spec.startsWith r [114, 117, 101] <;> rfl
        · simp only [h2, ↓reduceIte]
          by_cases h3 : b = 102
          · simp only [h3, ↓reduceIte]; cases Spec.startsWith r [97, 108, 115, 101] <;> rfl
          · simp only [h3, ↓reduceIte]
            by_cases h4 : b = 34
            · simp only [h4, ↓reduceIte]
              exact ((hpc r).map_left _).map_right _
            · simp only [h4, ↓reduceIte]
              by_cases h5 : (b = 45 || Spec.isDigit b) = true
              · simp only [h5, ↓reduceIte]; cases Spec.pNumber (b :: r) <;> rfl
              · simp only [h5, Bool.false_eq_true, ↓reduceIte]
                by_cases h6 : b = 91
                · simp only [h6, ↓reduceIte]
                  cases Spec.skipWs r with
                  | nil => rfl
                  | cons c r' =>
                    simp only
                    by_cases h93 : c = 93
                    · simp only [h93, ↓reduceIte]; rfl
                    · simp only [h93, ↓reduceIte]
                      rcases SameRest.cases (ih (c :: r')) with ⟨e1, e2⟩ | ⟨v1, v2, rest, e1, e2⟩
                      · rw [e1, e2]; rfl
                      · rw [e1, e2]; exact pElems_sameRest _ _ ih _ _ _ _
                · simp only [h6, ↓reduceIte]
                  by_cases h7 : b = 123
                  · simp only [h7, ↓reduceIte]
                    cases Spec.skipWs r with
                    | nil => rfl
                    | cons c r' =>
                      simp only
                      by_cases h125 : c = 125
                      · simp only [h125, ↓reduceIte]; rfl
                      · simp only [h125, ↓reduceIte]
                        have hm := pMemberG_sameRest pc1 pc2 _ _ hpc ih
                        rcases SameRest.cases (hm (c :: r')) with ⟨e1, e2⟩ | ⟨⟨k1, v1⟩, ⟨k2, v2⟩, rest, e1, e2⟩
                        · rw [e1, e2]; rfl
                        · rw [e1, e2]; exact pMembersG_sameRest _ _ hm _ _ _ _
                  · simp only [h7, ↓reduceIte]; rfl

/-- the kind of a `Doc`: none / one / bad -/
def Spec.Doc.kind : Spec.Doc → Nat
  | .none => 0
  | .one _ => 1
  | .bad => 2

/-- **Same language.** The grammar over the machine's leaf readers and the specification classify
every text alike: blank, one JSON text, or not JSON. -/
theorem parseTextM_kind (bs : Bytes) : (parseTextM bs).kind = (Spec.parseText bs).kind := by
  unfold parseTextM Spec.parseText
  cases hsk : Spec.skipWs bs with
  | nil => rfl
  | cons b r =>
    simp only
    rw [pValue_eq_G]
    have hpc : ∀ r : Bytes, SameRest (pCharsM r.length r) (Spec.pChars r.length r) := by
      intro r
      have := pChars_sameRest r.length r r.length r.length (Nat.le_refl _) (Nat.le_refl _) (Nat.le_refl _)
      unfold SameRest at this ⊢; exact this.symm
    rcases SameRest.cases (pValueG_sameRest pCharsM Spec.pChars numConv JV.num hpc (bs.length + 1) (b :: r)) with
      ⟨e1, e2⟩ | ⟨v1, v2, rest, e1, e2⟩
    · rw [show pValueM (bs.length + 1) (b :: r) = none from e1, e2]
    · rw [show pValueM (bs.length + 1) (b :: r) = some (v1, rest) from e1, e2]
      simp only
      cases (Spec.skipWs rest).isEmpty <;> rfl


/-! ## The entry point -/

theorem bom_cases (bs : Bytes) :
    (bomRule bs = .keep ∧ Spec.stripBOM bs = bs ∧ (∀ t, bs = 0xEF :: t → t.length < 3)) ∨
    (∃ r, bomRule bs = .strip r ∧ Spec.stripBOM bs = r) ∨
    (bomRule bs = .bad ∧ Spec.stripBOM bs = bs ∧ ∃ t, bs = 0xEF :: t) := by
  match bs with
  | [] => left; exact ⟨rfl, rfl, fun t h => nomatch h⟩
  | [a] =>
    left
    refine ⟨?_, ?_, fun t h => by simp only [List.cons.injEq] at h; rw [← h.2]; simp⟩
    · unfold bomRule; split <;> simp_all
    · unfold Spec.stripBOM; split <;> simp_all
  | [a, b] =>
    left
    refine ⟨?_, ?_, fun t h => by simp only [List.cons.injEq] at h; rw [← h.2]; simp⟩
    · unfold bomRule; split <;> simp_all
    · unfold Spec.stripBOM; split <;> simp_all
  | [a, b, c] =>
    left
    refine ⟨?_, ?_, fun t h => by simp only [List.cons.injEq] at h; rw [← h.2]; simp⟩
    · unfold bomRule; split
      · rename_i h; simp only [List.cons.injEq] at h; simp [← h.2.2.2]
      · rfl
    · unfold Spec.stripBOM; split <;> simp_all
  | a :: b :: c :: d :: r =>
    by_cases ha : a = 0xEF
    · subst ha
      by_cases hbc : b = 0xBB ∧ c = 0xBF
      · right; left
        obtain ⟨rfl, rfl⟩ := hbc
        exact ⟨d :: r, rfl, rfl⟩
      · right; right
        refine ⟨?_, ?_, _, rfl⟩
        · simp only [bomRule, List.isEmpty_cons, Bool.false_eq_true, ↓reduceIte, Bool.and_eq_true, decide_eq_true_eq, hbc]
        · unfold Spec.stripBOM; split
          · rename_i h; simp only [List.cons.injEq] at h; exact absurd ⟨h.2.1, h.2.2.1⟩ hbc
          · rfl
    · left
      refine ⟨?_, ?_, fun t h => by simp only [List.cons.injEq] at h; exact absurd h.1 ha⟩
      · unfold bomRule; split
        · rename_i h; simp only [List.cons.injEq] at h; exact absurd h.1 ha
        · rfl
      · unfold Spec.stripBOM; split
        · rename_i h; simp only [List.cons.injEq] at h; exact absurd h.1 ha
        · rfl

/-- outcome without the error detail -/
def toOpt {ε α : Type} : Except ε α → Option α
  | .ok a => some a
  | .error _ => none

theorem finish_inFast (s : St) (x : Bool) : finish refTables { s with inFast := x } = finish refTables s := by
  unfold finish St.addNum St.add
  simp only
  split
  · rfl
  · split
    · cases addItem s.num.asNum.toJV s.stack <;> rfl
    · rfl

/-- the `[]byte` entry point is `exec` behind the BOM rule -/
theorem run_exec (bs : Bytes) : toOpt (run refTables cfg1 [bs]) =
    match bomRule bs with
    | .bad => none
    | .strip r => exec {} r
    | .keep => exec {} bs := by
  have key : ∀ c : Bytes, toOpt (match runChunks refTables cfg1 {} [c] with
      | .error e => .error e
      | .ok s => finish refTables s) = exec {} c := by
    intro c
    unfold exec
    simp only [runChunks]
    cases runBytes refTables cfg1 {} c with
    | error e => rfl
    | ok s' =>
      simp only [finish_inFast]
      cases finish refTables s' <;> rfl
  unfold run
  simp only [cfg1, Bool.false_eq_true, ↓reduceIte]
  cases bomRule bs with
  | bad => rfl
  | strip r => exact key r
  | keep => exact key bs

/-- **The entry point returns what the grammar denotes** (reference tables, one document, bytes in
one piece): no document for a blank text, the one value of a JSON text — strings and numbers as the
machine reads them — behind an optional BOM, an error otherwise. -/
theorem run_eq_grammar (bs : Bytes) :
    toOpt (run refTables cfg1 [bs]) = (parseTextM (Spec.stripBOM bs)).result := by
  rw [run_exec]
  rcases bom_cases bs with ⟨h1, h2, _⟩ | ⟨r, h1, h2⟩ | ⟨h1, h2, t, ht⟩
  · rw [h1, h2]; exact exec_text bs
  · rw [h1, h2]; exact exec_text r
  · rw [h1, h2, ← exec_text, ht]
    exact (exec_charErr {} 0xEF t (by decide)).symm

/-- **The reference automaton accepts exactly the specification's language** (C01 for the reference
tables): a byte string is accepted by the machine iff it is blank or one RFC 8259 JSON text behind
an optional BOM. -/
theorem run_accepts (bs : Bytes) : (toOpt (run refTables cfg1 [bs])).isSome = Spec.accepts bs := by
  rw [run_eq_grammar]
  have hk := parseTextM_kind (Spec.stripBOM bs)
  unfold Spec.accepts Spec.parseDoc
  cases h1 : parseTextM (Spec.stripBOM bs) <;> cases h2 : Spec.parseText (Spec.stripBOM bs) <;>
    simp [h1, h2, Spec.Doc.kind, Spec.Doc.result] at hk ⊢

end OjgVerif.Json
