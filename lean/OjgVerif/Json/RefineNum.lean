import OjgVerif.Json.Refine
/-! Refinement, number part: the number automaton of the machine against `Spec.pNumber`. -/
namespace OjgVerif.Json
open OjgVerif

/-- mode component of `numStep` -/
def modeStep (m : Mode) (b : UInt8) : Option Mode :=
  match expected m b with
  | .val0 => some .zero | .valDigit => some .digit | .valNeg => some .neg | .numZero => some .zero
  | .negDigit => some .digit | .numDigit => some .digit | .numDot => some .dot | .numFrac => some .frac
  | .fracE => some .expSign | .expSign => some .expZero | .expDigit => some .exp | _ => none

theorem numStep_mode (m : Mode) (n : Num) (b : UInt8) : (numStep m n b).map (·.1) = modeStep m b := by
  unfold numStep modeStep
  cases expected m b <;> rfl

theorem numStep_some (m : Mode) (n : Num) (b : UInt8) (m' : Mode) (h : modeStep m b = some m') :
    ∃ n', numStep m n b = some (m', n') := by
  have := numStep_mode m n b
  rw [h] at this
  cases hs : numStep m n b with
  | none => rw [hs] at this; cases this
  | some p => rw [hs] at this; simp at this; exact ⟨p.2, by rw [← this]⟩

theorem numStep_none (m : Mode) (n : Num) (b : UInt8) (h : modeStep m b = none) : numStep m n b = none := by
  have := numStep_mode m n b
  rw [h] at this
  cases hs : numStep m n b with
  | none => rfl
  | some p => rw [hs] at this; cases this

/-- the transitions of the number automaton, by byte class -/
theorem modeStep_facts (b : UInt8) :
    (modeStep .neg b = if b = 48 then some .zero else if Spec.isDigit19 b then some .digit else none) ∧
    (modeStep .zero b = if b = 46 then some .dot else if (b = 101 || b = 69) then some .expSign else none) ∧
    (modeStep .digit b = if Spec.isDigit b then some .digit else if b = 46 then some .dot
        else if (b = 101 || b = 69) then some .expSign else none) ∧
    (modeStep .dot b = if Spec.isDigit b then some .frac else none) ∧
    (modeStep .frac b = if Spec.isDigit b then some .frac else if (b = 101 || b = 69) then some .expSign else none) ∧
    (modeStep .expSign b = if (b = 43 || b = 45) then some .expZero else if Spec.isDigit b then some .exp else none) ∧
    (modeStep .expZero b = if Spec.isDigit b then some .exp else none) ∧
    (modeStep .exp b = if Spec.isDigit b then some .exp else none) ∧
    (modeStep .value b = if b = 45 then some .neg else if b = 48 then some .zero else if Spec.isDigit19 b then some .digit else none) ∧
    (modeStep .comma b = if b = 45 then some .neg else if b = 48 then some .zero else if Spec.isDigit19 b then some .digit else none) := by
  have key : ∀ i : Fin 256,
      (modeStep .neg (UInt8.ofNat i) = if (UInt8.ofNat i : UInt8) = 48 then some .zero else if Spec.isDigit19 (UInt8.ofNat i) then some .digit else none) ∧
      (modeStep .zero (UInt8.ofNat i) = if (UInt8.ofNat i : UInt8) = 46 then some .dot else if ((UInt8.ofNat i : UInt8) = 101 || (UInt8.ofNat i : UInt8) = 69) then some .expSign else none) ∧
      (modeStep .digit (UInt8.ofNat i) = if Spec.isDigit (UInt8.ofNat i) then some .digit else if (UInt8.ofNat i : UInt8) = 46 then some .dot
          else if ((UInt8.ofNat i : UInt8) = 101 || (UInt8.ofNat i : UInt8) = 69) then some .expSign else none) ∧
      (modeStep .dot (UInt8.ofNat i) = if Spec.isDigit (UInt8.ofNat i) then some .frac else none) ∧
      (modeStep .frac (UInt8.ofNat i) = if Spec.isDigit (UInt8.ofNat i) then some .frac else if ((UInt8.ofNat i : UInt8) = 101 || (UInt8.ofNat i : UInt8) = 69) then some .expSign else none) ∧
      (modeStep .expSign (UInt8.ofNat i) = if ((UInt8.ofNat i : UInt8) = 43 || (UInt8.ofNat i : UInt8) = 45) then some .expZero else if Spec.isDigit (UInt8.ofNat i) then some .exp else none) ∧
      (modeStep .expZero (UInt8.ofNat i) = if Spec.isDigit (UInt8.ofNat i) then some .exp else none) ∧
      (modeStep .exp (UInt8.ofNat i) = if Spec.isDigit (UInt8.ofNat i) then some .exp else none) ∧
      (modeStep .value (UInt8.ofNat i) = if (UInt8.ofNat i : UInt8) = 45 then some .neg else if (UInt8.ofNat i : UInt8) = 48 then some .zero else if Spec.isDigit19 (UInt8.ofNat i) then some .digit else none) ∧
      (modeStep .comma (UInt8.ofNat i) = if (UInt8.ofNat i : UInt8) = 45 then some .neg else if (UInt8.ofNat i : UInt8) = 48 then some .zero else if Spec.isDigit19 (UInt8.ofNat i) then some .digit else none) := by
    decide +kernel
  have := key ⟨b.toNat, b.toNat_lt⟩
  simpa using this


/-- the unread input does not continue a digit run -/
def NoDigitHead (r : Bytes) : Prop := r = [] ∨ ∃ h t, r = h :: t ∧ Spec.isDigit h = false

theorem td_spec (bs : Bytes) :
    bs = (Spec.takeDigits bs).1 ++ (Spec.takeDigits bs).2 ∧
    (∀ d ∈ (Spec.takeDigits bs).1, Spec.isDigit d = true) ∧ NoDigitHead (Spec.takeDigits bs).2 := by
  induction bs with
  | nil => exact ⟨rfl, (fun _ h => nomatch h), Or.inl rfl⟩
  | cons b r ih =>
    simp only [Spec.takeDigits]
    by_cases hb : Spec.isDigit b = true
    · simp only [hb, ↓reduceIte]
      refine ⟨by simp only [List.cons_append]; rw [← ih.1], ?_, ih.2.2⟩
      intro d hd
      rcases List.mem_cons.mp hd with h | h
      · rw [h]; exact hb
      · exact ih.2.1 d h
    · simp only [hb, Bool.false_eq_true, ↓reduceIte]
      exact ⟨rfl, (fun _ h => nomatch h), Or.inr ⟨b, r, rfl, by simpa using hb⟩⟩

theorem numScan_cons_some (m m' : Mode) (n : Num) (b : UInt8) (h : modeStep m b = some m') :
    ∃ n', ∀ tail, numScan m n (b :: tail) = numScan m' n' tail := by
  obtain ⟨n', hn⟩ := numStep_some m n b m' h
  exact ⟨n', fun tail => by simp only [numScan, hn]⟩

theorem numScan_stop (m : Mode) (n : Num) (r : Bytes)
    (h : r = [] ∨ ∃ x t, r = x :: t ∧ modeStep m x = none) : numScan m n r = (m, n, r) := by
  rcases h with h | ⟨x, t, h, hx⟩
  · subst h; rfl
  · subst h; simp only [numScan, numStep_none m n x hx]

/-- a digit run in a mode that loops on digits -/
theorem numScan_digits (m : Mode) (hm : ∀ d, Spec.isDigit d = true → modeStep m d = some m) :
    ∀ (ds : Bytes) (n : Num), (∀ d ∈ ds, Spec.isDigit d = true) →
      ∃ n', ∀ tail, numScan m n (ds ++ tail) = numScan m n' tail := by
  intro ds
  induction ds with
  | nil => intro n _; exact ⟨n, fun _ => rfl⟩
  | cons d r ih =>
    intro n hds
    obtain ⟨n1, h1⟩ := numScan_cons_some m m n d (hm d (hds d List.mem_cons_self))
    obtain ⟨n2, h2⟩ := ih n1 (fun x hx => hds x (List.mem_cons_of_mem _ hx))
    exact ⟨n2, fun tail => by rw [List.cons_append, h1, h2]⟩

theorem loops (b : UInt8) (hb : Spec.isDigit b = true) :
    modeStep .digit b = some .digit ∧ modeStep .frac b = some .frac ∧ modeStep .exp b = some .exp := by
  have := modeStep_facts b
  refine ⟨?_, ?_, ?_⟩
  · rw [this.2.2.1, if_pos hb]
  · rw [this.2.2.2.2.1, if_pos hb]
  · rw [this.2.2.2.2.2.2.2.1, if_pos hb]


/-- the number automaton consumes `lit` completely going from mode `m` to mode `m'` -/
def ScansM (m : Mode) (lit : Bytes) (m' : Mode) : Prop :=
  ∀ n, ∃ n', ∀ tail, numScan m n (lit ++ tail) = numScan m' n' tail

theorem ScansM.nil (m : Mode) : ScansM m [] m := fun n => ⟨n, fun _ => rfl⟩

theorem ScansM.trans {a b c : Mode} {l1 l2 : Bytes} (h1 : ScansM a l1 b) (h2 : ScansM b l2 c) :
    ScansM a (l1 ++ l2) c := by
  intro n
  obtain ⟨n1, e1⟩ := h1 n
  obtain ⟨n2, e2⟩ := h2 n1
  exact ⟨n2, fun tail => by rw [List.append_assoc, e1, e2]⟩

theorem ScansM.one {m m' : Mode} {b : UInt8} (h : modeStep m b = some m') : ScansM m [b] m' := by
  intro n
  obtain ⟨n', hn⟩ := numScan_cons_some m m' n b h
  exact ⟨n', fun tail => hn tail⟩

theorem ScansM.digits (m : Mode) (hm : ∀ d, Spec.isDigit d = true → modeStep m d = some m) (ds : Bytes)
    (hds : ∀ d ∈ ds, Spec.isDigit d = true) : ScansM m ds m :=
  fun n => numScan_digits m hm ds n hds

/-- unread input at which the automaton stops in mode `m` -/
def Stops (m : Mode) (r : Bytes) : Prop := r = [] ∨ ∃ x t, r = x :: t ∧ modeStep m x = none

theorem isDigit19_isDigit (b : UInt8) (h : Spec.isDigit19 b = true) : Spec.isDigit b = true := by
  unfold Spec.isDigit19 at h; unfold Spec.isDigit
  simp only [Bool.and_eq_true, decide_eq_true_eq] at h ⊢
  exact ⟨by have := h.1; rw [UInt8.le_iff_toNat_le] at this ⊢; simp at this ⊢; omega, h.2⟩

/-- stage 1: the integer part -/
theorem stage_int (m : Mode) (hm : m = .value ∨ m = .comma ∨ m = .neg) (bs : Bytes) :
    (∀ ip r1, Spec.pInt bs = some (ip, r1) → bs = ip ++ r1 ∧
      ((ScansM m ip .zero) ∨ (ScansM m ip .digit ∧ NoDigitHead r1))) ∧
    (Spec.pInt bs = none → m = .neg → Stops .neg bs) := by
  cases bs with
  | nil => exact ⟨(fun _ _ h => nomatch h), fun _ _ => Or.inl rfl⟩
  | cons d r =>
    have hf := modeStep_facts d
    simp only [Spec.pInt]
    by_cases h0 : d = 48
    · subst h0
      simp only [↓reduceIte]
      refine ⟨fun ip r1 h => ?_, (fun h => nomatch h)⟩
      simp only [Option.some.injEq, Prod.mk.injEq] at h
      obtain ⟨rfl, rfl⟩ := h
      refine ⟨rfl, Or.inl (ScansM.one ?_)⟩
      rcases hm with h | h | h <;> subst h
      · rw [hf.2.2.2.2.2.2.2.2.1]; rfl
      · rw [hf.2.2.2.2.2.2.2.2.2]; rfl
      · rw [hf.1]; rfl
    · simp only [h0, ↓reduceIte]
      by_cases h19 : Spec.isDigit19 d = true
      · simp only [h19, ↓reduceIte]
        refine ⟨fun ip r1 h => ?_, (fun h => nomatch h)⟩
        simp only [Option.some.injEq, Prod.mk.injEq] at h
        obtain ⟨rfl, rfl⟩ := h
        have htd := td_spec r
        refine ⟨by simp only [List.cons_append]; rw [← htd.1], Or.inr ⟨?_, htd.2.2⟩⟩
        have h1 : modeStep m d = some .digit := by
          have hne : d ≠ 45 := by
            intro h; subst h; revert h19; decide
          rcases hm with h | h | h <;> subst h
          · rw [hf.2.2.2.2.2.2.2.2.1]; simp [hne, h0, h19]
          · rw [hf.2.2.2.2.2.2.2.2.2]; simp [hne, h0, h19]
          · rw [hf.1]; simp [h0, h19]
        exact (ScansM.one h1).trans (ScansM.digits .digit (fun x hx => (loops x hx).1) _ htd.2.1)
      · simp only [h19, Bool.false_eq_true, ↓reduceIte]
        refine ⟨(fun _ _ h => nomatch h), fun _ hneg => Or.inr ⟨d, r, rfl, ?_⟩⟩
        rw [hf.1]; simp [h0, h19]


theorem noDigitHead_of_td_empty (r : Bytes) (h : (Spec.takeDigits r).1.isEmpty = true) : NoDigitHead r := by
  have := td_spec r
  have he : (Spec.takeDigits r).1 = [] := List.isEmpty_iff.mp h
  rw [he, List.nil_append] at this
  rw [this.1]; exact this.2.2

theorem stops_dot_of_noDigit (r : Bytes) (h : NoDigitHead r) : Stops .dot r := by
  rcases h with h | ⟨x, t, h, hx⟩
  · exact Or.inl h
  · refine Or.inr ⟨x, t, h, ?_⟩
    rw [(modeStep_facts x).2.2.2.1]; simp [hx]

/-- stage 2: the optional fraction, from `zero` or `digit` mode -/
theorem stage_frac (m : Mode) (hm : m = .zero ∨ m = .digit) (r1 : Bytes) :
    (∀ fp r2, Spec.pFrac r1 = some (fp, r2) → r1 = fp ++ r2 ∧
      ((fp = [] ∧ (r1 = [] ∨ ∃ x t, r1 = x :: t ∧ x ≠ 46)) ∨ (ScansM m fp .frac ∧ NoDigitHead r2))) ∧
    (Spec.pFrac r1 = none → ∃ r, ScansM m [46] .dot ∧ r1 = 46 :: r ∧ Stops .dot r) := by
  cases r1 with
  | nil =>
    refine ⟨fun fp r2 h => ?_, (fun h => nomatch h)⟩
    simp only [Spec.pFrac, Option.some.injEq, Prod.mk.injEq] at h
    obtain ⟨rfl, rfl⟩ := h
    exact ⟨rfl, Or.inl ⟨rfl, Or.inl rfl⟩⟩
  | cons c r =>
    simp only [Spec.pFrac]
    by_cases hc : c = 46
    · subst hc
      simp only [↓reduceIte]
      have hdot : modeStep m 46 = some .dot := by
        have hf := modeStep_facts 46
        rcases hm with h | h <;> subst h
        · rw [hf.2.1]; rfl
        · rw [hf.2.2.1]; rfl
      by_cases he : (Spec.takeDigits r).1.isEmpty = true
      · simp only [he, ↓reduceIte]
        exact ⟨(fun _ _ h => nomatch h), fun _ => ⟨r, ScansM.one hdot, rfl, stops_dot_of_noDigit r (noDigitHead_of_td_empty r he)⟩⟩
      · simp only [he, Bool.false_eq_true, ↓reduceIte]
        refine ⟨fun fp r2 h => ?_, (fun h => nomatch h)⟩
        simp only [Option.some.injEq, Prod.mk.injEq] at h
        obtain ⟨rfl, rfl⟩ := h
        have htd := td_spec r
        refine ⟨by simp only [List.cons_append]; rw [← htd.1], Or.inr ⟨?_, htd.2.2⟩⟩
        -- '.' then the first digit, then the rest of the digits
        cases hds : (Spec.takeDigits r).1 with
        | nil => rw [hds] at he; simp at he
        | cons d ds =>
          have hdig : ∀ x ∈ d :: ds, Spec.isDigit x = true := by rw [← hds]; exact htd.2.1
          have hfirst : modeStep .dot d = some .frac := by
            rw [(modeStep_facts d).2.2.2.1]; simp [hdig d List.mem_cons_self]
          have := ((ScansM.one hdot).trans (ScansM.one hfirst)).trans
            (ScansM.digits .frac (fun x hx => (loops x hx).2.1) ds (fun x hx => hdig x (List.mem_cons_of_mem _ hx)))
          simpa using this
    · simp only [hc, ↓reduceIte]
      refine ⟨fun fp r2 h => ?_, (fun h => nomatch h)⟩
      simp only [Option.some.injEq, Prod.mk.injEq] at h
      obtain ⟨rfl, rfl⟩ := h
      exact ⟨rfl, Or.inl ⟨rfl, Or.inr ⟨c, r, rfl, hc⟩⟩⟩


theorem stops_of_noDigit_exp (m : Mode) (hm : m = .expZero ∨ m = .exp) (r : Bytes) (h : NoDigitHead r) : Stops m r := by
  rcases h with h | ⟨x, t, h, hx⟩
  · exact Or.inl h
  · refine Or.inr ⟨x, t, h, ?_⟩
    rcases hm with hm | hm <;> subst hm
    · rw [(modeStep_facts x).2.2.2.2.2.2.1]; simp [hx]
    · rw [(modeStep_facts x).2.2.2.2.2.2.2.1]; simp [hx]

/-- stage 3: the optional exponent, from `zero`, `digit` or `frac` mode -/
theorem stage_exp (m : Mode) (hm : m = .zero ∨ m = .digit ∨ m = .frac) (r2 : Bytes) :
    (∀ ep r3, Spec.pExp r2 = some (ep, r3) → r2 = ep ++ r3 ∧
      ((ep = [] ∧ (r2 = [] ∨ ∃ x t, r2 = x :: t ∧ ¬ (x = 101 ∨ x = 69))) ∨ (ScansM m ep .exp ∧ NoDigitHead r3))) ∧
    (Spec.pExp r2 = none → ∃ lit r mf, ScansM m lit mf ∧ r2 = lit ++ r ∧ (mf = .expSign ∨ mf = .expZero) ∧ Stops mf r) := by
  cases r2 with
  | nil =>
    refine ⟨fun ep r3 h => ?_, (fun h => nomatch h)⟩
    simp only [Spec.pExp, Option.some.injEq, Prod.mk.injEq] at h
    obtain ⟨rfl, rfl⟩ := h
    exact ⟨rfl, Or.inl ⟨rfl, Or.inl rfl⟩⟩
  | cons e r =>
    simp only [Spec.pExp]
    by_cases he : (e = 101 || e = 69) = true
    · simp only [he, ↓reduceIte]
      have hE : modeStep m e = some .expSign := by
        have hf := modeStep_facts e
        have hne : e ≠ 46 := by
          intro h; subst h; revert he; decide
        have hnd : Spec.isDigit e = false := by
          simp only [Bool.or_eq_true, decide_eq_true_eq] at he
          rcases he with h | h <;> subst h <;> decide
        rcases hm with h | h | h <;> subst h
        · rw [hf.2.1]; simp [hne, he]
        · rw [hf.2.2.1]; simp [hnd, hne, he]
        · rw [hf.2.2.2.2.1]; simp [hnd, he]
      -- the optional sign
      have hsign : ∃ ms, ScansM .expSign (Spec.pExpSign r).1 ms ∧ r = (Spec.pExpSign r).1 ++ (Spec.pExpSign r).2 ∧
          ((ms = .expSign ∧ (Spec.pExpSign r).1 = [] ∧ (r = [] ∨ ∃ x t, r = x :: t ∧ ¬ (x = 43 ∨ x = 45))) ∨ ms = .expZero) := by
        cases r with
        | nil => exact ⟨.expSign, ScansM.nil _, rfl, Or.inl ⟨rfl, rfl, Or.inl rfl⟩⟩
        | cons sg r' =>
          simp only [Spec.pExpSign]
          by_cases hs : (sg = 43 || sg = 45) = true
          · simp only [hs, ↓reduceIte]
            refine ⟨.expZero, ScansM.one ?_, rfl, Or.inr rfl⟩
            rw [(modeStep_facts sg).2.2.2.2.2.1]; simp [hs]
          · simp only [hs, Bool.false_eq_true, ↓reduceIte]
            refine ⟨.expSign, ScansM.nil _, rfl, Or.inl ⟨rfl, trivial, Or.inr ⟨sg, r', rfl, ?_⟩⟩⟩
            simpa using hs
      obtain ⟨ms, hsc, hsplit, hms⟩ := hsign
      have htd := td_spec (Spec.pExpSign r).2
      by_cases hemp : (Spec.takeDigits (Spec.pExpSign r).2).1.isEmpty = true
      · -- no exponent digit: the specification rejects, the automaton stops in expSign/expZero
        simp only [hemp, ↓reduceIte]
        refine ⟨(fun _ _ h => nomatch h), fun _ => ?_⟩
        have hnd := noDigitHead_of_td_empty _ hemp
        refine ⟨e :: (Spec.pExpSign r).1, (Spec.pExpSign r).2, ms, ?_, by simp only [List.cons_append]; rw [← hsplit], ?_, ?_⟩
        · exact (ScansM.one hE).trans hsc
        · rcases hms with ⟨h, _, _⟩ | h
          · exact Or.inl h
          · exact Or.inr h
        · rcases hms with ⟨h, hnil, hr⟩ | h
          · -- no sign: the next byte is neither a sign nor a digit
            subst h
            have hrest : (Spec.pExpSign r).2 = r := by rw [hnil, List.nil_append] at hsplit; exact hsplit.symm
            rw [hrest] at hnd ⊢
            rcases hr with hr | ⟨x, t, hr, hx⟩
            · exact Or.inl hr
            · refine Or.inr ⟨x, t, hr, ?_⟩
              have hxd : Spec.isDigit x = false := by
                rcases hnd with h0 | ⟨y, t', hy, hyd⟩
                · rw [hr] at h0; cases h0
                · rw [hr] at hy; cases hy; exact hyd
              rw [(modeStep_facts x).2.2.2.2.2.1]
              have : (x = 43 || x = 45) = false := by simpa using hx
              simp [this, hxd]
          · subst h
            exact stops_of_noDigit_exp .expZero (Or.inl rfl) _ hnd
      · simp only [hemp, Bool.false_eq_true, ↓reduceIte]
        refine ⟨fun ep r3 h => ?_, (fun h => nomatch h)⟩
        simp only [Option.some.injEq, Prod.mk.injEq] at h
        obtain ⟨rfl, rfl⟩ := h
        refine ⟨?_, Or.inr ⟨?_, htd.2.2⟩⟩
        · simp only [List.cons_append, List.append_assoc]
          rw [← htd.1, ← hsplit]
        · -- e, optional sign, first digit, remaining digits
          cases hds : (Spec.takeDigits (Spec.pExpSign r).2).1 with
          | nil => rw [hds] at hemp; simp at hemp
          | cons d ds =>
            have hdig : ∀ x ∈ d :: ds, Spec.isDigit x = true := by rw [← hds]; exact htd.2.1
            have hd := hdig d List.mem_cons_self
            have hfirst : modeStep ms d = some .exp := by
              rcases hms with ⟨h, _, _⟩ | h <;> subst h
              · rw [(modeStep_facts d).2.2.2.2.2.1]
                have : (d = 43 || d = 45) = false := by
                  cases hx : (d = 43 || d = 45)
                  · rfl
                  · simp only [Bool.or_eq_true, decide_eq_true_eq] at hx
                    rcases hx with h | h <;> subst h <;> revert hd <;> decide
                simp [this, hd]
              · rw [(modeStep_facts d).2.2.2.2.2.2.1]; simp [hd]
            have := (((ScansM.one hE).trans hsc).trans (ScansM.one hfirst)).trans
              (ScansM.digits .exp (fun x hx => (loops x hx).2.2) ds (fun x hx => hdig x (List.mem_cons_of_mem _ hx)))
            simpa [List.append_assoc] using this
    · simp only [he, Bool.false_eq_true, ↓reduceIte]
      refine ⟨fun ep r3 h => ?_, (fun h => nomatch h)⟩
      simp only [Option.some.injEq, Prod.mk.injEq] at h
      obtain ⟨rfl, rfl⟩ := h
      refine ⟨rfl, Or.inl ⟨rfl, Or.inr ⟨e, r, rfl, ?_⟩⟩⟩
      simpa using he


/-- the head of `r`, if any, satisfies `P` -/
def HeadNot (P : UInt8 → Prop) (r : Bytes) : Prop := r = [] ∨ ∃ x t, r = x :: t ∧ ¬ P x

theorem stops_final (m : Mode) (r : Bytes)
    (h : (m = .zero ∧ HeadNot (· = 46) r ∧ HeadNot (fun x => x = 101 ∨ x = 69) r) ∨
         (m = .digit ∧ NoDigitHead r ∧ HeadNot (· = 46) r ∧ HeadNot (fun x => x = 101 ∨ x = 69) r) ∨
         (m = .frac ∧ NoDigitHead r ∧ HeadNot (fun x => x = 101 ∨ x = 69) r) ∨
         (m = .exp ∧ NoDigitHead r)) : Stops m r := by
  cases r with
  | nil => exact Or.inl rfl
  | cons x t =>
    refine Or.inr ⟨x, t, rfl, ?_⟩
    have hf := modeStep_facts x
    have hd : ∀ {P : UInt8 → Prop}, HeadNot P (x :: t) → ¬ P x := by
      intro P h
      rcases h with h | ⟨y, t', hy, hp⟩
      · cases h
      · cases hy; exact hp
    have hnd : NoDigitHead (x :: t) → Spec.isDigit x = false := by
      intro h
      rcases h with h | ⟨y, t', hy, hp⟩
      · cases h
      · cases hy; exact hp
    rcases h with ⟨rfl, h1, h2⟩ | ⟨rfl, h0, h1, h2⟩ | ⟨rfl, h0, h2⟩ | ⟨rfl, h0⟩
    · rw [hf.2.1]
      have a := hd h1; have b := hd h2
      have : (x = 101 || x = 69) = false := by simpa using b
      simp [a, this]
    · rw [hf.2.2.1]
      have a := hd h1; have b := hd h2
      have : (x = 101 || x = 69) = false := by simpa using b
      simp [hnd h0, a, this]
    · rw [hf.2.2.2.2.1]
      have b := hd h2
      have : (x = 101 || x = 69) = false := by simpa using b
      simp [hnd h0, this]
    · rw [hf.2.2.2.2.2.2.2.1]; simp [hnd h0]

/-- an unsigned number literal, from `value`/`comma` (input starts with a digit) or `neg` mode -/
theorem scan_unsigned (m : Mode) (bs : Bytes)
    (hm : ((m = .value ∨ m = .comma) ∧ ∃ d t, bs = d :: t ∧ Spec.isDigit d = true) ∨ m = .neg) :
    (∀ lit rest, Spec.pUnsigned bs = some (lit, rest) →
      bs = lit ++ rest ∧ ∃ mf, isFinalNum mf = true ∧ ScansM m lit mf ∧ Stops mf rest) ∧
    (Spec.pUnsigned bs = none → ∃ lit r mf, ScansM m lit mf ∧ bs = lit ++ r ∧
      (mf = .neg ∨ mf = .dot ∨ mf = .expSign ∨ mf = .expZero) ∧ Stops mf r) := by
  have hm3 : m = .value ∨ m = .comma ∨ m = .neg := by
    rcases hm with ⟨h | h, _⟩ | h
    · exact Or.inl h
    · exact Or.inr (Or.inl h)
    · exact Or.inr (Or.inr h)
  obtain ⟨hi1, hi2⟩ := stage_int m hm3 bs
  unfold Spec.pUnsigned
  cases hpi : Spec.pInt bs with
  | none =>
    simp only
    refine ⟨(fun _ _ h => nomatch h), fun _ => ?_⟩
    -- only possible from `neg` mode
    rcases hm with ⟨_, d, t, hbs, hd⟩ | hneg
    · exfalso
      subst hbs
      simp only [Spec.pInt] at hpi
      by_cases h0 : d = 48
      · simp [h0] at hpi
      · have : Spec.isDigit19 d = true := by
          unfold Spec.isDigit at hd; unfold Spec.isDigit19
          simp only [Bool.and_eq_true, decide_eq_true_eq] at hd ⊢
          refine ⟨?_, hd.2⟩
          have h1 := hd.1
          rw [UInt8.le_iff_toNat_le] at h1 ⊢
          have : d.toNat ≠ 48 := fun h => h0 (UInt8.toNat_inj.mp (by simpa using h))
          simp at h1 ⊢; omega
        simp [h0, this] at hpi
    · subst hneg
      exact ⟨[], bs, .neg, ScansM.nil _, rfl, Or.inl rfl, hi2 hpi rfl⟩
  | some p1 =>
    obtain ⟨ip, r1⟩ := p1
    simp only
    obtain ⟨hbs1, hint⟩ := hi1 ip r1 hpi
    -- mode after the integer part
    obtain ⟨m1, hm1, hsc1, hnd1⟩ : ∃ m1, (m1 = .zero ∨ m1 = .digit) ∧ ScansM m ip m1 ∧ (m1 = .digit → NoDigitHead r1) := by
      rcases hint with h | ⟨h, hn⟩
      · exact ⟨.zero, Or.inl rfl, h, fun h => nomatch h⟩
      · exact ⟨.digit, Or.inr rfl, h, fun _ => hn⟩
    obtain ⟨hf1, hf2⟩ := stage_frac m1 hm1 r1
    cases hpf : Spec.pFrac r1 with
    | none =>
      simp only
      refine ⟨(fun _ _ h => nomatch h), fun _ => ?_⟩
      obtain ⟨r, hdot, hr1, hst⟩ := hf2 hpf
      exact ⟨ip ++ [46], r, .dot, hsc1.trans hdot, by rw [hbs1, hr1]; simp, Or.inr (Or.inl rfl), hst⟩
    | some p2 =>
      obtain ⟨fp, r2⟩ := p2
      simp only
      obtain ⟨hr1, hfrac⟩ := hf1 fp r2 hpf
      -- mode after the optional fraction
      obtain ⟨m2, hm2, hsc2, hinfo2⟩ : ∃ m2, (m2 = .zero ∨ m2 = .digit ∨ m2 = .frac) ∧ ScansM m (ip ++ fp) m2 ∧
          ((m2 = .zero ∧ HeadNot (· = 46) r2) ∨ (m2 = .digit ∧ NoDigitHead r2 ∧ HeadNot (· = 46) r2) ∨
           (m2 = .frac ∧ NoDigitHead r2)) := by
        rcases hfrac with ⟨hfp, hhead⟩ | ⟨hscf, hndf⟩
        · subst hfp
          have hr : r2 = r1 := by simpa using hr1.symm
          subst hr
          have hh : HeadNot (· = 46) r2 := by
            rcases hhead with h | ⟨x, t, h, hx⟩
            · exact Or.inl h
            · exact Or.inr ⟨x, t, h, hx⟩
          rcases hm1 with h | h <;> subst h
          · exact ⟨.zero, Or.inl rfl, by simpa using hsc1, Or.inl ⟨rfl, hh⟩⟩
          · exact ⟨.digit, Or.inr (Or.inl rfl), by simpa using hsc1, Or.inr (Or.inl ⟨rfl, hnd1 rfl, hh⟩)⟩
        · exact ⟨.frac, Or.inr (Or.inr rfl), hsc1.trans hscf, Or.inr (Or.inr ⟨rfl, hndf⟩)⟩
      obtain ⟨he1, he2⟩ := stage_exp m2 hm2 r2
      cases hpe : Spec.pExp r2 with
      | none =>
        simp only
        refine ⟨(fun _ _ h => nomatch h), fun _ => ?_⟩
        obtain ⟨lit, r, mf, hsce, hr2, hmf, hst⟩ := he2 hpe
        refine ⟨ip ++ fp ++ lit, r, mf, hsc2.trans hsce, by rw [hbs1, hr1, hr2]; simp, ?_, hst⟩
        rcases hmf with h | h
        · exact Or.inr (Or.inr (Or.inl h))
        · exact Or.inr (Or.inr (Or.inr h))
      | some p3 =>
        obtain ⟨ep, r3⟩ := p3
        simp only
        obtain ⟨hr2, hexp⟩ := he1 ep r3 hpe
        refine ⟨fun lit rest h => ?_, (fun h => nomatch h)⟩
        simp only [Option.some.injEq, Prod.mk.injEq] at h
        obtain ⟨rfl, rfl⟩ := h
        refine ⟨by rw [hbs1, hr1, hr2]; simp, ?_⟩
        rcases hexp with ⟨hep, hhead⟩ | ⟨hsce, hnde⟩
        · subst hep
          have hr : r3 = r2 := by simpa using hr2.symm
          subst hr
          have hh : HeadNot (fun x => x = 101 ∨ x = 69) r3 := by
            rcases hhead with h | ⟨x, t, h, hx⟩
            · exact Or.inl h
            · exact Or.inr ⟨x, t, h, hx⟩
          refine ⟨m2, ?_, by simpa using hsc2, ?_⟩
          · rcases hm2 with h | h | h <;> simp [isFinalNum, h]
          · apply stops_final
            rcases hinfo2 with ⟨h, h1⟩ | ⟨h, h0, h1⟩ | ⟨h, h0⟩
            · exact Or.inl ⟨h, h1, hh⟩
            · exact Or.inr (Or.inl ⟨h, h0, h1, hh⟩)
            · exact Or.inr (Or.inr (Or.inl ⟨h, h0, hh⟩))
        · exact ⟨.exp, rfl, hsc2.trans hsce, stops_final .exp r3 (Or.inr (Or.inr (Or.inr ⟨rfl, hnde⟩)))⟩


/-- the value a number literal is converted to by the machine -/
def numConv (lit : Bytes) : JV := (numScan .value {} lit).2.1.asNum.toJV

theorem numStep_start (m : Mode) (hm : m = .value ∨ m = .comma) (n : Num) (b : UInt8) :
    numStep m n b = numStep .value {} b := by
  have hexp : expected m b = expected .value b ∨ (numStep m n b = none ∧ numStep .value {} b = none) := by
    have := forall_mode_byte (fun m b => !(m == .comma) || (expected .comma b == expected .value b) ||
        (expected .value b == .closeArray) || (expected .value b == .closeObject)) (by decide +kernel) .comma b
    rcases hm with h | h
    · subst h; exact Or.inl rfl
    · subst h
      simp only [beq_self_eq_true, Bool.not_true, Bool.false_or, Bool.or_eq_true, beq_iff_eq] at this
      rcases this with (h | h) | h
      · exact Or.inl h
      · right
        have hc : expected .comma b = .charErr := by
          have := forall_mode_byte (fun m b => !(expected .value b == .closeArray) || (expected .comma b == .charErr)) (by decide +kernel) .comma b
          simpa [h] using this
        simp [numStep, h, hc]
      · right
        have hc : expected .comma b = .charErr := by
          have := forall_mode_byte (fun m b => !(expected .value b == .closeObject) || (expected .comma b == .charErr)) (by decide +kernel) .comma b
          simpa [h] using this
        simp [numStep, h, hc]
  rcases hexp with h | ⟨h1, h2⟩
  · have hsrc := src_ok .value b
    unfold numStep
    rw [h]
    cases hact : expected .value b <;> first
      | rfl
      | (exfalso; rw [hact] at hsrc; simp [srcModes] at hsrc)
  · rw [h1, h2]

theorem numScan_start (m : Mode) (hm : m = .value ∨ m = .comma) (n : Num) (b : UInt8) (t : Bytes)
    (hb : ∃ p, numStep .value {} b = some p) :
    numScan m n (b :: t) = numScan .value {} (b :: t) := by
  obtain ⟨p, hp⟩ := hb
  simp only [numScan, numStep_start m hm n b, hp]


/-- a number-internal stop in a non-final mode is a character error -/
theorem stop_nonfinal_err (m : Mode) (x : UInt8) (hm : m = .neg ∨ m = .dot ∨ m = .expSign ∨ m = .expZero)
    (h : modeStep m x = none) : expected m x = .charErr := by
  have := forall_mode_byte (fun m b =>
      !(m == .neg || m == .dot || m == .expSign || m == .expZero) || (modeStep m b).isSome || (expected m b == .charErr))
      (by decide +kernel) m x
  rcases hm with h1 | h1 | h1 | h1 <;> subst h1 <;> simpa [h] using this

/-- the whole literal: sign and unsigned part, from value position -/
theorem scan_number (m : Mode) (hm : m = .value ∨ m = .comma) (b : UInt8) (t : Bytes)
    (hb : b = 45 ∨ Spec.isDigit b = true) :
    (∀ lit rest, Spec.pNumber (b :: t) = some (lit, rest) →
      b :: t = lit ++ rest ∧ ∃ mf, isFinalNum mf = true ∧ ScansM m lit mf ∧ Stops mf rest) ∧
    (Spec.pNumber (b :: t) = none → ∃ lit r mf, ScansM m lit mf ∧ b :: t = lit ++ r ∧
      (mf = .neg ∨ mf = .dot ∨ mf = .expSign ∨ mf = .expZero) ∧ Stops mf r) := by
  by_cases h45 : b = 45
  · subst h45
    have hneg : ScansM m [45] .neg := by
      apply ScansM.one
      have := modeStep_facts 45
      rcases hm with h | h <;> subst h
      · rw [this.2.2.2.2.2.2.2.2.1]; rfl
      · rw [this.2.2.2.2.2.2.2.2.2]; rfl
    obtain ⟨h1, h2⟩ := scan_unsigned .neg t (Or.inr rfl)
    simp only [Spec.pNumber, ↓reduceIte]
    refine ⟨fun lit rest h => ?_, fun h => ?_⟩
    · cases hp : Spec.pUnsigned t with
      | none => rw [hp] at h; cases h
      | some p =>
        rw [hp] at h
        simp only [Option.map_some, Option.some.injEq, Prod.mk.injEq] at h
        obtain ⟨rfl, rfl⟩ := h
        obtain ⟨ht, mf, hf, hsc, hst⟩ := h1 p.1 p.2 hp
        exact ⟨by rw [List.cons_append, ← ht], mf, hf, hneg.trans hsc, hst⟩
    · have hp : Spec.pUnsigned t = none := by
        cases hp : Spec.pUnsigned t with
        | none => rfl
        | some p => rw [hp] at h; cases h
      obtain ⟨lit, r, mf, hsc, ht, hmf, hst⟩ := h2 hp
      exact ⟨45 :: lit, r, mf, hneg.trans hsc, by rw [List.cons_append, ← ht], hmf, hst⟩
  · have hd : Spec.isDigit b = true := by rcases hb with h | h; exact absurd h h45; exact h
    have := scan_unsigned m (b :: t) (Or.inl ⟨hm, b, t, rfl, hd⟩)
    simpa only [Spec.pNumber, h45, ↓reduceIte] using this

/-- **Numbers.** From a value position, a number literal accepted by the specification is consumed
by the machine and added as the value the accumulator converts to; a malformed literal is rejected. -/
theorem exec_number (s0 : St) (hv : ValPos s0) (hinf : s0.inFast = false) (b : UInt8) (t : Bytes)
    (hb : b = 45 ∨ Spec.isDigit b = true) :
    (∀ lit rest, Spec.pNumber (b :: t) = some (lit, rest) →
      b :: t = lit ++ rest ∧ ∃ n s', Added s0 n.asNum.toJV s' ∧ exec s0 (b :: t) = exec s' rest ∧
        (numScan s0.mode s0.num (lit ++ rest)).2.1 = n) ∧
    (Spec.pNumber (b :: t) = none → exec s0 (b :: t) = none) := by
  obtain ⟨h1, h2⟩ := scan_number s0.mode hv.mode b t hb
  refine ⟨fun lit rest hp => ?_, fun hp => ?_⟩
  · obtain ⟨hbt, mf, hf, hsc, hst⟩ := h1 lit rest hp
    refine ⟨hbt, ?_⟩
    obtain ⟨n', hn'⟩ := hsc s0.num
    have hscan : numScan s0.mode s0.num (lit ++ rest) = (mf, n', rest) := by
      rw [hn' rest]; exact numScan_stop mf n' rest hst
    have hex := exec_scan (lit ++ rest) s0 hinf
    rw [hscan] at hex
    have hss : sScan s0 (lit ++ rest) = ({ s0 with mode := mf, num := n', pos := s0.pos + ((lit ++ rest).length - rest.length), inFast := false } : St) := by
      unfold sScan; rw [hscan]
    have hin : InNum s0 (sScan s0 (lit ++ rest)) := by
      rw [hss]
      refine ⟨?_, rfl, rfl, rfl, hv.wf.ctl.next, rfl⟩
      simp only [isFinalNum, Bool.or_eq_true, beq_iff_eq] at hf
      rcases hf with ((h | h) | h) | h
      · exact Or.inl h
      · exact Or.inr (Or.inl h)
      · exact Or.inr (Or.inr (Or.inl h))
      · exact Or.inr (Or.inr (Or.inr h))
    have hrest : rest = [] ∨ ∃ h t, rest = h :: t ∧
        numStep (sScan s0 (lit ++ rest)).mode (sScan s0 (lit ++ rest)).num h = none := by
      rcases hst with h | ⟨x, t', h, hx⟩
      · exact Or.inl h
      · exact Or.inr ⟨x, t', h, by rw [hss]; exact numStep_none mf n' x hx⟩
    obtain ⟨s', hadd, hexec⟩ := exec_numEnd s0 (sScan s0 (lit ++ rest)) hv hin rest hrest
    refine ⟨n', s', ?_, ?_, by rw [hscan]⟩
    · have : (sScan s0 (lit ++ rest)).num = n' := by rw [hss]
      rw [this] at hadd; exact hadd
    · rw [hbt, hex, hexec]
  · obtain ⟨lit, r, mf, hsc, hbt, hmf, hst⟩ := h2 hp
    obtain ⟨n', hn'⟩ := hsc s0.num
    have hscan : numScan s0.mode s0.num (lit ++ r) = (mf, n', r) := by
      rw [hn' r]; exact numScan_stop mf n' r hst
    have hex := exec_scan (lit ++ r) s0 hinf
    rw [hscan] at hex
    have hss : sScan s0 (lit ++ r) = ({ s0 with mode := mf, num := n', pos := s0.pos + ((lit ++ r).length - r.length), inFast := false } : St) := by
      unfold sScan; rw [hscan]
    rw [hbt, hex, hss]
    simp only
    rcases hst with h | ⟨x, t', h, hx⟩
    · subst h
      apply exec_nil_of_absent
      rcases hmf with h | h | h | h <;> subst h <;> rfl
    · subst h
      have herr := stop_nonfinal_err mf x hmf hx
      rw [exec_cons]
      have : ∃ e, step refTables cfg1 ({ s0 with mode := mf, num := n', pos := s0.pos + ((lit ++ x :: t').length - (x :: t').length), inFast := false } : St) x = .error e := by
        have hact0 : refTables.act mf x = .charErr := herr
        unfold step stepAct
        simp only [hact0]
        exact ⟨_, rfl⟩
      obtain ⟨e, he⟩ := this
      rw [he]


theorem isDigit19_of_ne48 (b : UInt8) (hd : Spec.isDigit b = true) (h0 : b ≠ 48) : Spec.isDigit19 b = true := by
  unfold Spec.isDigit at hd; unfold Spec.isDigit19
  simp only [Bool.and_eq_true, decide_eq_true_eq] at hd ⊢
  refine ⟨?_, hd.2⟩
  have h1 := hd.1
  rw [UInt8.le_iff_toNat_le] at h1 ⊢
  have : b.toNat ≠ 48 := fun h => h0 (UInt8.toNat_inj.mp (by simpa using h))
  simp at h1 ⊢; omega

theorem first_step_some (b : UInt8) (hb : b = 45 ∨ Spec.isDigit b = true) : ∃ p, numStep .value {} b = some p := by
  have hf := (modeStep_facts b).2.2.2.2.2.2.2.2.1
  have : ∃ m', modeStep .value b = some m' := by
    rw [hf]
    by_cases h45 : b = 45
    · exact ⟨_, by rw [if_pos h45]⟩
    · rw [if_neg h45]
      by_cases h48 : b = 48
      · exact ⟨_, by rw [if_pos h48]⟩
      · rw [if_neg h48]
        have hd : Spec.isDigit b = true := by rcases hb with h | h; exact absurd h h45; exact h
        exact ⟨_, by rw [if_pos (isDigit19_of_ne48 b hd h48)]⟩
  obtain ⟨m', hm'⟩ := this
  obtain ⟨n', hn'⟩ := numStep_some .value {} b m' hm'
  exact ⟨_, hn'⟩

/-- **Numbers**, with the value named: the machine adds `numConv lit`, which depends on the literal only. -/
theorem exec_number_conv (s0 : St) (hv : ValPos s0) (hinf : s0.inFast = false) (b : UInt8) (t : Bytes)
    (hb : b = 45 ∨ Spec.isDigit b = true) :
    (∀ lit rest, Spec.pNumber (b :: t) = some (lit, rest) →
      rest.length < (b :: t).length ∧ ∃ s', Added s0 (numConv lit) s' ∧ exec s0 (b :: t) = exec s' rest) ∧
    (Spec.pNumber (b :: t) = none → exec s0 (b :: t) = none) := by
  obtain ⟨h1, h2⟩ := exec_number s0 hv hinf b t hb
  refine ⟨fun lit rest hp => ?_, h2⟩
  obtain ⟨hbt, n, s', hadd, hex, hn⟩ := h1 lit rest hp
  obtain ⟨_, mf, hf, hsc, hst⟩ := (scan_number s0.mode hv.mode b t hb).1 lit rest hp
  obtain ⟨n', hn'⟩ := hsc s0.num
  -- the literal is not empty
  have hne : lit ≠ [] := by
    intro h; subst h
    have := hn' []
    simp only [List.append_nil, numScan, Prod.mk.injEq] at this
    have hm : s0.mode = mf := this.1
    rw [← hm] at hf
    rcases hv.mode with h | h <;> simp [isFinalNum, h] at hf
  obtain ⟨b', lt, hl⟩ := List.exists_cons_of_ne_nil hne
  have hb' : b' = b := by rw [hl] at hbt; simp only [List.cons_append, List.cons.injEq] at hbt; exact hbt.1.symm
  subst hb'
  have hfull : n = n' := by
    rw [← hn, hn' rest, numScan_stop mf n' rest hst]
  have hlit : (numScan .value {} lit).2.1 = n' := by
    have h0 := hn' []
    rw [List.append_nil, hl, numScan_start s0.mode hv.mode s0.num b' lt (first_step_some b' hb)] at h0
    rw [hl, h0]; rfl
  refine ⟨?_, s', ?_, hex⟩
  · rw [hbt, hl]; simp only [List.cons_append, List.length_cons, List.length_append]; omega
  · unfold numConv; rw [hlit, ← hfull]; exact hadd

end OjgVerif.Json
