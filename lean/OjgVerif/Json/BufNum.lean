import OjgVerif.Json.BufStep
import OjgVerif.Json.NumLemmas
/-! # The number invariant the fraction loop of `numDot` relies on

`NumInv`: while the integer part is being read no fraction digit has been seen (`Frac == 0`, `Div == 1`,
unless the number is already in text form). Preserved by every step of the byte machine (36 actions). -/
namespace OjgVerif.Json
open OjgVerif

variable {T : Tables} (hT : TablesOK T) (cfg : Cfg)

def numMode (md : Mode) : Prop := md = .zero ∨ md = .digit ∨ md = .neg

/-- while the integer part is being read (and the number is not in text form) no fraction digit has
been seen: `Frac == 0`, `Div == 1` -/
def NumInv (s : St) : Prop := numMode s.mode → s.num.big = [] → s.num.frac = 0 ∧ s.num.div = 1

theorem NumInv.init : NumInv {} := by intro h; rcases h with h | h | h <;> cases h

theorem addDigit_keeps (n : Num) (b : UInt8) (h : (n.addDigit b).big = []) :
    (n.addDigit b).frac = n.frac ∧ (n.addDigit b).div = n.div := by
  unfold Num.addDigit at h ⊢
  by_cases h1 : 0 < n.big.length
  · simp only [h1, ↓reduceIte] at h; simp at h
  · simp only [h1, ↓reduceIte] at h ⊢
    by_cases h2 : n.i ≤ BigLimit
    · simp only [h2, ↓reduceIte] at h ⊢
      split at h
      · exact absurd h (fillBig_big_ne_nil _)
      · rename_i h3; simp only [h3, ↓reduceIte, and_self]
    · simp only [h2, ↓reduceIte] at h; simp at h

theorem numInv_of_mode {s : St} (h : ¬ numMode s.mode) : NumInv s := fun hm => absurd hm h

theorem numInv_same {s s' : St} (hm : s'.mode = s.mode) (hn : s'.num = s.num) (h : NumInv s) : NumInv s' := by
  unfold NumInv at *; rw [hm, hn]; exact h

theorem St.add_mode_num {s s' : St} {v : JV} (h : s.add v = .ok s') : s'.mode = s.mode ∧ s'.num = s.num := by
  unfold St.add at h
  cases ha : addItem v s.stack with
  | error w => rw [ha] at h; cases h
  | ok st => rw [ha] at h; cases h; exact ⟨rfl, rfl⟩

theorem deliver_numInv (s : St) (h : NumInv s) : NumInv (deliver T cfg s) := by
  unfold deliver
  split
  · apply numInv_of_mode
    cases cfg.onlyOne <;> (intro hm; rcases hm with hm | hm | hm <;> simp at hm)
  · exact h

macro "nm_triv" : tactic =>
  `(tactic| (apply numInv_of_mode; intro hm; rcases hm with hm | hm | hm <;> simp at hm))

theorem num_mode_facts (m : Mode) (b : UInt8) :
    (expected m b = .numZero → m = .neg) ∧ (expected m b = .negDigit → m = .neg) ∧
    (expected m b = .numDigit → m = .digit) ∧ (expected m b = .numDot → (m = .zero ∨ m = .digit)) := by
  have := forall_mode_byte (fun m b =>
    (!(expected m b == .numZero) || m == .neg) && (!(expected m b == .negDigit) || m == .neg) &&
    (!(expected m b == .numDigit) || m == .digit) &&
    (!(expected m b == .numDot) || (m == .zero || m == .digit))) (by decide +kernel) m b
  simp only [Bool.and_eq_true, Bool.or_eq_true, Bool.not_eq_true', beq_eq_false_iff_ne, beq_iff_eq] at this
  obtain ⟨⟨⟨h1, h2⟩, h3⟩, h4⟩ := this
  refine ⟨?_, ?_, ?_, ?_⟩ <;> intro h
  · exact h1.resolve_left (by simp [h])
  · exact h2.resolve_left (by simp [h])
  · exact h3.resolve_left (by simp [h])
  · exact h4.resolve_left (by simp [h])

include hT in
theorem stepAct_numInv (s s' : St) (b : UInt8) (c : Bool) (h : stepAct T cfg s b = .ok (s', c))
    (hi : NumInv s) (hn : NmOK s) : NumInv s' := by
  have hf := act_mode_facts s.mode b
  rw [← hT.act] at hf
  obtain ⟨h1, h2, h3, h4, h5, h6, h7⟩ := hf
  have hg := num_mode_facts s.mode b
  rw [← hT.act] at hg
  obtain ⟨g1, g2, g3, g4⟩ := hg
  unfold stepAct at h
  cases hact : T.act s.mode b <;> simp only [hact] at h
  case skipNewline => cases h; exact numInv_same rfl rfl hi
  case skipChar => cases h; exact numInv_same rfl rfl hi
  case unknown => cases h; exact numInv_same rfl rfl hi
  case strOk => cases h; exact numInv_same rfl rfl hi
  case charErr => cases h
  case numZero =>
    cases h
    have hm := g1 hact
    intro _ hb
    exact hi (Or.inr (Or.inr hm)) hb
  case negDigit =>
    cases h
    have hm := g2 hact
    intro _ hb
    have := addDigit_keeps s.num b hb
    have hb0 : s.num.big = [] := by
      unfold Num.addDigit at hb
      by_cases h1 : 0 < s.num.big.length
      · simp only [h1, ↓reduceIte] at hb; simp at hb
      · simpa using h1
    have := hi (Or.inr (Or.inr hm)) hb0
    simp_all
  case numDigit =>
    cases h
    have hm := g3 hact
    intro _ hb
    simp only at hb ⊢
    have hfb : ∀ n : Num, (n.fillBig.addDigit b).big ≠ [] := by
      intro n hx
      unfold Num.addDigit at hx
      have : 0 < n.fillBig.big.length := List.length_pos_iff.mpr (fillBig_big_ne_nil _)
      simp only [this, ↓reduceIte] at hx; simp at hx
    have hb0' : ∀ n : Num, (n.addDigit b).big = [] → n.big = [] := by
      intro n hx
      unfold Num.addDigit at hx
      by_cases h1 : 0 < n.big.length
      · simp only [h1, ↓reduceIte] at hx; simp at hx
      · simpa using h1
    by_cases hf : s.inFast = true
    · simp only [hf, ↓reduceIte] at hb ⊢
      by_cases hl : BigLimit ≤ s.num.i
      · simp only [hl, ↓reduceIte] at hb
        exact absurd hb (hfb _)
      · simp only [hl, ↓reduceIte] at hb ⊢
        exact hi (Or.inr (Or.inl hm)) hb
    · have hf' : s.inFast = false := by simpa using hf
      simp only [hf', Bool.false_eq_true, ↓reduceIte] at hb ⊢
      have := addDigit_keeps s.num b hb
      rw [this.1, this.2]
      exact hi (Or.inr (Or.inl hm)) (hb0' _ hb)
  case val0 => cases h; intro _ _; exact ⟨rfl, rfl⟩
  case valDigit => cases h; intro _ _; exact ⟨rfl, rfl⟩
  case valNeg => cases h; intro _ _; exact ⟨rfl, rfl⟩
  case strQuote =>
    have hm := h2 hact
    split at h
    · cases h
      apply numInv_of_mode; intro hm'
      rcases hn with hn | hn <;> simp only [hn] at hm' <;> rcases hm' with hm' | hm' | hm' <;> cases hm'
    · cases ha : ({ s with mode := s.nextMode } : St).add (.str s.tmp.reverse) with
      | error e => rw [ha] at h; simp [bind, Except.bind] at h
      | ok x =>
        rw [ha] at h; simp only [bind, Except.bind, pure, Except.pure, Except.ok.injEq, Prod.mk.injEq] at h
        rw [← h.1]
        have := (St.add_mode_num ha).1
        apply numInv_of_mode; intro hm'
        rw [this] at hm'
        rcases hn with hn | hn <;> simp only [hn] at hm' <;> rcases hm' with hm' | hm' | hm' <;> cases hm'
  case tokenOk =>
    cases ha : stepToken T s b with
    | error e => rw [ha] at h; simp [bind, Except.bind] at h
    | ok x =>
      rw [ha] at h; simp only [bind, Except.bind, pure, Except.pure, Except.ok.injEq, Prod.mk.injEq] at h
      rw [← h.1]
      have hx := (stepToken_ctl T s x b ha).2.2
      have hm := h7 hact
      apply numInv_of_mode; intro hm'
      rcases hx with hx | hx <;> rw [hx] at hm'
      · rcases hm with (hm | hm) | hm <;> rw [hm] at hm' <;> rcases hm' with hm' | hm' | hm' <;> cases hm'
      · rcases hm' with hm' | hm' | hm' <;> cases hm'
  case uOk =>
    cases h
    have hm := h6 hact
    apply numInv_of_mode; intro hm'
    simp only [hm] at hm'
    split at hm' <;> rcases hm' with hm' | hm' | hm' <;> cases hm'
  case afterComma =>
    cases h
    apply numInv_of_mode; intro hm'
    simp only [afterCommaMode] at hm'
    split at hm' <;> rcases hm' with hm' | hm' | hm' <;> cases hm'
  case numComma =>
    cases ha : s.addNum with
    | error e => rw [ha] at h; simp [bind, Except.bind] at h
    | ok x =>
      rw [ha] at h; simp only [bind, Except.bind] at h
      split at h
      · cases h
      · simp only [pure, Except.pure, Except.ok.injEq, Prod.mk.injEq] at h
        rw [← h.1]
        apply numInv_of_mode; intro hm'
        simp only [afterCommaMode] at hm'
        split at hm' <;> rcases hm' with hm' | hm' | hm' <;> cases hm'
  case numSpc =>
    cases ha : s.addNum with
    | error e => rw [ha] at h; simp [bind, Except.bind] at h
    | ok x =>
      rw [ha] at h; simp only [bind, Except.bind, pure, Except.pure, Except.ok.injEq, Prod.mk.injEq] at h
      rw [← h.1]; nm_triv
  case numNewline =>
    cases ha : s.addNum with
    | error e => rw [ha] at h; simp [bind, Except.bind] at h
    | ok x =>
      rw [ha] at h; simp only [bind, Except.bind, pure, Except.pure, Except.ok.injEq, Prod.mk.injEq] at h
      rw [← h.1]; nm_triv
  case closeObject =>
    split at h
    · split at h
      · cases h
      · cases ha : s.flushNum T with
        | error e => rw [ha] at h; simp [bind, Except.bind] at h
        | ok x =>
          rw [ha] at h; simp only [bind, Except.bind] at h
          rename_i rest _ _
          cases hb : x.popObj rest with
          | error e => rw [hb] at h; simp at h
          | ok y =>
            rw [hb] at h; simp only [pure, Except.pure, Except.ok.injEq, Prod.mk.injEq] at h
            rw [← h.1]; nm_triv
    · cases h
  case closeArray =>
    split at h
    · cases ha : s.flushNum T with
      | error e => rw [ha] at h; simp [bind, Except.bind] at h
      | ok x =>
        rw [ha] at h; simp only [bind, Except.bind] at h
        rename_i rest _
        cases hb : x.popArr rest with
        | error e => rw [hb] at h; simp at h
        | ok y =>
          rw [hb] at h; simp only [pure, Except.pure, Except.ok.injEq, Prod.mk.injEq] at h
          rw [← h.1]; nm_triv
    · cases h
  all_goals (cases h; nm_triv)

include hT in
theorem step_numInv (m m' : St) (b : UInt8) (h : step T cfg m b = .ok m') (hi : NumInv m) (hn : NmOK m) :
    NumInv m' := by
  unfold step at h
  cases hst : stepAct T cfg m b with
  | error e => rw [hst] at h; cases h
  | ok p =>
    obtain ⟨s1, c⟩ := p
    rw [hst] at h
    simp only [Except.ok.injEq] at h
    have h1 := stepAct_numInv hT cfg m s1 b c hst hi hn
    rw [← h]
    cases c
    · exact numInv_same rfl rfl (deliver_numInv cfg s1 h1)
    · exact numInv_same rfl rfl h1

end OjgVerif.Json
