import OjgVerif.Json.BufLemmas
/-! # The string scan of `keyQuote` / `valQuote` against the byte machine -/
namespace OjgVerif.Json
open OjgVerif

variable {T : Tables} (hT : TablesOK T) (cfg : Cfg)

theorem sliceOf_pre (buf : Bytes) (k : Nat) (pre rest : Bytes) (h : buf.drop k = pre ++ rest) (hne : pre ++ rest ≠ []) :
    sliceOf buf k (k + pre.length) = some pre := by
  have h2 := congrArg List.length h
  simp only [List.length_drop, List.length_append] at h2
  have h3 : (pre ++ rest).length ≠ 0 := fun h0 => hne (List.eq_nil_of_length_eq_zero h0)
  simp only [List.length_append] at h3
  unfold sliceOf
  have hc : k ≤ k + pre.length ∧ k + pre.length ≤ buf.length := by omega
  simp only [hc, and_self, ↓reduceIte, Option.some.injEq]
  rw [List.drop_take, h]
  simp only [Nat.add_sub_cancel_left, List.take_left']

theorem nf_set_dead {a b : St} (h : a.nf = b.nf) (md : Mode) (hs : usesStr md = false) (hr : usesRi md = false)
    (hn : usesRn md = false) (sk : List Item) (p : Nat) (t1 t2 : Bytes) (n1 n2 : Mode) (r1 r2 : Nat) (f1 f2 : Bool) :
    ({ a with mode := md, stack := sk, pos := p, tmp := t1, nextMode := n1, ri := r1, inFast := f1 } : St).nf =
    ({ b with mode := md, stack := sk, pos := p, tmp := t2, nextMode := n2, ri := r2, inFast := f2 } : St).nf := by
  obtain ⟨e1, e2, e3, e4, e5, e6, e7, e8⟩ := nf_fields h
  obtain ⟨am, anm, ast, ask, ado, atm, ari, arn, anu, ali, apo, anl, afa⟩ := a
  obtain ⟨bm, bnm, bst, bsk, bdo, btm, bri, brn, bnu, bli, bpo, bnl, bfa⟩ := b
  simp only at e1 e2 e3 e4 e5 e6 e7 e8
  subst e1 e2 e3 e4 e5 e6 e7 e8
  simp only [St.nf, St.clr, St.cn, hs, hr, hn, cond_false]

theorem nf_set_string {a b : St} (h : a.nf = b.nf) (p : Nat) (t : Bytes) (n : Mode) (f1 f2 : Bool) :
    ({ a with mode := .string, pos := p, tmp := t, nextMode := n, inFast := f1 } : St).nf =
    ({ b with mode := .string, pos := p, tmp := t, nextMode := n, inFast := f2 } : St).nf := by
  obtain ⟨e1, e2, e3, e4, e5, e6, e7, e8⟩ := nf_fields h
  obtain ⟨am, anm, ast, ask, ado, atm, ari, arn, anu, ali, apo, anl, afa⟩ := a
  obtain ⟨bm, bnm, bst, bsk, bdo, btm, bri, brn, bnu, bli, bpo, bnl, bfa⟩ := b
  simp only at e1 e2 e3 e4 e5 e6 e7 e8
  subst e1 e2 e3 e4 e5 e6 e7 e8
  rfl

/-! ### byte machine -/

theorem step_quote (m : St) (b : UInt8) (isKey : Bool)
    (h : T.act m.mode b = if isKey then .keyQuote else .valQuote) :
    step T cfg m b = .ok { m with tmp := [], mode := .string, nextMode := if isKey then .colon else .after,
                                  pos := m.pos + 1, inFast := false } := by
  unfold step stepAct
  cases isKey <;> simp only [h, Bool.false_eq_true, ↓reduceIte] <;> rfl

include hT in
theorem bstep_strOk (m : St) (c : UInt8) (hm : m.mode = .string) (h : T.act .string c = .strOk) :
    step T cfg m c = .ok { m with tmp := c :: m.tmp, pos := m.pos + 1, inFast := false } := by
  have hfin : T.fin .string ≠ .a := by rw [hT.fin .string (by decide)]; decide
  unfold step stepAct
  simp only [hm, h, Bool.false_eq_true, ↓reduceIte]
  rw [deliver_id_of T cfg _ (by simp only [hm]; exact hfin)]

include hT in
theorem strRun (l : Bytes) : ∀ (m : St), m.mode = .string → m.inFast = false →
    (∀ c ∈ l, T.act .string c = .strOk) →
    runBytes T cfg m l = .ok { m with tmp := l.reverse ++ m.tmp, pos := m.pos + l.length } := by
  induction l with
  | nil =>
    intro m _ _ _
    simp only [runBytes, List.reverse_nil, List.nil_append, List.length_nil]
    exact congrArg Except.ok (St.pos_add_zero m).symm
  | cons c r ih =>
    intro m hm hf hall
    unfold runBytes
    rw [bstep_strOk hT cfg m c hm (hall c (List.mem_cons_self ..))]
    simp only
    refine (ih ({ m with tmp := c :: m.tmp, pos := m.pos + 1, inFast := false } : St) hm rfl
      (fun x hx => hall x (List.mem_cons_of_mem _ hx))).trans ?_
    simp only [List.length_cons, List.reverse_cons, List.append_assoc, List.singleton_append]
    obtain ⟨_, _, _, _, _, _, _, _, _, _, _, _, f⟩ := m
    simp only at hf; subst hf
    simp only [Except.ok.injEq, St.mk.injEq, true_and, and_true]
    omega

include hT in
theorem step_strQuote_key (m : St) (hm : m.mode = .string) (hn : m.nextMode = .colon) :
    step T cfg m 34 = .ok { m with mode := .colon, stack := .key m.tmp.reverse :: m.stack,
                                   pos := m.pos + 1, inFast := false } := by
  have hfin : T.fin .colon ≠ .a := by rw [hT.fin .colon (by decide)]; decide
  have h1 : T.act .string 34 = .strQuote := by rw [hT.act]; rfl
  have h2 : T.act .colon 58 = .colonColon := by rw [hT.act]; rfl
  unfold step stepAct
  simp only [hm, hn, h1, h2, Bool.false_eq_true, ↓reduceIte]
  rw [deliver_id_of T cfg _ (by simp only; exact hfin)]

include hT in
theorem step_strQuote_val (m : St) (hm : m.mode = .string) (hn : m.nextMode = .after) :
    step T cfg m 34 =
      match ({ m with mode := .after } : St).add (.str m.tmp.reverse) with
      | .error e => .error e
      | .ok s' => .ok { deliver T cfg s' with pos := (deliver T cfg s').pos + 1, inFast := false } := by
  have h1 : T.act .string 34 = .strQuote := by rw [hT.act]; rfl
  have h2 : T.act .after 58 ≠ .colonColon := by rw [hT.act]; decide
  obtain ⟨mode, nextMode, starts, stack, docs, tmp, ri, rn, num, line, pos, nl, inFast⟩ := m
  simp only at hm hn; subst hm hn
  unfold step stepAct
  simp only [h1, h2, Bool.false_eq_true, ↓reduceIte]
  generalize St.add _ _ = r
  cases r <;> rfl


include hT in
theorem run_str_open (m : St) (b : UInt8) (isKey : Bool) (pre rest : Bytes)
    (h : T.act m.mode b = if isKey then .keyQuote else .valQuote)
    (hpre : ∀ c ∈ pre, T.act .string c = .strOk) :
    runBytes T cfg m (b :: (pre ++ rest)) =
      runBytes T cfg { m with tmp := pre.reverse, mode := .string, nextMode := if isKey then .colon else .after,
                              pos := m.pos + pre.length + 1, inFast := false } rest := by
  conv => lhs; unfold runBytes
  rw [step_quote cfg m b isKey h]
  simp only
  rw [C03.runBytes_append, strRun hT cfg pre _ rfl rfl hpre]
  simp only [List.append_nil]
  rw [show m.pos + 1 + pre.length = m.pos + pre.length + 1 by omega]

include hT in
theorem run_str_key (m : St) (b : UInt8) (pre post : Bytes)
    (h : T.act m.mode b = .keyQuote) (hpre : ∀ c ∈ pre, T.act .string c = .strOk) :
    runBytes T cfg m (b :: (pre ++ 34 :: post)) =
      runBytes T cfg { m with tmp := pre.reverse, mode := .colon, nextMode := .colon, stack := .key pre :: m.stack,
                              pos := m.pos + pre.length + 2, inFast := false } post := by
  rw [run_str_open hT cfg m b true pre (34 :: post) (by simpa using h) hpre]
  conv => lhs; unfold runBytes
  rw [step_strQuote_key hT cfg _ rfl rfl]
  simp only [List.reverse_reverse, ↓reduceIte]

include hT in
theorem run_str_val (m : St) (b : UInt8) (pre post : Bytes)
    (h : T.act m.mode b = .valQuote) (hpre : ∀ c ∈ pre, T.act .string c = .strOk) :
    runBytes T cfg m (b :: (pre ++ 34 :: post)) =
      match ({ m with tmp := pre.reverse, mode := .after, nextMode := .after, pos := m.pos + pre.length + 1,
                      inFast := false } : St).add (.str pre) with
      | .error e => .error e
      | .ok s' => runBytes T cfg { deliver T cfg s' with pos := (deliver T cfg s').pos + 1, inFast := false } post := by
  rw [run_str_open hT cfg m b false pre (34 :: post) (by simpa using h) hpre]
  conv => lhs; unfold runBytes
  rw [step_strQuote_val hT cfg _ rfl rfl]
  simp only [List.reverse_reverse, Bool.false_eq_true, ↓reduceIte]
  generalize St.add _ _ = r
  cases r <;> rfl


theorem St.add_cases (a : St) (v : JV) :
    (∃ st, addItem v a.stack = .ok st ∧ a.add v = .ok { a with stack := st }) ∨
    (∃ w, addItem v a.stack = .error w ∧ a.add v = .error (a.err (.fault w))) := by
  unfold St.add
  cases h : addItem v a.stack with
  | ok st => exact Or.inl ⟨st, rfl, rfl⟩
  | error w => exact Or.inr ⟨w, rfl, rfl⟩

theorem deliver_nf (T : Tables) (cfg : Cfg) {a b : St} (h : a.nf = b.nf) :
    (deliver T cfg a).nf = (deliver T cfg b).nf := by
  have h1 : (deliver T cfg a).nf = (deliver T cfg a.clr).cn := by
    rw [deliver_clr T cfg cfg rfl a]; rfl
  have h2 : (deliver T cfg b).nf = (deliver T cfg b.clr).cn := by
    rw [deliver_clr T cfg cfg rfl b]; rfl
  rw [h1, h2]
  exact deliver_cn_rel T cfg h

theorem deliver_nm (T : Tables) (cfg : Cfg) {a : St} (h : NmOK a) : NmOK (deliver T cfg a) := by
  unfold NmOK; rw [deliver_nextMode]; exact h

theorem deliver_flag (T : Tables) (cfg : Cfg) (a : St) : (deliver T cfg a).inFast = a.inFast := by
  unfold deliver; split <;> rfl

theorem deliver_pos (T : Tables) (cfg : Cfg) (a : St) : (deliver T cfg a).pos = a.pos := by
  unfold deliver; split <;> rfl

theorem deliver_setpos (T : Tables) (cfg : Cfg) (a : St) (p : Nat) :
    ({ deliver T cfg a with pos := p } : St) = deliver T cfg { a with pos := p } := by
  unfold deliver; split <;> rfl

theorem deliver_nf_pos (T : Tables) (cfg : Cfg) {a b : St} (p : Nat)
    (h : ({ a with pos := p } : St).nf = ({ b with pos := p } : St).nf) (f g : Bool) :
    ({ deliver T cfg a with pos := p, inFast := f } : St).nf = ({ deliver T cfg b with pos := p, inFast := g } : St).nf := by
  show ({ deliver T cfg a with pos := p } : St).nf = ({ deliver T cfg b with pos := p } : St).nf
  rw [deliver_setpos, deliver_setpos]
  exact deliver_nf T cfg h

include hT in
/-- **the string scan** -/
theorem iter_quote (fp : FP) (hstr : fp.str = true) (buf : Bytes) (s m : St) (off i : Nat) (b : UInt8)
    (hb : buf[off]? = some b) (hrel : Rel s m) (hside : Side T buf m off) (isKey : Bool)
    (hact : T.act s.mode b = if isKey then .keyQuote else .valQuote) :
    IterOK T cfg buf m off (iterBuf T cfg fp buf s off i b) := by
  obtain ⟨hdrop, hl⟩ := drop_of_getElem? buf off b hb
  obtain ⟨emode, -, estack, -, -, eline, epos, enl⟩ := nf_fields hrel.nf
  have hactm : T.act m.mode b = if isKey then .keyQuote else .valQuote := by rw [← emode]; exact hact
  have hcb : caseBuf T cfg fp buf s off i b = caseQuote T isKey buf s off i b := by
    unfold caseBuf
    cases isKey <;> simp only [hact, Bool.false_eq_true, ↓reduceIte, hstr]
  by_cases hg : buf.length ≤ off + 1
  · -- the quote is the last byte of the buffer: the byte machine's branch
    refine iter_slow hT cfg fp buf s m off i b hb hrel hside ?_ ?_
    · rw [hcb]
      unfold caseQuote caseSlow stepAct
      cases isKey <;> simp only [hact, hg, Bool.false_eq_true, ↓reduceIte] <;> rw [hrel.flag]
    · intro h; rw [hactm] at h; cases isKey <;> simp at h
  · have hl2 : off + 1 < buf.length := by omega
    rcases rangeWhile_spec (fun c => decide (T.act .string c = .strOk)) (buf.drop (off + 1)) 0 (i, b) with
      ⟨hnil, _⟩ | ⟨pre, c, post, hsl, hp, he, hq⟩
    · have := List.drop_eq_nil_iff.mp hnil; omega
    · have hpre : ∀ x ∈ pre, T.act .string x = .strOk := by
        intro x hx; simpa using hp x hx
      obtain ⟨hd2, hlen2⟩ := (drop_split buf (off + 1) pre (c :: post) hsl).resolve_right (by simp)
      simp only [List.length_cons] at hlen2
      have hslice : sliceOf buf (off + 1) (off + 1 + pre.length) = some pre :=
        sliceOf_pre buf (off + 1) pre (c :: post) hsl (by simp)
      have hdropc : buf.drop (off + pre.length + 1) = c :: post := by
        rw [show off + pre.length + 1 = off + 1 + pre.length by omega]; exact hd2
      have hrunm : runBytes T cfg m (buf.drop off) = runBytes T cfg m (b :: (pre ++ c :: post)) := by
        rw [hdrop, hsl]
      unfold iterBuf
      rw [hcb]
      unfold caseQuote
      simp only [hg, ↓reduceIte, sliceOf_tail buf off (by omega), he, Nat.zero_add]
      by_cases hc : c = 34
      · subst hc
        simp only [↓reduceIte, show off + pre.length + 1 = off + 1 + pre.length by omega, hslice]
        have hdrop2 : buf.drop (off + 1 + pre.length + 1) = post := by
          rw [← List.drop_drop, hd2]; rfl
        have hmin : min (off + 1 + pre.length + 1) buf.length - off = pre.length + 2 := by omega
        cases isKey
        · -- value string
          simp only [Bool.false_eq_true, ↓reduceIte] at hact hactm ⊢
          have hrun := run_str_val hT cfg m b pre post hactm hpre
          rcases St.add_cases (s.fwd (off + 1 + pre.length - off)) (.str pre) with ⟨st, ha, hadd⟩ | ⟨w, ha, hadd⟩
          · rw [hadd]
            simp only [IterOK, Bool.false_eq_true, ↓reduceIte, hmin]
            have ha' : addItem (.str pre) m.stack = .ok st := by rw [← estack]; exact ha
            have hadd' : ({ m with tmp := pre.reverse, mode := .after, nextMode := .after, pos := m.pos + pre.length + 1, inFast := false } : St).add (.str pre) = .ok { m with tmp := pre.reverse, mode := .after, nextMode := .after, pos := m.pos + pre.length + 1, inFast := false, stack := st } := by
              unfold St.add; simp only [ha']
            rw [hadd'] at hrun
            simp only at hrun
            refine ⟨by omega, _, hrunm.trans (hrun.trans (by rw [hdrop2])), ⟨?_, ?_, ?_, ?_⟩, ?_⟩
            · simp only [deliver_pos]
              rw [show m.pos + pre.length + 1 + 1 = s.pos + (pre.length + 2) by omega]
              refine deliver_nf_pos T cfg _ ?_ _ _
              exact nf_set_dead hrel.nf .after rfl rfl rfl st _ _ _ _ _ _ _ _ _
            · simp only [deliver_flag]; exact hrel.flag
            · exact deliver_nm T cfg (by exact hrel.ns)
            · exact deliver_nm T cfg (Or.inl rfl)
            · exact ⟨fun hf => (by cases hf), fun _ => numInv_same rfl rfl (deliver_numInv cfg _ (by nm_triv))⟩
          · rw [hadd]
            simp only [IterOK]
            have ha' : addItem (.str pre) m.stack = .error w := by rw [← estack]; exact ha
            have hadd' : ({ m with tmp := pre.reverse, mode := .after, nextMode := .after, pos := m.pos + pre.length + 1, inFast := false } : St).add (.str pre) = .error (({ m with tmp := pre.reverse, mode := .after, nextMode := .after, pos := m.pos + pre.length + 1, inFast := false } : St).err (.fault w)) := by
              unfold St.add; simp only [ha']
            rw [hadd'] at hrun
            rw [hrunm, hrun]
            simp only [St.err, St.fwd, eline, epos, enl, Except.error.injEq, Err.mk.injEq, true_and, and_true]
            congr 2; omega
        · -- member name
          simp only [↓reduceIte] at hact hactm ⊢
          have hrun := run_str_key hT cfg m b pre post hactm hpre
          simp only [IterOK, ↓reduceIte, hmin]
          refine ⟨by omega, _, hrunm.trans (hrun.trans (by rw [hdrop2])), ⟨?_, hrel.flag, hrel.ns, Or.inr rfl⟩, ?_⟩
          · rw [show m.pos + pre.length + 2 = s.pos + (pre.length + 2) by omega, ← estack]
            exact nf_set_dead hrel.nf .colon rfl rfl rfl _ _ _ _ _ _ _ _ _ _
          · exact ⟨fun hf => (by cases hf), fun _ => by nm_triv⟩
      · -- the scan stopped at a backslash, a control byte, or the end of the buffer
        simp only [hc, ↓reduceIte, show off + pre.length + 1 = off + 1 + pre.length by omega, hslice]
        have hmin : min (off + 1 + pre.length) buf.length - off = pre.length + 1 := by omega
        have hrun := run_str_open hT cfg m b isKey pre (c :: post) hactm hpre
        simp only [IterOK, ↓reduceIte, hmin]
        refine ⟨by omega, _, hrunm.trans (hrun.trans (by rw [hd2])), ⟨?_, hrel.flag, ?_, ?_⟩, ?_⟩
        · rw [show m.pos + pre.length + 1 = s.pos + (pre.length + 1) by omega]
          exact nf_set_string hrel.nf _ _ _ _ _
        · cases isKey
          · exact Or.inl rfl
          · exact Or.inr rfl
        · cases isKey
          · exact Or.inl rfl
          · exact Or.inr rfl
        · exact ⟨fun hf => (by cases hf), fun _ => by nm_triv⟩

end OjgVerif.Json
