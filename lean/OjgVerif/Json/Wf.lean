import OjgVerif.Json.Lemmas
/-! Well-formedness of the build stack and "no runtime fault": the invariant behind property C06 for
the strict-JSON machines. Every Go operation of `parseBuffer` that can fault at run time — the
nil-map write in `add` (a key that is not directly above a map), `p.stack[len-1]` on an empty
stack, the slice expression of close-array — is an explicit `fault` outcome of the model; the
theorem `no_fault` says it is never produced. -/
namespace OjgVerif.Json
open OjgVerif

def Item.isVal : Item → Bool
  | .val _ => true
  | _ => false

/-- is the machine at or inside a value that has not been added yet? (as opposed to: just behind a
complete value / before a key) -/
def needVal (m nm : Mode) : Bool :=
  match m with
  | .after | .key1 | .key | .space => false
  | .string | .esc | .u => nm == .after
  | _ => true

/-- shape of the build stack (top first) for a container stack (innermost first) -/
def Shape : List Bool → List Item → Bool → Prop
  | [], st, _ => st = []
  | true :: ss, st, _ =>
    ∃ vals below, st = vals ++ .arrMark :: below ∧ (∀ it ∈ vals, it.isVal = true) ∧ Shape ss below true
  | false :: ss, st, need =>
    if need then ∃ k kvs below, st = .key k :: .obj kvs :: below ∧ Shape ss below true
    else ∃ kvs below, st = .obj kvs :: below ∧ Shape ss below true

/-- the stack just after a value has been added and before `deliver` runs -/
def ShapeAdded (ss : List Bool) (st : List Item) : Prop :=
  match ss with
  | [] => ∃ v, st = [.val v]
  | _ :: _ => Shape ss st false

theorem addItem_shape (v : JV) (ss : List Bool) (st : List Item) (h : Shape ss st true) :
    ∃ st', addItem v st = .ok st' ∧ ShapeAdded ss st' := by
  match ss, h with
  | [], h =>
    simp only [Shape] at h
    subst h
    exact ⟨[.val v], rfl, v, rfl⟩
  | true :: ss, h =>
    obtain ⟨vals, below, hst, hv, hb⟩ := h
    subst hst
    refine ⟨.val v :: (vals ++ .arrMark :: below), ?_, ?_⟩
    · cases vals with
      | nil => rfl
      | cons x r =>
        have hx := hv x List.mem_cons_self
        cases x <;> simp [Item.isVal] at hx
        rfl
    · exact ⟨.val v :: vals, below, rfl, by
        intro it hit
        rcases List.mem_cons.mp hit with h | h
        · subst h; rfl
        · exact hv it h, hb⟩
  | false :: ss, h =>
    simp only [Shape, ↓reduceIte] at h
    obtain ⟨k, kvs, below, hst, hb⟩ := h
    subst hst
    refine ⟨.obj (kvInsert k v kvs) :: below, rfl, ?_⟩
    simp only [ShapeAdded, Shape, Bool.false_eq_true, ↓reduceIte]
    exact ⟨_, _, rfl, hb⟩

/-- closing an object: the map is on top (no key pending) -/
theorem popObj_shape (ss : List Bool) (st : List Item) (h : Shape (false :: ss) st false) :
    ∃ kvs below, st = .obj kvs :: below ∧ Shape ss below true := by
  simpa [Shape] using h

/-- closing an array: the placeholder is found and everything above it is a value -/
theorem splitAtMark_shape (ss : List Bool) (st : List Item) (need : Bool) (h : Shape (true :: ss) st need) :
    ∃ elems below, splitAtMark st [] = some (elems, below) ∧ Shape ss below true := by
  obtain ⟨vals, below, hst, _, hb⟩ := h
  subst hst
  have : ∀ (vals : List Item) (acc : List JV), (∀ it ∈ vals, it.isVal = true) →
      ∃ elems, splitAtMark (vals ++ .arrMark :: below) acc = some (elems, below) := by
    intro vals
    induction vals with
    | nil => intro acc _; exact ⟨acc, rfl⟩
    | cons x r ih =>
      intro acc hv
      have hx := hv x List.mem_cons_self
      cases x <;> simp [Item.isVal] at hx
      simp only [List.cons_append, splitAtMark]
      exact ih _ (fun it hit => hv it (List.mem_cons_of_mem _ hit))
  rename_i hv
  obtain ⟨elems, he⟩ := this vals [] hv
  exact ⟨elems, below, he, hb⟩

end OjgVerif.Json

namespace OjgVerif.Json
open OjgVerif

def ErrKind.isFault : ErrKind → Bool
  | .fault _ => true
  | _ => false

/-- in which modes the reference transition function yields a given action -/
theorem src_mem (a : Act) (ms : List Mode)
    (hchk : (Mode.all.all fun m => (List.range 256).all fun i =>
      !(expected m (UInt8.ofNat i) == a) || ms.contains m) = true)
    (m : Mode) (b : UInt8) (h : expected m b = a) : m ∈ ms := by
  have := forall_mode_byte (fun m b => !(expected m b == a) || ms.contains m) hchk m b
  simpa [h] using this

/-- the invariant of the strict-JSON machine at step boundaries -/
structure WF (s : St) : Prop where
  ctl : CtlInv s
  obj : (s.mode = .key1 ∨ s.mode = .key ∨ s.mode = .colon ∨
          ((s.mode = .string ∨ s.mode = .esc ∨ s.mode = .u) ∧ s.nextMode = .colon)) →
        ∃ ss, s.starts = false :: ss
  arr : s.mode = .comma → ∃ ss, s.starts = true :: ss
  shape : Shape s.starts s.stack (needVal s.mode s.nextMode)

theorem WF.init : WF {} :=
  ⟨CtlInv.init, (by intro h; rcases h with h | h | h | ⟨h | h | h, _⟩ <;> cases h), (by intro h; cases h), rfl⟩

/-- what `stepAct` guarantees before `deliver` runs -/
structure WFpre (s : St) (cont : Bool) : Prop where
  ctl : CtlPre s cont
  obj : (s.mode = .key1 ∨ s.mode = .key ∨ s.mode = .colon ∨
          ((s.mode = .string ∨ s.mode = .esc ∨ s.mode = .u) ∧ s.nextMode = .colon)) →
        ∃ ss, s.starts = false :: ss
  arr : s.mode = .comma → ∃ ss, s.starts = true :: ss
  shape : ¬(s.starts = [] ∧ s.mode = .after) → Shape s.starts s.stack (needVal s.mode s.nextMode)

theorem Shape.arr_need {ss : List Bool} {st : List Item} {a : Bool} (b : Bool)
    (h : Shape (true :: ss) st a) : Shape (true :: ss) st b := h

/-- adding a value where one is expected succeeds -/
theorem St.add_ok (s : St) (v : JV) (h : Shape s.starts s.stack true) :
    ∃ st', s.add v = .ok { s with stack := st' } ∧ ShapeAdded s.starts st' := by
  obtain ⟨st', h1, h2⟩ := addItem_shape v s.starts s.stack h
  exact ⟨st', by unfold St.add; rw [h1], h2⟩

theorem ShapeAdded.shape {ss : List Bool} {st : List Item} (h : ShapeAdded ss st) (hne : ss ≠ []) :
    Shape ss st false := by
  cases ss with
  | nil => exact absurd rfl hne
  | cons _ _ => exact h

end OjgVerif.Json

namespace OjgVerif.Json
open OjgVerif

/-- the modes in which the reference transition function yields each action -/
def srcModes : Act → List Mode
  | .skipChar | .skipNewline => [.value, .comma, .after, .key1, .key, .colon, .space]
  | .valNull | .valTrue | .valFalse | .valNeg | .val0 | .valDigit | .valQuote | .openArray | .openObject =>
    [.value, .comma]
  | .closeArray => [.value, .after, .zero, .digit, .frac, .exp]
  | .closeObject => [.value, .after, .key1, .zero, .digit, .frac, .exp]
  | .afterComma => [.after]
  | .keyQuote => [.key1, .key]
  | .colonColon => [.colon]
  | .numSpc | .numNewline | .numComma => [.zero, .digit, .frac, .exp]
  | .numDot => [.zero, .digit]
  | .numFrac => [.dot, .frac]
  | .fracE => [.zero, .digit, .frac]
  | .expSign => [.expSign]
  | .expDigit => [.expSign, .expZero, .exp]
  | .strQuote | .strSlash | .strOk => [.string]
  | .negDigit | .numZero => [.neg]
  | .escOk | .escU => [.esc]
  | .uOk => [.u]
  | .tokenOk => [.null, .true_, .false_]
  | .numDigit => [.digit]
  | .charErr => Mode.all
  | .unknown => []

theorem src_ok (m : Mode) (b : UInt8) : m ∈ srcModes (expected m b) := by
  have := forall_mode_byte (fun m b => (srcModes (expected m b)).contains m) (by decide +kernel) m b
  simpa using this

end OjgVerif.Json

namespace OjgVerif.Json
open OjgVerif

/-- frame: cases that leave mode class, starts and stack alone -/
theorem WFpre.of_same (s s' : St) (c : Bool) (hw : WF s) (hc : CtlPre s' c)
    (hst : s'.starts = s.starts) (hsk : s'.stack = s.stack)
    (hnv : needVal s'.mode s'.nextMode = needVal s.mode s.nextMode)
    (hobj : (s'.mode = .key1 ∨ s'.mode = .key ∨ s'.mode = .colon ∨
          ((s'.mode = .string ∨ s'.mode = .esc ∨ s'.mode = .u) ∧ s'.nextMode = .colon)) →
          (s.mode = .key1 ∨ s.mode = .key ∨ s.mode = .colon ∨
          ((s.mode = .string ∨ s.mode = .esc ∨ s.mode = .u) ∧ s.nextMode = .colon)))
    (harr : s'.mode = .comma → s.mode = .comma) : WFpre s' c :=
  ⟨hc, fun h => hst ▸ hw.obj (hobj h), fun h => hst ▸ hw.arr (harr h), fun _ => by rw [hst, hsk, hnv]; exact hw.shape⟩

/-- a mode that is neither a key/colon mode nor comma has no context obligations -/
theorem WFpre.of_plain (s s' : St) (c : Bool) (hw : WF s) (hc : CtlPre s' c)
    (hst : s'.starts = s.starts) (hsk : s'.stack = s.stack)
    (hnv : needVal s'.mode s'.nextMode = needVal s.mode s.nextMode)
    (hm : s'.mode ≠ .key1 ∧ s'.mode ≠ .key ∧ s'.mode ≠ .colon ∧ s'.mode ≠ .comma ∧
          s'.mode ≠ .string ∧ s'.mode ≠ .esc ∧ s'.mode ≠ .u) : WFpre s' c :=
  WFpre.of_same s s' c hw hc hst hsk hnv
    (by
      intro h
      rcases h with h | h | h | ⟨h | h | h, _⟩
      · exact absurd h hm.1
      · exact absurd h hm.2.1
      · exact absurd h hm.2.2.1
      · exact absurd h hm.2.2.2.2.1
      · exact absurd h hm.2.2.2.2.2.1
      · exact absurd h hm.2.2.2.2.2.2)
    (fun h => absurd h hm.2.2.2.1)

theorem stepToken_wf (T : Tables) (s : St) (b : UInt8) (hshape : Shape s.starts s.stack true) :
    (∀ e, stepToken T s b = .error e → e.kind.isFault = false) ∧
    (∀ s', stepToken T s b = .ok s' →
      (s'.mode = s.mode ∧ s'.stack = s.stack ∧ s'.starts = s.starts ∧ s'.nextMode = s.nextMode) ∨
      (s'.mode = .after ∧ s'.starts = s.starts ∧ s'.nextMode = s.nextMode ∧ ShapeAdded s.starts s'.stack)) := by
  have hadd : ∀ (v : JV), ∃ st', ({ s with ri := s.ri + 1, mode := Mode.after } : St).add v =
      .ok { s with ri := s.ri + 1, mode := Mode.after, stack := st' } ∧ ShapeAdded s.starts st' := by
    intro v
    exact St.add_ok { s with ri := s.ri + 1, mode := Mode.after } v hshape
  unfold stepToken
  simp only
  by_cases h1 : T.act s.mode 114 = .tokenOk
  · rw [if_pos h1]
    by_cases h2 : [116, 114, 117, 101].getD (s.ri + 1) 0 = b
    · rw [if_pos h2]
      by_cases h3 : 3 ≤ s.ri + 1
      · rw [if_pos h3]
        obtain ⟨st', ha, hs⟩ := hadd (.bool true)
        rw [ha]
        exact ⟨(fun e h => nomatch h), fun s' h => by cases h; exact Or.inr ⟨rfl, rfl, rfl, hs⟩⟩
      · rw [if_neg h3]
        exact ⟨(fun e h => nomatch h), fun s' h => by cases h; exact Or.inl ⟨rfl, rfl, rfl, rfl⟩⟩
    · rw [if_neg h2]
      exact ⟨fun e h => by cases h; rfl, (fun s' h => nomatch h)⟩
  · rw [if_neg h1]
    by_cases h1' : T.act s.mode 97 = .tokenOk
    · rw [if_pos h1']
      by_cases h2 : [102, 97, 108, 115, 101].getD (s.ri + 1) 0 = b
      · rw [if_pos h2]
        by_cases h3 : 4 ≤ s.ri + 1
        · rw [if_pos h3]
          obtain ⟨st', ha, hs⟩ := hadd (.bool false)
          rw [ha]
          exact ⟨(fun e h => nomatch h), fun s' h => by cases h; exact Or.inr ⟨rfl, rfl, rfl, hs⟩⟩
        · rw [if_neg h3]
          exact ⟨(fun e h => nomatch h), fun s' h => by cases h; exact Or.inl ⟨rfl, rfl, rfl, rfl⟩⟩
      · rw [if_neg h2]
        exact ⟨fun e h => by cases h; rfl, (fun s' h => nomatch h)⟩
    · rw [if_neg h1']
      by_cases h1'' : (T.act s.mode 117 = .tokenOk && T.act s.mode 108 = .tokenOk) = true
      · rw [if_pos h1'']
        by_cases h2 : [110, 117, 108, 108].getD (s.ri + 1) 0 = b
        · rw [if_pos h2]
          by_cases h3 : 3 ≤ s.ri + 1
          · rw [if_pos h3]
            obtain ⟨st', ha, hs⟩ := hadd .null
            rw [ha]
            exact ⟨(fun e h => nomatch h), fun s' h => by cases h; exact Or.inr ⟨rfl, rfl, rfl, hs⟩⟩
          · rw [if_neg h3]
            exact ⟨(fun e h => nomatch h), fun s' h => by cases h; exact Or.inl ⟨rfl, rfl, rfl, rfl⟩⟩
        · rw [if_neg h2]
          exact ⟨fun e h => by cases h; rfl, (fun s' h => nomatch h)⟩
      · rw [if_neg h1'']
        exact ⟨(fun e h => nomatch h), fun s' h => by cases h; exact Or.inl ⟨rfl, rfl, rfl, rfl⟩⟩

/-- after the pending number (if any) has been added, the stack has the "value complete" shape -/
theorem flushNum_wf (s : St) (hw : WF s)
    (hm : s.mode = .after ∨ s.mode = .key1 ∨ s.mode = .zero ∨ s.mode = .digit ∨ s.mode = .frac ∨ s.mode = .exp)
    (hne : s.starts ≠ []) :
    ∃ st1, s.flushNum refTables = .ok { s with stack := st1 } ∧ Shape s.starts st1 false := by
  unfold St.flushNum
  have hshape := hw.shape
  rcases hm with h | h | h | h | h | h
  · have hfin : refTables.fin s.mode ≠ .n := by rw [h]; decide
    rw [if_neg hfin]
    refine ⟨s.stack, rfl, ?_⟩
    rw [h] at hshape; exact hshape
  · have hfin : refTables.fin s.mode ≠ .n := by rw [h]; decide
    rw [if_neg hfin]
    refine ⟨s.stack, rfl, ?_⟩
    rw [h] at hshape; exact hshape
  all_goals
    have hfin : refTables.fin s.mode = .n := by rw [h]; rfl
    rw [if_pos hfin]
    rw [h] at hshape
    obtain ⟨st', hadd, hs⟩ := St.add_ok s s.num.asNum.toJV hshape
    exact ⟨st', hadd, hs.shape hne⟩

theorem stepAct_wf (cfg : Cfg) (s : St) (b : UInt8) (hw : WF s) :
    (∀ e, stepAct refTables cfg s b = .error e → e.kind.isFault = false) ∧
    (∀ s' c, stepAct refTables cfg s b = .ok (s', c) → WFpre s' c) := by
  have hctl := fun s' c h => stepAct_ctl cfg s s' b c hw.ctl h
  have hshape := hw.shape
  have hsrc := src_ok s.mode b
  unfold stepAct at hctl ⊢
  have hact0 : refTables.act s.mode b = expected s.mode b := rfl
  rw [hact0] at hctl ⊢
  cases hact : expected s.mode b <;> simp only [hact] at hctl ⊢ <;> rw [hact] at hsrc <;>
    simp only [srcModes, List.mem_cons, List.not_mem_nil, or_false] at hsrc
  case skipChar | skipNewline | strOk =>
    refine ⟨(fun e h => nomatch h), fun s' c h => ?_⟩
    have hc := hctl s' c h
    simp only [Except.ok.injEq, Prod.mk.injEq] at h; obtain ⟨rfl, rfl⟩ := h
    exact WFpre.of_same s _ _ hw hc rfl rfl rfl id id
  case charErr =>
    refine ⟨fun e h => ?_, (fun s' c h => nomatch h)⟩
    cases h
    simp only [St.err]
    split <;> rfl
  case colonColon =>
    refine ⟨(fun e h => nomatch h), fun s' c h => ?_⟩
    have hc := hctl s' c h
    simp only [Except.ok.injEq, Prod.mk.injEq] at h; obtain ⟨rfl, rfl⟩ := h
    exact WFpre.of_plain s _ _ hw hc rfl rfl (by simp [needVal, hsrc]) (by simp)
  case val0 | valDigit | valNeg | valNull | valTrue | valFalse =>
    refine ⟨(fun e h => nomatch h), fun s' c h => ?_⟩
    have hc := hctl s' c h
    simp only [Except.ok.injEq, Prod.mk.injEq] at h; obtain ⟨rfl, rfl⟩ := h
    exact WFpre.of_plain s _ _ hw hc rfl rfl (by rcases hsrc with h | h <;> simp [needVal, h]) (by simp)
  case fracE | expDigit =>
    refine ⟨(fun e h => nomatch h), fun s' c h => ?_⟩
    have hc := hctl s' c h
    simp only [Except.ok.injEq, Prod.mk.injEq] at h; obtain ⟨rfl, rfl⟩ := h
    exact WFpre.of_plain s _ _ hw hc rfl rfl (by rcases hsrc with h | h | h <;> simp [needVal, h]) (by simp)
  case numDot | numFrac =>
    refine ⟨(fun e h => nomatch h), fun s' c h => ?_⟩
    have hc := hctl s' c h
    simp only [Except.ok.injEq, Prod.mk.injEq] at h; obtain ⟨rfl, rfl⟩ := h
    exact WFpre.of_plain s _ _ hw hc rfl rfl (by rcases hsrc with h | h <;> simp [needVal, h]) (by simp)
  case expSign | numZero | negDigit =>
    refine ⟨(fun e h => nomatch h), fun s' c h => ?_⟩
    have hc := hctl s' c h
    simp only [Except.ok.injEq, Prod.mk.injEq] at h; obtain ⟨rfl, rfl⟩ := h
    exact WFpre.of_plain s _ _ hw hc rfl rfl (by simp [needVal, hsrc]) (by simp)
  case numDigit =>
    refine ⟨(fun e h => nomatch h), fun s' c h => ?_⟩
    have hc := hctl s' c h
    simp only [Except.ok.injEq, Prod.mk.injEq] at h; obtain ⟨rfl, rfl⟩ := h
    exact WFpre.of_plain s _ _ hw hc rfl rfl rfl (by simp [hsrc])
  case strSlash =>
    refine ⟨(fun e h => nomatch h), fun s' c h => ?_⟩
    have hc := hctl s' c h
    simp only [Except.ok.injEq, Prod.mk.injEq] at h; obtain ⟨rfl, rfl⟩ := h
    refine WFpre.of_same s _ _ hw hc rfl rfl (by simp [needVal, hsrc]) ?_ (fun h => nomatch h)
    intro h; rcases h with h | h | h | ⟨_, h⟩
    · cases h
    · cases h
    · cases h
    · exact Or.inr (Or.inr (Or.inr ⟨Or.inl hsrc, h⟩))
  case escOk | escU =>
    refine ⟨(fun e h => nomatch h), fun s' c h => ?_⟩
    have hc := hctl s' c h
    simp only [Except.ok.injEq, Prod.mk.injEq] at h; obtain ⟨rfl, rfl⟩ := h
    refine WFpre.of_same s _ _ hw hc rfl rfl (by simp [needVal, hsrc]) ?_ (fun h => nomatch h)
    intro h; rcases h with h | h | h | ⟨_, h⟩
    · cases h
    · cases h
    · cases h
    · exact Or.inr (Or.inr (Or.inr ⟨Or.inr (Or.inl hsrc), h⟩))
  case uOk =>
    refine ⟨(fun e h => nomatch h), fun s' c h => ?_⟩
    have hc := hctl s' c h
    simp only [Except.ok.injEq, Prod.mk.injEq] at h; obtain ⟨rfl, rfl⟩ := h
    refine WFpre.of_same s _ _ hw hc rfl rfl ?_ ?_ ?_
    · simp only [hsrc]; split <;> simp [needVal]
    · intro h
      refine Or.inr (Or.inr (Or.inr ⟨Or.inr (Or.inr hsrc), ?_⟩))
      rcases h with h | h | h | ⟨_, h⟩
      · simp only [hsrc] at h; split at h <;> cases h
      · simp only [hsrc] at h; split at h <;> cases h
      · simp only [hsrc] at h; split at h <;> cases h
      · exact h
    · intro h; simp only [hsrc] at h; split at h <;> cases h
  case keyQuote =>
    refine ⟨(fun e h => nomatch h), fun s' c h => ?_⟩
    have hc := hctl s' c h
    simp only [Except.ok.injEq, Prod.mk.injEq] at h; obtain ⟨rfl, rfl⟩ := h
    have hobj := hw.obj (by rcases hsrc with h | h <;> simp [h])
    refine ⟨hc, fun _ => hobj, (fun h => nomatch h), fun _ => ?_⟩
    have : needVal s.mode s.nextMode = false := by rcases hsrc with h | h <;> simp [needVal, h]
    rw [this] at hshape
    exact hshape
  case valQuote =>
    refine ⟨(fun e h => nomatch h), fun s' c h => ?_⟩
    have hc := hctl s' c h
    simp only [Except.ok.injEq, Prod.mk.injEq] at h; obtain ⟨rfl, rfl⟩ := h
    have : needVal s.mode s.nextMode = true := by rcases hsrc with h | h <;> simp [needVal, h]
    rw [this] at hshape
    refine ⟨hc, ?_, (fun h => nomatch h), fun _ => hshape⟩
    intro h; rcases h with h | h | h | ⟨_, h⟩ <;> cases h
  case afterComma =>
    refine ⟨(fun e h => nomatch h), fun s' c h => ?_⟩
    have hc := hctl s' c h
    simp only [Except.ok.injEq, Prod.mk.injEq] at h; obtain ⟨rfl, rfl⟩ := h
    have hne := hw.ctl.after hsrc
    have hnv : needVal s.mode s.nextMode = false := by simp [needVal, hsrc]
    rw [hnv] at hshape
    obtain ⟨x, ss, hs⟩ := List.exists_cons_of_ne_nil hne
    cases x with
    | false =>
      have : afterCommaMode s = .key := by simp [afterCommaMode, hs]
      refine ⟨hc, fun _ => ⟨ss, hs⟩, ?_, fun _ => ?_⟩
      · intro h; simp only [this] at h; cases h
      · simp only [this, needVal]; exact hshape
    | true =>
      have : afterCommaMode s = .comma := by simp [afterCommaMode, hs]
      refine ⟨hc, ?_, fun _ => ⟨ss, hs⟩, fun _ => ?_⟩
      · intro h; simp only [this] at h
        rcases h with h | h | h | ⟨h | h | h, _⟩ <;> cases h
      · simp only [hs] at hshape ⊢; exact hshape.arr_need _
  case openObject =>
    refine ⟨(fun e h => nomatch h), fun s' c h => ?_⟩
    have hc := hctl s' c h
    simp only [Except.ok.injEq, Prod.mk.injEq] at h; obtain ⟨rfl, rfl⟩ := h
    have : needVal s.mode s.nextMode = true := by rcases hsrc with h | h <;> simp [needVal, h]
    rw [this] at hshape
    refine ⟨hc, fun _ => ⟨_, rfl⟩, (fun h => nomatch h), fun _ => ?_⟩
    simp only [needVal, Shape, Bool.false_eq_true, ↓reduceIte]
    exact ⟨_, _, rfl, hshape⟩
  case openArray =>
    refine ⟨(fun e h => nomatch h), fun s' c h => ?_⟩
    have hc := hctl s' c h
    simp only [Except.ok.injEq, Prod.mk.injEq] at h; obtain ⟨rfl, rfl⟩ := h
    have : needVal s.mode s.nextMode = true := by rcases hsrc with h | h <;> simp [needVal, h]
    rw [this] at hshape
    refine ⟨hc, ?_, (fun h => nomatch h), fun _ => ?_⟩
    · intro h; rcases h with h | h | h | ⟨h | h | h, _⟩ <;> cases h
    · exact ⟨[], _, rfl, (fun _ h => nomatch h), hshape⟩
  case numSpc | numNewline =>
    have hnv : needVal s.mode s.nextMode = true := by rcases hsrc with h | h | h | h <;> simp [needVal, h]
    rw [hnv] at hshape
    obtain ⟨st', hadd, hsh⟩ := St.add_ok s s.num.asNum.toJV hshape
    have haddn : s.addNum = .ok { s with stack := st' } := hadd
    simp only [haddn, bind, Except.bind, pure, Except.pure] at hctl ⊢
    refine ⟨(fun e h => nomatch h), fun s' c h => ?_⟩
    have hc := hctl s' c h
    simp only [Except.ok.injEq, Prod.mk.injEq] at h; obtain ⟨rfl, rfl⟩ := h
    refine ⟨hc, ?_, (fun h => nomatch h), fun hn => ?_⟩
    · intro h; rcases h with h | h | h | ⟨h | h | h, _⟩ <;> cases h
    · have hne : s.starts ≠ [] := fun h0 => hn ⟨h0, rfl⟩
      exact hsh.shape hne
  case numComma =>
    have hnv : needVal s.mode s.nextMode = true := by rcases hsrc with h | h | h | h <;> simp [needVal, h]
    rw [hnv] at hshape
    obtain ⟨st', hadd, hsh⟩ := St.add_ok s s.num.asNum.toJV hshape
    have haddn : s.addNum = .ok { s with stack := st' } := hadd
    simp only [haddn, bind, Except.bind, pure, Except.pure] at hctl ⊢
    cases hs : s.starts with
    | nil =>
      simp only [hs]
      exact ⟨fun e h => by cases h; rfl, (fun s' c h => nomatch h)⟩
    | cons x ss =>
      simp only [hs] at hctl ⊢
      refine ⟨(fun e h => nomatch h), fun s' c h => ?_⟩
      have hc := hctl s' c h
      simp only [Except.ok.injEq, Prod.mk.injEq] at h; obtain ⟨rfl, rfl⟩ := h
      have hsh' : Shape (x :: ss) st' false := by rw [hs] at hsh; exact hsh
      cases x with
      | false =>
        have : afterCommaMode { s with stack := st' } = .key := by simp [afterCommaMode, hs]
        refine ⟨hc, fun _ => ⟨ss, rfl⟩, ?_, fun _ => ?_⟩
        · intro h; simp only [this] at h; cases h
        · simp only [this, needVal]; exact hsh'
      | true =>
        have : afterCommaMode { s with stack := st' } = .comma := by simp [afterCommaMode, hs]
        refine ⟨hc, ?_, fun _ => ⟨ss, rfl⟩, fun _ => ?_⟩
        · intro h; simp only [this] at h
          rcases h with h | h | h | ⟨h | h | h, _⟩ <;> cases h
        · exact hsh'.arr_need _
  case strQuote =>
    rcases hw.ctl.next with hn | hn
    · -- a member name ends: push the key
      have h58 : refTables.act s.nextMode 58 = .colonColon := by rw [hn]; decide
      simp only [h58, ↓reduceIte] at hctl ⊢
      refine ⟨(fun e h => nomatch h), fun s' c h => ?_⟩
      have hc := hctl s' c h
      simp only [Except.ok.injEq, Prod.mk.injEq] at h; obtain ⟨rfl, rfl⟩ := h
      obtain ⟨ss, hs⟩ := hw.obj (Or.inr (Or.inr (Or.inr ⟨Or.inl hsrc, hn⟩)))
      have hnv : needVal s.mode s.nextMode = false := by simp [needVal, hsrc, hn]
      rw [hnv, hs] at hshape
      simp only [Shape, Bool.false_eq_true, ↓reduceIte] at hshape
      obtain ⟨kvs, below, hst, hb⟩ := hshape
      refine ⟨hc, fun _ => ⟨ss, hs⟩, ?_, fun _ => ?_⟩
      · intro h; simp only [hn] at h; cases h
      · simp only [hn, needVal, hs, hst, Shape, ↓reduceIte]
        exact ⟨_, _, _, rfl, hb⟩
    · -- a string value ends: add it
      have h58 : refTables.act s.nextMode 58 ≠ .colonColon := by rw [hn]; decide
      simp only [h58, ↓reduceIte] at hctl ⊢
      have hnv : needVal s.mode s.nextMode = true := by simp [needVal, hsrc, hn]
      rw [hnv] at hshape
      obtain ⟨st', hadd, hsh⟩ := St.add_ok { s with mode := s.nextMode } (.str s.tmp.reverse) hshape
      simp only [hadd, bind, Except.bind, pure, Except.pure] at hctl ⊢
      refine ⟨(fun e h => nomatch h), fun s' c h => ?_⟩
      have hc := hctl s' c h
      simp only [Except.ok.injEq, Prod.mk.injEq] at h; obtain ⟨rfl, rfl⟩ := h
      refine ⟨hc, ?_, ?_, fun hnn => ?_⟩
      · intro h; simp only [hn] at h; rcases h with h | h | h | ⟨h | h | h, _⟩ <;> cases h
      · intro h; simp only [hn] at h; cases h
      · have hne : s.starts ≠ [] := fun h0 => hnn ⟨h0, hn⟩
        simp only [hn, needVal]
        exact hsh.shape hne
  case tokenOk =>
    have hnv : needVal s.mode s.nextMode = true := by rcases hsrc with h | h | h <;> simp [needVal, h]
    rw [hnv] at hshape
    obtain ⟨hte, hto⟩ := stepToken_wf refTables s b hshape
    cases hst : stepToken refTables s b with
    | error e =>
      simp only [hst, bind, Except.bind] at hctl ⊢
      exact ⟨fun e' h => by cases h; exact hte e hst, (fun s' c h => nomatch h)⟩
    | ok s1 =>
      simp only [hst, bind, Except.bind, pure, Except.pure] at hctl ⊢
      refine ⟨(fun e h => nomatch h), fun s' c h => ?_⟩
      have hc := hctl s' c h
      simp only [Except.ok.injEq, Prod.mk.injEq] at h; obtain ⟨rfl, rfl⟩ := h
      rcases hto s1 hst with ⟨hm, hsk, hss, hnm⟩ | ⟨hm, hss, hnm, hsh⟩
      · refine ⟨hc, ?_, ?_, fun _ => ?_⟩
        · intro h; rw [hm] at h; rcases hsrc with hq | hq | hq <;> rw [hq] at h <;>
            rcases h with h | h | h | ⟨h | h | h, _⟩ <;> cases h
        · intro h; rw [hm] at h; rcases hsrc with hq | hq | hq <;> rw [hq] at h <;> cases h
        · rw [hm, hsk, hss, hnm, hnv]; exact hshape
      · refine ⟨hc, ?_, ?_, fun hnn => ?_⟩
        · intro h; rw [hm] at h; rcases h with h | h | h | ⟨h | h | h, _⟩ <;> cases h
        · intro h; rw [hm] at h; cases h
        · have hne : s.starts ≠ [] := fun h0 => hnn ⟨hss ▸ h0, hm⟩
          rw [hm, hss]; simp only [needVal]
          exact hsh.shape hne
  case closeObject =>
    cases hs : s.starts with
    | nil => simp only [hs]; exact ⟨fun e h => by cases h; rfl, (fun s' c h => nomatch h)⟩
    | cons x rest =>
      cases x with
      | true => simp only [hs]; exact ⟨fun e h => by cases h; rfl, (fun s' c h => nomatch h)⟩
      | false =>
        simp only [hs] at hctl ⊢
        by_cases hv : refTables.fin s.mode = .v
        · simp only [hv, ↓reduceIte]
          exact ⟨fun e h => by cases h; rfl, (fun s' c h => nomatch h)⟩
        · simp only [hv, ↓reduceIte] at hctl ⊢
          have hm : s.mode = .after ∨ s.mode = .key1 ∨ s.mode = .zero ∨ s.mode = .digit ∨ s.mode = .frac ∨ s.mode = .exp := by
            rcases hsrc with h | h | h | h | h | h | h
            · exact absurd (by rw [h]; rfl) hv
            all_goals simp [h]
          obtain ⟨st1, hfl, hsh1⟩ := flushNum_wf s hw hm (by rw [hs]; simp)
          rw [hs] at hsh1
          obtain ⟨kvs, below, hst1, hb⟩ := popObj_shape rest st1 hsh1
          have hpop : ({ s with stack := st1 } : St).popObj rest =
              ({ s with stack := below, starts := rest } : St).add (.obj kvs) := by
            simp only [St.popObj, hst1]; rfl
          obtain ⟨st2, hadd, hsh2⟩ := St.add_ok { s with stack := below, starts := rest } (.obj kvs) hb
          simp only [hfl, hpop, hadd, bind, Except.bind, pure, Except.pure] at hctl ⊢
          refine ⟨(fun e h => nomatch h), fun s' c h => ?_⟩
          have hc := hctl s' c h
          simp only [Except.ok.injEq, Prod.mk.injEq] at h; obtain ⟨rfl, rfl⟩ := h
          refine ⟨hc, ?_, (fun h => nomatch h), fun hnn => ?_⟩
          · intro h; rcases h with h | h | h | ⟨h | h | h, _⟩ <;> cases h
          · have hne : rest ≠ [] := fun h0 => hnn ⟨h0, rfl⟩
            exact hsh2.shape hne
  case closeArray =>
    cases hs : s.starts with
    | nil => simp only [hs]; exact ⟨fun e h => by cases h; rfl, (fun s' c h => nomatch h)⟩
    | cons x rest =>
      cases x with
      | false => simp only [hs]; exact ⟨fun e h => by cases h; rfl, (fun s' c h => nomatch h)⟩
      | true =>
        simp only [hs] at hctl ⊢
        have hfl : ∃ st1, s.flushNum refTables = .ok { s with stack := st1 } ∧ Shape (true :: rest) st1 false := by
          rcases hsrc with h | h | h | h | h | h
          · refine ⟨s.stack, ?_, ?_⟩
            · unfold St.flushNum
              have hfin : refTables.fin s.mode ≠ .n := by rw [h]; decide
              rw [if_neg hfin]
            · rw [hs] at hshape; exact hshape.arr_need _
          all_goals
            obtain ⟨st1, h1, h2⟩ := flushNum_wf s hw (by simp [h]) (by rw [hs]; simp)
            rw [hs] at h2
            exact ⟨st1, h1, h2⟩
        obtain ⟨st1, hfl, hsh1⟩ := hfl
        obtain ⟨elems, below, hsplit, hb⟩ := splitAtMark_shape rest st1 false hsh1
        have hpop : ({ s with stack := st1 } : St).popArr rest =
            ({ s with stack := below, starts := rest } : St).add (.arr elems) := by
          simp only [St.popArr, hsplit]
        obtain ⟨st2, hadd, hsh2⟩ := St.add_ok { s with stack := below, starts := rest } (.arr elems) hb
        simp only [hfl, hpop, hadd, bind, Except.bind, pure, Except.pure] at hctl ⊢
        refine ⟨(fun e h => nomatch h), fun s' c h => ?_⟩
        have hc := hctl s' c h
        simp only [Except.ok.injEq, Prod.mk.injEq] at h; obtain ⟨rfl, rfl⟩ := h
        refine ⟨hc, ?_, (fun h => nomatch h), fun hnn => ?_⟩
        · intro h; rcases h with h | h | h | ⟨h | h | h, _⟩ <;> cases h
        · have hne : rest ≠ [] := fun h0 => hnn ⟨h0, rfl⟩
          exact hsh2.shape hne


theorem deliver_wf (cfg : Cfg) (s : St) (c : Bool) (h : WFpre s c) :
    WF (if c then s else deliver refTables cfg s) := by
  have hctl := deliver_ctl cfg s c h.ctl
  cases c with
  | true =>
    simp only [↓reduceIte] at hctl ⊢
    refine ⟨hctl, h.obj, h.arr, h.shape ?_⟩
    intro hh
    exact h.ctl.after rfl hh.2 hh.1
  | false =>
    simp only [Bool.false_eq_true, ↓reduceIte] at hctl ⊢
    unfold deliver at hctl ⊢
    by_cases hc : (s.starts.isEmpty && decide (refTables.fin s.mode = EndMark.a)) = true
    · simp only [hc, ↓reduceIte] at hctl ⊢
      have hs : s.starts = [] := by
        simp only [Bool.and_eq_true, List.isEmpty_iff] at hc; exact hc.1
      refine ⟨hctl, ?_, ?_, ?_⟩
      · intro hh; simp only at hh
        rcases hh with hh | hh | hh | ⟨hh | hh | hh, _⟩ <;> (split at hh <;> cases hh)
      · intro hh; simp only at hh; split at hh <;> cases hh
      · simp only [hs]; rfl
    · simp only [hc] at hctl ⊢
      refine ⟨hctl, h.obj, h.arr, h.shape ?_⟩
      intro hh
      apply hc
      simp [hh.1, hh.2, refTables, expectedFin]

theorem step_wf (cfg : Cfg) (s : St) (b : UInt8) (hw : WF s) :
    (∀ e, step refTables cfg s b = .error e → e.kind.isFault = false) ∧
    (∀ s', step refTables cfg s b = .ok s' → WF s') := by
  obtain ⟨he, ho⟩ := stepAct_wf cfg s b hw
  unfold step
  cases hst : stepAct refTables cfg s b with
  | error e => exact ⟨fun e' h => by cases h; exact he e hst, (fun s' h => nomatch h)⟩
  | ok r =>
    obtain ⟨s1, c⟩ := r
    refine ⟨(fun e h => nomatch h), fun s' h => ?_⟩
    have hd := deliver_wf cfg s1 c (ho s1 c hst)
    simp only [Except.ok.injEq] at h
    subst h
    exact ⟨⟨hd.ctl.after, hd.ctl.comma, hd.ctl.next⟩, hd.obj, hd.arr, hd.shape⟩

theorem runBytes_wf (cfg : Cfg) (bs : Bytes) (s : St) (hw : WF s) :
    (∀ e, runBytes refTables cfg s bs = .error e → e.kind.isFault = false) ∧
    (∀ s', runBytes refTables cfg s bs = .ok s' → WF s') := by
  induction bs generalizing s with
  | nil => exact ⟨(fun e h => nomatch h), fun s' h => by cases h; exact hw⟩
  | cons b r ih =>
    obtain ⟨he, ho⟩ := step_wf cfg s b hw
    simp only [runBytes]
    cases hst : step refTables cfg s b with
    | error e => exact ⟨fun e' h => by cases h; exact he e hst, (fun s' h => nomatch h)⟩
    | ok s1 => exact ih s1 (ho s1 hst)

theorem runChunks_wf (cfg : Cfg) (cs : List Bytes) (s : St) (hw : WF s) :
    (∀ e, runChunks refTables cfg s cs = .error e → e.kind.isFault = false) ∧
    (∀ s', runChunks refTables cfg s cs = .ok s' → WF s') := by
  induction cs generalizing s with
  | nil => exact ⟨(fun e h => nomatch h), fun s' h => by cases h; exact hw⟩
  | cons c r ih =>
    obtain ⟨he, ho⟩ := runBytes_wf cfg c s hw
    simp only [runChunks]
    cases hst : runBytes refTables cfg s c with
    | error e => exact ⟨fun e' h => by cases h; exact he e hst, (fun s' h => nomatch h)⟩
    | ok s1 =>
      have h1 := ho s1 hst
      exact ih { s1 with inFast := false } ⟨⟨h1.ctl.after, h1.ctl.comma, h1.ctl.next⟩, h1.obj, h1.arr, h1.shape⟩

theorem finish_wf (s : St) (hw : WF s) (e : Err) (h : finish refTables s = .error e) : e.kind.isFault = false := by
  unfold finish at h
  split at h
  · cases h; rfl
  · rename_i hc
    split at h
    · rename_i hn
      -- a number is pending: the mode is a number mode, a value is expected, the add succeeds
      have hm : s.mode = .zero ∨ s.mode = .digit ∨ s.mode = .frac ∨ s.mode = .exp := by
        have : expectedFin s.mode = .n := hn
        cases hmm : s.mode <;> simp [hmm, expectedFin] at this <;> simp
      have hsh := hw.shape
      have hnv : needVal s.mode s.nextMode = true := by rcases hm with h | h | h | h <;> simp [needVal, h]
      rw [hnv] at hsh
      obtain ⟨st', hadd, _⟩ := St.add_ok s s.num.asNum.toJV hsh
      have : s.addNum = .ok { s with stack := st' } := hadd
      rw [this] at h
      cases h
    · cases h

/-- **No runtime fault**: whatever the input, the chunking and the configuration, the reference
automaton never produces a `fault` outcome (nil-map write, index out of range, slice bounds):
malformed input is always reported through an ordinary error. -/
theorem run_no_fault (cfg : Cfg) (chunks : List Bytes) (e : Err)
    (h : run refTables cfg chunks = .error e) : e.kind.isFault = false := by
  unfold run at h
  simp only at h
  split at h
  · exact finish_wf {} WF.init e h
  · split at h
    · cases h; rfl
    · cases hr : runChunks refTables cfg {} _ with
      | error e' => rw [hr] at h; cases h; exact (runChunks_wf cfg _ {} WF.init).1 _ hr
      | ok s => rw [hr] at h; exact finish_wf s ((runChunks_wf cfg _ {} WF.init).2 s hr) e h
    · cases hr : runChunks refTables cfg {} _ with
      | error e' => rw [hr] at h; cases h; exact (runChunks_wf cfg _ {} WF.init).1 _ hr
      | ok s => rw [hr] at h; exact finish_wf s ((runChunks_wf cfg _ {} WF.init).2 s hr) e h

end OjgVerif.Json
