import OjgVerif.Json.Viable
/-! The machine model is a total function; at two places it totalises something the Go code does not:
`p.stack[0]` when a top-level value is delivered (the model reads `getLast?` and would answer `null`
for an empty stack, the Go code would panic), and `"true"[p.ri]` / `"false"[p.ri]` / `"null"[p.ri]`
(the model reads `getD`, the Go code would panic on an index out of range). `run_no_fault` does not see
those two as faults, so they get their own theorems here: on every run from the initial state neither
default is ever taken. -/
namespace OjgVerif.Json
open OjgVerif

theorem add_stack_ne {s s' : St} {v : JV} (h : s.add v = .ok s') : s'.stack ≠ [] := by
  unfold St.add at h
  cases ha : addItem v s.stack with
  | error w => rw [ha] at h; cases h
  | ok st =>
    rw [ha] at h; cases h
    simp only
    unfold addItem at ha
    split at ha <;> cases ha <;> simp

theorem stepToken_after_stack (s s' : St) (b : UInt8) (hm : s.mode = .null ∨ s.mode = .true_ ∨ s.mode = .false_)
    (h : stepToken refTables s b = .ok s') (ha : s'.mode = .after) : s'.stack ≠ [] := by
  unfold stepToken at h
  have hmode : ∀ x : St, x = ({ s with ri := s.ri + 1 } : St) → x.mode ≠ .after := by
    intro x hx; rw [hx]; rcases hm with h | h | h <;> (simp only [h]; decide)
  simp only at h
  split at h
  · split at h
    · split at h
      · exact add_stack_ne h
      · cases h; exact absurd ha (hmode _ rfl)
    · cases h
  · split at h
    · split at h
      · split at h
        · exact add_stack_ne h
        · cases h; exact absurd ha (hmode _ rfl)
      · cases h
    · split at h
      · split at h
        · split at h
          · exact add_stack_ne h
          · cases h; exact absurd ha (hmode _ rfl)
        · cases h
      · cases h
        rcases hm with h | h | h <;> (rw [h] at ha; cases ha)

/-- **`p.stack[0]` at delivery is in range.** Whenever the delivery test fires after the action switch
(no container open, mode `after`), the build stack is not empty. -/
theorem delivery_stack_nonempty (cfg : Cfg) (s s' : St) (b : UInt8) (c : Bool) (hw : WF s)
    (h : stepAct refTables cfg s b = .ok (s', c)) (hst : s'.starts = []) (hm : s'.mode = .after) :
    s'.stack ≠ [] := by
  have hsrc := src_ok s.mode b
  have hact0 : refTables.act s.mode b = expected s.mode b := rfl
  have hctl := stepAct_ctl_eq cfg s s' b c h
  have hm' : (actCtl (expected s.mode b) s.ctl).mode = .after := by rw [← hctl]; exact hm
  have hst' : (actCtl (expected s.mode b) s.ctl).starts = [] := by rw [← hctl]; exact hst
  unfold stepAct at h
  rw [hact0] at h
  cases hact : expected s.mode b <;> rw [hact] at h hsrc hm' hst' <;> simp only [actCtl, St.ctl] at h hm' hst'
  case numSpc =>
    simp only [bind, Except.bind] at h
    cases ha : s.addNum with
    | error e => rw [ha] at h; cases h
    | ok s1 =>
      rw [ha] at h
      simp only [pure, Except.pure, Except.ok.injEq, Prod.mk.injEq] at h
      rw [← h.1]
      have ha' : s.add s.num.asNum.toJV = .ok s1 := ha
      show s1.stack ≠ []
      exact add_stack_ne ha'
  case numNewline =>
    simp only [bind, Except.bind] at h
    cases ha : s.addNum with
    | error e => rw [ha] at h; cases h
    | ok s1 =>
      rw [ha] at h
      simp only [pure, Except.pure, Except.ok.injEq, Prod.mk.injEq] at h
      rw [← h.1]
      have ha' : s.add s.num.asNum.toJV = .ok s1 := ha
      show s1.stack ≠ []
      exact add_stack_ne ha'
  case closeObject =>
    split at h
    · split at h
      · cases h
      · simp only [bind, Except.bind] at h
        cases h1 : s.flushNum refTables with
        | error e => rw [h1] at h; cases h
        | ok s1 =>
          rw [h1] at h
          simp only at h
          rename_i rest _ _
          cases h2 : s1.popObj rest with
          | error e => rw [h2] at h; cases h
          | ok s2 =>
            rw [h2] at h
            simp only [pure, Except.pure, Except.ok.injEq, Prod.mk.injEq] at h
            rw [← h.1]
            unfold St.popObj at h2
            cases hs : s1.stack with
            | nil => rw [hs] at h2; cases h2
            | cons top below =>
              rw [hs] at h2; simp only at h2
              show s2.stack ≠ []
              exact add_stack_ne h2
    · cases h
  case closeArray =>
    split at h
    · simp only [bind, Except.bind] at h
      cases h1 : s.flushNum refTables with
      | error e => rw [h1] at h; cases h
      | ok s1 =>
        rw [h1] at h
        simp only at h
        rename_i rest _
        cases h2 : s1.popArr rest with
        | error e => rw [h2] at h; cases h
        | ok s2 =>
          rw [h2] at h
          simp only [pure, Except.pure, Except.ok.injEq, Prod.mk.injEq] at h
          rw [← h.1]
          unfold St.popArr at h2
          cases hs : splitAtMark s1.stack [] with
          | none => rw [hs] at h2; cases h2
          | some p =>
            rw [hs] at h2; simp only at h2
            show s2.stack ≠ []
            exact add_stack_ne h2
    · cases h
  case strQuote =>
    split at h
    · rename_i hc
      -- key branch: the next mode is colon, not after
      exfalso
      have : refTables.act s.nextMode 58 = .colonColon := hc
      rw [hm'] at this
      exact absurd this (by decide)
    · simp only [bind, Except.bind] at h
      cases ha : ({ s with mode := s.nextMode } : St).add (.str s.tmp.reverse) with
      | error e => rw [ha] at h; cases h
      | ok s1 =>
        rw [ha] at h
        simp only [pure, Except.pure, Except.ok.injEq, Prod.mk.injEq] at h
        rw [← h.1]; exact add_stack_ne ha
  case tokenOk =>
    simp only [bind, Except.bind] at h
    cases ha : stepToken refTables s b with
    | error e => rw [ha] at h; cases h
    | ok s1 =>
      rw [ha] at h
      simp only [pure, Except.pure, Except.ok.injEq, Prod.mk.injEq] at h
      have hmm : s.mode = .null ∨ s.mode = .true_ ∨ s.mode = .false_ := by simpa [srcModes] using hsrc
      rw [← h.1]
      exact stepToken_after_stack s s1 b hmm ha (by rw [h.1]; exact hm)
  case charErr => cases h
  case uOk =>
    exfalso
    have hu : s.mode = .u := by simpa [srcModes] using hsrc
    by_cases h4 : s.ri + 1 = 4
    · simp only [h4, ↓reduceIte] at hm'; cases hm'
    · simp only [h4, ↓reduceIte, hu] at hm'; cases hm'
  all_goals first
    | (exfalso; exact absurd hm' (by decide))
    | (exfalso; exact hw.ctl.after hm' hst')
    | (exfalso; unfold afterCommaModeL at hm'; split at hm' <;> cases hm')

/-- **The literal index is in range.** On every run from the initial state, whenever a literal is
pending its next letter is read at an index inside `"null"`, `"true"` or `"false"`. -/
theorem literal_index_in_range (p : Bytes) (s : St) (h : runBytes refTables cfg1 {} p = .ok s)
    (hm : s.mode = .null ∨ s.mode = .true_ ∨ s.mode = .false_) : s.ri + 1 < (litOf s.mode).length := by
  obtain ⟨_, hr⟩ := reach_inv p {} s WF.init RInv.init h
  rcases hm with hm | hm | hm
  · have := hr.lit3 (Or.inl hm); rw [hm]; simp only [litOf, List.length_cons, List.length_nil]
    have : s.ri ≤ 2 := this; omega
  · have := hr.lit3 (Or.inr hm); rw [hm]; simp only [litOf, List.length_cons, List.length_nil]
    have : s.ri ≤ 2 := this; omega
  · have := hr.lit4 hm; rw [hm]; simp only [litOf, List.length_cons, List.length_nil]
    have : s.ri ≤ 3 := this; omega

end OjgVerif.Json
