import OjgVerif.Common.Driver
import OjgVerif.Json.Spec
import OjgVerif.Json.Tables
import OjgVerif.Json.BufModel
import OjgVerif.Json.BufModelV
/-! Driver ops of the JSON machine family. -/
namespace OjgVerif.Json
open OjgVerif

def ErrKind.name : ErrKind → String
  | .byte => "byte" | .objClose => "objclose" | .arrClose => "arrclose" | .comma => "comma"
  | .incomplete => "incomplete" | .expTrue => "exptrue" | .expFalse => "expfalse" | .expNull => "expnull"
  | .fault w => "fault:" ++ w.replace " " "_"

def renderRun : Except Err (List JV) → String
  | .ok docs => "ok " ++ String.intercalate ";" (docs.map JV.render)
  | .error e => "err " ++ toString e.line ++ " " ++ toString e.col ++ " " ++ e.kind.name

def tablesOf (fe : String) : Option Tables :=
  if fe = "oj" then some ojTables
  else if fe = "gen" then some genTables
  else if fe = "ref" then some refTables
  else none

/-- split the input into chunks of the given lengths; the rest is the last chunk -/
def splitChunks : Bytes → List Nat → List Bytes
  | bs, [] => if bs.isEmpty then [] else [bs]
  | bs, n :: ns => if bs.isEmpty then [] else bs.take n :: splitChunks (bs.drop n) ns

def parseChunks (s : String) : Option (List Nat) :=
  if s = "-" then some []
  else (s.splitOn ",").mapM (fun t => t.toNat?)

/-- `run <tables> <single|multi> <opts> <chunk lengths> <hex input>`;
opts is a string of flags: `r` reader entry point, `f` parser integer fast loop.
`runbuf …` (same arguments): the BUFFER-LEVEL model `runB` of oj.Parser / gen.Parser (`Json/BufModel.lean`:
one `parseBuffer` call per read buffer, every fast path explicit); the chunk lengths are the sizes of
the reads the implementation actually saw. Only for the parsers (`f`).
`runbufv …` / `runbuft …`: the buffer-level models of oj.Validator (`runBV`) and oj.Tokenizer (`runBT`)
(`Json/BufModelV.lean`); only without `f`. -/
def handle : List String → String
  | ["spec", hx] =>
    match ofHex hx with
    | none => "bad-op"
    | some bs =>
      match Spec.parseDoc bs with
      | .none => "none"
      | .one v => "one " ++ v.render
      | .bad => "bad"
  | ["run", fe, md, opts, chunks, hx] =>
    match ofHex hx, tablesOf fe, parseChunks chunks with
    | some bs, some T, some ns =>
      if md ≠ "single" && md ≠ "multi" then "bad-op"
      else if opts.toList.any (fun c => c ≠ 'r' && c ≠ 'f' && c ≠ '-') then "bad-op"
      else
        let cfg : Cfg := { onlyOne := md = "single", reader := opts.contains 'r', fastInt := opts.contains 'f' }
        renderRun (run T cfg (if ns.isEmpty then [bs] else splitChunks bs ns))
    | _, _, _ => "bad-op"
  | ["runbuf", fe, md, opts, chunks, hx] =>
    match ofHex hx, tablesOf fe, parseChunks chunks with
    | some bs, some T, some ns =>
      if md ≠ "single" && md ≠ "multi" then "bad-op"
      else if opts.toList.any (fun c => c ≠ 'r' && c ≠ 'f' && c ≠ '-') then "bad-op"
      else if !opts.contains 'f' then "bad-op"
      else
        let cfg : Cfg := { onlyOne := md = "single", reader := opts.contains 'r', fastInt := true }
        renderRun (runB T cfg FP.all (if ns.isEmpty then [bs] else splitChunks bs ns))
    | _, _, _ => "bad-op"
  | ["runbufv", fe, md, opts, chunks, hx] =>
    match ofHex hx, tablesOf fe, parseChunks chunks with
    | some bs, some T, some ns =>
      if md ≠ "single" && md ≠ "multi" then "bad-op"
      else if opts.toList.any (fun c => c ≠ 'r' && c ≠ '-') then "bad-op"
      else
        let cfg : Cfg := { onlyOne := md = "single", reader := opts.contains 'r', fastInt := false }
        renderRun (runBV T cfg (if ns.isEmpty then [bs] else splitChunks bs ns))
    | _, _, _ => "bad-op"
  | ["runbuft", fe, md, opts, chunks, hx] =>
    match ofHex hx, tablesOf fe, parseChunks chunks with
    | some bs, some T, some ns =>
      if md ≠ "single" && md ≠ "multi" then "bad-op"
      else if opts.toList.any (fun c => c ≠ 'r' && c ≠ '-') then "bad-op"
      else
        let cfg : Cfg := { onlyOne := md = "single", reader := opts.contains 'r', fastInt := false }
        renderRun (runBT T cfg (if ns.isEmpty then [bs] else splitChunks bs ns))
    | _, _, _ => "bad-op"
  | _ => "bad-op"

end OjgVerif.Json
