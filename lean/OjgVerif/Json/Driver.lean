import OjgVerif.Common.Driver
import OjgVerif.Json.Spec
import OjgVerif.Json.Tables
/-! Driver ops of the JSON machine family. -/
namespace OjgVerif.Json
open OjgVerif

def ErrKind.name : ErrKind → String
  | .byte => "byte" | .objClose => "objclose" | .arrClose => "arrclose" | .comma => "comma"
  | .incomplete => "incomplete" | .expTrue => "exptrue" | .expFalse => "expfalse" | .expNull => "expnull"
  | .fault w => "fault:" ++ w.replace " " "_"

def renderRun : Except Err (List JV) → String
  | .ok docs => "ok " ++ String.intercalate ";" (docs.map JV.render)
  | .error e => "err " ++ toString e.line ++ " " ++ toString e.col ++ " " ++ e.kind.name

def tablesOf (fe : String) : Option (Tables × Bool) :=
  if fe = "oj" then some (ojTables, false)
  else if fe = "gen" then some (genTables, true)
  else if fe = "ref" then some (refTables, false)
  else none

def handle : List String → String
  | ["spec", hx] =>
    match ofHex hx with
    | none => "bad-op"
    | some bs =>
      match Spec.parseDoc bs with
      | .none => "none"
      | .one v => "one " ++ v.render
      | .bad => "bad"
  | ["run", fe, md, hx] =>
    match ofHex hx, tablesOf fe with
    | some bs, some (T, g) =>
      if md = "single" then renderRun (run T { onlyOne := true, genNode := g } bs)
      else if md = "multi" then renderRun (run T { onlyOne := false, genNode := g } bs)
      else "bad-op"
    | _, _ => "bad-op"
  | _ => "bad-op"

end OjgVerif.Json
