import OjgVerif.Json.Number
import OjgVerif.Gen.GenPkg
/-! The threshold of the hand-written number model is the one in gen/number.go
(`const BigLimit = math.MaxInt64 / 10`, regenerated into `Gen/GenPkg.lean` on every run). -/
namespace OjgVerif.Json

theorem bigLimit_is_source : (BigLimit.toNat : Int) = Gen.GenPkg.BigLimit_int := by decide

theorem maxInt64_is_math : MaxInt64.toNat = 2 ^ 63 - 1 := by decide

end OjgVerif.Json
