import OjgVerif.Json.NumValue
import OjgVerif.Json.NumConv
/-! # The accumulator of `gen/number.go` tracks the literal exactly

`Tracks n p`: after the bytes of the (possibly unfinished) literal `p` the accumulator `n` either holds `p`
exactly in its integer fields (`Exact`: nothing has wrapped, the integer part fits int64), or it is
in text form and its text is a decimal text with the same sign, the same integer value, fraction
digits of the same number and value, and the same exponent as `p` (`TextB`/`Sim`). Every accumulator
operation (`AddDigit`, `AddFrac`, `AddExp`, and the bytes `.`, `e`/`E`, `+`/`-` passed through in text
form) preserves `Tracks`; `FillBig` writes a text that is `Sim` to what the fields hold. -/
namespace OjgVerif.Json
open OjgVerif

/-! ## `strconv.FormatUint`: digits only; `10^k + m` is written as `1` followed by the `k` digits of `m` -/

theorem isDigit_ofNat (r : Nat) (h : r < 10) : Spec.isDigit (UInt8.ofNat (48 + r)) = true := by
  have key : ∀ i : Fin 10, Spec.isDigit (UInt8.ofNat (48 + i.val)) = true := by decide
  exact key ⟨r, h⟩

theorem fmtNatAux_dig (fuel n : Nat) (acc : Bytes) (h : Dig acc) : Dig (fmtNatAux fuel n acc) := by
  induction fuel generalizing n acc with
  | zero => exact h
  | succ f ih =>
    unfold fmtNatAux
    split
    · rename_i hlt; exact Dig.cons (isDigit_ofNat n hlt) h
    · exact ih _ _ (Dig.cons (isDigit_ofNat (n % 10) (Nat.mod_lt _ (by omega))) h)

theorem fmtNat_dig (n : Nat) : Dig (fmtNat n) := fmtNatAux_dig _ _ _ Dig.nil

theorem isDigitB_of_dig {ds : Bytes} (h : Dig ds) : ∀ d ∈ ds, isDigitB d :=
  fun d hd => isDigitB_of_isDigit d (h d hd)

theorem fmtNatAux_pow (k : Nat) : ∀ (fuel m : Nat) (acc : Bytes), m < 10 ^ k → k + 1 ≤ fuel →
    ∃ t, fmtNatAux fuel (10 ^ k + m) acc = 49 :: (t ++ acc) ∧ t.length = k ∧ natOf t = m ∧ Dig t := by
  induction k with
  | zero =>
    intro fuel m acc hm hf
    have hm0 : m = 0 := by simpa using hm
    subst hm0
    obtain ⟨f, rfl⟩ : ∃ f, fuel = f + 1 := ⟨fuel - 1, by omega⟩
    refine ⟨[], ?_, rfl, rfl, Dig.nil⟩
    simp [fmtNatAux]
  | succ k ih =>
    intro fuel m acc hm hf
    obtain ⟨f, rfl⟩ : ∃ f, fuel = f + 1 := ⟨fuel - 1, by omega⟩
    have hp : 10 ^ (k + 1) = 10 * 10 ^ k := by rw [Nat.pow_succ, Nat.mul_comm]
    have hpos : 0 < 10 ^ k := Nat.pow_pos (by omega)
    have hge : ¬ (10 ^ (k + 1) + m < 10) := by omega
    have hdiv : (10 ^ (k + 1) + m) / 10 = 10 ^ k + m / 10 := by omega
    have hmod : (10 ^ (k + 1) + m) % 10 = m % 10 := by omega
    obtain ⟨t, ht, hlen, hnat, hdig⟩ := ih f (m / 10) (UInt8.ofNat (48 + m % 10) :: acc) (by omega) (by omega)
    refine ⟨t ++ [UInt8.ofNat (48 + m % 10)], ?_, by simp [hlen], ?_, ?_⟩
    · unfold fmtNatAux
      rw [if_neg hge, hdiv, hmod, ht]
      simp
    · rw [natOf_snoc, hnat, dval_ofNat _ (by omega)]; omega
    · exact hdig.snoc (isDigit_ofNat _ (Nat.mod_lt _ (by omega)))

/-- `FormatUint(10^k + m)` for `m < 10^k` is `'1'` followed by exactly `k` digits whose value is `m`
(this is how `FillBig` keeps the leading zeros of the fraction) -/
theorem fmtNat_pow_add (k m : Nat) (hm : m < 10 ^ k) :
    ∃ t, fmtNat (10 ^ k + m) = 49 :: t ∧ t.length = k ∧ natOf t = m ∧ Dig t := by
  have hk : k < 10 ^ k := Nat.lt_pow_self (by omega)
  obtain ⟨t, ht, h2, h3, h4⟩ := fmtNatAux_pow k (10 ^ k + m + 1) m [] hm (by omega)
  exact ⟨t, by unfold fmtNat; rw [ht, List.append_nil], h2, h3, h4⟩

/-! ## What `FillBig` writes -/

def fracDigits (n : Num) : Bytes := (fmtNat (n.frac + n.div).toNat).tail

/-- the text `FillBig` writes, cut into parts -/
def fillParts (n : Num) : Parts :=
  { neg := n.neg
    ip := fmtNat n.i.toNat
    fo := if 1 < n.div then some (fracDigits n) else none
    eo := if 0 < n.exp then some ⟨101, if n.negExp then [45] else [], fmtNat n.exp.toNat⟩ else none }

theorem fillBig_render (n : Num) (hbig : n.big = []) (hfr : n.frac.toNat < 1000000000000000000) :
    n.fillBig.big = render (fillParts n) := by
  have hnot : ¬ ((1000000000000000000 : UInt64) ≤ n.frac) := by
    rw [UInt64.le_iff_toNat_le]
    have : (1000000000000000000 : UInt64).toNat = 1000000000000000000 := rfl
    omega
  unfold Num.fillBig fillParts render
  simp only [hbig, hnot, ↓reduceIte, List.nil_append]
  cases n.neg <;> by_cases hd : 1 < n.div <;> by_cases he : 0 < n.exp <;> cases n.negExp <;>
    simp [hd, he, sgnTxt, fracTxt, expTxt, fracDigits]

theorem fillBig_fields (n : Num) : n.fillBig = { n with big := n.fillBig.big } := by
  unfold Num.fillBig; rfl

/-! ## The tracking invariant -/

/-- the integer fields hold the parts exactly (`uint64` values read as naturals: nothing has wrapped) -/
def Held (n : Num) (p : Parts) : Prop :=
  n.neg = p.neg ∧ n.i.toNat = natOf p.ip ∧ n.frac.toNat = fracNat p.fo ∧ n.div.toNat = 10 ^ fracLen p.fo ∧
  fracLen p.fo ≤ 18 ∧ n.exp.toNat = expNat p.eo ∧ n.negExp = expNeg p.eo

/-- not in text form, fields exact, integer part within int64 -/
def Exact (n : Num) (p : Parts) : Prop :=
  n.big = [] ∧ Held n p ∧ natOf p.ip ≤ 9223372036854775807

/-- fraction digits of the text against those of the literal: same count, same value -/
def FSim : Option Bytes → Option Bytes → Prop
  | none, none => True
  | some fs, some fs' => Dig fs' ∧ fs'.length = fs.length ∧ natOf fs' = natOf fs
  | _, _ => False

/-- exponent part of the text against that of the literal: same sign, same value; as long as no
exponent digit has been read the text is the literal's own bytes -/
def ESim : Option ExpPart → Option ExpPart → Prop
  | none, none => True
  | some x, some x' =>
    (x'.e = 101 ∨ x'.e = 69) ∧ (x'.sg = [] ∨ x'.sg = [43] ∨ x'.sg = [45]) ∧ Dig x'.es ∧
    (x'.sg = [45] ↔ x.sg = [45]) ∧ natOf x'.es = natOf x.es ∧ (x.es = [] → x' = x) ∧ (x.es ≠ [] → x'.es ≠ [])
  | _, _ => False

theorem FSim_some (fs fs' : Bytes) :
    FSim (some fs) (some fs') = (Dig fs' ∧ fs'.length = fs.length ∧ natOf fs' = natOf fs) := rfl

theorem ESim_some (x x' : ExpPart) : ESim (some x) (some x') =
    ((x'.e = 101 ∨ x'.e = 69) ∧ (x'.sg = [] ∨ x'.sg = [43] ∨ x'.sg = [45]) ∧ Dig x'.es ∧
    (x'.sg = [45] ↔ x.sg = [45]) ∧ natOf x'.es = natOf x.es ∧ (x.es = [] → x' = x) ∧ (x.es ≠ [] → x'.es ≠ [])) := rfl

/-- the parts `p'` of a text against the parts `p` of the literal read so far -/
def Sim (p p' : Parts) : Prop :=
  p'.neg = p.neg ∧ Dig p'.ip ∧ p'.ip ≠ [] ∧ natOf p'.ip = natOf p.ip ∧ FSim p.fo p'.fo ∧ ESim p.eo p'.eo

/-- `t` is a decimal text that agrees with the literal read so far -/
def TextB (t : Bytes) (p : Parts) : Prop := ∃ p', t = render p' ∧ Sim p p'

/-- **the invariant** -/
def Tracks (n : Num) (p : Parts) : Prop := Exact n p ∨ (n.big ≠ [] ∧ TextB n.big p)

theorem render_ne_nil (p : Parts) (h : p.ip ≠ []) : render p ≠ [] := by
  unfold render
  cases hip : p.ip with
  | nil => exact absurd hip h
  | cons d r => cases p.neg <;> simp [sgnTxt]

theorem textB_ne_nil {t : Bytes} {p : Parts} (h : TextB t p) : t ≠ [] := by
  obtain ⟨p', rfl, hs⟩ := h
  exact render_ne_nil p' hs.2.2.1

theorem tracks_of_text {n : Num} {p : Parts} (h : TextB n.big p) : Tracks n p := Or.inr ⟨textB_ne_nil h, h⟩

/-- a text that agrees with a complete literal is a well-formed decimal text of the same value -/
theorem sim_pval {p p' : Parts} (hs : Sim p p') (hw : p.WF) : p'.WF ∧ pval p' = pval p := by
  obtain ⟨hneg, hdig, hne, hnat, hf, he⟩ := hs
  obtain ⟨_, _, hwf, hwe⟩ := hw
  obtain ⟨s, ip, fo, eo⟩ := p
  obtain ⟨s', ip', fo', eo'⟩ := p'
  simp only at hneg hdig hne hnat hf he hwf hwe
  subst hneg
  have hfrac : (∀ fs, fo' = some fs → Dig fs ∧ fs ≠ []) ∧ fracLen fo' = fracLen fo ∧ fracNat fo' = fracNat fo := by
    cases fo with
    | none => cases fo' with
      | none => exact ⟨(fun _ h => nomatch h), rfl, rfl⟩
      | some _ => exact absurd hf (by simp [FSim])
    | some fs => cases fo' with
      | none => exact absurd hf (by simp [FSim])
      | some fs' =>
        obtain ⟨h1, h2, h3⟩ := hf
        refine ⟨fun x hx => ?_, h2, h3⟩
        cases hx
        refine ⟨h1, fun h0 => ?_⟩
        rw [h0] at h2
        exact (hwf fs rfl).2 (List.length_eq_zero_iff.mp h2.symm)
  have hexp : (∀ x, eo' = some x → x.WF) ∧ expNeg eo' = expNeg eo ∧ expNat eo' = expNat eo := by
    cases eo with
    | none => cases eo' with
      | none => exact ⟨(fun _ h => nomatch h), rfl, rfl⟩
      | some _ => exact absurd he (by simp [ESim])
    | some x => cases eo' with
      | none => exact absurd he (by simp [ESim])
      | some x' =>
        obtain ⟨h1, h2, h3, h4, h5, _, h7⟩ := he
        refine ⟨fun y hy => ?_, ?_, h5⟩
        · cases hy
          exact ⟨h1, h2, h3, h7 (hwe x rfl).2.2.2⟩
        · simp only [expNeg]
          exact decide_eq_decide.mpr h4
  refine ⟨⟨hdig, hne, hfrac.1, hexp.1⟩, ?_⟩
  simp only [pval, mantNat, expVal, hnat, hfrac.2.1, hfrac.2.2, hexp.2.1, hexp.2.2]

/-! ## `FillBig` from exact fields gives an agreeing text -/

theorem pow10_18 : (10 : Nat) ^ 18 = 1000000000000000000 := by decide

theorem held_frac_lt {n : Num} {p : Parts} (hc : Held n p) (hfd : ∀ fs, p.fo = some fs → Dig fs) :
    n.frac.toNat < 10 ^ fracLen p.fo := by
  obtain ⟨_, _, h3, _, _, _, _⟩ := hc
  rw [h3]
  cases hfo : p.fo with
  | none => simp [fracNat, fracLen]
  | some fs => exact natOf_lt_pow fs (isDigitB_of_dig (hfd fs hfo))

theorem held_frac_lt18 {n : Num} {p : Parts} (hc : Held n p) (hfd : ∀ fs, p.fo = some fs → Dig fs) :
    n.frac.toNat < 1000000000000000000 := by
  have h1 := held_frac_lt hc hfd
  have h2 : 10 ^ fracLen p.fo ≤ 10 ^ 18 := Nat.pow_le_pow_right (by omega) hc.2.2.2.2.1
  rw [pow10_18] at h2
  omega

/-- the parts `FillBig` writes agree with the parts the fields hold, provided a fraction that has been
started has a digit and an exponent that has been started is positive (the only states in which
`FillBig` is called on the way) -/
theorem held_sim {n : Num} {p : Parts} (hc : Held n p)
    (hfo : ∀ fs, p.fo = some fs → Dig fs ∧ fs ≠ []) (heo : ∀ x, p.eo = some x → 0 < natOf x.es) :
    Sim p (fillParts n) := by
  have hfl := held_frac_lt hc (fun fs h => (hfo fs h).1)
  obtain ⟨h1, h2, h3, h4, h5, h6, h7⟩ := hc
  refine ⟨h1, fmtNat_dig _, fmtNat_ne_nil _, by simp only [fillParts, natOf_fmtNat, h2], ?_, ?_⟩
  · -- fraction
    simp only [fillParts]
    cases hfo' : p.fo with
    | none =>
      rw [hfo'] at h4
      have : ¬ (1 < n.div) := by
        rw [UInt64.lt_iff_toNat_lt, h4]; simp [fracLen]
      simp [this, FSim]
    | some fs =>
      rw [hfo'] at h3 h4 h5 hfl
      simp only [fracLen, fracNat] at h3 h4 h5 hfl
      obtain ⟨hdig, hne⟩ := hfo fs hfo'
      have hlen : 1 ≤ fs.length := by
        cases fs with
        | nil => exact absurd rfl hne
        | cons _ _ => simp
      have h10 : 10 ^ 1 ≤ 10 ^ fs.length := Nat.pow_le_pow_right (by omega) hlen
      have h18 : 10 ^ fs.length ≤ 10 ^ 18 := Nat.pow_le_pow_right (by omega) h5
      rw [pow10_18] at h18
      have hdiv : 1 < n.div := by
        rw [UInt64.lt_iff_toNat_lt, h4]
        have : (1 : UInt64).toNat = 1 := rfl
        omega
      have hsum : (n.frac + n.div).toNat = 10 ^ fs.length + natOf fs := by
        rw [UInt64.toNat_add, h3, h4]; omega
      obtain ⟨t, ht, hl, hn, hd⟩ := fmtNat_pow_add fs.length (natOf fs) (by rw [← h3]; exact hfl)
      simp only [hdiv, ↓reduceIte, fracDigits, hsum, ht, List.tail_cons]
      rw [FSim_some]
      exact ⟨hd, hl, hn⟩
  · -- exponent
    simp only [fillParts]
    cases heo' : p.eo with
    | none =>
      rw [heo'] at h6
      have : ¬ (0 < n.exp) := by
        rw [UInt64.lt_iff_toNat_lt, h6]; simp [expNat]
      simp [this, ESim]
    | some x =>
      rw [heo'] at h6 h7
      simp only [expNat, expNeg] at h6 h7
      have hpos := heo x heo'
      have hexp : 0 < n.exp := by
        rw [UInt64.lt_iff_toNat_lt, h6]; exact hpos
      have hne : x.es ≠ [] := by
        intro h0; rw [h0] at hpos; simp [natOf] at hpos
      simp only [hexp, ↓reduceIte]
      rw [ESim_some]
      refine ⟨Or.inl rfl, ?_, fmtNat_dig _, ?_, by rw [natOf_fmtNat, h6], fun h0 => absurd h0 hne,
        fun _ => fmtNat_ne_nil _⟩
      · cases n.negExp <;> simp
      · rw [h7]
        by_cases hs : x.sg = [45] <;> simp [hs]

/-- `FillBig` on exact fields produces an agreeing text -/
theorem held_fill {n : Num} {p : Parts} (hbig : n.big = []) (hc : Held n p)
    (hfo : ∀ fs, p.fo = some fs → Dig fs ∧ fs ≠ []) (heo : ∀ x, p.eo = some x → 0 < natOf x.es) :
    TextB n.fillBig.big p :=
  ⟨fillParts n, fillBig_render n hbig (held_frac_lt18 hc (fun fs h => (hfo fs h).1)), held_sim hc hfo heo⟩

/-! ## Bytes appended in text form keep the text agreeing -/

theorem textB_digit {t : Bytes} {s : Bool} {ip : Bytes} {b : UInt8} (hb : Spec.isDigit b = true)
    (h : TextB t ⟨s, ip, none, none⟩) : TextB (t ++ [b]) ⟨s, ip ++ [b], none, none⟩ := by
  obtain ⟨⟨s', ip', fo', eo'⟩, rfl, hneg, hdig, hne, hnat, hf, he⟩ := h
  simp only at hneg hdig hne hnat hf he
  cases fo' with
  | some _ => exact absurd hf (by simp [FSim])
  | none =>
    cases eo' with
    | some _ => exact absurd he (by simp [ESim])
    | none =>
      refine ⟨⟨s', ip' ++ [b], none, none⟩, ?_, hneg, hdig.snoc hb, by simp, ?_, hf, he⟩
      · simp [render, fracTxt, expTxt]
      · simp only [natOf_snoc, hnat]

theorem textB_dot {t : Bytes} {s : Bool} {ip : Bytes}
    (h : TextB t ⟨s, ip, none, none⟩) : TextB (t ++ [46]) ⟨s, ip, some [], none⟩ := by
  obtain ⟨⟨s', ip', fo', eo'⟩, rfl, hneg, hdig, hne, hnat, hf, he⟩ := h
  simp only at hneg hdig hne hnat hf he
  cases fo' with
  | some _ => exact absurd hf (by simp [FSim])
  | none =>
    cases eo' with
    | some _ => exact absurd he (by simp [ESim])
    | none =>
      refine ⟨⟨s', ip', some [], none⟩, ?_, hneg, hdig, hne, hnat, ?_, he⟩
      · simp [render, fracTxt, expTxt]
      · rw [FSim_some]; exact ⟨Dig.nil, rfl, rfl⟩

theorem textB_frac {t : Bytes} {s : Bool} {ip fs : Bytes} {b : UInt8} (hb : Spec.isDigit b = true)
    (h : TextB t ⟨s, ip, some fs, none⟩) : TextB (t ++ [b]) ⟨s, ip, some (fs ++ [b]), none⟩ := by
  obtain ⟨⟨s', ip', fo', eo'⟩, rfl, hneg, hdig, hne, hnat, hf, he⟩ := h
  simp only at hneg hdig hne hnat hf he
  cases fo' with
  | none => exact absurd hf (by simp [FSim])
  | some fs' =>
    cases eo' with
    | some _ => exact absurd he (by simp [ESim])
    | none =>
      rw [FSim_some] at hf
      refine ⟨⟨s', ip', some (fs' ++ [b]), none⟩, ?_, hneg, hdig, hne, hnat, ?_, he⟩
      · simp [render, fracTxt, expTxt]
      · rw [FSim_some]
        exact ⟨hf.1.snoc hb, by simp [hf.2.1], by simp only [natOf_snoc, hf.2.2]⟩

theorem textB_e {t : Bytes} {s : Bool} {ip : Bytes} {fo : Option Bytes} {e : UInt8} (he' : e = 101 ∨ e = 69)
    (h : TextB t ⟨s, ip, fo, none⟩) : TextB (t ++ [e]) ⟨s, ip, fo, some ⟨e, [], []⟩⟩ := by
  obtain ⟨⟨s', ip', fo', eo'⟩, rfl, hneg, hdig, hne, hnat, hf, he⟩ := h
  simp only at hneg hdig hne hnat hf he
  cases eo' with
  | some _ => exact absurd he (by simp [ESim])
  | none =>
    refine ⟨⟨s', ip', fo', some ⟨e, [], []⟩⟩, ?_, hneg, hdig, hne, hnat, hf, ?_⟩
    · simp [render, expTxt]
    · rw [ESim_some]
      exact ⟨he', Or.inl rfl, Dig.nil, Iff.rfl, rfl, fun _ => rfl, fun h => absurd rfl h⟩

theorem textB_sign {t : Bytes} {s : Bool} {ip : Bytes} {fo : Option Bytes} {e c : UInt8} (hc : c = 43 ∨ c = 45)
    (h : TextB t ⟨s, ip, fo, some ⟨e, [], []⟩⟩) : TextB (t ++ [c]) ⟨s, ip, fo, some ⟨e, [c], []⟩⟩ := by
  obtain ⟨⟨s', ip', fo', eo'⟩, rfl, hneg, hdig, hne, hnat, hf, he⟩ := h
  simp only at hneg hdig hne hnat hf he
  cases eo' with
  | none => exact absurd he (by simp [ESim])
  | some x' =>
    rw [ESim_some] at he
    obtain ⟨h1, _, _, _, _, h6, _⟩ := he
    have hx : x' = ⟨e, [], []⟩ := h6 rfl
    subst hx
    refine ⟨⟨s', ip', fo', some ⟨e, [c], []⟩⟩, ?_, hneg, hdig, hne, hnat, hf, ?_⟩
    · simp [render, expTxt]
    · rw [ESim_some]
      refine ⟨h1, ?_, Dig.nil, Iff.rfl, rfl, fun _ => rfl, fun h => absurd rfl h⟩
      rcases hc with h | h <;> simp [h]

theorem textB_exp {t : Bytes} {s : Bool} {ip : Bytes} {fo : Option Bytes} {e : UInt8} {sg es : Bytes} {b : UInt8}
    (hb : Spec.isDigit b = true) (h : TextB t ⟨s, ip, fo, some ⟨e, sg, es⟩⟩) :
    TextB (t ++ [b]) ⟨s, ip, fo, some ⟨e, sg, es ++ [b]⟩⟩ := by
  obtain ⟨⟨s', ip', fo', eo'⟩, rfl, hneg, hdig, hne, hnat, hf, he⟩ := h
  simp only at hneg hdig hne hnat hf he
  cases eo' with
  | none => exact absurd he (by simp [ESim])
  | some x' =>
    rw [ESim_some] at he
    obtain ⟨h1, h2, h3, h4, h5, _, _⟩ := he
    refine ⟨⟨s', ip', fo', some ⟨x'.e, x'.sg, x'.es ++ [b]⟩⟩, ?_, hneg, hdig, hne, hnat, hf, ?_⟩
    · simp [render, expTxt]
    · rw [ESim_some]
      exact ⟨h1, h2, h3.snoc hb, h4, by simp only [natOf_snoc, h5], fun h => absurd h (by simp), fun _ => by simp⟩

/-! ## The accumulator operations preserve `Tracks` -/

theorem big_len_pos {n : Num} (h : n.big ≠ []) : 0 < n.big.length := List.length_pos_iff.mpr h

theorem big_len_zero {n : Num} (h : n.big = []) : ¬ (0 < n.big.length) := by rw [h]; simp

theorem dval_le9 (b : UInt8) (hb : Spec.isDigit b = true) : dval b ≤ 9 := by
  have := (isDigitB_of_isDigit b hb).2; unfold dval; omega

/-- `AddDigit` -/
theorem tracks_addDigit (n : Num) (s : Bool) (ip : Bytes) (b : UInt8) (hb : Spec.isDigit b = true)
    (h : Tracks n ⟨s, ip, none, none⟩) : Tracks (n.addDigit b) ⟨s, ip ++ [b], none, none⟩ := by
  have hbB := isDigitB_of_isDigit b hb
  have hd9 := dval_le9 b hb
  rcases h with ⟨hbig, hcore, hfit⟩ | ⟨hne, htxt⟩
  · unfold Num.addDigit
    simp only [big_len_zero hbig, ↓reduceIte]
    obtain ⟨c1, c2, c3, c4, c5, c6, c7⟩ := hcore
    simp only at c1 c2 c3 c4 c5 c6 c7
    by_cases hle : n.i ≤ BigLimit
    · simp only [hle, ↓reduceIte]
      have hle' : n.i.toNat ≤ 922337203685477580 := by rw [UInt64.le_iff_toNat_le] at hle; exact hle
      have hval : (n.i * 10 + (b - 48).toUInt64).toNat = natOf (ip ++ [b]) := by
        simp only [UInt64.toNat_add, UInt64.toNat_mul, digit_toUInt64 b hbB, natOf_snoc]
        have : (10 : UInt64).toNat = 10 := rfl
        rw [this, ← c2]
        omega
      have hcore' : Held { n with i := n.i * 10 + (b - 48).toUInt64 } ⟨s, ip ++ [b], none, none⟩ :=
        ⟨c1, hval, c3, c4, c5, c6, c7⟩
      by_cases hmax : MaxInt64 < n.i * 10 + (b - 48).toUInt64
      · simp only [hmax, ↓reduceIte]
        exact tracks_of_text (held_fill hbig hcore' (fun _ h => nomatch h) (fun _ h => nomatch h))
      · simp only [hmax, ↓reduceIte]
        refine Or.inl ⟨hbig, hcore', ?_⟩
        rw [UInt64.lt_iff_toNat_lt, hval] at hmax
        have hm : MaxInt64.toNat = 9223372036854775807 := rfl
        simp only
        omega
    · simp only [hle, ↓reduceIte]
      have ht : TextB n.fillBig.big ⟨s, ip, none, none⟩ :=
        held_fill hbig ⟨c1, c2, c3, c4, c5, c6, c7⟩ (fun _ h => nomatch h) (fun _ h => nomatch h)
      exact tracks_of_text (textB_digit hb ht)
  · unfold Num.addDigit
    simp only [big_len_pos hne, ↓reduceIte]
    exact tracks_of_text (textB_digit hb htxt)

/-- `AddFrac` -/
theorem tracks_addFrac (n : Num) (s : Bool) (ip fs : Bytes) (b : UInt8) (hb : Spec.isDigit b = true)
    (hfs : Dig fs) (h : Tracks n ⟨s, ip, some fs, none⟩) : Tracks (n.addFrac b) ⟨s, ip, some (fs ++ [b]), none⟩ := by
  have hbB := isDigitB_of_isDigit b hb
  have hd9 := dval_le9 b hb
  rcases h with ⟨hbig, hcore, hfit⟩ | ⟨hne, htxt⟩
  · unfold Num.addFrac
    simp only [big_len_zero hbig, ↓reduceIte]
    have hcore0 := hcore
    obtain ⟨c1, c2, c3, c4, c5, c6, c7⟩ := hcore
    simp only [fracNat, fracLen] at c1 c2 c3 c4 c5 c6 c7
    have hflt := natOf_lt_pow fs (isDigitB_of_dig hfs)
    by_cases hc : (decide (n.frac ≤ BigLimit) && decide (n.div ≤ BigLimit)) = true
    · simp only [hc, ↓reduceIte]
      simp only [Bool.and_eq_true, decide_eq_true_eq] at hc
      have hdle : n.div.toNat ≤ 922337203685477580 := by
        have := hc.2; rw [UInt64.le_iff_toNat_le] at this; exact this
      have hk17 : fs.length ≤ 17 := pow10_le_bigLimit _ (c4 ▸ hdle)
      have hfrac : (n.frac * 10 + (b - 48).toUInt64).toNat = natOf (fs ++ [b]) := by
        simp only [UInt64.toNat_add, UInt64.toNat_mul, digit_toUInt64 b hbB, natOf_snoc]
        have : (10 : UInt64).toNat = 10 := rfl
        rw [this, c3]
        omega
      have hdiv : (n.div * 10).toNat = 10 ^ (fs ++ [b]).length := by
        simp only [UInt64.toNat_mul, List.length_append, List.length_singleton, Nat.pow_succ]
        have : (10 : UInt64).toNat = 10 := rfl
        rw [this, c4]
        omega
      have hcore' : Held { n with frac := n.frac * 10 + (b - 48).toUInt64, div := n.div * 10 }
          ⟨s, ip, some (fs ++ [b]), none⟩ :=
        ⟨c1, c2, hfrac, hdiv, by simp only [fracLen, List.length_append, List.length_singleton]; omega, c6, c7⟩
      by_cases hmax : MaxInt64 < n.frac * 10 + (b - 48).toUInt64
      · -- cannot happen (at most 18 fraction digits are held), but the text would agree anyway
        simp only [hmax, ↓reduceIte]
        exact tracks_of_text (held_fill hbig hcore'
          (fun x hx => by cases hx; exact ⟨hfs.snoc hb, by simp⟩) (fun _ h => nomatch h))
      · simp only [hmax, ↓reduceIte]
        exact Or.inl ⟨hbig, hcore', hfit⟩
    · simp only [hc]
      have hne : fs ≠ [] := by
        intro h0
        subst h0
        apply hc
        simp only [natOf, List.foldl_nil, List.length_nil, Nat.pow_zero] at c3 c4
        simp only [Bool.and_eq_true, decide_eq_true_eq, UInt64.le_iff_toNat_le, c3, c4]
        have : BigLimit.toNat = 922337203685477580 := rfl
        omega
      have ht : TextB n.fillBig.big ⟨s, ip, some fs, none⟩ :=
        held_fill hbig hcore0 (fun x hx => by cases hx; exact ⟨hfs, hne⟩) (fun _ h => nomatch h)
      exact tracks_of_text (textB_frac hb ht)
  · unfold Num.addFrac
    simp only [big_len_pos hne, ↓reduceIte]
    exact tracks_of_text (textB_frac hb htxt)

/-- `AddExp` -/
theorem tracks_addExp (n : Num) (s : Bool) (ip : Bytes) (fo : Option Bytes) (e : UInt8) (sg es : Bytes) (b : UInt8)
    (hb : Spec.isDigit b = true) (hfo : ∀ fs, fo = some fs → Dig fs ∧ fs ≠ [])
    (h : Tracks n ⟨s, ip, fo, some ⟨e, sg, es⟩⟩) : Tracks (n.addExp b) ⟨s, ip, fo, some ⟨e, sg, es ++ [b]⟩⟩ := by
  have hbB := isDigitB_of_isDigit b hb
  have hd9 := dval_le9 b hb
  rcases h with ⟨hbig, hcore, hfit⟩ | ⟨hne, htxt⟩
  · unfold Num.addExp
    simp only [big_len_zero hbig, ↓reduceIte]
    have hcore0 := hcore
    obtain ⟨c1, c2, c3, c4, c5, c6, c7⟩ := hcore
    simp only [expNat, expNeg] at c1 c2 c3 c4 c5 c6 c7
    by_cases hc : n.exp ≤ 102
    · simp only [hc, ↓reduceIte]
      have hle : n.exp.toNat ≤ 102 := by rw [UInt64.le_iff_toNat_le] at hc; exact hc
      have hexp : (n.exp * 10 + (b - 48).toUInt64).toNat = natOf (es ++ [b]) := by
        simp only [UInt64.toNat_add, UInt64.toNat_mul, digit_toUInt64 b hbB, natOf_snoc]
        have : (10 : UInt64).toNat = 10 := rfl
        rw [this, ← c6]
        omega
      have hcore' : Held { n with exp := n.exp * 10 + (b - 48).toUInt64 } ⟨s, ip, fo, some ⟨e, sg, es ++ [b]⟩⟩ :=
        ⟨c1, c2, c3, c4, c5, hexp, c7⟩
      by_cases hmax : (1022 : UInt64) < n.exp * 10 + (b - 48).toUInt64
      · simp only [hmax, ↓reduceIte]
        refine tracks_of_text (held_fill hbig hcore' hfo (fun x hx => ?_))
        cases hx
        rw [UInt64.lt_iff_toNat_lt, hexp] at hmax
        have : (1022 : UInt64).toNat = 1022 := rfl
        simp only
        omega
      · simp only [hmax, ↓reduceIte]
        exact Or.inl ⟨hbig, hcore', hfit⟩
    · simp only [hc, ↓reduceIte]
      have hgt : 102 < n.exp.toNat := by
        rw [UInt64.le_iff_toNat_le] at hc
        have : (102 : UInt64).toNat = 102 := rfl
        omega
      have ht : TextB n.fillBig.big ⟨s, ip, fo, some ⟨e, sg, es⟩⟩ :=
        held_fill hbig hcore0 hfo (fun x hx => by cases hx; simp only; omega)
      exact tracks_of_text (textB_exp hb ht)
  · unfold Num.addExp
    simp only [big_len_pos hne, ↓reduceIte]
    exact tracks_of_text (textB_exp hb htxt)

/-- what the machine does with `.` and `e`/`E`: appended when in text form, otherwise nothing -/
def passThru (n : Num) (b : UInt8) : Num := if 0 < n.big.length then { n with big := n.big ++ [b] } else n

/-- what the machine does with the sign of the exponent -/
def signStep (n : Num) (b : UInt8) : Num :=
  { n with big := if 0 < n.big.length then n.big ++ [b] else n.big, negExp := n.negExp || b = 45 }

theorem tracks_dot (n : Num) (s : Bool) (ip : Bytes) (h : Tracks n ⟨s, ip, none, none⟩) :
    Tracks (passThru n 46) ⟨s, ip, some [], none⟩ := by
  rcases h with ⟨hbig, hcore, hfit⟩ | ⟨hne, htxt⟩
  · unfold passThru
    simp only [big_len_zero hbig, ↓reduceIte]
    exact Or.inl ⟨hbig, hcore, hfit⟩
  · unfold passThru
    simp only [big_len_pos hne, ↓reduceIte]
    exact tracks_of_text (textB_dot htxt)

theorem tracks_e (n : Num) (s : Bool) (ip : Bytes) (fo : Option Bytes) (e : UInt8) (he : e = 101 ∨ e = 69)
    (h : Tracks n ⟨s, ip, fo, none⟩) : Tracks (passThru n e) ⟨s, ip, fo, some ⟨e, [], []⟩⟩ := by
  rcases h with ⟨hbig, hcore, hfit⟩ | ⟨hne, htxt⟩
  · unfold passThru
    simp only [big_len_zero hbig, ↓reduceIte]
    exact Or.inl ⟨hbig, hcore, hfit⟩
  · unfold passThru
    simp only [big_len_pos hne, ↓reduceIte]
    exact tracks_of_text (textB_e he htxt)

theorem tracks_sign (n : Num) (s : Bool) (ip : Bytes) (fo : Option Bytes) (e c : UInt8) (hc : c = 43 ∨ c = 45)
    (h : Tracks n ⟨s, ip, fo, some ⟨e, [], []⟩⟩) : Tracks (signStep n c) ⟨s, ip, fo, some ⟨e, [c], []⟩⟩ := by
  rcases h with ⟨hbig, hcore, hfit⟩ | ⟨hne, htxt⟩
  · unfold signStep
    simp only [big_len_zero hbig, ↓reduceIte]
    obtain ⟨c1, c2, c3, c4, c5, c6, c7⟩ := hcore
    refine Or.inl ⟨hbig, ⟨c1, c2, c3, c4, c5, c6, ?_⟩, hfit⟩
    simp only [expNeg] at c7 ⊢
    rw [c7]
    rcases hc with h | h <;> subst h <;> simp
  · unfold signStep
    simp only [big_len_pos hne, ↓reduceIte]
    exact tracks_of_text (textB_sign hc htxt)

/-! ## Digit runs -/

theorem tracks_foldl_addDigit (ds : Bytes) (hds : Dig ds) : ∀ (n : Num) (s : Bool) (ip : Bytes),
    Tracks n ⟨s, ip, none, none⟩ → Tracks (ds.foldl Num.addDigit n) ⟨s, ip ++ ds, none, none⟩ := by
  induction ds with
  | nil => intro n s ip h; simpa using h
  | cons d r ih =>
    intro n s ip h
    have := ih hds.tail _ s (ip ++ [d]) (tracks_addDigit n s ip d hds.head h)
    simpa [List.append_assoc] using this

theorem tracks_foldl_addFrac (ds : Bytes) (hds : Dig ds) : ∀ (n : Num) (s : Bool) (ip fs : Bytes), Dig fs →
    Tracks n ⟨s, ip, some fs, none⟩ → Tracks (ds.foldl Num.addFrac n) ⟨s, ip, some (fs ++ ds), none⟩ := by
  induction ds with
  | nil => intro n s ip fs _ h; simpa using h
  | cons d r ih =>
    intro n s ip fs hfs h
    have := ih hds.tail _ s ip (fs ++ [d]) (hfs.snoc hds.head) (tracks_addFrac n s ip fs d hds.head hfs h)
    simpa [List.append_assoc] using this

theorem tracks_foldl_addExp (ds : Bytes) (hds : Dig ds) (s : Bool) (ip : Bytes) (fo : Option Bytes)
    (hfo : ∀ fs, fo = some fs → Dig fs ∧ fs ≠ []) (e : UInt8) (sg : Bytes) : ∀ (n : Num) (es : Bytes),
    Tracks n ⟨s, ip, fo, some ⟨e, sg, es⟩⟩ → Tracks (ds.foldl Num.addExp n) ⟨s, ip, fo, some ⟨e, sg, es ++ ds⟩⟩ := by
  induction ds with
  | nil => intro n es h; simpa using h
  | cons d r ih =>
    intro n es h
    have := ih hds.tail _ (es ++ [d]) (tracks_addExp n s ip fo e sg es d hds.head hfo h)
    simpa [List.append_assoc] using this

/-! ## `AsNum` / `AsNode` on a tracked accumulator -/

theorem fillBig_exp_zero (n : Num) (h : n.exp = 0) : n.fillBig.big = ({ n with negExp := false } : Num).fillBig.big := by
  unfold Num.fillBig
  simp [h]

theorem expVal_zero (eo : Option ExpPart) (h : expNat eo = 0) : expVal eo = 0 := by
  unfold expVal; rw [h]; split <;> simp

/-- **Conversion of a tracked accumulator.** For a complete literal `p`: an int64 result is the value of
`p` (and `p` has exponent value 0 and no fraction); a float64 or big result carries a decimal text
whose denotation is the value of `p`: same mantissa (all digits), same power of ten. -/
theorem tracks_asNum (n : Num) (p : Parts) (h : Tracks n p) (hw : p.WF) :
    match n.asNum with
    | .int v => pval p = (v, 0) ∧ -9223372036854775807 ≤ v ∧ v ≤ 9223372036854775807
    | .flt t => decVal t = some (pval p)
    | .big t => decVal t = some (pval p) := by
  rcases h with ⟨hbig, hcore, hfit⟩ | ⟨hne, htxt⟩
  · unfold Num.asNum
    simp only [big_len_zero hbig, ↓reduceIte]
    obtain ⟨hip, hipne, hwf, hwe⟩ := hw
    by_cases hint : (n.div = 1 && n.exp = 0) = true
    · simp only [hint, ↓reduceIte]
      simp only [Bool.and_eq_true, decide_eq_true_eq] at hint
      obtain ⟨c1, c2, c3, c4, c5, c6, c7⟩ := hcore
      -- no fraction
      have hfo : p.fo = none := by
        cases hfo : p.fo with
        | none => rfl
        | some fs =>
          exfalso
          rw [hfo, hint.1] at c4
          simp only [fracLen] at c4
          have hne := (hwf fs hfo).2
          have hlen : 1 ≤ fs.length := by
            cases fs with
            | nil => exact absurd rfl hne
            | cons _ _ => simp
          have h10 : 10 ^ 1 ≤ 10 ^ fs.length := Nat.pow_le_pow_right (by omega) hlen
          have : (1 : UInt64).toNat = 1 := rfl
          omega
      have hexp : expVal p.eo = 0 := by
        apply expVal_zero
        rw [← c6, hint.2]; rfl
      have hlt : n.i.toNat < 9223372036854775808 := by omega
      have h64 : toInt64 n.i = (natOf p.ip : Int) := by unfold toInt64; rw [if_pos hlt, c2]
      have hpv : pval p = (if p.neg then -(natOf p.ip : Int) else (natOf p.ip : Int), 0) := by
        simp [pval, mantNat, hfo, fracLen, fracNat, hexp]
      rw [hpv, h64, c1]
      cases p.neg with
      | false =>
        simp only [Bool.false_eq_true, ↓reduceIte]
        exact ⟨trivial, by omega, by omega⟩
      | true =>
        have : (natOf p.ip : Int) ≠ -9223372036854775808 := by omega
        simp only [↓reduceIte, negInt64, this]
        exact ⟨trivial, by omega, by omega⟩
    · simp only [hint, Bool.false_eq_true, ↓reduceIte]
      -- float: the text written by `FillBig`
      by_cases hpos : ∀ x, p.eo = some x → 0 < natOf x.es
      · obtain ⟨p', ht, hs⟩ := held_fill hbig hcore hwf hpos
        obtain ⟨hw', hv⟩ := sim_pval hs ⟨hip, hipne, hwf, hwe⟩
        rw [ht, decVal_render p' hw', hv]
      · -- an exponent that is written but zero: `FillBig` omits it
        have hex : ∃ x, p.eo = some x ∧ natOf x.es = 0 := by
          cases heo : p.eo with
          | none => exact absurd (fun x hx => by rw [heo] at hx; cases hx) hpos
          | some x =>
            refine ⟨x, rfl, ?_⟩
            rcases Nat.eq_zero_or_pos (natOf x.es) with h0 | h0
            · exact h0
            · exact absurd (fun y hy => by rw [heo] at hy; cases hy; exact h0) hpos
        obtain ⟨x, heo, hx0⟩ := hex
        obtain ⟨c1, c2, c3, c4, c5, c6, c7⟩ := hcore
        have hexp0 : n.exp = 0 := by
          apply UInt64.toNat_inj.mp
          rw [c6, heo]; exact hx0
        have hcore0 : Held ({ n with negExp := false } : Num) { p with eo := none } :=
          ⟨c1, c2, c3, c4, c5, by rw [c6, heo]; exact hx0, rfl⟩
        have hw0 : ({ p with eo := none } : Parts).WF := ⟨hip, hipne, hwf, fun _ h => nomatch h⟩
        obtain ⟨p', ht, hs⟩ := held_fill (n := { n with negExp := false }) hbig hcore0 hwf (fun _ h => nomatch h)
        obtain ⟨hw', hv⟩ := sim_pval hs hw0
        rw [fillBig_exp_zero n hexp0, ht, decVal_render p' hw', hv]
        have : expVal p.eo = 0 := expVal_zero _ (by rw [heo]; exact hx0)
        have h0 : expVal (none : Option ExpPart) = 0 := rfl
        simp only [pval, mantNat, this, h0]
  · unfold Num.asNum
    simp only [big_len_pos hne, ↓reduceIte]
    obtain ⟨p', ht, hs⟩ := htxt
    obtain ⟨hw', hv⟩ := sim_pval hs hw
    rw [ht, decVal_render p' hw', hv]

end OjgVerif.Json
