import OjgVerif.Json.BufModelV
import OjgVerif.Json.BufMain
/-! # The validator's buffer loop is the byte machine -/
namespace OjgVerif.Json
open OjgVerif

variable {T : Tables} (hT : TablesOK T) (cfg : Cfg)

include hT in
/-- **the validator's string scan** -/
theorem iter_quoteV (buf : Bytes) (s m : St) (off : Nat) (b : UInt8)
    (hb : buf[off]? = some b) (hrel : Rel s m) (isKey : Bool)
    (hact : T.act s.mode b = if isKey then .keyQuote else .valQuote) :
    IterOK T cfg buf m off (wrapIter T cfg buf off (caseQuoteV T isKey buf s off b)) := by
  obtain ⟨hdrop, hl⟩ := drop_of_getElem? buf off b hb
  obtain ⟨emode, -, estack, -, -, eline, epos, enl⟩ := nf_fields hrel.nf
  have hactm : T.act m.mode b = if isKey then .keyQuote else .valQuote := by rw [← emode]; exact hact
  unfold caseQuoteV
  simp only [sliceOf_tail buf off hl]
  rcases rangeWhile_spec (fun c => decide (T.act .string c = .strOk)) (buf.drop (off + 1)) 0 (0, b) with
    ⟨hnil, he⟩ | ⟨pre, c, post, hsl, hp, he, hq⟩
  · -- the quote is the last byte of the buffer: `i = 0`, `b` is the quote itself, `0 < i` fails
    rw [he]
    have hlen : buf.length ≤ off + 1 := List.drop_eq_nil_iff.mp hnil
    have hrun := run_str_open hT cfg m b isKey [] [] hactm (by intro c hc; cases hc)
    simp only [Nat.lt_irrefl, and_false, ↓reduceIte, Nat.add_zero, List.take_zero, List.reverse_nil, wrapIter]
    have hmin : min (off + 1) buf.length - off = 1 := by omega
    simp only [IterOK, ↓reduceIte, hmin]
    refine ⟨by omega, ({ m with tmp := ([] : Bytes).reverse, mode := .string, nextMode := if isKey then .colon else .after, pos := m.pos + ([] : Bytes).length + 1, inFast := false } : St), ?_, ⟨?_, hrel.flag, ?_, ?_⟩, ?_, fun _ => by nm_triv⟩
    · rw [hdrop, hnil]; exact hrun
    · simp only [List.length_nil, Nat.add_zero, List.reverse_nil]
      rw [← epos]
      exact nf_set_string hrel.nf _ _ _ _ _
    · cases isKey
      · exact Or.inl rfl
      · exact Or.inr rfl
    · cases isKey
      · exact Or.inl rfl
      · exact Or.inr rfl
    · intro hf; cases hf
  · have hpre : ∀ x ∈ pre, T.act .string x = .strOk := by
      intro x hx; simpa using hp x hx
    obtain ⟨hd2, hlen2⟩ := (drop_split buf (off + 1) pre (c :: post) hsl).resolve_right (by simp)
    simp only [List.length_cons] at hlen2
    have htake : (buf.drop (off + 1)).take pre.length = pre := by rw [hsl]; exact List.take_left' rfl
    have hrunm : runBytes T cfg m (buf.drop off) = runBytes T cfg m (b :: (pre ++ c :: post)) := by
      rw [hdrop, hsl]
    rw [he]
    simp only [Nat.zero_add, htake]
    by_cases hc : c = 34 ∧ 0 < pre.length
    · obtain ⟨hc34, hpos⟩ := hc
      subst hc34
      simp only [hpos, and_self, ↓reduceIte]
      have hdrop2 : buf.drop (off + pre.length + 1 + 1) = post := by
        rw [show off + pre.length + 1 + 1 = off + 1 + pre.length + 1 by omega, ← List.drop_drop, hd2]; rfl
      have hmin : min (off + pre.length + 1 + 1) buf.length - off = pre.length + 2 := by omega
      cases isKey
      · simp only [Bool.false_eq_true, ↓reduceIte] at hact hactm ⊢
        have hrun := run_str_val hT cfg m b pre post hactm hpre
        rcases St.add_cases (s.fwd (off + pre.length + 1 - off)) (.str pre) with ⟨st, ha, hadd⟩ | ⟨w, ha, hadd⟩
        · rw [hadd]
          simp only [wrapIter, IterOK, Bool.false_eq_true, ↓reduceIte, hmin]
          have ha' : addItem (.str pre) m.stack = .ok st := by rw [← estack]; exact ha
          have hadd' : ({ m with tmp := pre.reverse, mode := .after, nextMode := .after, pos := m.pos + pre.length + 1, inFast := false } : St).add (.str pre) = .ok { m with tmp := pre.reverse, mode := .after, nextMode := .after, pos := m.pos + pre.length + 1, inFast := false, stack := st } := by
            unfold St.add; simp only [ha']
          rw [hadd'] at hrun
          simp only at hrun
          refine ⟨by omega, _, hrunm.trans (hrun.trans (by rw [hdrop2])), ⟨?_, ?_, ?_, ?_⟩, ?_⟩
          · simp only [deliver_pos]
            rw [show m.pos + pre.length + 1 + 1 = s.pos + (pre.length + 2) by omega]
            refine deliver_nf_pos T cfg _ ?_ _ _
            exact nf_set_dead hrel.nf .after rfl rfl rfl st _ _ _ _ _ _ _ _ _
          · simp only [deliver_flag]; exact hrel.flag
          · exact deliver_nm T cfg (by exact hrel.ns)
          · exact deliver_nm T cfg (Or.inl rfl)
          · exact ⟨fun hf => (by cases hf), fun _ => numInv_same rfl rfl (deliver_numInv cfg _ (by nm_triv))⟩
        · rw [hadd]
          simp only [wrapIter, IterOK]
          have ha' : addItem (.str pre) m.stack = .error w := by rw [← estack]; exact ha
          have hadd' : ({ m with tmp := pre.reverse, mode := .after, nextMode := .after, pos := m.pos + pre.length + 1, inFast := false } : St).add (.str pre) = .error (({ m with tmp := pre.reverse, mode := .after, nextMode := .after, pos := m.pos + pre.length + 1, inFast := false } : St).err (.fault w)) := by
            unfold St.add; simp only [ha']
          rw [hadd'] at hrun
          rw [hrunm, hrun]
          simp only [St.err, St.fwd, eline, epos, enl, Except.error.injEq, Err.mk.injEq, true_and, and_true]
          congr 2; omega
      · simp only [↓reduceIte] at hact hactm ⊢
        have hrun := run_str_key hT cfg m b pre post hactm hpre
        simp only [wrapIter, IterOK, ↓reduceIte, hmin]
        refine ⟨by omega, _, hrunm.trans (hrun.trans (by rw [hdrop2])), ⟨?_, hrel.flag, hrel.ns, Or.inr rfl⟩, ?_⟩
        · rw [show m.pos + pre.length + 2 = s.pos + (pre.length + 2) by omega, ← estack]
          exact nf_set_dead hrel.nf .colon rfl rfl rfl _ _ _ _ _ _ _ _ _ _
        · exact ⟨fun hf => (by cases hf), fun _ => by nm_triv⟩
    · -- slow route: an empty string, a backslash, a control byte, or the end of the buffer
      simp only [hc, ↓reduceIte]
      have hdropc : buf.drop (off + pre.length + 1) = c :: post := by
        rw [show off + pre.length + 1 = off + 1 + pre.length by omega]; exact hd2
      have hmin : min (off + pre.length + 1) buf.length - off = pre.length + 1 := by omega
      have hrun := run_str_open hT cfg m b isKey pre (c :: post) hactm hpre
      simp only [wrapIter, IterOK, ↓reduceIte, hmin]
      refine ⟨by omega, _, hrunm.trans (hrun.trans (by rw [hdropc])), ⟨?_, hrel.flag, ?_, ?_⟩, ?_⟩
      · rw [show m.pos + pre.length + 1 = s.pos + (pre.length + 1) by omega]
        exact nf_set_string hrel.nf _ _ _ _ _
      · cases isKey
        · exact Or.inl rfl
        · exact Or.inr rfl
      · cases isKey
        · exact Or.inl rfl
        · exact Or.inr rfl
      · exact ⟨fun hf => (by cases hf), fun _ => by nm_triv⟩


include hT in
/-- one iteration of the validator's loop, every case -/
theorem iter_specV (hfi : cfg.fastInt = false) (buf : Bytes) (s m : St) (off i : Nat) (b : UInt8)
    (hb : buf[off]? = some b) (hrel : Rel s m) (hside : Side T buf m off) (hinv : NumInv m) :
    IterOK T cfg buf m off (iterBufV T cfg buf s off i b) := by
  have hfp : cfg.fastInt = fpV.int := hfi
  unfold iterBufV
  cases hact : T.act s.mode b
  case keyQuote => exact iter_quoteV hT cfg buf s m off b hb hrel true (by simpa using hact)
  case valQuote => exact iter_quoteV hT cfg buf s m off b hb hrel false (by simpa using hact)
  case numNewline => exact iter_spec hT cfg fpV hfp buf s m off 0 b hb hrel hside hinv
  all_goals exact iter_spec hT cfg fpV hfp buf s m off i b hb hrel hside hinv

/-- the generic buffer loop against the byte machine -/
theorem loopG_sim (T : Tables) (cfg : Cfg) (buf : Bytes)
    (iter : St → Nat → Nat → UInt8 → Except Err (St × Nat × Nat))
    (hiter : ∀ (s m : St) (off i : Nat) (b : UInt8), buf[off]? = some b → Rel s m → Side T buf m off → NumInv m →
      IterOK T cfg buf m off (iter s off i b)) :
    ∀ (fuel off : Nat) (s m : St) (i : Nat), buf.length - off ≤ fuel → Rel s m → Side T buf m off → NumInv m →
      Sim2 (loopG iter buf fuel s off i) (runBytes T cfg m (buf.drop off)) := by
  intro fuel
  induction fuel with
  | zero =>
    intro off s m i hfuel hrel _ _
    rw [drop_nil_of_le buf off (by omega)]
    exact hrel
  | succ fuel ih =>
    intro off s m i hfuel hrel hside hinv
    unfold loopG
    cases hb : buf[off]? with
    | none =>
      have : buf.length ≤ off := by
        rcases Nat.lt_or_ge off buf.length with h | h
        · rw [List.getElem?_eq_getElem h] at hb; cases hb
        · exact h
      rw [drop_nil_of_le buf off this]
      exact hrel
    | some b =>
      have hit := hiter s m off i b hb hrel hside hinv
      simp only
      cases hr : iter s off i b with
      | error e =>
        rw [hr] at hit
        simp only [IterOK] at hit
        rw [hit]; exact rfl
      | ok p =>
        obtain ⟨s', off', i'⟩ := p
        rw [hr] at hit
        simp only [IterOK] at hit
        obtain ⟨hlt, m', hrun, hrel', hside', hinv'⟩ := hit
        simp only
        rw [hrun]
        exact ih off' s' m' i' (by omega) hrel' hside' (hinv' hinv)

include hT in
/-- **`runBufV_eq_fold`**: one call of `validateBuffer` on one buffer is the fold of `step` over it -/
theorem runBufV_eq_fold (hfi : cfg.fastInt = false) (s m : St) (buf : Bytes)
    (hrel : Rel s m) (hflag : m.inFast = false) (hinv : NumInv m) :
    Sim2 (runBufV T cfg s buf) (runBytes T cfg m buf) := by
  have := loopG_sim T cfg buf (iterBufV T cfg buf)
    (fun s m off i b hb hr hs hi => iter_specV hT cfg hfi buf s m off i b hb hr hs hi)
    buf.length 0 s m 0 (by omega) hrel (side_of_flag T buf m 0 hflag) hinv
  simpa [runBufV] using this

include hT in
theorem chunks_simV (hfi : cfg.fastInt = false) (cs : List Bytes) : ∀ (s m : St),
    Rel s m → m.inFast = false → NumInv m →
    Sim2 (runBufChunksV T cfg s cs) (runChunks T cfg m cs) := by
  induction cs with
  | nil => intro s m hrel _ _; exact hrel
  | cons c rest ih =>
    intro s m hrel hflag hinv
    unfold runBufChunksV runChunks
    have h1 := runBufV_eq_fold hT cfg hfi s m c hrel hflag hinv
    cases hx : runBufV T cfg s c with
    | error e =>
      cases hy : runBytes T cfg m c with
      | error e' => rw [hx, hy] at h1; exact h1
      | ok m' => rw [hx, hy] at h1; exact h1.elim
    | ok s' =>
      cases hy : runBytes T cfg m c with
      | error e' => rw [hx, hy] at h1; exact h1.elim
      | ok m' =>
        rw [hx, hy] at h1
        simp only
        have hinv' := runBytes_inv hT cfg c m m' hy hrel.nm hinv
        have hrel' : Rel s' ({ m' with inFast := false } : St) :=
          ⟨h1.nf, h1.flag, h1.ns, h1.nm⟩
        exact ih s' _ hrel' rfl (numInv_same rfl rfl hinv'.2)

include hT in
/-- **the validator's entry points over the buffer-level model are those over the byte machine** -/
theorem runBV_eq_run (hfi : cfg.fastInt = false) (chunks : List Bytes) :
    runBV T cfg chunks = run T cfg chunks := by
  unfold runBV run
  simp only
  generalize (if cfg.reader = true then topUp (chunks.filter (!·.isEmpty)) else chunks) = cs
  cases cs with
  | nil => rfl
  | cons c rest =>
    simp only
    generalize (if cfg.reader = true then bomRuleReader c else bomRule c) = br
    cases br with
    | bad => rfl
    | strip r =>
      simp only
      have h := chunks_simV hT cfg hfi (r :: rest) {} {} rel_init rfl NumInv.init
      cases hx : runBufChunksV T cfg {} (r :: rest) <;> cases hy : runChunks T cfg {} (r :: rest) <;>
        rw [hx, hy] at h <;> simp only [Sim2] at h
      · rw [h]
      · exact finish_nf T h.nf
    | keep =>
      simp only
      have h := chunks_simV hT cfg hfi (c :: rest) {} {} rel_init rfl NumInv.init
      cases hx : runBufChunksV T cfg {} (c :: rest) <;> cases hy : runChunks T cfg {} (c :: rest) <;>
        rw [hx, hy] at h <;> simp only [Sim2] at h
      · rw [h]
      · exact finish_nf T h.nf

end OjgVerif.Json
