import OjgVerif.Json.BufStr
/-! # The literal look-ahead of `valNull` / `valTrue` / `valFalse` against the byte machine -/
namespace OjgVerif.Json
open OjgVerif

variable {T : Tables} (hT : TablesOK T) (cfg : Cfg)

/-- what the byte machine does with the letters of one literal -/
structure BLit (T : Tables) (M : Mode) (lit : Bytes) (v : JV) (k : ErrKind) (last : Nat) : Prop where
  sel : ∀ (s : St) (b : UInt8), s.mode = M → stepToken T s b =
    if lit.getD (s.ri + 1) 0 = b then
      (if last ≤ s.ri + 1 then ({ s with ri := s.ri + 1, mode := .after } : St).add v
       else .ok { s with ri := s.ri + 1 })
    else .error (s.err k)
  fin : T.fin M ≠ .a
  tok : ∀ j, 0 < j → j < lit.length → T.act M (lit.getD j 0) = .tokenOk
  len : lit.length = last + 1

include hT in
theorem bLit_null : BLit T .null litNull .null .expNull 3 := by
  have h1 : T.act .null 114 ≠ .tokenOk := by rw [hT.act]; decide
  have h2 : T.act .null 97 ≠ .tokenOk := by rw [hT.act]; decide
  have h3 : T.act .null 117 = .tokenOk := by rw [hT.act]; rfl
  have h4 : T.act .null 108 = .tokenOk := by rw [hT.act]; rfl
  refine ⟨?_, by rw [hT.fin .null (by decide)]; decide, ?_, rfl⟩
  · intro s b hm
    unfold stepToken
    simp only [hm, h1, h2, h3, h4, ↓reduceIte, decide_true, Bool.and_self, litNull]
  · intro j h0 hj
    have : j = 1 ∨ j = 2 ∨ j = 3 := by simp only [litNull, List.length_cons, List.length_nil] at hj; omega
    rcases this with h | h | h <;> subst h <;> simp only [litNull, List.getD_cons_succ, List.getD_cons_zero] <;> assumption

include hT in
theorem bLit_true : BLit T .true_ litTrue (.bool true) .expTrue 3 := by
  have h1 : T.act .true_ 114 = .tokenOk := by rw [hT.act]; rfl
  have h3 : T.act .true_ 117 = .tokenOk := by rw [hT.act]; rfl
  have h4 : T.act .true_ 101 = .tokenOk := by rw [hT.act]; rfl
  refine ⟨?_, by rw [hT.fin .true_ (by decide)]; decide, ?_, rfl⟩
  · intro s b hm
    unfold stepToken
    simp only [hm, h1, ↓reduceIte, litTrue]
  · intro j h0 hj
    have : j = 1 ∨ j = 2 ∨ j = 3 := by simp only [litTrue, List.length_cons, List.length_nil] at hj; omega
    rcases this with h | h | h <;> subst h <;> simp only [litTrue, List.getD_cons_succ, List.getD_cons_zero] <;> assumption

include hT in
theorem bLit_false : BLit T .false_ litFalse (.bool false) .expFalse 4 := by
  have h1 : T.act .false_ 114 ≠ .tokenOk := by rw [hT.act]; decide
  have h2 : T.act .false_ 97 = .tokenOk := by rw [hT.act]; rfl
  have h3 : T.act .false_ 108 = .tokenOk := by rw [hT.act]; rfl
  have h4 : T.act .false_ 115 = .tokenOk := by rw [hT.act]; rfl
  have h5 : T.act .false_ 101 = .tokenOk := by rw [hT.act]; rfl
  refine ⟨?_, by rw [hT.fin .false_ (by decide)]; decide, ?_, rfl⟩
  · intro s b hm
    unfold stepToken
    simp only [hm, h1, h2, ↓reduceIte, litFalse]
  · intro j h0 hj
    have : j = 1 ∨ j = 2 ∨ j = 3 ∨ j = 4 := by simp only [litFalse, List.length_cons, List.length_nil] at hj; omega
    rcases this with h | h | h | h <;> subst h <;> simp only [litFalse, List.getD_cons_succ, List.getD_cons_zero] <;> assumption

variable {M : Mode} {lit : Bytes} {v : JV} {k : ErrKind} {last : Nat}

theorem tok_mid (L : BLit T M lit v k last) (m : St) (b : UInt8) (hm : m.mode = M)
    (hb : lit.getD (m.ri + 1) 0 = b) (hlt : m.ri + 1 < last) :
    step T cfg m b = .ok { m with ri := m.ri + 1, pos := m.pos + 1, inFast := false } := by
  have hact : T.act m.mode b = .tokenOk := by
    rw [hm, ← hb]; exact L.tok _ (by omega) (by rw [L.len]; omega)
  unfold step stepAct
  simp only [hact]
  rw [L.sel m b hm]
  simp only [hb, ↓reduceIte, Nat.not_le.mpr hlt, bind, Except.bind, pure, Except.pure, Bool.false_eq_true]
  rw [deliver_id_of T cfg _ (by simp only [hm]; exact L.fin)]

theorem tok_last (L : BLit T M lit v k last) (m : St) (b : UInt8) (hm : m.mode = M)
    (hb : lit.getD (m.ri + 1) 0 = b) (hlast : m.ri + 1 = last) :
    step T cfg m b =
      match ({ m with ri := m.ri + 1, mode := .after } : St).add v with
      | .error e => .error e
      | .ok s' => .ok { deliver T cfg s' with pos := (deliver T cfg s').pos + 1, inFast := false } := by
  have hact : T.act m.mode b = .tokenOk := by
    rw [hm, ← hb]; exact L.tok _ (by omega) (by rw [L.len]; omega)
  unfold step stepAct
  simp only [hact]
  rw [L.sel m b hm]
  simp only [hb, ↓reduceIte, Nat.le_of_eq hlast.symm, bind, Except.bind, pure, Except.pure]
  generalize St.add _ _ = r
  cases r <;> rfl

theorem bstep_valLit (L : BLit T M lit v k last) (m : St) (b : UInt8)
    (hact : (T.act m.mode b = .valNull ∧ M = .null) ∨ (T.act m.mode b = .valTrue ∧ M = .true_) ∨
            (T.act m.mode b = .valFalse ∧ M = .false_)) :
    step T cfg m b = .ok { m with mode := M, ri := 0, pos := m.pos + 1, inFast := false } := by
  unfold step stepAct
  rcases hact with ⟨h, hM⟩ | ⟨h, hM⟩ | ⟨h, hM⟩ <;> subst hM <;>
  · simp only [h, Bool.false_eq_true, ↓reduceIte]
    rw [deliver_id_of T cfg _ (by simp only; exact L.fin)]


theorem run_lit4 {l0 l1 l2 l3 : UInt8} (L : BLit T M [l0, l1, l2, l3] v k 3) (m : St) (rest : Bytes)
    (hact : (T.act m.mode l0 = .valNull ∧ M = .null) ∨ (T.act m.mode l0 = .valTrue ∧ M = .true_) ∨
            (T.act m.mode l0 = .valFalse ∧ M = .false_)) :
    runBytes T cfg m (l0 :: l1 :: l2 :: l3 :: rest) =
      match ({ m with mode := .after, ri := 3, pos := m.pos + 3, inFast := false } : St).add v with
      | .error e => .error e
      | .ok s' => runBytes T cfg { deliver T cfg s' with pos := (deliver T cfg s').pos + 1, inFast := false } rest := by
  simp only [runBytes]
  rw [bstep_valLit cfg L m l0 hact]
  simp only
  rw [tok_mid cfg L _ l1 rfl rfl (by simp)]
  simp only
  rw [tok_mid cfg L _ l2 rfl rfl (by simp)]
  simp only
  rw [tok_last cfg L _ l3 rfl rfl rfl]
  simp only [Nat.zero_add, Nat.reduceAdd, Nat.add_assoc]
  generalize St.add _ _ = r
  cases r <;> rfl

theorem run_lit5 {l0 l1 l2 l3 l4 : UInt8} (L : BLit T M [l0, l1, l2, l3, l4] v k 4) (m : St) (rest : Bytes)
    (hact : (T.act m.mode l0 = .valNull ∧ M = .null) ∨ (T.act m.mode l0 = .valTrue ∧ M = .true_) ∨
            (T.act m.mode l0 = .valFalse ∧ M = .false_)) :
    runBytes T cfg m (l0 :: l1 :: l2 :: l3 :: l4 :: rest) =
      match ({ m with mode := .after, ri := 4, pos := m.pos + 4, inFast := false } : St).add v with
      | .error e => .error e
      | .ok s' => runBytes T cfg { deliver T cfg s' with pos := (deliver T cfg s').pos + 1, inFast := false } rest := by
  simp only [runBytes]
  rw [bstep_valLit cfg L m l0 hact]
  simp only
  rw [tok_mid cfg L _ l1 rfl rfl (by simp)]
  simp only
  rw [tok_mid cfg L _ l2 rfl rfl (by simp)]
  simp only
  rw [tok_mid cfg L _ l3 rfl rfl (by simp)]
  simp only
  rw [tok_last cfg L _ l4 rfl rfl rfl]
  simp only [Nat.zero_add, Nat.reduceAdd, Nat.add_assoc]
  generalize St.add _ _ = r
  cases r <;> rfl


theorem sliceOf_take (buf : Bytes) (off n : Nat) (h : off + n ≤ buf.length) :
    sliceOf buf off (off + n) = some ((buf.drop off).take n) := by
  unfold sliceOf
  have hc : off ≤ off + n ∧ off + n ≤ buf.length := by omega
  simp only [hc, and_self, ↓reduceIte, Option.some.injEq]
  rw [List.drop_take]
  simp only [Nat.add_sub_cancel_left]

include hT in
/-- **the literal look-ahead** (one lemma for the three literals) -/
theorem iter_lit (fp : FP) (buf : Bytes) (s m : St) (off i : Nat) (b : UInt8)
    (hb : buf[off]? = some b) (hrel : Rel s m) (hside : Side T buf m off)
    (lit : Bytes) (v : JV) (M : Mode) (last : Nat)
    (hcb : caseBuf T cfg fp buf s off i b = caseLit lit v M buf s off i)
    (hslow : caseSlow T cfg s off i b = .ok ⟨{ s with mode := M, ri := 0, inFast := false }, off, i, false⟩)
    (hlen : lit.length = last + 1)
    (hrun : ∀ rest, runBytes T cfg m (lit ++ rest) =
      match ({ m with mode := .after, ri := last, pos := m.pos + last, inFast := false } : St).add v with
      | .error e => .error e
      | .ok s' => runBytes T cfg { deliver T cfg s' with pos := (deliver T cfg s').pos + 1, inFast := false } rest)
    (hv : T.act m.mode b = .valDigit → cfg.fastInt = false) :
    IterOK T cfg buf m off (iterBuf T cfg fp buf s off i b) := by
  obtain ⟨hdrop, hl⟩ := drop_of_getElem? buf off b hb
  obtain ⟨emode, -, estack, -, -, eline, epos, enl⟩ := nf_fields hrel.nf
  have hslowcase : litAhead s buf off lit = .ok false →
      IterOK T cfg buf m off (iterBuf T cfg fp buf s off i b) := by
    intro hla
    refine iter_slow hT cfg fp buf s m off i b hb hrel hside ?_ hv
    rw [hcb, hslow]
    unfold caseLit
    simp only [hla]
    rw [hrel.flag]
  by_cases hle : off + lit.length ≤ buf.length
  · have hsl := sliceOf_take buf off lit.length hle
    by_cases heq : ((buf.drop off).take lit.length == lit) = true
    · have htake : (buf.drop off).take lit.length = lit := by simpa using heq
      have hsplit : buf.drop off = lit ++ buf.drop (off + lit.length) := by
        rw [← List.drop_drop]
        conv => lhs; rw [← List.take_append_drop lit.length (buf.drop off)]
        rw [htake]
      have hla : litAhead s buf off lit = .ok true := by
        unfold litAhead; simp only [hle, ↓reduceIte, hsl, heq]
      have hrun' := hrun (buf.drop (off + lit.length))
      rw [← hsplit] at hrun'
      have hmin : min (off + (lit.length - 1) + 1) buf.length - off = last + 1 := by omega
      unfold iterBuf
      rw [hcb]
      unfold caseLit
      simp only [hla]
      rcases St.add_cases (({ s with mode := .after } : St).fwd (lit.length - 1)) v with ⟨st, ha, hadd⟩ | ⟨w, ha, hadd⟩
      · rw [hadd]
        simp only [IterOK, Bool.false_eq_true, ↓reduceIte, hmin]
        have ha' : addItem v m.stack = .ok st := by rw [← estack]; exact ha
        have hadd' : ({ m with mode := .after, ri := last, pos := m.pos + last, inFast := false } : St).add v = .ok { m with mode := .after, ri := last, pos := m.pos + last, inFast := false, stack := st } := by
          unfold St.add; simp only [ha']
        rw [hadd'] at hrun'
        simp only at hrun'
        refine ⟨by omega, _, hrun'.trans (by rw [show off + (lit.length - 1) + 1 = off + lit.length by omega]), ⟨?_, ?_, ?_, ?_⟩, ?_⟩
        · simp only [deliver_pos]
          rw [show m.pos + last + 1 = s.pos + (last + 1) by omega]
          refine deliver_nf_pos T cfg _ ?_ _ _
          exact nf_set_dead hrel.nf .after rfl rfl rfl st _ _ _ _ _ _ _ _ _
        · simp only [deliver_flag]; exact hrel.flag
        · exact deliver_nm T cfg (by exact hrel.ns)
        · exact deliver_nm T cfg (by exact hrel.nm)
        · exact ⟨fun hf => (by cases hf), fun _ => numInv_same rfl rfl (deliver_numInv cfg _ (by nm_triv))⟩
      · rw [hadd]
        simp only [IterOK]
        have ha' : addItem v m.stack = .error w := by rw [← estack]; exact ha
        have hadd' : ({ m with mode := .after, ri := last, pos := m.pos + last, inFast := false } : St).add v = .error (({ m with mode := .after, ri := last, pos := m.pos + last, inFast := false } : St).err (.fault w)) := by
          unfold St.add; simp only [ha']
        rw [hadd'] at hrun'
        rw [hrun']
        simp only [St.err, St.fwd, eline, epos, enl, Except.error.injEq, Err.mk.injEq, true_and, and_true]
        congr 2; omega
    · apply hslowcase
      unfold litAhead; simp only [hle, ↓reduceIte, hsl]
      congr 1; simpa using heq
  · apply hslowcase
    unfold litAhead; simp only [hle, ↓reduceIte]

end OjgVerif.Json
