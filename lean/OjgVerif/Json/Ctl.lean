import OjgVerif.Json.Wf
/-! Control abstraction of the reference automaton: mode, next mode, literal/escape counter and the
container stack of the state after one byte are a function of the same four components before it
(`step_ctl`). Used for the viable-prefix theorem of C09. -/
namespace OjgVerif.Json
open OjgVerif

structure Ctl where
  mode : Mode
  nextMode : Mode
  ri : Nat
  starts : List Bool

def St.ctl (s : St) : Ctl := ⟨s.mode, s.nextMode, s.ri, s.starts⟩

def afterCommaModeL (starts : List Bool) : Mode :=
  match starts with
  | false :: _ => .key
  | _ => .comma

theorem afterCommaMode_eq (s : St) : afterCommaMode s = afterCommaModeL s.starts := rfl

/-- control effect of the action switch (successful branch) -/
def actCtl (a : Act) (c : Ctl) : Ctl :=
  match a with
  | .skipNewline | .skipChar | .strOk | .numDigit | .charErr | .unknown => c
  | .colonColon => { c with mode := .value }
  | .keyQuote => { c with mode := .string, nextMode := .colon }
  | .afterComma => { c with mode := afterCommaModeL c.starts }
  | .valQuote => { c with mode := .string, nextMode := .after }
  | .numComma => { c with mode := afterCommaModeL c.starts }
  | .strSlash => { c with mode := .esc }
  | .escOk => { c with mode := .string }
  | .openObject => { c with starts := false :: c.starts, mode := .key1 }
  | .closeObject => { c with starts := c.starts.tail, mode := .after }
  | .val0 => { c with mode := .zero }
  | .valDigit => { c with mode := .digit }
  | .valNeg => { c with mode := .neg }
  | .escU => { c with mode := .u, ri := 0 }
  | .openArray => { c with starts := true :: c.starts, mode := .value }
  | .closeArray => { c with starts := c.starts.tail, mode := .after }
  | .valNull => { c with mode := .null, ri := 0 }
  | .valTrue => { c with mode := .true_, ri := 0 }
  | .valFalse => { c with mode := .false_, ri := 0 }
  | .numDot => { c with mode := .dot }
  | .numFrac => { c with mode := .frac }
  | .fracE => { c with mode := .expSign }
  | .strQuote => { c with mode := c.nextMode }
  | .numZero => { c with mode := .zero }
  | .negDigit => { c with mode := .digit }
  | .numSpc => { c with mode := .after }
  | .numNewline => { c with mode := .after }
  | .expSign => { c with mode := .expZero }
  | .expDigit => { c with mode := .exp }
  | .uOk => { c with ri := c.ri + 1, mode := if c.ri + 1 = 4 then .string else c.mode }
  | .tokenOk =>
    { c with ri := c.ri + 1,
             mode := if (c.mode = .false_ ∧ 4 ≤ c.ri + 1) ∨ (c.mode ≠ .false_ ∧ 3 ≤ c.ri + 1) then .after else c.mode }

/-- control effect of the delivery test -/
def deliverCtl (c : Ctl) : Ctl :=
  if c.starts.isEmpty && expectedFin c.mode = .a then { c with mode := .space } else c

theorem St.add_ctl' {s s' : St} {v : JV} (h : s.add v = .ok s') : s'.ctl = s.ctl := by
  unfold St.add at h
  cases ha : addItem v s.stack with
  | error w => rw [ha] at h; cases h
  | ok st => rw [ha] at h; cases h; rfl

theorem deliver_ctlEq (cfg : Cfg) (ho : cfg.onlyOne = true) (s : St) :
    (deliver refTables cfg s).ctl = deliverCtl s.ctl := by
  unfold deliver deliverCtl
  by_cases h : (s.starts.isEmpty && decide (refTables.fin s.mode = EndMark.a)) = true
  · have h' : (s.ctl.starts.isEmpty && decide (expectedFin s.ctl.mode = EndMark.a)) = true := h
    rw [if_pos h, if_pos h']; simp only [St.ctl, ho, ↓reduceIte]
  · have h' : ¬ (s.ctl.starts.isEmpty && decide (expectedFin s.ctl.mode = EndMark.a)) = true := h
    rw [if_neg h, if_neg h']

theorem stepToken_ctlEq (s s' : St) (b : UInt8) (hm : s.mode = .null ∨ s.mode = .true_ ∨ s.mode = .false_)
    (h : stepToken refTables s b = .ok s') : s'.ctl = actCtl .tokenOk s.ctl := by
  unfold stepToken at h
  rcases hm with hm | hm | hm
  · -- null
    have h1 : refTables.act s.mode 114 ≠ .tokenOk := by rw [hm]; decide
    have h2 : refTables.act s.mode 97 ≠ .tokenOk := by rw [hm]; decide
    have h3 : (decide (refTables.act s.mode 117 = .tokenOk) && decide (refTables.act s.mode 108 = .tokenOk)) = true := by
      rw [hm]; decide
    simp only [h1, h2, h3, ↓reduceIte] at h
    split at h
    · split at h
      · rename_i hc
        have := St.add_ctl' h
        rw [this]
        simp [St.ctl, actCtl, hm, hc]
      · rename_i hc
        cases h
        simp [St.ctl, actCtl, hm, hc]
    · cases h
  · -- true
    have h1 : refTables.act s.mode 114 = .tokenOk := by rw [hm]; decide
    simp only [h1, ↓reduceIte] at h
    split at h
    · split at h
      · rename_i hc
        have := St.add_ctl' h
        rw [this]
        simp [St.ctl, actCtl, hm, hc]
      · rename_i hc
        cases h
        simp [St.ctl, actCtl, hm, hc]
    · cases h
  · -- false
    have h1 : refTables.act s.mode 114 ≠ .tokenOk := by rw [hm]; decide
    have h2 : refTables.act s.mode 97 = .tokenOk := by rw [hm]; decide
    simp only [h1, h2, ↓reduceIte] at h
    split at h
    · split at h
      · rename_i hc
        have := St.add_ctl' h
        rw [this]
        simp [St.ctl, actCtl, hm, hc]
      · rename_i hc
        cases h
        simp [St.ctl, actCtl, hm, hc]
    · cases h

theorem popObj_ctl {s s' : St} {rest : List Bool} (h : s.popObj rest = .ok s') :
    s'.ctl = { s.ctl with starts := rest } := by
  unfold St.popObj at h
  cases hs : s.stack with
  | nil => rw [hs] at h; cases h
  | cons top below => rw [hs] at h; rw [St.add_ctl' h]; rfl

theorem popArr_ctl {s s' : St} {rest : List Bool} (h : s.popArr rest = .ok s') :
    s'.ctl = { s.ctl with starts := rest } := by
  unfold St.popArr at h
  cases hs : splitAtMark s.stack [] with
  | none => rw [hs] at h; cases h
  | some p => rw [hs] at h; rw [St.add_ctl' h]; rfl

theorem flushNum_ctl {s s' : St} (h : s.flushNum refTables = .ok s') : s'.ctl = s.ctl := by
  unfold St.flushNum at h
  split at h
  · exact St.add_ctl' h
  · cases h; rfl

/-- **Control abstraction of the action switch.** -/
theorem stepAct_ctl_eq (cfg : Cfg) (s s' : St) (b : UInt8) (c : Bool)
    (h : stepAct refTables cfg s b = .ok (s', c)) : s'.ctl = actCtl (expected s.mode b) s.ctl := by
  have hsrc := src_ok s.mode b
  have hact0 : refTables.act s.mode b = expected s.mode b := rfl
  unfold stepAct at h
  rw [hact0] at h
  cases hact : expected s.mode b <;> rw [hact] at h hsrc <;> simp only [actCtl] at h ⊢
  case numComma =>
    simp only [bind, Except.bind] at h
    cases ha : s.addNum with
    | error e => rw [ha] at h; cases h
    | ok s1 =>
      rw [ha] at h
      have k1 : s1.ctl = s.ctl := St.add_ctl' ha
      simp only at h
      split at h
      · cases h
      · simp only [pure, Except.pure, Except.ok.injEq, Prod.mk.injEq] at h
        rw [← h.1]
        simp only [St.ctl, Ctl.mk.injEq] at k1 ⊢
        simp [afterCommaMode_eq, k1.1, k1.2.1, k1.2.2.1, k1.2.2.2]
  case closeObject =>
    split at h
    · rename_i rest hst
      split at h
      · cases h
      · simp only [bind, Except.bind] at h
        cases h1 : s.flushNum refTables with
        | error e => rw [h1] at h; cases h
        | ok s1 =>
          rw [h1] at h
          simp only at h
          cases h2 : s1.popObj rest with
          | error e => rw [h2] at h; cases h
          | ok s2 =>
            rw [h2] at h
            simp only [pure, Except.pure, Except.ok.injEq, Prod.mk.injEq] at h
            rw [← h.1]
            have k1 := flushNum_ctl h1
            have k2 := popObj_ctl h2
            simp only [St.ctl, Ctl.mk.injEq] at k1 k2 ⊢
            simp [k2.2.1, k2.2.2.1, k2.2.2.2, k1.2.1, k1.2.2.1, hst]
    · cases h
  case closeArray =>
    split at h
    · rename_i rest hst
      simp only [bind, Except.bind] at h
      cases h1 : s.flushNum refTables with
      | error e => rw [h1] at h; cases h
      | ok s1 =>
        rw [h1] at h
        simp only at h
        cases h2 : s1.popArr rest with
        | error e => rw [h2] at h; cases h
        | ok s2 =>
          rw [h2] at h
          simp only [pure, Except.pure, Except.ok.injEq, Prod.mk.injEq] at h
          rw [← h.1]
          have k1 := flushNum_ctl h1
          have k2 := popArr_ctl h2
          simp only [St.ctl, Ctl.mk.injEq] at k1 k2 ⊢
          simp [k2.2.1, k2.2.2.1, k2.2.2.2, k1.2.1, k1.2.2.1, hst]
    · cases h
  case strQuote =>
    split at h
    · cases h; simp [St.ctl]
    · simp only [bind, Except.bind] at h
      cases ha : ({ s with mode := s.nextMode } : St).add (.str s.tmp.reverse) with
      | error e => rw [ha] at h; cases h
      | ok s1 =>
        rw [ha] at h
        simp only [pure, Except.pure, Except.ok.injEq, Prod.mk.injEq] at h
        rw [← h.1, St.add_ctl' ha]
        rfl
  case numSpc =>
    simp only [bind, Except.bind] at h
    cases ha : s.addNum with
    | error e => rw [ha] at h; cases h
    | ok s1 =>
      rw [ha] at h
      simp only [pure, Except.pure, Except.ok.injEq, Prod.mk.injEq] at h
      rw [← h.1]
      have k1 : s1.ctl = s.ctl := St.add_ctl' ha
      simp only [St.ctl, Ctl.mk.injEq] at k1 ⊢
      simp [k1.2.1, k1.2.2.1, k1.2.2.2]
  case numNewline =>
    simp only [bind, Except.bind] at h
    cases ha : s.addNum with
    | error e => rw [ha] at h; cases h
    | ok s1 =>
      rw [ha] at h
      simp only [pure, Except.pure, Except.ok.injEq, Prod.mk.injEq] at h
      rw [← h.1]
      have k1 : s1.ctl = s.ctl := St.add_ctl' ha
      simp only [St.ctl, Ctl.mk.injEq] at k1 ⊢
      simp [k1.2.1, k1.2.2.1, k1.2.2.2]
  case tokenOk =>
    simp only [bind, Except.bind] at h
    cases ha : stepToken refTables s b with
    | error e => rw [ha] at h; cases h
    | ok s1 =>
      rw [ha] at h
      simp only [pure, Except.pure, Except.ok.injEq, Prod.mk.injEq] at h
      rw [← h.1]
      have hm : s.mode = .null ∨ s.mode = .true_ ∨ s.mode = .false_ := by
        simpa [srcModes] using hsrc
      have := stepToken_ctlEq s s1 b hm ha
      simpa [actCtl] using this
  case charErr => cases h
  all_goals (
    simp only [Except.ok.injEq, Prod.mk.injEq] at h
    rw [← h.1]
    try simp [St.ctl, afterCommaMode_eq])


/-- the `continue` flag of an action (for `numDot` it depends on the accumulator; nothing is ever
delivered in dot mode, so either value gives the same control state) -/
def contOf : Act → Bool
  | .skipNewline | .colonColon | .skipChar | .keyQuote | .afterComma | .valQuote | .strSlash | .escOk
  | .openObject | .valNeg | .escU | .openArray | .fracE | .expSign | .uOk | .numDot => true
  | _ => false

theorem stepAct_cont (cfg : Cfg) (s s' : St) (b : UInt8) (c : Bool)
    (h : stepAct refTables cfg s b = .ok (s', c)) (hn : expected s.mode b ≠ .numDot) :
    c = contOf (expected s.mode b) := by
  have hact0 : refTables.act s.mode b = expected s.mode b := rfl
  unfold stepAct at h
  rw [hact0] at h
  cases hact : expected s.mode b <;> rw [hact] at h hn <;> simp only [contOf] at h ⊢
  case numDot => exact absurd rfl hn
  case numComma =>
    simp only [bind, Except.bind] at h
    cases ha : s.addNum with
    | error e => rw [ha] at h; cases h
    | ok s1 =>
      rw [ha] at h
      simp only at h
      split at h
      · cases h
      · simp only [pure, Except.pure, Except.ok.injEq, Prod.mk.injEq] at h; exact h.2.symm
  case closeObject =>
    split at h
    · split at h
      · cases h
      · simp only [bind, Except.bind] at h
        cases h1 : s.flushNum refTables with
        | error e => rw [h1] at h; cases h
        | ok s1 =>
          rw [h1] at h
          simp only at h
          rename_i rest _ _
          cases h2 : s1.popObj rest with
          | error e => rw [h2] at h; cases h
          | ok s2 =>
            rw [h2] at h
            simp only [pure, Except.pure, Except.ok.injEq, Prod.mk.injEq] at h; exact h.2.symm
    · cases h
  case closeArray =>
    split at h
    · simp only [bind, Except.bind] at h
      cases h1 : s.flushNum refTables with
      | error e => rw [h1] at h; cases h
      | ok s1 =>
        rw [h1] at h
        simp only at h
        rename_i rest _
        cases h2 : s1.popArr rest with
        | error e => rw [h2] at h; cases h
        | ok s2 =>
          rw [h2] at h
          simp only [pure, Except.pure, Except.ok.injEq, Prod.mk.injEq] at h; exact h.2.symm
    · cases h
  case strQuote =>
    split at h
    · simp only [Except.ok.injEq, Prod.mk.injEq] at h; exact h.2.symm
    · simp only [bind, Except.bind] at h
      cases ha : ({ s with mode := s.nextMode } : St).add (.str s.tmp.reverse) with
      | error e => rw [ha] at h; cases h
      | ok s1 =>
        rw [ha] at h
        simp only [pure, Except.pure, Except.ok.injEq, Prod.mk.injEq] at h; exact h.2.symm
  case numSpc =>
    simp only [bind, Except.bind] at h
    cases ha : s.addNum with
    | error e => rw [ha] at h; cases h
    | ok s1 =>
      rw [ha] at h
      simp only [pure, Except.pure, Except.ok.injEq, Prod.mk.injEq] at h; exact h.2.symm
  case numNewline =>
    simp only [bind, Except.bind] at h
    cases ha : s.addNum with
    | error e => rw [ha] at h; cases h
    | ok s1 =>
      rw [ha] at h
      simp only [pure, Except.pure, Except.ok.injEq, Prod.mk.injEq] at h; exact h.2.symm
  case tokenOk =>
    simp only [bind, Except.bind] at h
    cases ha : stepToken refTables s b with
    | error e => rw [ha] at h; cases h
    | ok s1 =>
      rw [ha] at h
      simp only [pure, Except.pure, Except.ok.injEq, Prod.mk.injEq] at h; exact h.2.symm
  case charErr => cases h
  all_goals (
    simp only [Except.ok.injEq, Prod.mk.injEq] at h
    exact h.2.symm)

/-- control effect of one byte -/
def stepCtl (c : Ctl) (b : UInt8) : Ctl :=
  if contOf (expected c.mode b) then actCtl (expected c.mode b) c
  else deliverCtl (actCtl (expected c.mode b) c)

/-- **Control abstraction of one byte** (single-document mode): mode, next mode, counter and
container stack after a successful step are a function of the same components before it. -/
theorem step_ctlEq (cfg : Cfg) (ho : cfg.onlyOne = true) (s s' : St) (b : UInt8)
    (h : step refTables cfg s b = .ok s') : s'.ctl = stepCtl s.ctl b := by
  unfold step at h
  cases hst : stepAct refTables cfg s b with
  | error e => rw [hst] at h; cases h
  | ok p =>
    obtain ⟨s1, c⟩ := p
    rw [hst] at h
    simp only [Except.ok.injEq] at h
    have hc := stepAct_ctl_eq cfg s s1 b c hst
    have hctl : s'.ctl = (if c then s1 else deliver refTables cfg s1).ctl := by rw [← h]; rfl
    rw [hctl]
    unfold stepCtl
    have hm : s.ctl.mode = s.mode := rfl
    rw [hm]
    by_cases hd : expected s.mode b = .numDot
    · -- nothing is delivered in dot mode
      have hmode : s1.ctl.mode = .dot := by rw [hc, hd]; rfl
      have hdel : deliver refTables cfg s1 = s1 := by
        unfold deliver
        have : refTables.fin s1.mode ≠ .a := by
          have : s1.mode = .dot := hmode
          rw [this]; decide
        simp [this]
      have : (if c then s1 else deliver refTables cfg s1) = s1 := by cases c <;> simp [hdel]
      rw [this, hd, hc, hd]
      rfl
    · have hcont := stepAct_cont cfg s s1 b c hst hd
      rw [hcont]
      cases hco : contOf (expected s.mode b)
      · simp only [Bool.false_eq_true, ↓reduceIte]
        rw [deliver_ctlEq cfg ho, hc]
      · simp only [↓reduceIte]
        exact hc

end OjgVerif.Json
