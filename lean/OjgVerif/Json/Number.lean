import OjgVerif.Common.Bytes
/-! # Model of `gen/number.go` (`gen.Number`), statement for statement, `uint64` as `UInt64`.
`strconv.FormatUint(x, 10)` is `fmtNat`; `strconv.ParseFloat` is not modelled: a float result is
the decimal text handed to it. -/
namespace OjgVerif.Json
open OjgVerif

def BigLimit : UInt64 := 922337203685477580     -- math.MaxInt64 / 10, checked against Gen
def MaxInt64 : UInt64 := 9223372036854775807

/-- decimal digits of a natural number, most significant first (`strconv.FormatUint`) -/
def fmtNatAux : Nat → Nat → Bytes → Bytes
  | 0, _, acc => acc
  | fuel+1, n, acc =>
    if n < 10 then UInt8.ofNat (48 + n) :: acc
    else fmtNatAux fuel (n / 10) (UInt8.ofNat (48 + n % 10) :: acc)

def fmtNat (n : Nat) : Bytes := fmtNatAux (n + 1) n []

structure Num where
  i : UInt64 := 0
  frac : UInt64 := 0
  div : UInt64 := 1
  exp : UInt64 := 0
  neg : Bool := false
  negExp : Bool := false
  big : Bytes := []
  deriving Inhabited

def Num.reset (_n : Num) : Num := {}

/-- `FillBig` -/
def Num.fillBig (n : Num) : Num :=
  let b0 := if n.neg then n.big ++ [45] else n.big
  let b1 := b0 ++ fmtNat n.i.toNat
  let b2 :=
    if 1 < n.div then
      if 1000000000000000000 ≤ n.frac then b1 ++ [46] ++ fmtNat n.frac.toNat
      else b1 ++ [46] ++ (fmtNat (n.frac + n.div).toNat).tail
    else b1
  let b3 :=
    if 0 < n.exp then
      (if n.negExp then b2 ++ [101, 45] else b2 ++ [101]) ++ fmtNat n.exp.toNat
    else b2
  { n with big := b3 }

/-- `AddDigit` -/
def Num.addDigit (n : Num) (b : UInt8) : Num :=
  if 0 < n.big.length then { n with big := n.big ++ [b] }
  else if n.i ≤ BigLimit then
    let n' := { n with i := n.i * 10 + (b - 48).toUInt64 }
    if MaxInt64 < n'.i then n'.fillBig else n'
  else
    let n' := n.fillBig
    { n' with big := n'.big ++ [b] }

/-- `AddFrac` -/
def Num.addFrac (n : Num) (b : UInt8) : Num :=
  if 0 < n.big.length then { n with big := n.big ++ [b] }
  else if n.frac ≤ BigLimit && n.div ≤ BigLimit then
    let n' := { n with frac := n.frac * 10 + (b - 48).toUInt64, div := n.div * 10 }
    if MaxInt64 < n'.frac then n'.fillBig else n'
  else
    let n' := n.fillBig
    { n' with big := n'.big ++ [b] }

/-- `AddExp` -/
def Num.addExp (n : Num) (b : UInt8) : Num :=
  if 0 < n.big.length then { n with big := n.big ++ [b] }
  else if n.exp ≤ 102 then
    let n' := { n with exp := n.exp * 10 + (b - 48).toUInt64 }
    if 1022 < n'.exp then n'.fillBig else n'
  else
    let n' := n.fillBig
    { n' with big := n'.big ++ [b] }

/-- `int64(u)` two's complement reinterpretation -/
def toInt64 (u : UInt64) : Int :=
  if u.toNat < 9223372036854775808 then (u.toNat : Int) else (u.toNat : Int) - 18446744073709551616

/-- `-i` on int64 (wraps for the minimum) -/
def negInt64 (i : Int) : Int := if i = -9223372036854775808 then i else -i

inductive NumRes where
  | int (i : Int)
  | flt (text : Bytes)
  | big (text : Bytes)

/-- `AsNum` (non-arm64 branch) and `AsNode`: same three cases, the results differ only in their Go
types (`int64`/`float64`/`json.Number` vs `gen.Int`/`gen.Float`/`gen.Big`) -/
def Num.asNum (n : Num) : NumRes :=
  if 0 < n.big.length then .big n.big
  else if n.div = 1 && n.exp = 0 then
    .int (if n.neg then negInt64 (toInt64 n.i) else toInt64 n.i)
  else .flt n.fillBig.big

def NumRes.toJV : NumRes → JV
  | .int i => .int i
  | .flt t => .flt t
  | .big t => .big t

end OjgVerif.Json
