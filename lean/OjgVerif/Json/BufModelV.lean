import OjgVerif.Json.BufModel
/-! # Buffer-level model of `(*oj.Validator).validateBuffer`

The validator has the parser's whitespace skip and literal look-ahead, no digit loops, and its OWN string
scan: no `len(buf) <= start` guard, `i = 0` in front of the loop and `b == '"' && 0 < i` behind it (so a
stale `b` — the opening quote itself when the buffer ends behind it — and an empty string both take the
slow route). `numNewline` resets `i = 0` before its skip loop. The validator builds no values: as in the
byte-level model (one machine for all front-ends, values ignored by the comparison for this front-end) the
state carries them as ghosts (`str`, taken from the scanned bytes, not a Go slice expression). -/
namespace OjgVerif.Json
open OjgVerif

variable (T : Tables) (cfg : Cfg)

/-- the fast paths the validator shares with the parser's transcription -/
def fpV : FP := { ws := true, str := false, lit := true, int := false, frac := false }

/-- the tail of an iteration: delivery test unless `continue`, `off++` (as in `iterBuf`) -/
def wrapIter (buf : Bytes) (off : Nat) : Except Err It → Except Err (St × Nat × Nat)
  | .error e => .error e
  | .ok r =>
    let s1 := if r.cont then r.s else deliver T cfg r.s
    .ok ({ s1 with pos := s1.pos + (min (r.off + 1) buf.length - off) }, r.off + 1, r.i)

/-- the validator's string scan (`keyQuote`, `valQuote`) -/
def caseQuoteV (isKey : Bool) (buf : Bytes) (s : St) (off : Nat) (b : UInt8) : Except Err It :=
  let nm : Mode := if isKey then .colon else .after
  match sliceOf buf (off + 1) buf.length with
  | none => .error (sliceFault s)
  | some sl =>
    let r := rangeWhile (fun c => T.act .string c = .strOk) sl 0 (0, b)     -- `i = 0` first
    let off1 := off + r.1
    let str := sl.take r.1                                                   -- ghost value
    if r.2 = 34 ∧ 0 < r.1 then
      if isKey then
        .ok ⟨{ s with stack := .key str :: s.stack, mode := .colon }, off1 + 1, r.1, true⟩
      else
        match (s.fwd (off1 + 1 - off)).add (.str str) with
        | .error e => .error e
        | .ok s' => .ok ⟨{ s' with pos := s.pos, mode := .after }, off1 + 1, r.1, false⟩
    else
      .ok ⟨{ s with tmp := str.reverse, mode := .string, nextMode := nm }, off1, r.1, true⟩

/-- one iteration of the validator's buffer loop -/
def iterBufV (buf : Bytes) (s : St) (off i : Nat) (b : UInt8) : Except Err (St × Nat × Nat) :=
  match T.act s.mode b with
  | .keyQuote => wrapIter T cfg buf off (caseQuoteV T true buf s off b)
  | .valQuote => wrapIter T cfg buf off (caseQuoteV T false buf s off b)
  | .numNewline => iterBuf T cfg fpV buf s off 0 b        -- `i = 0` in front of the skip loop
  | _ => iterBuf T cfg fpV buf s off i b

/-- the buffer loop over any iteration function -/
def loopG (iter : St → Nat → Nat → UInt8 → Except Err (St × Nat × Nat)) (buf : Bytes) :
    Nat → St → Nat → Nat → Except Err St
  | 0, s, _, _ => .ok s
  | fuel + 1, s, off, i =>
    match buf[off]? with
    | none => .ok s
    | some b =>
      match iter s off i b with
      | .error e => .error e
      | .ok (s', off', i') => loopG iter buf fuel s' off' i'

/-- one call `validateBuffer(buf, false)` -/
def runBufV (s : St) (buf : Bytes) : Except Err St :=
  loopG (iterBufV T cfg buf) buf buf.length s 0 0

def runBufChunksV (s : St) : List Bytes → Except Err St
  | [] => .ok s
  | c :: rest =>
    match runBufV T cfg s c with
    | .error e => .error e
    | .ok s' => runBufChunksV s' rest

/-- the validator's entry points over the buffer-level model -/
def runBV (chunks : List Bytes) : Except Err (List JV) :=
  let cs := if cfg.reader then topUp (chunks.filter (!·.isEmpty)) else chunks
  match cs with
  | [] => finish T {}
  | c :: rest =>
    match (if cfg.reader then bomRuleReader c else bomRule c) with
    | .bad => .error { line := 1, col := 3, kind := .byte }
    | .strip r =>
      match runBufChunksV T cfg {} (r :: rest) with
      | .error e => .error e
      | .ok s => finish T s
    | .keep =>
      match runBufChunksV T cfg {} (c :: rest) with
      | .error e => .error e
      | .ok s => finish T s

/-! ## `(*oj.Tokenizer).tokenizeBuffer`

The tokenizer's cases are the parser's (whitespace skip, string scan with the `len(buf) <= start` guard,
literal look-ahead, fraction loop; `handler.Key` / `handler.String` / … are the pushes and adds of the
one machine) except the integer loop of `valDigit`, in which `AddDigit` decides at the limit:
```
for i, b = range buf[off+1:] {
    if digitMap[b] != numDigit { break }
    if gen.BigLimit <= t.num.I { t.num.AddDigit(b); if 0 < len(t.num.BigBuf) { break }; continue }
    t.num.I = t.num.I*10 + uint64(b-'0')
}
``` -/

def intLoopT : Bytes → Nat → Num → Nat × UInt8 → Num × Nat × UInt8
  | [], _, n, acc => (n, acc)
  | c :: r, j, n, _ =>
    if T.act .digit c = .numDigit then
      if BigLimit ≤ n.i then
        if 0 < (n.addDigit c).big.length then (n.addDigit c, j, c)
        else intLoopT r (j + 1) (n.addDigit c) (j, c)
      else intLoopT r (j + 1) { n with i := n.i * 10 + (c - 48).toUInt64 } (j, c)
    else (n, j, c)

/-- the fast paths the tokenizer shares with the parser's transcription (all but the integer loop) -/
def fpT : FP := { int := false }

def caseDigitT (buf : Bytes) (s : St) (off i : Nat) (b : UInt8) : Except Err It :=
  match sliceOf buf (off + 1) buf.length with
  | none => .error (sliceFault s)
  | some sl =>
    let n0 : Num := { s.num.reset with i := (b - 48).toUInt64 }
    let r := intLoopT T sl 0 n0 (i, b)
    let off1 := if T.act .digit r.2.2 = .numDigit then off + 1 else off
    .ok ⟨{ s with mode := .digit, num := r.1 }, off1 + r.2.1, r.2.1, false⟩

/-- one iteration of the tokenizer's buffer loop -/
def iterBufT (buf : Bytes) (s : St) (off i : Nat) (b : UInt8) : Except Err (St × Nat × Nat) :=
  match T.act s.mode b with
  | .valDigit => wrapIter T cfg buf off (caseDigitT T buf s off i b)
  | _ => iterBuf T cfg fpT buf s off i b

def runBufT (s : St) (buf : Bytes) : Except Err St :=
  loopG (iterBufT T cfg buf) buf buf.length s 0 0

/-- entry points over a buffer-level run function -/
def runChunksG (rb : St → Bytes → Except Err St) (s : St) : List Bytes → Except Err St
  | [] => .ok s
  | c :: rest =>
    match rb s c with
    | .error e => .error e
    | .ok s' => runChunksG rb s' rest

def runG (rb : St → Bytes → Except Err St) (chunks : List Bytes) : Except Err (List JV) :=
  let cs := if cfg.reader then topUp (chunks.filter (!·.isEmpty)) else chunks
  match cs with
  | [] => finish T {}
  | c :: rest =>
    match (if cfg.reader then bomRuleReader c else bomRule c) with
    | .bad => .error { line := 1, col := 3, kind := .byte }
    | .strip r =>
      match runChunksG rb {} (r :: rest) with
      | .error e => .error e
      | .ok s => finish T s
    | .keep =>
      match runChunksG rb {} (c :: rest) with
      | .error e => .error e
      | .ok s => finish T s

/-- the tokenizer's entry points over the buffer-level model -/
def runBT (chunks : List Bytes) : Except Err (List JV) := runG T cfg (runBufT T cfg) chunks

end OjgVerif.Json
