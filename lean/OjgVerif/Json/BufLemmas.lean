import OjgVerif.Json.BufNum
/-! # The buffer loop against the byte machine: framework, delegated cases, whitespace skip

`IterOK` is what one iteration of `loopBuf` owes the byte machine: it consumes some bytes of the buffer
(at least one), the byte machine run over exactly those bytes ends in a related state (`Rel`: equal up to
dead fields and the integer-loop flag), or both fail with the same error. -/
namespace OjgVerif.Json
open OjgVerif

/-! ## Lists, slices, the range loop -/

theorem sliceOf_tail (buf : Bytes) (off : Nat) (h : off + 1 ≤ buf.length) :
    sliceOf buf (off + 1) buf.length = some (buf.drop (off + 1)) := by
  unfold sliceOf
  simp only [h, Nat.le_refl, and_self, ↓reduceIte, List.take_length]

theorem drop_of_getElem? (buf : Bytes) (off : Nat) (b : UInt8) (h : buf[off]? = some b) :
    buf.drop off = b :: buf.drop (off + 1) ∧ off < buf.length := by
  have hl : off < buf.length := by
    rcases Nat.lt_or_ge off buf.length with h1 | h1
    · exact h1
    · rw [List.getElem?_eq_none h1] at h; cases h
  refine ⟨?_, hl⟩
  rw [List.getElem?_eq_getElem hl] at h
  simp only [Option.some.injEq] at h
  rw [← h]
  exact List.drop_eq_getElem_cons hl

/-- what the Go range loop leaves in `i`, `b`: stale values on an empty slice; otherwise the slice
splits into a prefix whose bytes all pass, and the byte the variables rest on — the first that does
not pass, or the last byte of the slice -/
theorem rangeWhile_spec (p : UInt8 → Bool) (l : Bytes) (j : Nat) (acc : Nat × UInt8) :
    (l = [] ∧ rangeWhile p l j acc = acc) ∨
    ∃ pre c post, l = pre ++ c :: post ∧ (∀ x ∈ pre, p x = true) ∧
      rangeWhile p l j acc = (j + pre.length, c) ∧ (p c = false ∨ post = []) := by
  induction l generalizing j acc with
  | nil => exact Or.inl ⟨rfl, rfl⟩
  | cons c r ih =>
    right
    unfold rangeWhile
    by_cases hc : p c = true
    · simp only [hc, ↓reduceIte]
      rcases ih (j + 1) (j, c) with ⟨hr, he⟩ | ⟨pre, c', post, hl, hp, he, hq⟩
      · subst hr
        exact ⟨[], c, [], rfl, (by intro x hx; cases hx), by rw [he]; rfl, Or.inr rfl⟩
      · refine ⟨c :: pre, c', post, by rw [hl]; rfl, ?_, ?_, hq⟩
        · intro x hx
          rcases List.mem_cons.mp hx with h | h
          · rw [h]; exact hc
          · exact hp x h
        · rw [he]; simp only [List.length_cons]; congr 1; omega
    · have hc' : p c = false := by simpa using hc
      simp only [hc', Bool.false_eq_true, ↓reduceIte]
      exact ⟨[], c, r, rfl, (by intro x hx; cases hx), rfl, Or.inl hc'⟩

/-! ## The byte machine over a run of plain bytes -/

variable {T : Tables} (hT : TablesOK T) (cfg : Cfg)

theorem step_skipChar (m : St) (c : UInt8) (h : T.act m.mode c = .skipChar) :
    step T cfg m c = .ok { m with pos := m.pos + 1, inFast := false } := by
  unfold step stepAct
  simp only [h]
  rfl

/-- a run of bytes the mode skips -/
theorem wsRun (l : Bytes) : ∀ (m : St), (∀ c ∈ l, T.act m.mode c = .skipChar) → m.inFast = false →
    runBytes T cfg m l = .ok { m with pos := m.pos + l.length } := by
  induction l with
  | nil => intro m _ _; rfl
  | cons c r ih =>
    intro m hall hf
    unfold runBytes
    rw [step_skipChar cfg m c (hall c (List.mem_cons_self ..))]
    simp only
    refine (ih ({ m with pos := m.pos + 1, inFast := false } : St) (fun x hx => hall x (List.mem_cons_of_mem _ hx)) rfl).trans ?_
    simp only [List.length_cons]
    obtain ⟨_, _, _, _, _, _, _, _, _, _, _, _, f⟩ := m
    simp only at hf; subst hf
    simp only [Except.ok.injEq, St.mk.injEq, true_and, and_true]
    omega

theorem ws_mode_fact (md : Mode) (c : UInt8) (h1 : expected md 10 = .skipNewline)
    (h2 : expected .space c = .skipChar) : expected md c = .skipChar := by
  have := forall_mode_byte (fun md c => !(expected md 10 == .skipNewline) || !(expected .space c == .skipChar)
      || expected md c == .skipChar) (by decide +kernel) md c
  simpa [h1, h2] using this


theorem nl_is_10 (md : Mode) (b : UInt8) (h : expected md b = .skipNewline ∨ expected md b = .numNewline) : b = 10 := by
  have := forall_mode_byte (fun md b => !(expected md b == .skipNewline || expected md b == .numNewline) || b == 10)
    (by decide +kernel) md b
  rcases h with h | h <;> simpa [h] using this

/-! ## The simulation relation and one iteration -/

/-- buffer-model state `s` and byte-machine state `m` agree up to dead fields and the loop flag -/
structure Rel (s m : St) : Prop where
  nf : s.nf = m.nf
  flag : s.inFast = false
  ns : NmOK s
  nm : NmOK m

/-- while the byte machine is inside the pinned integer loop, the next byte of the buffer is not a digit
(the explicit loop of the buffer model has consumed them all) -/
def Side (T : Tables) (buf : Bytes) (m : St) (off : Nat) : Prop :=
  m.inFast = true → ∀ c, buf[off]? = some c → T.act m.mode c ≠ .numDigit

/-- what one iteration of the buffer loop owes the byte machine -/
def IterOK (T : Tables) (cfg : Cfg) (buf : Bytes) (m : St) (off : Nat) : Except Err (St × Nat × Nat) → Prop
  | .error e => runBytes T cfg m (buf.drop off) = .error e
  | .ok (s', off', _) => off < off' ∧ ∃ m', runBytes T cfg m (buf.drop off) = runBytes T cfg m' (buf.drop off') ∧
      Rel s' m' ∧ Side T buf m' off' ∧ (NumInv m → NumInv m')

theorem nf_fields {a b : St} (h : a.nf = b.nf) :
    a.mode = b.mode ∧ a.starts = b.starts ∧ a.stack = b.stack ∧ a.docs = b.docs ∧ a.num = b.num ∧
    a.line = b.line ∧ a.pos = b.pos ∧ a.nl = b.nl :=
  ⟨(congrArg St.mode h : a.nf.mode = b.nf.mode), (congrArg St.starts h : a.nf.starts = b.nf.starts),
   (congrArg St.stack h : a.nf.stack = b.nf.stack), (congrArg St.docs h : a.nf.docs = b.nf.docs),
   (congrArg St.num h : a.nf.num = b.nf.num), (congrArg St.line h : a.nf.line = b.nf.line),
   (congrArg St.pos h : a.nf.pos = b.nf.pos), (congrArg St.nl h : a.nf.nl = b.nf.nl)⟩

theorem nf_pos {a b : St} (h : a.nf = b.nf) (p : Nat) (f g : Bool) :
    ({ a with pos := p, inFast := f } : St).nf = ({ b with pos := p, inFast := g } : St).nf := by
  show ({ a.nf with pos := p } : St) = ({ b.nf with pos := p } : St)
  rw [h]

theorem step_inFast_false (m m' : St) (b : UInt8) (h : step T cfg m b = .ok m')
    (hd : T.act m.mode b = .numDigit → m.inFast = false)
    (hv : T.act m.mode b = .valDigit → cfg.fastInt = false) : m'.inFast = false := by
  unfold step at h
  cases hst : stepAct T cfg m b with
  | error e => rw [hst] at h; cases h
  | ok p =>
    obtain ⟨s1, c⟩ := p
    rw [hst] at h
    simp only [Except.ok.injEq] at h
    subst h
    have hdl : ∀ x : St, (if c = true then x else deliver T cfg x).inFast = x.inFast := by
      intro x; cases c
      · simp only [Bool.false_eq_true, ↓reduceIte]; unfold deliver; split <;> rfl
      · rfl
    cases hact : T.act m.mode b
    case numDigit =>
      simp only [hdl]
      unfold stepAct at hst
      simp only [hact, Except.ok.injEq, Prod.mk.injEq] at hst
      rw [← hst.1]; simp only [hd hact, Bool.false_and]
    case valDigit =>
      simp only [hdl]
      unfold stepAct at hst
      simp only [hact, Except.ok.injEq, Prod.mk.injEq] at hst
      rw [← hst.1]; exact hv hact
    all_goals rfl

/-- an iteration whose case is the byte machine's branch is one step of the byte machine (integer
loop off, flag cleared) -/
theorem iter_slow_eq (fp : FP) (buf : Bytes) (s : St) (off i : Nat) (b : UInt8) (hl : off < buf.length)
    (hcase : caseBuf T cfg fp buf s off i b = caseSlow T cfg s off i b) :
    iterBuf T cfg fp buf s off i b =
      match clrR (step T cfg.slow s b) with
      | .error e => .error e
      | .ok x => .ok (x, off + 1, i) := by
  unfold iterBuf
  rw [hcase]
  unfold caseSlow step
  have hmin : min (off + 1) buf.length - off = 1 := by omega
  cases hst : stepAct T cfg.slow s b with
  | error e => rfl
  | ok p =>
    obtain ⟨s1, c⟩ := p
    simp only [hmin, clrR]
    cases c
    · simp only [Bool.false_eq_true, ↓reduceIte]
      have := deliver_clr T cfg.slow cfg rfl s1
      simp only [St.clr] at this
      rw [this]; rfl
    · rfl

include hT in
/-- **the delegated cases** -/
theorem iter_slow (fp : FP) (buf : Bytes) (s m : St) (off i : Nat) (b : UInt8) (hb : buf[off]? = some b)
    (hrel : Rel s m) (hside : Side T buf m off)
    (hcase : caseBuf T cfg fp buf s off i b = caseSlow T cfg s off i b)
    (hv : T.act m.mode b = .valDigit → cfg.fastInt = false) :
    IterOK T cfg buf m off (iterBuf T cfg fp buf s off i b) := by
  obtain ⟨hdrop, hl⟩ := drop_of_getElem? buf off b hb
  rw [iter_slow_eq cfg fp buf s off i b hl hcase]
  have hd : T.act m.mode b = .numDigit → m.inFast = false := by
    intro h
    cases hf : m.inFast
    · rfl
    · exact absurd h (hside hf b hb)
  have hsr := slow_rel hT cfg s m b hrel.nf hrel.flag hrel.ns hrel.nm hd hv
  cases hm : step T cfg m b with
  | error e =>
    rw [hm] at hsr
    cases hs : step T cfg.slow s b with
    | ok x => rw [hs] at hsr; simp [nfR] at hsr
    | error e' =>
      rw [hs] at hsr; simp only [nfR, Except.error.injEq] at hsr; subst hsr
      simp only [clrR, IterOK]
      rw [hdrop]; unfold runBytes; rw [hm]
  | ok m' =>
    rw [hm] at hsr
    cases hs : step T cfg.slow s b with
    | error e' => rw [hs] at hsr; simp [nfR] at hsr
    | ok x =>
      rw [hs] at hsr; simp only [nfR, Except.ok.injEq] at hsr
      simp only [clrR, IterOK]
      refine ⟨Nat.lt_succ_self _, m', ?_, ⟨hsr, rfl, ?_, step_nm hT cfg m m' b hm hrel.nm⟩, ?_⟩
      · rw [hdrop]; conv => lhs; unfold runBytes
        rw [hm]
      · exact NmOK_clr (step_nm hT cfg.slow s x b hs hrel.ns)
      · refine ⟨?_, fun hi => step_numInv hT cfg m m' b hm hi hrel.nm⟩
        intro hf
        rw [step_inFast_false cfg m m' b hm hd hv] at hf
        cases hf


/-! ## Whitespace skip behind a newline (`skipNewline`, `numNewline`) -/

theorem St.add_inFast {s s' : St} {v : JV} (h : s.add v = .ok s') : s'.inFast = s.inFast := by
  unfold St.add at h
  cases ha : addItem v s.stack with
  | error w => rw [ha] at h; cases h
  | ok st => rw [ha] at h; cases h; rfl

theorem set_inFast_false (s : St) (h : s.inFast = false) : ({ s with inFast := false } : St) = s :=
  clr_of_false s h

/-- the two newline cases are the byte machine's branch, with `off` and `i` moved by the skip loop -/
theorem ws_case (fp : FP) (hws : fp.ws = true) (buf : Bytes) (s : St) (off i : Nat) (b : UInt8)
    (hl : off < buf.length) (hflag : s.inFast = false)
    (hact : T.act s.mode b = .skipNewline ∨ T.act s.mode b = .numNewline) :
    caseBuf T cfg fp buf s off i b =
      match caseSlow T cfg s off i b with
      | .error e => .error e
      | .ok r0 =>
        let r := rangeWhile (fun c => T.act .space c = .skipChar) (buf.drop (off + 1)) 0 (i, b)
        .ok { r0 with off := off + r.1, i := r.1 } := by
  unfold caseBuf caseSlow stepAct
  rcases hact with hact | hact
  · simp only [hact, hws, ↓reduceIte, sliceOf_tail buf off hl]
    rw [hflag]
  · simp only [hact, hws, ↓reduceIte, sliceOf_tail buf off hl]
    cases ha : s.addNum with
    | error e => rfl
    | ok s' =>
      have hf : s'.inFast = false := by rw [St.add_inFast ha]; exact hflag
      simp only [bind, Except.bind, pure, Except.pure]
      rw [hf]

theorem ws_iter (fp : FP) (hws : fp.ws = true) (buf : Bytes) (s : St) (off i : Nat) (b : UInt8)
    (hl : off < buf.length) (hflag : s.inFast = false)
    (hact : T.act s.mode b = .skipNewline ∨ T.act s.mode b = .numNewline) :
    iterBuf T cfg fp buf s off i b =
      match clrR (step T cfg.slow s b) with
      | .error e => .error e
      | .ok x =>
        let r := rangeWhile (fun c => T.act .space c = .skipChar) (buf.drop (off + 1)) 0 (i, b)
        .ok ({ x with pos := x.pos + (min (off + r.1 + 1) buf.length - off - 1) }, off + r.1 + 1, r.1) := by
  unfold iterBuf
  rw [ws_case cfg fp hws buf s off i b hl hflag hact]
  unfold caseSlow step
  cases hst : stepAct T cfg.slow s b with
  | error e => rfl
  | ok p =>
    obtain ⟨s1, c⟩ := p
    simp only [clrR]
    have harith : ∀ (p k : Nat), off < k → p + (k - off) = p + 1 + (k - off - 1) := by intro p k h; omega
    have hk : off < min (off + (rangeWhile (fun c => T.act .space c = .skipChar) (buf.drop (off + 1)) 0 (i, b)).1 + 1) buf.length := by
      omega
    cases c
    · simp only [Bool.false_eq_true, ↓reduceIte]
      have := deliver_clr T cfg.slow cfg rfl s1
      simp only [St.clr] at this
      rw [this]
      simp only [St.clr, harith _ _ hk]
    · simp only [↓reduceIte, St.clr, harith _ _ hk]

include hT in
theorem step_nl_mode (m m' : St) (b : UInt8) (h : step T cfg m b = .ok m')
    (hact : T.act m.mode b = .skipNewline ∨ T.act m.mode b = .numNewline) :
    expected m'.mode 10 = .skipNewline := by
  have hb : b = 10 := nl_is_10 m.mode b (by rw [← hT.act]; exact hact)
  unfold step stepAct at h
  rcases hact with hact | hact
  · simp only [hact, Except.ok.injEq] at h
    rw [← h]; simp only; rw [← hb, ← hT.act]; exact hact
  · simp only [hact] at h
    cases ha : m.addNum with
    | error e => rw [ha] at h; simp [bind, Except.bind] at h
    | ok s' =>
      rw [ha] at h
      simp only [bind, Except.bind, pure, Except.pure, Bool.false_eq_true, ↓reduceIte, Except.ok.injEq] at h
      rw [← h]
      unfold deliver
      simp only
      split
      · cases cfg.onlyOne <;> rfl
      · rfl


theorem St.pos_add_zero (m : St) : ({ m with pos := m.pos + 0 } : St) = m := by
  obtain ⟨_, _, _, _, _, _, _, _, _, _, _, _, _⟩ := m; rfl

theorem drop_nil_of_le (buf : Bytes) (k : Nat) (h : buf.length ≤ k) : buf.drop k = [] :=
  List.drop_eq_nil_iff.mpr h

theorem drop_split (buf : Bytes) (k : Nat) (pre rest : Bytes) (h : buf.drop k = pre ++ rest) :
    buf.drop (k + pre.length) = rest ∧ k + pre.length + rest.length = buf.length ∨ (pre ++ rest = [] ) := by
  by_cases he : pre ++ rest = []
  · exact Or.inr he
  · left
    have h1 : buf.drop (k + pre.length) = rest := by
      rw [← List.drop_drop, h, List.drop_left]
    refine ⟨h1, ?_⟩
    have h2 := congrArg List.length h
    simp only [List.length_drop, List.length_append] at h2
    have h3 : (pre ++ rest).length ≠ 0 := by
      intro h0; exact he (List.eq_nil_of_length_eq_zero h0)
    simp only [List.length_append] at h3
    omega

include hT in
/-- **the whitespace skip** -/
theorem iter_ws (fp : FP) (hws : fp.ws = true) (buf : Bytes) (s m : St) (off i : Nat) (b : UInt8)
    (hb : buf[off]? = some b) (hrel : Rel s m)
    (hact : T.act s.mode b = .skipNewline ∨ T.act s.mode b = .numNewline) :
    IterOK T cfg buf m off (iterBuf T cfg fp buf s off i b) := by
  obtain ⟨hdrop, hl⟩ := drop_of_getElem? buf off b hb
  rw [ws_iter cfg fp hws buf s off i b hl hrel.flag hact]
  have hmode : s.mode = m.mode := (nf_fields hrel.nf).1
  have hactm : T.act m.mode b = .skipNewline ∨ T.act m.mode b = .numNewline := by rw [← hmode]; exact hact
  have hd : T.act m.mode b = .numDigit → m.inFast = false := by
    intro h; rcases hactm with h' | h' <;> rw [h'] at h <;> cases h
  have hv : T.act m.mode b = .valDigit → cfg.fastInt = false := by
    intro h; rcases hactm with h' | h' <;> rw [h'] at h <;> cases h
  have hsr := slow_rel hT cfg s m b hrel.nf hrel.flag hrel.ns hrel.nm hd hv
  cases hm : step T cfg m b with
  | error e =>
    rw [hm] at hsr
    cases hs : step T cfg.slow s b with
    | ok x => rw [hs] at hsr; simp [nfR] at hsr
    | error e' =>
      rw [hs] at hsr; simp only [nfR, Except.error.injEq] at hsr; subst hsr
      simp only [clrR, IterOK]
      rw [hdrop]; unfold runBytes; rw [hm]
  | ok m' =>
    rw [hm] at hsr
    cases hs : step T cfg.slow s b with
    | error e' => rw [hs] at hsr; simp [nfR] at hsr
    | ok x =>
      rw [hs] at hsr; simp only [nfR, Except.ok.injEq] at hsr
      simp only [clrR, IterOK]
      have hm'f : m'.inFast = false := step_inFast_false cfg m m' b hm hd hv
      have hwm : expected m'.mode 10 = .skipNewline := step_nl_mode hT cfg m m' b hm hactm
      have hxp : x.clr.pos = m'.pos := (nf_fields (show x.clr.nf = m'.nf from hsr)).2.2.2.2.2.2.1
      have hrun1 : runBytes T cfg m (buf.drop off) = runBytes T cfg m' (buf.drop (off + 1)) := by
        rw [hdrop]; conv => lhs; unfold runBytes
        rw [hm]
      have hrel' : ∀ K : Nat, Rel ({ x.clr with pos := x.clr.pos + K } : St) ({ m' with pos := m'.pos + K } : St) := by
        intro K
        refine ⟨?_, rfl, NmOK_clr (step_nm hT cfg.slow s x b hs hrel.ns), step_nm hT cfg m m' b hm hrel.nm⟩
        rw [hxp]
        exact nf_pos (show x.clr.nf = m'.nf from hsr) _ _ _
      rcases rangeWhile_spec (fun c => decide (T.act .space c = .skipChar)) (buf.drop (off + 1)) 0 (i, b) with
        ⟨hnil, he⟩ | ⟨pre, c, post, hsl, hp, he, _⟩
      · -- nothing behind the newline: `i` is stale, the loop ends
        rw [he]
        have hlen : buf.length ≤ off + 1 := List.drop_eq_nil_iff.mp hnil
        have hK : min (off + i + 1) buf.length - off - 1 = 0 := by omega
        simp only [hK]
        refine ⟨by omega, { m' with pos := m'.pos + 0 }, ?_, hrel' 0, ?_⟩
        · rw [hrun1, hnil, drop_nil_of_le buf (off + i + 1) (by omega), St.pos_add_zero]
        · exact ⟨fun hf => (by rw [hm'f] at hf; cases hf),
            fun hi => numInv_same rfl rfl (step_numInv hT cfg m m' b hm hi hrel.nm)⟩
      · rw [he]
        simp only [Nat.zero_add]
        rcases drop_split buf (off + 1) pre (c :: post) hsl with ⟨hd2, hlen2⟩ | hnil
        · have hK : min (off + pre.length + 1) buf.length - off - 1 = pre.length := by
            simp only [List.length_cons] at hlen2; omega
          simp only [hK]
          refine ⟨by omega, { m' with pos := m'.pos + pre.length }, ?_, hrel' pre.length, ?_⟩
          · rw [hrun1, hsl, C03.runBytes_append]
            have hall : ∀ c ∈ pre, T.act m'.mode c = .skipChar := by
              intro c hc
              have h1 := hp c hc
              simp only [decide_eq_true_eq] at h1
              rw [hT.act] at h1 ⊢
              exact ws_mode_fact m'.mode c hwm h1
            rw [wsRun cfg pre m' hall hm'f]
            simp only
            rw [show off + pre.length + 1 = off + 1 + pre.length by omega, hd2]
          · exact ⟨fun hf => (by rw [hm'f] at hf; cases hf),
              fun hi => numInv_same rfl rfl (step_numInv hT cfg m m' b hm hi hrel.nm)⟩
        · simp at hnil

end OjgVerif.Json
