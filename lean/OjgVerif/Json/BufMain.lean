import OjgVerif.Json.BufFrac
/-! # `runBuf` = fold of `step`: the buffer-level model of `parseBuffer` is the byte-at-a-time machine -/
namespace OjgVerif.Json
open OjgVerif

variable {T : Tables} (hT : TablesOK T) (cfg : Cfg)

theorem lit_byte_facts (md : Mode) (b : UInt8) :
    (expected md b = .valNull → b = 110) ∧ (expected md b = .valTrue → b = 116) ∧ (expected md b = .valFalse → b = 102) := by
  have := forall_mode_byte (fun md b => (!(expected md b == .valNull) || b == 110) &&
    (!(expected md b == .valTrue) || b == 116) && (!(expected md b == .valFalse) || b == 102)) (by decide +kernel) md b
  simp only [Bool.and_eq_true, Bool.or_eq_true, Bool.not_eq_true', beq_eq_false_iff_ne, beq_iff_eq] at this
  obtain ⟨⟨h1, h2⟩, h3⟩ := this
  refine ⟨?_, ?_, ?_⟩ <;> intro h
  · exact h1.resolve_left (by simp [h])
  · exact h2.resolve_left (by simp [h])
  · exact h3.resolve_left (by simp [h])

include hT in
/-- **one iteration of the buffer loop, every case** -/
theorem iter_spec (fp : FP) (hfi : cfg.fastInt = fp.int) (buf : Bytes) (s m : St) (off i : Nat) (b : UInt8)
    (hb : buf[off]? = some b) (hrel : Rel s m) (hside : Side T buf m off) (hinv : NumInv m) :
    IterOK T cfg buf m off (iterBuf T cfg fp buf s off i b) := by
  have emode : s.mode = m.mode := (nf_fields hrel.nf).1
  have hvne : T.act s.mode b ≠ .valDigit → (T.act m.mode b = .valDigit → cfg.fastInt = false) := by
    intro h1 h2; rw [← emode] at h2; exact absurd h2 h1
  cases hact : T.act s.mode b
  case skipNewline =>
    by_cases hws : fp.ws = true
    · exact iter_ws hT cfg fp hws buf s m off i b hb hrel (Or.inl hact)
    · exact iter_slow hT cfg fp buf s m off i b hb hrel hside (by unfold caseBuf; simp only [hact, hws]; rfl)
        (hvne (by rw [hact]; simp))
  case numNewline =>
    by_cases hws : fp.ws = true
    · exact iter_ws hT cfg fp hws buf s m off i b hb hrel (Or.inr hact)
    · exact iter_slow hT cfg fp buf s m off i b hb hrel hside (by unfold caseBuf; simp only [hact, hws]; rfl)
        (hvne (by rw [hact]; simp))
  case keyQuote =>
    by_cases hstr : fp.str = true
    · exact iter_quote hT cfg fp hstr buf s m off i b hb hrel hside true (by simpa using hact)
    · exact iter_slow hT cfg fp buf s m off i b hb hrel hside (by unfold caseBuf; simp only [hact, hstr]; rfl)
        (hvne (by rw [hact]; simp))
  case valQuote =>
    by_cases hstr : fp.str = true
    · exact iter_quote hT cfg fp hstr buf s m off i b hb hrel hside false (by simpa using hact)
    · exact iter_slow hT cfg fp buf s m off i b hb hrel hside (by unfold caseBuf; simp only [hact, hstr]; rfl)
        (hvne (by rw [hact]; simp))
  case valNull =>
    have hb110 : b = 110 := (lit_byte_facts s.mode b).1 (by rw [← hT.act]; exact hact)
    subst hb110
    by_cases hlit : fp.lit = true
    · exact iter_lit hT cfg fp buf s m off i _ hb hrel hside litNull .null .null 3
        (by unfold caseBuf; simp only [hact, hlit, ↓reduceIte])
        (by unfold caseSlow stepAct; simp only [hact])
        rfl
        (fun rest => run_lit4 cfg (bLit_null hT) m rest (Or.inl ⟨by rw [← emode]; exact hact, rfl⟩))
        (hvne (by rw [hact]; simp))
    · exact iter_slow hT cfg fp buf s m off i _ hb hrel hside (by unfold caseBuf; simp only [hact, hlit]; rfl)
        (hvne (by rw [hact]; simp))
  case valTrue =>
    have hb116 : b = 116 := (lit_byte_facts s.mode b).2.1 (by rw [← hT.act]; exact hact)
    subst hb116
    by_cases hlit : fp.lit = true
    · exact iter_lit hT cfg fp buf s m off i _ hb hrel hside litTrue (.bool true) .true_ 3
        (by unfold caseBuf; simp only [hact, hlit, ↓reduceIte])
        (by unfold caseSlow stepAct; simp only [hact])
        rfl
        (fun rest => run_lit4 cfg (bLit_true hT) m rest (Or.inr (Or.inl ⟨by rw [← emode]; exact hact, rfl⟩)))
        (hvne (by rw [hact]; simp))
    · exact iter_slow hT cfg fp buf s m off i _ hb hrel hside (by unfold caseBuf; simp only [hact, hlit]; rfl)
        (hvne (by rw [hact]; simp))
  case valFalse =>
    have hb102 : b = 102 := (lit_byte_facts s.mode b).2.2 (by rw [← hT.act]; exact hact)
    subst hb102
    by_cases hlit : fp.lit = true
    · exact iter_lit hT cfg fp buf s m off i _ hb hrel hside litFalse (.bool false) .false_ 4
        (by unfold caseBuf; simp only [hact, hlit, ↓reduceIte])
        (by unfold caseSlow stepAct; simp only [hact])
        rfl
        (fun rest => run_lit5 cfg (bLit_false hT) m rest (Or.inr (Or.inr ⟨by rw [← emode]; exact hact, rfl⟩)))
        (hvne (by rw [hact]; simp))
    · exact iter_slow hT cfg fp buf s m off i _ hb hrel hside (by unfold caseBuf; simp only [hact, hlit]; rfl)
        (hvne (by rw [hact]; simp))
  case valDigit =>
    by_cases hint : fp.int = true
    · exact iter_int hT cfg fp hint (by rw [hfi]; exact hint) buf s m off i b hb hrel hact
    · exact iter_slow hT cfg fp buf s m off i b hb hrel hside (by unfold caseBuf; simp only [hact, hint]; rfl)
        (fun _ => by rw [hfi]; simpa using hint)
  case numDot =>
    by_cases hfrac : fp.frac = true
    · exact iter_frac hT cfg fp hfrac buf s m off i b hb hrel hside hinv hact
    · exact iter_slow hT cfg fp buf s m off i b hb hrel hside (by unfold caseBuf; simp only [hact, hfrac]; rfl)
        (hvne (by rw [hact]; simp))
  all_goals
    exact iter_slow hT cfg fp buf s m off i b hb hrel hside (by unfold caseBuf; simp only [hact])
      (hvne (by rw [hact]; simp))


/-- two outcomes agree: the same error, or related states -/
def Sim2 : Except Err St → Except Err St → Prop
  | .ok s, .ok m => Rel s m
  | .error e, .error e' => e = e'
  | _, _ => False

include hT in
/-- **the buffer loop is the byte machine over the rest of the buffer** -/
theorem loop_sim (fp : FP) (hfi : cfg.fastInt = fp.int) (buf : Bytes) :
    ∀ (fuel off : Nat) (s m : St) (i : Nat), buf.length - off ≤ fuel → Rel s m → Side T buf m off → NumInv m →
      Sim2 (loopBuf T cfg fp buf fuel s off i) (runBytes T cfg m (buf.drop off)) := by
  intro fuel
  induction fuel with
  | zero =>
    intro off s m i hfuel hrel _ _
    rw [drop_nil_of_le buf off (by omega)]
    exact hrel
  | succ fuel ih =>
    intro off s m i hfuel hrel hside hinv
    unfold loopBuf
    cases hb : buf[off]? with
    | none =>
      have : buf.length ≤ off := by
        rcases Nat.lt_or_ge off buf.length with h | h
        · rw [List.getElem?_eq_getElem h] at hb; cases hb
        · exact h
      rw [drop_nil_of_le buf off this]
      exact hrel
    | some b =>
      have hit := iter_spec hT cfg fp hfi buf s m off i b hb hrel hside hinv
      simp only
      cases hr : iterBuf T cfg fp buf s off i b with
      | error e =>
        rw [hr] at hit
        simp only [IterOK] at hit
        rw [hit]; exact rfl
      | ok p =>
        obtain ⟨s', off', i'⟩ := p
        rw [hr] at hit
        simp only [IterOK] at hit
        obtain ⟨hlt, m', hrun, hrel', hside', hinv'⟩ := hit
        simp only
        rw [hrun]
        exact ih off' s' m' i' (by omega) hrel' hside' (hinv' hinv)

theorem Sim2.nfR {x y : Except Err St} (h : Sim2 x y) : nfR x = nfR y := by
  cases x <;> cases y <;> simp only [Sim2] at h
  · rw [h]
  · exact congrArg Except.ok h.nf

theorem side_of_flag (T : Tables) (buf : Bytes) (m : St) (off : Nat) (h : m.inFast = false) : Side T buf m off := by
  intro hf; rw [h] at hf; cases hf

include hT in
/-- **`runBuf_eq_fold`.** One call of `parseBuffer` on one buffer — whitespace skip, string scan, literal
look-ahead, integer loop, fraction loop, stale loop variables and all — ends in the state the
byte-at-a-time machine reaches by folding `step` over the buffer, up to the fields that are dead in the
mode reached and the ghost flag of the pinned integer loop; or both stop with the same error. In
particular no slice expression of the fast paths is ever out of range (`fault` outcomes of `runBuf`
are the byte machine's, which `run_no_fault` excludes). -/
theorem runBuf_eq_fold (fp : FP) (hfi : cfg.fastInt = fp.int) (s m : St) (buf : Bytes)
    (hrel : Rel s m) (hflag : m.inFast = false) (hinv : NumInv m) :
    Sim2 (runBuf T cfg fp s buf) (runBytes T cfg m buf) := by
  have := loop_sim hT cfg fp hfi buf buf.length 0 s m 0 (by omega) hrel (side_of_flag T buf m 0 hflag) hinv
  simpa [runBuf] using this

include hT in
theorem runBytes_inv (bs : Bytes) : ∀ (m m' : St), runBytes T cfg m bs = .ok m' → NmOK m → NumInv m →
    NmOK m' ∧ NumInv m' := by
  induction bs with
  | nil => intro m m' h hn hi; simp only [runBytes, Except.ok.injEq] at h; subst h; exact ⟨hn, hi⟩
  | cons b r ih =>
    intro m m' h hn hi
    unfold runBytes at h
    cases hs : step T cfg m b with
    | error e => rw [hs] at h; cases h
    | ok m1 =>
      rw [hs] at h
      exact ih m1 m' h (step_nm hT cfg m m1 b hs hn) (step_numInv hT cfg m m1 b hs hi hn)

include hT in
/-- the read buffers one after the other -/
theorem chunks_sim (fp : FP) (hfi : cfg.fastInt = fp.int) (cs : List Bytes) : ∀ (s m : St),
    Rel s m → m.inFast = false → NumInv m →
    Sim2 (runBufChunks T cfg fp s cs) (runChunks T cfg m cs) := by
  induction cs with
  | nil => intro s m hrel _ _; exact hrel
  | cons c rest ih =>
    intro s m hrel hflag hinv
    unfold runBufChunks runChunks
    have h1 := runBuf_eq_fold hT cfg fp hfi s m c hrel hflag hinv
    cases hx : runBuf T cfg fp s c with
    | error e =>
      cases hy : runBytes T cfg m c with
      | error e' => rw [hx, hy] at h1; exact h1
      | ok m' => rw [hx, hy] at h1; exact h1.elim
    | ok s' =>
      cases hy : runBytes T cfg m c with
      | error e' => rw [hx, hy] at h1; exact h1.elim
      | ok m' =>
        rw [hx, hy] at h1
        simp only
        have hinv' := runBytes_inv hT cfg c m m' hy hrel.nm hinv
        have hrel' : Rel s' ({ m' with inFast := false } : St) :=
          ⟨h1.nf, h1.flag, h1.ns, h1.nm⟩
        exact ih s' _ hrel' rfl (numInv_same rfl rfl hinv'.2)

theorem finish_nf (T : Tables) {a b : St} (h : a.nf = b.nf) : finish T a = finish T b := by
  obtain ⟨e1, e2, e3, e4, e5, e6, e7, e8⟩ := nf_fields h
  unfold finish St.addNum St.add St.err
  simp only [e1, e2, e3, e4, e5, e6, e7, e8]
  split
  · rfl
  · split
    · cases addItem b.num.asNum.toJV b.stack <;> rfl
    · rfl

theorem rel_init : Rel ({} : St) ({} : St) := ⟨rfl, rfl, NmOK.init, NmOK.init⟩

include hT in
/-- **The entry points over the buffer-level model are the entry points over the byte machine**: for
every configuration whose integer fast loop is the one the buffer model transcribes, every input and
every chunking, same documents with the same values or the same error at the same position. -/
theorem runB_eq_run (fp : FP) (hfi : cfg.fastInt = fp.int) (chunks : List Bytes) :
    runB T cfg fp chunks = run T cfg chunks := by
  unfold runB run
  simp only
  generalize (if cfg.reader = true then topUp (chunks.filter (!·.isEmpty)) else chunks) = cs
  cases cs with
  | nil => rfl
  | cons c rest =>
    simp only
    generalize (if cfg.reader = true then bomRuleReader c else bomRule c) = br
    cases br with
    | bad => rfl
    | strip r =>
      simp only
      have h := chunks_sim hT cfg fp hfi (r :: rest) {} {} rel_init rfl NumInv.init
      cases hx : runBufChunks T cfg fp {} (r :: rest) <;> cases hy : runChunks T cfg {} (r :: rest) <;>
        rw [hx, hy] at h <;> simp only [Sim2] at h
      · rw [h]
      · exact finish_nf T h.nf
    | keep =>
      simp only
      have h := chunks_sim hT cfg fp hfi (c :: rest) {} {} rel_init rfl NumInv.init
      cases hx : runBufChunks T cfg fp {} (c :: rest) <;> cases hy : runChunks T cfg {} (c :: rest) <;>
        rw [hx, hy] at h <;> simp only [Sim2] at h
      · rw [h]
      · exact finish_nf T h.nf

end OjgVerif.Json
