import OjgVerif.Json.BufModel
import OjgVerif.Json.Lemmas
/-! # Dead fields of the machine state

The Go fast paths leave `p.tmp`, `p.nextMode`, `p.ri`, `p.rn` untouched where the byte-at-a-time route
writes them (a string scanned in one go never passes through `p.tmp`; a literal matched by look-ahead
never counts `p.ri`). Those fields are DEAD outside the string / literal / \\u modes: `St.cn` forgets
them there, and `stepAct_cn` shows that the action switch of the byte machine cannot tell a state from
its normal form (all 36 actions; the actions that read such a field occur only in the modes where it
is live — `act_mode_facts`, a kernel-evaluated fact about the reference transition function). -/
namespace OjgVerif.Json
open OjgVerif

def usesStr : Mode → Bool
  | .string | .esc | .u => true
  | _ => false
def usesRi : Mode → Bool
  | .null | .true_ | .false_ | .u => true
  | _ => false
def usesRn : Mode → Bool
  | .u => true
  | _ => false

/-- forget the fields that are dead in the current mode -/
def St.cn (s : St) : St :=
  { s with tmp := bif usesStr s.mode then s.tmp else [],
           nextMode := bif usesStr s.mode then s.nextMode else .after,
           ri := bif usesRi s.mode then s.ri else 0,
           rn := bif usesRn s.mode then s.rn else 0 }

def cnR : Except Err St → Except Err St
  | .ok s => .ok s.cn
  | .error e => .error e

def cnRB : Except Err (St × Bool) → Except Err (St × Bool)
  | .ok p => .ok (p.1.cn, p.2)
  | .error e => .error e

@[simp] theorem St.cn_mode (s : St) : s.cn.mode = s.mode := rfl
@[simp] theorem St.cn_err (s : St) (k : ErrKind) : s.cn.err k = s.err k := rfl
@[simp] theorem St.cn_starts (s : St) : s.cn.starts = s.starts := rfl
@[simp] theorem St.cn_stack (s : St) : s.cn.stack = s.stack := rfl
@[simp] theorem St.cn_num (s : St) : s.cn.num = s.num := rfl

theorem St.cn_cn (s : St) : s.cn.cn = s.cn := by
  simp only [St.cn]
  cases usesStr s.mode <;> cases usesRi s.mode <;> cases usesRn s.mode <;> rfl

theorem act_mode_facts (m : Mode) (b : UInt8) :
    (expected m b = .strOk → m = .string) ∧ (expected m b = .strQuote → m = .string) ∧
    (expected m b = .strSlash → m = .string) ∧ (expected m b = .escOk → m = .esc) ∧
    (expected m b = .escU → m = .esc) ∧ (expected m b = .uOk → m = .u) ∧
    (expected m b = .tokenOk → ((m = .null ∨ m = .true_) ∨ m = .false_)) := by
  have := forall_mode_byte (fun m b =>
    (!(expected m b == .strOk) || m == .string) && (!(expected m b == .strQuote) || m == .string) &&
    (!(expected m b == .strSlash) || m == .string) && (!(expected m b == .escOk) || m == .esc) &&
    (!(expected m b == .escU) || m == .esc) && (!(expected m b == .uOk) || m == .u) &&
    (!(expected m b == .tokenOk) || (m == .null || m == .true_ || m == .false_))) (by decide +kernel) m b
  simp only [Bool.and_eq_true, Bool.or_eq_true, Bool.not_eq_true', beq_eq_false_iff_ne, beq_iff_eq] at this
  obtain ⟨⟨⟨⟨⟨⟨h1, h2⟩, h3⟩, h4⟩, h5⟩, h6⟩, h7⟩ := this
  refine ⟨?_, ?_, ?_, ?_, ?_, ?_, ?_⟩ <;> intro h
  · exact h1.resolve_left (by simp [h])
  · exact h2.resolve_left (by simp [h])
  · exact h3.resolve_left (by simp [h])
  · exact h4.resolve_left (by simp [h])
  · exact h5.resolve_left (by simp [h])
  · exact h6.resolve_left (by simp [h])
  · exact h7.resolve_left (by simp [h])

theorem St.add_cn (s : St) (v : JV) : cnR (s.add v) = cnR (s.cn.add v) := by
  unfold St.add
  simp only [St.cn_stack, St.cn_err]
  cases addItem v s.stack with
  | error w => rfl
  | ok st =>
    simp only [cnR, St.cn]
    cases usesStr s.mode <;> cases usesRi s.mode <;> cases usesRn s.mode <;> rfl


macro "cn_gen" : tactic =>
  `(tactic| (rename_i s0; obtain ⟨mode, _, _, _, _, _, _, _, _, _, _, _, _⟩ := s0; cases mode <;> rfl))

theorem cn_bind {x y : Except Err St} {k k' : St → Except Err (St × Bool)}
    (hxy : cnR x = cnR y) (hk : ∀ a b : St, a.cn = b.cn → cnRB (k a) = cnRB (k' b)) :
    cnRB (x >>= k) = cnRB (y >>= k') := by
  cases x with
  | error e => cases y with
    | error e' => simp only [cnR] at hxy; cases hxy; rfl
    | ok b => simp [cnR] at hxy
  | ok a => cases y with
    | error e' => simp [cnR] at hxy
    | ok b =>
      simp only [cnR, Except.ok.injEq] at hxy
      exact hk a b hxy

theorem cn_fields {a b : St} (h : a.cn = b.cn) :
    a.mode = b.mode ∧ a.starts = b.starts ∧ a.stack = b.stack ∧ a.docs = b.docs ∧ a.num = b.num ∧
    a.line = b.line ∧ a.pos = b.pos ∧ a.nl = b.nl ∧ a.inFast = b.inFast :=
  ⟨(congrArg St.mode h : a.cn.mode = b.cn.mode), (congrArg St.starts h : a.cn.starts = b.cn.starts),
   (congrArg St.stack h : a.cn.stack = b.cn.stack), (congrArg St.docs h : a.cn.docs = b.cn.docs),
   (congrArg St.num h : a.cn.num = b.cn.num), (congrArg St.line h : a.cn.line = b.cn.line),
   (congrArg St.pos h : a.cn.pos = b.cn.pos), (congrArg St.nl h : a.cn.nl = b.cn.nl),
   (congrArg St.inFast h : a.cn.inFast = b.cn.inFast)⟩

theorem cn_ab_elim {P : St → St → Prop}
    (hP : ∀ (m nm1 nm2 : Mode) (st : List Bool) (sk : List Item) (dc : List JV) (tm1 tm2 : Bytes)
      (ri1 ri2 rn1 rn2 : Nat) (nu : Num) (li po : Nat) (nl : Int) (fa : Bool),
      P ⟨m, nm1, st, sk, dc, tm1, ri1, rn1, nu, li, po, nl, fa⟩ ⟨m, nm2, st, sk, dc, tm2, ri2, rn2, nu, li, po, nl, fa⟩) :
    ∀ a b : St, a.cn = b.cn → P a b := by
  intro a b h
  obtain ⟨e1, e2, e3, e4, e5, e6, e7, e8, e9⟩ := cn_fields h
  obtain ⟨am, anm, ast, ask, ado, atm, ari, arn, anu, ali, apo, anl, afa⟩ := a
  obtain ⟨bm, bnm, bst, bsk, bdo, btm, bri, brn, bnu, bli, bpo, bnl, bfa⟩ := b
  simp only at e1 e2 e3 e4 e5 e6 e7 e8 e9
  subst e1 e2 e3 e4 e5 e6 e7 e8 e9
  exact hP _ _ _ _ _ _ _ _ _ _ _ _ _ _ _ _ _

theorem cn_rel {f : St → Except Err St} (hf : ∀ s, cnR (f s) = cnR (f s.cn)) {a b : St} (h : a.cn = b.cn) :
    cnR (f a) = cnR (f b) := by rw [hf a, hf b, h]

/-- updating live-independent fields and moving to a mode in which all four fields are dead -/
theorem cn_dead {a b : St} (h : a.cn = b.cn) (m : Mode) (hs : usesStr m = false) (hr : usesRi m = false)
    (hn : usesRn m = false) (l : Nat) (n : Int) :
    ({ a with mode := m, line := l, nl := n } : St).cn = ({ b with mode := m, line := l, nl := n } : St).cn := by
  obtain ⟨h1, h2, h3, h4, h5, h6, h7, h8, h9⟩ := cn_fields h
  simp only [St.cn, hs, hr, hn, cond_false, h2, h3, h4, h5, h7, h9]

theorem St.addNum_cn (s : St) : cnR s.addNum = cnR s.cn.addNum := St.add_cn s _

theorem St.popObj_cn (s : St) (rest : List Bool) : cnR (s.popObj rest) = cnR (s.cn.popObj rest) := by
  unfold St.popObj
  simp only [St.cn_stack, St.cn_err]
  cases s.stack with
  | nil => rfl
  | cons top below =>
    simp only
    rw [St.add_cn, St.add_cn ({ s.cn with starts := rest, stack := below } : St)]
    congr 2
    simp only [St.cn]
    cases usesStr s.mode <;> cases usesRi s.mode <;> cases usesRn s.mode <;> rfl

theorem St.popArr_cn (s : St) (rest : List Bool) : cnR (s.popArr rest) = cnR (s.cn.popArr rest) := by
  unfold St.popArr
  simp only [St.cn_stack, St.cn_err]
  cases splitAtMark s.stack [] with
  | none => rfl
  | some p =>
    simp only
    rw [St.add_cn, St.add_cn ({ s.cn with starts := rest, stack := p.2 } : St)]
    congr 2
    simp only [St.cn]
    cases usesStr s.mode <;> cases usesRi s.mode <;> cases usesRn s.mode <;> rfl

theorem St.flushNum_cn (T : Tables) (s : St) : cnR (s.flushNum T) = cnR (s.cn.flushNum T) := by
  unfold St.flushNum
  simp only [St.cn_mode]
  by_cases h : T.fin s.mode = .n
  · simp only [h, ↓reduceIte]; exact St.addNum_cn s
  · simp only [h, ↓reduceIte, cnR, St.cn_cn]

theorem stepToken_cn (T : Tables) (s : St) (b : UInt8)
    (hm : (s.mode = .null ∨ s.mode = .true_) ∨ s.mode = .false_) :
    cnR (stepToken T s b) = cnR (stepToken T s.cn b) := by
  obtain ⟨mode, nextMode, starts, stack, docs, tmp, ri, rn, num, line, pos, nl, inFast⟩ := s
  simp only at hm
  have hadd : ∀ (x : St) (v : JV), cnR (x.add v) = cnR (x.cn.add v) := St.add_cn
  have hs : usesStr mode = false := by rcases hm with (hm | hm) | hm <;> subst hm <;> rfl
  have hr : usesRi mode = true := by rcases hm with (hm | hm) | hm <;> subst hm <;> rfl
  have hn : usesRn mode = false := by rcases hm with (hm | hm) | hm <;> subst hm <;> rfl
  have hok : ∀ (nm : Mode) (t : Bytes) (q r : Nat),
      (⟨mode, nm, starts, stack, docs, t, r, q, num, line, pos, nl, inFast⟩ : St).cn =
      (⟨mode, .after, starts, stack, docs, [], r, 0, num, line, pos, nl, inFast⟩ : St).cn := by
    intro nm t q r; simp only [St.cn, hs, hr, hn, cond_true, cond_false]
  have had : ∀ (nm : Mode) (t : Bytes) (q r : Nat) (v : JV),
      cnR ((⟨.after, nm, starts, stack, docs, t, r, q, num, line, pos, nl, inFast⟩ : St).add v) =
      cnR ((⟨.after, .after, starts, stack, docs, [], r, 0, num, line, pos, nl, inFast⟩ : St).add v) := by
    intro nm t q r v; rw [St.add_cn, St.add_cn ⟨.after, .after, starts, stack, docs, [], r, 0, num, line, pos, nl, inFast⟩]; rfl
  unfold stepToken
  simp only [St.cn, hs, hr, hn, cond_true, cond_false, St.err]
  by_cases h1 : T.act mode 114 = .tokenOk
  · simp only [h1, ↓reduceIte]
    by_cases h2 : [116, 114, 117, 101].getD (ri + 1) 0 = b
    · simp only [h2, ↓reduceIte]
      by_cases h3 : 3 ≤ ri + 1
      · simp only [h3, ↓reduceIte]; exact had _ _ _ _ _
      · simp only [h3, ↓reduceIte, cnR]; exact congrArg _ (hok _ _ _ _)
    · simp only [h2, ↓reduceIte]
  · simp only [h1, ↓reduceIte]
    by_cases h4 : T.act mode 97 = .tokenOk
    · simp only [h4, ↓reduceIte]
      by_cases h2 : [102, 97, 108, 115, 101].getD (ri + 1) 0 = b
      · simp only [h2, ↓reduceIte]
        by_cases h3 : 4 ≤ ri + 1
        · simp only [h3, ↓reduceIte]; exact had _ _ _ _ _
        · simp only [h3, ↓reduceIte, cnR]; exact congrArg _ (hok _ _ _ _)
      · simp only [h2, ↓reduceIte]
    · simp only [h4, ↓reduceIte]
      cases h5 : (decide (T.act mode 117 = .tokenOk) && decide (T.act mode 108 = .tokenOk))
      · simp only [Bool.false_eq_true, ↓reduceIte, cnR]; exact congrArg _ (hok _ _ _ _)
      · simp only [↓reduceIte]
        by_cases h2 : [110, 117, 108, 108].getD (ri + 1) 0 = b
        · simp only [h2, ↓reduceIte]
          by_cases h3 : 3 ≤ ri + 1
          · simp only [h3, ↓reduceIte]; exact had _ _ _ _ _
          · simp only [h3, ↓reduceIte, cnR]; exact congrArg _ (hok _ _ _ _)
        · simp only [h2, ↓reduceIte]

theorem stepAct_cn {T : Tables} (hT : TablesOK T) (cfg : Cfg) (s : St) (b : UInt8)
    (hnm : s.nextMode = .after ∨ s.nextMode = .colon) :
    cnRB (stepAct T cfg s b) = cnRB (stepAct T cfg s.cn b) := by
  have hf := act_mode_facts s.mode b
  rw [← hT.act] at hf
  obtain ⟨h1, h2, h3, h4, h5, h6, h7⟩ := hf
  unfold stepAct
  simp only [St.cn_mode, St.cn_err, St.cn_starts, St.cn_num]
  cases hact : T.act s.mode b
  case strOk =>
    have hm := h1 hact
    obtain ⟨mode, nextMode, starts, stack, docs, tmp, ri, rn, num, line, pos, nl, inFast⟩ := s
    simp only at hm; subst hm; rfl
  case strSlash =>
    have hm := h3 hact
    obtain ⟨mode, nextMode, starts, stack, docs, tmp, ri, rn, num, line, pos, nl, inFast⟩ := s
    simp only at hm; subst hm; rfl
  case escOk =>
    have hm := h4 hact
    obtain ⟨mode, nextMode, starts, stack, docs, tmp, ri, rn, num, line, pos, nl, inFast⟩ := s
    simp only at hm; subst hm; rfl
  case escU =>
    have hm := h5 hact
    obtain ⟨mode, nextMode, starts, stack, docs, tmp, ri, rn, num, line, pos, nl, inFast⟩ := s
    simp only at hm; subst hm; rfl
  case uOk =>
    have hm := h6 hact
    obtain ⟨mode, nextMode, starts, stack, docs, tmp, ri, rn, num, line, pos, nl, inFast⟩ := s
    simp only at hm; subst hm
    rfl
  case afterComma =>
    simp only [afterCommaMode, St.cn_starts]
    obtain ⟨mode, nextMode, starts, stack, docs, tmp, ri, rn, num, line, pos, nl, inFast⟩ := s
    cases starts with
    | nil => cases mode <;> rfl
    | cons x r => cases x <;> cases mode <;> rfl
  case strQuote =>
    have hm := h2 hact
    obtain ⟨mode, nextMode, starts, stack, docs, tmp, ri, rn, num, line, pos, nl, inFast⟩ := s
    simp only at hm hnm; subst hm
    simp only [St.cn, usesStr, usesRi, usesRn, cond_true, cond_false]
    rcases hnm with hnm | hnm <;> subst hnm
    · by_cases hc : T.act .after 58 = .colonColon
      · simp only [hc, ↓reduceIte]; rfl
      · simp only [hc, ↓reduceIte]
        apply cn_bind
        · rw [St.add_cn, St.add_cn ({ mode := .after, nextMode := .after, starts := starts, stack := stack, docs := docs, tmp := tmp, ri := 0, rn := 0, num := num, line := line, pos := pos, nl := nl, inFast := inFast } : St)]
          rfl
        · intro a b hab; simp only [pure, Except.pure, cnRB, hab]
    · by_cases hc : T.act .colon 58 = .colonColon
      · simp only [hc, ↓reduceIte]; rfl
      · simp only [hc, ↓reduceIte]
        apply cn_bind
        · rw [St.add_cn, St.add_cn ({ mode := .colon, nextMode := .colon, starts := starts, stack := stack, docs := docs, tmp := tmp, ri := 0, rn := 0, num := num, line := line, pos := pos, nl := nl, inFast := inFast } : St)]
          rfl
        · intro a b hab; simp only [pure, Except.pure, cnRB, hab]
  case numComma =>
    simp only
    refine cn_bind (St.addNum_cn s) (cn_ab_elim ?_)
    intro m nm1 nm2 st sk dc tm1 tm2 ri1 ri2 rn1 rn2 nu li po nl fa
    cases st with
    | nil => rfl
    | cons x r => cases x <;> rfl
  case numSpc =>
    simp only
    refine cn_bind (St.addNum_cn s) (cn_ab_elim ?_)
    intros; rfl
  case numNewline =>
    simp only
    refine cn_bind (St.addNum_cn s) (cn_ab_elim ?_)
    intros; rfl
  case closeObject =>
    simp only
    cases hst : s.starts with
    | nil => rfl
    | cons x ss =>
      cases x with
      | true => rfl
      | false =>
        simp only
        by_cases hfv : T.fin s.mode = .v
        · simp only [hfv, ↓reduceIte]
        · simp only [hfv, ↓reduceIte]
          refine cn_bind (St.flushNum_cn T s) ?_
          intro a b hab
          refine cn_bind (cn_rel (fun z => St.popObj_cn z ss) hab) (cn_ab_elim ?_)
          intros; rfl
  case closeArray =>
    simp only
    cases hst : s.starts with
    | nil => rfl
    | cons x ss =>
      cases x with
      | false => rfl
      | true =>
        simp only
        refine cn_bind (St.flushNum_cn T s) ?_
        intro a b hab
        refine cn_bind (cn_rel (fun z => St.popArr_cn z ss) hab) (cn_ab_elim ?_)
        intros; rfl
  case tokenOk =>
    simp only
    refine cn_bind (stepToken_cn T s b (h7 hact)) ?_
    intro a b hab; simp only [pure, Except.pure, cnRB, hab]
  case charErr => rfl
  all_goals (obtain ⟨mode, _, _, _, _, _, _, _, _, _, _, _, _⟩ := s; cases mode <;> rfl)

end OjgVerif.Json
