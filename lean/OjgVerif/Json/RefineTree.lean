import OjgVerif.Json.RefineSpec
/-! Structure of the returned tree: the grammar over any number conversion returns the tree of the
grammar over number literals with each literal converted (used by C02). -/
namespace OjgVerif.Json
open OjgVerif

mutual
  /-- replace every number literal of a specification tree by its conversion -/
  def JV.mapNum (nc : Bytes → JV) : JV → JV
    | .num lit => nc lit
    | .arr xs => .arr (JV.mapNumList nc xs)
    | .obj kvs => .obj (JV.mapNumKvs nc kvs)
    | .null => .null
    | .bool b => .bool b
    | .int i => .int i
    | .flt t => .flt t
    | .big t => .big t
    | .str s => .str s
  def JV.mapNumList (nc : Bytes → JV) : List JV → List JV
    | [] => []
    | x :: r => JV.mapNum nc x :: JV.mapNumList nc r
  def JV.mapNumKvs (nc : Bytes → JV) : List (Bytes × JV) → List (Bytes × JV)
    | [] => []
    | (k, v) :: r => (k, JV.mapNum nc v) :: JV.mapNumKvs nc r
end

theorem mapNumList_eq (nc : Bytes → JV) (xs : List JV) : JV.mapNumList nc xs = xs.map (JV.mapNum nc) := by
  induction xs with
  | nil => rfl
  | cons x r ih => simp [JV.mapNumList, ih]

theorem mapNumKvs_eq (nc : Bytes → JV) (kvs : List (Bytes × JV)) :
    JV.mapNumKvs nc kvs = kvs.map (fun p => (p.1, JV.mapNum nc p.2)) := by
  induction kvs with
  | nil => rfl
  | cons p r ih => obtain ⟨k, v⟩ := p; simp [JV.mapNumKvs, ih]

theorem mapNumKvs_insert (nc : Bytes → JV) (k : Bytes) (v : JV) (kvs : List (Bytes × JV)) :
    JV.mapNumKvs nc (kvInsert k v kvs) = kvInsert k (JV.mapNum nc v) (JV.mapNumKvs nc kvs) := by
  induction kvs with
  | nil => rfl
  | cons p r ih =>
    obtain ⟨k', v'⟩ := p
    simp only [kvInsert, JV.mapNumKvs]
    by_cases h : k' = k
    · simp [h, JV.mapNumKvs]
    · simp [h, JV.mapNumKvs, ih]

/-- a value reader `q` returns the trees of `p` with numbers converted -/
def MapsNum (nc : Bytes → JV) (p q : Option (JV × Bytes)) : Prop :=
  q = p.map fun x => (JV.mapNum nc x.1, x.2)

theorem pElems_mapNum (nc : Bytes → JV) (pv1 pv2 : Bytes → Option (JV × Bytes))
    (h : ∀ bs, MapsNum nc (pv1 bs) (pv2 bs)) :
    ∀ (k : Nat) (bs : Bytes) (acc : List JV),
      MapsNum nc (Spec.pElems pv1 k bs acc) (Spec.pElems pv2 k bs (JV.mapNumList nc acc)) := by
  intro k
  induction k with
  | zero => intro bs acc; rfl
  | succ k ih =>
    intro bs acc
    simp only [Spec.pElems]
    cases Spec.skipWs bs with
    | nil => rfl
    | cons c r =>
      simp only
      by_cases h93 : c = 93
      · simp only [h93, ↓reduceIte, MapsNum, Option.map_some, JV.mapNum]
        rw [mapNumList_eq, mapNumList_eq, List.map_reverse]
      · simp only [h93, ↓reduceIte]
        by_cases h44 : c = 44
        · simp only [h44, ↓reduceIte]
          have := h (Spec.skipWs r)
          unfold MapsNum at this
          rw [this]
          cases pv1 (Spec.skipWs r) with
          | none => rfl
          | some p => obtain ⟨v, rest⟩ := p; exact ih rest (v :: acc)
        · simp only [h44, ↓reduceIte]; rfl

theorem pMemberG_mapNum (nc : Bytes → JV) (pc : Nat → Bytes → Option (Bytes × Bytes))
    (pv1 pv2 : Bytes → Option (JV × Bytes)) (h : ∀ bs, MapsNum nc (pv1 bs) (pv2 bs)) (bs : Bytes) :
    pMemberG pc pv2 bs = (pMemberG pc pv1 bs).map fun x => ((x.1.1, JV.mapNum nc x.1.2), x.2) := by
  cases bs with
  | nil => rfl
  | cons q r =>
    simp only [pMemberG]
    by_cases h34 : q = 34
    · simp only [h34, ↓reduceIte]
      cases pc r.length r with
      | none => rfl
      | some p =>
        obtain ⟨key, r1⟩ := p
        simp only
        cases Spec.skipWs r1 with
        | nil => rfl
        | cons c r2 =>
          simp only
          by_cases h58 : c = 58
          · simp only [h58, ↓reduceIte]
            have := h (Spec.skipWs r2)
            unfold MapsNum at this
            rw [this]
            cases pv1 (Spec.skipWs r2) with
            | none => rfl
            | some p => rfl
          · simp only [h58, ↓reduceIte]; rfl
    · simp only [h34, ↓reduceIte]; rfl

theorem pMembersG_mapNum (nc : Bytes → JV) (pm1 pm2 : Bytes → Option ((Bytes × JV) × Bytes))
    (h : ∀ bs, pm2 bs = (pm1 bs).map fun x => ((x.1.1, JV.mapNum nc x.1.2), x.2)) :
    ∀ (k : Nat) (bs : Bytes) (acc : List (Bytes × JV)),
      MapsNum nc (pMembersG pm1 k bs acc) (pMembersG pm2 k bs (JV.mapNumKvs nc acc)) := by
  intro k
  induction k with
  | zero => intro bs acc; rfl
  | succ k ih =>
    intro bs acc
    simp only [pMembersG]
    cases Spec.skipWs bs with
    | nil => rfl
    | cons c r =>
      simp only
      by_cases h125 : c = 125
      · simp only [h125, ↓reduceIte, MapsNum, Option.map_some, JV.mapNum]
      · simp only [h125, ↓reduceIte]
        by_cases h44 : c = 44
        · simp only [h44, ↓reduceIte]
          rw [h (Spec.skipWs r)]
          cases pm1 (Spec.skipWs r) with
          | none => rfl
          | some p =>
            obtain ⟨⟨key, v⟩, rest⟩ := p
            simp only [Option.map_some]
            rw [← mapNumKvs_insert]
            exact ih rest _
        · simp only [h44, ↓reduceIte]; rfl

/-- **Structure.** Whatever the number conversion, the grammar returns the same tree — same
nesting, element order, member names with the last duplicate winning, decoded strings — with each
number literal replaced by its conversion, and leaves the same rest. -/
theorem pValueG_mapNum (pc : Nat → Bytes → Option (Bytes × Bytes)) (nc : Bytes → JV) :
    ∀ (f : Nat) (bs : Bytes), MapsNum nc (pValueG pc JV.num f bs) (pValueG pc nc f bs) := by
  intro f
  induction f with
  | zero => intro bs; rfl
  | succ f ih =>
    intro bs
    cases bs with
    | nil => rfl
    | cons b r =>
      simp only [pValueG]
      by_cases h1 : b = 110
      · simp only [h1, ↓reduceIte, MapsNum]; cases Spec.startsWith r [117, 108, 108] <;> rfl
      · simp only [h1, ↓reduceIte]
        by_cases h2 : b = 116
        · simp only [h2, ↓reduceIte, MapsNum]; cases Spec.startsWith r [114, 117, 101] <;> rfl
        · simp only [h2, ↓reduceIte]
          by_cases h3 : b = 102
          · simp only [h3, ↓reduceIte, MapsNum]; cases Spec.startsWith r [97, 108, 115, 101] <;> rfl
          · simp only [h3, ↓reduceIte]
            by_cases h4 : b = 34
            · simp only [h4, ↓reduceIte, MapsNum]; cases pc r.length r <;> rfl
            · simp only [h4, ↓reduceIte]
              by_cases h5 : (b = 45 || Spec.isDigit b) = true
              · simp only [h5, ↓reduceIte, MapsNum]; cases Spec.pNumber (b :: r) <;> rfl
              · simp only [h5, Bool.false_eq_true, ↓reduceIte]
                by_cases h6 : b = 91
                · simp only [h6, ↓reduceIte]
                  cases Spec.skipWs r with
                  | nil => rfl
                  | cons c r' =>
                    simp only
                    by_cases h93 : c = 93
                    · simp only [h93, ↓reduceIte]; rfl
                    · simp only [h93, ↓reduceIte]
                      have := ih (c :: r')
                      unfold MapsNum at this
                      rw [this]
                      cases pValueG pc JV.num f (c :: r') with
                      | none => rfl
                      | some p =>
                        obtain ⟨v, rest⟩ := p
                        exact pElems_mapNum nc _ _ ih _ rest [v]
                · simp only [h6, ↓reduceIte]
                  by_cases h7 : b = 123
                  · simp only [h7, ↓reduceIte]
                    cases Spec.skipWs r with
                    | nil => rfl
                    | cons c r' =>
                      simp only
                      by_cases h125 : c = 125
                      · simp only [h125, ↓reduceIte]; rfl
                      · simp only [h125, ↓reduceIte]
                        have hm := pMemberG_mapNum nc pc _ _ ih
                        rw [hm (c :: r')]
                        cases pMemberG pc (pValueG pc JV.num f) (c :: r') with
                        | none => rfl
                        | some p =>
                          obtain ⟨⟨key, v⟩, rest⟩ := p
                          exact pMembersG_mapNum nc _ _ hm _ rest [(key, v)]
                  · simp only [h7, ↓reduceIte]; rfl


/-- the grammar over the machine's string reader with numbers kept as literals -/
def parseTextS (bs : Bytes) : Spec.Doc :=
  match Spec.skipWs bs with
  | [] => .none
  | b :: r =>
    match pValueG pCharsM JV.num (bs.length + 1) (b :: r) with
    | some (v, rest) => if (Spec.skipWs rest).isEmpty then .one v else .bad
    | none => .bad

def Spec.Doc.mapVal (g : JV → JV) : Spec.Doc → Spec.Doc
  | .none => .none
  | .one v => .one (g v)
  | .bad => .bad

theorem parseTextM_mapNum (bs : Bytes) : parseTextM bs = (parseTextS bs).mapVal (JV.mapNum numConv) := by
  unfold parseTextM parseTextS
  cases Spec.skipWs bs with
  | nil => rfl
  | cons b r =>
    simp only
    have := pValueG_mapNum pCharsM numConv (bs.length + 1) (b :: r)
    unfold MapsNum at this
    rw [show pValueM (bs.length + 1) (b :: r) = _ from this]
    cases pValueG pCharsM JV.num (bs.length + 1) (b :: r) with
    | none => rfl
    | some p =>
      obtain ⟨v, rest⟩ := p
      simp only [Option.map_some]
      cases (Spec.skipWs rest).isEmpty <;> rfl

/-- **C02, structure clause** (reference tables, one document): the tree returned is the tree of
the text — nesting, element order, member names with the last duplicate winning, every string
decoded escape by escape — with each number literal replaced by the accumulator's conversion of
exactly that literal. -/
theorem run_structure (bs : Bytes) :
    toOpt (run refTables cfg1 [bs]) = ((parseTextS (Spec.stripBOM bs)).mapVal (JV.mapNum numConv)).result := by
  rw [run_eq_grammar, parseTextM_mapNum]

end OjgVerif.Json
