import OjgVerif.Json.NumValueAcc
/-! # From the literal to the accumulator: the number automaton performs `acc`

A complete RFC 8259 number literal is `render p` for well-formed parts `p` with no leading zero
(`pNumber_parts`); scanning it from a value position performs exactly the accumulator operations
`acc p` (`numScan_render`): `AddDigit` over the integer digits, `.` passed through, `AddFrac` over the
fraction digits, `e`/`E` and the sign passed through, `AddExp` over the exponent digits. -/
namespace OjgVerif.Json
open OjgVerif

/-! ## The accumulator operations a literal triggers -/

def accInt (s : Bool) (ip : Bytes) : Num := ip.foldl Num.addDigit ({ neg := s } : Num)

def accFrac (n : Num) : Option Bytes → Num
  | none => n
  | some fs => fs.foldl Num.addFrac (passThru n 46)

def accSign (n : Num) : Bytes → Num
  | [] => n
  | c :: _ => signStep n c

def accExp (n : Num) : Option ExpPart → Num
  | none => n
  | some x => x.es.foldl Num.addExp (accSign (passThru n x.e) x.sg)

/-- the accumulator after all bytes of the literal `render p` -/
def acc (p : Parts) : Num := accExp (accFrac (accInt p.neg p.ip) p.fo) p.eo

/-- **the accumulator tracks the whole literal** -/
theorem tracks_acc (p : Parts) (hw : p.WF) : Tracks (acc p) p := by
  obtain ⟨s, ip, fo, eo⟩ := p
  obtain ⟨hip, _, hwf, hwe⟩ := hw
  simp only at hip hwf hwe
  unfold acc
  simp only
  -- integer digits
  have h0 : Tracks ({ neg := s } : Num) ⟨s, [], none, none⟩ :=
    Or.inl ⟨rfl, ⟨rfl, rfl, rfl, rfl, by simp [fracLen], rfl, rfl⟩, by simp [natOf]⟩
  have h1 : Tracks (accInt s ip) ⟨s, ip, none, none⟩ := by
    have := tracks_foldl_addDigit ip hip _ s [] h0
    simpa [accInt] using this
  -- fraction
  have h2 : Tracks (accFrac (accInt s ip) fo) ⟨s, ip, fo, none⟩ := by
    cases fo with
    | none => exact h1
    | some fs =>
      have := tracks_foldl_addFrac fs (hwf fs rfl).1 _ s ip [] Dig.nil (tracks_dot _ s ip h1)
      simpa [accFrac] using this
  -- exponent
  cases eo with
  | none => exact h2
  | some x =>
    obtain ⟨e, sg, es⟩ := x
    obtain ⟨he, hsg, hes, _⟩ := hwe _ rfl
    simp only at he hsg hes
    have h3 := tracks_e _ s ip fo e he h2
    have h4 : Tracks (accSign (passThru (accFrac (accInt s ip) fo) e) sg) ⟨s, ip, fo, some ⟨e, sg, []⟩⟩ := by
      rcases hsg with h | h | h <;> subst h
      · exact h3
      · exact tracks_sign _ s ip fo e 43 (Or.inl rfl) h3
      · exact tracks_sign _ s ip fo e 45 (Or.inr rfl) h3
    have := tracks_foldl_addExp es hes s ip fo hwf e sg _ [] h4
    simpa [accExp] using this

/-! ## Single steps of the number automaton -/

theorem expected_digit_classes (d : UInt8) (hd : Spec.isDigit d = true) :
    expected .dot d = .numFrac ∧ expected .frac d = .numFrac ∧
    expected .expSign d = .expDigit ∧ expected .expZero d = .expDigit ∧ expected .exp d = .expDigit := by
  have h := forall_mode_byte (fun _ b => !(Spec.isDigit b) ||
      (expected .dot b == .numFrac && expected .frac b == .numFrac && expected .expSign b == .expDigit &&
       expected .expZero b == .expDigit && expected .exp b == .expDigit)) (by decide +kernel) .value d
  simpa [hd, and_assoc] using h

theorem numStep_frac (m : Mode) (hm : m = .dot ∨ m = .frac) (n : Num) (d : UInt8) (hd : Spec.isDigit d = true) :
    numStep m n d = some (.frac, n.addFrac d) := by
  have h := expected_digit_classes d hd
  rcases hm with rfl | rfl
  · simp [numStep, h.1]
  · simp [numStep, h.2.1]

theorem numStep_exp (m : Mode) (hm : m = .expSign ∨ m = .expZero ∨ m = .exp) (n : Num) (d : UInt8)
    (hd : Spec.isDigit d = true) : numStep m n d = some (.exp, n.addExp d) := by
  have h := expected_digit_classes d hd
  rcases hm with rfl | rfl | rfl
  · simp [numStep, h.2.2.1]
  · simp [numStep, h.2.2.2.1]
  · simp [numStep, h.2.2.2.2]

theorem numStep_dot (m : Mode) (hm : m = .zero ∨ m = .digit) (n : Num) :
    numStep m n 46 = some (.dot, passThru n 46) := by
  rcases hm with rfl | rfl
  · simp [numStep, show expected .zero 46 = .numDot from rfl, passThru]
  · simp [numStep, show expected .digit 46 = .numDot from rfl, passThru]

theorem numStep_e (m : Mode) (hm : m = .zero ∨ m = .digit ∨ m = .frac) (n : Num) (e : UInt8) (he : e = 101 ∨ e = 69) :
    numStep m n e = some (.expSign, passThru n e) := by
  rcases hm with rfl | rfl | rfl <;> rcases he with rfl | rfl
  · simp [numStep, show expected .zero 101 = .fracE from rfl, passThru]
  · simp [numStep, show expected .zero 69 = .fracE from rfl, passThru]
  · simp [numStep, show expected .digit 101 = .fracE from rfl, passThru]
  · simp [numStep, show expected .digit 69 = .fracE from rfl, passThru]
  · simp [numStep, show expected .frac 101 = .fracE from rfl, passThru]
  · simp [numStep, show expected .frac 69 = .fracE from rfl, passThru]

theorem numStep_sign (n : Num) (c : UInt8) (hc : c = 43 ∨ c = 45) :
    numStep .expSign n c = some (.expZero, signStep n c) := by
  rcases hc with rfl | rfl
  · simp [numStep, show expected .expSign 43 = .expSign from rfl, signStep]
  · simp [numStep, show expected .expSign 45 = .expSign from rfl, signStep]

/-- a digit on a fresh accumulator: `AddDigit` just stores it -/
theorem addDigit_fresh (s : Bool) (d : UInt8) (hd : Spec.isDigit d = true) :
    ({ neg := s } : Num).addDigit d = { neg := s, i := (d - 48).toUInt64 } := by
  have hB := isDigitB_of_isDigit d hd
  have h9 := dval_le9 d hd
  have hnot : ¬ (MaxInt64 < (d - 48).toUInt64) := by
    rw [UInt64.lt_iff_toNat_lt, digit_toUInt64 d hB]
    have : MaxInt64.toNat = 9223372036854775807 := rfl
    omega
  have hle : (0 : UInt64) ≤ BigLimit := by decide
  have h0 : (0 : UInt64) * 10 + (d - 48).toUInt64 = (d - 48).toUInt64 := by
    rw [UInt64.zero_mul, UInt64.zero_add]
  unfold Num.addDigit
  simp only [List.length_nil, Nat.lt_irrefl, ↓reduceIte, hle, h0, hnot]

/-! ## Runs -/

theorem numScan_step {m m' : Mode} {n n' : Num} {b : UInt8} (h : numStep m n b = some (m', n')) (tail : Bytes) :
    numScan m n (b :: tail) = numScan m' n' tail := by
  simp only [numScan, h]

theorem numScan_run (m : Mode) (op : Num → UInt8 → Num)
    (hstep : ∀ n d, Spec.isDigit d = true → numStep m n d = some (m, op n d)) (ds : Bytes) (hds : Dig ds) :
    ∀ (n : Num) (tail : Bytes), numScan m n (ds ++ tail) = numScan m (ds.foldl op n) tail := by
  induction ds with
  | nil => intro n tail; rfl
  | cons d r ih =>
    intro n tail
    rw [List.cons_append, numScan_step (hstep n d hds.head), ih hds.tail]
    rfl

/-- exponent part, to the end of the literal -/
theorem numScan_expTxt (m : Mode) (hm : m = .zero ∨ m = .digit ∨ m = .frac) (n : Num) (eo : Option ExpPart)
    (hw : ∀ x, eo = some x → x.WF) : (numScan m n (expTxt eo)).2.1 = accExp n eo := by
  cases eo with
  | none => rfl
  | some x =>
    obtain ⟨e, sg, es⟩ := x
    obtain ⟨he, hsg, hes, hne⟩ := hw _ rfl
    simp only at he hsg hes hne
    obtain ⟨d, ds, rfl⟩ := List.exists_cons_of_ne_nil hne
    have hrun := numScan_run .exp Num.addExp (fun n d hd => numStep_exp .exp (Or.inr (Or.inr rfl)) n d hd) ds hes.tail
    simp only [expTxt, accExp, List.foldl_cons]
    rw [numScan_step (numStep_e m hm n e he)]
    rcases hsg with h | h | h <;> subst h
    · simp only [List.nil_append, accSign]
      rw [numScan_step (numStep_exp .expSign (Or.inl rfl) _ d hes.head)]
      have := hrun ((passThru n e).addExp d) []
      rw [List.append_nil] at this
      rw [this]; rfl
    · simp only [List.cons_append, List.nil_append, accSign]
      rw [numScan_step (numStep_sign _ 43 (Or.inl rfl)),
        numScan_step (numStep_exp .expZero (Or.inr (Or.inl rfl)) _ d hes.head)]
      have := hrun ((signStep (passThru n e) 43).addExp d) []
      rw [List.append_nil] at this
      rw [this]; rfl
    · simp only [List.cons_append, List.nil_append, accSign]
      rw [numScan_step (numStep_sign _ 45 (Or.inr rfl)),
        numScan_step (numStep_exp .expZero (Or.inr (Or.inl rfl)) _ d hes.head)]
      have := hrun ((signStep (passThru n e) 45).addExp d) []
      rw [List.append_nil] at this
      rw [this]; rfl

/-- fraction and exponent part, to the end of the literal -/
theorem numScan_fracTxt (m : Mode) (hm : m = .zero ∨ m = .digit) (n : Num) (fo : Option Bytes) (eo : Option ExpPart)
    (hwf : ∀ fs, fo = some fs → Dig fs ∧ fs ≠ []) (hwe : ∀ x, eo = some x → x.WF) :
    (numScan m n (fracTxt fo ++ expTxt eo)).2.1 = accExp (accFrac n fo) eo := by
  cases fo with
  | none =>
    simp only [fracTxt, List.nil_append, accFrac]
    exact numScan_expTxt m (by rcases hm with h | h <;> simp [h]) n eo hwe
  | some fs =>
    obtain ⟨hfs, hne⟩ := hwf fs rfl
    obtain ⟨d, ds, rfl⟩ := List.exists_cons_of_ne_nil hne
    simp only [fracTxt, List.cons_append, accFrac, List.foldl_cons]
    rw [numScan_step (numStep_dot m hm n), numScan_step (numStep_frac .dot (Or.inl rfl) _ d hfs.head),
      numScan_run .frac Num.addFrac (fun n d hd => numStep_frac .frac (Or.inr rfl) n d hd) ds hfs.tail]
    exact numScan_expTxt .frac (Or.inr (Or.inr rfl)) _ eo hwe

/-- no leading zero: the integer part is `0` or starts with `1`–`9` -/
def Lead (ip : Bytes) : Prop := ip = [48] ∨ ∃ d ds, ip = d :: ds ∧ Spec.isDigit19 d = true

/-- **the scan of a literal performs `acc`** -/
theorem numScan_render (p : Parts) (hw : p.WF) (hl : Lead p.ip) :
    (numScan .value {} (render p)).2.1 = acc p := by
  obtain ⟨s, ip, fo, eo⟩ := p
  obtain ⟨hip, _, hwf, hwe⟩ := hw
  simp only at hip hwf hwe hl
  unfold render acc
  simp only
  have hz : ∀ s : Bool, ({ neg := s } : Num).addDigit 48 = { neg := s } := fun s => by cases s <;> rfl
  cases s with
  | false =>
    simp only [sgnTxt, Bool.false_eq_true, ↓reduceIte, List.nil_append]
    rcases hl with rfl | ⟨d, ds, rfl, hd⟩
    · have hstep : numStep .value {} 48 = some (.zero, {}) := by
        simp [numStep, show expected .value 48 = .val0 from rfl, Num.reset]
      rw [List.cons_append, List.nil_append, numScan_step hstep,
        numScan_fracTxt .zero (Or.inl rfl) _ fo eo hwf hwe]
      simp only [accInt, List.foldl_cons, List.foldl_nil]
      rw [hz false]
    · have hd' := isDigit19_isDigit d hd
      have hstep : numStep .value {} d = some (.digit, ({ neg := false } : Num).addDigit d) := by
        rw [addDigit_fresh false d hd']
        simp [numStep, expected_value_digit19 d hd, Num.reset]
      rw [List.cons_append, numScan_step hstep,
        numScan_run .digit Num.addDigit (fun n d hd => numStep_digit n d hd) ds hip.tail,
        numScan_fracTxt .digit (Or.inr rfl) _ fo eo hwf hwe]
      rfl
  | true =>
    have hstep0 : numStep .value {} 45 = some (.neg, ({ neg := true } : Num)) := by
      simp [numStep, show expected .value 45 = .valNeg from rfl, Num.reset]
    simp only [sgnTxt, ↓reduceIte, List.cons_append, List.nil_append]
    rw [numScan_step hstep0]
    rcases hl with rfl | ⟨d, ds, rfl, hd⟩
    · have hstep : numStep .neg ({ neg := true } : Num) 48 = some (.zero, ({ neg := true } : Num)) := by
        simp [numStep, show expected .neg 48 = .numZero from rfl]
      rw [List.cons_append, List.nil_append, numScan_step hstep,
        numScan_fracTxt .zero (Or.inl rfl) _ fo eo hwf hwe]
      simp only [accInt, List.foldl_cons, List.foldl_nil]
      rw [hz true]
    · have hstep : numStep .neg ({ neg := true } : Num) d = some (.digit, ({ neg := true } : Num).addDigit d) := by
        simp [numStep, expected_neg_digit19 d hd]
      rw [List.cons_append, numScan_step hstep,
        numScan_run .digit Num.addDigit (fun n d hd => numStep_digit n d hd) ds hip.tail,
        numScan_fracTxt .digit (Or.inr rfl) _ fo eo hwf hwe]
      rfl

/-! ## A complete literal is `render p` -/

theorem pInt_shape (bs ip r1 : Bytes) (h : Spec.pInt bs = some (ip, r1)) : Dig ip ∧ ip ≠ [] ∧ Lead ip := by
  cases bs with
  | nil => cases h
  | cons d r =>
    simp only [Spec.pInt] at h
    by_cases h0 : d = 48
    · simp only [h0, ↓reduceIte, Option.some.injEq, Prod.mk.injEq] at h
      rw [← h.1]
      exact ⟨Dig.cons (by decide) Dig.nil, by simp, Or.inl rfl⟩
    · simp only [h0, ↓reduceIte] at h
      by_cases h19 : Spec.isDigit19 d = true
      · simp only [h19, ↓reduceIte, Option.some.injEq, Prod.mk.injEq] at h
        rw [← h.1]
        exact ⟨Dig.cons (isDigit19_isDigit d h19) (td_spec r).2.1, by simp, Or.inr ⟨d, _, rfl, h19⟩⟩
      · simp [h19] at h

theorem pFrac_shape (r1 fp r2 : Bytes) (h : Spec.pFrac r1 = some (fp, r2)) :
    ∃ fo, fp = fracTxt fo ∧ ∀ fs, fo = some fs → Dig fs ∧ fs ≠ [] := by
  cases r1 with
  | nil =>
    simp only [Spec.pFrac, Option.some.injEq, Prod.mk.injEq] at h
    exact ⟨none, h.1.symm, fun _ h => nomatch h⟩
  | cons c r =>
    simp only [Spec.pFrac] at h
    by_cases hc : c = 46
    · simp only [hc, ↓reduceIte] at h
      by_cases he : (Spec.takeDigits r).1.isEmpty = true
      · simp [he] at h
      · simp only [he, Bool.false_eq_true, ↓reduceIte, Option.some.injEq, Prod.mk.injEq] at h
        refine ⟨some (Spec.takeDigits r).1, h.1.symm, fun fs hfs => ?_⟩
        cases hfs
        exact ⟨(td_spec r).2.1, fun h0 => he (by rw [h0]; rfl)⟩
    · simp only [hc, ↓reduceIte, Option.some.injEq, Prod.mk.injEq] at h
      exact ⟨none, h.1.symm, fun _ h => nomatch h⟩

theorem pExp_shape (r2 ep r3 : Bytes) (h : Spec.pExp r2 = some (ep, r3)) :
    ∃ eo, ep = expTxt eo ∧ ∀ x, eo = some x → x.WF := by
  cases r2 with
  | nil =>
    simp only [Spec.pExp, Option.some.injEq, Prod.mk.injEq] at h
    exact ⟨none, h.1.symm, fun _ h => nomatch h⟩
  | cons e r =>
    simp only [Spec.pExp] at h
    by_cases he : (e = 101 || e = 69) = true
    · simp only [he, ↓reduceIte] at h
      by_cases hemp : (Spec.takeDigits (Spec.pExpSign r).2).1.isEmpty = true
      · simp [hemp] at h
      · simp only [hemp, Bool.false_eq_true, ↓reduceIte, Option.some.injEq, Prod.mk.injEq] at h
        refine ⟨some ⟨e, (Spec.pExpSign r).1, (Spec.takeDigits (Spec.pExpSign r).2).1⟩, h.1.symm, fun x hx => ?_⟩
        cases hx
        refine ⟨by simpa using he, ?_, (td_spec _).2.1,
          fun (h0 : (Spec.takeDigits (Spec.pExpSign r).2).1 = []) => hemp (by rw [h0]; rfl)⟩
        cases r with
        | nil => exact Or.inl rfl
        | cons sg r' =>
          simp only [Spec.pExpSign]
          by_cases hs : (sg = 43 || sg = 45) = true
          · simp only [hs, ↓reduceIte]
            simp only [Bool.or_eq_true, decide_eq_true_eq] at hs
            rcases hs with h | h <;> simp [h]
          · simp only [hs, Bool.false_eq_true, ↓reduceIte]
            exact Or.inl trivial
    · simp only [he, Bool.false_eq_true, ↓reduceIte, Option.some.injEq, Prod.mk.injEq] at h
      exact ⟨none, h.1.symm, fun _ h => nomatch h⟩

theorem pUnsigned_parts (bs lit rest : Bytes) (h : Spec.pUnsigned bs = some (lit, rest)) (s : Bool) :
    ∃ p : Parts, p.neg = s ∧ p.WF ∧ Lead p.ip ∧ sgnTxt s ++ lit = render p := by
  unfold Spec.pUnsigned at h
  cases hpi : Spec.pInt bs with
  | none => simp [hpi] at h
  | some q1 =>
    obtain ⟨ip, r1⟩ := q1
    simp only [hpi] at h
    cases hpf : Spec.pFrac r1 with
    | none => simp [hpf] at h
    | some q2 =>
      obtain ⟨fp, r2⟩ := q2
      simp only [hpf] at h
      cases hpe : Spec.pExp r2 with
      | none => simp [hpe] at h
      | some q3 =>
        obtain ⟨ep, r3⟩ := q3
        simp only [hpe, Option.some.injEq, Prod.mk.injEq] at h
        obtain ⟨hd, hne, hl⟩ := pInt_shape bs ip r1 hpi
        obtain ⟨fo, hfp, hwf⟩ := pFrac_shape r1 fp r2 hpf
        obtain ⟨eo, hep, hwe⟩ := pExp_shape r2 ep r3 hpe
        refine ⟨⟨s, ip, fo, eo⟩, rfl, ⟨hd, hne, hwf, hwe⟩, hl, ?_⟩
        rw [← h.1, hfp, hep]
        simp [render, List.append_assoc]

/-- **anatomy of an RFC 8259 number literal** (`lit` is the literal the specification reads at the head
of `bs`; in particular any `lit` with `pNumber lit = some (lit, [])`) -/
theorem pNumber_parts (bs lit rest : Bytes) (h : Spec.pNumber bs = some (lit, rest)) :
    ∃ p : Parts, p.WF ∧ Lead p.ip ∧ lit = render p := by
  cases bs with
  | nil => cases h
  | cons b r =>
    simp only [Spec.pNumber] at h
    by_cases hb : b = 45
    · subst hb
      simp only [↓reduceIte] at h
      cases hp : Spec.pUnsigned r with
      | none => simp [hp] at h
      | some q =>
        simp only [hp, Option.map_some, Option.some.injEq, Prod.mk.injEq] at h
        obtain ⟨p, _, hw, hl, hr⟩ := pUnsigned_parts r q.1 q.2 (by rw [hp]) true
        refine ⟨p, hw, hl, ?_⟩
        rw [← hr, ← h.1]; rfl
    · simp only [hb, ↓reduceIte] at h
      obtain ⟨p, _, hw, hl, hr⟩ := pUnsigned_parts (b :: r) lit rest h false
      exact ⟨p, hw, hl, by rw [← hr]; rfl⟩

end OjgVerif.Json
