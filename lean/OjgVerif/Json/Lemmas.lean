import OjgVerif.Json.Tables
/-! Helper lemmas for the JSON machine family: finite facts about the reference transition
function, and "the machine over any `TablesOK` table set is the machine over the reference". -/
namespace OjgVerif.Json
open OjgVerif

theorem Mode.mem_all (m : Mode) : m ∈ Mode.all := by
  cases m <;> decide

/-- lift a Boolean check over all modes and all 256 byte values to a universally quantified fact -/
theorem forall_mode_byte (P : Mode → UInt8 → Bool)
    (h : (Mode.all.all fun m => (List.range 256).all fun i => P m (UInt8.ofNat i)) = true) :
    ∀ m b, P m b = true := by
  intro m b
  simp only [List.all_eq_true, List.mem_range] at h
  have := h m (Mode.mem_all m) b.toNat b.toNat_lt
  simpa using this

theorem escOk_only_in_esc (m : Mode) (b : UInt8) (h : expected m b = .escOk) : m = .esc := by
  have := forall_mode_byte (fun m b => !(expected m b == .escOk) || m == .esc) (by decide +kernel) m b
  simpa [h] using this

theorem close_not_in_comma (b : UInt8) :
    expected .comma b ≠ .closeObject ∧ expected .comma b ≠ .closeArray := by
  have := forall_mode_byte (fun m b => !(m == .comma) || (expected m b != .closeObject && expected m b != .closeArray))
    (by decide +kernel) .comma b
  simpa using this

variable {T : Tables} (hT : TablesOK T) (cfg : Cfg)
include hT

theorem act_eq_ref : T.act = refTables.act :=
  funext fun m => funext fun b => hT.act m b

theorem stepToken_eq_ref (s : St) (b : UInt8) : stepToken T s b = stepToken refTables s b := by
  unfold stepToken
  rw [act_eq_ref hT]

theorem fin_eq_ref_of_close (s : St) (b : UInt8)
    (h : expected s.mode b = .closeObject ∨ expected s.mode b = .closeArray) :
    T.fin s.mode = refTables.fin s.mode := by
  apply hT.fin
  intro hc
  rw [hc] at h
  have := close_not_in_comma b
  rcases h with h | h
  · exact this.1 h
  · exact this.2 h

theorem flushNum_eq_ref_of_close (s : St) (b : UInt8)
    (h : expected s.mode b = .closeObject ∨ expected s.mode b = .closeArray) :
    s.flushNum T = s.flushNum refTables := by
  unfold St.flushNum
  rw [fin_eq_ref_of_close hT s b h]

theorem stepAct_eq_ref (s : St) (b : UInt8) : stepAct T cfg s b = stepAct refTables cfg s b := by
  unfold stepAct
  rw [act_eq_ref hT]
  cases hact : refTables.act s.mode b <;> simp only [stepToken_eq_ref hT]
  case escOk =>
    have hm := escOk_only_in_esc _ _ hact
    rw [hm] at hact
    rw [hT.esc b hact]
    rfl
  case closeObject =>
    rw [fin_eq_ref_of_close hT s b (Or.inl hact), flushNum_eq_ref_of_close hT s b (Or.inl hact)]
  case closeArray =>
    rw [flushNum_eq_ref_of_close hT s b (Or.inr hact)]

end OjgVerif.Json

namespace OjgVerif.Json
open OjgVerif

/-- control invariant: in `after` and `comma` mode a container is open (a complete top-level value
is delivered at once, which leaves `after` mode); the mode a string returns to is `colon` or `after` -/
structure CtlInv (s : St) : Prop where
  after : s.mode = .after → s.starts ≠ []
  comma : s.mode = .comma → s.starts ≠ []
  next : s.nextMode = .colon ∨ s.nextMode = .after

theorem CtlInv.init : CtlInv {} := ⟨(by intro h; cases h), (by intro h; cases h), Or.inr rfl⟩

theorem St.add_ctl {s s' : St} {v : JV} (h : s.add v = .ok s') :
    s'.mode = s.mode ∧ s'.nextMode = s.nextMode ∧ s'.starts = s.starts := by
  unfold St.add at h
  split at h
  · cases h; exact ⟨rfl, rfl, rfl⟩
  · cases h

theorem St.addNum_ctl {s s' : St} (h : s.addNum = .ok s') :
    s'.mode = s.mode ∧ s'.nextMode = s.nextMode ∧ s'.starts = s.starts := St.add_ctl h

theorem afterCommaMode_ne_after (s : St) : afterCommaMode s ≠ .after := by
  unfold afterCommaMode; split <;> simp


theorem Except.bind_ok {ε α β : Type} {x : Except ε α} {f : α → Except ε β} {y : β}
    (h : (x >>= f) = .ok y) : ∃ a, x = .ok a ∧ f a = .ok y := by
  cases x with
  | error e => cases h
  | ok a => exact ⟨a, rfl, h⟩

/-- what `stepAct` guarantees before `deliver` runs -/
structure CtlPre (s : St) (cont : Bool) : Prop where
  after : cont = true → s.mode = .after → s.starts ≠ []
  comma : s.mode = .comma → s.starts ≠ []
  next : s.nextMode = .colon ∨ s.nextMode = .after

theorem afterComma_only_in_after (m : Mode) (b : UInt8) (h : expected m b = .afterComma) : m = .after := by
  have := forall_mode_byte (fun m b => !(expected m b == .afterComma) || m == .after) (by decide +kernel) m b
  simpa [h] using this

theorem St.flushNum_ctl {T : Tables} {s s' : St} (h : s.flushNum T = .ok s') :
    s'.mode = s.mode ∧ s'.nextMode = s.nextMode ∧ s'.starts = s.starts := by
  unfold St.flushNum at h
  split at h
  · exact St.addNum_ctl h
  · cases h; exact ⟨rfl, rfl, rfl⟩

theorem St.popObj_ctl {s s' : St} {rest : List Bool} (h : s.popObj rest = .ok s') :
    s'.mode = s.mode ∧ s'.nextMode = s.nextMode ∧ s'.starts = rest := by
  unfold St.popObj at h
  split at h
  · cases h
  · exact St.add_ctl h

theorem St.popArr_ctl {s s' : St} {rest : List Bool} (h : s.popArr rest = .ok s') :
    s'.mode = s.mode ∧ s'.nextMode = s.nextMode ∧ s'.starts = rest := by
  unfold St.popArr at h
  split at h
  · cases h
  · exact St.add_ctl h

theorem stepToken_ctl (T : Tables) (s s' : St) (b : UInt8) (h : stepToken T s b = .ok s') :
    s'.starts = s.starts ∧ s'.nextMode = s.nextMode ∧ (s'.mode = s.mode ∨ s'.mode = .after) := by
  unfold stepToken at h
  simp only at h
  by_cases h1 : T.act s.mode 114 = .tokenOk
  · rw [if_pos h1] at h
    by_cases h2 : [116, 114, 117, 101].getD (s.ri + 1) 0 = b
    · rw [if_pos h2] at h
      by_cases h3 : 3 ≤ s.ri + 1
      · rw [if_pos h3] at h
        have := St.add_ctl h
        simp_all
      · rw [if_neg h3] at h; cases h; simp
    · rw [if_neg h2] at h; cases h
  · rw [if_neg h1] at h
    by_cases h1' : T.act s.mode 97 = .tokenOk
    · rw [if_pos h1'] at h
      by_cases h2 : [102, 97, 108, 115, 101].getD (s.ri + 1) 0 = b
      · rw [if_pos h2] at h
        by_cases h3 : 4 ≤ s.ri + 1
        · rw [if_pos h3] at h
          have := St.add_ctl h
          simp_all
        · rw [if_neg h3] at h; cases h; simp
      · rw [if_neg h2] at h; cases h
    · rw [if_neg h1'] at h
      by_cases h1'' : (T.act s.mode 117 = .tokenOk && T.act s.mode 108 = .tokenOk) = true
      · rw [if_pos h1''] at h
        by_cases h2 : [110, 117, 108, 108].getD (s.ri + 1) 0 = b
        · rw [if_pos h2] at h
          by_cases h3 : 3 ≤ s.ri + 1
          · rw [if_pos h3] at h
            have := St.add_ctl h
            simp_all
          · rw [if_neg h3] at h; cases h; simp
        · rw [if_neg h2] at h; cases h
      · rw [if_neg h1''] at h; cases h; simp

theorem stepAct_ctl (cfg : Cfg) (s s' : St) (b : UInt8) (cont : Bool) (hi : CtlInv s)
    (h : stepAct refTables cfg s b = .ok (s', cont)) : CtlPre s' cont := by
  have ha := hi.after
  have hc := hi.comma
  have hn := hi.next
  unfold stepAct at h
  split at h
  case h_6 heq =>  -- afterComma
    have hm := afterComma_only_in_after _ _ heq
    simp only [Except.ok.injEq, Prod.mk.injEq] at h; obtain ⟨rfl, rfl⟩ := h
    exact ⟨fun _ h => absurd h (afterCommaMode_ne_after s), fun _ => ha hm, hn⟩
  case h_8 =>  -- numComma
    obtain ⟨s1, h1, h⟩ := Except.bind_ok h
    have := St.addNum_ctl h1
    split at h
    · cases h
    · rename_i hd tl hst
      simp only [pure, Except.pure, Except.ok.injEq, Prod.mk.injEq] at h; obtain ⟨rfl, rfl⟩ := h
      refine ⟨(fun h => nomatch h), fun _ => ?_, by simp_all⟩
      simp [hst]
  case h_12 =>  -- closeObject
    split at h
    · split at h
      · cases h
      · obtain ⟨s1, h1, h⟩ := Except.bind_ok h
        obtain ⟨s2, h2, h⟩ := Except.bind_ok h
        have := St.flushNum_ctl h1
        have := St.popObj_ctl h2
        simp only [pure, Except.pure, Except.ok.injEq, Prod.mk.injEq] at h; obtain ⟨rfl, rfl⟩ := h
        exact ⟨(fun h => nomatch h), (fun h => nomatch h), by simp_all⟩
    · cases h
  case h_18 =>  -- closeArray
    split at h
    · obtain ⟨s1, h1, h⟩ := Except.bind_ok h
      obtain ⟨s2, h2, h⟩ := Except.bind_ok h
      have := St.flushNum_ctl h1
      have := St.popArr_ctl h2
      simp only [pure, Except.pure, Except.ok.injEq, Prod.mk.injEq] at h; obtain ⟨rfl, rfl⟩ := h
      exact ⟨(fun h => nomatch h), (fun h => nomatch h), by simp_all⟩
    · cases h
  case h_25 =>  -- strQuote
    split at h
    · simp only [Except.ok.injEq, Prod.mk.injEq] at h; obtain ⟨rfl, rfl⟩ := h
      refine ⟨(fun h => nomatch h), ?_, hn⟩
      intro hm; rcases hn with h | h <;> simp_all
    · obtain ⟨s1, h1, h⟩ := Except.bind_ok h
      have := St.add_ctl h1
      simp only [pure, Except.pure, Except.ok.injEq, Prod.mk.injEq] at h; obtain ⟨rfl, rfl⟩ := h
      refine ⟨(fun h => nomatch h), ?_, by simp_all⟩
      intro hm; rcases hn with h | h <;> simp_all
  case h_29 =>  -- numSpc
    obtain ⟨s1, h1, h⟩ := Except.bind_ok h
    have := St.addNum_ctl h1
    simp only [pure, Except.pure, Except.ok.injEq, Prod.mk.injEq] at h; obtain ⟨rfl, rfl⟩ := h
    exact ⟨(fun h => nomatch h), (fun h => nomatch h), by simp_all⟩
  case h_30 =>  -- numNewline
    obtain ⟨s1, h1, h⟩ := Except.bind_ok h
    have := St.addNum_ctl h1
    simp only [pure, Except.pure, Except.ok.injEq, Prod.mk.injEq] at h; obtain ⟨rfl, rfl⟩ := h
    exact ⟨(fun h => nomatch h), (fun h => nomatch h), by simp_all⟩
  case h_33 =>  -- uOk
    simp only [Except.ok.injEq, Prod.mk.injEq] at h; obtain ⟨rfl, rfl⟩ := h
    refine ⟨?_, ?_, hn⟩
    · intro _; simp only; split <;> simp_all
    · simp only; split <;> simp_all
  case h_34 =>  -- tokenOk
    obtain ⟨s1, h1, h⟩ := Except.bind_ok h
    have := stepToken_ctl _ _ _ _ h1
    simp only [pure, Except.pure, Except.ok.injEq, Prod.mk.injEq] at h; obtain ⟨rfl, rfl⟩ := h
    refine ⟨(fun h => nomatch h), ?_, by simp_all⟩
    intro hm
    rcases this.2.2 with h | h
    · rw [this.1]; exact hc (h ▸ hm)
    · rw [h] at hm; cases hm
  case h_35 => cases h
  all_goals (simp only [Except.ok.injEq, Prod.mk.injEq] at h; obtain ⟨rfl, rfl⟩ := h; constructor <;> simp_all)


theorem fin_a_eq_ref {T : Tables} (hT : TablesOK T) (m : Mode) :
    decide (T.fin m = .a) = decide (refTables.fin m = .a) := by
  by_cases hm : m = .comma
  · subst hm
    have := hT.finComma.1
    simp [refTables, expectedFin, this]
  · rw [hT.fin m hm]; rfl

theorem deliver_eq_ref {T : Tables} (hT : TablesOK T) (cfg : Cfg) (s : St) :
    deliver T cfg s = deliver refTables cfg s := by
  unfold deliver
  simp only [fin_a_eq_ref hT]

theorem step_eq_ref {T : Tables} (hT : TablesOK T) (cfg : Cfg) (s : St) (b : UInt8) :
    step T cfg s b = step refTables cfg s b := by
  unfold step
  rw [stepAct_eq_ref hT, act_eq_ref hT]
  simp only [deliver_eq_ref hT]

theorem runBytes_eq_ref {T : Tables} (hT : TablesOK T) (cfg : Cfg) (bs : Bytes) (s : St) :
    runBytes T cfg s bs = runBytes refTables cfg s bs := by
  induction bs generalizing s with
  | nil => rfl
  | cons b r ih =>
    simp only [runBytes, step_eq_ref hT]
    split
    · rfl
    · exact ih _

theorem runChunks_eq_ref {T : Tables} (hT : TablesOK T) (cfg : Cfg) (cs : List Bytes) (s : St) :
    runChunks T cfg s cs = runChunks refTables cfg s cs := by
  induction cs generalizing s with
  | nil => rfl
  | cons c r ih =>
    simp only [runChunks, runBytes_eq_ref hT]
    split
    · rfl
    · exact ih _

theorem deliver_ctl (cfg : Cfg) (s : St) (cont : Bool) (h : CtlPre s cont) :
    CtlInv (if cont then s else deliver refTables cfg s) := by
  cases cont with
  | true => exact ⟨h.after rfl, h.comma, h.next⟩
  | false =>
    simp only [Bool.false_eq_true, ↓reduceIte]
    unfold deliver
    split
    · rename_i hc
      refine ⟨?_, ?_, h.next⟩ <;> (simp only; split <;> intro hm <;> cases hm)
    · rename_i hc
      refine ⟨?_, h.comma, h.next⟩
      intro hm hs
      apply hc
      simp [hs, hm, refTables, expectedFin]

theorem step_ctl (cfg : Cfg) (s s' : St) (b : UInt8) (hi : CtlInv s)
    (h : step refTables cfg s b = .ok s') : CtlInv s' := by
  unfold step at h
  split at h
  · cases h
  · rename_i s1 cont h1
    have hp := stepAct_ctl cfg s s1 b cont hi h1
    have hd := deliver_ctl cfg s1 cont hp
    simp only [Except.ok.injEq] at h
    subst h
    exact ⟨hd.after, hd.comma, hd.next⟩

theorem runBytes_ctl (cfg : Cfg) (bs : Bytes) (s s' : St) (hi : CtlInv s)
    (h : runBytes refTables cfg s bs = .ok s') : CtlInv s' := by
  induction bs generalizing s with
  | nil => cases h; exact hi
  | cons b r ih =>
    simp only [runBytes] at h
    split at h
    · cases h
    · rename_i s1 h1
      exact ih s1 (step_ctl cfg s s1 b hi h1) h

theorem runChunks_ctl (cfg : Cfg) (cs : List Bytes) (s s' : St) (hi : CtlInv s)
    (h : runChunks refTables cfg s cs = .ok s') : CtlInv s' := by
  induction cs generalizing s with
  | nil => cases h; exact hi
  | cons c r ih =>
    simp only [runChunks] at h
    split at h
    · cases h
    · rename_i s1 h1
      have h2 := runBytes_ctl cfg c s s1 hi h1
      exact ih { s1 with inFast := false } ⟨h2.after, h2.comma, h2.next⟩ h

theorem finish_eq_ref {T : Tables} (hT : TablesOK T) (s : St) (hi : CtlInv s) :
    finish T s = finish refTables s := by
  unfold finish
  by_cases hm : s.mode = .comma
  · have := hi.comma hm
    have he : s.starts.isEmpty = false := by
      cases hs : s.starts with
      | nil => exact absurd hs this
      | cons _ _ => rfl
    simp [he]
  · rw [hT.fin _ hm]; rfl

/-- **The machine over any table set that passes `TablesOK` is the reference automaton**: same
outcome (documents, values, error line/column/kind) for every configuration and every chunking. -/
theorem run_eq_ref {T : Tables} (hT : TablesOK T) (cfg : Cfg) (chunks : List Bytes) :
    run T cfg chunks = run refTables cfg chunks := by
  unfold run
  simp only
  split
  · exact finish_eq_ref hT _ CtlInv.init
  · split
    · rfl
    · rw [runChunks_eq_ref hT]
      split
      · rfl
      · rename_i s hs
        exact finish_eq_ref hT s (runChunks_ctl cfg _ _ s CtlInv.init hs)
    · rw [runChunks_eq_ref hT]
      split
      · rfl
      · rename_i s hs
        exact finish_eq_ref hT s (runChunks_ctl cfg _ _ s CtlInv.init hs)

end OjgVerif.Json
